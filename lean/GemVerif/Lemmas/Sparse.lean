/-
  C06 — helper lemmas about `Model/Sparse.lean` over ℝ: selection, inertness of zero rows, the hierarchy invariant after
  `_update_weights`, common group factors, histories.  Uses the C05 facts (`Props/C05.lean`: `hier_prox_feasible`,
  `flatGroup_scatter`).
-/
import GemVerif.NumReal
import GemVerif.Model.Sparse
import GemVerif.Lemmas.ProxModel
import GemVerif.Props.C05

namespace GemVerif.Model.Sparse
open scoped BigOperators
open GemVerif RealLike GemVerif.Model.Prox GemVerif.Model.Nets GemVerif.Spec.Prox

variable {d h K n : ℕ}

/-! ### selection -/

theorem rowSelected_iff (W : Fin d → Fin h → ℝ) (i : Fin d) : rowSelected W i = true ↔ W i ≠ 0 := by
  unfold rowSelected
  simp only [beq_real, Bool.not_eq_true', decide_eq_false_iff_not]
  exact not_congr norm2_eq_zero

theorem sum_indicator_eq_length_filter {ι : Type} (p : ι → Bool) (l : List ι) :
    (l.map fun i => if p i then 1 else 0).sum = (l.filter p).length := by
  induction l with
  | nil => rfl
  | cons a l ih =>
    by_cases ha : p a = true
    · simp [ha, ih]; omega
    · simp [ha, ih]

/-! ### zero rows are inert -/

/-- `X @ W + b` does not see column `i₀` of `X` when row `i₀` of `W` is zero -/
theorem affine_congr_of_zero_row (X X' : Fin n → Fin d → ℝ) (W : Fin d → Fin K → ℝ) (b : Fin K → ℝ) (i₀ : Fin d)
    (hW : W i₀ = 0) (hX : ∀ r j, j ≠ i₀ → X r j = X' r j) : affine X W b = affine X' W b := by
  funext r k
  unfold affine
  rw [sumFin_eq_sum, sumFin_eq_sum]
  congr 1
  refine Finset.sum_congr rfl fun j _ => ?_
  by_cases hj : j = i₀
  · subst hj; rw [hW]; simp
  · rw [hX r j hj]

/-- the same for the columns of a whole set `S` of zero rows -/
theorem affine_congr_of_zero_rows (X X' : Fin n → Fin d → ℝ) (W : Fin d → Fin K → ℝ) (b : Fin K → ℝ)
    (hX : ∀ r j, W j ≠ 0 → X r j = X' r j) : affine X W b = affine X' W b := by
  funext r k
  unfold affine
  rw [sumFin_eq_sum, sumFin_eq_sum]
  congr 1
  refine Finset.sum_congr rfl fun j _ => ?_
  by_cases hj : W j = 0
  · rw [hj]; simp
  · rw [hX r j hj]

theorem skip_congr_of_zero_rows (X X' : Fin n → Fin d → ℝ) (Ws : Fin d → Fin K → ℝ)
    (hX : ∀ r j, Ws j ≠ 0 → X r j = X' r j) (r : Fin n) (k : Fin K) :
    (sumFin fun j => X r j * Ws j k) = sumFin fun j => X' r j * Ws j k := by
  rw [sumFin_eq_sum, sumFin_eq_sum]
  refine Finset.sum_congr rfl fun j _ => ?_
  by_cases hj : Ws j = 0
  · rw [hj]; simp
  · rw [hX r j hj]

/-! ### the hierarchy constraint after the proximal step -/

/-- every zero skip row has a zero first-layer row -/
def HierInv (w : MlpW ℝ d h K) : Prop := ∀ i, w.Ws i = 0 → w.W1 i = 0

/-- group form: a group whose skip rows are all zero has all its first-layer rows zero -/
def GroupHierInv (groups : List (List (Fin d))) (w : MlpW ℝ d h K) : Prop :=
  ∀ g ∈ groups, (∀ i ∈ g, w.Ws i = 0) → ∀ i ∈ g, w.W1 i = 0

/-- HIER-PROX feasibility (C05) read at `β* = 0` -/
theorem hierProxRow_zero {k : ℕ} (v : Fin k → ℝ) (u : Fin h → ℝ) (al : ℝ) {M : ℝ} (hM : 0 ≤ M)
    (hβ : (hierProxRow v u al M).1 = 0) : (hierProxRow v u al M).2 = 0 := by
  funext j
  have hf := Props.C05.hier_prox_feasible v u al hM j
  rw [hβ] at hf
  have h0 : ‖toE (0 : Fin k → ℝ)‖ = 0 := by
    rw [toE_norm]; simp
  rw [h0, mul_zero] at hf
  exact abs_nonpos_iff.mp hf

theorem collectRows_some {m : ℕ} {f : Fin d → Option (Fin m → ℝ)} {F : Fin d → Fin m → ℝ}
    (hc : collectRows f = some F) : ∀ i, f i = some (F i) := by
  unfold collectRows at hc
  split at hc
  · rename_i hall
    injection hc with hc
    intro i
    have hi : (f i).isSome = true := by
      have := List.all_eq_true.mp hall i (List.mem_finRange i)
      exact this
    obtain ⟨z, hz⟩ := Option.isSome_iff_exists.mp hi
    rw [← hc]; simp [hz]
  · cases hc

/-- what `proxMlp` with groups returns, row by row -/
theorem proxMlp_group_rows {gs : List (List (Fin d))} {M al lr : ℝ} {w w' : MlpW ℝ d h K}
    (hp : proxMlp (some gs) M al lr w = some w') :
    (∀ i, (groupMlpProx gs w.Ws w.W1 (threshold al lr) M).1 i = some (w'.Ws i)) ∧
    (∀ i, (groupMlpProx gs w.Ws w.W1 (threshold al lr) M).2 i = some (w'.W1 i)) ∧
    w'.W2 = w.W2 ∧ w'.b1 = w.b1 ∧ w'.b2 = w.b2 := by
  unfold proxMlp at hp
  simp only at hp
  split at hp
  · rename_i Ws' W1' h1 h2
    injection hp with hp
    subst hp
    exact ⟨collectRows_some h1, collectRows_some h2, rfl, rfl, rfl⟩
  · cases hp

theorem proxLinear_group_rows {gs : List (List (Fin d))} {al lr : ℝ} {w w' : LinW ℝ d K}
    (hp : proxLinear (some gs) al lr w = some w') :
    (∀ i, groupLinearProx gs w.W (threshold al lr) i = some (w'.W i)) ∧ w'.b = w.b := by
  unfold proxLinear at hp
  simp only [Option.map_eq_some_iff] at hp
  obtain ⟨W', hW, rfl⟩ := hp
  exact ⟨collectRows_some hW, rfl⟩

/-! ### histories -/

/-- an invariant established by every proximal step holds in every state a history can reach -/
theorem runEvs_inv {W : Type} (prox : ℝ → ℝ → W → Option W) (Inv : W → Prop)
    (hprox : ∀ a lr w w', prox a lr w = some w' → Inv w') :
    ∀ (evs : List (Ev W ℝ)) (s s' : HState W), (∀ w, s.cur = some w → Inv w) → (∀ w, s.snap = some w → Inv w) →
      runEvs prox s evs = some s' → (∀ w, s'.cur = some w → Inv w) ∧ (∀ w, s'.snap = some w → Inv w) := by
  intro evs
  induction evs with
  | nil =>
    intro s s' hc hs hr
    injection hr with hr; subst hr; exact ⟨hc, hs⟩
  | cons e evs ih =>
    intro s s' hc hs hr
    unfold runEvs at hr
    cases hstep : stepEv prox s e with
    | none => rw [hstep] at hr; cases hr
    | some s1 =>
      rw [hstep] at hr
      simp only [Option.bind_some] at hr
      refine ih s1 s' ?_ ?_ hr
      · -- current weights of s1
        intro w hw
        cases e with
        | update init opt a lr =>
          unfold stepEv at hstep
          simp only at hstep
          split at hstep
          · cases hstep
          · rename_i w0 _
            simp only [Option.map_eq_some_iff] at hstep
            obtain ⟨w1, hw1, rfl⟩ := hstep
            simp only at hw
            injection hw with hw; subst hw
            exact hprox _ _ _ _ hw1
        | snapshot =>
          unfold stepEv at hstep
          simp only [Option.map_eq_some_iff] at hstep
          obtain ⟨w1, hw1, rfl⟩ := hstep
          exact hc w hw
        | restore =>
          unfold stepEv at hstep
          simp only [Option.map_eq_some_iff] at hstep
          obtain ⟨w1, hw1, rfl⟩ := hstep
          simp only at hw
          injection hw with hw; subst hw
          exact hs _ hw1
      · intro w hw
        cases e with
        | update init opt a lr =>
          unfold stepEv at hstep
          simp only at hstep
          split at hstep
          · cases hstep
          · simp only [Option.map_eq_some_iff] at hstep
            obtain ⟨w1, hw1, rfl⟩ := hstep
            exact hs w hw
        | snapshot =>
          unfold stepEv at hstep
          simp only [Option.map_eq_some_iff] at hstep
          obtain ⟨w1, hw1, rfl⟩ := hstep
          simp only at hw
          injection hw with hw; subst hw
          exact hc _ hw1
        | restore =>
          unfold stepEv at hstep
          simp only [Option.map_eq_some_iff] at hstep
          obtain ⟨w1, hw1, rfl⟩ := hstep
          exact hs w hw

/-- every prefix of a successful history is a successful history -/
theorem runEvs_append {W : Type} (prox : ℝ → ℝ → W → Option W) (evs₁ evs₂ : List (Ev W ℝ)) (s s' : HState W)
    (h : runEvs prox s (evs₁ ++ evs₂) = some s') : ∃ s₁, runEvs prox s evs₁ = some s₁ ∧ runEvs prox s₁ evs₂ = some s' := by
  induction evs₁ generalizing s with
  | nil => exact ⟨s, rfl, h⟩
  | cons e evs ih =>
    rw [List.cons_append] at h
    simp only [runEvs] at h ⊢
    cases hstep : stepEv prox s e with
    | none => rw [hstep] at h; cases h
    | some s1 =>
      rw [hstep] at h
      simp only [Option.bind_some] at h ⊢
      exact ih s1 h

/-! ### `check_groups` -/

theorem hasDup_iff (l : List Int) : hasDup l = true ↔ ¬ l.Nodup := by
  induction l with
  | nil => simp [hasDup]
  | cons x xs ih =>
    unfold hasDup
    rw [Bool.or_eq_true, ih, List.nodup_cons, List.contains_iff_mem]
    tauto

/-- pigeonhole: a list of `n` integers of `[0, n)` contains every one of them iff it has no duplicate -/
theorem covers_iff_nodup (l : List Int) (n : ℕ) (hlen : l.length = n) (hr : ∀ i ∈ l, 0 ≤ i ∧ i < n) :
    (∀ i : ℕ, i < n → (i : Int) ∈ l) ↔ l.Nodup := by
  classical
  let R : Finset Int := (Finset.range n).image fun i : ℕ => (i : Int)
  have hRcard : R.card = n := by
    rw [Finset.card_image_of_injective _ (fun a b hab => by exact_mod_cast hab), Finset.card_range]
  have hsub : l.toFinset ⊆ R := by
    intro x hx
    obtain ⟨h0, h1⟩ := hr x (List.mem_toFinset.mp hx)
    refine Finset.mem_image.mpr ⟨x.toNat, Finset.mem_range.mpr (by omega), by omega⟩
  constructor
  · intro hcov
    have hsup : R ⊆ l.toFinset := by
      intro x hx
      obtain ⟨i, hi, rfl⟩ := Finset.mem_image.mp hx
      exact List.mem_toFinset.mpr (hcov i (Finset.mem_range.mp hi))
    have heq : l.toFinset = R := Finset.Subset.antisymm hsub hsup
    have hc : l.toFinset.card = l.length := by rw [heq, hRcard, hlen]
    have hm : (l : Multiset Int).toFinset.card = Multiset.card (l : Multiset Int) := by
      rw [Multiset.coe_card]; exact hc
    exact Multiset.coe_nodup.mp (Multiset.toFinset_card_eq_card_iff_nodup.mp hm)
  · intro hnd i hi
    have hc : l.toFinset.card = R.card := by rw [List.toFinset_card_of_nodup hnd, hRcard, hlen]
    have heq : l.toFinset = R := Finset.eq_of_subset_of_card_le hsub (by rw [hc])
    have : (i : Int) ∈ R := Finset.mem_image.mpr ⟨i, Finset.mem_range.mpr hi, rfl⟩
    rw [← heq] at this
    exact List.mem_toFinset.mp this

/-- `check_groups` evaluated: the Boolean tests of the code as propositions about `all_indices` -/
theorem checkAll_eval (gs : List (List Int)) (all : List Int) (n : ℕ) :
    checkAll gs all n =
      if ¬ (∀ i ∈ all, 0 ≤ i ∧ i < n) then .error .outOfRange
      else if all.length = n then (if all.Nodup then .ok (some gs) else .error .notPartition)
      else if all.Nodup then .ok (some (gs ++ singletons all n)) else .error .duplicate := by
  classical
  unfold checkAll
  by_cases hr : ∀ i ∈ all, 0 ≤ i ∧ i < n
  · have hany : (all.any (fun i => decide (i < 0)) || all.any fun i => decide (i ≥ (n : Int))) = false := by
      rw [Bool.or_eq_false_iff]
      constructor
      · rw [List.any_eq_false]; intro i hi; simpa using (hr i hi).1
      · rw [List.any_eq_false]; intro i hi; simpa using (hr i hi).2
    rw [hany, if_neg (not_not.mpr hr)]
    simp only [Bool.false_eq_true, if_false]
    by_cases hlen : all.length = n
    · rw [if_pos hlen]
      have hb : (all.length == n) = true := by simpa using hlen
      rw [hb]
      simp only [if_true]
      have hcov := covers_iff_nodup all n hlen hr
      by_cases hnd : all.Nodup
      · have : ((List.range n).all fun i : ℕ => all.contains (Int.ofNat i)) = true := by
          rw [List.all_eq_true]; intro i hi
          simpa using hcov.mpr hnd i (List.mem_range.mp hi)
        rw [this, if_pos hnd]; rfl
      · have : ((List.range n).all fun i : ℕ => all.contains (Int.ofNat i)) = false := by
          rw [Bool.eq_false_iff]; intro hall
          apply hnd; apply hcov.mp
          intro i hi
          have := List.all_eq_true.mp hall i (List.mem_range.mpr hi)
          simpa using this
        rw [this, if_neg hnd]; rfl
    · rw [if_neg hlen]
      have hb : (all.length == n) = false := by simpa using hlen
      rw [hb]
      simp only [Bool.false_eq_true, if_false]
      by_cases hnd : all.Nodup
      · have : hasDup all = false := by
          rw [Bool.eq_false_iff, Ne, hasDup_iff]; simpa using hnd
        rw [this, if_pos hnd]; rfl
      · have : hasDup all = true := (hasDup_iff _).mpr hnd
        rw [this, if_neg hnd]; rfl
  · have hany : (all.any (fun i => decide (i < 0)) || all.any fun i => decide (i ≥ (n : Int))) = true := by
      have hr' := hr
      rw [not_forall] at hr'
      obtain ⟨i, hi⟩ := hr'
      rw [Classical.not_imp] at hi
      obtain ⟨hi, hbad⟩ := hi
      rw [Bool.or_eq_true, List.any_eq_true, List.any_eq_true]
      by_cases h0 : i < 0
      · exact Or.inl ⟨i, hi, by simpa using h0⟩
      · exact Or.inr ⟨i, hi, by simp only [decide_eq_true_eq]; omega⟩
    rw [hany, if_pos hr]; rfl

theorem flatten_singletons (all : List Int) (n : ℕ) :
    (singletons all n).flatten = ((List.range n).filter fun i : ℕ => !(all.contains (Int.ofNat i))).map Int.ofNat := by
  unfold singletons
  generalize (List.range n).filter (fun i : ℕ => !(all.contains (Int.ofNat i))) = l
  induction l with
  | nil => rfl
  | cons a l ih => simp only [List.map_cons, List.flatten_cons, ih]; rfl

/-- the completed list covers `0 … n-1` exactly once -/
theorem completeGroups_perm (gs : List (List Int)) (n : ℕ) (hr : ∀ i ∈ gs.flatten, 0 ≤ i ∧ i < n)
    (hnd : gs.flatten.Nodup) : (completeGroups gs n).flatten.Perm ((List.range n).map Int.ofNat) := by
  unfold completeGroups
  rw [List.flatten_append, flatten_singletons]
  have hinj : Function.Injective Int.ofNat := fun a b hab => Int.ofNat.inj hab
  have hnd2 : (((List.range n).filter fun i : ℕ => !(gs.flatten.contains (Int.ofNat i))).map Int.ofNat).Nodup :=
    (List.nodup_range.filter _).map hinj
  refine (List.perm_ext_iff_of_nodup ?_ (List.nodup_range.map hinj)).mpr ?_
  · refine List.Nodup.append hnd hnd2 ?_
    intro x hx hx'
    obtain ⟨i, hi, rfl⟩ := List.mem_map.mp hx'
    have := (List.mem_filter.mp hi).2
    simp only [Bool.not_eq_true', List.contains_eq_mem, decide_eq_false_iff_not] at this
    exact this hx
  · intro x
    simp only [List.mem_append, List.mem_map, List.mem_filter, List.mem_range, Bool.not_eq_true',
      List.contains_eq_mem, decide_eq_false_iff_not]
    constructor
    · rintro (hx | ⟨i, ⟨hi, _⟩, rfl⟩)
      · obtain ⟨h0, h1⟩ := hr x hx
        exact ⟨x.toNat, by omega, by simp [Int.toNat_of_nonneg h0]⟩
      · exact ⟨i, hi, rfl⟩
    · rintro ⟨i, hi, rfl⟩
      by_cases hm : Int.ofNat i ∈ gs.flatten
      · exact Or.inl hm
      · exact Or.inr ⟨i, ⟨hi, hm⟩, rfl⟩

end GemVerif.Model.Sparse
