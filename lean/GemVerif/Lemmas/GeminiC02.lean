/- Helper lemmas for C02 (GEMINI gradients are exact derivatives). -/
import GemVerif.Lemmas.Gemini
import Mathlib.Analysis.Calculus.Deriv.Mul
import Mathlib.Analysis.Calculus.Deriv.Add
import Mathlib.Analysis.Calculus.Deriv.Inv
import Mathlib.Analysis.SpecialFunctions.Log.Deriv
import Mathlib.Analysis.SpecialFunctions.Sqrt
import Mathlib.Analysis.Calculus.Deriv.Abs

namespace GemVerif
open scoped BigOperators Topology
open Model Spec Filter

variable {n K : ℕ}

set_option linter.unusedSimpArgs false

/-! ### clipped entries -/

theorem clipMask_of_clipped {ε : ℝ} {P : Fin n → Fin K → ℝ} {i : Fin n} {k : Fin K}
    (h : P i k ≤ ε ∨ 1 - ε ≤ P i k) : clipMask ε P i k = 0 := by
  rcases h with h | h
  · simp [clipMask, RealLike.ofBool, not_lt.mpr h]
  · simp [clipMask, RealLike.ofBool, not_lt.mpr h]

/-! ### the line `t ↦ P + t V` -/

/-- the perturbed prediction matrix -/
def line (P V : Fin n → Fin K → ℝ) (t : ℝ) : Fin n → Fin K → ℝ := fun i k => P i k + t * V i k

@[simp] theorem line_zero (P V : Fin n → Fin K → ℝ) : line P V 0 = P := by
  funext i k; simp [line]

theorem line_apply (P V : Fin n → Fin K → ℝ) (t : ℝ) (i : Fin n) (k : Fin K) :
    line P V t i k = P i k + t * V i k := rfl

/-- `Interior` is an open condition along a line. -/
theorem interior_eventually {ε : ℝ} {P : Fin n → Fin K → ℝ} (hI : Interior ε P)
    (V : Fin n → Fin K → ℝ) : ∀ᶠ t in 𝓝 (0 : ℝ), Interior ε (line P V t) := by
  unfold Interior
  rw [eventually_all]; intro i
  rw [eventually_all]; intro k
  have hc : ContinuousAt (fun t : ℝ => line P V t i k) 0 := by
    unfold line; fun_prop
  have h1 : ∀ᶠ t in 𝓝 (0 : ℝ), ε < line P V t i k :=
    hc.eventually (lt_mem_nhds (by simpa using (hI i k).1))
  have h2 : ∀ᶠ t in 𝓝 (0 : ℝ), line P V t i k < 1 - ε :=
    hc.eventually (gt_mem_nhds (by simpa using (hI i k).2))
  exact h1.and h2

theorem hasDerivAt_line (P V : Fin n → Fin K → ℝ) (i : Fin n) (k : Fin K) :
    HasDerivAt (fun t : ℝ => line P V t i k) (V i k) 0 := by
  unfold line
  simpa using ((hasDerivAt_id (0 : ℝ)).mul_const (V i k)).const_add (P i k)

theorem hasDerivAt_pi_line (P V : Fin n → Fin K → ℝ) (k : Fin K) :
    HasDerivAt (fun t : ℝ => Spec.pi (line P V t) k) (Spec.pi V k) 0 := by
  unfold Spec.pi
  exact (HasDerivAt.fun_sum fun i _ => hasDerivAt_line P V i k).div_const _

/-! ### pairing a gradient with a direction -/

theorem sum_pi_term (B : Fin K → ℝ) (V : Fin n → Fin K → ℝ) :
    ∑ i, ∑ k, B k / n * V i k = ∑ k, B k * Spec.pi V k := by
  rw [Finset.sum_comm]
  refine Finset.sum_congr rfl fun k _ => ?_
  unfold Spec.pi
  rw [Finset.sum_div, Finset.mul_sum]
  refine Finset.sum_congr rfl fun i _ => ?_
  ring

/-- a gradient of the form `A i k + B k / n` paired with a direction -/
theorem grad_sum_split (G A : Fin n → Fin K → ℝ) (B : Fin K → ℝ) (V : Fin n → Fin K → ℝ)
    (h : ∀ i k, G i k = A i k + B k / n) :
    ∑ i, ∑ k, G i k * V i k = ∑ k, (∑ i, A i k * V i k + B k * Spec.pi V k) := by
  simp only [h, add_mul, Finset.sum_add_distrib, sum_pi_term]
  rw [Finset.sum_comm]

/-! ### `np.sign` and `|·|` -/

theorem sign_real_of_pos {x : ℝ} (h : 0 < x) : RealLike.sign x = 1 := by
  simp [RealLike.sign, h]

theorem sign_real_of_neg {x : ℝ} (h : x < 0) : RealLike.sign x = -1 := by
  simp [RealLike.sign, h, not_lt.mpr h.le]

/-- derivative of `|f|` away from the kink, with the model's `np.sign` -/
theorem hasDerivAt_abs_sign {f : ℝ → ℝ} {f' x : ℝ} (hf : HasDerivAt f f' x) (h0 : f x ≠ 0) :
    HasDerivAt (fun y => |f y|) (RealLike.sign (f x) * f') x := by
  rcases lt_or_gt_of_ne h0 with h | h
  · rw [sign_real_of_neg h]; exact (hasDerivAt_abs_neg h).comp x hf
  · rw [sign_real_of_pos h]; exact (hasDerivAt_abs_pos h).comp x hf

/-! ### score and gradient at interior points, as plain real formulas -/

theorem klScore_ova_interior {ε : ℝ} {P : Fin n → Fin K → ℝ} (hI : Interior ε P) :
    klScore ε false P
      = ∑ k, (∑ i, P i k * Real.log (P i k)) / n - ∑ k, Spec.pi P k * Real.log (Spec.pi P k) := by
  simp only [klScore, clipP_of_interior hI, tab_apply, mean0_eq_pi, meanV_eq, sumFin_eq_sum,
    RealLike.log_real, Bool.false_eq_true, if_false]

theorem klGrad_ova_interior {ε : ℝ} {P : Fin n → Fin K → ℝ} (hI : Interior ε P) (i : Fin n) (k : Fin K) :
    klGrad ε false P i k = Real.log (P i k) / n - Real.log (Spec.pi P k) / n := by
  simp only [klGrad, clipP_of_interior hI, tab_apply, mean0_eq_pi, meanV_eq, sumFin_eq_sum,
    RealLike.log_real, Bool.false_eq_true, if_false, clipMask_of_interior hI, mul_one, RealLike.nat_real]

theorem klScore_ovo_interior {ε : ℝ} {P : Fin n → Fin K → ℝ} (hI : Interior ε P) :
    klScore ε true P
      = ∑ k, (∑ i, P i k * Real.log (P i k)) / n
        - ∑ k, Spec.pi P k * ((∑ i, Real.log (P i k)) / n) := by
  simp only [klScore, clipP_of_interior hI, tab_apply, mean0_eq_pi, meanV_eq, sumFin_eq_sum,
    RealLike.log_real, if_true]

theorem klGrad_ovo_interior {ε : ℝ} {P : Fin n → Fin K → ℝ} (hI : Interior ε P) (i : Fin n) (k : Fin K) :
    klGrad ε true P i k = (Real.log (P i k) + 1) / n
      - (Spec.pi P k / P i k + (∑ j, Real.log (P j k)) / n) / n := by
  simp only [klGrad, clipP_of_interior hI, tab_apply, mean0_eq_pi, meanV_eq,
    RealLike.log_real, if_true, clipMask_of_interior hI, mul_one, RealLike.nat_real]

theorem chi2Score_ova_interior {ε : ℝ} {P : Fin n → Fin K → ℝ} (hI : Interior ε P) :
    chi2Score ε false P = 1 / 2 * ((∑ i, ∑ k, P i k * (P i k / Spec.pi P k)) / n) := by
  simp only [chi2Score, clipP_of_interior hI, tab_apply, mean0_eq_pi, meanV_eq, sumFin_eq_sum,
    RealLike.half_real, Bool.false_eq_true, if_false]

theorem chi2Grad_ova_interior {ε : ℝ} {P : Fin n → Fin K → ℝ} (hI : Interior ε P) (i : Fin n) (k : Fin K) :
    chi2Grad ε false P i k = 1 / 2 * ((2 * (P i k / Spec.pi P k)
      - (∑ j, (P j k / Spec.pi P k) * (P j k / Spec.pi P k)) / n) / n) := by
  simp only [chi2Grad, clipP_of_interior hI, tab_apply, tab2_apply, mean0_eq_pi, meanV_eq,
    RealLike.half_real, Bool.false_eq_true, if_false, clipMask_of_interior hI, mul_one,
    RealLike.nat_real, RealLike.sq, Nat.cast_ofNat]

theorem chi2Score_ovo_interior {ε : ℝ} {P : Fin n → Fin K → ℝ} (hI : Interior ε P) :
    chi2Score ε true P = 1 / 2 * ((∑ i, (∑ k, P i k * (P i k / Spec.pi P k))
      * (∑ k, Spec.pi P k / (P i k / Spec.pi P k))) / n) := by
  simp only [chi2Score, clipP_of_interior hI, tab_apply, mean0_eq_pi, meanV_eq, sumFin_eq_sum,
    RealLike.half_real, if_true]

theorem chi2Grad_ovo_interior {ε : ℝ} {P : Fin n → Fin K → ℝ} (hI : Interior ε P) (i : Fin n) (k : Fin K) :
    chi2Grad ε true P i k = 1 / 2 * ((2 * ((∑ c, Spec.pi P c / (P i c / Spec.pi P c)) * (P i k / Spec.pi P k))
      - (∑ c, P i c * (P i c / Spec.pi P c)) / (P i k / Spec.pi P k) / (P i k / Spec.pi P k)
      + (∑ j, (2 * ((∑ c, P j c * (P j c / Spec.pi P c)) / (P j k / Spec.pi P k))
          - (∑ c, Spec.pi P c / (P j c / Spec.pi P c)) * (P j k / Spec.pi P k) * (P j k / Spec.pi P k))) / n) / n) := by
  simp only [chi2Grad, clipP_of_interior hI, tab_apply, tab2_apply, mean0_eq_pi, meanV_eq, sumFin_eq_sum,
    RealLike.half_real, if_true, clipMask_of_interior hI, mul_one,
    RealLike.nat_real, Nat.cast_ofNat]

theorem hellingerScore_ova_interior {ε : ℝ} {P : Fin n → Fin K → ℝ} (hI : Interior ε P) :
    hellingerScore ε false P = 1 - (∑ i, ∑ k, Real.sqrt (P i k * Spec.pi P k)) / n := by
  simp only [hellingerScore, clipP_of_interior hI, tab_apply, mean0_eq_pi, meanV_eq, sumFin_eq_sum,
    RealLike.sqrt_real, Bool.false_eq_true, if_false]

theorem hellingerGrad_ova_interior {ε : ℝ} {P : Fin n → Fin K → ℝ} (hI : Interior ε P) (i : Fin n) (k : Fin K) :
    hellingerGrad ε false P i k = (-(1 / 2) * (Spec.pi P k / Real.sqrt (P i k * Spec.pi P k)
      + (∑ j, P j k / Real.sqrt (P j k * Spec.pi P k)) / n)) / n := by
  simp only [hellingerGrad, clipP_of_interior hI, tab_apply, tab2_apply, mean0_eq_pi, meanV_eq, sumFin_eq_sum,
    RealLike.half_real, RealLike.sqrt_real, Bool.false_eq_true, if_false, clipMask_of_interior hI, mul_one,
    RealLike.nat_real]

theorem hellingerScore_ovo_interior {ε : ℝ} {P : Fin n → Fin K → ℝ} (hI : Interior ε P) :
    hellingerScore ε true P = 1 - (∑ i, (∑ k, Real.sqrt (P i k * Spec.pi P k))
      * (∑ k, Real.sqrt (P i k * Spec.pi P k))) / n := by
  simp only [hellingerScore, clipP_of_interior hI, tab_apply, mean0_eq_pi, meanV_eq, sumFin_eq_sum,
    RealLike.sqrt_real, RealLike.sq, if_true]

theorem hellingerGrad_ovo_interior {ε : ℝ} {P : Fin n → Fin K → ℝ} (hI : Interior ε P) (i : Fin n) (k : Fin K) :
    hellingerGrad ε true P i k = (-(Spec.pi P k / Real.sqrt (P i k * Spec.pi P k)
        * (∑ c, Real.sqrt (P i c * Spec.pi P c))
      + (∑ j, P j k / Real.sqrt (P j k * Spec.pi P k) * (∑ c, Real.sqrt (P j c * Spec.pi P c))) / n)) / n := by
  have hest : ∀ j, 0 ≤ ∑ c, Real.sqrt (P j c * Spec.pi P c) := fun j =>
    Finset.sum_nonneg fun c _ => Real.sqrt_nonneg _
  simp only [hellingerGrad, clipP_of_interior hI, tab_apply, tab2_apply, mean0_eq_pi, meanV_eq, sumFin_eq_sum,
    RealLike.sqrt_real, RealLike.sq, if_true, clipMask_of_interior hI, mul_one,
    RealLike.nat_real, Real.sqrt_mul_self (hest _)]

theorem tvScore_ova_interior {ε : ℝ} {P : Fin n → Fin K → ℝ} (hI : Interior ε P) :
    tvScore ε false P = 1 / 2 * ∑ k, (∑ i, |P i k - Spec.pi P k|) / n := by
  simp only [tvScore, clipP_of_interior hI, tab_apply, mean0_eq_pi, meanV_eq, sumFin_eq_sum,
    RealLike.half_real, RealLike.abs_real, Bool.false_eq_true, if_false]

theorem tvGrad_ova_interior {ε : ℝ} {P : Fin n → Fin K → ℝ} (hI : Interior ε P) (i : Fin n) (k : Fin K) :
    tvGrad ε false P i k = 1 / 2 * ((RealLike.sign (P i k - Spec.pi P k)
      - (∑ j, RealLike.sign (P j k - Spec.pi P k)) / n) / n) := by
  simp only [tvGrad, clipP_of_interior hI, tab_apply, mean0_eq_pi, meanV_eq,
    RealLike.half_real, Bool.false_eq_true, if_false, clipMask_of_interior hI, mul_one,
    RealLike.nat_real]

end GemVerif
