/- Helper lemmas for C02 (GEMINI gradients are exact derivatives). -/
import GemVerif.Lemmas.Gemini
import Mathlib.Analysis.Calculus.Deriv.Mul
import Mathlib.Analysis.Calculus.Deriv.Add
import Mathlib.Analysis.Calculus.Deriv.Inv
import Mathlib.Analysis.SpecialFunctions.Log.Deriv
import Mathlib.Analysis.SpecialFunctions.Sqrt
import Mathlib.Analysis.Calculus.Deriv.Abs
import Mathlib.Data.Fin.VecNotation

namespace GemVerif
open scoped BigOperators Topology
open Model Spec Filter

variable {n K : ℕ}

set_option linter.unusedSimpArgs false

/-! ### clipped entries -/

theorem clipMask_of_clipped {ε : ℝ} {P : Fin n → Fin K → ℝ} {i : Fin n} {k : Fin K}
    (h : P i k ≤ ε ∨ 1 - ε ≤ P i k) : clipMask ε P i k = 0 := by
  rcases h with h | h
  · simp [clipMask, RealLike.ofBool, not_lt.mpr h]
  · simp [clipMask, RealLike.ofBool, not_lt.mpr h]

/-! ### the line `t ↦ P + t V` -/

/-- the perturbed prediction matrix -/
def line (P V : Fin n → Fin K → ℝ) (t : ℝ) : Fin n → Fin K → ℝ := fun i k => P i k + t * V i k

@[simp] theorem line_zero (P V : Fin n → Fin K → ℝ) : line P V 0 = P := by
  funext i k; simp [line]

theorem line_apply (P V : Fin n → Fin K → ℝ) (t : ℝ) (i : Fin n) (k : Fin K) :
    line P V t i k = P i k + t * V i k := rfl

/-- `Interior` is an open condition along a line. -/
theorem interior_eventually {ε : ℝ} {P : Fin n → Fin K → ℝ} (hI : Interior ε P)
    (V : Fin n → Fin K → ℝ) : ∀ᶠ t in 𝓝 (0 : ℝ), Interior ε (line P V t) := by
  unfold Interior
  rw [eventually_all]; intro i
  rw [eventually_all]; intro k
  have hc : ContinuousAt (fun t : ℝ => line P V t i k) 0 := by
    unfold line; fun_prop
  have h1 : ∀ᶠ t in 𝓝 (0 : ℝ), ε < line P V t i k :=
    hc.eventually (lt_mem_nhds (by simpa using (hI i k).1))
  have h2 : ∀ᶠ t in 𝓝 (0 : ℝ), line P V t i k < 1 - ε :=
    hc.eventually (gt_mem_nhds (by simpa using (hI i k).2))
  exact h1.and h2

theorem hasDerivAt_line (P V : Fin n → Fin K → ℝ) (i : Fin n) (k : Fin K) :
    HasDerivAt (fun t : ℝ => line P V t i k) (V i k) 0 := by
  unfold line
  simpa using ((hasDerivAt_id (0 : ℝ)).mul_const (V i k)).const_add (P i k)

theorem hasDerivAt_pi_line (P V : Fin n → Fin K → ℝ) (k : Fin K) :
    HasDerivAt (fun t : ℝ => Spec.pi (line P V t) k) (Spec.pi V k) 0 := by
  unfold Spec.pi
  exact (HasDerivAt.fun_sum fun i _ => hasDerivAt_line P V i k).div_const _

/-! ### pairing a gradient with a direction -/

theorem sum_pi_term (B : Fin K → ℝ) (V : Fin n → Fin K → ℝ) :
    ∑ i, ∑ k, B k / n * V i k = ∑ k, B k * Spec.pi V k := by
  rw [Finset.sum_comm]
  refine Finset.sum_congr rfl fun k _ => ?_
  unfold Spec.pi
  rw [Finset.sum_div, Finset.mul_sum]
  refine Finset.sum_congr rfl fun i _ => ?_
  ring

/-- a gradient of the form `A i k + B k / n` paired with a direction -/
theorem grad_sum_split (G A : Fin n → Fin K → ℝ) (B : Fin K → ℝ) (V : Fin n → Fin K → ℝ)
    (h : ∀ i k, G i k = A i k + B k / n) :
    ∑ i, ∑ k, G i k * V i k = ∑ k, (∑ i, A i k * V i k + B k * Spec.pi V k) := by
  simp only [h, add_mul, Finset.sum_add_distrib, sum_pi_term]
  rw [Finset.sum_comm]

/-! ### `np.sign` and `|·|` -/

theorem sign_real_of_pos {x : ℝ} (h : 0 < x) : RealLike.sign x = 1 := by
  simp [RealLike.sign, h]

theorem sign_real_of_neg {x : ℝ} (h : x < 0) : RealLike.sign x = -1 := by
  simp [RealLike.sign, h, not_lt.mpr h.le]

/-- derivative of `|f|` away from the kink, with the model's `np.sign` -/
theorem hasDerivAt_abs_sign {f : ℝ → ℝ} {f' x : ℝ} (hf : HasDerivAt f f' x) (h0 : f x ≠ 0) :
    HasDerivAt (fun y => |f y|) (RealLike.sign (f x) * f') x := by
  rcases lt_or_gt_of_ne h0 with h | h
  · rw [sign_real_of_neg h]; exact (hasDerivAt_abs_neg h).comp x hf
  · rw [sign_real_of_pos h]; exact (hasDerivAt_abs_pos h).comp x hf

/-! ### score and gradient at interior points, as plain real formulas -/

theorem klScore_ova_interior {ε : ℝ} {P : Fin n → Fin K → ℝ} (hI : Interior ε P) :
    klScore ε false P
      = ∑ k, (∑ i, P i k * Real.log (P i k)) / n - ∑ k, Spec.pi P k * Real.log (Spec.pi P k) := by
  simp only [klScore, clipP_of_interior hI, tab_apply, mean0_eq_pi, meanV_eq, sumFin_eq_sum,
    RealLike.log_real, Bool.false_eq_true, if_false]

theorem klGrad_ova_interior {ε : ℝ} {P : Fin n → Fin K → ℝ} (hI : Interior ε P) (i : Fin n) (k : Fin K) :
    klGrad ε false P i k = Real.log (P i k) / n - Real.log (Spec.pi P k) / n := by
  simp only [klGrad, clipP_of_interior hI, tab_apply, mean0_eq_pi, meanV_eq, sumFin_eq_sum,
    RealLike.log_real, Bool.false_eq_true, if_false, clipMask_of_interior hI, mul_one, RealLike.nat_real]

theorem klScore_ovo_interior {ε : ℝ} {P : Fin n → Fin K → ℝ} (hI : Interior ε P) :
    klScore ε true P
      = ∑ k, (∑ i, P i k * Real.log (P i k)) / n
        - ∑ k, Spec.pi P k * ((∑ i, Real.log (P i k)) / n) := by
  simp only [klScore, clipP_of_interior hI, tab_apply, mean0_eq_pi, meanV_eq, sumFin_eq_sum,
    RealLike.log_real, if_true]

theorem klGrad_ovo_interior {ε : ℝ} {P : Fin n → Fin K → ℝ} (hI : Interior ε P) (i : Fin n) (k : Fin K) :
    klGrad ε true P i k = (Real.log (P i k) + 1) / n
      - (Spec.pi P k / P i k + (∑ j, Real.log (P j k)) / n) / n := by
  simp only [klGrad, clipP_of_interior hI, tab_apply, mean0_eq_pi, meanV_eq,
    RealLike.log_real, if_true, clipMask_of_interior hI, mul_one, RealLike.nat_real]

theorem chi2Score_ova_interior {ε : ℝ} {P : Fin n → Fin K → ℝ} (hI : Interior ε P) :
    chi2Score ε false P = 1 / 2 * ((∑ i, ∑ k, P i k * (P i k / Spec.pi P k)) / n) := by
  simp only [chi2Score, clipP_of_interior hI, tab_apply, mean0_eq_pi, meanV_eq, sumFin_eq_sum,
    RealLike.half_real, Bool.false_eq_true, if_false]

theorem chi2Grad_ova_interior {ε : ℝ} {P : Fin n → Fin K → ℝ} (hI : Interior ε P) (i : Fin n) (k : Fin K) :
    chi2Grad ε false P i k = 1 / 2 * ((2 * (P i k / Spec.pi P k)
      - (∑ j, (P j k / Spec.pi P k) * (P j k / Spec.pi P k)) / n) / n) := by
  simp only [chi2Grad, clipP_of_interior hI, tab_apply, tab2_apply, mean0_eq_pi, meanV_eq,
    RealLike.half_real, Bool.false_eq_true, if_false, clipMask_of_interior hI, mul_one,
    RealLike.nat_real, RealLike.sq, Nat.cast_ofNat]

theorem chi2Score_ovo_interior {ε : ℝ} {P : Fin n → Fin K → ℝ} (hI : Interior ε P) :
    chi2Score ε true P = 1 / 2 * ((∑ i, (∑ k, P i k * (P i k / Spec.pi P k))
      * (∑ k, Spec.pi P k / (P i k / Spec.pi P k))) / n) := by
  simp only [chi2Score, clipP_of_interior hI, tab_apply, mean0_eq_pi, meanV_eq, sumFin_eq_sum,
    RealLike.half_real, if_true]

theorem chi2Grad_ovo_interior {ε : ℝ} {P : Fin n → Fin K → ℝ} (hI : Interior ε P) (i : Fin n) (k : Fin K) :
    chi2Grad ε true P i k = 1 / 2 * ((2 * ((∑ c, Spec.pi P c / (P i c / Spec.pi P c)) * (P i k / Spec.pi P k))
      - (∑ c, P i c * (P i c / Spec.pi P c)) / (P i k / Spec.pi P k) / (P i k / Spec.pi P k)
      + (∑ j, (2 * ((∑ c, P j c * (P j c / Spec.pi P c)) / (P j k / Spec.pi P k))
          - (∑ c, Spec.pi P c / (P j c / Spec.pi P c)) * (P j k / Spec.pi P k) * (P j k / Spec.pi P k))) / n) / n) := by
  simp only [chi2Grad, clipP_of_interior hI, tab_apply, tab2_apply, mean0_eq_pi, meanV_eq, sumFin_eq_sum,
    RealLike.half_real, if_true, clipMask_of_interior hI, mul_one,
    RealLike.nat_real, Nat.cast_ofNat]

theorem hellingerScore_ova_interior {ε : ℝ} {P : Fin n → Fin K → ℝ} (hI : Interior ε P) :
    hellingerScore ε false P = 1 - (∑ i, ∑ k, Real.sqrt (P i k * Spec.pi P k)) / n := by
  simp only [hellingerScore, clipP_of_interior hI, tab_apply, mean0_eq_pi, meanV_eq, sumFin_eq_sum,
    RealLike.sqrt_real, Bool.false_eq_true, if_false]

theorem hellingerGrad_ova_interior {ε : ℝ} {P : Fin n → Fin K → ℝ} (hI : Interior ε P) (i : Fin n) (k : Fin K) :
    hellingerGrad ε false P i k = (-(1 / 2) * (Spec.pi P k / Real.sqrt (P i k * Spec.pi P k)
      + (∑ j, P j k / Real.sqrt (P j k * Spec.pi P k)) / n)) / n := by
  simp only [hellingerGrad, clipP_of_interior hI, tab_apply, tab2_apply, mean0_eq_pi, meanV_eq, sumFin_eq_sum,
    RealLike.half_real, RealLike.sqrt_real, Bool.false_eq_true, if_false, clipMask_of_interior hI, mul_one,
    RealLike.nat_real]

theorem hellingerScore_ovo_interior {ε : ℝ} {P : Fin n → Fin K → ℝ} (hI : Interior ε P) :
    hellingerScore ε true P = 1 - (∑ i, (∑ k, Real.sqrt (P i k * Spec.pi P k))
      * (∑ k, Real.sqrt (P i k * Spec.pi P k))) / n := by
  simp only [hellingerScore, clipP_of_interior hI, tab_apply, mean0_eq_pi, meanV_eq, sumFin_eq_sum,
    RealLike.sqrt_real, RealLike.sq, if_true]

theorem hellingerGrad_ovo_interior {ε : ℝ} {P : Fin n → Fin K → ℝ} (hI : Interior ε P) (i : Fin n) (k : Fin K) :
    hellingerGrad ε true P i k = (-(Spec.pi P k / Real.sqrt (P i k * Spec.pi P k)
        * (∑ c, Real.sqrt (P i c * Spec.pi P c))
      + (∑ j, P j k / Real.sqrt (P j k * Spec.pi P k) * (∑ c, Real.sqrt (P j c * Spec.pi P c))) / n)) / n := by
  have hest : ∀ j, 0 ≤ ∑ c, Real.sqrt (P j c * Spec.pi P c) := fun j =>
    Finset.sum_nonneg fun c _ => Real.sqrt_nonneg _
  simp only [hellingerGrad, clipP_of_interior hI, tab_apply, tab2_apply, mean0_eq_pi, meanV_eq, sumFin_eq_sum,
    RealLike.sqrt_real, RealLike.sq, if_true, clipMask_of_interior hI, mul_one,
    RealLike.nat_real, Real.sqrt_mul_self (hest _)]

theorem tvScore_ova_interior {ε : ℝ} {P : Fin n → Fin K → ℝ} (hI : Interior ε P) :
    tvScore ε false P = 1 / 2 * ∑ k, (∑ i, |P i k - Spec.pi P k|) / n := by
  simp only [tvScore, clipP_of_interior hI, tab_apply, mean0_eq_pi, meanV_eq, sumFin_eq_sum,
    RealLike.half_real, RealLike.abs_real, Bool.false_eq_true, if_false]

theorem tvGrad_ova_interior {ε : ℝ} {P : Fin n → Fin K → ℝ} (hI : Interior ε P) (i : Fin n) (k : Fin K) :
    tvGrad ε false P i k = 1 / 2 * ((RealLike.sign (P i k - Spec.pi P k)
      - (∑ j, RealLike.sign (P j k - Spec.pi P k)) / n) / n) := by
  simp only [tvGrad, clipP_of_interior hI, tab_apply, mean0_eq_pi, meanV_eq,
    RealLike.half_real, Bool.false_eq_true, if_false, clipMask_of_interior hI, mul_one,
    RealLike.nat_real]

/-! ### TV one-vs-one -/


theorem sum_rot (f : Fin K → Fin K → Fin n → ℝ) :
    ∑ a, ∑ b, ∑ i, f a b i = ∑ i, ∑ a, ∑ b, f a b i := by
  rw [Finset.sum_congr rfl fun a _ => Finset.sum_comm, Finset.sum_comm]

theorem skew_pair (s : Fin K → Fin K → ℝ) (x y : Fin K → ℝ) :
    ∑ a, ∑ b, s a b * (x a * y b - x b * y a) = ∑ k, (∑ a, x a * (s a k - s k a)) * y k := by
  have h1 : ∑ a, ∑ b, s a b * (x a * y b) = ∑ k, ∑ a, x a * s a k * y k := by
    rw [Finset.sum_comm]
    exact Finset.sum_congr rfl fun k _ => Finset.sum_congr rfl fun a _ => by ring
  have h2 : ∑ a, ∑ b, s a b * (x b * y a) = ∑ k, ∑ a, x a * s k a * y k :=
    Finset.sum_congr rfl fun k _ => Finset.sum_congr rfl fun a _ => by ring
  simp only [mul_sub, sub_mul, Finset.sum_sub_distrib, Finset.sum_mul, h1, h2]

/-- `sign (π_a P_ib - π_b P_ia)` -/
noncomputable def tvSign (P : Fin n → Fin K → ℝ) (i : Fin n) (a b : Fin K) : ℝ :=
  RealLike.sign (Spec.pi P a * P i b - Spec.pi P b * P i a)

theorem tvScore_ovo_interior {ε : ℝ} {P : Fin n → Fin K → ℝ} (hI : Interior ε P) :
    tvScore ε true P
      = 1 / 2 * ∑ a, ∑ b, (∑ i, |Spec.pi P a * P i b - Spec.pi P b * P i a|) / n := by
  simp only [tvScore, clipP_of_interior hI, tab_apply, mean0_eq_pi, meanV_eq, sumFin_eq_sum,
    RealLike.half_real, RealLike.abs_real, if_true]

theorem tvGrad_ovo_interior {ε : ℝ} {P : Fin n → Fin K → ℝ} (hI : Interior ε P) (i : Fin n) (k : Fin K) :
    tvGrad ε true P i k = 1 / 2 * ((∑ a, Spec.pi P a * (tvSign P i a k / n - tvSign P i k a / n))
      + (∑ j, ∑ b, (tvSign P j k b / n - tvSign P j b k / n) * P j b) / n) := by
  simp only [tvGrad, clipP_of_interior hI, tab_apply, tab2_apply, mean0_eq_pi, meanV_eq, sumFin_eq_sum,
    RealLike.half_real, if_true, clipMask_of_interior hI, mul_one, RealLike.nat_real, tvSign]

theorem tv_ovo_algebra (s : Fin n → Fin K → Fin K → ℝ) (P V : Fin n → Fin K → ℝ) (π w : Fin K → ℝ) (c : ℝ) :
    1 / 2 * ∑ a, ∑ b, (∑ i, s i a b * (w a * P i b + π a * V i b - (w b * P i a + π b * V i a))) / c
    = ∑ k, (∑ i, (1 / 2 / c * ∑ a, π a * (s i a k - s i k a)) * V i k
        + (-(1 / 2 / c) * ∑ i, ∑ a, P i a * (s i a k - s i k a)) * w k) := by
  have key : ∑ a, ∑ b, ∑ i, s i a b * (w a * P i b + π a * V i b - (w b * P i a + π b * V i a))
      = ∑ i, (∑ k, (∑ a, π a * (s i a k - s i k a)) * V i k
          - ∑ k, (∑ a, P i a * (s i a k - s i k a)) * w k) := by
    rw [sum_rot]
    refine Finset.sum_congr rfl fun i _ => ?_
    rw [← skew_pair, ← skew_pair, ← Finset.sum_sub_distrib]
    refine Finset.sum_congr rfl fun a _ => ?_
    rw [← Finset.sum_sub_distrib]
    refine Finset.sum_congr rfl fun b _ => ?_
    ring
  simp only [← Finset.sum_div]
  rw [key, Finset.sum_sub_distrib, Finset.sum_add_distrib, Finset.sum_comm (γ := Fin K)]
  have e3 : ∑ i, ∑ k, (1 / 2 / c * ∑ a, π a * (s i a k - s i k a)) * V i k
      = 1 / 2 / c * ∑ i, ∑ k, (∑ a, π a * (s i a k - s i k a)) * V i k := by
    rw [Finset.mul_sum]
    refine Finset.sum_congr rfl fun i _ => ?_
    rw [Finset.mul_sum]
    exact Finset.sum_congr rfl fun k _ => by ring
  have e4 : ∑ k, (-(1 / 2 / c) * ∑ i, ∑ a, P i a * (s i a k - s i k a)) * w k
      = -(1 / 2 / c) * ∑ i, ∑ k, (∑ a, P i a * (s i a k - s i k a)) * w k := by
    rw [Finset.sum_comm, Finset.mul_sum]
    refine Finset.sum_congr rfl fun k _ => ?_
    rw [Finset.mul_sum, Finset.mul_sum, Finset.sum_mul]
    exact Finset.sum_congr rfl fun i _ => by ring
  rw [e3, e4]
  ring
/-! ### MMD -/

/-- `‖a - 1‖²` in the RKHS with Gram matrix `q`, in the expanded form the code computes:
    `aᵀ q a + 1ᵀ q 1 - 2 · 1ᵀ q a` -/
def quadForm (q : Fin n → Fin n → ℝ) (a : Fin n → ℝ) : ℝ :=
  (∑ i, a i * ∑ j, q i j * a j) + (∑ i, ∑ j, q i j) - 2 * ∑ i, ∑ j, q i j * a j

theorem quad_swap {q : Fin n → Fin n → ℝ} (hq : ∀ i j, q i j = q j i) (a b : Fin n → ℝ) :
    ∑ i, a i * ∑ j, q i j * b j = ∑ i, b i * ∑ j, q i j * a j := by
  simp only [Finset.mul_sum]
  rw [Finset.sum_comm]
  refine Finset.sum_congr rfl fun i _ => Finset.sum_congr rfl fun j _ => ?_
  rw [hq j i]; ring

theorem quadForm_eq {q : Fin n → Fin n → ℝ} (hq : ∀ i j, q i j = q j i) (a : Fin n → ℝ) :
    quadForm q a = ∑ i, (a i - 1) * ∑ j, q i j * (a j - 1) := by
  have h := quad_swap hq a (fun _ => 1)
  simp only [mul_one, one_mul] at h
  simp only [quadForm, mul_sub, sub_mul, Finset.sum_sub_distrib, mul_one, one_mul, h]
  ring

theorem quadForm_hasDerivAt {q : Fin n → Fin n → ℝ} (hq : ∀ i j, q i j = q j i)
    {a : ℝ → Fin n → ℝ} {a' : Fin n → ℝ} {x : ℝ} (ha : ∀ i, HasDerivAt (fun t => a t i) (a' i) x) :
    HasDerivAt (fun t => quadForm q (a t)) (2 * ∑ i, a' i * ∑ j, q i j * (a x j - 1)) x := by
  have hg : ∀ i, HasDerivAt (fun t => ∑ j, q i j * a t j) (∑ j, q i j * a' j) x := fun i =>
    HasDerivAt.fun_sum fun j _ => (ha j).const_mul _
  unfold quadForm
  refine (((HasDerivAt.fun_sum fun i _ => (ha i).fun_mul (hg i)).add_const _).fun_sub
    ((HasDerivAt.fun_sum fun i _ => hg i).const_mul _)).congr_deriv ?_
  have h1 := quad_swap hq (a x) a'
  have h2 := quad_swap hq (fun _ => 1) a'
  simp only [one_mul, mul_one] at h2
  simp only [Finset.sum_add_distrib, h1, h2, mul_sub, Finset.sum_sub_distrib, mul_one]
  ring

theorem hasDerivAt_max_zero {f : ℝ → ℝ} {f' x : ℝ} (hf : HasDerivAt f f' x) (h : 0 < f x) :
    HasDerivAt (fun y => max (f y) 0) f' x :=
  hf.congr_of_eventuallyEq
    ((hf.continuousAt.eventually (lt_mem_nhds h)).mono fun _ hy => max_eq_left (le_of_lt hy))

theorem mmdAlpha_interior {ε : ℝ} {P : Fin n → Fin K → ℝ} (hI : Interior ε P) (i : Fin n) (k : Fin K) :
    mmdAlpha ε P i k = P i k / Spec.pi P k := by
  simp only [mmdAlpha, clipP_of_interior hI, tab_apply, mean0_eq_pi]

theorem mmdGamma_interior {ε : ℝ} {P : Fin n → Fin K → ℝ} (hI : Interior ε P) (κ : Fin n → Fin n → ℝ)
    (i : Fin n) (k : Fin K) :
    mmdGamma ε P κ i k = ∑ j, κ i j / (n * n) * (P j k / Spec.pi P k) := by
  simp only [mmdGamma, tab2_apply, mmdAlpha_interior hI, sumFin_eq_sum, RealLike.nat_real]

theorem mmdDeltaOva_interior {ε : ℝ} {P : Fin n → Fin K → ℝ} (hI : Interior ε P) (κ : Fin n → Fin n → ℝ)
    (k : Fin K) :
    mmdDeltaOva ε P κ k
      = Real.sqrt (max (quadForm (fun i j => κ i j / (n * n)) (fun i => P i k / Spec.pi P k)) 0) := by
  simp only [mmdDeltaOva, tab2_apply, mmdAlpha_interior hI, mmdGamma_interior hI, sumFin_eq_sum,
    RealLike.nat_real, RealLike.sqrt_real, RealLike.max_real, Nat.cast_ofNat, quadForm]

theorem mmdScore_ova_interior {ε : ℝ} {P : Fin n → Fin K → ℝ} (hI : Interior ε P) (κ : Fin n → Fin n → ℝ) :
    mmdScore ε false P κ = ∑ k, Spec.pi P k
      * Real.sqrt (max (quadForm (fun i j => κ i j / (n * n)) (fun i => P i k / Spec.pi P k)) 0) := by
  simp only [mmdScore, clipP_of_interior hI, tab_apply, mean0_eq_pi, sumFin_eq_sum,
    mmdDeltaOva_interior hI, Bool.false_eq_true, if_false]

theorem mmdGrad_ova_interior {ε : ℝ} {P : Fin n → Fin K → ℝ} (hI : Interior ε P) (κ : Fin n → Fin n → ℝ)
    (i : Fin n) (k : Fin K) (hδ : mmdDeltaOva ε P κ k ≠ 0) :
    mmdGrad ε false P κ i k = ((∑ j, κ i j / (n * n) * (P j k / Spec.pi P k - 1))
      - (∑ l, ∑ j, κ l j / (n * n) * (P j k / Spec.pi P k - 1)) / n) / mmdDeltaOva ε P κ k := by
  simp only [mmdGrad, tab_apply, tab2_apply, mmdAlpha_interior hI, sumFin_eq_sum, meanV_eq,
    RealLike.nat_real, RealLike.beq_real, Bool.false_eq_true, if_false, clipMask_of_interior hI, mul_one,
    hδ, decide_false, add_zero]
/-! ### MMD one-vs-one -/

/-- `omega[a,b] = α_aᵀ q α_b` -/
def omOvo (q : Fin n → Fin n → ℝ) (al : Fin K → Fin n → ℝ) (a b : Fin K) : ℝ :=
  ∑ i, al a i * ∑ j, q i j * al b j

/-- the radicand of `delta[a,b]`, as the code computes it -/
def radOvo (q : Fin n → Fin n → ℝ) (al : Fin K → Fin n → ℝ) (a b : Fin K) : ℝ :=
  -2 * omOvo q al a b + omOvo q al b b + omOvo q al a a

theorem radOvo_self (q : Fin n → Fin n → ℝ) (al : Fin K → Fin n → ℝ) (a : Fin K) :
    radOvo q al a a = 0 := by
  unfold radOvo; ring

theorem omOvo_symm {q : Fin n → Fin n → ℝ} (hq : ∀ i j, q i j = q j i) (al : Fin K → Fin n → ℝ)
    (a b : Fin K) : omOvo q al a b = omOvo q al b a := quad_swap hq _ _

theorem radOvo_symm {q : Fin n → Fin n → ℝ} (hq : ∀ i j, q i j = q j i) (al : Fin K → Fin n → ℝ)
    (a b : Fin K) : radOvo q al a b = radOvo q al b a := by
  unfold radOvo; rw [omOvo_symm hq al a b]; ring

theorem omOvo_hasDerivAt {q : Fin n → Fin n → ℝ} (hq : ∀ i j, q i j = q j i)
    {al : ℝ → Fin K → Fin n → ℝ} {al' : Fin K → Fin n → ℝ} {x : ℝ}
    (ha : ∀ k i, HasDerivAt (fun t => al t k i) (al' k i) x) (a b : Fin K) :
    HasDerivAt (fun t => omOvo q (al t) a b)
      (∑ i, (al' a i * ∑ j, q i j * al x b j) + ∑ i, (al' b i * ∑ j, q i j * al x a j)) x := by
  have hg : ∀ k i, HasDerivAt (fun t => ∑ j, q i j * al t k j) (∑ j, q i j * al' k j) x := fun k i =>
    HasDerivAt.fun_sum fun j _ => (ha k j).const_mul _
  unfold omOvo
  refine (HasDerivAt.fun_sum fun i _ => (ha a i).fun_mul (hg b i)).congr_deriv ?_
  rw [Finset.sum_add_distrib, quad_swap hq (al x a) (al' b)]

theorem radOvo_hasDerivAt {q : Fin n → Fin n → ℝ} (hq : ∀ i j, q i j = q j i)
    {al : ℝ → Fin K → Fin n → ℝ} {al' : Fin K → Fin n → ℝ} {x : ℝ}
    (ha : ∀ k i, HasDerivAt (fun t => al t k i) (al' k i) x) (a b : Fin K) :
    HasDerivAt (fun t => radOvo q (al t) a b)
      (2 * ∑ i, (al' a i - al' b i) * ((∑ j, q i j * al x a j) - ∑ j, q i j * al x b j)) x := by
  unfold radOvo
  refine ((((omOvo_hasDerivAt hq ha a b).const_mul (-2)).fun_add (omOvo_hasDerivAt hq ha b b)).fun_add
    (omOvo_hasDerivAt hq ha a a)).congr_deriv ?_
  simp only [sub_mul, mul_sub, Finset.sum_sub_distrib]
  ring

theorem mmdDeltaOvo_interior {ε : ℝ} {P : Fin n → Fin K → ℝ} (hI : Interior ε P) (κ : Fin n → Fin n → ℝ)
    (a b : Fin K) :
    mmdDeltaOvo ε P κ a b
      = Real.sqrt (max (radOvo (fun i j => κ i j / (n * n)) (fun k i => P i k / Spec.pi P k) a b) 0) := by
  simp only [mmdDeltaOvo, tab2_apply, mmdAlpha_interior hI, mmdGamma_interior hI, sumFin_eq_sum,
    RealLike.nat_real, RealLike.sqrt_real, RealLike.max_real, Nat.cast_ofNat, radOvo, omOvo]

theorem mmdDeltaOvo_self {ε : ℝ} {P : Fin n → Fin K → ℝ} (hI : Interior ε P) (κ : Fin n → Fin n → ℝ)
    (a : Fin K) : mmdDeltaOvo ε P κ a a = 0 := by
  rw [mmdDeltaOvo_interior hI, radOvo_self]; simp

theorem mmdDeltaOvo_symm {ε : ℝ} {P : Fin n → Fin K → ℝ} (hI : Interior ε P) {κ : Fin n → Fin n → ℝ}
    (hκ : ∀ i j, κ i j = κ j i) (a b : Fin K) : mmdDeltaOvo ε P κ a b = mmdDeltaOvo ε P κ b a := by
  rw [mmdDeltaOvo_interior hI, mmdDeltaOvo_interior hI,
    radOvo_symm (fun i j => by simp only [hκ i j])]

theorem mmdScore_ovo_interior {ε : ℝ} {P : Fin n → Fin K → ℝ} (hI : Interior ε P) (κ : Fin n → Fin n → ℝ) :
    mmdScore ε true P κ = ∑ b, (∑ a, Spec.pi P a
      * Real.sqrt (max (radOvo (fun i j => κ i j / (n * n)) (fun k i => P i k / Spec.pi P k) a b) 0))
      * Spec.pi P b := by
  simp only [mmdScore, clipP_of_interior hI, tab_apply, tab2_apply, mean0_eq_pi, sumFin_eq_sum,
    mmdDeltaOvo_interior hI, if_true]

/-- `lambda[a,b]` of the gradient code when the off-diagonal distances are non-zero -/
noncomputable def mmdLam (π : Fin K → ℝ) (δ : Fin K → Fin K → ℝ) (a b : Fin K) : ℝ :=
  if a = b then 0 else π a * π b / δ a b

theorem mmdGrad_ovo_interior {ε : ℝ} {P : Fin n → Fin K → ℝ} (hI : Interior ε P) (κ : Fin n → Fin n → ℝ)
    (hδ : ∀ a b, a ≠ b → mmdDeltaOvo ε P κ a b ≠ 0) (i : Fin n) (k : Fin K) :
    mmdGrad ε true P κ i k =
      (((∑ j, κ i j / (n * n) * (P j k / Spec.pi P k)) * (∑ a, mmdLam (Spec.pi P) (mmdDeltaOvo ε P κ) a k)
        - (∑ a, (∑ j, κ i j / (n * n) * (P j a / Spec.pi P a)) * mmdLam (Spec.pi P) (mmdDeltaOvo ε P κ) a k)
        - (∑ l, P l k / Spec.pi P k * ∑ j, κ l j / (n * n) * (P j k / Spec.pi P k))
            * (∑ a, mmdLam (Spec.pi P) (mmdDeltaOvo ε P κ) a k) / n
        + (∑ l, P l k / Spec.pi P k * ∑ a, (∑ j, κ l j / (n * n) * (P j a / Spec.pi P a))
            * mmdLam (Spec.pi P) (mmdDeltaOvo ε P κ) a k) / n) / Spec.pi P k
        + (∑ a, Spec.pi P a * mmdDeltaOvo ε P κ a k) / n) * 2 := by
  have hlam : ∀ a b, (if a = b then (0 : ℝ) else if decide (mmdDeltaOvo ε P κ a b = 0) = true then 0
      else Spec.pi P a * Spec.pi P b / (mmdDeltaOvo ε P κ a b + 0))
      = mmdLam (Spec.pi P) (mmdDeltaOvo ε P κ) a b := fun a b => by
    unfold mmdLam
    by_cases h : a = b
    · simp [h]
    · simp [h, hδ a b h]
  simp only [mmdGrad, clipP_of_interior hI, tab_apply, tab2_apply, mean0_eq_pi, meanV_eq, sumFin_eq_sum,
    mmdAlpha_interior hI, mmdGamma_interior hI, RealLike.nat_real, RealLike.beq_real, if_true,
    clipMask_of_interior hI, mul_one, hlam, Nat.cast_ofNat]
theorem mmdLam_symm (π : Fin K → ℝ) {δ : Fin K → Fin K → ℝ} (hδ : ∀ a b, δ a b = δ b a) (a b : Fin K) :
    mmdLam π δ a b = mmdLam π δ b a := by
  unfold mmdLam
  by_cases h : a = b
  · subst h; rfl
  · rw [if_neg h, if_neg (Ne.symm h), hδ a b, mul_comm]

theorem sym_pair {lam : Fin K → Fin K → ℝ} (hl : ∀ a b, lam a b = lam b a) (f g : Fin K → ℝ) :
    ∑ a, ∑ b, lam a b * ((f a - f b) * (g a - g b))
      = 2 * ∑ k, f k * (g k * ∑ a, lam a k - ∑ a, g a * lam a k) := by
  have hS1 : ∑ a, ∑ b, lam a b * (f b * (g b - g a)) = ∑ a, ∑ b, lam a b * (f a * (g a - g b)) := by
    rw [Finset.sum_comm]
    exact Finset.sum_congr rfl fun a _ => Finset.sum_congr rfl fun b _ => by rw [hl b a]
  have hR : ∀ k, f k * (g k * ∑ a, lam a k - ∑ a, g a * lam a k)
      = ∑ b, lam k b * (f k * (g k - g b)) := fun k => by
    rw [Finset.mul_sum, ← Finset.sum_sub_distrib, Finset.mul_sum]
    exact Finset.sum_congr rfl fun b _ => by rw [hl k b]; ring
  calc ∑ a, ∑ b, lam a b * ((f a - f b) * (g a - g b))
      = ∑ a, ∑ b, (lam a b * (f a * (g a - g b)) + lam a b * (f b * (g b - g a))) :=
        Finset.sum_congr rfl fun a _ => Finset.sum_congr rfl fun b _ => by ring
    _ = ∑ a, ∑ b, lam a b * (f a * (g a - g b)) + ∑ a, ∑ b, lam a b * (f a * (g a - g b)) := by
        simp only [Finset.sum_add_distrib]; rw [hS1]
    _ = _ := by simp only [hR]; ring

theorem mmd_ovo_algebra (π w : Fin K → ℝ) (hπ : ∀ k, π k ≠ 0) (δ : Fin K → Fin K → ℝ)
    (hδs : ∀ a b, δ a b = δ b a) (hδ0 : ∀ a b, a ≠ b → δ a b ≠ 0) (P V g : Fin n → Fin K → ℝ) :
    ∑ b, ((∑ a, (w a * δ a b + π a * (if a = b then 0 else
        (2 * ∑ i, ((V i a * π a - P i a * w a) / π a ^ 2 - (V i b * π b - P i b * w b) / π b ^ 2)
          * (g i a - g i b)) / (2 * δ a b)))) * π b + (∑ a, π a * δ a b) * w b)
    = ∑ k, (∑ i, (2 * (g i k * (∑ a, mmdLam π δ a k) - ∑ a, g i a * mmdLam π δ a k) / π k) * V i k
        + (2 * ((-(∑ l, P l k / π k * g l k) * (∑ a, mmdLam π δ a k)
              + ∑ l, P l k / π k * ∑ a, g l a * mmdLam π δ a k) / π k
            + ∑ a, π a * δ a k)) * w k) := by
  have hl := mmdLam_symm π hδs
  -- (i) the `E` part in terms of `lambda`
  have hE : ∀ a b, π a * (if a = b then 0 else
        (2 * ∑ i, ((V i a * π a - P i a * w a) / π a ^ 2 - (V i b * π b - P i b * w b) / π b ^ 2)
          * (g i a - g i b)) / (2 * δ a b)) * π b
      = ∑ i, mmdLam π δ a b * (((V i a * π a - P i a * w a) / π a ^ 2
          - (V i b * π b - P i b * w b) / π b ^ 2) * (g i a - g i b)) := fun a b => by
    unfold mmdLam
    by_cases h : a = b
    · simp [h]
    · rw [if_neg h, if_neg h, ← Finset.mul_sum]
      have := hδ0 a b h
      field_simp
      refine congrArg _ (Finset.sum_congr rfl fun i _ => ?_)
      ring
  -- (iii) symmetric pairing, per sample
  have hT : ∑ b, ∑ a, ∑ i, mmdLam π δ a b * (((V i a * π a - P i a * w a) / π a ^ 2
          - (V i b * π b - P i b * w b) / π b ^ 2) * (g i a - g i b))
      = ∑ i, 2 * ∑ k, (V i k * π k - P i k * w k) / π k ^ 2
          * (g i k * (∑ a, mmdLam π δ a k) - ∑ a, g i a * mmdLam π δ a k) := by
    rw [Finset.sum_comm, sum_rot]
    exact Finset.sum_congr rfl fun i _ => sym_pair hl _ _
  -- (ii) the `delta` part
  have hD : ∑ b, ∑ a, (w a * δ a b * π b + π a * δ a b * w b) = ∑ k, 2 * (∑ a, π a * δ a k) * w k := by
    have h1 : ∑ b, ∑ a, w a * δ a b * π b = ∑ k, (∑ a, π a * δ a k) * w k := by
      rw [Finset.sum_comm]
      refine Finset.sum_congr rfl fun k _ => ?_
      rw [Finset.sum_mul]
      exact Finset.sum_congr rfl fun a _ => by rw [hδs k a]; ring
    have h2 : ∑ b, ∑ a, π a * δ a b * w b = ∑ k, (∑ a, π a * δ a k) * w k :=
      Finset.sum_congr rfl fun k _ => by rw [Finset.sum_mul]
    simp only [Finset.sum_add_distrib, h1, h2]
    rw [← Finset.sum_add_distrib]
    exact Finset.sum_congr rfl fun k _ => by ring
  calc _ = ∑ b, ∑ a, (w a * δ a b * π b + π a * δ a b * w b)
        + ∑ b, ∑ a, ∑ i, mmdLam π δ a b * (((V i a * π a - P i a * w a) / π a ^ 2
          - (V i b * π b - P i b * w b) / π b ^ 2) * (g i a - g i b)) := by
        simp only [← hE, ← Finset.sum_add_distrib, Finset.sum_mul]
        exact Finset.sum_congr rfl fun b _ => Finset.sum_congr rfl fun a _ => by ring
    _ = _ := by
        rw [hT, hD]
        have hB : ∀ k, -(∑ l, P l k / π k * g l k) * (∑ a, mmdLam π δ a k)
              + ∑ l, P l k / π k * ∑ a, g l a * mmdLam π δ a k
            = -∑ l, P l k / π k * (g l k * (∑ a, mmdLam π δ a k) - ∑ a, g l a * mmdLam π δ a k) := fun k => by
          rw [Finset.sum_congr rfl (fun l _ => mul_sub _ _ _), Finset.sum_sub_distrib, neg_mul,
            Finset.sum_mul]
          have : ∀ l, P l k / π k * g l k * (∑ a, mmdLam π δ a k)
              = P l k / π k * (g l k * ∑ a, mmdLam π δ a k) := fun l => by ring
          simp only [this]
          ring
        simp only [hB]
        obtain ⟨X, hX⟩ : ∃ X : Fin n → Fin K → ℝ, ∀ i k,
            X i k = g i k * (∑ a, mmdLam π δ a k) - ∑ a, g i a * mmdLam π δ a k := ⟨_, fun _ _ => rfl⟩
        simp only [← hX]
        rw [← Finset.mul_sum, Finset.sum_comm, Finset.mul_sum, ← Finset.sum_add_distrib]
        refine Finset.sum_congr rfl fun k _ => ?_
        have := hπ k
        generalize (∑ a, π a * δ a k) = pd
        generalize π k = p at *
        generalize w k = u
        have e : ∑ i, (V i k * p - P i k * u) / p ^ 2 * X i k
            = (∑ i, X i k / p * V i k) - (∑ l, P l k / p * X l k) / p * u := by
          rw [Finset.sum_div, Finset.sum_mul, ← Finset.sum_sub_distrib]
          refine Finset.sum_congr rfl fun i _ => ?_
          field_simp
        have e1 : ∑ i, 2 * X i k / p * V i k = 2 * ∑ i, X i k / p * V i k := by
          rw [Finset.mul_sum]
          exact Finset.sum_congr rfl fun i _ => by ring
        rw [e, e1]
        ring
/-! ### a concrete witness: the extra hypotheses of the TV / MMD theorems are satisfiable -/

/-- a genuine point of the simplex (rows sum to 1) used to show hypotheses are satisfiable -/
noncomputable def exP : Fin 2 → Fin 2 → ℝ := ![![7 / 10, 3 / 10], ![2 / 10, 8 / 10]]
/-- identity affinity -/
noncomputable def exK : Fin 2 → Fin 2 → ℝ := fun i j => if i = j then 1 else 0

theorem exP_interior : Interior (1 / 10) exP := by
  intro i k; fin_cases i <;> fin_cases k <;> simp [exP] <;> norm_num

theorem exK_symm : ∀ i j, exK i j = exK j i := by
  intro i j; simp [exK, eq_comm]

theorem exP_tv_ova : ∀ i k, exP i k ≠ Spec.pi exP k := by
  intro i k; fin_cases i <;> fin_cases k <;> simp [exP, Spec.pi, Fin.sum_univ_two] <;> norm_num

theorem exP_tv_ovo : ∀ i a b, a ≠ b → Spec.pi exP a * exP i b ≠ Spec.pi exP b * exP i a := by
  intro i a b; fin_cases i <;> fin_cases a <;> fin_cases b <;> simp [exP, Spec.pi, Fin.sum_univ_two] <;> norm_num

theorem exP_mmd_ova : ∀ k, 0 < mmdDeltaOva (1 / 10) exP exK k := by
  intro k
  rw [mmdDeltaOva_interior exP_interior, Real.sqrt_pos, lt_max_iff]
  left
  fin_cases k <;> simp [quadForm, exP, exK, Spec.pi, Fin.sum_univ_two] <;> norm_num

theorem exP_mmd_ovo : ∀ a b, a ≠ b → 0 < mmdDeltaOvo (1 / 10) exP exK a b := by
  intro a b hab
  rw [mmdDeltaOvo_interior exP_interior, Real.sqrt_pos, lt_max_iff]
  left
  fin_cases a <;> fin_cases b <;> simp [radOvo, omOvo, exP, exK, Spec.pi, Fin.sum_univ_two] at hab ⊢ <;> norm_num
end GemVerif
