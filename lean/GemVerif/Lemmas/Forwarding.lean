/-
  Helpers for `Props/C11.lean`: looking an estimator up in the translated table, building hyperparameter
  assignments, the representative assignments the table theorems range over, and generic facts about the
  interpreter `runAff` (for an arbitrary interpretation `Ops M` of scikit-learn's pairwise functions).
  No Mathlib.
-/
import GemVerif.Model.Forwarding
import GemVerif.Gen.Forwarding

namespace GemVerif.Lemmas.Forwarding
open GemVerif.Model.Forwarding
open GemVerif.Gen.Forwarding (tables estimators)

/-- the translated description of an estimator (an empty description for an unknown name) -/
def est (n : String) : EstDesc :=
  (estimators.find? (·.name == n)).getD ⟨"", [], [], "", none, "", none⟩

/-- a keyword is given (`some v`) or left to its default (`none`) -/
def kw (k : String) : Option Atom → Hyper
  | none => []
  | some v => [(k, .atom v)]

def optAtom : Option Params → Atom
  | none => .none
  | some d => .dict d

/-- `Est(ovo=…, kernel=…, kernel_params=…)`, each keyword optional -/
def mmdHyper (ovo : Option Bool) (kernel : Option Atom) (params : Option Atom) : Hyper :=
  kw "ovo" (ovo.map .bool) ++ kw "kernel" kernel ++ kw "kernel_params" params

/-- `Est(ovo=…, metric=…, metric_params=…)` -/
def wassHyper (ovo : Option Bool) (metric : Option Atom) (params : Option Atom) : Hyper :=
  kw "ovo" (ovo.map .bool) ++ kw "metric" metric ++ kw "metric_params" params

/-! ### representative assignments -/

def ovoVals : List (Option Bool) := [none, some false, some true]

/-- omitted / None / two dictionaries -/
def paramVals : List (Option Atom) :=
  [none, some .none, some (.dict [("gamma", "0.3")]), some (.dict [("degree", "2"), ("coef0", "1")])]

/-- omitted, named kernels, `"precomputed"`, a callable, and a name scikit-learn does not know -/
def kernelVals : List (Option Atom) :=
  [none, some (.str "rbf"), some (.str "polynomial"), some (.str "sigmoid"), some (.str "linear"),
   some (.str "precomputed"), some (.fn "f"), some (.str "euclidean")]

/-- omitted, named metrics, `"precomputed"`, a callable, and names the Wasserstein GEMINI does not document -/
def metricVals : List (Option Atom) :=
  [none, some (.str "euclidean"), some (.str "l1"), some (.str "cosine"), some (.str "manhattan"),
   some (.str "precomputed"), some (.fn "f"), some (.str "haversine"), some (.str "rbf")]

def mmdHypers : List Hyper :=
  ovoVals.flatMap fun o => kernelVals.flatMap fun k => paramVals.map fun p => mmdHyper o k p

def wassHypers : List Hyper :=
  ovoVals.flatMap fun o => metricVals.flatMap fun k => paramVals.map fun p => wassHyper o k p

/-- GEMINI instances a user may pass -/
def instances : List GeminiObj := [
  ⟨"MMDGEMINI", "MMDGEMINI", [("epsilon", .tok "1e-12"), ("ovo", .bool true), ("kernel_params", .dict [("gamma", "0.3")]),
    ("kernel", .str "rbf")]⟩,
  ⟨"MMDGEMINI", "MMDGEMINI", [("epsilon", .tok "1e-09"), ("ovo", .bool false), ("kernel_params", .none),
    ("kernel", .str "precomputed")]⟩,
  ⟨"MMDGEMINI", "MMDGEMINI", [("epsilon", .tok "1e-12"), ("ovo", .bool false), ("kernel_params", .none),
    ("kernel", .fn "f")]⟩,
  ⟨"WassersteinGEMINI", "WassersteinGEMINI", [("epsilon", .tok "1e-12"), ("ovo", .bool true), ("metric", .str "l1"),
    ("metric_params", .none)]⟩,
  ⟨"WassersteinGEMINI", "WassersteinGEMINI", [("epsilon", .tok "1e-12"), ("ovo", .bool false), ("metric", .str "precomputed"),
    ("metric_params", .none)]⟩,
  ⟨"MI", "KLGEMINI", [("epsilon", .tok "1e-12"), ("ovo", .bool false)]⟩,
  ⟨"TVGEMINI", "TVGEMINI", [("epsilon", .tok "1e-06"), ("ovo", .bool true)]⟩]

def geminiNames : List String :=
  ["mmd_ova", "mmd_ovo", "wasserstein_ova", "wasserstein_ovo", "kl_ova", "kl_ovo", "mi", "tv_ova", "tv_ovo",
   "hellinger_ova", "hellinger_ovo", "chi2_ova", "chi2_ovo"]

/-- `gemini` omitted, `None`, each of the 13 names, an unknown name, an instance -/
def geminiHypers : List Hyper :=
  [[], [("gemini", .atom .none)]] ++ geminiNames.map (fun s => [("gemini", .atom (.str s))]) ++
  [[("gemini", .atom (.str "mmd"))]] ++ instances.map (fun g => [("gemini", .gem g)])

/-- hyperparameters that must not matter for the GEMINI of RIM / KernelRIM / SparseLinearMI -/
def miHypers : List Hyper :=
  [[], [("base_kernel", .atom (.str "rbf"))], [("base_kernel", .atom (.fn "f")), ("base_kernel_params", .atom (.dict [("gamma", "0.3")]))]]

def mmdEstimators : List String := ["LinearMMD", "MLPMMD", "SparseLinearMMD", "SparseMLPMMD", "CategoricalMMD"]
def wassEstimators : List String := ["LinearWasserstein", "MLPWasserstein", "CategoricalWasserstein"]
def miEstimators : List String := ["RIM", "KernelRIM", "SparseLinearMI"]
def genericEstimators : List String :=
  ["LinearModel", "MLPModel", "SparseLinearModel", "SparseMLPModel", "CategoricalModel", "Douglas"]

/-- the kernel names `MMDGEMINI` documents, `"precomputed"` excluded -/
def namedKernels : List String :=
  ["additive_chi2", "chi2", "cosine", "linear", "poly", "polynomial", "rbf", "laplacian", "sigmoid"]

/-- the metric names `WassersteinGEMINI` documents, `"precomputed"` excluded -/
def namedMetrics : List String := ["cosine", "euclidean", "l2", "l1", "manhattan", "cityblock"]

/-- forget which exception: the documentation only says "rejected" -/
def okOrRejected {ε α : Type} : Except ε α → Except Unit α
  | .ok a => .ok a
  | .error _ => .error ()

/-- the documented reading of a resolved GEMINI object -/
def docOf : Except String GeminiObj → Except Unit GeminiDoc
  | .ok g => match describe g with
      | some d => .ok d
      | none => .error ()
  | .error _ => .error ()

instance {α : Type} [DecidableEq α] : DecidableEq (Except Unit α) := fun a b =>
  match a, b with
  | .ok x, .ok y => if h : x = y then isTrue (by rw [h]) else isFalse (fun e => h (by cases e; rfl))
  | .error _, .error _ => isTrue rfl
  | .ok _, .error _ => isFalse (fun e => by cases e)
  | .error _, .ok _ => isFalse (fun e => by cases e)

/-! ### generic facts about `runAff` on the translated trees -/

section generic
variable {M : Type} (ops : Ops M)

/-- the parameter dictionary handed to scikit-learn: `dict() if p is None else p` -/
def paramsOf : Atom → Params
  | .dict d => d
  | _ => []

open GemVerif.Gen.Forwarding in
/-- `MMDGEMINI.compute_affinity` with a kernel name other than `"precomputed"`: `pairwise_kernels(X, metric=name,
    **params)`, whatever `y` is. -/
theorem mmd_named (attrs : List (String × Atom)) (s : String) (pa : Atom) (y : Option M)
    (hk : lookup attrs "kernel" = some (.str s)) (hs : s ≠ "precomputed")
    (hp : lookup attrs "kernel_params" = some pa) (hpa : pa = .none ∨ ∃ d, pa = .dict d) :
    runAff ops attrs y aff_MMDGEMINI
      = ⟨0, .ok (some (ops.pairwise "pairwise_kernels" [.X] (.name s) (paramsOf pa)))⟩ := by
  have hb : (s == "precomputed") = false := by simp [hs]
  rcases hpa with rfl | ⟨d, rfl⟩ <;>
    simp [aff_MMDGEMINI, runAff, evalTest, evalExpr, hk, hp, hb, paramsOf]

open GemVerif.Gen.Forwarding in
/-- `MMDGEMINI.compute_affinity` with `kernel="precomputed"`: the caller's matrix, whatever `kernel_params`. -/
theorem mmd_precomputed (attrs : List (String × Atom)) (y : M)
    (hk : lookup attrs "kernel" = some (.str "precomputed")) :
    runAff ops attrs (some y) aff_MMDGEMINI = ⟨0, .ok (some y)⟩ := by
  simp [aff_MMDGEMINI, runAff, evalTest, evalExpr, hk]

open GemVerif.Gen.Forwarding in
/-- … and a missing matrix is a `ValueError`. -/
theorem mmd_precomputed_missing (attrs : List (String × Atom))
    (hk : lookup attrs "kernel" = some (.str "precomputed")) :
    (runAff ops attrs none aff_MMDGEMINI).res = .error "ValueError" := by
  simp [aff_MMDGEMINI, runAff, evalTest, hk]

open GemVerif.Gen.Forwarding in
/-- `MMDGEMINI.compute_affinity` with a callable: `f(X)`; `y` and `kernel_params` are not used. -/
theorem mmd_callable (attrs : List (String × Atom)) (f : String) (pa : Atom) (y : Option M)
    (hk : lookup attrs "kernel" = some (.fn f)) (hp : lookup attrs "kernel_params" = some pa) :
    (runAff ops attrs y aff_MMDGEMINI).res = .ok (some (ops.call f [.X])) := by
  cases pa <;> simp [aff_MMDGEMINI, runAff, evalTest, evalExpr, hk, hp]

open GemVerif.Gen.Forwarding in
theorem wass_named (attrs : List (String × Atom)) (s : String) (pa : Atom) (y : Option M)
    (hk : lookup attrs "metric" = some (.str s)) (hs : s ≠ "precomputed")
    (hp : lookup attrs "metric_params" = some pa) (hpa : pa = .none ∨ ∃ d, pa = .dict d) :
    runAff ops attrs y aff_WassersteinGEMINI
      = ⟨0, .ok (some (ops.pairwise "pairwise_distances" [.X] (.name s) (paramsOf pa)))⟩ := by
  have hb : (s == "precomputed") = false := by simp [hs]
  rcases hpa with rfl | ⟨d, rfl⟩ <;>
    simp [aff_WassersteinGEMINI, runAff, evalTest, evalExpr, hk, hp, hb, paramsOf]

open GemVerif.Gen.Forwarding in
theorem wass_precomputed (attrs : List (String × Atom)) (y : M)
    (hk : lookup attrs "metric" = some (.str "precomputed")) :
    runAff ops attrs (some y) aff_WassersteinGEMINI = ⟨0, .ok (some y)⟩ := by
  simp [aff_WassersteinGEMINI, runAff, evalTest, evalExpr, hk]

open GemVerif.Gen.Forwarding in
theorem wass_precomputed_missing (attrs : List (String × Atom))
    (hk : lookup attrs "metric" = some (.str "precomputed")) :
    (runAff ops attrs none aff_WassersteinGEMINI).res = .error "ValueError" := by
  simp [aff_WassersteinGEMINI, runAff, evalTest, hk]

open GemVerif.Gen.Forwarding in
/-- `Kauri._compute_kernel` with a kernel name: `pairwise_kernels(X, metric=name)` — no parameters. -/
theorem kauri_named (attrs : List (String × Atom)) (s : String) (y : Option M)
    (hk : lookup attrs "kernel" = some (.str s)) (hs : s ≠ "precomputed") :
    runAff ops attrs y kernel_Kauri = ⟨0, .ok (some (ops.pairwise "pairwise_kernels" [.X] (.name s) []))⟩ := by
  have hb : (s == "precomputed") = false := by simp [hs]
  simp [kernel_Kauri, runAff, evalTest, evalExpr, hk, hb]

open GemVerif.Gen.Forwarding in
theorem kauri_precomputed (attrs : List (String × Atom)) (y : M)
    (hk : lookup attrs "kernel" = some (.str "precomputed")) :
    runAff ops attrs (some y) kernel_Kauri = ⟨0, .ok (some y)⟩ := by
  simp [kernel_Kauri, runAff, evalTest, evalExpr, hk]

open GemVerif.Gen.Forwarding in
/-- the documented fall-back: one warning, then the linear kernel -/
theorem kauri_precomputed_missing (attrs : List (String × Atom))
    (hk : lookup attrs "kernel" = some (.str "precomputed")) :
    runAff ops attrs none kernel_Kauri
      = ⟨1, .ok (some (ops.pairwise "pairwise_kernels" [.X] (.name "linear") []))⟩ := by
  simp [kernel_Kauri, runAff, evalTest, evalExpr, hk]

open GemVerif.Gen.Forwarding in
/-- `KernelRIM._compute_kernel`: the kernel between the new points and the training points -/
theorem kernelrim_named (attrs : List (String × Atom)) (s : String) (pa : Atom) (y : Option M)
    (hk : lookup attrs "base_kernel" = some (.str s))
    (hp : lookup attrs "base_kernel_params" = some pa) (hpa : pa = .none ∨ ∃ d, pa = .dict d) :
    runAff ops attrs y kernel_KernelRIM
      = ⟨0, .ok (some (ops.pairwise "pairwise_kernels" [.X, .train] (.name s) (paramsOf pa)))⟩ := by
  rcases hpa with rfl | ⟨d, rfl⟩ <;>
    simp [kernel_KernelRIM, runAff, evalTest, evalExpr, hk, hp, paramsOf]

open GemVerif.Gen.Forwarding in
theorem kernelrim_callable (attrs : List (String × Atom)) (f : String) (pa : Atom) (y : Option M)
    (hk : lookup attrs "base_kernel" = some (.fn f)) (hp : lookup attrs "base_kernel_params" = some pa) :
    (runAff ops attrs y kernel_KernelRIM).res = .ok (some (ops.call f [.X, .train])) := by
  cases pa <;> simp [kernel_KernelRIM, runAff, evalTest, evalExpr, hk, hp]

end generic


/-! ### from the estimator to the constructor call, and from the constructor call to the object -/

/-- `MMDGEMINI(ovo=…, kernel=…, kernel_params=…)` through the translated constructor -/
def buildMMD (ovo : Bool) (k pa : Atom) : Except String GeminiObj :=
  match findCtor tables "MMDGEMINI" with
  | some c => construct c [("ovo", .bool ovo), ("kernel", k), ("kernel_params", pa)]
  | none => .error "NameError"

/-- `WassersteinGEMINI(ovo=…, metric=…, metric_params=…)` through the translated constructor -/
def buildWass (ovo : Bool) (k pa : Atom) : Except String GeminiObj :=
  match findCtor tables "WassersteinGEMINI" with
  | some c => construct c [("ovo", .bool ovo), ("metric", k), ("metric_params", pa)]
  | none => .error "NameError"

/-- the object the MMD constructor yields once its checks pass -/
def mmdObj (ovo : Bool) (k pa : Atom) : GeminiObj :=
  ⟨"MMDGEMINI", "MMDGEMINI", [("epsilon", .tok "1e-12"), ("ovo", .bool ovo), ("kernel_params", pa), ("kernel", k)]⟩

def wassObj (ovo : Bool) (k pa : Atom) : GeminiObj :=
  ⟨"WassersteinGEMINI", "WassersteinGEMINI",
    [("epsilon", .tok "1e-12"), ("ovo", .bool ovo), ("metric", k), ("metric_params", pa)]⟩

/-- every MMD estimator's `get_gemini()` is the constructor call with ITS OWN `ovo`, `kernel`, `kernel_params` -/
theorem mmd_est_builds (ovo : Bool) (k pa : Atom) :
    ∀ e ∈ mmdEstimators, resolveGemini tables (est e) (mmdHyper (some ovo) (some k) (some pa)) = buildMMD ovo k pa := by
  intro e he
  simp only [mmdEstimators, List.mem_cons, List.not_mem_nil, or_false] at he
  rcases he with rfl | rfl | rfl | rfl | rfl <;> rfl

theorem wass_est_builds (ovo : Bool) (k pa : Atom) :
    ∀ e ∈ wassEstimators, resolveGemini tables (est e) (wassHyper (some ovo) (some k) (some pa)) = buildWass ovo k pa := by
  intro e he
  simp only [wassEstimators, List.mem_cons, List.not_mem_nil, or_false] at he
  rcases he with rfl | rfl | rfl <;> rfl

/-- the constructor accepts every documented kernel name (and "precomputed") with `None` … -/
theorem buildMMD_none (ovo : Bool) :
    ∀ s ∈ "precomputed" :: namedKernels, buildMMD ovo (.str s) .none = .ok (mmdObj ovo (.str s) .none) := by
  intro s hs
  simp only [namedKernels, List.mem_cons, List.not_mem_nil, or_false] at hs
  rcases hs with rfl | rfl | rfl | rfl | rfl | rfl | rfl | rfl | rfl | rfl <;> rfl

/-- … and with any dictionary, which it stores unchanged -/
theorem buildMMD_dict (ovo : Bool) (d : Params) :
    ∀ s ∈ "precomputed" :: namedKernels, buildMMD ovo (.str s) (.dict d) = .ok (mmdObj ovo (.str s) (.dict d)) := by
  intro s hs
  simp only [namedKernels, List.mem_cons, List.not_mem_nil, or_false] at hs
  rcases hs with rfl | rfl | rfl | rfl | rfl | rfl | rfl | rfl | rfl | rfl <;> rfl

theorem buildMMD_fn (ovo : Bool) (f : String) (p : Option Params) :
    buildMMD ovo (.fn f) (optAtom p) = .ok (mmdObj ovo (.fn f) (optAtom p)) := by
  cases p <;> rfl

theorem buildWass_none (ovo : Bool) :
    ∀ s ∈ "precomputed" :: namedMetrics, buildWass ovo (.str s) .none = .ok (wassObj ovo (.str s) .none) := by
  intro s hs
  simp only [namedMetrics, List.mem_cons, List.not_mem_nil, or_false] at hs
  rcases hs with rfl | rfl | rfl | rfl | rfl | rfl | rfl <;> rfl

theorem buildWass_dict (ovo : Bool) (d : Params) :
    ∀ s ∈ "precomputed" :: namedMetrics, buildWass ovo (.str s) (.dict d) = .ok (wassObj ovo (.str s) (.dict d)) := by
  intro s hs
  simp only [namedMetrics, List.mem_cons, List.not_mem_nil, or_false] at hs
  rcases hs with rfl | rfl | rfl | rfl | rfl | rfl | rfl <;> rfl

theorem buildMMD_opt (ovo : Bool) (p : Option Params) :
    ∀ s ∈ "precomputed" :: namedKernels, buildMMD ovo (.str s) (optAtom p) = .ok (mmdObj ovo (.str s) (optAtom p)) := by
  cases p
  · exact buildMMD_none ovo
  · exact buildMMD_dict ovo _

theorem buildWass_opt (ovo : Bool) (p : Option Params) :
    ∀ s ∈ "precomputed" :: namedMetrics, buildWass ovo (.str s) (optAtom p) = .ok (wassObj ovo (.str s) (optAtom p)) := by
  cases p
  · exact buildWass_none ovo
  · exact buildWass_dict ovo _

theorem optAtom_cases (p : Option Params) : optAtom p = .none ∨ ∃ d, optAtom p = .dict d := by
  cases p
  · exact Or.inl rfl
  · exact Or.inr ⟨_, rfl⟩

theorem paramsOf_optAtom (p : Option Params) : paramsOf (optAtom p) = p.getD [] := by
  cases p <;> rfl

section affinity
variable {M : Type} (ops : Ops M)

theorem computeAffinity_mmdObj (ovo : Bool) (k pa : Atom) (y : Option M) :
    computeAffinity tables ops (mmdObj ovo k pa) y
      = runAff ops (mmdObj ovo k pa).attrs y GemVerif.Gen.Forwarding.aff_MMDGEMINI := rfl

theorem computeAffinity_wassObj (ovo : Bool) (k pa : Atom) (y : Option M) :
    computeAffinity tables ops (wassObj ovo k pa) y
      = runAff ops (wassObj ovo k pa).attrs y GemVerif.Gen.Forwarding.aff_WassersteinGEMINI := rfl

end affinity

end GemVerif.Lemmas.Forwarding
