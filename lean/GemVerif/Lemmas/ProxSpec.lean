/-
  C05 — the documented meaning of the proximal operators (independent of the model) and the two
  abstract optimality theorems: the group soft-threshold is a strong minimiser in any real
  inner-product space, and scalar KKT-sufficiency for the LassoNet HIER-PROX problem.
-/
import Mathlib.Analysis.InnerProductSpace.Basic
import Mathlib.Analysis.SpecialFunctions.Sqrt
import Mathlib.Algebra.BigOperators.Field
import Mathlib.Tactic.Linarith
import Mathlib.Tactic.Ring
import Mathlib.Tactic.FieldSimp
import Mathlib.Tactic.Positivity

namespace GemVerif.Spec.Prox
open scoped BigOperators

variable {E : Type*} [NormedAddCommGroup E] [InnerProductSpace ℝ E]

/-- penalised problem of the group lasso: `½‖z − w‖² + α‖z‖` -/
noncomputable def glObj (w : E) (α : ℝ) (z : E) : ℝ := 1 / 2 * ‖z - w‖ ^ 2 + α * ‖z‖

/-- group soft-threshold: `0` if `‖w‖ ≤ α`, else `w` shrunk radially by `α` -/
noncomputable def glProx (w : E) (α : ℝ) : E := if ‖w‖ ≤ α then 0 else (1 - α / ‖w‖) • w

/-- **Strong minimum** of the group soft-threshold, in any real inner-product space. -/
theorem glProx_strong_min (w : E) {α : ℝ} (hα : 0 ≤ α) (z : E) :
    glObj w α z ≥ glObj w α (glProx w α) + 1 / 2 * ‖z - glProx w α‖ ^ 2 := by
  have hcs : inner ℝ z w ≤ ‖z‖ * ‖w‖ := real_inner_le_norm z w
  have hz : 0 ≤ ‖z‖ := norm_nonneg z
  have hw : 0 ≤ ‖w‖ := norm_nonneg w
  unfold glObj glProx
  split_ifs with h
  · simp only [zero_sub, norm_neg, norm_zero, mul_zero, add_zero, sub_zero]
    rw [norm_sub_sq_real]
    nlinarith [mul_le_mul_of_nonneg_left h hz]
  · have h := not_le.mp h
    have hwpos : 0 < ‖w‖ := lt_of_le_of_lt hα h
    set t : ℝ := 1 - α / ‖w‖ with ht
    have ht0 : 0 ≤ t := by
      rw [ht, sub_nonneg, div_le_one hwpos]; exact h.le
    have hnt : ‖t • w‖ = ‖w‖ - α := by
      rw [norm_smul, Real.norm_eq_abs, abs_of_nonneg ht0, ht]; field_simp
    have h1 : t • w - w = (-(α / ‖w‖)) • w := by
      rw [ht, sub_smul, one_smul]; simp [neg_smul]
    have hn1 : ‖t • w - w‖ ^ 2 = α ^ 2 := by
      rw [h1, norm_smul, Real.norm_eq_abs, abs_neg, abs_of_nonneg (div_nonneg hα hw)]
      field_simp
    rw [hn1, hnt, norm_sub_sq_real z w, norm_sub_sq_real z (t • w), inner_smul_right, hnt]
    have hkey : α / ‖w‖ * inner ℝ z w ≤ α * ‖z‖ := by
      have : α / ‖w‖ * inner ℝ z w ≤ α / ‖w‖ * (‖z‖ * ‖w‖) :=
        mul_le_mul_of_nonneg_left hcs (div_nonneg hα hw)
      calc α / ‖w‖ * inner ℝ z w ≤ α / ‖w‖ * (‖z‖ * ‖w‖) := this
        _ = α * ‖z‖ := by field_simp
    have ht' : t * inner ℝ z w = inner ℝ z w - α / ‖w‖ * inner ℝ z w := by rw [ht]; ring
    nlinarith [hkey, ht']

/-- The group soft-threshold is the unique minimiser. -/
theorem glProx_unique (w : E) {α : ℝ} (hα : 0 ≤ α) (z : E)
    (hz : glObj w α z ≤ glObj w α (glProx w α)) : z = glProx w α := by
  have h := glProx_strong_min w hα z
  have h0 : ‖z - glProx w α‖ ^ 2 ≤ 0 := by linarith
  have h1 : ‖z - glProx w α‖ = 0 := by
    have := sq_nonneg ‖z - glProx w α‖
    exact pow_eq_zero_iff (two_ne_zero) |>.mp (le_antisymm h0 this)
  exact sub_eq_zero.mp (norm_eq_zero.mp h1)

theorem glProx_minimises (w : E) {α : ℝ} (hα : 0 ≤ α) (z : E) :
    glObj w α (glProx w α) ≤ glObj w α z := by
  have h := glProx_strong_min w hα z
  have := sq_nonneg ‖z - glProx w α‖
  linarith

/-! ### HIER-PROX -/

variable {ι : Type*} [Fintype ι]

/-- penalised problem of the LassoNet hierarchical proximal step for one feature (or group):
    `½‖β − v‖² + ½‖θ − u‖² + α‖β‖` -/
noncomputable def hObj (v : E) (u : ι → ℝ) (α : ℝ) (β : E) (θ : ι → ℝ) : ℝ :=
  1 / 2 * ‖β - v‖ ^ 2 + 1 / 2 * ∑ j, (θ j - u j) ^ 2 + α * ‖β‖

/-- hierarchy constraint: every hidden weight is bounded by `M` times the norm of the skip weights -/
def Feasible (M : ℝ) (β : E) (θ : ι → ℝ) : Prop := ∀ j, |θ j| ≤ M * ‖β‖

/-- clipping `u` to `[-t, t]` written as the code does: `(±1) · min(|u|, t)` -/
noncomputable def clipPM (t x : ℝ) : ℝ := (if 0 ≤ x then 1 else -1) * min |x| t

theorem clipPM_sub_sq (t x : ℝ) : (clipPM t x - x) ^ 2 = (max (|x| - t) 0) ^ 2 := by
  unfold clipPM
  by_cases hx : 0 ≤ x
  · rw [if_pos hx, abs_of_nonneg hx]
    rcases le_total x t with h | h
    · rw [min_eq_left h, max_eq_right (by linarith)]; ring
    · rw [min_eq_right h, max_eq_left (by linarith)]; ring
  · have hx := not_le.mp hx
    rw [if_neg (not_le.mpr hx), abs_of_neg hx]
    rcases le_total (-x) t with h | h
    · rw [min_eq_left h, max_eq_right (by linarith)]; ring
    · rw [min_eq_right h, max_eq_left (by linarith)]; ring

theorem abs_clipPM_le {t : ℝ} (ht : 0 ≤ t) (x : ℝ) : |clipPM t x| ≤ t := by
  unfold clipPM
  have h0 : 0 ≤ min |x| t := le_min (abs_nonneg x) ht
  by_cases hx : 0 ≤ x
  · rw [if_pos hx, one_mul, abs_of_nonneg h0]; exact min_le_right _ _
  · rw [if_neg hx, neg_one_mul, abs_neg, abs_of_nonneg h0]; exact min_le_right _ _

/-- tangent-line inequality for `t ↦ ½ (a − t)₊²` (convexity), with the clipping bound folded in:
    any `θ` with `|θ| ≤ M c` is at least as far from `x` as the tangent at `M b` predicts. -/
theorem coord_tangent {M b c x θ : ℝ} (hθ : |θ| ≤ M * c) :
    1 / 2 * (max (|x| - M * b) 0) ^ 2 - max (|x| - M * b) 0 * (M * (c - b)) ≤ 1 / 2 * (θ - x) ^ 2 := by
  have h1 : |x| - M * c ≤ |θ - x| := by
    have := abs_sub_abs_le_abs_sub x θ
    rw [abs_sub_comm x θ] at this
    linarith
  have h2 : 0 ≤ |θ - x| := abs_nonneg _
  have h3 : (θ - x) ^ 2 = |θ - x| ^ 2 := (sq_abs _).symm
  rw [h3]
  set q := |θ - x|
  rcases le_total (|x| - M * b) 0 with hp | hp
  · rw [max_eq_right hp]; nlinarith [sq_nonneg q]
  · rw [max_eq_left hp]
    set p := |x| - M * b
    have hMc : M * (c - b) = p - (|x| - M * c) := by ring
    rw [hMc]
    nlinarith [sq_nonneg (p - q), mul_le_mul_of_nonneg_left h1 hp]

/-- **KKT-sufficiency for HIER-PROX.**  Let `b ≥ 0` solve the scalar stationarity condition
    `b = max(‖v‖ − α + M·Σ_j (|u_j| − M b)₊, 0)` (derivative of the reduced convex problem in
    `b = ‖β‖` vanishes, or is non-negative at `b = 0`).  Then the pair
    `β* = x • v` with `x ≥ 0`, `x‖v‖ = b`, `θ*_j = ±min(|u_j|, M b)` has an objective value no larger
    than that of ANY feasible pair.  No sign condition on `α`, `M` is needed here. -/
theorem hier_kkt_optimal (v : E) (u : ι → ℝ) (α M b x : ℝ) (hx : 0 ≤ x) (hb : b = x * ‖v‖)
    (hkkt : b = max (‖v‖ - α + M * ∑ j, max (|u j| - M * b) 0) 0)
    (β : E) (θ : ι → ℝ) (hfeas : Feasible M β θ) :
    hObj v u α (x • v) (fun j => clipPM (M * b) (u j)) ≤ hObj v u α β θ := by
  set r : ℝ := ∑ j, max (|u j| - M * b) 0 with hr
  set c : ℝ := ‖β‖ with hc
  have hc0 : 0 ≤ c := norm_nonneg β
  have hN : 0 ≤ ‖v‖ := norm_nonneg v
  have hb0 : 0 ≤ b := by rw [hb]; positivity
  -- value at the candidate
  have hβs : ‖x • v - v‖ ^ 2 = (b - ‖v‖) ^ 2 := by
    have : x • v - v = (x - 1) • v := by rw [sub_smul, one_smul]
    rw [this, norm_smul, Real.norm_eq_abs, mul_pow, sq_abs, hb]; ring
  have hnβs : ‖x • v‖ = b := by rw [norm_smul, Real.norm_eq_abs, abs_of_nonneg hx, hb]
  have hθs : ∑ j, (clipPM (M * b) (u j) - u j) ^ 2 = ∑ j, (max (|u j| - M * b) 0) ^ 2 :=
    Finset.sum_congr rfl fun j _ => clipPM_sub_sq _ _
  -- lower bound on the θ-part of any feasible competitor
  have hθ : 1 / 2 * ∑ j, (max (|u j| - M * b) 0) ^ 2 - r * (M * (c - b)) ≤ 1 / 2 * ∑ j, (θ j - u j) ^ 2 := by
    rw [hr, Finset.mul_sum, Finset.mul_sum, Finset.sum_mul, ← Finset.sum_sub_distrib]
    exact Finset.sum_le_sum fun j _ => coord_tangent (hfeas j)
  -- lower bound on the β-part: reverse triangle inequality
  have hβ : (c - ‖v‖) ^ 2 ≤ ‖β - v‖ ^ 2 := by
    have h := abs_norm_sub_norm_le β v
    rw [← sq_abs (c - ‖v‖)]
    exact pow_le_pow_left₀ (abs_nonneg _) h 2
  unfold hObj
  rw [hβs, hnβs, hθs]
  -- scalar part
  rcases le_total (‖v‖ - α + M * r) 0 with hneg | hpos
  · have hb' : b = 0 := by rw [hkkt, max_eq_right hneg]
    rw [hb'] at hθ ⊢
    nlinarith [mul_nonneg hc0 hc0, mul_nonneg hc0 (neg_nonneg.mpr hneg)]
  · have hb' : b = ‖v‖ - α + M * r := by rw [hkkt, max_eq_left hpos]
    nlinarith [sq_nonneg (c - b)]

/-! ### matrix-level objectives (features on the rows; a group is a list of rows) -/

variable {d h k : ℕ}

/-- squared Frobenius distance of two matrices on the rows of group `g` -/
noncomputable def blockDist (Z W : Fin d → Fin h → ℝ) (g : List (Fin d)) : ℝ :=
  ∑ q : Fin g.length, ∑ j, (Z (g.get q) j - W (g.get q) j) ^ 2

/-- 2-norm of the stacked rows of group `g` -/
noncomputable def blockNorm (Z : Fin d → Fin h → ℝ) (g : List (Fin d)) : ℝ :=
  Real.sqrt (∑ q : Fin g.length, ∑ j, Z (g.get q) j ^ 2)

/-- group-lasso penalised problem restricted to group `g` -/
noncomputable def glGroupObj (W : Fin d → Fin h → ℝ) (α : ℝ) (Z : Fin d → Fin h → ℝ) (g : List (Fin d)) : ℝ :=
  1 / 2 * blockDist Z W g + α * blockNorm Z g

/-- group-lasso penalised problem of the whole matrix: `½‖Z − W‖_F² + α Σ_g ‖Z_g‖₂` -/
noncomputable def glMatObj (groups : List (List (Fin d))) (W : Fin d → Fin h → ℝ) (α : ℝ)
    (Z : Fin d → Fin h → ℝ) : ℝ := (groups.map (glGroupObj W α Z)).sum

/-- HIER-PROX penalised problem restricted to group `g` -/
noncomputable def hGroupObj (Ws : Fin d → Fin k → ℝ) (W1 : Fin d → Fin h → ℝ) (α : ℝ)
    (B : Fin d → Fin k → ℝ) (T : Fin d → Fin h → ℝ) (g : List (Fin d)) : ℝ :=
  1 / 2 * blockDist B Ws g + 1 / 2 * blockDist T W1 g + α * blockNorm B g

/-- hierarchy constraint on group `g`: every hidden weight of the group is bounded by `M` times
    the norm of the group's skip weights -/
def GroupFeasible (M : ℝ) (B : Fin d → Fin k → ℝ) (T : Fin d → Fin h → ℝ) (g : List (Fin d)) : Prop :=
  ∀ (q : Fin g.length) (j : Fin h), |T (g.get q) j| ≤ M * blockNorm B g

/-- HIER-PROX penalised problem of the whole pair of matrices -/
noncomputable def hMatObj (groups : List (List (Fin d))) (Ws : Fin d → Fin k → ℝ) (W1 : Fin d → Fin h → ℝ)
    (α : ℝ) (B : Fin d → Fin k → ℝ) (T : Fin d → Fin h → ℝ) : ℝ :=
  (groups.map (hGroupObj Ws W1 α B T)).sum

/-- 2-norm of a row given by its coordinates -/
noncomputable def rowNorm {n : ℕ} (z : Fin n → ℝ) : ℝ := Real.sqrt (∑ j, z j ^ 2)

/-- row-wise (ungrouped) group-lasso problem: `Σ_i (½ Σ_j (Z_ij − W_ij)² + α ‖Z_i‖₂)` -/
noncomputable def glRowsObj (W : Fin d → Fin h → ℝ) (α : ℝ) (Z : Fin d → Fin h → ℝ) : ℝ :=
  ∑ i, (1 / 2 * ∑ j, (Z i j - W i j) ^ 2 + α * rowNorm (Z i))

/-- row-wise HIER-PROX problem -/
noncomputable def hRowsObj (Ws : Fin d → Fin k → ℝ) (W1 : Fin d → Fin h → ℝ) (α : ℝ)
    (B : Fin d → Fin k → ℝ) (T : Fin d → Fin h → ℝ) : ℝ :=
  ∑ i, (1 / 2 * ∑ c, (B i c - Ws i c) ^ 2 + 1 / 2 * ∑ j, (T i j - W1 i j) ^ 2 + α * rowNorm (B i))

/-- the property's scope for one feature (or flattened group) of the hierarchical operator: non-zero
    skip weights, or zero skip weights together with zero hidden weights (and `α ≥ 0`; on IEEE
    doubles `α > 0` is needed, see `Props/C05.lean`) -/
def InScope {k h : ℕ} (v : Fin k → ℝ) (u : Fin h → ℝ) (α : ℝ) : Prop := v ≠ 0 ∨ (v = 0 ∧ u = 0 ∧ 0 ≤ α)

end GemVerif.Spec.Prox
