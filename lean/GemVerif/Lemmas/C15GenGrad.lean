/-
  Steps of the proof, in Props/C15Gen.lean, that the generated `Douglas._compute_grads` (Gen/Douglas.lean `compute_grads`, over the
  untyped NumPy of Np.lean … Np5.lean) returns, without error, the updates of the hand model in closed form
  (Lemmas/DouglasGrad.lean: `lsbSpec`, `cutGradSpec`).  Over ℝ.
  One lemma per NumPy expression of the source, each stated for arbitrary arrays described by `IsMat` / `IsVec` / `IsRows`.
-/
import GemVerif.Lemmas.Np5
import GemVerif.Lemmas.DouglasGrad

set_option linter.unusedSectionVars false
set_option linter.unusedVariables false
set_option linter.unusedSimpArgs false

namespace GemVerif.Np
open GemVerif RealLike Model.Douglas GemVerif.Douglas
open scoped BigOperators

/-- the list of arrays `U` is the list of updates `G`: the first one the `(L, K)` matrix stored row-major in the first list,
    the others 1-D arrays -/
def UpdatesAre (L K : ℕ) : List (Arr ℝ) → List (List ℝ) → Prop
  | u :: us, g :: gs =>
    Arr.IsMat u (fun (l : Fin L) (k : Fin K) => g.getD (l.val * K + k.val) 0) ∧ List.Forall₂ Arr.IsVec us gs
  | _, _ => False

namespace Arr

/-! ### the expressions before the loop -/

/-- `y_pred * (gradient - (y_pred * gradient).sum(1, keepdims=True))` -/
theorem isMat_y_pred_grad {n K : ℕ} {yA gA : Arr ℝ} {y g : Fin n → Fin K → ℝ} (hy : IsMat yA y) (hg : IsMat gA g) :
    IsMat (mul yA (sub gA (sumAxis1 (mul yA gA)))) (Model.Nets.tauHat y g) := by
  obtain ⟨hyok, hyr, hyc, hyget⟩ := hy
  obtain ⟨hgok, hgr, hgc, hgget⟩ := hg
  subst hyr hyc
  refine ⟨?_, ?_, ?_, fun i j => ?_⟩
  · simp [mul, sub, hyok, hgok, hgr, hgc]
  · simp [mul, sub, hgr, hgc]
  · simp [mul, sub, hgr, hgc]
  · simp [mul, sub, hgr, hgc, hyget, hgget, tauHat_eq]

/-- `A @ B` -/
theorem IsMat.matmul {n m k : ℕ} {A B : Arr ℝ} {f : Fin n → Fin m → ℝ} {g : Fin m → Fin k → ℝ}
    (hA : IsMat A f) (hB : IsMat B g) : IsMat (Arr.matmul A B) (fun i j => ∑ l, f i l * g l j) := by
  obtain ⟨hAok, hAr, hAc, hAget⟩ := hA
  obtain ⟨hBok, hBr, hBc, hBget⟩ := hB
  subst hAr hAc hBc
  refine ⟨?_, ?_, ?_, fun i j => ?_⟩
  · simp [hAok, hBok, hBr]
  · simp
  · simp
  · simp only [matmul_get, sumTo_def, sumFin_eq_sum, hAget, hBget]

/-- `A.T` -/
theorem IsMat.transpose {n k : ℕ} {A : Arr ℝ} {f : Fin n → Fin k → ℝ} (hA : IsMat A f) :
    IsMat (Arr.transpose A) (fun j i => f i j) := by
  obtain ⟨hAok, hAr, hAc, hAget⟩ := hA
  exact ⟨hAok, hAc, hAr, fun j i => hAget i j⟩

/-- `-A` -/
theorem IsMat.neg {n k : ℕ} {A : Arr ℝ} {f : Fin n → Fin k → ℝ} (hA : IsMat A f) :
    IsMat (Arr.neg A) (fun i j => -(f i j)) := by
  obtain ⟨hAok, hAr, hAc, hAget⟩ := hA
  exact ⟨hAok, hAr, hAc, fun i j => by rw [neg_get, hAget]⟩

end Arr

/-! ### N-d arrays -/

/-- `P` is, without error, the `(n, r₁, …, r_k)` array with trailing axes `rs` whose flat `(n, L)` storage is `f` -/
def IsArrN {n L : ℕ} (P : ArrN ℝ) (rs : List ℕ) (f : Fin n → Fin L → ℝ) : Prop :=
  P.ok = true ∧ P.axes = rs ∧ P.flat.r = n ∧ P.flat.c = L ∧ ∀ (r : Fin n) (l : Fin L), P.flat.get r.val l.val = f r l

theorem digitN_eq_digit (rs : List ℕ) (i l : ℕ) : digitN rs i l = digit rs i l := rfl

/-- `A.reshape((-1, *axes))` -/
theorem isArrN_reshapeOf {n L : ℕ} {A : Arr ℝ} {f : Fin n → Fin L → ℝ} (hA : Arr.IsMat A f) {rs : List ℕ}
    (hrs : rs.prod = L) (hL : L ≠ 0) : IsArrN (ArrN.reshapeOf A rs) rs f := by
  obtain ⟨hAok, hAr, hAc, hAget⟩ := hA
  refine ⟨?_, rfl, hAr, hAc, hAget⟩
  simp [hAok, hAc, hrs, hL]

/-- `S * T` for two N-d arrays of the same shape -/
theorem IsArrN.mul {n L : ℕ} {P Q : ArrN ℝ} {rs : List ℕ} {f g : Fin n → Fin L → ℝ} (hP : IsArrN P rs f)
    (hQ : IsArrN Q rs g) : IsArrN (ArrN.mul P Q) rs (fun r l => f r l * g r l) := by
  obtain ⟨hPok, hPax, hPr, hPc, hPget⟩ := hP
  obtain ⟨hQok, hQax, hQr, hQc, hQget⟩ := hQ
  refine ⟨?_, hPax, hPr, hPc, fun r l => ?_⟩
  · simp [hPok, hQok, hPax, hQax, hPr, hQr, hPc, hQc]
  · rw [ArrN.mul_flat_get, hPget, hQget]

/-- `T.sum(axes)` over all trailing axes but the `i`-th: the `weighted_grad` of slot `i` -/
theorem IsArrN.sumExcept {n L : ℕ} {P : ArrN ℝ} {cl : List (ℕ × List ℝ)} {bb : Fin n → Fin L → ℝ}
    (hP : IsArrN P (radices cl) bb) {i m : ℕ} (hi : i < (radices cl).length) (hm : (radices cl).getD i 0 = m + 1) :
    Arr.IsMat (ArrN.sumExcept P i) (wgM cl bb i m) := by
  obtain ⟨hPok, hPax, hPr, hPc, hPget⟩ := hP
  subst hPr hPc
  refine ⟨?_, rfl, ?_, fun r j => ?_⟩
  · simp [hPok, hPax, hi]
  · rw [ArrN.sumExcept_c, hPax, hm]
  · simp only [ArrN.sumExcept_get, sumTo_def, sumFin_eq_sum, hPax, hPget, digitN_eq_digit, wgM]

namespace Arr

/-! ### the expressions of the loop body -/

/-- `weighted_grad - self._all_binnings[i] * weighted_grad.sum(1, keepdims=True)` -/
theorem isMat_bin_grad {n k : ℕ} {W B : Arr ℝ} {w b : Fin n → Fin k → ℝ} (hW : IsMat W w) (hB : IsMat B b) :
    IsMat (sub W (mul B (sumAxis1 W))) (fun r j => w r j - b r j * ∑ j', w r j') := by
  obtain ⟨hWok, hWr, hWc, hWget⟩ := hW
  obtain ⟨hBok, hBr, hBc, hBget⟩ := hB
  subst hWr hWc
  refine ⟨?_, ?_, ?_, fun i j => ?_⟩
  · simp [mul, sub, hWok, hBok, hBr, hBc]
  · simp [mul, sub, hBr, hBc]
  · simp [mul, sub, hBr, hBc]
  · simp [mul, sub, hBr, hBc, hWget, hBget]

/-- `bin_grad /= self.temperature` -/
theorem isMat_divs_inPlace {n k : ℕ} {G : Arr ℝ} {g : Fin n → Fin k → ℝ} (hG : IsMat G g) (T : ℝ) :
    IsMat (inPlace G (divs G T)) (fun r j => g r j / T) := by
  obtain ⟨hGok, hGr, hGc, hGget⟩ := hG
  refine ⟨?_, hGr, hGc, fun i j => ?_⟩
  · simp [hGok]
  · rw [inPlace_get, divs_get, hGget]

theorem finRange_tail_map_getD {m : ℕ} (f : Fin (m + 1) → ℝ) {j : ℕ} (hj : j < m) :
    ((List.finRange (m + 1)).tail.map f).getD j 0 = f ⟨j + 1, Nat.succ_lt_succ hj⟩ := by
  rw [List.finRange_succ, List.tail_cons, List.map_map, List.getD_eq_getElem _ _ (by simpa using hj), List.getElem_map,
    List.getElem_finRange]
  rfl

/-- `bin_grad.sum(0)[1:]` -/
theorem isVec_bias_grad {n m : ℕ} {G : Arr ℝ} {g : Fin n → Fin (m + 1) → ℝ} (hG : IsMat G g) :
    IsVec (drop1 (sumAxis0 G) 1) ((List.finRange (m + 1)).tail.map fun j => ∑ r, g r j) := by
  obtain ⟨hGok, hGr, hGc, hGget⟩ := id hG
  subst hGr
  have hlen : ((List.finRange (m + 1)).tail.map fun j => ∑ r, g r j).length = m := by simp
  refine ⟨by simp [hGok], rfl, by rw [hlen]; simp [hGc], fun j hj => ?_⟩
  rw [hlen] at hj
  rw [finRange_tail_map_getD _ hj]
  simp only [drop1_get, sumAxis0_get, sumTo_def, sumFin_eq_sum]
  exact Finset.sum_congr rfl fun r _ => hG.get_nat r.isLt (Nat.succ_lt_succ hj)

theorem getD_map_neg (l : List ℝ) (j : ℕ) : (l.map fun x => -x).getD j 0 = -(l.getD j 0) := by
  simp only [List.getD_eq_getElem?_getD, List.getElem?_map]
  cases l[j]? <;> simp

/-- `-np.cumsum(bias_grad[::-1])[::-1]` -/
theorem IsVec.cumsum_grad {v : Arr ℝ} {bl : List ℝ} (hv : IsVec v bl) :
    IsVec (neg (flipCols (cumsumAxis1 (flipCols v)))) ((Model.Douglas.cumsum bl.reverse).reverse.map fun x => -x) := by
  obtain ⟨hok, hr, hc, hget⟩ := hv
  have hlen1 : (Model.Douglas.cumsum bl.reverse).length = bl.length := by
    rw [douglas_cumsum_length, List.length_reverse]
  have hlen : ((Model.Douglas.cumsum bl.reverse).reverse.map fun x => -x).length = bl.length := by simp [hlen1]
  refine ⟨by simp [hok], by simp [hr], by rw [hlen]; simpa using hc, fun j hj => ?_⟩
  rw [hlen] at hj
  simp only [neg_get, flipCols_get, cumsumAxis1_get, flipCols_c, cumsumAxis1_c, hc]
  rw [getD_map_neg, List.getD_reverse _ (by rw [hlen1]; exact hj), hlen1,
    douglas_cumsum_getD _ _ (by rw [List.length_reverse]; omega)]
  congr 1
  refine cumsumTo_congr fun l hl => ?_
  rw [List.getD_reverse _ (by omega), hget _ (by omega)]

theorem argsortNat_length' (σ : List ℕ) : (argsortNat σ).length = σ.length := by
  rw [← argsortBy_eq_argsortNat, argsortBy_length]

/-- `-(cumsum_grad[np.argsort(self._all_orders[i])])` -/
theorem IsVec.neg_take1_argsortN {c : Arr ℝ} {O : Arr ℕ} {cg : List ℝ} {σ : List ℕ} (hc : IsVec c cg)
    (hO : IsVecN O σ) (hσ : σ.length = cg.length) :
    IsVec (neg (take1 c (argsortN O))) ((argsortNat σ).map fun p => -(cg.getD p 0)) := by
  obtain ⟨hcok, hcr, hcc, hcget⟩ := hc
  obtain ⟨hOok, hOr, hOc, hOget⟩ := hO
  have hA : argsortBy (fun a b => decide (O.get 0 a ≤ O.get 0 b)) O.c = argsortNat σ := by
    rw [hOc, ← argsortBy_eq_argsortNat]
    exact argsortBy_congr fun a b ha hb => by rw [hOget a ha, hOget b hb]
  have hlen : ((argsortNat σ).map fun p => -(cg.getD p 0)).length = σ.length := by simp [argsortNat_length']
  refine ⟨?_, rfl, by rw [hlen]; exact hOc, fun j hj => ?_⟩
  · rw [neg_ok, take1_ok]
    simp only [hcok, hOok, hcr, hOr, argsortN_ok, argsortN_r, argsortN_c, argsortN_get, beq_self_eq_true, Bool.and_true,
      Bool.true_and, List.all_eq_true, List.mem_range, decide_eq_true_eq]
    intro j hj
    rw [hcc, ← hσ, ← hOc]
    exact decide_eq_true (argsortBy_getD_lt _ hj)
  · rw [hlen] at hj
    have hj2 : j < (argsortNat σ).length := by rw [argsortNat_length']; exact hj
    have hp : (argsortNat σ).getD j 0 < cg.length := by
      rw [← hA, ← hσ, ← hOc]; exact argsortBy_getD_lt _ (by rw [hOc]; exact hj)
    rw [neg_get, take1_get, argsortN_get, hA, hcget _ hp,
      List.getD_eq_getElem ((argsortNat σ).map fun p => -(cg.getD p 0)) 0 (by simpa using hj2), List.getElem_map,
      List.getD_eq_getElem (argsortNat σ) 0 hj2]

/-- `-(cumsum_grad[ranks])` for ANY integer array `ranks` holding `np.argsort(order)` -/
theorem IsVec.neg_take1_of_isVecN {c : Arr ℝ} {R : Arr ℕ} {cg : List ℝ} {σ : List ℕ} (hc : IsVec c cg)
    (hR : IsVecN R (argsortNat σ)) (hσ : σ.length = cg.length) :
    IsVec (neg (take1 c R)) ((argsortNat σ).map fun p => -(cg.getD p 0)) := by
  obtain ⟨hcok, hcr, hcc, hcget⟩ := hc
  obtain ⟨hRok, hRr, hRc, hRget⟩ := hR
  rw [argsortNat_length'] at hRc hRget
  have hlen : ((argsortNat σ).map fun p => -(cg.getD p 0)).length = σ.length := by simp [argsortNat_length']
  have hlt : ∀ j, j < σ.length → (argsortNat σ).getD j 0 < cg.length := fun j hj => by
    rw [← argsortBy_eq_argsortNat, ← hσ]; exact argsortBy_getD_lt _ hj
  refine ⟨?_, rfl, by rw [hlen]; exact hRc, fun j hj => ?_⟩
  · rw [neg_ok, take1_ok]
    simp only [hcok, hRok, hcr, hRr, beq_self_eq_true, Bool.and_true, Bool.true_and, List.all_eq_true, List.mem_range,
      decide_eq_true_eq]
    intro j hj
    rw [hRc] at hj
    rw [hRget j hj, hcc]
    exact hlt j hj
  · rw [hlen] at hj
    have hj2 : j < (argsortNat σ).length := by rw [argsortNat_length']; exact hj
    rw [neg_get, take1_get, hRget j hj, hcget _ (hlt j hj),
      List.getD_eq_getElem ((argsortNat σ).map fun p => -(cg.getD p 0)) 0 (by simpa using hj2), List.getElem_map,
      List.getD_eq_getElem (argsortNat σ) 0 hj2]

/-! ### undoing a sort by scatter: `g = np.empty_like(v); g[order] = v` -/

/-- `np.argsort` of a permutation `σ` of `0 … m-1` is its inverse: position `j` of `argsort σ` is THE index at which `σ` holds `j` -/
theorem argsortNat_inv {σ : List ℕ} {m : ℕ} (hσ : σ.Perm (List.range m)) {j : ℕ} (hj : j < m) :
    (argsortNat σ).getD j 0 < m ∧ σ.getD ((argsortNat σ).getD j 0) 0 = j := by
  set P := isort (fun p q : ℕ × ℕ => decide (p.1 ≤ q.1)) σ.zipIdx with hP
  have hperm : P.Perm σ.zipIdx := isort_nat_perm σ
  have hsorted : (P.map Prod.fst).Pairwise (· ≤ ·) := by
    rw [List.pairwise_map]; exact isort_nat_sorted σ
  have hfst : P.map Prod.fst = List.range m := by
    refine List.Perm.eq_of_pairwise' (r := (· ≤ ·)) hsorted ?_ ?_
    · exact List.pairwise_le_range
    · have := hperm.map Prod.fst
      rw [List.zipIdx_map_fst] at this
      exact this.trans hσ
  have hlenP : P.length = m := by
    have := congrArg List.length hfst
    simpa using this
  have hlenσ : σ.length = m := by simpa using hσ.length_eq
  have hj' : j < P.length := by rw [hlenP]; exact hj
  have h1 : (P[j]).1 = j := by
    have := congrArg (fun l => l.getD j 0) hfst
    simp only [List.getD_eq_getElem?_getD, List.getElem?_map, List.getElem?_eq_getElem hj', List.getElem?_range hj] at this
    simpa using this
  have h2 : (argsortNat σ).getD j 0 = (P[j]).2 := by
    simp only [argsortNat, ← hP, List.getD_eq_getElem?_getD, List.getElem?_map, List.getElem?_eq_getElem hj']
    simp
  have hmem : P[j] ∈ σ.zipIdx := hperm.mem_iff.mp (List.getElem_mem hj')
  have h3 := zipIdx_fst_eq_getD 0 σ hmem
  have h4 := (List.mem_zipIdx' hmem).1
  rw [h2]
  exact ⟨by rw [← hlenσ]; exact h4, by rw [← h3, h1]⟩

/-- the entries of a permutation of `0 … m-1` are pairwise distinct -/
theorem perm_range_getD_inj {σ : List ℕ} {m : ℕ} (hσ : σ.Perm (List.range m)) {a b : ℕ} (ha : a < m) (hb : b < m)
    (h : σ.getD a 0 = σ.getD b 0) : a = b := by
  have hlen : σ.length = m := by simpa using hσ.length_eq
  have hnd : σ.Nodup := hσ.nodup_iff.mpr List.nodup_range
  rw [List.getD_eq_getElem _ _ (by rw [hlen]; exact ha), List.getD_eq_getElem _ _ (by rw [hlen]; exact hb)] at h
  exact (List.Nodup.getElem_inj_iff hnd).mp h

/-- THE SCATTER UNDOES THE SORT.  `g[order] = v` with `order` a permutation of ALL the positions `0 … m-1` of `g` and `len(v) = m`:
    whatever `g` held before (fresh memory of `np.empty_like`), entry `j` of `g` is afterwards `v[np.argsort(order)[j]]` — every
    position is written exactly once, nothing of the old content is left -/
theorem setAt_get_of_perm {β : Type} {g v : Arr β} {O : Arr ℕ} {σ : List ℕ} {m : ℕ} (hO : IsVecN O σ)
    (hσ : σ.Perm (List.range m)) {j : ℕ} (hj : j < m) :
    (Arr.setAt g O v).get 0 j = v.get 0 ((argsortNat σ).getD j 0) := by
  obtain ⟨hOok, hOr, hOc, hOget⟩ := hO
  have hlen : σ.length = m := by simpa using hσ.length_eq
  obtain ⟨hk, hσk⟩ := argsortNat_inv hσ hj
  rw [Arr.setAt_get, hOc, hlen]
  have hIk : O.get 0 ((argsortNat σ).getD j 0) = j := by rw [hOget _ (by rw [hlen]; exact hk), hσk]
  have := scatterGet_of_injOn (O.get 0) (v.get 0) (g.get 0 j) m (fun a b ha hb hab => by
    rw [hOget a (by rw [hlen]; exact ha), hOget b (by rw [hlen]; exact hb)] at hab
    exact perm_range_getD_inj hσ ha hb hab) _ hk
  rw [hIk] at this
  exact this

/-- the error flag of such a scatter: nothing raises -/
theorem setAt_ok_of_perm {β : Type} {g v : Arr β} {O : Arr ℕ} {σ : List ℕ} {m : ℕ} (hO : IsVecN O σ)
    (hσ : σ.Perm (List.range m)) (hg : g.ok = true) (hgr : g.r = 1) (hgc : g.c = m) (hv : v.ok = true) (hvr : v.r = 1)
    (hvc : v.c = m) : (Arr.setAt g O v).ok = true := by
  obtain ⟨hOok, hOr, hOc, hOget⟩ := hO
  have hlen : σ.length = m := by simpa using hσ.length_eq
  rw [Arr.setAt_ok]
  simp only [hg, hOok, hv, hgr, hOr, hvr, hvc, hOc, hlen, beq_self_eq_true, Bool.and_true, Bool.true_and, List.all_eq_true,
    List.mem_range, decide_eq_true_eq, hgc]
  intro k hk
  rw [hOget k (by rw [hlen]; exact hk)]
  have hmem : σ.getD k 0 ∈ σ := by
    rw [List.getD_eq_getElem _ _ (by rw [hlen]; exact hk)]; exact List.getElem_mem _
  exact List.mem_range.mp (hσ.mem_iff.mp hmem)

/-- `cut_grad = np.empty_like(cumsum_grad); cut_grad[order] = cumsum_grad; -cut_grad` -/
theorem IsVec.neg_setAt_emptyLike {c : Arr ℝ} {O : Arr ℕ} {cg : List ℝ} {σ : List ℕ} (hc : IsVec c cg)
    (hO : IsVecN O σ) (hσ : σ.Perm (List.range cg.length)) :
    IsVec (neg (Arr.setAt (emptyLike c) O c)) ((argsortNat σ).map fun p => -(cg.getD p 0)) := by
  obtain ⟨hcok, hcr, hcc, hcget⟩ := id hc
  have hlenσ : σ.length = cg.length := by simpa using hσ.length_eq
  have hlen : ((argsortNat σ).map fun p => -(cg.getD p 0)).length = cg.length := by simp [argsortNat_length', hlenσ]
  refine ⟨?_, rfl, by rw [hlen]; simpa using hcc, fun j hj => ?_⟩
  · rw [neg_ok]
    exact setAt_ok_of_perm hO hσ (by simpa using hcok) (by simpa using hcr) (by simpa using hcc) hcok hcr hcc
  · rw [hlen] at hj
    have hj2 : j < (argsortNat σ).length := by rw [argsortNat_length', hlenσ]; exact hj
    rw [neg_get, setAt_get_of_perm hO hσ hj, hcget _ (argsortNat_inv hσ hj).1,
      List.getD_eq_getElem ((argsortNat σ).map fun p => -(cg.getD p 0)) 0 (by simpa using hj2), List.getElem_map,
      List.getD_eq_getElem (argsortNat σ) 0 hj2]

/-- `ranks = np.empty_like(order); ranks[order] = np.arange(len(order))`: the ranks are `np.argsort(order)` -/
theorem isVecN_ranks {O : Arr ℕ} {σ : List ℕ} {m : ℕ} (hO : IsVecN O σ) (hσ : σ.Perm (List.range m)) :
    IsVecN (Arr.setAt (emptyLikeN O) O (arangeN O.c)) (argsortNat σ) := by
  have hlen : σ.length = m := by simpa using hσ.length_eq
  have hOc : O.c = m := by rw [hO.2.2.1, hlen]
  refine ⟨?_, rfl, by rw [argsortNat_length', Arr.setAt_c, emptyLikeN_c, hO.2.2.1], fun j hj => ?_⟩
  · exact setAt_ok_of_perm hO hσ (by simpa using hO.1) (by simpa using hO.2.1) (by simpa using hOc) rfl rfl
      (by simpa using hOc)
  · rw [argsortNat_length', hlen] at hj
    rw [setAt_get_of_perm hO hσ hj, arangeN_get]

/-- the model's `argsort` is a permutation of the positions -/
theorem argsort_perm_range (cuts : List ℝ) : (argsort cuts).Perm (List.range cuts.length) := by
  rw [← argsortBy_eq_argsort]; exact argsortBy_perm _ _

theorem IsMat.checked_true {n k : ℕ} {A : Arr ℝ} {f : Fin n → Fin k → ℝ} (hA : IsMat A f) : IsMat (checked true A) f := by
  obtain ⟨hAok, hAr, hAc, hAget⟩ := hA
  exact ⟨by simp [hAok], hAr, hAc, hAget⟩

theorem IsVec.checked_true {v : Arr ℝ} {l : List ℝ} (hv : IsVec v l) : IsVec (checked true v) l := by
  obtain ⟨hok, hr, hc, hget⟩ := hv
  exact ⟨by simp [hok], hr, hc, hget⟩

end Arr

/-! ### one round of the loop of `_compute_grads` -/

section loop
variable (P : ArrN ℝ) (Bs : List (Arr ℝ)) (Os : List (Arr ℕ)) (T : ℝ) (i : ℕ)

/-- `weighted_grad` of round `i` -/
noncomputable def loopWg : Arr ℝ := ArrN.sumExcept P i
/-- `bin_grad` of round `i`, before the division -/
noncomputable def loopBg : Arr ℝ := Arr.sub (loopWg P i) (Arr.mul (Arr.nth Bs i) (Arr.sumAxis1 (loopWg P i)))
/-- `bin_grad` of round `i`, after `bin_grad /= self.temperature` -/
noncomputable def loopBg1 : Arr ℝ := Arr.inPlace (loopBg P Bs i) (Arr.divs (loopBg P Bs i) T)
/-- `bias_grad` of round `i` -/
noncomputable def loopBias : Arr ℝ := Arr.drop1 (Arr.sumAxis0 (loopBg1 P Bs T i)) 1
/-- `cumsum_grad` of round `i` -/
noncomputable def loopCs : Arr ℝ := Arr.neg (Arr.flipCols (Arr.cumsumAxis1 (Arr.flipCols (loopBias P Bs T i))))
/-- `cut_grad` of round `i` -/
noncomputable def loopCut : Arr ℝ := Arr.take1 (loopCs P Bs T i) (argsortN (nthN Os i))
/-- `cut_grad` of round `i`, the sort undone by scatter: `np.empty_like(cumsum_grad)`, then `cut_grad[order] = cumsum_grad` -/
noncomputable def loopCutS : Arr ℝ := Arr.setAt (Arr.emptyLike (loopCs P Bs T i)) (nthN Os i) (loopCs P Bs T i)
/-- `ranks` of round `i`: `np.empty_like(order)`, then `ranks[order] = np.arange(len(order))` -/
noncomputable def loopRanks : Arr ℕ := Arr.setAt (emptyLikeN (nthN Os i)) (nthN Os i) (arangeN (nthN Os i).c)
/-- `cut_grad` of round `i`, gathered through the ranks: `cumsum_grad[ranks]` -/
noncomputable def loopCutR : Arr ℝ := Arr.take1 (loopCs P Bs T i) (loopRanks Os i)
/-- no statement of round `i` raised -/
noncomputable def loopOk : Bool :=
  (loopWg P i).ok && (loopBg P Bs i).ok && (loopBg1 P Bs T i).ok && (loopBias P Bs T i).ok && (loopCs P Bs T i).ok &&
    (loopCut P Bs Os T i).ok

end loop

theorem radices_getD_zero (cl : List (ℕ × List ℝ)) {i : ℕ} (hi : i < cl.length) :
    (radices cl).getD i 0 = cl[i].2.length + 1 := by
  simp [radices, List.getD_eq_getElem?_getD, List.getElem?_eq_getElem hi]

theorem feat_eq_getElem (cl : List (ℕ × List ℝ)) {i : ℕ} (hi : i < cl.length) : feat cl i = cl[i].1 := by
  simp [feat, List.getD_eq_getElem?_getD, List.getElem?_eq_getElem hi]

theorem cutsAt_eq_getElem (cl : List (ℕ × List ℝ)) {i : ℕ} (hi : i < cl.length) : cutsAt cl i = cl[i].2 := by
  simp [cutsAt, List.getD_eq_getElem?_getD, List.getElem?_eq_getElem hi]

/-- the model's `argsort` is a permutation of its own positions -/
theorem argsort_perm_range_length (cuts : List ℝ) : (argsort cuts).Perm (List.range (argsort cuts).length) := by
  have h : (argsort cuts).length = cuts.length := by rw [← argsortBy_eq_argsort, argsortBy_length]
  rw [h]; exact Arr.argsort_perm_range cuts

/-- round `i` of the loop up to `cumsum_grad`: nothing raises and `cumsum_grad` holds the model's list, as long as the
    retained order -/
theorem loop_round_cs {n d L : ℕ} (T : ℝ) (X : Fin n → Fin d → ℝ) (cl : List (ℕ × List ℝ)) (bb : Fin n → Fin L → ℝ)
    {P : ArrN ℝ} (hP : IsArrN P (radices cl) bb) {Bs : List (Arr ℝ)} {i : ℕ} (hi : i < cl.length)
    (hB : Arr.IsRows (Bs.getD i Arr.err)
      (fun r : Fin n => binning T (xget (X r) (feat cl i)) (cutsAt cl i)) ((cutsAt cl i).length + 1)) :
    ((((loopWg P i).ok = true ∧ (loopBg P Bs i).ok = true) ∧ (loopBg1 P Bs T i).ok = true) ∧ (loopBias P Bs T i).ok = true) ∧
    ∃ cg : List ℝ, Arr.IsVec (loopCs P Bs T i) cg ∧ (argsort cl[i].2).length = cg.length ∧
      cutGradSpec T X cl bb (cl[i], i) = (argsortNat (argsort cl[i].2)).map fun p => -(cg.getD p 0) := by
  rw [feat_eq_getElem cl hi, cutsAt_eq_getElem cl hi] at hB
  have hwg : Arr.IsMat (loopWg P i) (wgM cl bb i cl[i].2.length) :=
    hP.sumExcept (by simpa [radices] using hi) (radices_getD_zero cl hi)
  have hbg := Arr.isMat_bin_grad hwg hB.isMat
  have hbg1 := Arr.isMat_divs_inPlace hbg T
  have hbias := Arr.isVec_bias_grad hbg1
  have hcs := hbias.cumsum_grad
  refine ⟨⟨⟨⟨hwg.1, hbg.1⟩, hbg1.1⟩, hbias.1⟩, _, hcs, ?_, rfl⟩
  rw [← argsortBy_eq_argsort, argsortBy_length, List.length_map, List.length_reverse, douglas_cumsum_length,
    List.length_reverse]
  simp

/-- round `i` of the loop raises nothing and appends the model's `i`-th cut update -/
theorem loop_round_spec {n d L : ℕ} (T : ℝ) (X : Fin n → Fin d → ℝ) (cl : List (ℕ × List ℝ)) (bb : Fin n → Fin L → ℝ)
    {P : ArrN ℝ} (hP : IsArrN P (radices cl) bb) {Bs : List (Arr ℝ)} {Os : List (Arr ℕ)} {i : ℕ} (hi : i < cl.length)
    (hB : Arr.IsRows (Bs.getD i Arr.err)
      (fun r : Fin n => binning T (xget (X r) (feat cl i)) (cutsAt cl i)) ((cutsAt cl i).length + 1))
    (hO : IsVecN (Os.getD i errN) (argsort (cutsAt cl i))) :
    loopOk P Bs Os T i = true ∧ Arr.IsVec (Arr.neg (loopCut P Bs Os T i)) (cutGradSpec T X cl bb (cl[i], i)) := by
  obtain ⟨⟨⟨⟨h1, h2⟩, h3⟩, h4⟩, cg, hcs, hlen, hspec⟩ := loop_round_cs T X cl bb hP hi hB
  rw [cutsAt_eq_getElem cl hi] at hO
  have hcut := hcs.neg_take1_argsortN hO hlen
  rw [hspec]
  refine ⟨?_, hcut⟩
  simp only [loopOk, Bool.and_eq_true]
  exact ⟨⟨⟨⟨⟨h1, h2⟩, h3⟩, h4⟩, hcs.1⟩, hcut.1⟩

/-- the same round with the sort undone by SCATTER (`cut_grad = np.empty_like(cumsum_grad); cut_grad[order] = cumsum_grad`): the
    retained order is a permutation of all the positions, so every entry of the fresh array is written exactly once — nothing
    raises, nothing of the uninitialised memory survives, and `-cut_grad` is the model's `i`-th cut update -/
theorem loop_round_spec_scatter {n d L : ℕ} (T : ℝ) (X : Fin n → Fin d → ℝ) (cl : List (ℕ × List ℝ)) (bb : Fin n → Fin L → ℝ)
    {P : ArrN ℝ} (hP : IsArrN P (radices cl) bb) {Bs : List (Arr ℝ)} {Os : List (Arr ℕ)} {i : ℕ} (hi : i < cl.length)
    (hB : Arr.IsRows (Bs.getD i Arr.err)
      (fun r : Fin n => binning T (xget (X r) (feat cl i)) (cutsAt cl i)) ((cutsAt cl i).length + 1))
    (hO : IsVecN (Os.getD i errN) (argsort (cutsAt cl i))) :
    ((Arr.emptyLike (loopCs P Bs T i)).ok = true ∧ (loopCutS P Bs Os T i).ok = true) ∧
      Arr.IsVec (Arr.neg (loopCutS P Bs Os T i)) (cutGradSpec T X cl bb (cl[i], i)) := by
  obtain ⟨-, cg, hcs, hlen, hspec⟩ := loop_round_cs T X cl bb hP hi hB
  rw [cutsAt_eq_getElem cl hi] at hO
  have hperm : (argsort cl[i].2).Perm (List.range cg.length) := by rw [← hlen]; exact argsort_perm_range_length _
  have hcut := hcs.neg_setAt_emptyLike hO hperm
  rw [hspec]
  exact ⟨⟨by rw [Arr.emptyLike_ok]; exact hcs.1, by have := hcut.1; rwa [Arr.neg_ok] at this⟩, hcut⟩

/-- the same round with the inverse permutation built by scatter (`ranks = np.empty_like(order); ranks[order] = np.arange(len(order));
    cut_grad = cumsum_grad[ranks]`): `ranks` is `np.argsort(order)`, nothing raises, `-cut_grad` is the model's `i`-th cut update -/
theorem loop_round_spec_ranks {n d L : ℕ} (T : ℝ) (X : Fin n → Fin d → ℝ) (cl : List (ℕ × List ℝ)) (bb : Fin n → Fin L → ℝ)
    {P : ArrN ℝ} (hP : IsArrN P (radices cl) bb) {Bs : List (Arr ℝ)} {Os : List (Arr ℕ)} {i : ℕ} (hi : i < cl.length)
    (hB : Arr.IsRows (Bs.getD i Arr.err)
      (fun r : Fin n => binning T (xget (X r) (feat cl i)) (cutsAt cl i)) ((cutsAt cl i).length + 1))
    (hO : IsVecN (Os.getD i errN) (argsort (cutsAt cl i))) :
    (((emptyLikeN (nthN Os i)).ok = true ∧ (loopRanks Os i).ok = true) ∧ (loopCutR P Bs Os T i).ok = true) ∧
      Arr.IsVec (Arr.neg (loopCutR P Bs Os T i)) (cutGradSpec T X cl bb (cl[i], i)) := by
  obtain ⟨-, cg, hcs, hlen, hspec⟩ := loop_round_cs T X cl bb hP hi hB
  rw [cutsAt_eq_getElem cl hi] at hO
  have hR : IsVecN (loopRanks Os i) (argsortNat (argsort cl[i].2)) := Arr.isVecN_ranks hO (argsort_perm_range_length _)
  have hcut := hcs.neg_take1_of_isVecN hR hlen
  rw [hspec]
  exact ⟨⟨⟨by rw [emptyLikeN_ok]; exact hO.1, hR.1⟩, by have := hcut.1; rwa [Arr.neg_ok] at this⟩, hcut⟩

/-! ### the fold -/

/-- a loop whose state is (no statement raised so far, the list of updates so far) and whose rounds append one update -/
theorem foldl_flags_updates {σ β : Type} (step : Bool × List β → σ → Bool × List β) (okf : σ → Bool) (f : σ → β)
    (hstep : ∀ st zi, step st zi = (st.1 && okf zi, st.2 ++ [f zi])) :
    ∀ (l : List σ) (b : Bool) (init : List β), l.foldl step (b, init) = (b && l.all okf, init ++ l.map f)
  | [], b, init => by simp
  | a :: l, b, init => by
    rw [List.foldl_cons, hstep, foldl_flags_updates step okf f hstep l]
    simp [Bool.and_assoc]

/-- the same loop, read semantically: every round appends `f zi` and, as long as nothing raised before, raises nothing — whatever
    temporaries the rounds bind (their `ok` flags are whatever conjunction `step` computes) -/
theorem foldl_updates_true {σ β : Type} (step : Bool × List β → σ → Bool × List β) (f : σ → β) :
    ∀ (l : List σ) (init : List β), (∀ st zi, (step st zi).2 = st.2 ++ [f zi]) →
      (∀ st zi, zi ∈ l → st.1 = true → (step st zi).1 = true) → l.foldl step (true, init) = (true, init ++ l.map f)
  | [], init, _, _ => by simp
  | a :: l, init, h2, h1 => by
    have e : step (true, init) a = (true, init ++ [f a]) :=
      Prod.ext (h1 (true, init) a List.mem_cons_self rfl) (h2 (true, init) a)
    rw [List.foldl_cons, e, foldl_updates_true step f l _ h2 fun st zi hz => h1 st zi (List.mem_cons_of_mem _ hz)]
    simp

theorem axes_eq_radices {clA : List (ℕ × Arr ℝ)} {cl : List (ℕ × List ℝ)}
    (hcl : List.Forall₂ (fun (a : ℕ × Arr ℝ) (z : ℕ × List ℝ) => a.1 = z.1 ∧ Arr.IsVec a.2 z.2) clA cl) :
    clA.map (fun x => x.2.c + 1) = radices cl := by
  induction hcl with
  | nil => rfl
  | cons h _ ih => simp only [List.map_cons, radices] at ih ⊢; rw [ih, h.2.2.2.1]

theorem radices_prod_ne_zero (cl : List (ℕ × List ℝ)) : (radices cl).prod ≠ 0 := by
  simp [radices, List.prod_eq_zero_iff]

end GemVerif.Np
