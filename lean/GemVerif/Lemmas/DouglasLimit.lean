/-
  Helper lemmas for the Douglas theorems (C15), part 5: as the temperature goes to `0⁺` the prediction
  of `_infer` tends to the soft-max of the score row of the leaf of the sample's cell.
-/
import GemVerif.Lemmas.DouglasTree
import Mathlib.Topology.Algebra.Order.Field
import Mathlib.Topology.Algebra.Monoid
import Mathlib.Topology.Algebra.GroupWithZero

namespace GemVerif.Douglas
open scoped BigOperators Topology
open GemVerif Model.Douglas Filter

/-- one strictly positive distance separates every used coordinate of `x` from the cut points of
    its feature when no coordinate equals a cut point -/
theorem exists_gap_all {d : ℕ} (x : Fin d → ℝ) : ∀ cl : List (ℕ × List ℝ),
    (∀ z ∈ cl, ∀ c ∈ z.2, xget x z.1 ≠ c) → ∃ g : ℝ, 0 < g ∧ ∀ z ∈ cl, ∀ c ∈ z.2, g ≤ |xget x z.1 - c|
  | [], _ => ⟨1, one_pos, by simp⟩
  | z :: cl, h => by
    obtain ⟨g, hg0, hg⟩ := exists_gap_all x cl fun w hw => h w (List.mem_cons_of_mem _ hw)
    obtain ⟨g', hg0', hg'⟩ := exists_gap (xget x z.1) z.2 (h z List.mem_cons_self)
    refine ⟨min g g', lt_min hg0 hg0', fun w hw c hc => ?_⟩
    rcases List.mem_cons.mp hw with rfl | hw
    · exact le_trans (min_le_right _ _) (hg' c hc)
    · exact le_trans (min_le_left _ _) (hg w hw c hc)

theorem sum_fin_getD (l : List ℝ) : ∑ i : Fin l.length, l.getD i.val 0 = l.sum := by
  have h : (fun i : Fin l.length => l.getD i.val 0) = fun i : Fin l.length => l[i.val] := by
    funext i
    rw [List.getD_eq_getElem?_getD, List.getElem?_eq_getElem i.isLt, Option.getD_some]
  rw [h, ← List.sum_ofFn, List.ofFn_getElem]

/-- in a probability vector, an entry is at most one minus any other entry -/
theorem IsProb.getD_le_one_sub {l : List ℝ} (h : IsProb l) {i j : ℕ} (hi : i < l.length) (hj : j < l.length)
    (hne : i ≠ j) : l.getD i 0 ≤ 1 - l.getD j 0 := by
  have hs := sum_fin_getD l
  rw [h.2] at hs
  have hnn : ∀ k : Fin l.length, 0 ≤ l.getD k.val 0 := fun k => by
    rw [List.getD_eq_getElem?_getD, List.getElem?_eq_getElem k.isLt, Option.getD_some]
    exact (h.1 _ (List.getElem_mem k.isLt)).le
  rw [← Finset.add_sum_erase _ _ (Finset.mem_univ (⟨j, hj⟩ : Fin l.length))] at hs
  have hmem : (⟨i, hi⟩ : Fin l.length) ∈ Finset.univ.erase (⟨j, hj⟩ : Fin l.length) :=
    Finset.mem_erase.mpr ⟨fun he => hne (Fin.mk.inj he), Finset.mem_univ _⟩
  have := Finset.single_le_sum (f := fun k : Fin l.length => l.getD k.val 0) (fun k _ => hnn k) hmem
  simp only at this hs
  linarith

section limit
variable {d L K : ℕ} (x : Fin d → ℝ) (cl : List (ℕ × List ℝ)) (S : Fin L → Fin K → ℝ)

/-- the merged leaf row as a function of the temperature -/
noncomputable def leafT (T : ℝ) : List ℝ := (leafRow T x cl).getD []

variable (hne : cl ≠ []) (hr : ∀ z ∈ cl, z.1 < d)
include hne hr

theorem leafRow_eq_leafT (T : ℝ) : leafRow T x cl = some (leafT x cl T) := by
  obtain ⟨leaf, h⟩ := leafRow_isSome T x hne hr
  simp [leafT, h]

theorem leafT_length (T : ℝ) : (leafT x cl T).length = (cl.map fun z => z.2.length + 1).prod :=
  leafRow_length (leafRow_eq_leafT x cl hne hr T)

variable (hx : ∀ z ∈ cl, ∀ c ∈ z.2, xget x z.1 ≠ c)
include hx

/-- the leaf of the cell takes all the mass -/
theorem leafT_cell_tendsto :
    Tendsto (fun T => (leafT x cl T).getD (leafIndex x cl) 0) (𝓝[>] 0) (𝓝 1) := by
  obtain ⟨g, hg0, hg⟩ := exists_gap_all x cl hx
  have hlow : Tendsto (fun T : ℝ => 1 - ((cl.map fun z => z.2.length).sum : ℕ) * Real.exp (-g / T)) (𝓝[>] 0) (𝓝 1) := by
    have := ((tendsto_exp_neg_div hg0).const_mul (((cl.map fun z => z.2.length).sum : ℕ) : ℝ)).const_sub 1
    simpa using this
  refine tendsto_of_tendsto_of_tendsto_of_le_of_le' hlow tendsto_const_nhds ?_ ?_
  · filter_upwards [self_mem_nhdsWithin] with T hT
    exact leafRow_cell_ge hT hg0.le hg (leafRow_eq_leafT x cl hne hr T)
  · refine Eventually.of_forall fun T => ?_
    have hp := leafRow_isProb (leafRow_eq_leafT x cl hne hr T)
    have hlt : leafIndex x cl < (leafT x cl T).length := by
      rw [leafT_length x cl hne hr]; exact leafIndex_lt x hne
    rw [List.getD_eq_getElem?_getD, List.getElem?_eq_getElem hlt, Option.getD_some]
    exact hp.le_one _ (List.getElem_mem hlt)

/-- every other leaf vanishes -/
theorem leafT_other_tendsto {l : ℕ} (hl : l < (cl.map fun z => z.2.length + 1).prod) (hlne : l ≠ leafIndex x cl) :
    Tendsto (fun T => (leafT x cl T).getD l 0) (𝓝[>] 0) (𝓝 0) := by
  have hup : Tendsto (fun T => 1 - (leafT x cl T).getD (leafIndex x cl) 0) (𝓝[>] 0) (𝓝 0) := by
    have := (leafT_cell_tendsto x cl hne hr hx).const_sub 1
    simpa using this
  refine tendsto_of_tendsto_of_tendsto_of_le_of_le' tendsto_const_nhds hup ?_ ?_
  · refine Eventually.of_forall fun T => ?_
    have hp := leafRow_isProb (leafRow_eq_leafT x cl hne hr T)
    have hlt : l < (leafT x cl T).length := by rw [leafT_length x cl hne hr]; exact hl
    rw [List.getD_eq_getElem?_getD, List.getElem?_eq_getElem hlt, Option.getD_some]
    exact (hp.1 _ (List.getElem_mem hlt)).le
  · refine Eventually.of_forall fun T => ?_
    have hp := leafRow_isProb (leafRow_eq_leafT x cl hne hr T)
    exact hp.getD_le_one_sub (by rw [leafT_length x cl hne hr]; exact hl)
      (by rw [leafT_length x cl hne hr]; exact leafIndex_lt x hne) hlne

variable (hL : L = (cl.map fun z => z.2.length + 1).prod)
include hL

/-- `leaf @ leaf_scores_` tends to the score row of the leaf of the cell -/
theorem score_tendsto (k : Fin K) :
    Tendsto (fun T => ∑ l : Fin L, (leafT x cl T).getD l.val 0 * S l k) (𝓝[>] 0)
      (𝓝 (S ⟨leafIndex x cl, hL ▸ leafIndex_lt x hne⟩ k)) := by
  have hterm : ∀ l : Fin L, Tendsto (fun T => (leafT x cl T).getD l.val 0 * S l k) (𝓝[>] 0)
      (𝓝 ((if l.val = leafIndex x cl then 1 else 0) * S l k)) := by
    intro l
    refine Tendsto.mul_const _ ?_
    by_cases h : l.val = leafIndex x cl
    · rw [if_pos h, h]; exact leafT_cell_tendsto x cl hne hr hx
    · rw [if_neg h]; exact leafT_other_tendsto x cl hne hr hx (hL ▸ l.isLt) h
  have := tendsto_finsetSum Finset.univ fun l _ => hterm l
  refine this.congr' (EventuallyEq.refl _ _) |>.mono_right ?_
  rw [Finset.sum_eq_single (⟨leafIndex x cl, hL ▸ leafIndex_lt x hne⟩ : Fin L)]
  · simp
  · intro l _ hl
    have : l.val ≠ leafIndex x cl := fun h => hl (Fin.ext h)
    simp [this]
  · simp

omit hx in
theorem inferRow_eq (T : ℝ) :
    inferRow T x cl S = some (smx (List.ofFn fun k : Fin K => ∑ l : Fin L, (leafT x cl T).getD l.val 0 * S l k)) := by
  unfold inferRow
  rw [leafRow_eq_leafT x cl hne hr T]
  simp only
  rw [if_pos (by rw [leafT_length x cl hne hr, hL]), softmaxRow_eq]
  simp [scoreRow]

end limit

theorem smx_ofFn_getD {K : ℕ} (y : Fin K → ℝ) (k : Fin K) :
    (smx (List.ofFn y)).getD k.val 0 = Real.exp (y k) / ∑ k', Real.exp (y k') := by
  have hk : k.val < (smx (List.ofFn y)).length := by simp [smx]
  rw [List.getD_eq_getElem?_getD, List.getElem?_eq_getElem hk, Option.getD_some]
  simp [smx, List.sum_ofFn]

end GemVerif.Douglas
