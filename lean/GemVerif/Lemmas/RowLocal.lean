/-
  Helper definitions and lemmas for C18 (predictions are per-sample functions of the fitted model).

  * row functions `linearRow`, `mlpRow`, `sparseMlpRow`, `kernelRimRow`: the forward pass of ONE sample, and
    `…Infer_row`: row `i` of the matrix forward pass is the row function applied to `X i` — for every number type
    (the tables `tab2` of the models are transparent);
  * `selectRows` / `maskAssign` algebra (`maskAssign_select`) and `predictMask_eq_route`: the recursive, mask-based
    numpy `Tree.predict` returns, for every row, what routing that row alone returns (well-formed trees);
  * `wellFormed_of_fullInv`: every tree `Kauri.fit` builds is well formed (bridge from the C09 invariants).
-/
import GemVerif.Model.Nets
import GemVerif.Model.Douglas
import GemVerif.Model.KernelRim
import GemVerif.Model.KauriPredict
import GemVerif.NumReal
import GemVerif.Lemmas.KauriC19
import GemVerif.Lemmas.KauriC09

namespace GemVerif.RowLocal
open GemVerif RealLike Model.Nets Model.KernelRim Model.Kauri

variable {α : Type} [RealLike α]

set_option linter.unusedSectionVars false
set_option linter.unusedSimpArgs false

/-! ### the forward pass of one sample -/

/-- `softmax(x @ W + b)` for one sample `x` -/
def linearRow {d K : Nat} (x : Fin d → α) (W : Fin d → Fin K → α) (b : Fin K → α) : Fin K → α :=
  softmaxRow fun k => (sumFin fun j => x j * W j k) + b k

/-- `max(x @ W1 + b1, 0)` for one sample -/
def hiddenRow {d h : Nat} (x : Fin d → α) (W1 : Fin d → Fin h → α) (b1 : Fin h → α) : Fin h → α :=
  fun j => max ((sumFin fun a => x a * W1 a j) + b1 j) 0

/-- `MLPModel._infer` for one sample -/
def mlpRow {d h K : Nat} (x : Fin d → α) (W1 : Fin d → Fin h → α) (b1 : Fin h → α)
    (W2 : Fin h → Fin K → α) (b2 : Fin K → α) : Fin K → α :=
  softmaxRow fun k => (sumFin fun j => hiddenRow x W1 b1 j * W2 j k) + b2 k

/-- `SparseMLPModel._infer` for one sample -/
def sparseMlpRow {d h K : Nat} (x : Fin d → α) (W1 : Fin d → Fin h → α) (b1 : Fin h → α)
    (W2 : Fin h → Fin K → α) (b2 : Fin K → α) (Ws : Fin d → Fin K → α) : Fin K → α :=
  softmaxRow fun k => ((sumFin fun j => hiddenRow x W1 b1 j * W2 j k) + b2 k) + sumFin fun j => x j * Ws j k

/-- `KernelRIM.predict_proba` for one sample: its kernel row against the stored training points, then the linear model -/
def kernelRimRow {n d K : Nat} (pairwise : (Fin d → α) → (Fin d → α) → α) (x : Fin d → α)
    (Xtrain : Fin n → Fin d → α) (W : Fin n → Fin K → α) (b : Fin K → α) : Fin K → α :=
  linearRow (fun j => pairwise x (Xtrain j)) W b

theorem linearInfer_row {n d K : Nat} (X : Fin n → Fin d → α) (W : Fin d → Fin K → α) (b : Fin K → α) (i : Fin n) :
    linearInfer X W b i = linearRow (X i) W b := rfl

theorem mlpInfer_row {n d h K : Nat} (X : Fin n → Fin d → α) (W1 : Fin d → Fin h → α) (b1 : Fin h → α)
    (W2 : Fin h → Fin K → α) (b2 : Fin K → α) (i : Fin n) :
    mlpInfer X W1 b1 W2 b2 i = mlpRow (X i) W1 b1 W2 b2 := by
  simp only [mlpInfer, mlpRow, hiddenRow]
  congr 1
  funext k
  simp only [affine, Model.Nets.hidden, tab2_get]

theorem sparseMlpInfer_row {n d h K : Nat} (X : Fin n → Fin d → α) (W1 : Fin d → Fin h → α) (b1 : Fin h → α)
    (W2 : Fin h → Fin K → α) (b2 : Fin K → α) (Ws : Fin d → Fin K → α) (i : Fin n) :
    sparseMlpInfer X W1 b1 W2 b2 Ws i = sparseMlpRow (X i) W1 b1 W2 b2 Ws := by
  simp only [sparseMlpInfer, sparseMlpRow, hiddenRow, affine, Model.Nets.hidden, tab2_apply]

theorem kernelRimInfer_row {m n d K : Nat} (pairwise : (Fin d → α) → (Fin d → α) → α) (Xnew : Fin m → Fin d → α)
    (Xtrain : Fin n → Fin d → α) (W : Fin n → Fin K → α) (b : Fin K → α) (i : Fin m) :
    kernelRimInfer pairwise Xnew Xtrain W b i = kernelRimRow pairwise (Xnew i) Xtrain W b := rfl

theorem argmaxRow_eq_argmaxList {K : Nat} (z : Fin K → α) : argmaxRow z = argmaxList (List.ofFn z) := rfl

/-! ### Boolean-mask selection and assignment -/

/-- selecting the rows of a mask computed row by row, applying a per-row function to the selection and assigning the
    answers back under the same mask: the selected positions receive their own answer, the others keep their value -/
theorem maskAssign_select {β : Type} (X : List β) (p : β → Bool) (f h : β → Int) :
    maskAssign (X.map h) (X.map p) ((selectRows X (X.map p)).map f)
      = some (X.map fun x => if p x then f x else h x) := by
  induction X with
  | nil => simp [maskAssign, selectRows]
  | cons x xs ih =>
    by_cases hp : p x = true
    · simp [maskAssign, selectRows, hp, ih]
    · simp only [Bool.not_eq_true] at hp
      simp [maskAssign, selectRows, hp, ih]

theorem length_selectRows_le {β : Type} (X : List β) (m : List Bool) : (selectRows X m).length ≤ X.length := by
  induction X generalizing m with
  | nil => cases m <;> simp [selectRows]
  | cons x xs ih =>
    cases m with
    | nil => simp [selectRows]
    | cons b ms =>
      cases b
      · simp only [selectRows, Bool.false_eq_true, if_false, List.length_cons]
        exact Nat.le_succ_of_le (ih ms)
      · simp only [selectRows, if_true, List.length_cons]
        exact Nat.succ_le_succ (ih ms)

/-! ### the mask-based recursion is per-row routing -/

theorem getElem?_of_lt {β : Type} [Inhabited β] (a : Array β) (i : Nat) (h : i < a.size) : a[i]? = some a[i]! := by
  simp [h]

/-- On a well-formed tree the numpy recursion of `Tree.predict`, started at `node` on ANY list of rows, returns for each
    row what routing that row alone from `node` returns. -/
theorem predictMask_eq_route {t : Model.Kauri.Tree α} (ht : KauriC19.WellFormed t) :
    ∀ (fuel node : Nat) (X : List (Nat → α)), node < t.nNodes → t.nNodes ≤ fuel + node →
      t.predictMask fuel (node : Int) X = some (X.map fun x => t.route x fuel node) := by
  intro fuel
  induction fuel with
  | zero => intro node X h1 h2; omega
  | succ fuel ih =>
    intro node X hn hk
    have hrange : ((node : Int) < 0 || (node : Int) > (t.nNodes : Int)) = false := by
      simp only [Bool.or_eq_false_iff, decide_eq_false_iff_not]
      omega
    have hl? := getElem?_of_lt t.left node (by rw [ht.size_left]; exact hn)
    have ht? := getElem?_of_lt t.target node (by rw [ht.size_target]; exact hn)
    have hr? := getElem?_of_lt t.right node (by rw [ht.size_right]; exact hn)
    have hth? := getElem?_of_lt t.thr node (by rw [ht.size_thr]; exact hn)
    have hf? := getElem?_of_lt t.feat node (by rw [ht.size_feat]; exact hn)
    by_cases hl : t.left[node]! = -1
    · simp only [Tree.predictMask, hrange, Bool.false_eq_true, if_false, Int.toNat_natCast, hl?, hl, beq_self_eq_true,
        if_true, ht?, Option.map_some]
      congr 1
      rw [← List.map_const']
      apply List.map_congr_left
      intro x _
      exact (KauriC09.route_leaf t x (fuel + 1) node hl).symm
    · have hi := ht.internal node hn hl
      have hL := hi.left_toNat
      have hR := hi.right_toNat
      obtain ⟨th, hth⟩ := Option.isSome_iff_exists.mp hi.thr_some
      obtain ⟨f, hf, hf0⟩ := hi.feat_some
      have hlb : (t.left[node]! == -1) = false := by simpa using hl
      have hf0' : ¬ f < 0 := by omega
      have eL : ((t.left[node]!).toNat : Int) = t.left[node]! := Int.toNat_of_nonneg (by have := hi.left_gt; omega)
      have eR : ((t.right[node]!).toNat : Int) = t.right[node]! := Int.toNat_of_nonneg (by have := hi.right_gt; omega)
      have ihL := fun X' => ih (t.left[node]!).toNat X' hL.2 (by omega)
      have ihR := fun X' => ih (t.right[node]!).toNat X' hR.2 (by omega)
      simp only [eL, eR] at ihL ihR
      simp only [Tree.predictMask, hrange, Bool.false_eq_true, if_false, Int.toNat_natCast, hl?, hlb, hf?, hth?, hr?,
        hf, hth, hf0', ihL, ihR]
      rw [← List.map_const', List.map_map, maskAssign_select]
      simp only [Option.bind_some]
      have hcomp : (not ∘ fun x : Nat → α => le (x f.toNat) th) = fun x => !(le (x f.toNat) th) := rfl
      rw [hcomp, maskAssign_select]
      congr 1
      apply List.map_congr_left
      intro x _
      simp only [Tree.route, hlb, Bool.false_eq_true, if_false, hf, hth, Option.getD_some]
      cases le (x f.toNat) th <;> simp

/-- Python's recursion has no budget: on a well-formed tree the model's budget does not matter once it covers the
    nodes below `node` (children are numbered after their parent). -/
theorem route_fuel_irrelevant {t : Model.Kauri.Tree α} (ht : KauriC19.WellFormed t) (x : Nat → α) :
    ∀ (fuel fuel' node : Nat), node < t.nNodes → t.nNodes ≤ fuel + node → t.nNodes ≤ fuel' + node →
      t.route x fuel node = t.route x fuel' node := by
  intro fuel
  induction fuel with
  | zero => intro fuel' node h1 h2; omega
  | succ fuel ih =>
    intro fuel' node hn hk hk'
    obtain ⟨fuel', rfl⟩ : ∃ g, fuel' = g + 1 := ⟨fuel' - 1, by omega⟩
    by_cases hl : t.left[node]! = -1
    · rw [KauriC09.route_leaf t x _ node hl, KauriC09.route_leaf t x _ node hl]
    · have hi := ht.internal node hn hl
      have hL := hi.left_toNat
      have hR := hi.right_toNat
      have hlb : (t.left[node]! == -1) = false := by simpa using hl
      simp only [Tree.route, hlb, Bool.false_eq_true, if_false]
      rw [ih fuel' _ hL.2 (by omega) (by omega), ih fuel' _ hR.2 (by omega) (by omega)]

/-! ### trees built by `Kauri.fit` are well formed -/

theorem wellFormed_of_fullInv {X : Nat → Nat → α} {p : Params} {s : FitState α} (h : KauriC09.FullInv X p s) :
    KauriC19.WellFormed s.tree := by
  have hT := h.tree
  refine ⟨?_, hT.size_left, hT.size_right, hT.size_target, hT.size_thr, hT.size_feat, hT.size_depths, hT.root_depth, ?_⟩
  · have := hT.count; omega
  · intro k hk hl
    obtain ⟨c, h1, h2, h3, h4, h5, h6, h7, _⟩ := hT.internal k hk hl
    obtain ⟨f, hf0, hf, _⟩ := h.route.thr_obs k hk hl
    refine ⟨?_, ?_, ?_, ?_, ?_, ?_, h7, ⟨f, hf, hf0⟩⟩
    · rw [h3]; omega
    · rw [h3]; omega
    · rw [h4]; omega
    · rw [h4]; omega
    · rw [h3, Int.toNat_natCast]; exact h5
    · rw [h4, Int.toNat_natCast]; exact h6

end GemVerif.RowLocal
