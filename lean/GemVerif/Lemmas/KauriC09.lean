/-
  Helper definitions and lemmas for C09 (KAURI structural limits and self-consistency):
  the post-condition `SplitOK` of `find_best_split`, the invariants `Inv`, `InvSamples`, `InvRoute`
  of the fit state machine, and their preservation by `applySplit`.  No Mathlib.
-/
import GemVerif.Model.Kauri

namespace GemVerif.KauriC09
open GemVerif RealLike Model.Kauri

/-! ### `a[i]!` after `set!` / `push` -/

section arr
variable {β : Type} [Inhabited β]

theorem get_set_eq (a : Array β) (i : Nat) (v : β) (h : i < a.size) : (a.set! i v)[i]! = v := by
  simp [h]

theorem get_set_ne (a : Array β) (i j : Nat) (v : β) (h : i ≠ j) : (a.set! i v)[j]! = a[j]! := by
  grind

theorem get_set (a : Array β) (i j : Nat) (v : β) (hj : j < a.size) :
    (a.set! i v)[j]! = if i = j then v else a[j]! := by
  grind

omit [Inhabited β] in
theorem size_spp (a : Array β) (F : Nat) (v x y : β) : (((a.set! F v).push x).push y).size = a.size + 2 := by
  simp

theorem get_spp_lt (a : Array β) (F k : Nat) (v x y : β) (hk : k < a.size) :
    (((a.set! F v).push x).push y)[k]! = if F = k then v else a[k]! := by
  grind

theorem get_spp_n (a : Array β) (F : Nat) (v x y : β) : (((a.set! F v).push x).push y)[a.size]! = x := by
  grind

theorem get_spp_n1 (a : Array β) (F : Nat) (v x y : β) : (((a.set! F v).push x).push y)[a.size + 1]! = y := by
  grind

theorem get_pp_lt (a : Array β) (k : Nat) (x y : β) (hk : k < a.size) : ((a.push x).push y)[k]! = a[k]! := by
  grind

theorem get_pp_n (a : Array β) (x y : β) : ((a.push x).push y)[a.size]! = x := by
  grind

theorem get_pp_n1 (a : Array β) (x y : β) : ((a.push x).push y)[a.size + 1]! = y := by
  grind

omit [Inhabited β] in
/-- `for i in l: a[i] = v` -/
theorem size_foldl_set (l : List Nat) (v : β) (a : Array β) :
    (l.foldl (fun (acc : Array β) i => acc.set! i v) a).size = a.size := by
  induction l generalizing a with
  | nil => rfl
  | cons x xs ih => rw [List.foldl_cons, ih]; simp

theorem get_foldl_set (l : List Nat) (v : β) (a : Array β) (j : Nat) (hj : j < a.size) :
    (l.foldl (fun (acc : Array β) i => acc.set! i v) a)[j]! = if j ∈ l then v else a[j]! := by
  induction l generalizing a with
  | nil => simp
  | cons x xs ih =>
    rw [List.foldl_cons, ih _ (by simpa using hj)]
    by_cases h1 : j ∈ xs
    · simp [h1]
    · by_cases h2 : j = x
      · subst h2; simp [h1, hj]
      · have : x ≠ j := fun h => h2 h.symm
        rw [get_set_ne _ _ _ _ this]; simp [h1, h2]

end arr

variable {α : Type} [RealLike α]

/-! ### vocabulary -/

/-- the samples of the leaf that split `b` cuts -/
def members (s : FitState α) (b : Split α) : List Nat := s.asg.samplesOfLeaf b.leaf.toNat

/-- the test `X[i, feature] <= threshold` of `Kauri.fit` (and of `Tree.predict`) -/
def goesLeft (X : Nat → Nat → α) (b : Split α) (i : Nat) : Bool := le (X i b.feature.toNat) b.threshold

/-- `left_indices` of `Kauri.fit` -/
def leftIdx (X : Nat → Nat → α) (s : FitState α) (b : Split α) : List Nat :=
  (members s b).filter fun i => goesLeft X b i

/-- `right_indices` of `Kauri.fit` -/
def rightIdx (X : Nat → Nat → α) (s : FitState α) (b : Split α) : List Nat :=
  (members s b).filter fun i => !(goesLeft X b i)

/-- The post-condition that `find_best_split` guarantees for the split it reports with a positive gain, in the
    state `s` in which it was called. -/
structure SplitOK (X : Nat → Nat → α) (p : Params) (s : FitState α) (b : Split α) : Prop where
  /-- `leaf` is a leaf id (`Split.init` has `-1`; every setter writes `c.leaf_id`, a `Nat`) … -/
  leaf_nonneg : 0 ≤ b.leaf
  /-- … taken from `leaves_to_explore` (the outer loop of `find_best_split` ranges over it) -/
  leaf_mem : b.leaf.toNat ∈ s.toExplore
  /-- the feature is a column index (an element of the drawn feature subset) -/
  feature_nonneg : 0 ≤ b.feature
  /-- the targets are cluster ids -/
  left_nonneg : 0 ≤ b.left
  right_nonneg : 0 ≤ b.right
  /-- the two children go to different clusters (every branch of `compute_all_splits` writes two different ids;
      not needed by the invariants below, kept for faithfulness) -/
  targets_ne : b.left ≠ b.right
  /-- the four kinds of split of `compute_all_splits`, `k` being the cluster of the leaf:
      double star `(n_clusters, n_clusters+1)`, guarded by `n_clusters + 1 < K_max`;
      left star `(n_clusters, k)` and right star `(k, n_clusters)`, guarded by `n_clusters < K_max`;
      switch `(k', k)`, `(k, k')` and reallocation `(k_l, k_r)` with existing clusters only. -/
  targets :
    (b.left = s.nClusters ∧ b.right = s.nClusters + 1 ∧ s.nClusters + 2 ≤ p.maxClusters) ∨
    (b.left = s.nClusters ∧ b.right = s.asg.clusterOf[b.leaf.toNat]! ∧ s.nClusters + 1 ≤ p.maxClusters) ∨
    (b.left = s.asg.clusterOf[b.leaf.toNat]! ∧ b.right = s.nClusters ∧ s.nClusters + 1 ≤ p.maxClusters) ∨
    (b.left < s.nClusters ∧ b.right < s.nClusters)
  /-- the cluster `k` of the leaf is not emptied: one child stays in `k` (star, switch), or `k` has a sample outside
      the leaf (double star and reallocation are guarded by `n_leaf != cluster_sizes[k]`) -/
  keeps_cluster :
    b.left = s.asg.clusterOf[b.leaf.toNat]! ∨ b.right = s.asg.clusterOf[b.leaf.toNat]! ∨
    ∃ i, i < s.asg.n ∧ s.asg.leafOf[i]! ≠ b.leaf.toNat ∧ s.asg.clusterOfSample i = s.asg.clusterOf[b.leaf.toNat]!
  /-- the scan only evaluates cut positions `l` with `l + 1 ≥ min_samples_leaf` samples on the left … -/
  left_size : p.minLeaf ≤ (leftIdx X s b).length
  /-- … and `n_leaf - l - 1 ≥ min_samples_leaf` on the right -/
  right_size : p.minLeaf ≤ (rightIdx X s b).length
  /-- `l` ranges over `0 .. n_leaf-2`, so the left side holds the sample `nu[l]` … -/
  left_nonempty : leftIdx X s b ≠ []
  /-- … and the right side holds `nu[l+1]`, whose feature value differs (the equal-value skip) -/
  right_nonempty : rightIdx X s b ≠ []
  /-- the threshold is `X[nu[l], feature]`, the feature value of a sample of the leaf -/
  threshold_obs : ∃ i, i ∈ members s b ∧ b.threshold = X i b.feature.toNat

/-- Structural invariant of the fit loop (everything that does not mention the data). -/
structure Inv (p : Params) (s : FitState α) : Prop where
  nLeaves_pos : 1 ≤ s.nLeaves
  /-- the tree has `2·leaves − 1` nodes -/
  nNodes_eq : s.tree.nNodes = 2 * s.nLeaves - 1
  size_left : s.tree.left.size = s.tree.nNodes
  size_right : s.tree.right.size = s.tree.nNodes
  size_target : s.tree.target.size = s.tree.nNodes
  size_thr : s.tree.thr.size = s.tree.nNodes
  size_feat : s.tree.feat.size = s.tree.nNodes
  size_gains : s.tree.gains.size = s.tree.nNodes
  size_depths : s.tree.depths.size = s.tree.nNodes
  size_leafOf : s.asg.leafOf.size = s.asg.n
  size_clusterOf : s.asg.clusterOf.size = p.maxLeaves
  size_l2n : s.leaf2node.size = p.maxLeaves
  /-- at most `max_leaves` leaves (a tree always has its root leaf) -/
  nLeaves_le : s.nLeaves ≤ max p.maxLeaves 1
  /-- depth at most `max_depth` (the root is always explored, so depth 1 is reachable when `max_depth = 0`) -/
  depth_le : ∀ k, k < s.tree.nNodes → s.tree.depths[k]! ≤ max p.maxDepth 1
  /-- a tree with `L` leaves has depth at most `L - 1` -/
  depth_lt_leaves : ∀ k, k < s.tree.nNodes → s.tree.depths[k]! + 1 ≤ s.nLeaves
  /-- a leaf that may still be split is strictly above the depth limit -/
  explore_depth : ∀ l, l ∈ s.toExplore → s.tree.depths[s.leaf2node[l]!]! < max p.maxDepth 1
  nClusters_pos : 1 ≤ s.nClusters
  /-- at most `max_clusters` clusters -/
  nClusters_le : s.nClusters ≤ max p.maxClusters 1
  explore_lt : ∀ l, l ∈ s.toExplore → l < s.nLeaves
  explore_nodup : s.toExplore.Nodup
  /-- `leaf2node` sends leaf ids to nodes … -/
  l2n_lt : ∀ l, l < s.nLeaves → s.leaf2node[l]! < s.tree.nNodes
  /-- … that are leaves of the tree … -/
  l2n_leaf : ∀ l, l < s.nLeaves → s.tree.left[s.leaf2node[l]!]! = -1
  /-- … injectively … -/
  l2n_inj : ∀ l l', l < s.nLeaves → l' < s.nLeaves → s.leaf2node[l]! = s.leaf2node[l']! → l = l'
  /-- … and onto the leaves of the tree -/
  l2n_surj : ∀ k, k < s.tree.nNodes → s.tree.left[k]! = -1 → ∃ l, l < s.nLeaves ∧ s.leaf2node[l]! = k
  /-- every sample sits in an existing leaf -/
  leafOf_lt : ∀ i, i < s.asg.n → s.asg.leafOf[i]! < s.nLeaves
  /-- every leaf belongs to an existing cluster -/
  clusterOf_lt : ∀ l, l < s.nLeaves → s.asg.clusterOf[l]! < s.nClusters
  /-- clusters are numbered contiguously from 0: every id below `n_clusters` owns a leaf -/
  cluster_owns_leaf : ∀ c, c < s.nClusters → ∃ l, l < s.nLeaves ∧ s.asg.clusterOf[l]! = c
  /-- the tree node of a leaf carries the cluster of the leaf -/
  target_eq : ∀ l, l < s.nLeaves → s.tree.target[s.leaf2node[l]!]! = (s.asg.clusterOf[l]! : Int)

/-! ### `Tree.addChild` -/

section tree
variable (t : Tree α) (F : Nat) (b : Split α)

theorem addChild_nNodes : (t.addChild F b).nNodes = t.nNodes + 2 := rfl

theorem addChild_size_left : (t.addChild F b).left.size = t.left.size + 2 := size_spp ..
theorem addChild_size_right : (t.addChild F b).right.size = t.right.size + 2 := size_spp ..
theorem addChild_size_thr : (t.addChild F b).thr.size = t.thr.size + 2 := size_spp ..
theorem addChild_size_feat : (t.addChild F b).feat.size = t.feat.size + 2 := size_spp ..
theorem addChild_size_gains : (t.addChild F b).gains.size = t.gains.size + 2 := size_spp ..
theorem addChild_size_depths : (t.addChild F b).depths.size = t.depths.size + 2 := by
  show ((t.depths.push _).push _).size = _; simp
theorem addChild_size_target : (t.addChild F b).target.size = t.target.size + 2 := by
  show ((t.target.push _).push _).size = _; simp

theorem addChild_left_lt (h : t.left.size = t.nNodes) {k : Nat} (hk : k < t.nNodes) :
    (t.addChild F b).left[k]! = if F = k then (t.nNodes : Int) else t.left[k]! :=
  get_spp_lt _ _ _ _ _ _ (h ▸ hk)
theorem addChild_left_n (h : t.left.size = t.nNodes) : (t.addChild F b).left[t.nNodes]! = -1 := by
  have := get_spp_n t.left F (t.nNodes : Int) (-1) (-1); rw [h] at this; exact this
theorem addChild_left_n1 (h : t.left.size = t.nNodes) : (t.addChild F b).left[t.nNodes + 1]! = -1 := by
  have := get_spp_n1 t.left F (t.nNodes : Int) (-1) (-1); rw [h] at this; exact this

theorem addChild_right_lt (h : t.right.size = t.nNodes) {k : Nat} (hk : k < t.nNodes) :
    (t.addChild F b).right[k]! = if F = k then ((t.nNodes + 1 : Nat) : Int) else t.right[k]! :=
  get_spp_lt _ _ _ _ _ _ (h ▸ hk)
theorem addChild_right_n (h : t.right.size = t.nNodes) : (t.addChild F b).right[t.nNodes]! = -1 := by
  have := get_spp_n t.right F ((t.nNodes + 1 : Nat) : Int) (-1) (-1); rw [h] at this; exact this
theorem addChild_right_n1 (h : t.right.size = t.nNodes) : (t.addChild F b).right[t.nNodes + 1]! = -1 := by
  have := get_spp_n1 t.right F ((t.nNodes + 1 : Nat) : Int) (-1) (-1); rw [h] at this; exact this

theorem addChild_thr_lt (h : t.thr.size = t.nNodes) {k : Nat} (hk : k < t.nNodes) :
    (t.addChild F b).thr[k]! = if F = k then some b.threshold else t.thr[k]! :=
  get_spp_lt _ _ _ _ _ _ (h ▸ hk)
theorem addChild_thr_n (h : t.thr.size = t.nNodes) : (t.addChild F b).thr[t.nNodes]! = none := by
  have := get_spp_n t.thr F (some b.threshold) none none; rw [h] at this; exact this
theorem addChild_thr_n1 (h : t.thr.size = t.nNodes) : (t.addChild F b).thr[t.nNodes + 1]! = none := by
  have := get_spp_n1 t.thr F (some b.threshold) none none; rw [h] at this; exact this

theorem addChild_feat_lt (h : t.feat.size = t.nNodes) {k : Nat} (hk : k < t.nNodes) :
    (t.addChild F b).feat[k]! = if F = k then some b.feature else t.feat[k]! :=
  get_spp_lt _ _ _ _ _ _ (h ▸ hk)
theorem addChild_feat_n (h : t.feat.size = t.nNodes) : (t.addChild F b).feat[t.nNodes]! = none := by
  have := get_spp_n t.feat F (some b.feature) none none; rw [h] at this; exact this
theorem addChild_feat_n1 (h : t.feat.size = t.nNodes) : (t.addChild F b).feat[t.nNodes + 1]! = none := by
  have := get_spp_n1 t.feat F (some b.feature) none none; rw [h] at this; exact this

theorem addChild_depths_lt (h : t.depths.size = t.nNodes) {k : Nat} (hk : k < t.nNodes) :
    (t.addChild F b).depths[k]! = t.depths[k]! :=
  get_pp_lt _ _ _ _ (h ▸ hk)
theorem addChild_depths_n (h : t.depths.size = t.nNodes) : (t.addChild F b).depths[t.nNodes]! = t.depths[F]! + 1 := by
  have := get_pp_n t.depths (t.depths[F]! + 1) (t.depths[F]! + 1); rw [h] at this; exact this
theorem addChild_depths_n1 (h : t.depths.size = t.nNodes) :
    (t.addChild F b).depths[t.nNodes + 1]! = t.depths[F]! + 1 := by
  have := get_pp_n1 t.depths (t.depths[F]! + 1) (t.depths[F]! + 1); rw [h] at this; exact this

theorem addChild_target_lt (h : t.target.size = t.nNodes) {k : Nat} (hk : k < t.nNodes) :
    (t.addChild F b).target[k]! = t.target[k]! :=
  get_pp_lt _ _ _ _ (h ▸ hk)
theorem addChild_target_n (h : t.target.size = t.nNodes) : (t.addChild F b).target[t.nNodes]! = b.left := by
  have := get_pp_n t.target b.left b.right; rw [h] at this; exact this
theorem addChild_target_n1 (h : t.target.size = t.nNodes) : (t.addChild F b).target[t.nNodes + 1]! = b.right := by
  have := get_pp_n1 t.target b.left b.right; rw [h] at this; exact this

end tree

/-! ### the fields of `applySplit` -/

/-- `leaves_to_explore` after a split (`remove`, then the two guarded `append`s) -/
def newExplore (p : Params) (e : List Nat) (leaf nL pd lc rc : Nat) : List Nat :=
  let expl := e.erase leaf
  if pd + 1 < p.maxDepth then
    let e1 := if lc ≥ p.minSplit then expl ++ [leaf] else expl
    if rc ≥ p.minSplit then e1 ++ [nL] else e1
  else expl

/-- `n_clusters` after a split -/
def newNClusters (nC : Nat) (b : Split α) : Nat :=
  let nc : Int := nC
  if b.left ≥ nc && b.right ≥ nc then nC + 2
  else if b.left ≥ nc || b.right ≥ nc then nC + 1 else nC

section proj
variable (X : Nat → Nat → α) (p : Params) (s : FitState α) (b : Split α)

/-- the tree node of the leaf that is split -/
abbrev father (s : FitState α) (b : Split α) : Nat := s.leaf2node[b.leaf.toNat]!

theorem applySplit_nLeaves : (applySplit X p s b).nLeaves = s.nLeaves + 1 := rfl
theorem applySplit_n : (applySplit X p s b).asg.n = s.asg.n := rfl
theorem applySplit_tree : (applySplit X p s b).tree = s.tree.addChild (father s b) b := rfl
theorem applySplit_leafOf : (applySplit X p s b).asg.leafOf =
    (rightIdx X s b).foldl (fun (acc : Array Nat) i => acc.set! i s.nLeaves) s.asg.leafOf := rfl
theorem applySplit_clusterOf : (applySplit X p s b).asg.clusterOf =
    (s.asg.clusterOf.set! b.leaf.toNat b.left.toNat).set! s.nLeaves b.right.toNat := rfl
theorem applySplit_l2n : (applySplit X p s b).leaf2node =
    (s.leaf2node.set! b.leaf.toNat (2 * s.nLeaves - 1)).set! s.nLeaves (2 * s.nLeaves) := rfl
theorem applySplit_nClusters : (applySplit X p s b).nClusters = newNClusters s.nClusters b := rfl
theorem applySplit_toExplore : (applySplit X p s b).toExplore =
    newExplore p s.toExplore b.leaf.toNat s.nLeaves ((s.tree.addChild (father s b) b).depths[father s b]!)
      ((members s b).length - (rightIdx X s b).length) (rightIdx X s b).length := rfl
theorem applySplit_lastGainPos : (applySplit X p s b).lastGainPos = s.lastGainPos := rfl

end proj

theorem mem_newExplore {p : Params} {e : List Nat} {leaf nL pd lc rc l : Nat} (hn : e.Nodup)
    (h : l ∈ newExplore p e leaf nL pd lc rc) :
    (l ∈ e ∧ l ≠ leaf) ∨ (l = leaf ∧ pd + 1 < p.maxDepth ∧ p.minSplit ≤ lc) ∨
      (l = nL ∧ pd + 1 < p.maxDepth ∧ p.minSplit ≤ rc) := by
  have he : ∀ x, x ∈ e.erase leaf → x ∈ e ∧ x ≠ leaf := fun x hx =>
    let h := (List.Nodup.mem_erase_iff hn).1 hx; ⟨h.2, h.1⟩
  unfold newExplore at h
  simp only [ge_iff_le] at h
  by_cases h1 : pd + 1 < p.maxDepth <;> by_cases h2 : p.minSplit ≤ lc <;> by_cases h3 : p.minSplit ≤ rc <;>
    simp only [h1, h2, h3, if_true, if_false, List.mem_append, List.mem_singleton] at h <;>
    grind

theorem nodup_newExplore {p : Params} {e : List Nat} {leaf nL pd lc rc : Nat} (hn : e.Nodup)
    (hlt : ∀ l, l ∈ e → l < nL) (hleaf : leaf < nL) : (newExplore p e leaf nL pd lc rc).Nodup := by
  have he : ∀ x, x ∈ e.erase leaf → x ∈ e ∧ x ≠ leaf := fun x hx =>
    let h := (List.Nodup.mem_erase_iff hn).1 hx; ⟨h.2, h.1⟩
  have hne : (e.erase leaf).Nodup := hn.erase _
  have h1 : ((e.erase leaf) ++ [leaf]).Nodup := by
    rw [List.nodup_append]
    refine ⟨hne, by simp, ?_⟩
    intro a ha c hc
    rw [List.mem_singleton] at hc
    subst hc; exact (he a ha).2
  have h2 : ((e.erase leaf) ++ [nL]).Nodup := by
    rw [List.nodup_append]
    refine ⟨hne, by simp, ?_⟩
    intro a ha c hc
    rw [List.mem_singleton] at hc
    subst hc; exact Nat.ne_of_lt (hlt a (he a ha).1)
  have h3 : (((e.erase leaf) ++ [leaf]) ++ [nL]).Nodup := by
    rw [List.nodup_append]
    refine ⟨h1, by simp, ?_⟩
    intro a ha c hc
    rw [List.mem_singleton] at hc
    subst hc
    rw [List.mem_append, List.mem_singleton] at ha
    rcases ha with ha | ha
    · exact Nat.ne_of_lt (hlt a (he a ha).1)
    · subst ha; exact Nat.ne_of_lt hleaf
  unfold newExplore
  simp only [ge_iff_le]
  by_cases c1 : pd + 1 < p.maxDepth <;> by_cases c2 : p.minSplit ≤ lc <;> by_cases c3 : p.minSplit ≤ rc <;>
    simp only [c1, c2, c3, if_true, if_false] <;> assumption

/-! ### the initial state -/

theorem get_replicate_zero (m i : Nat) : (Array.replicate m (0 : Nat))[i]! = 0 := by
  by_cases h : i < m <;> simp [h]

theorem inv_init (n : Nat) (p : Params) : Inv p (FitState.init n p : FitState α) := by
  have hl2n : ∀ l, (FitState.init n p : FitState α).leaf2node[l]! = 0 := fun l => get_replicate_zero _ _
  have hcl : ∀ l, (FitState.init n p : FitState α).asg.clusterOf[l]! = 0 := fun l => get_replicate_zero _ _
  have hlo : ∀ i, (FitState.init n p : FitState α).asg.leafOf[i]! = 0 := fun l => get_replicate_zero _ _
  have hexp : ∀ l, l ∈ (FitState.init n p : FitState α).toExplore → l = 0 := by
    intro l hl
    simp only [FitState.init] at hl
    split at hl <;> simp_all
  refine { nLeaves_pos := Nat.le_refl _, nNodes_eq := rfl, size_left := rfl, size_right := rfl, size_target := rfl,
           size_thr := rfl, size_feat := rfl, size_gains := rfl, size_depths := rfl,
           size_leafOf := Array.size_replicate, size_clusterOf := Array.size_replicate,
           size_l2n := Array.size_replicate, nLeaves_le := Nat.le_max_right _ _, nClusters_pos := Nat.le_refl _,
           nClusters_le := Nat.le_max_right _ _, depth_le := ?_, depth_lt_leaves := ?_, explore_depth := ?_,
           explore_lt := ?_, explore_nodup := ?_, l2n_lt := ?_, l2n_leaf := ?_, l2n_inj := ?_, l2n_surj := ?_,
           leafOf_lt := ?_, clusterOf_lt := ?_, cluster_owns_leaf := ?_, target_eq := ?_ }
  · intro k hk
    have : k = 0 := by simpa [FitState.init, Tree.init] using hk
    subst this; exact Nat.zero_le _
  · intro k hk
    have : k = 0 := by simpa [FitState.init, Tree.init] using hk
    subst this; exact Nat.le_refl _
  · intro l hl
    rw [hl2n]
    show 0 < max p.maxDepth 1
    omega
  · intro l hl; rw [hexp l hl]; exact Nat.zero_lt_one
  · simp only [FitState.init]; split <;> simp
  · intro l _; rw [hl2n]; exact Nat.zero_lt_one
  · intro l _; rw [hl2n]; rfl
  · intro l l' h h' _
    have h1 : l = 0 := Nat.lt_one_iff.1 h
    have h2 : l' = 0 := Nat.lt_one_iff.1 h'
    omega
  · intro k hk _
    have : k = 0 := by simpa [FitState.init, Tree.init] using hk
    exact ⟨0, Nat.zero_lt_one, by rw [hl2n, this]⟩
  · intro i _; rw [hlo]; exact Nat.zero_lt_one
  · intro l _; rw [hcl]; exact Nat.zero_lt_one
  · intro c hc
    have h1 : c = 0 := Nat.lt_one_iff.1 hc
    exact ⟨0, Nat.zero_lt_one, by rw [hcl, h1]⟩
  · intro l _; rw [hl2n, hcl]; rfl

/-! ### one split preserves the structural invariant -/

omit [RealLike α] in
theorem continues_lt {p : Params} {s : FitState α} (hc : s.continues p = true) : s.nLeaves < p.maxLeaves := by
  simp only [FitState.continues, Bool.and_eq_true, decide_eq_true_eq] at hc
  exact hc.1.2

/-- the hypotheses of the preservation theorems, bundled -/
structure Ctx (X : Nat → Nat → α) (p : Params) (s : FitState α) (b : Split α) : Prop where
  inv : Inv p s
  ok : SplitOK X p s b
  lt : s.nLeaves < p.maxLeaves

namespace Ctx
variable {X : Nat → Nat → α} {p : Params} {s : FitState α} {b : Split α} (c : Ctx X p s b)
include c

theorem leaf_lt : b.leaf.toNat < s.nLeaves := c.inv.explore_lt _ c.ok.leaf_mem

theorem F_lt : father s b < s.tree.nNodes := c.inv.l2n_lt _ c.leaf_lt

theorem N_eq : s.tree.nNodes + 1 = 2 * s.nLeaves := by
  have := c.inv.nNodes_eq; have := c.inv.nLeaves_pos; omega

theorem l2n_get (l : Nat) (hl : l ≤ s.nLeaves) : (applySplit X p s b).leaf2node[l]! =
    if s.nLeaves = l then s.tree.nNodes + 1 else if b.leaf.toNat = l then s.tree.nNodes else s.leaf2node[l]! := by
  have h1 := c.inv.size_l2n; have h2 := c.lt; have h3 := c.N_eq
  rw [applySplit_l2n, get_set _ _ _ _ (by simp; omega), get_set _ _ _ _ (by omega)]
  have e1 : 2 * s.nLeaves = s.tree.nNodes + 1 := by omega
  rw [e1, Nat.add_sub_cancel]

theorem clusterOf_get (l : Nat) (hl : l ≤ s.nLeaves) : (applySplit X p s b).asg.clusterOf[l]! =
    if s.nLeaves = l then b.right.toNat else if b.leaf.toNat = l then b.left.toNat else s.asg.clusterOf[l]! := by
  have h1 := c.inv.size_clusterOf; have h2 := c.lt
  rw [applySplit_clusterOf, get_set _ _ _ _ (by simp; omega), get_set _ _ _ _ (by omega)]

theorem leafOf_get (i : Nat) (hi : i < s.asg.n) : (applySplit X p s b).asg.leafOf[i]! =
    if i ∈ rightIdx X s b then s.nLeaves else s.asg.leafOf[i]! := by
  rw [applySplit_leafOf, get_foldl_set _ _ _ _ (by rw [c.inv.size_leafOf]; exact hi)]

/-- the three kinds of leaf after the split: the new right leaf, the split leaf (now the left child), the others -/
theorem l2n_cases (l : Nat) (hl : l < s.nLeaves + 1) :
    (l = s.nLeaves ∧ (applySplit X p s b).leaf2node[l]! = s.tree.nNodes + 1) ∨
    (l = b.leaf.toNat ∧ (applySplit X p s b).leaf2node[l]! = s.tree.nNodes) ∨
    (l < s.nLeaves ∧ l ≠ b.leaf.toNat ∧ (applySplit X p s b).leaf2node[l]! = s.leaf2node[l]! ∧
      s.leaf2node[l]! < s.tree.nNodes ∧ s.leaf2node[l]! ≠ father s b) := by
  have hg := c.l2n_get l (by omega)
  have hleaf := c.leaf_lt
  by_cases h1 : s.nLeaves = l
  · left; rw [if_pos h1] at hg; exact ⟨h1.symm, hg⟩
  · rw [if_neg h1] at hg
    by_cases h2 : b.leaf.toNat = l
    · right; left; rw [if_pos h2] at hg; exact ⟨h2.symm, hg⟩
    · right; right
      rw [if_neg h2] at hg
      have hl' : l < s.nLeaves := by omega
      refine ⟨hl', fun h => h2 h.symm, hg, c.inv.l2n_lt _ hl', ?_⟩
      intro h
      exact h2 (c.inv.l2n_inj _ _ hl' hleaf h).symm

/-- what the split does to the cluster counter -/
theorem nClusters_summary :
    s.nClusters ≤ newNClusters s.nClusters b ∧ newNClusters s.nClusters b ≤ max p.maxClusters 1 ∧
    b.left.toNat < newNClusters s.nClusters b ∧ b.right.toNat < newNClusters s.nClusters b ∧
    ∀ k, s.nClusters ≤ k → k < newNClusters s.nClusters b → k = b.left.toNat ∨ k = b.right.toNat := by
  have hk := c.inv.clusterOf_lt _ c.leaf_lt
  have hle := c.inv.nClusters_le
  have h0 := c.ok.left_nonneg; have h1 := c.ok.right_nonneg
  unfold newNClusters
  simp only [ge_iff_le, Bool.and_eq_true, Bool.or_eq_true, decide_eq_true_eq]
  rcases c.ok.targets with ⟨hl, hr, hm⟩ | ⟨hl, hr, hm⟩ | ⟨hl, hr, hm⟩ | ⟨hl, hr⟩
  · rw [if_pos (by omega)]
    refine ⟨by omega, by omega, by omega, by omega, ?_⟩
    intro k _ _; omega
  · rw [if_neg (by omega), if_pos (by omega)]
    refine ⟨by omega, by omega, by omega, by omega, ?_⟩
    intro k _ _; omega
  · rw [if_neg (by omega), if_pos (by omega)]
    refine ⟨by omega, by omega, by omega, by omega, ?_⟩
    intro k _ _; omega
  · rw [if_neg (by omega), if_neg (by omega)]
    refine ⟨by omega, by omega, by omega, by omega, ?_⟩
    intro k _ _; omega

end Ctx

namespace Ctx
variable {X : Nat → Nat → α} {p : Params} {s : FitState α} {b : Split α} (c : Ctx X p s b)
include c

theorem depths_cases (k : Nat) (hk : k < s.tree.nNodes + 2) :
    (k < s.tree.nNodes ∧ (applySplit X p s b).tree.depths[k]! = s.tree.depths[k]!) ∨
    (s.tree.nNodes ≤ k ∧ (applySplit X p s b).tree.depths[k]! = s.tree.depths[father s b]! + 1) := by
  rw [applySplit_tree]
  by_cases h : k < s.tree.nNodes
  · left; exact ⟨h, addChild_depths_lt _ _ _ c.inv.size_depths h⟩
  · right
    refine ⟨by omega, ?_⟩
    by_cases h2 : k = s.tree.nNodes
    · subst h2; exact addChild_depths_n _ _ _ c.inv.size_depths
    · have : k = s.tree.nNodes + 1 := by omega
      subst this; exact addChild_depths_n1 _ _ _ c.inv.size_depths

theorem mem_explore (l : Nat) (hl : l ∈ (applySplit X p s b).toExplore) :
    (l ∈ s.toExplore ∧ l ≠ b.leaf.toNat) ∨
    (l = b.leaf.toNat ∧ s.tree.depths[father s b]! + 1 < p.maxDepth ∧
      p.minSplit ≤ (members s b).length - (rightIdx X s b).length) ∨
    (l = s.nLeaves ∧ s.tree.depths[father s b]! + 1 < p.maxDepth ∧ p.minSplit ≤ (rightIdx X s b).length) := by
  rw [applySplit_toExplore, addChild_depths_lt _ _ _ c.inv.size_depths c.F_lt] at hl
  exact mem_newExplore c.inv.explore_nodup hl

theorem preserves_tree_shape :
    (applySplit X p s b).tree.nNodes = 2 * (applySplit X p s b).nLeaves - 1 ∧
    (applySplit X p s b).tree.left.size = (applySplit X p s b).tree.nNodes ∧
    (applySplit X p s b).tree.right.size = (applySplit X p s b).tree.nNodes ∧
    (applySplit X p s b).tree.target.size = (applySplit X p s b).tree.nNodes ∧
    (applySplit X p s b).tree.thr.size = (applySplit X p s b).tree.nNodes ∧
    (applySplit X p s b).tree.feat.size = (applySplit X p s b).tree.nNodes ∧
    (applySplit X p s b).tree.gains.size = (applySplit X p s b).tree.nNodes ∧
    (applySplit X p s b).tree.depths.size = (applySplit X p s b).tree.nNodes := by
  have hI := c.inv
  have hN := c.N_eq
  refine ⟨?_, ?_, ?_, ?_, ?_, ?_, ?_, ?_⟩
  · show s.tree.nNodes + 2 = 2 * (s.nLeaves + 1) - 1; omega
  · rw [applySplit_tree, addChild_size_left, hI.size_left]; rfl
  · rw [applySplit_tree, addChild_size_right, hI.size_right]; rfl
  · rw [applySplit_tree, addChild_size_target, hI.size_target]; rfl
  · rw [applySplit_tree, addChild_size_thr, hI.size_thr]; rfl
  · rw [applySplit_tree, addChild_size_feat, hI.size_feat]; rfl
  · rw [applySplit_tree, addChild_size_gains, hI.size_gains]; rfl
  · rw [applySplit_tree, addChild_size_depths, hI.size_depths]; rfl

theorem preserves_depths :
    (∀ k, k < (applySplit X p s b).tree.nNodes → (applySplit X p s b).tree.depths[k]! ≤ max p.maxDepth 1) ∧
    (∀ k, k < (applySplit X p s b).tree.nNodes →
      (applySplit X p s b).tree.depths[k]! + 1 ≤ (applySplit X p s b).nLeaves) ∧
    (∀ l, l ∈ (applySplit X p s b).toExplore →
      (applySplit X p s b).tree.depths[(applySplit X p s b).leaf2node[l]!]! < max p.maxDepth 1) := by
  have hI := c.inv
  have hF := c.F_lt
  have hleaf := c.leaf_lt
  have hdF : s.tree.depths[father s b]! < max p.maxDepth 1 := hI.explore_depth _ c.ok.leaf_mem
  refine ⟨?_, ?_, ?_⟩
  · intro k hk
    rcases c.depths_cases k hk with ⟨h, e⟩ | ⟨h, e⟩
    · rw [e]; exact hI.depth_le k h
    · rw [e]; omega
  · intro k hk
    show _ ≤ s.nLeaves + 1
    rcases c.depths_cases k hk with ⟨h, e⟩ | ⟨h, e⟩
    · rw [e]; have := hI.depth_lt_leaves k h; omega
    · rw [e]; have := hI.depth_lt_leaves _ hF; omega
  · intro l hl
    rcases c.mem_explore l hl with ⟨h1, h2⟩ | ⟨h1, h2, _⟩ | ⟨h1, h2, _⟩
    · have hl' := hI.explore_lt l h1
      rcases c.l2n_cases l (by omega) with ⟨e, _⟩ | ⟨e, _⟩ | ⟨_, _, e, e', _⟩
      · omega
      · exact absurd e h2
      · rw [e]
        rcases c.depths_cases _ (Nat.lt_add_right 2 e') with ⟨_, e2⟩ | ⟨h, _⟩
        · rw [e2]; exact hI.explore_depth l h1
        · omega
    · rcases c.l2n_cases l (by omega) with ⟨e, _⟩ | ⟨_, e⟩ | ⟨_, e, _⟩
      · omega
      · rw [e]
        rcases c.depths_cases s.tree.nNodes (by omega) with ⟨h, _⟩ | ⟨_, e2⟩
        · omega
        · rw [e2]; omega
      · exact absurd h1 e
    · rcases c.l2n_cases l (by omega) with ⟨_, e⟩ | ⟨e, _⟩ | ⟨e, _⟩
      · rw [e]
        rcases c.depths_cases (s.tree.nNodes + 1) (by omega) with ⟨h, _⟩ | ⟨_, e2⟩
        · omega
        · rw [e2]; omega
      · omega
      · omega

theorem preserves_explore :
    (∀ l, l ∈ (applySplit X p s b).toExplore → l < (applySplit X p s b).nLeaves) ∧
    (applySplit X p s b).toExplore.Nodup := by
  refine ⟨?_, ?_⟩
  · intro l hl
    show l < s.nLeaves + 1
    have hleaf := c.leaf_lt
    rcases c.mem_explore l hl with ⟨h1, _⟩ | ⟨h1, _⟩ | ⟨h1, _⟩
    · have := c.inv.explore_lt l h1; omega
    · omega
    · omega
  · rw [applySplit_toExplore]
    exact nodup_newExplore c.inv.explore_nodup c.inv.explore_lt c.leaf_lt

theorem preserves_l2n :
    (∀ l, l < (applySplit X p s b).nLeaves → (applySplit X p s b).leaf2node[l]! < (applySplit X p s b).tree.nNodes) ∧
    (∀ l, l < (applySplit X p s b).nLeaves →
      (applySplit X p s b).tree.left[(applySplit X p s b).leaf2node[l]!]! = -1) ∧
    (∀ l l', l < (applySplit X p s b).nLeaves → l' < (applySplit X p s b).nLeaves →
      (applySplit X p s b).leaf2node[l]! = (applySplit X p s b).leaf2node[l']! → l = l') ∧
    (∀ k, k < (applySplit X p s b).tree.nNodes → (applySplit X p s b).tree.left[k]! = -1 →
      ∃ l, l < (applySplit X p s b).nLeaves ∧ (applySplit X p s b).leaf2node[l]! = k) := by
  have hI := c.inv
  have hF := c.F_lt
  have hleaf := c.leaf_lt
  refine ⟨?_, ?_, ?_, ?_⟩
  · intro l hl
    show _ < s.tree.nNodes + 2
    rcases c.l2n_cases l hl with ⟨_, e⟩ | ⟨_, e⟩ | ⟨_, _, e, e', _⟩ <;> omega
  · intro l hl
    rw [applySplit_tree]
    rcases c.l2n_cases l hl with ⟨_, e⟩ | ⟨_, e⟩ | ⟨h, _, e, e', e''⟩
    · rw [e]; exact addChild_left_n1 _ _ _ hI.size_left
    · rw [e]; exact addChild_left_n _ _ _ hI.size_left
    · rw [e, addChild_left_lt _ _ _ hI.size_left e', if_neg (fun h => e'' h.symm)]
      exact hI.l2n_leaf l h
  · intro l l' hl hl' h
    rcases c.l2n_cases l hl with ⟨a, e⟩ | ⟨a, e⟩ | ⟨a, a', e, e', _⟩ <;>
      rcases c.l2n_cases l' hl' with ⟨d, f⟩ | ⟨d, f⟩ | ⟨d, d', f, f', _⟩ <;>
      first
        | omega
        | exact hI.l2n_inj l l' a d (by rw [← e, ← f]; exact h)
  · intro k hk hk'
    have hk : k < s.tree.nNodes + 2 := hk
    show ∃ l, l < s.nLeaves + 1 ∧ _
    rw [applySplit_tree] at hk'
    by_cases h1 : k < s.tree.nNodes
    · rw [addChild_left_lt _ _ _ hI.size_left h1] at hk'
      by_cases h2 : father s b = k
      · rw [if_pos h2] at hk'; omega
      · rw [if_neg h2] at hk'
        obtain ⟨l, hl, e⟩ := hI.l2n_surj k h1 hk'
        refine ⟨l, by omega, ?_⟩
        rcases c.l2n_cases l (by omega) with ⟨a, _⟩ | ⟨a, _⟩ | ⟨_, _, f, _⟩
        · omega
        · subst a; exact absurd e h2
        · rw [f, e]
    · by_cases h2 : k = s.tree.nNodes
      · refine ⟨b.leaf.toNat, by omega, ?_⟩
        rcases c.l2n_cases b.leaf.toNat (by omega) with ⟨a, _⟩ | ⟨_, f⟩ | ⟨_, a, _⟩
        · omega
        · rw [f, h2]
        · exact absurd rfl a
      · refine ⟨s.nLeaves, by omega, ?_⟩
        rcases c.l2n_cases s.nLeaves (by omega) with ⟨_, f⟩ | ⟨a, _⟩ | ⟨a, _⟩
        · rw [f]; omega
        · omega
        · omega

end Ctx

namespace Ctx
variable {X : Nat → Nat → α} {p : Params} {s : FitState α} {b : Split α} (c : Ctx X p s b)
include c

theorem preserves_clusters :
    (∀ l, l < (applySplit X p s b).nLeaves →
      (applySplit X p s b).asg.clusterOf[l]! < (applySplit X p s b).nClusters) ∧
    (∀ k, k < (applySplit X p s b).nClusters →
      ∃ l, l < (applySplit X p s b).nLeaves ∧ (applySplit X p s b).asg.clusterOf[l]! = k) ∧
    (∀ l, l < (applySplit X p s b).nLeaves →
      (applySplit X p s b).tree.target[(applySplit X p s b).leaf2node[l]!]! =
        ((applySplit X p s b).asg.clusterOf[l]! : Int)) := by
  have hI := c.inv
  have hleaf := c.leaf_lt
  obtain ⟨hnc1, _, hnc3, hnc4, hnc5⟩ := c.nClusters_summary
  have h0 := c.ok.left_nonneg; have h1 := c.ok.right_nonneg
  have eL : (applySplit X p s b).asg.clusterOf[s.nLeaves]! = b.right.toNat := by
    rw [c.clusterOf_get _ (Nat.le_refl _), if_pos rfl]
  have eleaf : (applySplit X p s b).asg.clusterOf[b.leaf.toNat]! = b.left.toNat := by
    rw [c.clusterOf_get _ (by omega), if_neg (by omega), if_pos rfl]
  have eother : ∀ l, l < s.nLeaves → l ≠ b.leaf.toNat →
      (applySplit X p s b).asg.clusterOf[l]! = s.asg.clusterOf[l]! := by
    intro l hl hne
    rw [c.clusterOf_get _ (by omega), if_neg (by omega), if_neg (fun h => hne h.symm)]
  refine ⟨?_, ?_, ?_⟩
  · intro l hl
    have hl : l < s.nLeaves + 1 := hl
    rw [applySplit_nClusters]
    by_cases a1 : l = s.nLeaves
    · subst a1; rw [eL]; exact hnc4
    · by_cases a2 : l = b.leaf.toNat
      · subst a2; rw [eleaf]; exact hnc3
      · rw [eother l (by omega) a2]
        have := hI.clusterOf_lt l (by omega); omega
  · intro k hk
    rw [applySplit_nClusters] at hk
    show ∃ l, l < s.nLeaves + 1 ∧ _
    by_cases a1 : k < s.nClusters
    · obtain ⟨l, hl, e⟩ := hI.cluster_owns_leaf k a1
      by_cases a2 : l = b.leaf.toNat
      · subst a2
        rcases c.ok.keeps_cluster with h | h | ⟨i, hi, hne, hcl⟩
        · exact ⟨b.leaf.toNat, by omega, by rw [eleaf]; omega⟩
        · exact ⟨s.nLeaves, by omega, by rw [eL]; omega⟩
        · refine ⟨s.asg.leafOf[i]!, by have := hI.leafOf_lt i hi; omega, ?_⟩
          rw [eother _ (hI.leafOf_lt i hi) hne, ← e]
          exact hcl
      · exact ⟨l, by omega, by rw [eother l hl a2]; exact e⟩
    · rcases hnc5 k (by omega) hk with h | h
      · exact ⟨b.leaf.toNat, by omega, by rw [eleaf]; exact h.symm⟩
      · exact ⟨s.nLeaves, by omega, by rw [eL]; exact h.symm⟩
  · intro l hl
    rw [applySplit_tree]
    rcases c.l2n_cases l hl with ⟨a, e⟩ | ⟨a, e⟩ | ⟨a, a', e, e', _⟩
    · subst a; rw [e, eL, addChild_target_n1 _ _ _ hI.size_target]; omega
    · subst a; rw [e, eleaf, addChild_target_n _ _ _ hI.size_target]; omega
    · rw [e, eother l a a', addChild_target_lt _ _ _ hI.size_target e']
      exact hI.target_eq l a

theorem preserves : Inv p (applySplit X p s b) := by
  have hI := c.inv
  have hlt := c.lt
  obtain ⟨t1, t2, t3, t4, t5, t6, t7, t8⟩ := c.preserves_tree_shape
  obtain ⟨d1, d2, d3⟩ := c.preserves_depths
  obtain ⟨e1, e2⟩ := c.preserves_explore
  obtain ⟨l1, l2, l3, l4⟩ := c.preserves_l2n
  obtain ⟨c1, c2, c3⟩ := c.preserves_clusters
  obtain ⟨hnc1, hnc2, _⟩ := c.nClusters_summary
  refine { nLeaves_pos := Nat.le_add_left _ _, nNodes_eq := t1, size_left := t2, size_right := t3, size_target := t4,
           size_thr := t5, size_feat := t6, size_gains := t7, size_depths := t8,
           size_leafOf := ?_, size_clusterOf := ?_, size_l2n := ?_, nLeaves_le := ?_, nClusters_pos := ?_,
           nClusters_le := hnc2, depth_le := d1, depth_lt_leaves := d2, explore_depth := d3,
           explore_lt := e1, explore_nodup := e2, l2n_lt := l1, l2n_leaf := l2, l2n_inj := l3, l2n_surj := l4,
           leafOf_lt := ?_, clusterOf_lt := c1, cluster_owns_leaf := c2, target_eq := c3 }
  · rw [applySplit_leafOf, size_foldl_set]; exact hI.size_leafOf
  · rw [applySplit_clusterOf]; simpa using hI.size_clusterOf
  · rw [applySplit_l2n]; simpa using hI.size_l2n
  · show s.nLeaves + 1 ≤ max p.maxLeaves 1; omega
  · rw [applySplit_nClusters]; have := hI.nClusters_pos; omega
  · intro i hi
    show _ < s.nLeaves + 1
    rw [c.leafOf_get i hi]
    split
    · omega
    · have := hI.leafOf_lt i hi; omega

end Ctx

/-- One split preserves the structural invariant: if the loop guard holds and the split satisfies the
    post-condition of `find_best_split`, the state after `applySplit` satisfies `Inv` again. -/
theorem applySplit_preserves {X : Nat → Nat → α} {p : Params} {s : FitState α} {b : Split α}
    (hI : Inv p s) (hc : s.continues p = true) (hb : SplitOK X p s b) : Inv p (applySplit X p s b) :=
  Ctx.preserves ⟨hI, hb, continues_lt hc⟩

/-! ### sample counts -/

omit [RealLike α] in
theorem mem_samplesOfLeaf (a : Assign) (l i : Nat) : i ∈ a.samplesOfLeaf l ↔ i < a.n ∧ a.leafOf[i]! = l := by
  simp [Assign.samplesOfLeaf]

theorem length_filter_add_not {β : Type} (q : β → Bool) (l : List β) :
    (l.filter q).length + (l.filter fun x => !(q x)).length = l.length := by
  induction l with
  | nil => rfl
  | cons x xs ih =>
    by_cases h : q x = true
    · simp [h]; omega
    · simp [h]; omega

theorem leftCount_eq (X : Nat → Nat → α) (s : FitState α) (b : Split α) :
    (members s b).length - (rightIdx X s b).length = (leftIdx X s b).length := by
  have := length_filter_add_not (fun i => goesLeft X b i) (members s b)
  unfold rightIdx leftIdx
  omega

theorem mem_rightIdx (X : Nat → Nat → α) (s : FitState α) (b : Split α) (i : Nat) :
    i ∈ rightIdx X s b ↔ i < s.asg.n ∧ s.asg.leafOf[i]! = b.leaf.toNat ∧ goesLeft X b i = false := by
  simp [rightIdx, members, Assign.samplesOfLeaf]
  intro _; exact And.comm

theorem mem_leftIdx (X : Nat → Nat → α) (s : FitState α) (b : Split α) (i : Nat) :
    i ∈ leftIdx X s b ↔ i < s.asg.n ∧ s.asg.leafOf[i]! = b.leaf.toNat ∧ goesLeft X b i = true := by
  simp [leftIdx, members, Assign.samplesOfLeaf]
  intro _; exact And.comm

namespace Ctx
variable {X : Nat → Nat → α} {p : Params} {s : FitState α} {b : Split α} (c : Ctx X p s b)
include c

/-- the new leaf holds exactly `right_indices` -/
theorem samples_new : (applySplit X p s b).asg.samplesOfLeaf s.nLeaves = rightIdx X s b := by
  unfold rightIdx members Assign.samplesOfLeaf
  rw [List.filter_filter]
  apply List.filter_congr
  intro i hi
  have hi' : i < s.asg.n := List.mem_range.1 hi
  show ((applySplit X p s b).asg.leafOf[i]! == s.nLeaves) = _
  rw [c.leafOf_get i hi']
  have hlt := c.inv.leafOf_lt i hi'
  have hmem := mem_rightIdx X s b i
  by_cases h : i ∈ rightIdx X s b
  · rw [if_pos h]; obtain ⟨_, h1, h2⟩ := hmem.1 h; simp [h1, h2]
  · rw [if_neg h]
    have h3 : (s.asg.leafOf[i]! == s.nLeaves) = false := by simp; omega
    rw [h3]
    by_cases h4 : s.asg.leafOf[i]! = b.leaf.toNat
    · have : goesLeft X b i = true := by
        cases h5 : goesLeft X b i
        · exact absurd (hmem.2 ⟨hi', h4, h5⟩) h
        · rfl
      simp [this]
    · simp [h4]

/-- the split leaf keeps exactly `left_indices` -/
theorem samples_leaf : (applySplit X p s b).asg.samplesOfLeaf b.leaf.toNat = leftIdx X s b := by
  unfold leftIdx members Assign.samplesOfLeaf
  rw [List.filter_filter]
  apply List.filter_congr
  intro i hi
  have hi' : i < s.asg.n := List.mem_range.1 hi
  show ((applySplit X p s b).asg.leafOf[i]! == b.leaf.toNat) = _
  rw [c.leafOf_get i hi']
  have hleaf := c.leaf_lt
  have hmem := mem_rightIdx X s b i
  by_cases h : i ∈ rightIdx X s b
  · rw [if_pos h]; obtain ⟨_, h1, h2⟩ := hmem.1 h
    have h3 : (s.nLeaves == b.leaf.toNat) = false := by simp; omega
    simp [h3, h2]
  · rw [if_neg h]
    by_cases h4 : s.asg.leafOf[i]! = b.leaf.toNat
    · have : goesLeft X b i = true := by
        cases h5 : goesLeft X b i
        · exact absurd (hmem.2 ⟨hi', h4, h5⟩) h
        · rfl
      simp [this, h4]
    · simp [h4]

/-- the other leaves keep their samples -/
theorem samples_other (l : Nat) (hne : l ≠ b.leaf.toNat) (hl : l < s.nLeaves) :
    (applySplit X p s b).asg.samplesOfLeaf l = s.asg.samplesOfLeaf l := by
  unfold Assign.samplesOfLeaf
  apply List.filter_congr
  intro i hi
  have hi' : i < s.asg.n := List.mem_range.1 hi
  show ((applySplit X p s b).asg.leafOf[i]! == l) = _
  rw [c.leafOf_get i hi']
  have hmem := mem_rightIdx X s b i
  by_cases h : i ∈ rightIdx X s b
  · rw [if_pos h]; obtain ⟨_, h1, h2⟩ := hmem.1 h
    have h3 : (s.nLeaves == l) = false := by simp; omega
    have h4 : (s.asg.leafOf[i]! == l) = false := by simp; omega
    rw [h3, h4]
  · rw [if_neg h]

end Ctx

/-- Invariant about the sample counts of the leaves. -/
structure InvSamples (p : Params) (s : FitState α) : Prop where
  /-- every leaf holds at least `min_samples_leaf` samples -/
  leaf_size : ∀ l, l < s.nLeaves → p.minLeaf ≤ (s.asg.samplesOfLeaf l).length
  /-- no leaf is empty -/
  leaf_nonempty : ∀ l, l < s.nLeaves → s.asg.samplesOfLeaf l ≠ []
  /-- a leaf that may still be split holds at least `min_samples_split` samples -/
  explore_size : ∀ l, l ∈ s.toExplore → p.minSplit ≤ (s.asg.samplesOfLeaf l).length

theorem samplesOfLeaf_init (n : Nat) (p : Params) :
    (FitState.init n p : FitState α).asg.samplesOfLeaf 0 = List.range n := by
  show List.filter _ (List.range n) = List.range n
  rw [List.filter_eq_self]
  intro i _
  show ((Array.replicate n 0)[i]! == 0) = true
  rw [get_replicate_zero]; rfl

/-- `validate_data(ensure_min_samples=min_samples_leaf)` with `min_samples_leaf ≥ 1` gives both hypotheses -/
theorem invSamples_init (n : Nat) (p : Params) (hn : 1 ≤ n) (hmin : p.minLeaf ≤ n) :
    InvSamples p (FitState.init n p : FitState α) := by
  refine ⟨?_, ?_, ?_⟩
  · intro l hl
    have : l = 0 := Nat.lt_one_iff.1 hl
    subst this; rw [samplesOfLeaf_init, List.length_range]; exact hmin
  · intro l hl
    have : l = 0 := Nat.lt_one_iff.1 hl
    subst this; rw [samplesOfLeaf_init]
    intro h
    have := congrArg List.length h
    simp at this; omega
  · intro l hl
    simp only [FitState.init] at hl
    split at hl
    · rename_i h
      have : l = 0 := by simpa using hl
      subst this; rw [samplesOfLeaf_init, List.length_range]; exact h
    · simp at hl

theorem applySplit_preserves_samples {X : Nat → Nat → α} {p : Params} {s : FitState α} {b : Split α}
    (hI : Inv p s) (hS : InvSamples p s) (hc : s.continues p = true) (hb : SplitOK X p s b) :
    InvSamples p (applySplit X p s b) := by
  have c : Ctx X p s b := ⟨hI, hb, continues_lt hc⟩
  have hleaf := c.leaf_lt
  refine ⟨?_, ?_, ?_⟩
  · intro l hl
    have hl : l < s.nLeaves + 1 := hl
    by_cases a1 : l = s.nLeaves
    · subst a1; rw [c.samples_new]; exact hb.right_size
    · by_cases a2 : l = b.leaf.toNat
      · subst a2; rw [c.samples_leaf]; exact hb.left_size
      · rw [c.samples_other l a2 (by omega)]; exact hS.leaf_size l (by omega)
  · intro l hl
    have hl : l < s.nLeaves + 1 := hl
    by_cases a1 : l = s.nLeaves
    · subst a1; rw [c.samples_new]; exact hb.right_nonempty
    · by_cases a2 : l = b.leaf.toNat
      · subst a2; rw [c.samples_leaf]; exact hb.left_nonempty
      · rw [c.samples_other l a2 (by omega)]; exact hS.leaf_nonempty l (by omega)
  · intro l hl
    rcases c.mem_explore l hl with ⟨h1, h2⟩ | ⟨h1, _, h3⟩ | ⟨h1, _, h3⟩
    · rw [c.samples_other l h2 (hI.explore_lt l h1)]; exact hS.explore_size l h1
    · subst h1; rw [c.samples_leaf, ← leftCount_eq]; exact h3
    · subst h1; rw [c.samples_new]; exact h3

/-! ### routing -/

/-- `Reaches t x k d`: `Tree.predict` on the row `x`, started at the root, arrives at node `k` after `d` tests.  The row
    satisfies `x[feature] <= threshold` exactly on the left branches of its path. -/
inductive Reaches (t : Tree α) (x : Nat → α) : Nat → Nat → Prop
  | root : Reaches t x 0 0
  | left {k d : Nat} {th : α} : Reaches t x k d → k < t.nNodes → t.left[k]! ≠ -1 → t.thr[k]! = some th →
      le (x ((t.feat[k]!).getD 0).toNat) th = true → Reaches t x (t.left[k]!).toNat (d + 1)
  | right {k d : Nat} {th : α} : Reaches t x k d → k < t.nNodes → t.left[k]! ≠ -1 → t.thr[k]! = some th →
      le (x ((t.feat[k]!).getD 0).toNat) th = false → Reaches t x (t.right[k]!).toNat (d + 1)

theorem route_leaf (t : Tree α) (x : Nat → α) (fuel k : Nat) (h : t.left[k]! = -1) :
    t.route x fuel k = t.target[k]! := by
  cases fuel <;> simp [Tree.route, h]

theorem Reaches.route_eq {t : Tree α} {x : Nat → α} {k d : Nat} (h : Reaches t x k d) :
    ∀ fuel, t.route x (d + fuel) 0 = t.route x fuel k := by
  induction h with
  | root => intro fuel; rw [Nat.zero_add]
  | left _ _ h1 h2 h3 ih =>
    intro fuel
    rw [Nat.add_assoc, Nat.add_comm 1 fuel, ih (fuel + 1)]
    simp [Tree.route, h1, h2, h3]
  | right _ _ h1 h2 h3 ih =>
    intro fuel
    rw [Nat.add_assoc, Nat.add_comm 1 fuel, ih (fuel + 1)]
    simp [Tree.route, h1, h2, h3]

/-- paths of the old tree are paths of the new tree: the split node was a leaf, so no old path tests it -/
theorem Reaches.addChild {t : Tree α} {x : Nat → α} {k d : Nat} (F : Nat) (b : Split α) (h : Reaches t x k d)
    (hl : t.left.size = t.nNodes) (hr : t.right.size = t.nNodes) (ht : t.thr.size = t.nNodes)
    (hf : t.feat.size = t.nNodes) (hF : t.left[F]! = -1) : Reaches (t.addChild F b) x k d := by
  induction h with
  | root => exact Reaches.root
  | @left k d th _ hk h1 h2 h3 ih =>
    have hne : ¬ F = k := fun e => h1 (e ▸ hF)
    have e1 : (t.addChild F b).left[k]! = t.left[k]! := by rw [addChild_left_lt _ _ _ hl hk, if_neg hne]
    have e2 : (t.addChild F b).thr[k]! = t.thr[k]! := by rw [addChild_thr_lt _ _ _ ht hk, if_neg hne]
    have e3 : (t.addChild F b).feat[k]! = t.feat[k]! := by rw [addChild_feat_lt _ _ _ hf hk, if_neg hne]
    have := Reaches.left (th := th) ih (Nat.lt_add_right 2 hk) (by rw [e1]; exact h1) (by rw [e2]; exact h2)
      (by rw [e3]; exact h3)
    rw [e1] at this; exact this
  | @right k d th _ hk h1 h2 h3 ih =>
    have hne : ¬ F = k := fun e => h1 (e ▸ hF)
    have e1 : (t.addChild F b).left[k]! = t.left[k]! := by rw [addChild_left_lt _ _ _ hl hk, if_neg hne]
    have e1' : (t.addChild F b).right[k]! = t.right[k]! := by rw [addChild_right_lt _ _ _ hr hk, if_neg hne]
    have e2 : (t.addChild F b).thr[k]! = t.thr[k]! := by rw [addChild_thr_lt _ _ _ ht hk, if_neg hne]
    have e3 : (t.addChild F b).feat[k]! = t.feat[k]! := by rw [addChild_feat_lt _ _ _ hf hk, if_neg hne]
    have := Reaches.right (th := th) ih (Nat.lt_add_right 2 hk) (by rw [e1]; exact h1) (by rw [e2]; exact h2)
      (by rw [e3]; exact h3)
    rw [e1'] at this; exact this

/-- Invariant that ties the tree to the data `X`. -/
structure InvRoute (X : Nat → Nat → α) (s : FitState α) : Prop where
  /-- `predict` sends every training sample to the tree node of its leaf, in `depth` tests -/
  reach : ∀ i, i < s.asg.n →
    Reaches s.tree (X i) (s.leaf2node[s.asg.leafOf[i]!]!) (s.tree.depths[s.leaf2node[s.asg.leafOf[i]!]!]!)
  /-- every internal node tests a feature index against the feature value of a training sample -/
  thr_obs : ∀ k, k < s.tree.nNodes → s.tree.left[k]! ≠ -1 →
    ∃ f : Int, 0 ≤ f ∧ s.tree.feat[k]! = some f ∧ ∃ i, i < s.asg.n ∧ s.tree.thr[k]! = some (X i f.toNat)

theorem invRoute_init (X : Nat → Nat → α) (n : Nat) (p : Params) : InvRoute X (FitState.init n p : FitState α) := by
  refine ⟨?_, ?_⟩
  · intro i _
    have h1 : (FitState.init n p : FitState α).leaf2node[(FitState.init n p : FitState α).asg.leafOf[i]!]! = 0 :=
      get_replicate_zero _ _
    rw [h1]
    exact Reaches.root
  · intro k hk h
    have : k = 0 := by simpa [FitState.init, Tree.init] using hk
    subst this
    exact absurd rfl h

theorem applySplit_preserves_route {X : Nat → Nat → α} {p : Params} {s : FitState α} {b : Split α}
    (hI : Inv p s) (hR : InvRoute X s) (hc : s.continues p = true) (hb : SplitOK X p s b) :
    InvRoute X (applySplit X p s b) := by
  have c : Ctx X p s b := ⟨hI, hb, continues_lt hc⟩
  have hleaf := c.leaf_lt
  have hF := c.F_lt
  have hFleaf : s.tree.left[father s b]! = -1 := hI.l2n_leaf _ hleaf
  have lift : ∀ {x k d}, Reaches s.tree x k d → Reaches (applySplit X p s b).tree x k d := fun h =>
    h.addChild _ b hI.size_left hI.size_right hI.size_thr hI.size_feat hFleaf
  -- the node of the split leaf in the new tree
  have fl : (applySplit X p s b).tree.left[father s b]! = (s.tree.nNodes : Int) := by
    rw [applySplit_tree, addChild_left_lt _ _ _ hI.size_left hF, if_pos rfl]
  have fr : (applySplit X p s b).tree.right[father s b]! = ((s.tree.nNodes + 1 : Nat) : Int) := by
    rw [applySplit_tree, addChild_right_lt _ _ _ hI.size_right hF, if_pos rfl]
  have ft : (applySplit X p s b).tree.thr[father s b]! = some b.threshold := by
    rw [applySplit_tree, addChild_thr_lt _ _ _ hI.size_thr hF, if_pos rfl]
  have ff : (applySplit X p s b).tree.feat[father s b]! = some b.feature := by
    rw [applySplit_tree, addChild_feat_lt _ _ _ hI.size_feat hF, if_pos rfl]
  have hFlt : father s b < (applySplit X p s b).tree.nNodes := Nat.lt_add_right 2 hF
  have hne : (applySplit X p s b).tree.left[father s b]! ≠ -1 := by rw [fl]; omega
  refine ⟨?_, ?_⟩
  · intro i hi
    have hi : i < s.asg.n := hi
    have hold := lift (hR.reach i hi)
    have hmem := mem_rightIdx X s b i
    rw [c.leafOf_get i hi]
    by_cases h : i ∈ rightIdx X s b
    · rw [if_pos h]
      obtain ⟨_, h1, h2⟩ := hmem.1 h
      rw [h1] at hold
      have step := Reaches.right hold hFlt hne ft (by rw [ff]; exact h2)
      rw [fr, Int.toNat_natCast] at step
      rcases c.l2n_cases s.nLeaves (by omega) with ⟨_, e⟩ | ⟨e, _⟩ | ⟨e, _⟩
      · rw [e]
        rcases c.depths_cases (s.tree.nNodes + 1) (by omega) with ⟨a, _⟩ | ⟨_, e2⟩
        · omega
        · rw [e2]; exact step
      · omega
      · omega
    · rw [if_neg h]
      by_cases h4 : s.asg.leafOf[i]! = b.leaf.toNat
      · have h2 : goesLeft X b i = true := by
          cases h5 : goesLeft X b i
          · exact absurd (hmem.2 ⟨hi, h4, h5⟩) h
          · rfl
        rw [h4] at hold ⊢
        have step := Reaches.left hold hFlt hne ft (by rw [ff]; exact h2)
        rw [fl, Int.toNat_natCast] at step
        rcases c.l2n_cases b.leaf.toNat (by omega) with ⟨e, _⟩ | ⟨_, e⟩ | ⟨_, e, _⟩
        · omega
        · rw [e]
          rcases c.depths_cases s.tree.nNodes (by omega) with ⟨a, _⟩ | ⟨_, e2⟩
          · omega
          · rw [e2]; exact step
        · exact absurd rfl e
      · have hl := hI.leafOf_lt i hi
        rcases c.l2n_cases s.asg.leafOf[i]! (by omega) with ⟨e, _⟩ | ⟨e, _⟩ | ⟨_, _, e, e', _⟩
        · omega
        · exact absurd e h4
        · rw [e]
          rcases c.depths_cases _ (Nat.lt_add_right 2 e') with ⟨_, e2⟩ | ⟨a, _⟩
          · rw [e2]; exact hold
          · omega
  · intro k hk h
    have hk : k < s.tree.nNodes + 2 := hk
    show ∃ f : Int, 0 ≤ f ∧ _ ∧ ∃ i, i < s.asg.n ∧ _
    by_cases h1 : k < s.tree.nNodes
    · by_cases h2 : father s b = k
      · subst h2
        obtain ⟨i, hi, e⟩ := hb.threshold_obs
        exact ⟨b.feature, hb.feature_nonneg, ff, i, ((mem_samplesOfLeaf _ _ _).1 hi).1, by rw [ft, e]⟩
      · rw [applySplit_tree, addChild_left_lt _ _ _ hI.size_left h1, if_neg h2] at h
        obtain ⟨f, hf0, hf, i, hi, e⟩ := hR.thr_obs k h1 h
        refine ⟨f, hf0, ?_, i, hi, ?_⟩
        · rw [applySplit_tree, addChild_feat_lt _ _ _ hI.size_feat h1, if_neg h2]; exact hf
        · rw [applySplit_tree, addChild_thr_lt _ _ _ hI.size_thr h1, if_neg h2]; exact e
    · exfalso
      apply h
      rw [applySplit_tree]
      by_cases h2 : k = s.tree.nNodes
      · subst h2; exact addChild_left_n _ _ _ hI.size_left
      · have : k = s.tree.nNodes + 1 := by omega
        subst this; exact addChild_left_n1 _ _ _ hI.size_left

/-- Routing a training sample through the tree gives the cluster of its leaf, for every `fuel` (recursion budget of
    the model's `Tree.route`) at least the depth of that leaf. -/
theorem route_train {X : Nat → Nat → α} {p : Params} {s : FitState α} (hI : Inv p s) (hR : InvRoute X s)
    (i : Nat) (hi : i < s.asg.n) (fuel : Nat) (hfuel : s.tree.depths[s.leaf2node[s.asg.leafOf[i]!]!]! ≤ fuel) :
    s.tree.route (X i) fuel 0 = (s.asg.clusterOfSample i : Int) := by
  have hl := hI.leafOf_lt i hi
  have h := (hR.reach i hi).route_eq (fuel - s.tree.depths[s.leaf2node[s.asg.leafOf[i]!]!]!)
  rw [Nat.add_sub_cancel' hfuel] at h
  rw [h, route_leaf _ _ _ _ (hI.l2n_leaf _ hl), hI.target_eq _ hl]
  rfl

/-! ### the tree as a data structure -/

/-- the leaf nodes of the tree (`children_left == -1`) -/
def leafNodes (t : Tree α) : List Nat := (List.range t.nNodes).filter fun k => t.left[k]! == -1

/-- Well-formedness of the array-encoded binary tree. -/
structure TreeWF (t : Tree α) : Prop where
  size_left : t.left.size = t.nNodes
  size_right : t.right.size = t.nNodes
  size_target : t.target.size = t.nNodes
  size_thr : t.thr.size = t.nNodes
  size_feat : t.feat.size = t.nNodes
  size_gains : t.gains.size = t.nNodes
  size_depths : t.depths.size = t.nNodes
  root_depth : t.depths[0]! = 0
  /-- a leaf has no right child, no threshold, no feature -/
  leaf : ∀ k, k < t.nNodes → t.left[k]! = -1 → t.right[k]! = -1 ∧ t.thr[k]! = none ∧ t.feat[k]! = none
  /-- an internal node has two consecutive children further down the arrays, one level deeper, a threshold and a
      feature -/
  internal : ∀ k, k < t.nNodes → t.left[k]! ≠ -1 →
    ∃ c : Nat, k < c ∧ c + 1 < t.nNodes ∧ t.left[k]! = (c : Int) ∧ t.right[k]! = ((c + 1 : Nat) : Int) ∧
      t.depths[c]! = t.depths[k]! + 1 ∧ t.depths[c + 1]! = t.depths[k]! + 1 ∧
      (t.thr[k]!).isSome = true ∧ (t.feat[k]!).isSome = true
  /-- `n_nodes = 2 · (number of leaf nodes) − 1` -/
  count : t.nNodes + 1 = 2 * (leafNodes t).length

omit [RealLike α] in
theorem count_flip (q q' : Nat → Bool) (N F : Nat) (hF : F < N) (hq : q F = true) (hq' : q' F = false)
    (h : ∀ k, k < N → k ≠ F → q' k = q k) :
    ((List.range N).filter q').length + 1 = ((List.range N).filter q).length := by
  induction N with
  | zero => omega
  | succ N ih =>
    rw [List.range_succ, List.filter_append, List.filter_append, List.length_append, List.length_append]
    by_cases hFN : F = N
    · subst hFN
      have : (List.range F).filter q' = (List.range F).filter q :=
        List.filter_congr fun k hk => h k (Nat.lt_succ_of_lt (List.mem_range.1 hk)) (Nat.ne_of_lt (List.mem_range.1 hk))
      rw [this]
      simp [hq, hq']
    · have := ih (by omega) (fun k hk hne => h k (Nat.lt_succ_of_lt hk) hne)
      have e : q' N = q N := h N (Nat.lt_succ_self N) (fun e => hFN e.symm)
      simp only [List.filter_cons, List.filter_nil, e]
      omega

theorem treeWF_init : TreeWF (Tree.init : Tree α) := by
  refine ⟨rfl, rfl, rfl, rfl, rfl, rfl, rfl, rfl, ?_, ?_, rfl⟩
  · intro k hk _
    have : k = 0 := Nat.lt_one_iff.1 hk
    subst this; exact ⟨rfl, rfl, rfl⟩
  · intro k hk h
    have : k = 0 := Nat.lt_one_iff.1 hk
    subst this; exact absurd rfl h

/-- `_add_child` on a leaf of a well-formed tree gives a well-formed tree -/
theorem TreeWF.addChild {t : Tree α} (h : TreeWF t) (F : Nat) (b : Split α) (hF : F < t.nNodes)
    (hleaf : t.left[F]! = -1) : TreeWF (t.addChild F b) := by
  have fl : (t.addChild F b).left[F]! = (t.nNodes : Int) := by rw [addChild_left_lt _ _ _ h.size_left hF, if_pos rfl]
  have big : ∀ k, k < t.nNodes + 2 → ¬ k < t.nNodes → (t.addChild F b).left[k]! = -1 ∧
      (t.addChild F b).right[k]! = -1 ∧ (t.addChild F b).thr[k]! = none ∧ (t.addChild F b).feat[k]! = none := by
    intro k hk hk'
    by_cases h2 : k = t.nNodes
    · subst h2
      exact ⟨addChild_left_n _ _ _ h.size_left, addChild_right_n _ _ _ h.size_right, addChild_thr_n _ _ _ h.size_thr,
        addChild_feat_n _ _ _ h.size_feat⟩
    · have : k = t.nNodes + 1 := by omega
      subst this
      exact ⟨addChild_left_n1 _ _ _ h.size_left, addChild_right_n1 _ _ _ h.size_right,
        addChild_thr_n1 _ _ _ h.size_thr, addChild_feat_n1 _ _ _ h.size_feat⟩
  refine ⟨?_, ?_, ?_, ?_, ?_, ?_, ?_, ?_, ?_, ?_, ?_⟩
  · rw [addChild_size_left, h.size_left]; rfl
  · rw [addChild_size_right, h.size_right]; rfl
  · rw [addChild_size_target, h.size_target]; rfl
  · rw [addChild_size_thr, h.size_thr]; rfl
  · rw [addChild_size_feat, h.size_feat]; rfl
  · rw [addChild_size_gains, h.size_gains]; rfl
  · rw [addChild_size_depths, h.size_depths]; rfl
  · rw [addChild_depths_lt _ _ _ h.size_depths (by omega)]; exact h.root_depth
  · intro k hk hk'
    have hk : k < t.nNodes + 2 := hk
    by_cases h1 : k < t.nNodes
    · have hne : ¬ F = k := by
        intro e; subst e; rw [fl] at hk'; omega
      rw [addChild_left_lt _ _ _ h.size_left h1, if_neg hne] at hk'
      rw [addChild_right_lt _ _ _ h.size_right h1, if_neg hne, addChild_thr_lt _ _ _ h.size_thr h1, if_neg hne,
        addChild_feat_lt _ _ _ h.size_feat h1, if_neg hne]
      exact h.leaf k h1 hk'
    · exact (big k hk h1).2
  · intro k hk hk'
    have hk : k < t.nNodes + 2 := hk
    show ∃ c : Nat, k < c ∧ c + 1 < t.nNodes + 2 ∧ _
    by_cases h1 : k < t.nNodes
    · by_cases hFk : F = k
      · subst hFk
        refine ⟨t.nNodes, hF, by omega, fl, ?_, ?_, ?_, ?_, ?_⟩
        · rw [addChild_right_lt _ _ _ h.size_right hF, if_pos rfl]
        · rw [addChild_depths_n _ _ _ h.size_depths, addChild_depths_lt _ _ _ h.size_depths hF]
        · rw [addChild_depths_n1 _ _ _ h.size_depths, addChild_depths_lt _ _ _ h.size_depths hF]
        · rw [addChild_thr_lt _ _ _ h.size_thr hF, if_pos rfl]; rfl
        · rw [addChild_feat_lt _ _ _ h.size_feat hF, if_pos rfl]; rfl
      · rw [addChild_left_lt _ _ _ h.size_left h1, if_neg hFk] at hk'
        obtain ⟨c, c1, c2, c3, c4, c5, c6, c7, c8⟩ := h.internal k h1 hk'
        refine ⟨c, c1, by omega, ?_, ?_, ?_, ?_, ?_, ?_⟩
        · rw [addChild_left_lt _ _ _ h.size_left h1, if_neg hFk]; exact c3
        · rw [addChild_right_lt _ _ _ h.size_right h1, if_neg hFk]; exact c4
        · rw [addChild_depths_lt _ _ _ h.size_depths (by omega), addChild_depths_lt _ _ _ h.size_depths h1]; exact c5
        · rw [addChild_depths_lt _ _ _ h.size_depths (by omega), addChild_depths_lt _ _ _ h.size_depths h1]; exact c6
        · rw [addChild_thr_lt _ _ _ h.size_thr h1, if_neg hFk]; exact c7
        · rw [addChild_feat_lt _ _ _ h.size_feat h1, if_neg hFk]; exact c8
    · exact absurd (big k hk h1).1 hk'
  · have hc := h.count
    unfold leafNodes at hc ⊢
    show t.nNodes + 2 + 1 = 2 * ((List.range (t.nNodes + 2)).filter _).length
    rw [List.range_succ, List.range_succ, List.filter_append, List.filter_append, List.length_append,
      List.length_append]
    have e1 := (big t.nNodes (by omega) (by omega)).1
    have e2 := (big (t.nNodes + 1) (by omega) (by omega)).1
    have hflip := count_flip (fun k => t.left[k]! == -1) (fun k => (t.addChild F b).left[k]! == -1) t.nNodes F hF
      (by simp [hleaf]) (by simp only [fl]; simp)
      (by
        intro k hk hne
        rw [addChild_left_lt _ _ _ h.size_left hk, if_neg (fun e => hne e.symm)])
    simp only [List.filter_cons, List.filter_nil, e1, e2, beq_self_eq_true, if_true, List.length_cons, List.length_nil]
    omega

theorem applySplit_preserves_tree {X : Nat → Nat → α} {p : Params} {s : FitState α} {b : Split α}
    (hI : Inv p s) (hT : TreeWF s.tree) (hb : SplitOK X p s b) : TreeWF (applySplit X p s b).tree := by
  have hleaf : b.leaf.toNat < s.nLeaves := hI.explore_lt _ hb.leaf_mem
  rw [applySplit_tree]
  exact hT.addChild _ b (hI.l2n_lt _ hleaf) (hI.l2n_leaf _ hleaf)

omit [RealLike α] in
/-- the number of leaf nodes of the tree is the loop's `n_leaves` -/
theorem leafNodes_length {p : Params} {s : FitState α} (hI : Inv p s) (hT : TreeWF s.tree) :
    (leafNodes s.tree).length = s.nLeaves := by
  have := hT.count; have := hI.nNodes_eq; have := hI.nLeaves_pos; omega

/-! ### the loop: `fitStep` with the split given -/

/-- the three invariants together -/
structure FullInv (X : Nat → Nat → α) (p : Params) (s : FitState α) : Prop where
  inv : Inv p s
  samples : InvSamples p s
  route : InvRoute X s
  tree : TreeWF s.tree

omit [RealLike α] in
theorem Inv.bookkeeping {p : Params} {s : FitState α} (h : Inv p s) (g : Bool) (k : Nat) :
    Inv p { s with lastGainPos := g, steps := k } := by
  cases h; constructor <;> assumption

omit [RealLike α] in
theorem InvSamples.bookkeeping {p : Params} {s : FitState α} (h : InvSamples p s) (g : Bool) (k : Nat) :
    InvSamples p { s with lastGainPos := g, steps := k } := by
  cases h; constructor <;> assumption

theorem InvRoute.bookkeeping {X : Nat → Nat → α} {s : FitState α} (h : InvRoute X s) (g : Bool) (k : Nat) :
    InvRoute X { s with lastGainPos := g, steps := k } := by
  cases h; constructor <;> assumption

theorem SplitOK.bookkeeping {X : Nat → Nat → α} {p : Params} {s : FitState α} {b : Split α} (h : SplitOK X p s b)
    (g : Bool) (k : Nat) : SplitOK X p { s with lastGainPos := g, steps := k } b := by
  cases h; constructor <;> assumption

theorem FullInv.bookkeeping {X : Nat → Nat → α} {p : Params} {s : FitState α} (h : FullInv X p s) (g : Bool) (k : Nat) :
    FullInv X p { s with lastGainPos := g, steps := k } :=
  ⟨h.inv.bookkeeping g k, h.samples.bookkeeping g k, h.route.bookkeeping g k, h.tree⟩

/-- `fitStep` with the answer of `find_best_split` passed in -/
def stepWith (X : Nat → Nat → α) (p : Params) (s : FitState α) (b : Split α) : FitState α :=
  if !s.continues p then s else
  let s := { s with steps := s.steps + 1 }
  if lt 0 b.gain then { applySplit X p s b with lastGainPos := true }
  else { s with lastGainPos := false }

theorem fitStep_eq_stepWith (κ : Nat → Nat → α) (X : Nat → Nat → α) (p : Params) (s : FitState α) (features : List Nat) :
    fitStep κ X p s features =
      stepWith X p s (findBestSplit κ X s.toExplore s.asg s.nClusters p.maxClusters s.nLeaves p.minLeaf features) := rfl

/-- the loop run on a given list of answers of `find_best_split` -/
def fitWith (X : Nat → Nat → α) (n : Nat) (p : Params) (bs : List (Split α)) : FitState α :=
  bs.foldl (stepWith X p) (FitState.init n p)

/-- every answer in the list meets the post-condition in the state in which it is used (only asked when the loop
    guard holds and the gain is positive: otherwise the answer is not applied) -/
def SplitsOK (X : Nat → Nat → α) (p : Params) : FitState α → List (Split α) → Prop
  | _, [] => True
  | s, b :: bs => (s.continues p = true → lt 0 b.gain = true → SplitOK X p s b) ∧ SplitsOK X p (stepWith X p s b) bs

theorem stepWith_preserves {X : Nat → Nat → α} {p : Params} {s : FitState α} {b : Split α} (h : FullInv X p s)
    (hb : s.continues p = true → lt 0 b.gain = true → SplitOK X p s b) : FullInv X p (stepWith X p s b) := by
  unfold stepWith
  by_cases hc : s.continues p = true
  · simp only [hc, Bool.not_true, Bool.false_eq_true, if_false]
    by_cases hg : lt 0 b.gain = true
    · simp only [hg, if_true]
      have h' := h.bookkeeping s.lastGainPos (s.steps + 1)
      have hb' := (hb hc hg).bookkeeping s.lastGainPos (s.steps + 1)
      have hc' : ({ s with lastGainPos := s.lastGainPos, steps := s.steps + 1 } : FitState α).continues p = true := hc
      exact FullInv.bookkeeping ⟨applySplit_preserves h'.inv hc' hb',
        applySplit_preserves_samples h'.inv h'.samples hc' hb',
        applySplit_preserves_route h'.inv h'.route hc' hb', applySplit_preserves_tree h'.inv h'.tree hb'⟩ true _
    · simp only [hg]
      exact h.bookkeeping false (s.steps + 1)
  · simp only [hc, Bool.not_false, if_true]
    exact h

theorem foldl_stepWith_inv {X : Nat → Nat → α} {p : Params} (bs : List (Split α)) :
    ∀ s : FitState α, FullInv X p s → SplitsOK X p s bs → FullInv X p (bs.foldl (stepWith X p) s) := by
  induction bs with
  | nil => intro s h _; exact h
  | cons b bs ih =>
    intro s h hok
    rw [List.foldl_cons]
    exact ih _ (stepWith_preserves h hok.1) hok.2

theorem fullInv_init (X : Nat → Nat → α) (n : Nat) (p : Params) (hn : 1 ≤ n) (hmin : p.minLeaf ≤ n) :
    FullInv X p (FitState.init n p : FitState α) :=
  ⟨inv_init n p, invSamples_init n p hn hmin, invRoute_init X n p, treeWF_init⟩

/-- Every state reachable by the loop satisfies the invariants, provided each applied split meets `SplitOK`. -/
theorem fitWith_inv {X : Nat → Nat → α} {n : Nat} {p : Params} (hn : 1 ≤ n) (hmin : p.minLeaf ≤ n)
    (bs : List (Split α)) (hok : SplitsOK X p (FitState.init n p) bs) : FullInv X p (fitWith X n p bs) :=
  foldl_stepWith_inv bs _ (fullInv_init X n p hn hmin) hok

/-- The post-condition of `find_best_split` as a hypothesis on the scan: whenever it is called from a state that
    satisfies the invariants and whose loop guard holds, and reports a positive gain, the reported split is `SplitOK`. -/
def FindBestSplitSpec (κ : Nat → Nat → α) (X : Nat → Nat → α) (p : Params) : Prop :=
  ∀ (s : FitState α) (features : List Nat), FullInv X p s → s.continues p = true →
    lt 0 (findBestSplit κ X s.toExplore s.asg s.nClusters p.maxClusters s.nLeaves p.minLeaf features).gain = true →
    SplitOK X p s (findBestSplit κ X s.toExplore s.asg s.nClusters p.maxClusters s.nLeaves p.minLeaf features)

theorem foldl_fitStep_inv {κ : Nat → Nat → α} {X : Nat → Nat → α} {p : Params} (hspec : FindBestSplitSpec κ X p)
    (draws : List (List Nat)) : ∀ s : FitState α, FullInv X p s → FullInv X p (draws.foldl (fitStep κ X p) s) := by
  induction draws with
  | nil => intro s h; exact h
  | cons d ds ih =>
    intro s h
    rw [List.foldl_cons, fitStep_eq_stepWith]
    exact ih _ (stepWith_preserves h (hspec s d h))

theorem fit_inv {κ : Nat → Nat → α} {X : Nat → Nat → α} {n : Nat} {p : Params} (hn : 1 ≤ n) (hmin : p.minLeaf ≤ n)
    (hspec : FindBestSplitSpec κ X p) (draws : List (List Nat)) : FullInv X p (fit κ X n p draws) :=
  foldl_fitStep_inv hspec draws _ (fullInv_init X n p hn hmin)

/-! ### labels -/

omit [RealLike α] in
theorem mem_labels (s : FitState α) (c : Nat) : c ∈ s.labels ↔ ∃ i, i < s.asg.n ∧ s.asg.clusterOfSample i = c := by
  simp [FitState.labels]

theorem exists_mem_of_ne_nil {β : Type} {l : List β} (h : l ≠ []) : ∃ x, x ∈ l := by
  cases l with
  | nil => exact absurd rfl h
  | cons x xs => exact ⟨x, List.mem_cons_self⟩

omit [RealLike α] in
/-- the labels are exactly `0 .. n_clusters-1` -/
theorem labels_range {p : Params} {s : FitState α} (hI : Inv p s) (hS : InvSamples p s) (c : Nat) :
    c ∈ s.labels ↔ c < s.nClusters := by
  rw [mem_labels]
  constructor
  · rintro ⟨i, hi, e⟩
    rw [← e]
    exact hI.clusterOf_lt _ (hI.leafOf_lt i hi)
  · intro hc
    obtain ⟨l, hl, e⟩ := hI.cluster_owns_leaf c hc
    obtain ⟨i, hi⟩ := exists_mem_of_ne_nil (hS.leaf_nonempty l hl)
    obtain ⟨hi1, hi2⟩ := (mem_samplesOfLeaf _ _ _).1 hi
    exact ⟨i, hi1, by unfold Assign.clusterOfSample; rw [hi2, e]⟩

/-! ### a concrete run (used by the satisfiability examples in `Props/C09.lean`) -/

namespace Example
/-- three samples, one feature, `X[i, 0] = i` -/
def X : Nat → Nat → Rat := fun i _ => (i : Rat)
def p : Params := { maxClusters := 2, maxDepth := 2, minSplit := 2, minLeaf := 1, maxLeaves := 3 }
/-- right star on the root: `{0} | {1, 2}`, threshold `X[0,0]`, targets `(0, 1)` -/
def b1 : Split Rat := ⟨1, 0, 0, 1, 0, 0⟩
/-- switch on leaf 1: `{1} | {2}`, threshold `X[1,0]`, targets `(0, 1)` -/
def b2 : Split Rat := ⟨1, 1, 0, 1, 0, 1⟩
end Example

end GemVerif.KauriC09
