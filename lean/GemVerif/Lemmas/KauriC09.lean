/-
  Helper definitions and lemmas for C09 (KAURI structural limits and self-consistency):
  the post-condition `SplitOK` of `find_best_split`, the invariants `Inv`, `InvSamples`, `InvRoute`
  of the fit state machine, and their preservation by `applySplit`.  No Mathlib.
-/
import GemVerif.Model.Kauri

namespace GemVerif.KauriC09
open GemVerif RealLike Model.Kauri

/-! ### `a[i]!` after `set!` / `push` -/

section arr
variable {β : Type} [Inhabited β]

theorem get_set_eq (a : Array β) (i : Nat) (v : β) (h : i < a.size) : (a.set! i v)[i]! = v := by
  simp [h]

theorem get_set_ne (a : Array β) (i j : Nat) (v : β) (h : i ≠ j) : (a.set! i v)[j]! = a[j]! := by
  grind

theorem get_set (a : Array β) (i j : Nat) (v : β) (hj : j < a.size) :
    (a.set! i v)[j]! = if i = j then v else a[j]! := by
  grind

omit [Inhabited β] in
theorem size_spp (a : Array β) (F : Nat) (v x y : β) : (((a.set! F v).push x).push y).size = a.size + 2 := by
  simp

theorem get_spp_lt (a : Array β) (F k : Nat) (v x y : β) (hk : k < a.size) :
    (((a.set! F v).push x).push y)[k]! = if F = k then v else a[k]! := by
  grind

theorem get_spp_n (a : Array β) (F : Nat) (v x y : β) : (((a.set! F v).push x).push y)[a.size]! = x := by
  grind

theorem get_spp_n1 (a : Array β) (F : Nat) (v x y : β) : (((a.set! F v).push x).push y)[a.size + 1]! = y := by
  grind

theorem get_pp_lt (a : Array β) (k : Nat) (x y : β) (hk : k < a.size) : ((a.push x).push y)[k]! = a[k]! := by
  grind

theorem get_pp_n (a : Array β) (x y : β) : ((a.push x).push y)[a.size]! = x := by
  grind

theorem get_pp_n1 (a : Array β) (x y : β) : ((a.push x).push y)[a.size + 1]! = y := by
  grind

omit [Inhabited β] in
/-- `for i in l: a[i] = v` -/
theorem size_foldl_set (l : List Nat) (v : β) (a : Array β) :
    (l.foldl (fun (acc : Array β) i => acc.set! i v) a).size = a.size := by
  induction l generalizing a with
  | nil => rfl
  | cons x xs ih => rw [List.foldl_cons, ih]; simp

theorem get_foldl_set (l : List Nat) (v : β) (a : Array β) (j : Nat) (hj : j < a.size) :
    (l.foldl (fun (acc : Array β) i => acc.set! i v) a)[j]! = if j ∈ l then v else a[j]! := by
  induction l generalizing a with
  | nil => simp
  | cons x xs ih =>
    rw [List.foldl_cons, ih _ (by simpa using hj)]
    by_cases h1 : j ∈ xs
    · simp [h1]
    · by_cases h2 : j = x
      · subst h2; simp [h1, hj]
      · have : x ≠ j := fun h => h2 h.symm
        rw [get_set_ne _ _ _ _ this]; simp [h1, h2]

end arr

variable {α : Type} [RealLike α]

/-! ### vocabulary -/

/-- the samples of the leaf that split `b` cuts -/
def members (s : FitState α) (b : Split α) : List Nat := s.asg.samplesOfLeaf b.leaf.toNat

/-- the test `X[i, feature] <= threshold` of `Kauri.fit` (and of `Tree.predict`) -/
def goesLeft (X : Nat → Nat → α) (b : Split α) (i : Nat) : Bool := le (X i b.feature.toNat) b.threshold

/-- `left_indices` of `Kauri.fit` -/
def leftIdx (X : Nat → Nat → α) (s : FitState α) (b : Split α) : List Nat :=
  (members s b).filter fun i => goesLeft X b i

/-- `right_indices` of `Kauri.fit` -/
def rightIdx (X : Nat → Nat → α) (s : FitState α) (b : Split α) : List Nat :=
  (members s b).filter fun i => !(goesLeft X b i)

/-- The post-condition that `find_best_split` guarantees for the split it reports with a positive gain, in the
    state `s` in which it was called. -/
structure SplitOK (X : Nat → Nat → α) (p : Params) (s : FitState α) (b : Split α) : Prop where
  /-- `leaf` is a leaf id (`Split.init` has `-1`; every setter writes `c.leaf_id`, a `Nat`) … -/
  leaf_nonneg : 0 ≤ b.leaf
  /-- … taken from `leaves_to_explore` (the outer loop of `find_best_split` ranges over it) -/
  leaf_mem : b.leaf.toNat ∈ s.toExplore
  /-- the feature is a column index (an element of the drawn feature subset) -/
  feature_nonneg : 0 ≤ b.feature
  /-- the targets are cluster ids -/
  left_nonneg : 0 ≤ b.left
  right_nonneg : 0 ≤ b.right
  /-- the two children go to different clusters (every branch of `compute_all_splits` writes two different ids;
      not needed by the invariants below, kept for faithfulness) -/
  targets_ne : b.left ≠ b.right
  /-- the four kinds of split of `compute_all_splits`, `k` being the cluster of the leaf:
      double star `(n_clusters, n_clusters+1)`, guarded by `n_clusters + 1 < K_max`;
      left star `(n_clusters, k)` and right star `(k, n_clusters)`, guarded by `n_clusters < K_max`;
      switch `(k', k)`, `(k, k')` and reallocation `(k_l, k_r)` with existing clusters only. -/
  targets :
    (b.left = s.nClusters ∧ b.right = s.nClusters + 1 ∧ s.nClusters + 2 ≤ p.maxClusters) ∨
    (b.left = s.nClusters ∧ b.right = s.asg.clusterOf[b.leaf.toNat]! ∧ s.nClusters + 1 ≤ p.maxClusters) ∨
    (b.left = s.asg.clusterOf[b.leaf.toNat]! ∧ b.right = s.nClusters ∧ s.nClusters + 1 ≤ p.maxClusters) ∨
    (b.left < s.nClusters ∧ b.right < s.nClusters)
  /-- the cluster `k` of the leaf is not emptied: one child stays in `k` (star, switch), or `k` has a sample outside
      the leaf (double star and reallocation are guarded by `n_leaf != cluster_sizes[k]`) -/
  keeps_cluster :
    b.left = s.asg.clusterOf[b.leaf.toNat]! ∨ b.right = s.asg.clusterOf[b.leaf.toNat]! ∨
    ∃ i, i < s.asg.n ∧ s.asg.leafOf[i]! ≠ b.leaf.toNat ∧ s.asg.clusterOfSample i = s.asg.clusterOf[b.leaf.toNat]!
  /-- the scan only evaluates cut positions `l` with `l + 1 ≥ min_samples_leaf` samples on the left … -/
  left_size : p.minLeaf ≤ (leftIdx X s b).length
  /-- … and `n_leaf - l - 1 ≥ min_samples_leaf` on the right -/
  right_size : p.minLeaf ≤ (rightIdx X s b).length
  /-- `l` ranges over `0 .. n_leaf-2`, so the left side holds the sample `nu[l]` … -/
  left_nonempty : leftIdx X s b ≠ []
  /-- … and the right side holds `nu[l+1]`, whose feature value differs (the equal-value skip) -/
  right_nonempty : rightIdx X s b ≠ []
  /-- the threshold is `X[nu[l], feature]`, the feature value of a sample of the leaf -/
  threshold_obs : ∃ i, i ∈ members s b ∧ b.threshold = X i b.feature.toNat

/-- Structural invariant of the fit loop (everything that does not mention the data). -/
structure Inv (p : Params) (s : FitState α) : Prop where
  nLeaves_pos : 1 ≤ s.nLeaves
  /-- the tree has `2·leaves − 1` nodes -/
  nNodes_eq : s.tree.nNodes = 2 * s.nLeaves - 1
  size_left : s.tree.left.size = s.tree.nNodes
  size_right : s.tree.right.size = s.tree.nNodes
  size_target : s.tree.target.size = s.tree.nNodes
  size_thr : s.tree.thr.size = s.tree.nNodes
  size_feat : s.tree.feat.size = s.tree.nNodes
  size_gains : s.tree.gains.size = s.tree.nNodes
  size_depths : s.tree.depths.size = s.tree.nNodes
  size_leafOf : s.asg.leafOf.size = s.asg.n
  size_clusterOf : s.asg.clusterOf.size = p.maxLeaves
  size_l2n : s.leaf2node.size = p.maxLeaves
  /-- at most `max_leaves` leaves (a tree always has its root leaf) -/
  nLeaves_le : s.nLeaves ≤ max p.maxLeaves 1
  /-- depth at most `max_depth` (the root is always explored, so depth 1 is reachable when `max_depth = 0`) -/
  depth_le : ∀ k, k < s.tree.nNodes → s.tree.depths[k]! ≤ max p.maxDepth 1
  /-- a tree with `L` leaves has depth at most `L - 1` -/
  depth_lt_leaves : ∀ k, k < s.tree.nNodes → s.tree.depths[k]! + 1 ≤ s.nLeaves
  /-- a leaf that may still be split is strictly above the depth limit -/
  explore_depth : ∀ l, l ∈ s.toExplore → s.tree.depths[s.leaf2node[l]!]! < max p.maxDepth 1
  nClusters_pos : 1 ≤ s.nClusters
  /-- at most `max_clusters` clusters -/
  nClusters_le : s.nClusters ≤ max p.maxClusters 1
  explore_lt : ∀ l, l ∈ s.toExplore → l < s.nLeaves
  explore_nodup : s.toExplore.Nodup
  /-- `leaf2node` sends leaf ids to nodes … -/
  l2n_lt : ∀ l, l < s.nLeaves → s.leaf2node[l]! < s.tree.nNodes
  /-- … that are leaves of the tree … -/
  l2n_leaf : ∀ l, l < s.nLeaves → s.tree.left[s.leaf2node[l]!]! = -1
  /-- … injectively … -/
  l2n_inj : ∀ l l', l < s.nLeaves → l' < s.nLeaves → s.leaf2node[l]! = s.leaf2node[l']! → l = l'
  /-- … and onto the leaves of the tree -/
  l2n_surj : ∀ k, k < s.tree.nNodes → s.tree.left[k]! = -1 → ∃ l, l < s.nLeaves ∧ s.leaf2node[l]! = k
  /-- every sample sits in an existing leaf -/
  leafOf_lt : ∀ i, i < s.asg.n → s.asg.leafOf[i]! < s.nLeaves
  /-- every leaf belongs to an existing cluster -/
  clusterOf_lt : ∀ l, l < s.nLeaves → s.asg.clusterOf[l]! < s.nClusters
  /-- clusters are numbered contiguously from 0: every id below `n_clusters` owns a leaf -/
  cluster_owns_leaf : ∀ c, c < s.nClusters → ∃ l, l < s.nLeaves ∧ s.asg.clusterOf[l]! = c
  /-- the tree node of a leaf carries the cluster of the leaf -/
  target_eq : ∀ l, l < s.nLeaves → s.tree.target[s.leaf2node[l]!]! = (s.asg.clusterOf[l]! : Int)

/-! ### `Tree.addChild` -/

section tree
variable (t : Tree α) (F : Nat) (b : Split α)

theorem addChild_nNodes : (t.addChild F b).nNodes = t.nNodes + 2 := rfl

theorem addChild_size_left : (t.addChild F b).left.size = t.left.size + 2 := size_spp ..
theorem addChild_size_right : (t.addChild F b).right.size = t.right.size + 2 := size_spp ..
theorem addChild_size_thr : (t.addChild F b).thr.size = t.thr.size + 2 := size_spp ..
theorem addChild_size_feat : (t.addChild F b).feat.size = t.feat.size + 2 := size_spp ..
theorem addChild_size_gains : (t.addChild F b).gains.size = t.gains.size + 2 := size_spp ..
theorem addChild_size_depths : (t.addChild F b).depths.size = t.depths.size + 2 := by
  show ((t.depths.push _).push _).size = _; simp
theorem addChild_size_target : (t.addChild F b).target.size = t.target.size + 2 := by
  show ((t.target.push _).push _).size = _; simp

theorem addChild_left_lt (h : t.left.size = t.nNodes) {k : Nat} (hk : k < t.nNodes) :
    (t.addChild F b).left[k]! = if F = k then (t.nNodes : Int) else t.left[k]! :=
  get_spp_lt _ _ _ _ _ _ (h ▸ hk)
theorem addChild_left_n (h : t.left.size = t.nNodes) : (t.addChild F b).left[t.nNodes]! = -1 := by
  have := get_spp_n t.left F (t.nNodes : Int) (-1) (-1); rw [h] at this; exact this
theorem addChild_left_n1 (h : t.left.size = t.nNodes) : (t.addChild F b).left[t.nNodes + 1]! = -1 := by
  have := get_spp_n1 t.left F (t.nNodes : Int) (-1) (-1); rw [h] at this; exact this

theorem addChild_right_lt (h : t.right.size = t.nNodes) {k : Nat} (hk : k < t.nNodes) :
    (t.addChild F b).right[k]! = if F = k then ((t.nNodes + 1 : Nat) : Int) else t.right[k]! :=
  get_spp_lt _ _ _ _ _ _ (h ▸ hk)
theorem addChild_right_n (h : t.right.size = t.nNodes) : (t.addChild F b).right[t.nNodes]! = -1 := by
  have := get_spp_n t.right F ((t.nNodes + 1 : Nat) : Int) (-1) (-1); rw [h] at this; exact this
theorem addChild_right_n1 (h : t.right.size = t.nNodes) : (t.addChild F b).right[t.nNodes + 1]! = -1 := by
  have := get_spp_n1 t.right F ((t.nNodes + 1 : Nat) : Int) (-1) (-1); rw [h] at this; exact this

theorem addChild_thr_lt (h : t.thr.size = t.nNodes) {k : Nat} (hk : k < t.nNodes) :
    (t.addChild F b).thr[k]! = if F = k then some b.threshold else t.thr[k]! :=
  get_spp_lt _ _ _ _ _ _ (h ▸ hk)
theorem addChild_thr_n (h : t.thr.size = t.nNodes) : (t.addChild F b).thr[t.nNodes]! = none := by
  have := get_spp_n t.thr F (some b.threshold) none none; rw [h] at this; exact this
theorem addChild_thr_n1 (h : t.thr.size = t.nNodes) : (t.addChild F b).thr[t.nNodes + 1]! = none := by
  have := get_spp_n1 t.thr F (some b.threshold) none none; rw [h] at this; exact this

theorem addChild_feat_lt (h : t.feat.size = t.nNodes) {k : Nat} (hk : k < t.nNodes) :
    (t.addChild F b).feat[k]! = if F = k then some b.feature else t.feat[k]! :=
  get_spp_lt _ _ _ _ _ _ (h ▸ hk)
theorem addChild_feat_n (h : t.feat.size = t.nNodes) : (t.addChild F b).feat[t.nNodes]! = none := by
  have := get_spp_n t.feat F (some b.feature) none none; rw [h] at this; exact this
theorem addChild_feat_n1 (h : t.feat.size = t.nNodes) : (t.addChild F b).feat[t.nNodes + 1]! = none := by
  have := get_spp_n1 t.feat F (some b.feature) none none; rw [h] at this; exact this

theorem addChild_depths_lt (h : t.depths.size = t.nNodes) {k : Nat} (hk : k < t.nNodes) :
    (t.addChild F b).depths[k]! = t.depths[k]! :=
  get_pp_lt _ _ _ _ (h ▸ hk)
theorem addChild_depths_n (h : t.depths.size = t.nNodes) : (t.addChild F b).depths[t.nNodes]! = t.depths[F]! + 1 := by
  have := get_pp_n t.depths (t.depths[F]! + 1) (t.depths[F]! + 1); rw [h] at this; exact this
theorem addChild_depths_n1 (h : t.depths.size = t.nNodes) :
    (t.addChild F b).depths[t.nNodes + 1]! = t.depths[F]! + 1 := by
  have := get_pp_n1 t.depths (t.depths[F]! + 1) (t.depths[F]! + 1); rw [h] at this; exact this

theorem addChild_target_lt (h : t.target.size = t.nNodes) {k : Nat} (hk : k < t.nNodes) :
    (t.addChild F b).target[k]! = t.target[k]! :=
  get_pp_lt _ _ _ _ (h ▸ hk)
theorem addChild_target_n (h : t.target.size = t.nNodes) : (t.addChild F b).target[t.nNodes]! = b.left := by
  have := get_pp_n t.target b.left b.right; rw [h] at this; exact this
theorem addChild_target_n1 (h : t.target.size = t.nNodes) : (t.addChild F b).target[t.nNodes + 1]! = b.right := by
  have := get_pp_n1 t.target b.left b.right; rw [h] at this; exact this

end tree

/-! ### the fields of `applySplit` -/

/-- `leaves_to_explore` after a split (`remove`, then the two guarded `append`s) -/
def newExplore (p : Params) (e : List Nat) (leaf nL pd lc rc : Nat) : List Nat :=
  let expl := e.erase leaf
  if pd + 1 < p.maxDepth then
    let e1 := if lc ≥ p.minSplit then expl ++ [leaf] else expl
    if rc ≥ p.minSplit then e1 ++ [nL] else e1
  else expl

/-- `n_clusters` after a split -/
def newNClusters (nC : Nat) (b : Split α) : Nat :=
  let nc : Int := nC
  if b.left ≥ nc && b.right ≥ nc then nC + 2
  else if b.left ≥ nc || b.right ≥ nc then nC + 1 else nC

section proj
variable (X : Nat → Nat → α) (p : Params) (s : FitState α) (b : Split α)

/-- the tree node of the leaf that is split -/
abbrev father (s : FitState α) (b : Split α) : Nat := s.leaf2node[b.leaf.toNat]!

theorem applySplit_nLeaves : (applySplit X p s b).nLeaves = s.nLeaves + 1 := rfl
theorem applySplit_n : (applySplit X p s b).asg.n = s.asg.n := rfl
theorem applySplit_tree : (applySplit X p s b).tree = s.tree.addChild (father s b) b := rfl
theorem applySplit_leafOf : (applySplit X p s b).asg.leafOf =
    (rightIdx X s b).foldl (fun (acc : Array Nat) i => acc.set! i s.nLeaves) s.asg.leafOf := rfl
theorem applySplit_clusterOf : (applySplit X p s b).asg.clusterOf =
    (s.asg.clusterOf.set! b.leaf.toNat b.left.toNat).set! s.nLeaves b.right.toNat := rfl
theorem applySplit_l2n : (applySplit X p s b).leaf2node =
    (s.leaf2node.set! b.leaf.toNat (2 * s.nLeaves - 1)).set! s.nLeaves (2 * s.nLeaves) := rfl
theorem applySplit_nClusters : (applySplit X p s b).nClusters = newNClusters s.nClusters b := rfl
theorem applySplit_toExplore : (applySplit X p s b).toExplore =
    newExplore p s.toExplore b.leaf.toNat s.nLeaves ((s.tree.addChild (father s b) b).depths[father s b]!)
      ((members s b).length - (rightIdx X s b).length) (rightIdx X s b).length := rfl
theorem applySplit_lastGainPos : (applySplit X p s b).lastGainPos = s.lastGainPos := rfl

end proj

theorem mem_newExplore {p : Params} {e : List Nat} {leaf nL pd lc rc l : Nat} (hn : e.Nodup)
    (h : l ∈ newExplore p e leaf nL pd lc rc) :
    (l ∈ e ∧ l ≠ leaf) ∨ (l = leaf ∧ pd + 1 < p.maxDepth ∧ p.minSplit ≤ lc) ∨
      (l = nL ∧ pd + 1 < p.maxDepth ∧ p.minSplit ≤ rc) := by
  have he : ∀ x, x ∈ e.erase leaf → x ∈ e ∧ x ≠ leaf := fun x hx =>
    let h := (List.Nodup.mem_erase_iff hn).1 hx; ⟨h.2, h.1⟩
  unfold newExplore at h
  simp only [ge_iff_le] at h
  by_cases h1 : pd + 1 < p.maxDepth <;> by_cases h2 : p.minSplit ≤ lc <;> by_cases h3 : p.minSplit ≤ rc <;>
    simp only [h1, h2, h3, if_true, if_false, List.mem_append, List.mem_singleton] at h <;>
    grind

theorem nodup_newExplore {p : Params} {e : List Nat} {leaf nL pd lc rc : Nat} (hn : e.Nodup)
    (hlt : ∀ l, l ∈ e → l < nL) (hleaf : leaf < nL) : (newExplore p e leaf nL pd lc rc).Nodup := by
  have he : ∀ x, x ∈ e.erase leaf → x ∈ e ∧ x ≠ leaf := fun x hx =>
    let h := (List.Nodup.mem_erase_iff hn).1 hx; ⟨h.2, h.1⟩
  have hne : (e.erase leaf).Nodup := hn.erase _
  have h1 : ((e.erase leaf) ++ [leaf]).Nodup := by
    rw [List.nodup_append]
    refine ⟨hne, by simp, ?_⟩
    intro a ha c hc
    rw [List.mem_singleton] at hc
    subst hc; exact (he a ha).2
  have h2 : ((e.erase leaf) ++ [nL]).Nodup := by
    rw [List.nodup_append]
    refine ⟨hne, by simp, ?_⟩
    intro a ha c hc
    rw [List.mem_singleton] at hc
    subst hc; exact Nat.ne_of_lt (hlt a (he a ha).1)
  have h3 : (((e.erase leaf) ++ [leaf]) ++ [nL]).Nodup := by
    rw [List.nodup_append]
    refine ⟨h1, by simp, ?_⟩
    intro a ha c hc
    rw [List.mem_singleton] at hc
    subst hc
    rw [List.mem_append, List.mem_singleton] at ha
    rcases ha with ha | ha
    · exact Nat.ne_of_lt (hlt a (he a ha).1)
    · subst ha; exact Nat.ne_of_lt hleaf
  unfold newExplore
  simp only [ge_iff_le]
  by_cases c1 : pd + 1 < p.maxDepth <;> by_cases c2 : p.minSplit ≤ lc <;> by_cases c3 : p.minSplit ≤ rc <;>
    simp only [c1, c2, c3, if_true, if_false] <;> assumption

/-! ### the initial state -/

theorem get_replicate_zero (m i : Nat) : (Array.replicate m (0 : Nat))[i]! = 0 := by
  by_cases h : i < m <;> simp [h]

theorem inv_init (n : Nat) (p : Params) : Inv p (FitState.init n p : FitState α) := by
  have hl2n : ∀ l, (FitState.init n p : FitState α).leaf2node[l]! = 0 := fun l => get_replicate_zero _ _
  have hcl : ∀ l, (FitState.init n p : FitState α).asg.clusterOf[l]! = 0 := fun l => get_replicate_zero _ _
  have hlo : ∀ i, (FitState.init n p : FitState α).asg.leafOf[i]! = 0 := fun l => get_replicate_zero _ _
  have hexp : ∀ l, l ∈ (FitState.init n p : FitState α).toExplore → l = 0 := by
    intro l hl
    simp only [FitState.init] at hl
    split at hl <;> simp_all
  refine { nLeaves_pos := Nat.le_refl _, nNodes_eq := rfl, size_left := rfl, size_right := rfl, size_target := rfl,
           size_thr := rfl, size_feat := rfl, size_gains := rfl, size_depths := rfl,
           size_leafOf := Array.size_replicate, size_clusterOf := Array.size_replicate,
           size_l2n := Array.size_replicate, nLeaves_le := Nat.le_max_right _ _, nClusters_pos := Nat.le_refl _,
           nClusters_le := Nat.le_max_right _ _, depth_le := ?_, depth_lt_leaves := ?_, explore_depth := ?_,
           explore_lt := ?_, explore_nodup := ?_, l2n_lt := ?_, l2n_leaf := ?_, l2n_inj := ?_, l2n_surj := ?_,
           leafOf_lt := ?_, clusterOf_lt := ?_, cluster_owns_leaf := ?_, target_eq := ?_ }
  · intro k hk
    have : k = 0 := by simpa [FitState.init, Tree.init] using hk
    subst this; exact Nat.zero_le _
  · intro k hk
    have : k = 0 := by simpa [FitState.init, Tree.init] using hk
    subst this; exact Nat.le_refl _
  · intro l hl
    rw [hl2n]
    show 0 < max p.maxDepth 1
    omega
  · intro l hl; rw [hexp l hl]; exact Nat.zero_lt_one
  · simp only [FitState.init]; split <;> simp
  · intro l _; rw [hl2n]; exact Nat.zero_lt_one
  · intro l _; rw [hl2n]; rfl
  · intro l l' h h' _
    have h1 : l = 0 := Nat.lt_one_iff.1 h
    have h2 : l' = 0 := Nat.lt_one_iff.1 h'
    omega
  · intro k hk _
    have : k = 0 := by simpa [FitState.init, Tree.init] using hk
    exact ⟨0, Nat.zero_lt_one, by rw [hl2n, this]⟩
  · intro i _; rw [hlo]; exact Nat.zero_lt_one
  · intro l _; rw [hcl]; exact Nat.zero_lt_one
  · intro c hc
    have h1 : c = 0 := Nat.lt_one_iff.1 hc
    exact ⟨0, Nat.zero_lt_one, by rw [hcl, h1]⟩
  · intro l _; rw [hl2n, hcl]; rfl

end GemVerif.KauriC09
