/-
  Helper lemmas for `Props/C09Spec.lean`: the post-condition `KauriC09.SplitOK` of the model's `findBestSplit`
  (`FindBestSplitSpec`) is PROVED here, for every number type whose comparisons obey the laws of a total order
  (`OrderLaws`; instances for ℝ and ℚ at the end).

  Contents: insertion sort (`insertBy`/`sortBy`) is a sorted permutation; the cut of a sorted leaf at an evaluated scan
  position; `compute_all_splits` only ever writes admissible target pairs (`computeAllSplits_ind`); a fold-induction
  principle through the three nested loops of `find_best_split` (`findBestSplit_ind`); the assembly.
-/
import GemVerif.Lemmas.KauriC09
import GemVerif.NumReal

set_option linter.unusedSectionVars false

namespace GemVerif.KauriSpec
open GemVerif RealLike Model.Kauri KauriC09

variable {α : Type} [RealLike α]

/-- The laws of the Boolean comparisons that the proof uses (a total preorder whose symmetric part is `beq`;
    `0 < 0` is false).  They hold over ℝ and ℚ; they fail for IEEE doubles only in the presence of NaN. -/
structure OrderLaws (α : Type) [RealLike α] : Prop where
  le_total : ∀ a b : α, le a b = false → le b a = true
  le_trans : ∀ a b c : α, le a b = true → le b c = true → le a c = true
  le_antisymm : ∀ a b : α, le a b = true → le b a = true → beq a b = true
  lt_zero_zero : lt (0 : α) 0 = false

theorem OrderLaws.le_refl (O : OrderLaws α) (a : α) : le a a = true := by
  by_cases h : le a a = true
  · exact h
  · exact O.le_total a a (by simpa using h)

/-! ### generic folds -/

theorem foldl_inv {β γ : Type} (P : β → Prop) (f : β → γ → β) (l : List γ) (b : β) (h0 : P b)
    (hs : ∀ b x, x ∈ l → P b → P (f b x)) : P (l.foldl f b) := by
  induction l generalizing b with
  | nil => exact h0
  | cons x xs ih =>
    rw [List.foldl_cons]
    exact ih _ (hs b x List.mem_cons_self h0) (fun b y hy hb => hs b y (List.mem_cons_of_mem _ hy) hb)

theorem foldl_range_inv {β : Type} (Q : Nat → β → Prop) (f : β → Nat → β) (b : β) (n : Nat) (h0 : Q 0 b)
    (hs : ∀ m b, m < n → Q m b → Q (m + 1) (f b m)) : Q n ((List.range n).foldl f b) := by
  induction n with
  | zero => exact h0
  | succ n ih =>
    rw [List.range_succ, List.foldl_append, List.foldl_cons, List.foldl_nil]
    exact hs n _ (Nat.lt_succ_self n) (ih (fun m b hm hb => hs m b (Nat.lt_succ_of_lt hm) hb))

/-! ### insertion sort -/

section sort
variable (le' : α → α → Bool)

theorem insertBy_perm (x : α × Nat) (l : List (α × Nat)) : (insertBy le' x l).Perm (x :: l) := by
  induction l with
  | nil => exact List.Perm.refl _
  | cons y ys ih =>
    unfold insertBy
    split
    · exact ((List.Perm.cons y ih).trans (List.Perm.swap x y ys))
    · exact List.Perm.refl _

theorem foldl_insertBy_perm (l acc : List (α × Nat)) :
    (l.foldl (fun acc x => insertBy le' x acc) acc).Perm (l ++ acc) := by
  induction l generalizing acc with
  | nil => exact List.Perm.refl _
  | cons x xs ih =>
    rw [List.foldl_cons]
    refine (ih _).trans ?_
    refine (List.Perm.append_left xs (insertBy_perm le' x acc)).trans ?_
    simp

theorem sortBy_perm (l : List (α × Nat)) : (sortBy le' l).Perm l := by
  have := foldl_insertBy_perm le' l []
  simpa [sortBy] using this

/-- sorted by value -/
def SortedBy (l : List (α × Nat)) : Prop := l.Pairwise fun a b => le' a.1 b.1 = true

variable {le'}

theorem insertBy_sorted (htot : ∀ a b, le' a b = false → le' b a = true)
    (htr : ∀ a b c, le' a b = true → le' b c = true → le' a c = true) (x : α × Nat) (l : List (α × Nat))
    (h : SortedBy le' l) : SortedBy le' (insertBy le' x l) := by
  induction l with
  | nil => exact List.pairwise_singleton _ _
  | cons y ys ih =>
    have hy := List.pairwise_cons.1 h
    unfold insertBy
    split
    · rename_i hle
      refine List.pairwise_cons.2 ⟨?_, ih hy.2⟩
      intro z hz
      rcases List.mem_cons.1 ((insertBy_perm le' x ys).mem_iff.1 hz) with hz | hz
      · rw [hz]; exact hle
      · exact hy.1 z hz
    · rename_i hle
      have hxy : le' x.1 y.1 = true := htot _ _ (by simpa using hle)
      refine List.pairwise_cons.2 ⟨?_, h⟩
      intro z hz
      rcases List.mem_cons.1 hz with hz | hz
      · rw [hz]; exact hxy
      · exact htr _ _ _ hxy (hy.1 z hz)

theorem foldl_insertBy_sorted (htot : ∀ a b, le' a b = false → le' b a = true)
    (htr : ∀ a b c, le' a b = true → le' b c = true → le' a c = true) (l acc : List (α × Nat))
    (h : SortedBy le' acc) : SortedBy le' (l.foldl (fun acc x => insertBy le' x acc) acc) :=
  foldl_inv (SortedBy le') _ l acc h (fun b x _ hb => insertBy_sorted htot htr x b hb)

theorem sortBy_sorted (htot : ∀ a b, le' a b = false → le' b a = true)
    (htr : ∀ a b c, le' a b = true → le' b c = true → le' a c = true) (l : List (α × Nat)) :
    SortedBy le' (sortBy le' l) :=
  foldl_insertBy_sorted htot htr l [] List.Pairwise.nil

end sort

/-! ### the cut of a sorted leaf -/

/-- the order `nu` of the samples of a leaf along feature `f`, as a list -/
def nuList (X : Nat → Nat → α) (leaf : List Nat) (f : Nat) : List Nat :=
  (sortBy (fun x y => le x y) (leaf.map fun i => (X i f, i))).map (·.2)

theorem nuList_perm (X : Nat → Nat → α) (leaf : List Nat) (f : Nat) : (nuList X leaf f).Perm leaf := by
  have := (sortBy_perm (fun x y => le x y) (leaf.map fun i => (X i f, i))).map (·.2)
  simpa [nuList, List.map_map, Function.comp_def] using this

theorem nuList_sorted (O : OrderLaws α) (X : Nat → Nat → α) (leaf : List Nat) (f : Nat) :
    (nuList X leaf f).Pairwise fun i i' => le (X i f) (X i' f) = true := by
  have hs := sortBy_sorted (le' := fun x y : α => le x y) O.le_total O.le_trans (leaf.map fun i => (X i f, i))
  have hmem : ∀ q, q ∈ sortBy (fun x y : α => le x y) (leaf.map fun i => (X i f, i)) → q.1 = X q.2 f := by
    intro q hq
    have := (sortBy_perm _ _).mem_iff.1 hq
    obtain ⟨i, _, rfl⟩ := List.mem_map.1 this
    rfl
  unfold nuList
  rw [List.pairwise_map]
  exact hs.imp_of_mem (fun ha hb h => by rw [← hmem _ ha, ← hmem _ hb]; exact h)

theorem cut_aux (O : OrderLaws α) (v : Nat → α) (A B : List Nat) (x y : Nat)
    (hs : (A ++ x :: y :: B).Pairwise fun i i' => le (v i) (v i') = true) (hne : beq (v x) (v y) = false) :
    ((A ++ x :: y :: B).filter fun i => le (v i) (v x)) = A ++ [x] ∧
      ((A ++ x :: y :: B).filter fun i => !(le (v i) (v x))) = y :: B := by
  obtain ⟨_, h2, h3⟩ := List.pairwise_append.1 hs
  obtain ⟨h4, h5⟩ := List.pairwise_cons.1 h2
  obtain ⟨h6, _⟩ := List.pairwise_cons.1 h5
  have hA : ∀ a, a ∈ A → le (v a) (v x) = true := fun a ha => h3 a ha x List.mem_cons_self
  have hxy : le (v x) (v y) = true := h4 y List.mem_cons_self
  have hy : le (v y) (v x) = false := by
    cases h : le (v y) (v x)
    · rfl
    · rw [O.le_antisymm _ _ hxy h] at hne; exact absurd hne (by decide)
  have hB : ∀ b, b ∈ B → le (v b) (v x) = false := by
    intro b hb
    cases h : le (v b) (v x)
    · rfl
    · rw [O.le_trans _ _ _ (h6 b hb) h] at hy; exact absurd hy (by decide)
  have hx := O.le_refl (v x)
  constructor
  · rw [List.filter_append, List.filter_cons_of_pos (by simpa using hx), List.filter_cons_of_neg (by simp [hy]),
      List.filter_eq_self.2 (fun a ha => by simpa using hA a ha),
      List.filter_eq_nil_iff.2 (fun b hb => by simp [hB b hb])]
  · rw [List.filter_append, List.filter_cons_of_neg (by simp [hx]), List.filter_cons_of_pos (by simp [hy]),
      List.filter_eq_nil_iff.2 (fun a ha => by simp [hA a ha]),
      List.filter_eq_self.2 (fun b hb => by simp [hB b hb])]
    rfl

theorem decomp (L : List Nat) (l : Nat) (hl : l + 1 < L.length) :
    L = L.take l ++ L[l] :: L[l + 1] :: L.drop (l + 2) := by
  conv_lhs => rw [← List.take_append_drop l L]
  rw [List.drop_eq_getElem_cons (show l < L.length by omega), List.drop_eq_getElem_cons hl]

/-- In a list sorted by `v`, if the values at positions `l` and `l+1` differ, exactly the first `l+1` elements
    satisfy `v i ≤ v L[l]`. -/
theorem cut_filter (O : OrderLaws α) (v : Nat → α) (L : List Nat) (l : Nat) (hl : l + 1 < L.length)
    (hs : L.Pairwise fun i i' => le (v i) (v i') = true) (hne : beq (v L[l]) (v L[l + 1]) = false) :
    (L.filter fun i => le (v i) (v L[l])).length = l + 1 ∧
      (L.filter fun i => !(le (v i) (v L[l]))).length = L.length - (l + 1) := by
  have e := decomp L l hl
  have h := cut_aux O v (L.take l) (L.drop (l + 2)) L[l] L[l + 1] (by rw [← e]; exact hs) hne
  rw [← e] at h
  rw [h.1, h.2]
  simp
  omega

/-! ### `compute_all_splits` writes admissible targets only -/

/-- The pair of targets of split `b` is one of the four kinds that `compute_all_splits` produces for a leaf of
    cluster `k` when there are `nC` clusters and at most `Kmax` are allowed; `outside` stands for "cluster `k` has a
    sample outside the leaf". -/
structure TargetsOK (nC Kmax k : Nat) (outside : Prop) (b : Split α) : Prop where
  left_nonneg : 0 ≤ b.left
  right_nonneg : 0 ≤ b.right
  ne : b.left ≠ b.right
  targets :
    (b.left = nC ∧ b.right = nC + 1 ∧ nC + 2 ≤ Kmax) ∨ (b.left = nC ∧ b.right = k ∧ nC + 1 ≤ Kmax) ∨
    (b.left = k ∧ b.right = nC ∧ nC + 1 ≤ Kmax) ∨ (b.left < nC ∧ b.right < nC)
  keeps : b.left = k ∨ b.right = k ∨ outside

/-- `b` is a split written for candidate `c` -/
structure CandSplit (c : Cand α) (outside : Prop) (b : Split α) : Prop where
  leaf : b.leaf = c.leaf_id
  feature : b.feature = c.feature_id
  threshold : b.threshold = c.threshold
  targets : TargetsOK c.n_clusters c.K_max c.k outside b

/-- the double-star block -/
def stageDS (best : Split α) (c : Cand α) : Split α :=
  if c.n_clusters + 1 < c.K_max && c.n_leaf != c.cluster_sizes c.k then
    let g := c.app Gen.Kauri.doubleStar c.k
    if lt best.gain g then best.set c g c.n_clusters (c.n_clusters + 1) else best
  else best

/-- the single-star block -/
def stageStar (best : Split α) (c : Cand α) : Split α :=
  if c.n_clusters < c.K_max then
    let l := c.app Gen.Kauri.leftStar c.k
    let r := c.app Gen.Kauri.rightStar c.k
    if lt best.gain l || lt best.gain r then
      if lt r l then best.set c l c.n_clusters c.k else best.set c r c.k c.n_clusters
    else best
  else best

/-- the choice of the pair of reallocation targets -/
def reallocRef (t : Top2 α) : NegInf α × Int × Int :=
  if t.topKL != t.topKR then (addN t.topGL t.topGR, t.topKL, t.topKR)
  else if gtN (addN t.topGL t.secGR) (addN t.topGR t.secGL) then (addN t.topGL t.secGR, t.topKL, t.secKR)
  else (addN t.topGR t.secGL, t.secKL, t.topKR)

/-- the reallocation block -/
def stageRealloc (t : Top2 α) (best : Split α) (c : Cand α) : Split α :=
  if c.n_clusters ≥ 3 && c.n_leaf != c.cluster_sizes c.k then
    let corr := c.app Gen.Kauri.corrective c.k
    let (ref, kl, kr) : NegInf α × Int × Int := reallocRef t
    match ref with
    | some r =>
      if lt best.gain (r + corr) then
        { gain := r + corr, leaf := c.leaf_id, left := kl, right := kr, feature := c.feature_id,
          threshold := c.threshold }
      else best
    | none => best
  else best

/-- the switch and reallocation blocks -/
def stageSwitch (best : Split α) (c : Cand α) : Split α :=
  if c.n_clusters ≥ 2 then
    let (t, best) := (List.range c.n_clusters).foldl (switchStep c) (({} : Top2 α), best)
    stageRealloc t best c
  else best

theorem computeAllSplits_eq (best : Split α) (c : Cand α) :
    computeAllSplits best c = stageSwitch (stageStar (stageDS best c) c) c := by
  unfold computeAllSplits stageSwitch stageRealloc reallocRef stageStar stageDS
  rfl

section stages
variable {outside : Prop} (P : Split α → Prop) (c : Cand α)

theorem targetsOK_doubleStar (best : Split α) (g : α) (h : c.n_clusters + 1 < c.K_max) (hout : outside) :
    TargetsOK c.n_clusters c.K_max c.k outside (best.set c g c.n_clusters (c.n_clusters + 1)) := by
  refine ⟨?_, ?_, ?_, Or.inl ⟨rfl, rfl, by omega⟩, Or.inr (Or.inr hout)⟩ <;> simp only [Split.set] <;> omega

theorem targetsOK_leftStar (best : Split α) (g : α) (h : c.n_clusters < c.K_max) (hk : c.k < c.n_clusters) :
    TargetsOK c.n_clusters c.K_max c.k outside (best.set c g c.n_clusters c.k) := by
  refine ⟨?_, ?_, ?_, Or.inr (Or.inl ⟨rfl, rfl, by omega⟩), Or.inr (Or.inl rfl)⟩ <;> simp only [Split.set] <;> omega

theorem targetsOK_rightStar (best : Split α) (g : α) (h : c.n_clusters < c.K_max) (hk : c.k < c.n_clusters) :
    TargetsOK c.n_clusters c.K_max c.k outside (best.set c g c.k c.n_clusters) := by
  refine ⟨?_, ?_, ?_, Or.inr (Or.inr (Or.inl ⟨rfl, rfl, by omega⟩)), Or.inl rfl⟩ <;> simp only [Split.set] <;> omega

theorem targetsOK_leftSwitch (best : Split α) (g : α) (q : Nat) (hq : q < c.n_clusters) (hne : c.k ≠ q)
    (hk : c.k < c.n_clusters) : TargetsOK c.n_clusters c.K_max c.k outside (best.set c g q c.k) := by
  refine ⟨?_, ?_, ?_, Or.inr (Or.inr (Or.inr ⟨?_, ?_⟩)), Or.inr (Or.inl rfl)⟩ <;> simp only [Split.set] <;> omega

theorem targetsOK_rightSwitch (best : Split α) (g : α) (q : Nat) (hq : q < c.n_clusters) (hne : c.k ≠ q)
    (hk : c.k < c.n_clusters) : TargetsOK c.n_clusters c.K_max c.k outside (best.set c g c.k q) := by
  refine ⟨?_, ?_, ?_, Or.inr (Or.inr (Or.inr ⟨?_, ?_⟩)), Or.inl rfl⟩ <;> simp only [Split.set] <;> omega

variable {P} {c}

theorem stageDS_ind (best : Split α) (hout : c.n_leaf ≠ c.cluster_sizes c.k → outside) (hP : P best)
    (hc : ∀ b, CandSplit c outside b → P b) : P (stageDS best c) := by
  unfold stageDS
  split
  · rename_i h
    simp only [Bool.and_eq_true, decide_eq_true_eq, bne_iff_ne, ne_eq] at h
    dsimp only
    split
    · exact hc _ ⟨rfl, rfl, rfl, targetsOK_doubleStar c best _ h.1 (hout h.2)⟩
    · exact hP
  · exact hP

theorem stageStar_ind (best : Split α) (hk : c.k < c.n_clusters) (hP : P best)
    (hc : ∀ b, CandSplit c outside b → P b) : P (stageStar best c) := by
  unfold stageStar
  split
  · rename_i h
    dsimp only
    split
    · split
      · exact hc _ ⟨rfl, rfl, rfl, targetsOK_leftStar c best _ h hk⟩
      · exact hc _ ⟨rfl, rfl, rfl, targetsOK_rightStar c best _ h hk⟩
    · exact hP
  · exact hP

end stages

/-! ### the top-2 tracking of the `k_prime` loop -/

/-- Invariant of one side (left or right) of the top-2 tracking after the clusters `0 .. m-1` have been visited:
    a tracked index that goes with a finite gain is a visited cluster id other than `k`; the two tracked indices
    differ. -/
structure Side (m k : Nat) (tg sg : NegInf α) (tk sk : Int) : Prop where
  top_nonneg : tg.isSome = true → 0 ≤ tk
  sec_nonneg : sg.isSome = true → 0 ≤ sk
  sec_top : sg.isSome = true → tg.isSome = true
  top_lt : tk < m
  sec_lt : sk < m
  top_ne : tk ≠ k
  sec_ne : sk ≠ k
  ne : sg.isSome = true → sk ≠ tk

theorem Side.init (m k : Nat) : Side (α := α) m k none none (-1) (-1) :=
  ⟨by simp, by simp, by simp, by omega, by omega, by omega, by omega, by simp⟩

theorem Side.top {m k : Nat} {tg sg : NegInf α} {tk sk : Int} (h : Side m k tg sg tk sk) (x : α) (hne : k ≠ m) :
    Side (m + 1) k (some x) tg m tk :=
  ⟨fun _ => by omega, h.top_nonneg, fun _ => rfl, by omega, by have := h.top_lt; omega, by omega, h.top_ne,
    fun _ => by have := h.top_lt; omega⟩

theorem Side.sec {m k : Nat} {tg sg : NegInf α} {tk sk : Int} (h : Side m k tg sg tk sk) (x : α) (hne : k ≠ m)
    (htg : tg.isSome = true) : Side (m + 1) k tg (some x) tk m :=
  ⟨h.top_nonneg, fun _ => by omega, fun _ => htg, by have := h.top_lt; omega, by omega, h.top_ne, by omega,
    fun _ => by have := h.top_lt; omega⟩

theorem Side.mono {m k : Nat} {tg sg : NegInf α} {tk sk : Int} (h : Side m k tg sg tk sk) :
    Side (m + 1) k tg sg tk sk :=
  ⟨h.top_nonneg, h.sec_nonneg, h.sec_top, by have := h.top_lt; omega, by have := h.sec_lt; omega, h.top_ne, h.sec_ne,
    h.ne⟩

theorem isSome_of_not_geN {x : α} {o : NegInf α} (h : ¬ geN x o = true) : o.isSome = true := by
  cases o with
  | none => exact absurd rfl h
  | some y => rfl

/-- the update of one side in `switchStep` -/
theorem Side.step {m k : Nat} {tg sg : NegInf α} {tk sk : Int} (h : Side m k tg sg tk sk) (x : α) (hne : k ≠ m) :
    Side (m + 1) k
      (if geN x tg then some x else tg)
      (if geN x tg then tg else if geN x sg then some x else sg)
      (if geN x tg then (m : Int) else tk)
      (if geN x tg then tk else if geN x sg then (m : Int) else sk) := by
  by_cases h1 : geN x tg = true
  · simp only [h1, if_true]; exact h.top x hne
  · simp only [h1]
    by_cases h2 : geN x sg = true
    · simp only [h2, if_true]; exact h.sec x hne (isSome_of_not_geN h1)
    · simp only [h2]; exact h.mono

/-- both sides -/
structure TopInv (m k : Nat) (t : Top2 α) : Prop where
  L : Side m k t.topGL t.secGL t.topKL t.secKL
  R : Side m k t.topGR t.secGR t.topKR t.secKR

theorem TopInv.init (k : Nat) : TopInv (α := α) 0 k {} := ⟨Side.init 0 k, Side.init 0 k⟩

theorem switchStep_ind {outside : Prop} {P : Split α → Prop} {c : Cand α} (m : Nat) (t : Top2 α) (best : Split α)
    (hm : m < c.n_clusters) (hk : c.k < c.n_clusters) (ht : TopInv m c.k t) (hP : P best)
    (hc : ∀ b, CandSplit c outside b → P b) :
    TopInv (m + 1) c.k (switchStep c (t, best) m).1 ∧ P (switchStep c (t, best) m).2 := by
  unfold switchStep
  by_cases hkm : c.k = m
  · rw [if_pos hkm]
    exact ⟨⟨ht.L.mono, ht.R.mono⟩, hP⟩
  · rw [if_neg hkm]
    dsimp only
    refine ⟨⟨?_, ?_⟩, ?_⟩
    · have := ht.L.step (c.app Gen.Kauri.leftSwitch m) hkm
      split <;> [skip; split] <;> split <;> [skip; split; skip; split; skip; split] <;> simp_all
    · have := ht.R.step (c.app Gen.Kauri.rightSwitch m) hkm
      split <;> [skip; split] <;> split <;> [skip; split; skip; split; skip; split] <;> simp_all
    · split
      · split
        · exact hc _ ⟨rfl, rfl, rfl, targetsOK_leftSwitch c best _ m hm hkm hk⟩
        · exact hc _ ⟨rfl, rfl, rfl, targetsOK_rightSwitch c best _ m hm hkm hk⟩
      · exact hP

theorem addN_some {a b : NegInf α} {r : α} (h : addN a b = some r) : a.isSome = true ∧ b.isSome = true := by
  cases a <;> cases b <;> simp_all [addN]

/-- the reallocation targets that go with a finite reference gain are two different visited cluster ids -/
theorem reallocRef_ok {m k : Nat} {t : Top2 α} (ht : TopInv m k t) {r : α} {kl kr : Int}
    (h : reallocRef t = (some r, kl, kr)) : 0 ≤ kl ∧ 0 ≤ kr ∧ kl < m ∧ kr < m ∧ kl ≠ kr := by
  unfold reallocRef at h
  split at h
  · rename_i hne
    simp only [Prod.mk.injEq] at h
    obtain ⟨h1, rfl, rfl⟩ := h
    obtain ⟨ha, hb⟩ := addN_some h1
    exact ⟨ht.L.top_nonneg ha, ht.R.top_nonneg hb, ht.L.top_lt, ht.R.top_lt, by simpa using hne⟩
  · rename_i heq
    have heq : t.topKL = t.topKR := by simpa using heq
    split at h
    · simp only [Prod.mk.injEq] at h
      obtain ⟨h1, rfl, rfl⟩ := h
      obtain ⟨ha, hb⟩ := addN_some h1
      exact ⟨ht.L.top_nonneg ha, ht.R.sec_nonneg hb, ht.L.top_lt, ht.R.sec_lt,
        fun e => ht.R.ne hb (by rw [← e, heq])⟩
    · simp only [Prod.mk.injEq] at h
      obtain ⟨h1, rfl, rfl⟩ := h
      obtain ⟨ha, hb⟩ := addN_some h1
      exact ⟨ht.L.sec_nonneg hb, ht.R.top_nonneg ha, ht.L.sec_lt, ht.R.top_lt,
        fun e => ht.L.ne hb (by rw [e, heq])⟩

theorem stageRealloc_ind {outside : Prop} {P : Split α → Prop} {c : Cand α} (t : Top2 α) (best : Split α)
    (ht : TopInv c.n_clusters c.k t) (hout : c.n_leaf ≠ c.cluster_sizes c.k → outside) (hP : P best)
    (hc : ∀ b, CandSplit c outside b → P b) : P (stageRealloc t best c) := by
  unfold stageRealloc
  split
  · rename_i h
    simp only [Bool.and_eq_true, decide_eq_true_eq, bne_iff_ne, ne_eq] at h
    dsimp only
    rcases hr : reallocRef t with ⟨ref, kl, kr⟩
    cases ref with
    | none => exact hP
    | some r =>
      dsimp only
      obtain ⟨h1, h2, h3, h4, h5⟩ := reallocRef_ok ht hr
      split
      · exact hc _ ⟨rfl, rfl, rfl, ⟨h1, h2, h5, Or.inr (Or.inr (Or.inr ⟨h3, h4⟩)), Or.inr (Or.inr (hout h.2))⟩⟩
      · exact hP
  · exact hP

theorem stageSwitch_ind {outside : Prop} {P : Split α → Prop} {c : Cand α} (best : Split α)
    (hk : c.k < c.n_clusters) (hout : c.n_leaf ≠ c.cluster_sizes c.k → outside) (hP : P best)
    (hc : ∀ b, CandSplit c outside b → P b) : P (stageSwitch best c) := by
  unfold stageSwitch
  split
  · have key := foldl_range_inv (fun m (st : Top2 α × Split α) => TopInv m c.k st.1 ∧ P st.2) (switchStep c)
      (({} : Top2 α), best) c.n_clusters ⟨TopInv.init c.k, hP⟩
      (fun m st hm hst => switchStep_ind m st.1 st.2 hm hk hst.1 hst.2 hc)
    exact stageRealloc_ind _ _ key.1 hout key.2 hc
  · exact hP

/-- Induction principle for `compute_all_splits`: a property of the running best split that holds before the call and
    holds for every split written for the candidate `c` with an admissible target pair, holds after the call. -/
theorem computeAllSplits_ind {outside : Prop} {P : Split α → Prop} {c : Cand α} (best : Split α)
    (hk : c.k < c.n_clusters) (hout : c.n_leaf ≠ c.cluster_sizes c.k → outside) (hP : P best)
    (hc : ∀ b, CandSplit c outside b → P b) : P (computeAllSplits best c) := by
  rw [computeAllSplits_eq]
  exact stageSwitch_ind _ hk hout (stageStar_ind _ hk (stageDS_ind _ hout hP hc) hc) hc

/-! ### induction through the three loops of `find_best_split` -/

/-- the array `nu` of `find_best_split` for leaf `j` and feature `f` -/
def nuArr (X : Nat → Nat → α) (a : Assign) (j f : Nat) : Array Nat :=
  (nuList X (a.samplesOfLeaf j) f).toArray

/-- Induction principle for `find_best_split`: a property of the running best split that holds for
    `Split(0, -1, -1, -1, -1, 0)` and is preserved by every call of `compute_all_splits` the scan makes, holds for the
    result.  The hypotheses of the step record everything the scan guarantees about the candidate: the leaf `j` is to be
    explored, `f` is a drawn feature, the position `l` passed the `min_samples_leaf` window and the equal-value skip,
    and the candidate carries `j`, `f`, the threshold `X[nu[l], f]`, the leaf size, the cluster of the leaf and the
    cluster sizes. -/
theorem findBestSplit_ind (κ X : Nat → Nat → α) (toExplore : List Nat) (a : Assign)
    (nClusters K_max nLeaves minLeaf : Nat) (features : List Nat) (P : Split α → Prop) (h0 : P Split.init)
    (hstep : ∀ (best : Split α) (c : Cand α) (j f l : Nat), j ∈ toExplore → f ∈ features →
      l + 1 < (a.samplesOfLeaf j).length → minLeaf ≤ l + 1 → l + minLeaf + 1 ≤ (a.samplesOfLeaf j).length →
      beq (X (nuArr X a j f)[l]! f) (X (nuArr X a j f)[l + 1]! f) = false →
      c.leaf_id = j → c.feature_id = f → c.threshold = X (nuArr X a j f)[l]! f →
      c.n_leaf = (a.samplesOfLeaf j).length → c.n_clusters = nClusters → c.K_max = K_max →
      c.k = a.clusterOf[j]! → (∀ q, q < nClusters → c.cluster_sizes q = (a.samplesOfCluster nLeaves q).length) →
      P best → P (computeAllSplits best c)) :
    P (findBestSplit κ X toExplore a nClusters K_max nLeaves minLeaf features) := by
  unfold findBestSplit
  refine foldl_inv P _ _ _ h0 ?_
  intro best j hj hbest
  refine foldl_inv P _ _ _ hbest ?_
  intro best f hf hbest
  refine foldl_inv (fun s : Scan α => P s.best) _ _ _ hbest ?_
  intro s l hl hs
  have hl : l + 1 < (a.samplesOfLeaf j).length := by
    have := List.mem_range.1 hl; omega
  dsimp only
  split
  · exact hs
  · rename_i hwin
    split
    · exact hs
    · rename_i hbeq
      simp only [Bool.or_eq_true, decide_eq_true_eq, not_or, Nat.not_lt, gt_iff_lt] at hwin
      refine hstep _ _ j f l hj hf hl hwin.1 (by omega) (eq_false_of_ne_true hbeq) rfl rfl rfl rfl rfl rfl rfl ?_ hs
      intro q hq
      simp [hq]

/-! ### assembly: `SplitOK` for every split the scan can report -/

theorem nuArr_get (X : Nat → Nat → α) (a : Assign) (j f m : Nat) (hm : m < (nuList X (a.samplesOfLeaf j) f).length) :
    (nuArr X a j f)[m]! = (nuList X (a.samplesOfLeaf j) f)[m] := by
  simp [nuArr, hm]

/-- `n_leaf != cluster_sizes[k]`: cluster `k` of leaf `j` has a sample outside leaf `j` -/
theorem exists_outside (a : Assign) (nLeaves j : Nat) (hj : j < nLeaves)
    (hne : (a.samplesOfLeaf j).length ≠ (a.samplesOfCluster nLeaves a.clusterOf[j]!).length) :
    ∃ i, i < a.n ∧ a.leafOf[i]! ≠ j ∧ a.clusterOfSample i = a.clusterOf[j]! := by
  by_contra hcon
  apply hne
  unfold Assign.samplesOfLeaf Assign.samplesOfCluster
  congr 1
  apply List.filter_congr
  intro i hi
  have hi : i < a.n := List.mem_range.1 hi
  by_cases h : a.leafOf[i]! = j
  · simp [h, hj, Assign.clusterOfSample]
  · have h2 : ¬ a.clusterOfSample i = a.clusterOf[j]! := fun e => hcon ⟨i, hi, h, e⟩
    have e1 : (a.leafOf[i]! == j) = false := by simpa using h
    have e2 : (a.clusterOfSample i == a.clusterOf[j]!) = false := by simpa using h2
    rw [e1, e2, Bool.and_false]

/-- the sizes of the two children of an evaluated cut -/
theorem idx_lengths (O : OrderLaws α) (X : Nat → Nat → α) (s : FitState α) (b : Split α) (j f l : Nat)
    (hleaf : b.leaf = j) (hfeat : b.feature = f) (hl : l + 1 < (s.asg.samplesOfLeaf j).length)
    (hthr : b.threshold = X (nuArr X s.asg j f)[l]! f)
    (hbeq : beq (X (nuArr X s.asg j f)[l]! f) (X (nuArr X s.asg j f)[l + 1]! f) = false) :
    (leftIdx X s b).length = l + 1 ∧ (rightIdx X s b).length = (s.asg.samplesOfLeaf j).length - (l + 1) ∧
      (nuArr X s.asg j f)[l]! ∈ s.asg.samplesOfLeaf j := by
  have hperm := nuList_perm X (s.asg.samplesOfLeaf j) f
  have hlen := hperm.length_eq
  have hl' : l + 1 < (nuList X (s.asg.samplesOfLeaf j) f).length := by omega
  have g0 := nuArr_get X s.asg j f l (by omega)
  have g1 := nuArr_get X s.asg j f (l + 1) hl'
  rw [g0, g1] at hbeq
  rw [g0] at hthr ⊢
  have hcut := cut_filter O (fun i => X i f) _ l hl' (nuList_sorted O X _ f) hbeq
  have eL : leftIdx X s b = (s.asg.samplesOfLeaf j).filter fun i =>
      le (X i f) (X (nuList X (s.asg.samplesOfLeaf j) f)[l] f) := by
    unfold leftIdx members goesLeft
    rw [hleaf, hfeat, hthr]
    simp only [Int.toNat_natCast]
  have eR : rightIdx X s b = (s.asg.samplesOfLeaf j).filter fun i =>
      !(le (X i f) (X (nuList X (s.asg.samplesOfLeaf j) f)[l] f)) := by
    unfold rightIdx members goesLeft
    rw [hleaf, hfeat, hthr]
    simp only [Int.toNat_natCast]
  refine ⟨?_, ?_, hperm.mem_iff.1 (List.getElem_mem _)⟩
  · rw [eL, ← (hperm.filter _).length_eq]; exact hcut.1
  · rw [eR, ← (hperm.filter _).length_eq, ← hlen]; exact hcut.2

theorem ne_nil_of_length_pos {β : Type} {l : List β} (h : 0 < l.length) : l ≠ [] := by
  intro e; rw [e] at h; exact Nat.lt_irrefl _ h

/-- every split written by `compute_all_splits` for a candidate of the scan meets the post-condition -/
theorem splitOK_of_cand (O : OrderLaws α) {X : Nat → Nat → α} {p : Params} {s : FitState α} (c : Cand α) (b : Split α)
    (j f l : Nat) (hj : j ∈ s.toExplore) (hl : l + 1 < (s.asg.samplesOfLeaf j).length) (hw1 : p.minLeaf ≤ l + 1)
    (hw2 : l + p.minLeaf + 1 ≤ (s.asg.samplesOfLeaf j).length)
    (hbeq : beq (X (nuArr X s.asg j f)[l]! f) (X (nuArr X s.asg j f)[l + 1]! f) = false)
    (e1 : c.leaf_id = j) (e2 : c.feature_id = f) (e3 : c.threshold = X (nuArr X s.asg j f)[l]! f)
    (e5 : c.n_clusters = s.nClusters) (e6 : c.K_max = p.maxClusters) (e7 : c.k = s.asg.clusterOf[j]!)
    (hb : CandSplit c (∃ i, i < s.asg.n ∧ s.asg.leafOf[i]! ≠ j ∧ s.asg.clusterOfSample i = s.asg.clusterOf[j]!) b) :
    SplitOK X p s b := by
  have hleaf : b.leaf = j := by rw [hb.leaf, e1]
  have hfeat : b.feature = f := by rw [hb.feature, e2]
  have hthr : b.threshold = X (nuArr X s.asg j f)[l]! f := by rw [hb.threshold, e3]
  have hjn : b.leaf.toNat = j := by rw [hleaf]; exact Int.toNat_natCast j
  have hfn : b.feature.toNat = f := by rw [hfeat]; exact Int.toNat_natCast f
  obtain ⟨hL, hR, hmem⟩ := idx_lengths O X s b j f l hleaf hfeat hl hthr hbeq
  have ht := hb.targets
  rw [e5, e6, e7] at ht
  refine { leaf_nonneg := by omega, leaf_mem := by rw [hjn]; exact hj, feature_nonneg := by omega,
           left_nonneg := ht.left_nonneg, right_nonneg := ht.right_nonneg, targets_ne := ht.ne,
           targets := by rw [hjn]; exact ht.targets, keeps_cluster := by rw [hjn]; exact ht.keeps,
           left_size := by omega, right_size := by omega,
           left_nonempty := ne_nil_of_length_pos (by omega), right_nonempty := ne_nil_of_length_pos (by omega),
           threshold_obs := ⟨_, by unfold members; rw [hjn]; exact hmem, by rw [hfn]; exact hthr⟩ }

/-- `FindBestSplitSpec` holds over every number type with totally ordered comparisons. -/
theorem findBestSplitSpec_of_laws (O : OrderLaws α) (κ X : Nat → Nat → α) (p : Params) : FindBestSplitSpec κ X p := by
  intro s features hF _ hpos
  have key : (fun b : Split α => b = Split.init ∨ SplitOK X p s b)
      (findBestSplit κ X s.toExplore s.asg s.nClusters p.maxClusters s.nLeaves p.minLeaf features) := by
    refine findBestSplit_ind κ X _ _ _ _ _ _ _ (fun b : Split α => b = Split.init ∨ SplitOK X p s b) (Or.inl rfl) ?_
    · intro best c j f l hj _ hl hw1 hw2 hbeq e1 e2 e3 e4 e5 e6 e7 e8 hP
      have hjl := hF.inv.explore_lt j hj
      have hkl := hF.inv.clusterOf_lt j hjl
      refine computeAllSplits_ind (P := fun b : Split α => b = Split.init ∨ SplitOK X p s b)
        (outside := ∃ i, i < s.asg.n ∧ s.asg.leafOf[i]! ≠ j ∧ s.asg.clusterOfSample i = s.asg.clusterOf[j]!)
        best ?_ ?_ hP ?_
      · rw [e7, e5]; exact hkl
      · intro hne
        rw [e4, e7, e8 _ hkl] at hne
        exact exists_outside _ _ _ hjl hne
      · intro b hb
        exact Or.inr (splitOK_of_cand O c b j f l hj hl hw1 hw2 hbeq e1 e2 e3 e5 e6 e7 hb)
  rcases key with h | h
  · rw [h] at hpos
    have : lt (0 : α) 0 = true := hpos
    rw [O.lt_zero_zero] at this
    exact absurd this (by decide)
  · exact h

/-! ### the two number types -/

theorem orderLaws_real : OrderLaws ℝ where
  le_total a b h := by
    simp only [RealLike.le_real, decide_eq_false_iff_not, not_le, decide_eq_true_eq] at h ⊢
    exact le_of_lt h
  le_trans a b c h1 h2 := by
    simp only [RealLike.le_real, decide_eq_true_eq] at h1 h2 ⊢
    exact le_trans h1 h2
  le_antisymm a b h1 h2 := by
    simp only [RealLike.le_real, RealLike.beq_real, decide_eq_true_eq] at h1 h2 ⊢
    exact le_antisymm h1 h2
  lt_zero_zero := by simp

theorem orderLaws_rat : OrderLaws ℚ where
  le_total a b h := by
    have h : ¬ a ≤ b := by simpa [RealLike.le] using h
    have : b ≤ a := le_of_lt (not_le.1 h)
    simpa [RealLike.le] using this
  le_trans a b c h1 h2 := by
    have h1 : a ≤ b := by simpa [RealLike.le] using h1
    have h2 : b ≤ c := by simpa [RealLike.le] using h2
    simpa [RealLike.le] using le_trans h1 h2
  le_antisymm a b h1 h2 := by
    have h1 : a ≤ b := by simpa [RealLike.le] using h1
    have h2 : b ≤ a := by simpa [RealLike.le] using h2
    simpa [RealLike.beq] using le_antisymm h1 h2
  lt_zero_zero := by simp [RealLike.lt]

end GemVerif.KauriSpec
