/-
  Helper lemmas for the Douglas theorems (C15), part 2: the arg-max bin of the soft binning is the
  number of cut points below the value (every temperature), quantitative bound, limit `T → 0⁺`.
-/
import GemVerif.Lemmas.Douglas
import Mathlib.Topology.Order.Basic
import Mathlib.Analysis.SpecialFunctions.Exp
import Mathlib.Topology.Algebra.Order.Field

namespace GemVerif.Douglas
open scoped BigOperators Topology
open GemVerif Model.Douglas Filter

/-- number of cut points strictly below `x`: the cell of `x` along the feature -/
noncomputable def cell (x : ℝ) (cuts : List ℝ) : ℕ := cuts.countP fun c => decide (c < x)

theorem cell_le_length (x : ℝ) (cuts : List ℝ) : cell x cuts ≤ cuts.length := List.countP_le_length

theorem cell_perm {c₁ c₂ : List ℝ} (h : c₁.Perm c₂) (x : ℝ) : cell x c₁ = cell x c₂ := h.countP_eq _

theorem cell_sortedCuts (x : ℝ) (cuts : List ℝ) : cell x (sortedCuts cuts) = cell x cuts :=
  cell_perm (sortedCuts_perm cuts) x

section sorted
variable {x g : ℝ} {s : List ℝ} (hs : s.Pairwise (· ≤ ·)) (hg : ∀ c ∈ s, g ≤ |x - c|)
include hs hg

/-- walking down from the cell, every step loses at least `g` -/
theorem lg_down : ∀ m : ℕ, m ≤ cell x s → lg x s (cell x s - m) + m * g ≤ lg x s (cell x s)
  | 0, _ => by simp
  | m + 1, hm => by
    have ih := lg_down m (by omega)
    have hj : cell x s - (m + 1) < s.length := by have := cell_le_length x s; omega
    have hstep := lg_succ_sub x s _ hj
    have hlt : s[cell x s - (m + 1)] < x := ((sorted_split x s hs _ hj).1 (by unfold cell at hm ⊢; omega))
    have hgap := hg _ (List.getElem_mem hj)
    rw [abs_of_pos (sub_pos.mpr hlt)] at hgap
    have he : cell x s - (m + 1) + 1 = cell x s - m := by omega
    rw [he] at hstep
    push_cast
    linarith

/-- walking up from the cell, every step loses at least `g` -/
theorem lg_up : ∀ m : ℕ, cell x s + m ≤ s.length → lg x s (cell x s + m) + m * g ≤ lg x s (cell x s)
  | 0, _ => by simp
  | m + 1, hm => by
    have ih := lg_up m (by omega)
    have hj : cell x s + m < s.length := by omega
    have hstep := lg_succ_sub x s _ hj
    have hge : x ≤ s[cell x s + m] := ((sorted_split x s hs _ hj).2 (by unfold cell; omega))
    have hgap := hg _ (List.getElem_mem hj)
    rw [abs_of_nonpos (sub_nonpos.mpr hge)] at hgap
    rw [← add_assoc]
    push_cast
    linarith

/-- every other bin has a logit at least `g` below the logit of the cell -/
theorem lg_gap (hg0 : 0 ≤ g) {j : ℕ} (hj : j ≤ s.length) (hne : j ≠ cell x s) :
    lg x s j + g ≤ lg x s (cell x s) := by
  rcases lt_or_gt_of_ne hne with h | h
  · have := lg_down hs hg (cell x s - j) (by omega)
    have he : cell x s - (cell x s - j) = j := by omega
    rw [he] at this
    have h1 : (1 : ℝ) ≤ ((cell x s - j : ℕ) : ℝ) := by exact_mod_cast (by omega : 1 ≤ cell x s - j)
    nlinarith
  · have := lg_up hs hg (j - cell x s) (by omega)
    have he : cell x s + (j - cell x s) = j := by omega
    rw [he] at this
    have h1 : (1 : ℝ) ≤ ((j - cell x s : ℕ) : ℝ) := by exact_mod_cast (by omega : 1 ≤ j - cell x s)
    nlinarith

end sorted

/-- a strictly positive distance separates `x` from finitely many cut points different from it -/
theorem exists_gap (x : ℝ) : ∀ cuts : List ℝ, (∀ c ∈ cuts, x ≠ c) → ∃ g : ℝ, 0 < g ∧ ∀ c ∈ cuts, g ≤ |x - c|
  | [], _ => ⟨1, one_pos, by simp⟩
  | a :: t, h => by
    obtain ⟨g, hg0, hg⟩ := exists_gap x t fun c hc => h c (List.mem_cons_of_mem _ hc)
    have ha : 0 < |x - a| := abs_pos.mpr (sub_ne_zero.mpr (h a (List.mem_cons_self)))
    refine ⟨min g |x - a|, lt_min hg0 ha, fun c hc => ?_⟩
    rcases List.mem_cons.mp hc with rfl | hc
    · exact min_le_right _ _
    · exact le_trans (min_le_left _ _) (hg c hc)

/-! ### membership of the cell's bin -/

/-- membership of bin `j` -/
noncomputable def memb (T x : ℝ) (cuts : List ℝ) (j : ℕ) : ℝ := (binning T x cuts).getD j 0

theorem memb_eq (T x : ℝ) (cuts : List ℝ) {j : ℕ} (hj : j ≤ cuts.length) :
    memb T x cuts j = Real.exp (lg x (sortedCuts cuts) j / T) / Z T x (sortedCuts cuts) :=
  binning_getD T x cuts j hj

theorem memb_lt_of_lg_lt {T x : ℝ} (hT : 0 < T) (cuts : List ℝ) {j k : ℕ} (hj : j ≤ cuts.length)
    (hk : k ≤ cuts.length) (h : lg x (sortedCuts cuts) j < lg x (sortedCuts cuts) k) :
    memb T x cuts j < memb T x cuts k := by
  rw [memb_eq T x cuts hj, memb_eq T x cuts hk]
  exact div_lt_div_of_pos_right (Real.exp_lt_exp.mpr (div_lt_div_of_pos_right h hT)) (Z_pos _ _ _)

/-- the gap hypothesis transported to the sorted cuts -/
theorem gap_sorted {x g : ℝ} {cuts : List ℝ} (hg : ∀ c ∈ cuts, g ≤ |x - c|) :
    ∀ c ∈ sortedCuts cuts, g ≤ |x - c| :=
  fun c hc => hg c ((sortedCuts_perm cuts).mem_iff.mp hc)

theorem lg_gap_cuts {x g : ℝ} {cuts : List ℝ} (hg : ∀ c ∈ cuts, g ≤ |x - c|) (hg0 : 0 ≤ g) {j : ℕ}
    (hj : j ≤ cuts.length) (hne : j ≠ cell x cuts) :
    lg x (sortedCuts cuts) j + g ≤ lg x (sortedCuts cuts) (cell x cuts) := by
  have := lg_gap (sortedCuts_sorted cuts) (gap_sorted hg) hg0 (j := j)
    (by rw [sortedCuts_length]; exact hj) (by rw [cell_sortedCuts]; exact hne)
  rwa [cell_sortedCuts] at this

/-- normalising constant: at most `exp(ℓ_k/T) · (1 + n·exp(−g/T))` -/
theorem Z_le {T x g : ℝ} (hT : 0 < T) {cuts : List ℝ} (hg : ∀ c ∈ cuts, g ≤ |x - c|) (hg0 : 0 ≤ g) :
    Z T x (sortedCuts cuts) ≤
      Real.exp (lg x (sortedCuts cuts) (cell x cuts) / T) * (1 + cuts.length * Real.exp (-g / T)) := by
  have hk : cell x cuts ∈ Finset.range ((sortedCuts cuts).length + 1) := by
    rw [Finset.mem_range, sortedCuts_length]; have := cell_le_length x cuts; omega
  unfold Z
  rw [← Finset.add_sum_erase _ _ hk, mul_add, mul_one]
  refine add_le_add le_rfl ?_
  have hcard : ((Finset.range ((sortedCuts cuts).length + 1)).erase (cell x cuts)).card = cuts.length := by
    rw [Finset.card_erase_of_mem hk, Finset.card_range, sortedCuts_length]; rfl
  calc ∑ i ∈ (Finset.range ((sortedCuts cuts).length + 1)).erase (cell x cuts), Real.exp (lg x (sortedCuts cuts) i / T)
      ≤ ∑ _i ∈ (Finset.range ((sortedCuts cuts).length + 1)).erase (cell x cuts),
          Real.exp (lg x (sortedCuts cuts) (cell x cuts) / T) * Real.exp (-g / T) := by
        refine Finset.sum_le_sum fun i hi => ?_
        rw [← Real.exp_add]
        refine Real.exp_le_exp.mpr ?_
        have hi' := Finset.mem_erase.mp hi
        have hle := lg_gap_cuts hg hg0 (j := i)
          (by have := Finset.mem_range.mp hi'.2; rw [sortedCuts_length] at this; omega) hi'.1
        rw [← add_div]
        exact div_le_div_of_nonneg_right (by linarith) hT.le
    _ = Real.exp (lg x (sortedCuts cuts) (cell x cuts) / T) * (cuts.length * Real.exp (-g / T)) := by
        rw [Finset.sum_const, hcard, nsmul_eq_mul]; ring

/-- membership of the cell's bin is at least `1 − n_cuts · exp(−gap / T)` -/
theorem memb_cell_ge {T x g : ℝ} (hT : 0 < T) {cuts : List ℝ} (hg : ∀ c ∈ cuts, g ≤ |x - c|) (hg0 : 0 ≤ g) :
    1 - cuts.length * Real.exp (-g / T) ≤ memb T x cuts (cell x cuts) := by
  rw [memb_eq T x cuts (cell_le_length x cuts), le_div_iff₀ (Z_pos _ _ _)]
  have hZ := Z_le hT hg hg0
  set E := Real.exp (lg x (sortedCuts cuts) (cell x cuts) / T) with hE
  set a := (cuts.length : ℝ) * Real.exp (-g / T) with ha
  have hEpos : 0 < E := Real.exp_pos _
  have ha0 : 0 ≤ a := mul_nonneg (Nat.cast_nonneg _) (Real.exp_pos _).le
  have hZpos := Z_pos T x (sortedCuts cuts)
  by_cases h1 : 1 - a ≤ 0
  · nlinarith
  · have h1 := not_le.mp h1
    calc (1 - a) * Z T x (sortedCuts cuts) ≤ (1 - a) * (E * (1 + a)) := mul_le_mul_of_nonneg_left hZ h1.le
      _ = E * (1 - a ^ 2) := by ring
      _ ≤ E := by nlinarith [sq_nonneg a]

theorem memb_pos (T x : ℝ) (cuts : List ℝ) {j : ℕ} (hj : j ≤ cuts.length) : 0 < memb T x cuts j := by
  rw [memb_eq T x cuts hj]; exact div_pos (Real.exp_pos _) (Z_pos _ _ _)

theorem memb_le_one (T x : ℝ) (cuts : List ℝ) (j : ℕ) : memb T x cuts j ≤ 1 := by
  unfold memb
  by_cases hj : j < (binning T x cuts).length
  · rw [List.getD_eq_getElem?_getD, List.getElem?_eq_getElem hj, Option.getD_some, ← binning_sum T x cuts]
    exact List.single_le_sum (fun p hp => (binning_pos T x cuts p hp).le) _ (List.getElem_mem hj)
  · rw [List.getD_eq_getElem?_getD, List.getElem?_eq_none (not_lt.mp hj)]; simp

/-- every other bin holds at most `exp(−gap / T)` -/
theorem memb_other_le {T x g : ℝ} (hT : 0 < T) {cuts : List ℝ} (hg : ∀ c ∈ cuts, g ≤ |x - c|) (hg0 : 0 ≤ g)
    {j : ℕ} (hj : j ≤ cuts.length) (hne : j ≠ cell x cuts) : memb T x cuts j ≤ Real.exp (-g / T) := by
  rw [memb_eq T x cuts hj, div_le_iff₀ (Z_pos _ _ _)]
  have hk : cell x cuts ∈ Finset.range ((sortedCuts cuts).length + 1) := by
    rw [Finset.mem_range, sortedCuts_length]; have := cell_le_length x cuts; omega
  have hZ : Real.exp (lg x (sortedCuts cuts) (cell x cuts) / T) ≤ Z T x (sortedCuts cuts) :=
    Finset.single_le_sum (f := fun i => Real.exp (lg x (sortedCuts cuts) i / T))
      (fun i _ => (Real.exp_pos _).le) hk
  have hle := lg_gap_cuts hg hg0 hj hne
  calc Real.exp (lg x (sortedCuts cuts) j / T)
      ≤ Real.exp (-g / T) * Real.exp (lg x (sortedCuts cuts) (cell x cuts) / T) := by
        rw [← Real.exp_add, ← add_div]
        exact Real.exp_le_exp.mpr (div_le_div_of_nonneg_right (by linarith) hT.le)
    _ ≤ Real.exp (-g / T) * Z T x (sortedCuts cuts) := mul_le_mul_of_nonneg_left hZ (Real.exp_pos _).le

/-! ### the limit `T → 0⁺` -/

theorem tendsto_exp_neg_div {g : ℝ} (hg : 0 < g) :
    Tendsto (fun T : ℝ => Real.exp (-g / T)) (𝓝[>] 0) (𝓝 0) := by
  have h1 : Tendsto (fun T : ℝ => T⁻¹) (𝓝[>] 0) atTop := tendsto_inv_nhdsGT_zero
  have h2 : Tendsto (fun T : ℝ => -g * T⁻¹) (𝓝[>] 0) atBot :=
    (tendsto_const_mul_atBot_of_neg (neg_neg_of_pos hg)).mpr h1
  have h3 := Real.tendsto_exp_atBot.comp h2
  refine h3.congr fun T => ?_
  simp [div_eq_mul_inv]

/-- the cell's bin takes all the mass as the temperature goes to `0⁺` -/
theorem memb_cell_tendsto {x : ℝ} {cuts : List ℝ} (hx : ∀ c ∈ cuts, x ≠ c) :
    Tendsto (fun T : ℝ => memb T x cuts (cell x cuts)) (𝓝[>] 0) (𝓝 1) := by
  obtain ⟨g, hg0, hg⟩ := exists_gap x cuts hx
  have hlow : Tendsto (fun T : ℝ => 1 - cuts.length * Real.exp (-g / T)) (𝓝[>] 0) (𝓝 1) := by
    have := ((tendsto_exp_neg_div hg0).const_mul (cuts.length : ℝ)).const_sub 1
    simpa using this
  refine tendsto_of_tendsto_of_tendsto_of_le_of_le' hlow tendsto_const_nhds ?_ ?_
  · filter_upwards [self_mem_nhdsWithin] with T hT
    exact memb_cell_ge hT hg hg0.le
  · exact Eventually.of_forall fun T => memb_le_one T x cuts _

/-- every other bin vanishes as the temperature goes to `0⁺` -/
theorem memb_other_tendsto {x : ℝ} {cuts : List ℝ} (hx : ∀ c ∈ cuts, x ≠ c) {j : ℕ} (hj : j ≤ cuts.length)
    (hne : j ≠ cell x cuts) : Tendsto (fun T : ℝ => memb T x cuts j) (𝓝[>] 0) (𝓝 0) := by
  obtain ⟨g, hg0, hg⟩ := exists_gap x cuts hx
  refine tendsto_of_tendsto_of_tendsto_of_le_of_le' tendsto_const_nhds (tendsto_exp_neg_div hg0) ?_ ?_
  · exact Eventually.of_forall fun T => (memb_pos T x cuts hj).le
  · filter_upwards [self_mem_nhdsWithin] with T hT
    exact memb_other_le hT hg hg0.le hj hne

end GemVerif.Douglas
