/-
  Reading rules of GemVerif/Np2.lean: shape, error flag and entries of every operation (all by unfolding), and the
  introduction rule `Arr.eqv_ofScalar` used by Props/C01Gen.lean.  Generic in `[RealLike α]`; no Mathlib.
-/
import GemVerif.Lemmas.Np
import GemVerif.Np2

set_option linter.unusedSectionVars false

namespace GemVerif.Np
open GemVerif RealLike

namespace Arr
variable {α : Type} [RealLike α]

/-! ### scalars -/

@[simp] theorem ofScalar_r (s : α) : (ofScalar s).r = 1 := rfl
@[simp] theorem ofScalar_c (s : α) : (ofScalar s).c = 1 := rfl
@[simp] theorem ofScalar_ok (s : α) : (ofScalar s).ok = true := rfl
@[simp] theorem ofScalar_get (s : α) (i j : Nat) : (ofScalar s).get i j = s := rfl

/-! ### elementwise -/

@[simp] theorem log_r (A : Arr α) : (log A).r = A.r := rfl
@[simp] theorem log_c (A : Arr α) : (log A).c = A.c := rfl
@[simp] theorem log_ok (A : Arr α) : (log A).ok = A.ok := rfl
@[simp] theorem log_get (A : Arr α) (i j : Nat) : (log A).get i j = RealLike.log (A.get i j) := rfl

@[simp] theorem sqrt_r (A : Arr α) : (sqrt A).r = A.r := rfl
@[simp] theorem sqrt_c (A : Arr α) : (sqrt A).c = A.c := rfl
@[simp] theorem sqrt_ok (A : Arr α) : (sqrt A).ok = A.ok := rfl
@[simp] theorem sqrt_get (A : Arr α) (i j : Nat) : (sqrt A).get i j = RealLike.sqrt (A.get i j) := rfl

@[simp] theorem abs_r (A : Arr α) : (abs A).r = A.r := rfl
@[simp] theorem abs_c (A : Arr α) : (abs A).c = A.c := rfl
@[simp] theorem abs_ok (A : Arr α) : (abs A).ok = A.ok := rfl
@[simp] theorem abs_get (A : Arr α) (i j : Nat) : (abs A).get i j = RealLike.abs (A.get i j) := rfl

@[simp] theorem sign_r (A : Arr α) : (sign A).r = A.r := rfl
@[simp] theorem sign_c (A : Arr α) : (sign A).c = A.c := rfl
@[simp] theorem sign_ok (A : Arr α) : (sign A).ok = A.ok := rfl
@[simp] theorem sign_get (A : Arr α) (i j : Nat) : (sign A).get i j = RealLike.sign (A.get i j) := rfl

@[simp] theorem square_r (A : Arr α) : (square A).r = A.r := rfl
@[simp] theorem square_c (A : Arr α) : (square A).c = A.c := rfl
@[simp] theorem square_ok (A : Arr α) : (square A).ok = A.ok := rfl
@[simp] theorem square_get (A : Arr α) (i j : Nat) : (square A).get i j = RealLike.sq (A.get i j) := rfl

@[simp] theorem clip_r (A : Arr α) (lo hi : α) : (clip A lo hi).r = A.r := rfl
@[simp] theorem clip_c (A : Arr α) (lo hi : α) : (clip A lo hi).c = A.c := rfl
@[simp] theorem clip_ok (A : Arr α) (lo hi : α) : (clip A lo hi).ok = A.ok := rfl
@[simp] theorem clip_get (A : Arr α) (lo hi : α) (i j : Nat) :
    (clip A lo hi).get i j = RealLike.clip (A.get i j) lo hi := rfl

/-! ### array ∘ scalar -/

@[simp] theorem adds_r (A : Arr α) (s : α) : (adds A s).r = A.r := rfl
@[simp] theorem adds_c (A : Arr α) (s : α) : (adds A s).c = A.c := rfl
@[simp] theorem adds_ok (A : Arr α) (s : α) : (adds A s).ok = A.ok := rfl
@[simp] theorem adds_get (A : Arr α) (s : α) (i j : Nat) : (adds A s).get i j = A.get i j + s := rfl

@[simp] theorem radds_r (A : Arr α) (s : α) : (radds s A).r = A.r := rfl
@[simp] theorem radds_c (A : Arr α) (s : α) : (radds s A).c = A.c := rfl
@[simp] theorem radds_ok (A : Arr α) (s : α) : (radds s A).ok = A.ok := rfl
@[simp] theorem radds_get (A : Arr α) (s : α) (i j : Nat) : (radds s A).get i j = s + A.get i j := rfl

@[simp] theorem subs_r (A : Arr α) (s : α) : (subs A s).r = A.r := rfl
@[simp] theorem subs_c (A : Arr α) (s : α) : (subs A s).c = A.c := rfl
@[simp] theorem subs_ok (A : Arr α) (s : α) : (subs A s).ok = A.ok := rfl
@[simp] theorem subs_get (A : Arr α) (s : α) (i j : Nat) : (subs A s).get i j = A.get i j - s := rfl

@[simp] theorem rsubs_r (A : Arr α) (s : α) : (rsubs s A).r = A.r := rfl
@[simp] theorem rsubs_c (A : Arr α) (s : α) : (rsubs s A).c = A.c := rfl
@[simp] theorem rsubs_ok (A : Arr α) (s : α) : (rsubs s A).ok = A.ok := rfl
@[simp] theorem rsubs_get (A : Arr α) (s : α) (i j : Nat) : (rsubs s A).get i j = s - A.get i j := rfl

@[simp] theorem divs_r (A : Arr α) (s : α) : (divs A s).r = A.r := rfl
@[simp] theorem divs_c (A : Arr α) (s : α) : (divs A s).c = A.c := rfl
@[simp] theorem divs_ok (A : Arr α) (s : α) : (divs A s).ok = A.ok := rfl
@[simp] theorem divs_get (A : Arr α) (s : α) (i j : Nat) : (divs A s).get i j = A.get i j / s := rfl

@[simp] theorem rdivs_r (A : Arr α) (s : α) : (rdivs s A).r = A.r := rfl
@[simp] theorem rdivs_c (A : Arr α) (s : α) : (rdivs s A).c = A.c := rfl
@[simp] theorem rdivs_ok (A : Arr α) (s : α) : (rdivs s A).ok = A.ok := rfl
@[simp] theorem rdivs_get (A : Arr α) (s : α) (i j : Nat) : (rdivs s A).get i j = s / A.get i j := rfl

/-! ### reductions -/

@[simp] theorem sumAxis1v_r (A : Arr α) : (sumAxis1v A).r = 1 := rfl
@[simp] theorem sumAxis1v_c (A : Arr α) : (sumAxis1v A).c = A.r := rfl
@[simp] theorem sumAxis1v_ok (A : Arr α) : (sumAxis1v A).ok = A.ok := rfl
@[simp] theorem sumAxis1v_get (A : Arr α) (i j : Nat) :
    (sumAxis1v A).get i j = sumTo A.c fun l => A.get j l := rfl

@[simp] theorem meanAxis0_r (A : Arr α) : (meanAxis0 A).r = 1 := rfl
@[simp] theorem meanAxis0_c (A : Arr α) : (meanAxis0 A).c = A.c := rfl
@[simp] theorem meanAxis0_ok (A : Arr α) : (meanAxis0 A).ok = A.ok := rfl
@[simp] theorem meanAxis0_get (A : Arr α) (i j : Nat) :
    (meanAxis0 A).get i j = (sumTo A.r fun l => A.get l j) / nat A.r := rfl

@[simp] theorem meanAxis1_r (A : Arr α) : (meanAxis1 A).r = A.r := rfl
@[simp] theorem meanAxis1_c (A : Arr α) : (meanAxis1 A).c = 1 := rfl
@[simp] theorem meanAxis1_ok (A : Arr α) : (meanAxis1 A).ok = A.ok := rfl
@[simp] theorem meanAxis1_get (A : Arr α) (i j : Nat) :
    (meanAxis1 A).get i j = (sumTo A.c fun l => A.get i l) / nat A.c := rfl

@[simp] theorem meanAxis1v_r (A : Arr α) : (meanAxis1v A).r = 1 := rfl
@[simp] theorem meanAxis1v_c (A : Arr α) : (meanAxis1v A).c = A.r := rfl
@[simp] theorem meanAxis1v_ok (A : Arr α) : (meanAxis1v A).ok = A.ok := rfl
@[simp] theorem meanAxis1v_get (A : Arr α) (i j : Nat) :
    (meanAxis1v A).get i j = (sumTo A.c fun l => A.get j l) / nat A.c := rfl

@[simp] theorem sumVec_r (A : Arr α) : (sumVec A).r = 1 := rfl
@[simp] theorem sumVec_c (A : Arr α) : (sumVec A).c = 1 := rfl
@[simp] theorem sumVec_ok (A : Arr α) : (sumVec A).ok = (A.ok && A.r == 1) := rfl
@[simp] theorem sumVec_get (A : Arr α) (i j : Nat) : (sumVec A).get i j = sumTo A.c fun l => A.get 0 l := rfl

@[simp] theorem meanVec_r (A : Arr α) : (meanVec A).r = 1 := rfl
@[simp] theorem meanVec_c (A : Arr α) : (meanVec A).c = 1 := rfl
@[simp] theorem meanVec_ok (A : Arr α) : (meanVec A).ok = (A.ok && A.r == 1) := rfl
@[simp] theorem meanVec_get (A : Arr α) (i j : Nat) :
    (meanVec A).get i j = (sumTo A.c fun l => A.get 0 l) / nat A.c := rfl

@[simp] theorem sumAll_r (A : Arr α) : (sumAll A).r = 1 := rfl
@[simp] theorem sumAll_c (A : Arr α) : (sumAll A).c = 1 := rfl
@[simp] theorem sumAll_ok (A : Arr α) : (sumAll A).ok = A.ok := rfl
@[simp] theorem sumAll_get (A : Arr α) (i j : Nat) :
    (sumAll A).get i j = sumTo A.r fun i => sumTo A.c fun l => A.get i l := rfl

@[simp] theorem meanAll_r (A : Arr α) : (meanAll A).r = 1 := rfl
@[simp] theorem meanAll_c (A : Arr α) : (meanAll A).c = 1 := rfl
@[simp] theorem meanAll_ok (A : Arr α) : (meanAll A).ok = A.ok := rfl
@[simp] theorem meanAll_get (A : Arr α) (i j : Nat) :
    (meanAll A).get i j = (sumTo A.r fun i => sumTo A.c fun l => A.get i l) / nat (A.r * A.c) := rfl

/-! ### shapes -/

@[simp] theorem reshapeCol_r (A : Arr α) : (reshapeCol A).r = A.c := rfl
@[simp] theorem reshapeCol_c (A : Arr α) : (reshapeCol A).c = 1 := rfl
@[simp] theorem reshapeCol_ok (A : Arr α) : (reshapeCol A).ok = (A.ok && A.r == 1) := rfl
@[simp] theorem reshapeCol_get (A : Arr α) (i j : Nat) : (reshapeCol A).get i j = A.get 0 i := rfl

@[simp] theorem reshapeRow_r (A : Arr α) : (reshapeRow A).r = A.r := rfl
@[simp] theorem reshapeRow_c (A : Arr α) : (reshapeRow A).c = A.c := rfl
@[simp] theorem reshapeRow_ok (A : Arr α) : (reshapeRow A).ok = (A.ok && A.r == 1) := rfl
@[simp] theorem reshapeRow_get (A : Arr α) (i j : Nat) : (reshapeRow A).get i j = A.get i j := rfl

@[simp] theorem squeeze0_r (A : Arr α) : (squeeze0 A).r = A.r := rfl
@[simp] theorem squeeze0_c (A : Arr α) : (squeeze0 A).c = A.c := rfl
@[simp] theorem squeeze0_ok (A : Arr α) : (squeeze0 A).ok = (A.ok && A.r == 1 && A.c == 1) := rfl
@[simp] theorem squeeze0_get (A : Arr α) (i j : Nat) : (squeeze0 A).get i j = A.get i j := rfl

@[simp] theorem eye_r (m : Nat) : (eye m : Arr α).r = m := rfl
@[simp] theorem eye_c (m : Nat) : (eye m : Arr α).c = m := rfl
@[simp] theorem eye_ok (m : Nat) : (eye m : Arr α).ok = true := rfl
@[simp] theorem eye_get (m i j : Nat) : (eye m : Arr α).get i j = if i = j then 1 else 0 := rfl

@[simp] theorem diagVec_r (A : Arr α) : (diagVec A).r = 1 := rfl
@[simp] theorem diagVec_c (A : Arr α) : (diagVec A).c = Nat.min A.r A.c := rfl
@[simp] theorem diagVec_ok (A : Arr α) : (diagVec A).ok = A.ok := rfl
@[simp] theorem diagVec_get (A : Arr α) (i j : Nat) : (diagVec A).get i j = A.get j j := rfl

@[simp] theorem diagMat_r (A : Arr α) : (diagMat A).r = A.c := rfl
@[simp] theorem diagMat_c (A : Arr α) : (diagMat A).c = A.c := rfl
@[simp] theorem diagMat_ok (A : Arr α) : (diagMat A).ok = (A.ok && A.r == 1) := rfl
@[simp] theorem diagMat_get (A : Arr α) (i j : Nat) :
    (diagMat A).get i j = if i = j then A.get 0 i else 0 := rfl

@[simp] theorem matvec_r (A v : Arr α) : (matvec A v).r = 1 := rfl
@[simp] theorem matvec_c (A v : Arr α) : (matvec A v).c = A.r := rfl
@[simp] theorem matvec_ok (A v : Arr α) : (matvec A v).ok = (A.ok && v.ok && v.r == 1 && A.c == v.c) := rfl
@[simp] theorem matvec_get (A v : Arr α) (i j : Nat) :
    (matvec A v).get i j = sumTo A.c fun l => A.get j l * v.get 0 l := rfl

/-! ### Boolean arrays -/

@[simp] theorem gtS_r (A : Arr α) (s : α) : (gtS A s).r = A.r := rfl
@[simp] theorem gtS_c (A : Arr α) (s : α) : (gtS A s).c = A.c := rfl
@[simp] theorem gtS_ok (A : Arr α) (s : α) : (gtS A s).ok = A.ok := rfl
@[simp] theorem gtS_get (A : Arr α) (s : α) (i j : Nat) : (gtS A s).get i j = RealLike.lt s (A.get i j) := rfl

@[simp] theorem ltS_r (A : Arr α) (s : α) : (ltS A s).r = A.r := rfl
@[simp] theorem ltS_c (A : Arr α) (s : α) : (ltS A s).c = A.c := rfl
@[simp] theorem ltS_ok (A : Arr α) (s : α) : (ltS A s).ok = A.ok := rfl
@[simp] theorem ltS_get (A : Arr α) (s : α) (i j : Nat) : (ltS A s).get i j = RealLike.lt (A.get i j) s := rfl

@[simp] theorem eqS_r (A : Arr α) (s : α) : (eqS A s).r = A.r := rfl
@[simp] theorem eqS_c (A : Arr α) (s : α) : (eqS A s).c = A.c := rfl
@[simp] theorem eqS_ok (A : Arr α) (s : α) : (eqS A s).ok = A.ok := rfl
@[simp] theorem eqS_get (A : Arr α) (s : α) (i j : Nat) : (eqS A s).get i j = RealLike.beq (A.get i j) s := rfl

@[simp] theorem band_r (M N : Arr Bool) : (band M N).r = bdim M.r N.r := rfl
@[simp] theorem band_c (M N : Arr Bool) : (band M N).c = bdim M.c N.c := rfl
@[simp] theorem band_ok (M N : Arr Bool) : (band M N).ok = (M.ok && N.ok && bok M.r N.r && bok M.c N.c) := rfl
@[simp] theorem band_get (M N : Arr Bool) (i j : Nat) :
    (band M N).get i j = (M.get (bidx M.r i) (bidx M.c j) && N.get (bidx N.r i) (bidx N.c j)) := rfl

@[simp] theorem ofMask_r (M : Arr Bool) : (ofMask M : Arr α).r = M.r := rfl
@[simp] theorem ofMask_c (M : Arr Bool) : (ofMask M : Arr α).c = M.c := rfl
@[simp] theorem ofMask_ok (M : Arr Bool) : (ofMask M : Arr α).ok = M.ok := rfl
@[simp] theorem ofMask_get (M : Arr Bool) (i j : Nat) : (ofMask M : Arr α).get i j = ofBool (M.get i j) := rfl

@[simp] theorem fillDiagonal_r (A : Arr α) (s : α) : (fillDiagonal A s).r = A.r := rfl
@[simp] theorem fillDiagonal_c (A : Arr α) (s : α) : (fillDiagonal A s).c = A.c := rfl
@[simp] theorem fillDiagonal_ok (A : Arr α) (s : α) : (fillDiagonal A s).ok = A.ok := rfl
@[simp] theorem fillDiagonal_get (A : Arr α) (s : α) (i j : Nat) :
    (fillDiagonal A s).get i j = if i = j then s else A.get i j := rfl

@[simp] theorem setWhere_r (A : Arr α) (M : Arr Bool) (s : α) : (setWhere A M s).r = A.r := rfl
@[simp] theorem setWhere_c (A : Arr α) (M : Arr Bool) (s : α) : (setWhere A M s).c = A.c := rfl
@[simp] theorem setWhere_ok (A : Arr α) (M : Arr Bool) (s : α) :
    (setWhere A M s).ok = (A.ok && M.ok && A.r == M.r && A.c == M.c) := rfl
@[simp] theorem setWhere_get (A : Arr α) (M : Arr Bool) (s : α) (i j : Nat) :
    (setWhere A M s).get i j = if M.get i j then s else A.get i j := rfl

@[simp] theorem setColsWhere_r (A : Arr α) (M : Arr Bool) (s : α) : (setColsWhere A M s).r = A.r := rfl
@[simp] theorem setColsWhere_c (A : Arr α) (M : Arr Bool) (s : α) : (setColsWhere A M s).c = A.c := rfl
@[simp] theorem setColsWhere_ok (A : Arr α) (M : Arr Bool) (s : α) :
    (setColsWhere A M s).ok = (A.ok && M.ok && M.r == 1 && A.c == M.c) := rfl
@[simp] theorem setColsWhere_get (A : Arr α) (M : Arr Bool) (s : α) (i j : Nat) :
    (setColsWhere A M s).get i j = if M.get 0 j then s else A.get i j := rfl

@[simp] theorem repeat0_r (A : Arr α) (m : Nat) : (repeat0 A m).r = A.r * m := rfl
@[simp] theorem repeat0_c (A : Arr α) (m : Nat) : (repeat0 A m).c = A.c := rfl
@[simp] theorem repeat0_ok (A : Arr α) (m : Nat) : (repeat0 A m).ok = A.ok := rfl
@[simp] theorem repeat0_get (A : Arr α) (m i j : Nat) : (repeat0 A m).get i j = A.get (i / m) j := rfl

end Arr

@[simp] theorem fin_val_div_self {n : Nat} (i : Fin n) : i.val / n = 0 := Nat.div_eq_of_lt i.isLt

/-! ### 3-D arrays -/

namespace Arr3
variable {α : Type} [RealLike α]

@[simp] theorem expandFirst_d0 (A : Arr α) : (expandFirst A).d0 = 1 := rfl
@[simp] theorem expandFirst_d1 (A : Arr α) : (expandFirst A).d1 = A.r := rfl
@[simp] theorem expandFirst_d2 (A : Arr α) : (expandFirst A).d2 = A.c := rfl
@[simp] theorem expandFirst_ok (A : Arr α) : (expandFirst A).ok = A.ok := rfl
@[simp] theorem expandFirst_get (A : Arr α) (i j k : Nat) : (expandFirst A).get i j k = A.get j k := rfl

@[simp] theorem expandMid_d0 (A : Arr α) : (expandMid A).d0 = A.r := rfl
@[simp] theorem expandMid_d1 (A : Arr α) : (expandMid A).d1 = 1 := rfl
@[simp] theorem expandMid_d2 (A : Arr α) : (expandMid A).d2 = A.c := rfl
@[simp] theorem expandMid_ok (A : Arr α) : (expandMid A).ok = A.ok := rfl
@[simp] theorem expandMid_get (A : Arr α) (i j k : Nat) : (expandMid A).get i j k = A.get i k := rfl

@[simp] theorem expandLast_d0 (A : Arr α) : (expandLast A).d0 = A.r := rfl
@[simp] theorem expandLast_d1 (A : Arr α) : (expandLast A).d1 = A.c := rfl
@[simp] theorem expandLast_d2 (A : Arr α) : (expandLast A).d2 = 1 := rfl
@[simp] theorem expandLast_ok (A : Arr α) : (expandLast A).ok = A.ok := rfl
@[simp] theorem expandLast_get (A : Arr α) (i j k : Nat) : (expandLast A).get i j k = A.get i j := rfl

@[simp] theorem transpose021_d0 (T : Arr3 α) : (transpose021 T).d0 = T.d0 := rfl
@[simp] theorem transpose021_d1 (T : Arr3 α) : (transpose021 T).d1 = T.d2 := rfl
@[simp] theorem transpose021_d2 (T : Arr3 α) : (transpose021 T).d2 = T.d1 := rfl
@[simp] theorem transpose021_ok (T : Arr3 α) : (transpose021 T).ok = T.ok := rfl
@[simp] theorem transpose021_get (T : Arr3 α) (i j k : Nat) : (transpose021 T).get i j k = T.get i k j := rfl

@[simp] theorem matmul_d0 (S T : Arr3 α) : (matmul S T).d0 = bdim S.d0 T.d0 := rfl
@[simp] theorem matmul_d1 (S T : Arr3 α) : (matmul S T).d1 = S.d1 := rfl
@[simp] theorem matmul_d2 (S T : Arr3 α) : (matmul S T).d2 = T.d2 := rfl
@[simp] theorem matmul_ok (S T : Arr3 α) : (matmul S T).ok = (S.ok && T.ok && bok S.d0 T.d0 && S.d2 == T.d1) := rfl
@[simp] theorem matmul_get (S T : Arr3 α) (i j k : Nat) : (matmul S T).get i j k = sumTo S.d2 fun l => S.get (bidx S.d0 i) j l * T.get (bidx T.d0 i) l k := rfl

@[simp] theorem zipWith_d0 (f : α → α → α) (S T : Arr3 α) : (zipWith f S T).d0 = bdim S.d0 T.d0 := rfl
@[simp] theorem zipWith_d1 (f : α → α → α) (S T : Arr3 α) : (zipWith f S T).d1 = bdim S.d1 T.d1 := rfl
@[simp] theorem zipWith_d2 (f : α → α → α) (S T : Arr3 α) : (zipWith f S T).d2 = bdim S.d2 T.d2 := rfl
@[simp] theorem zipWith_ok (f : α → α → α) (S T : Arr3 α) : (zipWith f S T).ok = (S.ok && T.ok && bok S.d0 T.d0 && bok S.d1 T.d1 && bok S.d2 T.d2) := rfl
@[simp] theorem zipWith_get (f : α → α → α) (S T : Arr3 α) (i j k : Nat) : (zipWith f S T).get i j k = f (S.get (bidx S.d0 i) (bidx S.d1 j) (bidx S.d2 k)) (T.get (bidx T.d0 i) (bidx T.d1 j) (bidx T.d2 k)) := rfl

@[simp] theorem neg_d0 (T : Arr3 α) : (neg T).d0 = T.d0 := rfl
@[simp] theorem neg_d1 (T : Arr3 α) : (neg T).d1 = T.d1 := rfl
@[simp] theorem neg_d2 (T : Arr3 α) : (neg T).d2 = T.d2 := rfl
@[simp] theorem neg_ok (T : Arr3 α) : (neg T).ok = T.ok := rfl
@[simp] theorem neg_get (T : Arr3 α) (i j k : Nat) : (neg T).get i j k = -(T.get i j k) := rfl

@[simp] theorem sign_d0 (T : Arr3 α) : (sign T).d0 = T.d0 := rfl
@[simp] theorem sign_d1 (T : Arr3 α) : (sign T).d1 = T.d1 := rfl
@[simp] theorem sign_d2 (T : Arr3 α) : (sign T).d2 = T.d2 := rfl
@[simp] theorem sign_ok (T : Arr3 α) : (sign T).ok = T.ok := rfl
@[simp] theorem sign_get (T : Arr3 α) (i j k : Nat) : (sign T).get i j k = RealLike.sign (T.get i j k) := rfl

@[simp] theorem abs_d0 (T : Arr3 α) : (abs T).d0 = T.d0 := rfl
@[simp] theorem abs_d1 (T : Arr3 α) : (abs T).d1 = T.d1 := rfl
@[simp] theorem abs_d2 (T : Arr3 α) : (abs T).d2 = T.d2 := rfl
@[simp] theorem abs_ok (T : Arr3 α) : (abs T).ok = T.ok := rfl
@[simp] theorem abs_get (T : Arr3 α) (i j k : Nat) : (abs T).get i j k = RealLike.abs (T.get i j k) := rfl

@[simp] theorem smul_d0 (s : α) (T : Arr3 α) : (smul s T).d0 = T.d0 := rfl
@[simp] theorem smul_d1 (s : α) (T : Arr3 α) : (smul s T).d1 = T.d1 := rfl
@[simp] theorem smul_d2 (s : α) (T : Arr3 α) : (smul s T).d2 = T.d2 := rfl
@[simp] theorem smul_ok (s : α) (T : Arr3 α) : (smul s T).ok = T.ok := rfl
@[simp] theorem smul_get (s : α) (T : Arr3 α) (i j k : Nat) : (smul s T).get i j k = s * T.get i j k := rfl

@[simp] theorem muls_d0 (T : Arr3 α) (s : α) : (muls T s).d0 = T.d0 := rfl
@[simp] theorem muls_d1 (T : Arr3 α) (s : α) : (muls T s).d1 = T.d1 := rfl
@[simp] theorem muls_d2 (T : Arr3 α) (s : α) : (muls T s).d2 = T.d2 := rfl
@[simp] theorem muls_ok (T : Arr3 α) (s : α) : (muls T s).ok = T.ok := rfl
@[simp] theorem muls_get (T : Arr3 α) (s : α) (i j k : Nat) : (muls T s).get i j k = T.get i j k * s := rfl

@[simp] theorem divs_d0 (T : Arr3 α) (s : α) : (divs T s).d0 = T.d0 := rfl
@[simp] theorem divs_d1 (T : Arr3 α) (s : α) : (divs T s).d1 = T.d1 := rfl
@[simp] theorem divs_d2 (T : Arr3 α) (s : α) : (divs T s).d2 = T.d2 := rfl
@[simp] theorem divs_ok (T : Arr3 α) (s : α) : (divs T s).ok = T.ok := rfl
@[simp] theorem divs_get (T : Arr3 α) (s : α) (i j k : Nat) : (divs T s).get i j k = T.get i j k / s := rfl

@[simp] theorem sumAxis0_r (T : Arr3 α) : (sumAxis0 T).r = T.d1 := rfl
@[simp] theorem sumAxis0_c (T : Arr3 α) : (sumAxis0 T).c = T.d2 := rfl
@[simp] theorem sumAxis0_ok (T : Arr3 α) : (sumAxis0 T).ok = T.ok := rfl
@[simp] theorem sumAxis0_get (T : Arr3 α) (i j : Nat) : (sumAxis0 T).get i j = sumTo T.d0 fun l => T.get l i j := rfl

@[simp] theorem meanAxis0_r (T : Arr3 α) : (meanAxis0 T).r = T.d1 := rfl
@[simp] theorem meanAxis0_c (T : Arr3 α) : (meanAxis0 T).c = T.d2 := rfl
@[simp] theorem meanAxis0_ok (T : Arr3 α) : (meanAxis0 T).ok = T.ok := rfl
@[simp] theorem meanAxis0_get (T : Arr3 α) (i j : Nat) : (meanAxis0 T).get i j = (sumTo T.d0 fun l => T.get l i j) / nat T.d0 := rfl

@[simp] theorem squeeze1_r (T : Arr3 α) : (squeeze1 T).r = T.d0 := rfl
@[simp] theorem squeeze1_c (T : Arr3 α) : (squeeze1 T).c = T.d2 := rfl
@[simp] theorem squeeze1_ok (T : Arr3 α) : (squeeze1 T).ok = (T.ok && T.d1 == 1) := rfl
@[simp] theorem squeeze1_get (T : Arr3 α) (i j : Nat) : (squeeze1 T).get i j = T.get i 0 j := rfl

@[simp] theorem squeeze2_r (T : Arr3 α) : (squeeze2 T).r = T.d0 := rfl
@[simp] theorem squeeze2_c (T : Arr3 α) : (squeeze2 T).c = T.d1 := rfl
@[simp] theorem squeeze2_ok (T : Arr3 α) : (squeeze2 T).ok = (T.ok && T.d2 == 1) := rfl
@[simp] theorem squeeze2_get (T : Arr3 α) (i j : Nat) : (squeeze2 T).get i j = T.get i j 0 := rfl

end Arr3

namespace Arr
variable {α : Type} [RealLike α]

/-! ### Python-level checks -/

@[simp] theorem inPlace_r (T R : Arr α) : (inPlace T R).r = R.r := rfl
@[simp] theorem inPlace_c (T R : Arr α) : (inPlace T R).c = R.c := rfl
@[simp] theorem inPlace_ok (T R : Arr α) : (inPlace T R).ok = (R.ok && R.r == T.r && R.c == T.c) := rfl
@[simp] theorem inPlace_get (T R : Arr α) (i j : Nat) : (inPlace T R).get i j = R.get i j := rfl

@[simp] theorem checked_r (b : Bool) (A : Arr α) : (checked b A).r = A.r := rfl
@[simp] theorem checked_c (b : Bool) (A : Arr α) : (checked b A).c = A.c := rfl
@[simp] theorem checked_ok (b : Bool) (A : Arr α) : (checked b A).ok = (A.ok && b) := rfl
@[simp] theorem checked_get (b : Bool) (A : Arr α) (i j : Nat) : (checked b A).get i j = A.get i j := rfl

/-! ### introduction rule for 0-d results -/

/-- `A` is the 0-d array holding `s`: no error, shape `(1, 1)`, the right entry -/
theorem eqv_ofScalar {A : Arr α} {s : α} (hok : A.ok = true) (hr : A.r = 1) (hc : A.c = 1)
    (h : A.get 0 0 = s) : Eqv A (ofScalar s) := by
  refine ⟨hok, rfl, hr, hc, fun i j hi hj => ?_⟩
  have hi0 : i = 0 := by omega
  have hj0 : j = 0 := by omega
  subst hi0 hj0
  exact h

theorem eqv_ofScalar_iff {A : Arr α} {s : α} :
    Eqv A (ofScalar s) ↔ A.ok = true ∧ A.r = 1 ∧ A.c = 1 ∧ A.get 0 0 = s := by
  constructor
  · rintro ⟨hok, -, hr, hc, h⟩
    exact ⟨hok, hr, hc, h 0 0 (by rw [hr]; exact Nat.one_pos) (by rw [hc]; exact Nat.one_pos)⟩
  · rintro ⟨hok, hr, hc, h⟩
    exact eqv_ofScalar hok hr hc h

/-! ### entry-wise descriptions of intermediate arrays (used to cut long generated definitions into steps) -/

/-- `A` is, without error, the `n × k` array with entries `f` -/
def IsMat {n k : Nat} (A : Arr α) (f : Fin n → Fin k → α) : Prop :=
  A.ok = true ∧ A.r = n ∧ A.c = k ∧ ∀ (i : Fin n) (j : Fin k), A.get i.val j.val = f i j

/-- `A` is, without error, the `(1, k)` (or 1-D `(k,)`) array with entries `f`, whatever row index it is read at -/
def IsRow {k : Nat} (A : Arr α) (f : Fin k → α) : Prop :=
  A.ok = true ∧ A.r = 1 ∧ A.c = k ∧ ∀ (j : Fin k), A.get 0 j.val = f j

theorem IsMat.eqv {n k : Nat} {A : Arr α} {f : Fin n → Fin k → α} (h : IsMat A f) : Eqv A (ofFn f) :=
  eqv_ofFn h.1 h.2.1 h.2.2.1 h.2.2.2

end Arr
end GemVerif.Np

/-- `name_expr x := e at h`: gives the sub-expression `e` the name `x` (a new, opaque variable) — in the hypothesis `h`,
    which states what is known about `e`, and wherever `e` occurs in the goal (nothing happens when it does not occur
    there).  It is `generalize e = x at h ⊢`, done by `simp only`, which keeps the sharing of the large goals the
    `…Gen` theorems get once every `let` of a generated definition is unfolded.  The `…Gen` proofs name the NumPy
    EXPRESSIONS of the source this way, so that they do not depend on which temporaries the source uses for them. -/
macro "name_expr " x:ident " := " e:term " at " h:ident : tactic =>
  `(tactic| (obtain ⟨$x:ident, hx⟩ : ∃ y, $e = y := ⟨_, rfl⟩; rw [hx] at $h:ident; try simp only [hx]; clear hx))
