/-
  C05 — the sorted-breakpoint search of `mlp_prox_grad` returns a KKT point.
  Part 1 is about abstract sequences (`ℓ` = sorted `|u|` extended by zeros); part 2 ties the
  model's `xS`, `wS`, `hierIdx` to them.
-/
import GemVerif.Lemmas.ProxSort

namespace GemVerif
open scoped BigOperators
open Model.Prox Spec.Prox

/-! ### part 1: sequences -/

/-- `‖v‖ − a_s` -/
noncomputable def Aseq (ℓ : ℕ → ℝ) (N α M : ℝ) (s : ℕ) : ℝ := N - (α - M * ∑ t ∈ Finset.range s, ℓ t)

/-- `b_s = max(‖v‖ − a_s, 0) / (1 + s M²)`: the candidate norm of `β` when `s` coordinates are clipped -/
noncomputable def Bseq (ℓ : ℕ → ℝ) (N α M : ℝ) (s : ℕ) : ℝ := max (Aseq ℓ N α M s) 0 / (1 + (s : ℝ) * (M * M))

variable {ℓ : ℕ → ℝ} {N α M : ℝ}

theorem Aseq_succ (s : ℕ) : Aseq ℓ N α M (s + 1) = Aseq ℓ N α M s + M * ℓ s := by
  unfold Aseq; rw [Finset.sum_range_succ]; ring

theorem Dseq_pos (M : ℝ) (s : ℕ) : 0 < 1 + (s : ℝ) * (M * M) := by
  have : 0 ≤ (s : ℝ) * (M * M) := mul_nonneg (Nat.cast_nonneg s) (mul_self_nonneg M)
  linarith

theorem Bseq_nonneg (s : ℕ) : 0 ≤ Bseq ℓ N α M s :=
  div_nonneg (le_max_right _ _) (Dseq_pos M s).le

/-- once `|u|_(s+1) ≤ w_s`, also `|u|_(s+2) ≤ w_{s+1}`: the mask `lower > w` is a prefix -/
theorem stepA (hM : 0 ≤ M) {s : ℕ} (hanti : ℓ (s + 1) ≤ ℓ s)
    (h : ℓ s ≤ M * Bseq ℓ N α M s) : ℓ (s + 1) ≤ M * Bseq ℓ N α M (s + 1) := by
  have hD := Dseq_pos M s
  have hD' := Dseq_pos M (s + 1)
  have hDD : 1 + ((s + 1 : ℕ) : ℝ) * (M * M) = 1 + (s : ℝ) * (M * M) + M * M := by push_cast; ring
  rcases le_or_gt (ℓ s) 0 with ht | ht
  · exact le_trans (le_trans hanti ht) (mul_nonneg hM (Bseq_nonneg _))
  · unfold Bseq at h ⊢
    rw [← mul_div_assoc, le_div_iff₀ hD] at h
    rw [← mul_div_assoc, le_div_iff₀ hD', Aseq_succ, hDD]
    set A := Aseq ℓ N α M s
    set D := 1 + (s : ℝ) * (M * M)
    have hApos : 0 < A := by
      by_contra hA
      rw [max_eq_right (not_lt.mp hA), mul_zero] at h
      nlinarith
    rw [max_eq_left hApos.le] at h
    have h1 : M * (A + M * ℓ s) ≤ M * max (A + M * ℓ s) 0 := mul_le_mul_of_nonneg_left (le_max_left _ _) hM
    have h2 : ℓ (s + 1) * (D + M * M) ≤ ℓ s * (D + M * M) :=
      mul_le_mul_of_nonneg_right hanti (by nlinarith [mul_self_nonneg M])
    nlinarith

/-- if `|u|_(s+1) > w_s` then `w_{s+1} ≤ |u|_(s+1)`: `b_{s+1}` is a weighted mean of `b_s` and `|u|_(s+1)/M` -/
theorem stepB (hM : 0 ≤ M) {s : ℕ} (hnn : 0 ≤ ℓ s)
    (h : M * Bseq ℓ N α M s < ℓ s) : M * Bseq ℓ N α M (s + 1) ≤ ℓ s := by
  have hD := Dseq_pos M s
  have hD' := Dseq_pos M (s + 1)
  have hDD : 1 + ((s + 1 : ℕ) : ℝ) * (M * M) = 1 + (s : ℝ) * (M * M) + M * M := by push_cast; ring
  unfold Bseq at h ⊢
  rw [← mul_div_assoc, div_lt_iff₀ hD] at h
  rw [← mul_div_assoc, div_le_iff₀ hD', Aseq_succ, hDD]
  set A := Aseq ℓ N α M s
  set D := 1 + (s : ℝ) * (M * M)
  have h1 : M * A ≤ M * max A 0 := mul_le_mul_of_nonneg_left (le_max_left _ _) hM
  rcases le_total (A + M * ℓ s) 0 with hA | hA
  · rw [max_eq_right hA, mul_zero]
    exact mul_nonneg hnn (by nlinarith [mul_self_nonneg M])
  · rw [max_eq_left hA]
    nlinarith

/-- the value `np.sum(lower > w)` for the sequences -/
noncomputable def kIdx (ℓ : ℕ → ℝ) (N α M : ℝ) (h : ℕ) : ℕ :=
  ((List.range (h + 1)).filter fun s => decide (M * Bseq ℓ N α M s < ℓ s)).length

/-- **The breakpoint search returns a stationary point of the reduced problem.** -/
theorem breakpoint_kkt (hM : 0 ≤ M) (hnn : ∀ s, 0 ≤ ℓ s) (hanti : Antitone ℓ) (h : ℕ) (hh : ℓ h = 0) :
    kIdx ℓ N α M h ≤ h ∧
    Bseq ℓ N α M (kIdx ℓ N α M h)
      = max (N - α + M * ∑ i ∈ Finset.range h, max (ℓ i - M * Bseq ℓ N α M (kIdx ℓ N α M h)) 0) 0 := by
  set p : ℕ → Bool := fun s => decide (M * Bseq ℓ N α M s < ℓ s) with hp
  have hdown : ∀ s, s + 1 < h + 1 → p (s + 1) = true → p s = true := by
    intro s _ hs
    by_contra hns
    have h1 : ℓ s ≤ M * Bseq ℓ N α M s := by
      simpa [hp] using hns
    have h2 := stepA (N := N) (α := α) hM (hanti (Nat.le_succ s)) h1
    have h3 : M * Bseq ℓ N α M (s + 1) < ℓ (s + 1) := by simpa [hp] using hs
    linarith
  obtain ⟨c1, c2, c3⟩ := prefix_count p (h + 1) hdown
  have hk : kIdx ℓ N α M h = ((List.range (h + 1)).filter p).length := rfl
  rw [← hk] at c1 c2 c3
  set k := kIdx ℓ N α M h
  have hph : p h = false := by
    simp only [hp, decide_eq_false_iff_not, not_lt, hh]
    exact mul_nonneg hM (Bseq_nonneg _)
  have hkh : k ≤ h := by
    by_contra hc
    have : p h = true := c1 h (by omega)
    rw [hph] at this; exact absurd this (by simp)
  refine ⟨hkh, ?_⟩
  have hlow : ℓ k ≤ M * Bseq ℓ N α M k := by
    have := c2 (by omega)
    simpa [hp] using this
  have hup : ∀ i, i < k → M * Bseq ℓ N α M k ≤ ℓ i := by
    intro i hi
    obtain ⟨k', hk'⟩ : ∃ k', k = k' + 1 := ⟨k - 1, by omega⟩
    have hpk : p k' = true := c1 k' (by omega)
    have h1 : M * Bseq ℓ N α M k' < ℓ k' := by simpa [hp] using hpk
    have h2 := stepB (N := N) (α := α) hM (hnn k') h1
    rw [← hk'] at h2
    exact le_trans h2 (hanti (by omega))
  set b := Bseq ℓ N α M k with hb
  -- the sum of the positive parts
  have hsum : ∑ i ∈ Finset.range h, max (ℓ i - M * b) 0
      = ∑ i ∈ Finset.range k, ℓ i - k * (M * b) := by
    rw [← Finset.sum_range_add_sum_Ico _ hkh]
    have e1 : ∑ i ∈ Finset.range k, max (ℓ i - M * b) 0 = ∑ i ∈ Finset.range k, (ℓ i - M * b) :=
      Finset.sum_congr rfl fun i hi => max_eq_left (by linarith [hup i (Finset.mem_range.mp hi)])
    have e2 : ∑ i ∈ Finset.Ico k h, max (ℓ i - M * b) 0 = 0 :=
      Finset.sum_eq_zero fun i hi => max_eq_right (by
        have := hanti (Finset.mem_Ico.mp hi).1
        linarith)
    rw [e1, e2, Finset.sum_sub_distrib, Finset.sum_const, Finset.card_range, nsmul_eq_mul, add_zero]
  rw [hsum]
  have hD := Dseq_pos M k
  have hA : Aseq ℓ N α M k = N - α + M * ∑ i ∈ Finset.range k, ℓ i := by unfold Aseq; ring
  have hbdef : b = max (Aseq ℓ N α M k) 0 / (1 + (k : ℝ) * (M * M)) := rfl
  rcases le_total (Aseq ℓ N α M k) 0 with hneg | hpos
  · have hb0 : b = 0 := by rw [hbdef, max_eq_right hneg, zero_div]
    rw [hb0, max_eq_right]
    rw [hb0] at hsum
    linarith [hA]
  · have hbD : b * (1 + (k : ℝ) * (M * M)) = Aseq ℓ N α M k := by
      rw [hbdef, max_eq_left hpos, div_mul_cancel₀ _ hD.ne']
    have hb0 : 0 ≤ b := Bseq_nonneg _
    rw [max_eq_left]
    · linarith [hA, hbD]
    · nlinarith [hA, hbD]

/-! ### part 2: the model -/

variable {k h : ℕ}

theorem uAbsSorted_perm (u : Fin h → ℝ) : (uAbsSorted u).Perm (List.ofFn fun j => |u j|) := by
  unfold uAbsSorted
  exact sortDesc_perm _

theorem uAbsSorted_length (u : Fin h → ℝ) : (uAbsSorted u).length = h := by
  rw [(uAbsSorted_perm u).length_eq, List.length_ofFn]

theorem uAbsSorted_nonneg (u : Fin h → ℝ) : ∀ x ∈ uAbsSorted u, 0 ≤ x := by
  intro x hx
  have := (uAbsSorted_perm u).mem_iff.mp hx
  obtain ⟨j, rfl⟩ := (List.mem_ofFn' _ _).mp this
  exact abs_nonneg _

theorem uAbsSorted_pairwise (u : Fin h → ℝ) : (uAbsSorted u).Pairwise (· ≥ ·) := sortDesc_pairwise _

/-- sums over the hidden weights are sums over the sorted breakpoints -/
theorem sum_abs_eq_range (u : Fin h → ℝ) (f : ℝ → ℝ) :
    ∑ j, f |u j| = ∑ i ∈ Finset.range h, f (seqOf (uAbsSorted u) i) := by
  have h1 := sum_map_eq_range (uAbsSorted u) f
  rw [uAbsSorted_length] at h1
  rw [← h1, ((uAbsSorted_perm u).map f).sum_eq, List.map_ofFn, List.sum_ofFn]
  rfl

theorem aS_eq (L : List ℝ) (α M : ℝ) {s : ℕ} (hs : s ≤ L.length) :
    aS L α M s = α - M * ∑ t ∈ Finset.range s, seqOf L t := by
  unfold aS; rw [prefix_getD L s hs]

theorem xS_mul_norm (L : List ℝ) (α M : ℝ) {Nv : ℝ} (hN : 0 < Nv) {s : ℕ} (hs : s ≤ L.length) :
    xS L α M Nv s * Nv = Bseq (seqOf L) Nv α M s := by
  unfold xS Bseq Aseq
  rw [aS_eq L α M hs]
  simp only [RealLike.max_real, RealLike.nat_real]
  rw [div_mul_eq_mul_div, max_mul_of_nonneg _ _ hN.le, zero_mul, sub_mul, one_mul,
    div_mul_cancel₀ _ hN.ne']

theorem xS_nonneg (L : List ℝ) (α M Nv : ℝ) (s : ℕ) : 0 ≤ xS L α M Nv s := by
  unfold xS
  simp only [RealLike.max_real, RealLike.nat_real]
  exact div_nonneg (le_max_right _ _) (Dseq_pos M s).le

theorem wS_eq (L : List ℝ) (α M : ℝ) {Nv : ℝ} (hN : 0 < Nv) {s : ℕ} (hs : s ≤ L.length) :
    wS L α M Nv s = M * Bseq (seqOf L) Nv α M s := by
  unfold wS; rw [mul_assoc, xS_mul_norm L α M hN hs]

theorem hierIdx_eq {L : List ℝ} (hnn : ∀ x ∈ L, 0 ≤ x) (α M : ℝ) {Nv : ℝ} (hN : 0 < Nv) :
    hierIdx L α M Nv = kIdx (seqOf L) Nv α M L.length := by
  unfold hierIdx kIdx
  congr 1
  apply List.filter_congr
  intro s hs
  have hs' : s ≤ L.length := by
    have := List.mem_range.mp hs; omega
  rw [wS_eq L α M hN hs', lowerS_eq hnn]
  simp

/-- `θ*` of the model is the clipping of `u` at `w*` -/
theorem theta_eq (u : Fin h → ℝ) (ws : ℝ) (j : Fin h) :
    signPM (u j) * RealLike.min (softThreshold 0 (RealLike.abs (u j))) ws = clipPM ws (u j) := by
  unfold clipPM
  rw [signPM_real]
  simp only [RealLike.abs_real, RealLike.min_real]
  rw [softThreshold_zero_of_nonneg (abs_nonneg _)]

/-- everything the optimality proof needs about one row with non-zero skip weights -/
theorem hierRow_kkt (v : Fin k → ℝ) (u : Fin h → ℝ) (hv : v ≠ 0) {α M : ℝ} (hM : 0 ≤ M) :
    0 ≤ xStar v u α M ∧ wStar v u α M = M * (xStar v u α M * ‖toE v‖) ∧
    xStar v u α M * ‖toE v‖
      = max (‖toE v‖ - α + M * ∑ j, max (|u j| - M * (xStar v u α M * ‖toE v‖)) 0) 0 := by
  have hNpos : 0 < norm2 v := lt_of_le_of_ne (norm2_nonneg v) (fun h0 => hv (norm2_eq_zero.mp h0.symm))
  have hn := norm2_eq v
  set L := uAbsSorted u with hL
  have hlen : L.length = h := uAbsSorted_length u
  have hnnL := uAbsSorted_nonneg u
  have hidx := hierIdx_eq hnnL α M hNpos
  have hseq_h : seqOf L L.length = 0 := seqOf_of_ge (le_refl _)
  obtain ⟨hk, hkkt⟩ := breakpoint_kkt (N := norm2 v) (α := α) hM (seqOf_nonneg hnnL)
    (seqOf_antitone (uAbsSorted_pairwise u) hnnL) L.length hseq_h
  have hx : xStar v u α M * norm2 v = Bseq (seqOf L) (norm2 v) α M (kIdx (seqOf L) (norm2 v) α M L.length) := by
    unfold xStar
    simp only
    rw [← hL, hidx, xS_mul_norm L α M hNpos hk]
  have hw : wStar v u α M = M * (xStar v u α M * norm2 v) := by
    unfold wStar xStar wS
    simp only
    rw [mul_assoc]
  refine ⟨xS_nonneg _ _ _ _ _, ?_, ?_⟩
  · rw [← hn]; exact hw
  · rw [← hn, hx, sum_abs_eq_range u (fun a => max (a - M * _) 0)]
    rw [hlen] at hkkt ⊢
    exact hkkt

end GemVerif
