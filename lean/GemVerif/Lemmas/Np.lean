/-
  Reading rules of the untyped NumPy of GemVerif/Np.lean: shape, error flag and entries of every operation
  (all by unfolding), the broadcasting arithmetic on sizes, and the two introduction rules
  `Arr.eqv_ofFn` / `Arr.eqv_ofRow` used by Props/C03Gen.lean.  Generic in `[RealLike α]`; no Mathlib.
-/
import GemVerif.Np

set_option linter.unusedSectionVars false

namespace GemVerif.Np
open GemVerif RealLike

/-! ### memo tables are transparent (Mathlib-free copies of `tab_apply` / `tab2_apply` of NumReal.lean) -/

@[simp] theorem tab_apply' {α : Type} [Inhabited α] {n : Nat} (f : Fin n → α) (i : Fin n) :
    (tab f) i = f i := by
  simp [tab, Tab.get]

@[simp] theorem tab_get' {α : Type} [Inhabited α] {n : Nat} (f : Fin n → α) (i : Fin n) :
    Tab.get (tab f) i = f i := tab_apply' f i

@[simp] theorem tab2_apply' {α : Type} [Inhabited α] {n k : Nat} (f : Fin n → Fin k → α)
    (i : Fin n) (j : Fin k) : (tab2 f) i j = f i j := by
  simp [tab2, Tab2.get]

@[simp] theorem tab2_get' {α : Type} [Inhabited α] {n k : Nat} (f : Fin n → Fin k → α)
    (i : Fin n) (j : Fin k) : Tab2.get (tab2 f) i j = f i j := tab2_apply' f i j

@[simp] theorem tab2_get_fun' {α : Type} [Inhabited α] {n k : Nat} (f : Fin n → Fin k → α) :
    Tab2.get (tab2 f) = f := by
  funext i j; exact tab2_get' f i j

/-- one row of `affine`, for rewriting under `softmaxRow` (where `affine` occurs applied to the row only) -/
theorem affine_row {α : Type} [RealLike α] {n d K : Nat} (X : Fin n → Fin d → α) (W : Fin d → Fin K → α)
    (b : Fin K → α) (i : Fin n) :
    Model.Nets.affine X W b i = fun k => (sumFin fun j => X i j * W j k) + b k := rfl

/-! ### broadcasting arithmetic -/

@[simp] theorem bdim_self (a : Nat) : bdim a a = a := by simp [bdim]
@[simp] theorem bdim_one_right (a : Nat) : bdim a 1 = a := by
  unfold bdim; split <;> simp_all
@[simp] theorem bdim_one_left (a : Nat) : bdim 1 a = a := by
  unfold bdim; split <;> simp_all
@[simp] theorem bok_self (a : Nat) : bok a a = true := by simp [bok]
@[simp] theorem bok_one_right (a : Nat) : bok a 1 = true := by simp [bok]
@[simp] theorem bok_one_left (a : Nat) : bok 1 a = true := by simp [bok]
@[simp] theorem bidx_val {n : Nat} (i : Fin n) : bidx n i.val = i.val := by
  unfold bidx; split
  · have := i.isLt; omega
  · rfl
@[simp] theorem bidx_one (i : Nat) : bidx 1 i = 0 := by simp [bidx]

@[simp] theorem sumTo_def {α : Type} [Zero α] [Add α] (n : Nat) (f : Nat → α) :
    sumTo n f = sumFin fun l : Fin n => f l.val := rfl

namespace Arr
variable {α : Type} [RealLike α]

/-! ### inputs -/

@[simp] theorem ofFn_r {n k : Nat} (f : Fin n → Fin k → α) : (ofFn f).r = n := rfl
@[simp] theorem ofFn_c {n k : Nat} (f : Fin n → Fin k → α) : (ofFn f).c = k := rfl
@[simp] theorem ofFn_ok {n k : Nat} (f : Fin n → Fin k → α) : (ofFn f).ok = true := rfl
@[simp] theorem ofFn_get {n k : Nat} (f : Fin n → Fin k → α) (i : Fin n) (j : Fin k) :
    (ofFn f).get i.val j.val = f i j := by
  simp [ofFn]

@[simp] theorem ofRow_r {k : Nat} (f : Fin k → α) : (ofRow f).r = 1 := rfl
@[simp] theorem ofRow_c {k : Nat} (f : Fin k → α) : (ofRow f).c = k := rfl
@[simp] theorem ofRow_ok {k : Nat} (f : Fin k → α) : (ofRow f).ok = true := rfl
@[simp] theorem ofRow_get {k : Nat} (f : Fin k → α) (i : Nat) (j : Fin k) :
    (ofRow f).get i j.val = f j := by
  simp [ofRow]

/-! ### operations: shape, flag, entries -/

@[simp] theorem matmul_r (A B : Arr α) : (matmul A B).r = A.r := rfl
@[simp] theorem matmul_c (A B : Arr α) : (matmul A B).c = B.c := rfl
@[simp] theorem matmul_ok (A B : Arr α) : (matmul A B).ok = (A.ok && B.ok && A.c == B.r) := rfl
@[simp] theorem matmul_get (A B : Arr α) (i j : Nat) :
    (matmul A B).get i j = sumTo A.c fun l => A.get i l * B.get l j := rfl

@[simp] theorem transpose_r (A : Arr α) : (transpose A).r = A.c := rfl
@[simp] theorem transpose_c (A : Arr α) : (transpose A).c = A.r := rfl
@[simp] theorem transpose_ok (A : Arr α) : (transpose A).ok = A.ok := rfl
@[simp] theorem transpose_get (A : Arr α) (i j : Nat) : (transpose A).get i j = A.get j i := rfl

@[simp] theorem zipWith_r (f : α → α → α) (A B : Arr α) : (zipWith f A B).r = bdim A.r B.r := rfl
@[simp] theorem zipWith_c (f : α → α → α) (A B : Arr α) : (zipWith f A B).c = bdim A.c B.c := rfl
@[simp] theorem zipWith_ok (f : α → α → α) (A B : Arr α) :
    (zipWith f A B).ok = (A.ok && B.ok && bok A.r B.r && bok A.c B.c) := rfl
@[simp] theorem zipWith_get (f : α → α → α) (A B : Arr α) (i j : Nat) :
    (zipWith f A B).get i j = f (A.get (bidx A.r i) (bidx A.c j)) (B.get (bidx B.r i) (bidx B.c j)) := rfl

@[simp] theorem neg_r (A : Arr α) : (neg A).r = A.r := rfl
@[simp] theorem neg_c (A : Arr α) : (neg A).c = A.c := rfl
@[simp] theorem neg_ok (A : Arr α) : (neg A).ok = A.ok := rfl
@[simp] theorem neg_get (A : Arr α) (i j : Nat) : (neg A).get i j = -(A.get i j) := rfl

@[simp] theorem smul_r (s : α) (A : Arr α) : (smul s A).r = A.r := rfl
@[simp] theorem smul_c (s : α) (A : Arr α) : (smul s A).c = A.c := rfl
@[simp] theorem smul_ok (s : α) (A : Arr α) : (smul s A).ok = A.ok := rfl
@[simp] theorem smul_get (s : α) (A : Arr α) (i j : Nat) : (smul s A).get i j = s * A.get i j := rfl

@[simp] theorem muls_r (s : α) (A : Arr α) : (muls A s).r = A.r := rfl
@[simp] theorem muls_c (s : α) (A : Arr α) : (muls A s).c = A.c := rfl
@[simp] theorem muls_ok (s : α) (A : Arr α) : (muls A s).ok = A.ok := rfl
@[simp] theorem muls_get (s : α) (A : Arr α) (i j : Nat) : (muls A s).get i j = A.get i j * s := rfl

@[simp] theorem sumAxis0_r (A : Arr α) : (sumAxis0 A).r = 1 := rfl
@[simp] theorem sumAxis0_c (A : Arr α) : (sumAxis0 A).c = A.c := rfl
@[simp] theorem sumAxis0_ok (A : Arr α) : (sumAxis0 A).ok = A.ok := rfl
@[simp] theorem sumAxis0_get (A : Arr α) (i j : Nat) :
    (sumAxis0 A).get i j = sumTo A.r fun l => A.get l j := rfl

@[simp] theorem sumAxis1_r (A : Arr α) : (sumAxis1 A).r = A.r := rfl
@[simp] theorem sumAxis1_c (A : Arr α) : (sumAxis1 A).c = 1 := rfl
@[simp] theorem sumAxis1_ok (A : Arr α) : (sumAxis1 A).ok = A.ok := rfl
@[simp] theorem sumAxis1_get (A : Arr α) (i j : Nat) :
    (sumAxis1 A).get i j = sumTo A.c fun l => A.get i l := rfl

@[simp] theorem gt0_r (A : Arr α) : (gt0 A).r = A.r := rfl
@[simp] theorem gt0_c (A : Arr α) : (gt0 A).c = A.c := rfl
@[simp] theorem gt0_ok (A : Arr α) : (gt0 A).ok = A.ok := rfl
@[simp] theorem gt0_get (A : Arr α) (i j : Nat) : (gt0 A).get i j = ofBool (lt 0 (A.get i j)) := rfl

@[simp] theorem maximum0_r (A : Arr α) : (maximum0 A).r = A.r := rfl
@[simp] theorem maximum0_c (A : Arr α) : (maximum0 A).c = A.c := rfl
@[simp] theorem maximum0_ok (A : Arr α) : (maximum0 A).ok = A.ok := rfl
@[simp] theorem maximum0_get (A : Arr α) (i j : Nat) : (maximum0 A).get i j = max (A.get i j) 0 := rfl

@[simp] theorem softmax_r (A : Arr α) : (softmax A).r = A.r := rfl
@[simp] theorem softmax_c (A : Arr α) : (softmax A).c = A.c := rfl
@[simp] theorem softmax_ok (A : Arr α) : (softmax A).ok = A.ok := rfl
@[simp] theorem softmax_get (A : Arr α) (i j : Nat) :
    (softmax A).get i j = softmaxRowN A.c (fun k => A.get i k) j := rfl

@[simp] theorem softmaxRowN_val {K : Nat} (z : Nat → α) (j : Fin K) :
    softmaxRowN K z j.val = Model.Nets.softmaxRow (fun k : Fin K => z k.val) j := by
  simp [softmaxRowN]

/-! ### lists -/

@[simp] theorem nth_cons_zero (A : Arr α) (L : List (Arr α)) : nth (A :: L) 0 = A := rfl
@[simp] theorem nth_cons_succ (A : Arr α) (L : List (Arr α)) (i : Nat) : nth (A :: L) (i + 1) = nth L i := rfl
@[simp] theorem setNth_cons_zero (A B : Arr α) (L : List (Arr α)) : setNth (A :: L) 0 B = B :: L := by
  simp [setNth]

@[simp] theorem listEqv_nil : ListEqv ([] : List (Arr α)) [] = True := rfl
@[simp] theorem listEqv_cons (A B : Arr α) (L M : List (Arr α)) :
    ListEqv (A :: L) (B :: M) = (Eqv A B ∧ ListEqv L M) := rfl

/-! ### introduction rules for `Eqv` -/

/-- `A` is the `n × k` matrix `f`: no error, the right shape, the right entries -/
theorem eqv_ofFn {n k : Nat} {A : Arr α} {f : Fin n → Fin k → α} (hok : A.ok = true) (hr : A.r = n) (hc : A.c = k)
    (h : ∀ (i : Fin n) (j : Fin k), A.get i.val j.val = f i j) : Eqv A (ofFn f) := by
  subst hr hc
  refine ⟨hok, rfl, rfl, rfl, fun i j hi hj => ?_⟩
  have := h ⟨i, hi⟩ ⟨j, hj⟩
  simp only [ofFn, hi, hj, dite_true]
  exact this

/-- `A` is the `1 × k` row `f` -/
theorem eqv_ofRow {k : Nat} {A : Arr α} {f : Fin k → α} (hok : A.ok = true) (hr : A.r = 1) (hc : A.c = k)
    (h : ∀ j : Fin k, A.get 0 j.val = f j) : Eqv A (ofRow f) := by
  subst hc
  refine ⟨hok, rfl, hr, rfl, fun i j hi hj => ?_⟩
  have := h ⟨j, hj⟩
  have hi0 : i = 0 := by omega
  subst hi0
  simp only [ofRow, hj, dite_true]
  exact this

/-- `Eqv` reads entries only inside the shape: what it says about an `ofFn` right-hand side, spelled out -/
theorem eqv_ofFn_iff {n k : Nat} {A : Arr α} {f : Fin n → Fin k → α} :
    Eqv A (ofFn f) ↔ A.ok = true ∧ A.r = n ∧ A.c = k ∧ ∀ (i : Fin n) (j : Fin k), A.get i.val j.val = f i j := by
  constructor
  · rintro ⟨hok, -, hr, hc, h⟩
    refine ⟨hok, hr, hc, fun i j => ?_⟩
    have := h i.val j.val (by rw [hr]; exact i.isLt) (by rw [hc]; exact j.isLt)
    rw [this]; exact ofFn_get f i j
  · rintro ⟨hok, hr, hc, h⟩
    exact eqv_ofFn hok hr hc h

end Arr
end GemVerif.Np
