/-
  Helper lemmas for C20 (synthetic data generators): the assembly model of `Model/DataGen.lean` at ℝ.

  * `ofInt_real`, `ofQ_real`, `ofQ3_real`: exact constants are the real numbers they denote.
  * `sumTo_real`: the left-to-right sum is `∑ k ∈ range n`.
  * `checkCommon_none_iff`, `checkComp_none_iff`, `checkComps_none_iff`: a guard list passes iff each guard passes.
  * `commonGuard_*`, `compGuard_*`: what each guard token tests, over ℝ.
  * `getElem?_selectRows`, `studentRow` / `studentT` / `affineRow` entry lemmas.
-/
import GemVerif.NumReal
import GemVerif.Model.DataGen
import Mathlib.Algebra.BigOperators.Intervals
import Mathlib.Tactic.Ring
import Mathlib.Tactic.NormNum
import Mathlib.Tactic.Linarith
import Mathlib.Tactic.FieldSimp

namespace GemVerif.DataGenLemmas
open scoped BigOperators
open GemVerif GemVerif.Model.DataGen

/-! ### constants -/

theorem ofInt_real (z : ℤ) : (ofInt z : ℝ) = (z : ℝ) := by
  unfold ofInt
  split
  · rename_i h
    show -((z.natAbs : ℕ) : ℝ) = z
    rw [Nat.cast_natAbs, abs_of_neg (by exact_mod_cast h)]; simp
  · rename_i h
    show ((z.natAbs : ℕ) : ℝ) = z
    rw [Nat.cast_natAbs, abs_of_nonneg (by exact_mod_cast (not_lt.1 h))]

theorem ofQ_real (q : Gen.DataGen.Q) : (ofQ q : ℝ) = (q.1 : ℝ) / (q.2 : ℝ) := by
  unfold ofQ
  rw [ofInt_real]

theorem ofQ3_real (q : Gen.DataGen.Q3) :
    (ofQ3 q : ℝ) = (q.1.1 : ℝ) / (q.1.2 : ℝ) + (q.2.1 : ℝ) / (q.2.2 : ℝ) * Real.sqrt 3 := by
  unfold ofQ3
  rw [ofQ_real, ofQ_real]
  simp [RealLike.nat]

theorem sumTo_real (n : ℕ) (f : ℕ → ℝ) : sumTo n f = ∑ k ∈ Finset.range n, f k := by
  unfold sumTo
  induction n with
  | zero => simp
  | succ n ih =>
    rw [List.range_succ, List.foldl_append, ih, Finset.sum_range_succ]
    simp

/-! ### guard lists -/

theorem checkCommon_none_iff (p : GmmIn ℝ) (gs : List String) :
    checkCommon p gs = none ↔ ∀ g ∈ gs, commonGuard g p = none := by
  induction gs with
  | nil => simp [checkCommon]
  | cons g gs ih =>
    unfold checkCommon
    cases h : commonGuard g p with
    | none => simp [ih, h]
    | some e => simp [h]

theorem checkComp_none_iff (p : GmmIn ℝ) (k : ℕ) (gs : List String) :
    checkComp p k gs = none ↔ ∀ g ∈ gs, compGuard g p k = none := by
  induction gs with
  | nil => simp [checkComp]
  | cons g gs ih =>
    unfold checkComp
    cases h : compGuard g p k with
    | none => simp [ih, h]
    | some e => simp [h]

theorem checkComps_none_iff (p : GmmIn ℝ) (gs : List String) (ks : List ℕ) :
    checkComps p gs ks = none ↔ ∀ k ∈ ks, ∀ g ∈ gs, compGuard g p k = none := by
  induction ks with
  | nil => simp [checkComps]
  | cons k ks ih =>
    unfold checkComps
    cases h : checkComp p k gs with
    | none =>
      have hk := (checkComp_none_iff p k gs).1 h
      simp only [List.mem_cons, forall_eq_or_imp, ih]
      exact ⟨fun h' => ⟨hk, h'⟩, fun h' => h'.2⟩
    | some e =>
      simp only [reduceCtorEq, List.mem_cons, forall_eq_or_imp, false_iff, not_and]
      intro hk
      have := (checkComp_none_iff p k gs).2 hk
      rw [h] at this
      exact absurd this (by simp)

/-! ### what each token tests (over ℝ) -/

theorem commonGuard_lenScale (p : GmmIn ℝ) :
    commonGuard "lenScale" p = none ↔ p.scaleShape[0]? = some p.K := by
  unfold commonGuard
  simp only [↓reduceIte]
  cases h : p.scaleShape[0]? with
  | none => simp
  | some s =>
    by_cases hs : p.K = s
    · simp [hs]
    · simp [hs]; exact fun h => hs h.symm

theorem commonGuard_square (p : GmmIn ℝ) :
    commonGuard "square" p = none ↔ (p.d ≠ 1 → p.scaleShape[1]? = some p.d ∧ p.scaleShape[2]? = some p.d) := by
  unfold commonGuard
  simp only [show ("square" = "lenScale") = False by decide, ↓reduceIte]
  by_cases hd : p.d = 1
  · simp [hd]
  · simp only [ne_eq, hd, not_false_eq_true, ↓reduceIte, forall_const]
    cases h1 : p.scaleShape[1]? with
    | none => simp
    | some a =>
      cases h2 : p.scaleShape[2]? with
      | none => simp
      | some b =>
        simp only [ite_eq_right_iff, reduceCtorEq, imp_false, not_or, not_not, Option.some.injEq]
        constructor
        · rintro ⟨h1, h2⟩; exact ⟨h1.symm, h2.symm⟩
        · rintro ⟨h1, h2⟩; exact ⟨h1.symm, h2.symm⟩

theorem commonGuard_lenPvals (p : GmmIn ℝ) : commonGuard "lenPvals" p = none ↔ p.pvalsLen = p.K := by
  unfold commonGuard
  simp only [show ("lenPvals" = "lenScale") = False by decide, show ("lenPvals" = "square") = False by decide, ↓reduceIte]
  by_cases h : p.K = p.pvalsLen
  · simp [h]
  · simp [h]; exact fun h' => h h'.symm

theorem commonGuard_pvalsPos (p : GmmIn ℝ) :
    commonGuard "pvalsPos" p = none ↔ ∀ k < p.pvalsLen, 0 < p.pvals k := by
  unfold commonGuard
  simp only [show ("pvalsPos" = "lenScale") = False by decide, show ("pvalsPos" = "square") = False by decide,
    show ("pvalsPos" = "lenPvals") = False by decide, ↓reduceIte]
  simp only [ite_eq_right_iff, reduceCtorEq, imp_false, List.any_eq_true, List.mem_range, RealLike.le_real,
    decide_eq_true_eq, not_exists, not_and, not_le]

theorem commonGuard_pvalsSum (p : GmmIn ℝ) :
    commonGuard "pvalsSum" p = none ↔ ∑ k ∈ Finset.range p.pvalsLen, p.pvals k = 1 := by
  unfold commonGuard
  simp only [show ("pvalsSum" = "lenScale") = False by decide, show ("pvalsSum" = "square") = False by decide,
    show ("pvalsSum" = "lenPvals") = False by decide, show ("pvalsSum" = "pvalsPos") = False by decide, ↓reduceIte]
  rw [sumTo_real]
  simp

theorem compGuard_varPos (p : GmmIn ℝ) (k : ℕ) : compGuard "varPos" p k = none ↔ 0 < p.var1 k := by
  unfold compGuard
  simp

theorem compGuard_eigNonneg (p : GmmIn ℝ) (k : ℕ) : compGuard "eigNonneg" p k = none ↔ p.eigNeg k = false := by
  unfold compGuard
  simp only [show ("eigNonneg" = "varPos") = False by decide, ↓reduceIte]
  cases p.eigNeg k <;> simp

theorem compGuard_notAllZero (p : GmmIn ℝ) (k : ℕ) : compGuard "notAllZero" p k = none ↔ p.allZero k = false := by
  unfold compGuard
  simp only [show ("notAllZero" = "varPos") = False by decide, show ("notAllZero" = "eigNonneg") = False by decide, ↓reduceIte]
  cases p.allZero k <;> simp

theorem compGuard_symmetric (p : GmmIn ℝ) (k : ℕ) : compGuard "symmetric" p k = none ↔ p.symm k = true := by
  unfold compGuard
  simp only [show ("symmetric" = "varPos") = False by decide, show ("symmetric" = "eigNonneg") = False by decide,
    show ("symmetric" = "notAllZero") = False by decide, ↓reduceIte]
  cases p.symm k <;> simp

/-! ### selection, Student-t, affine rows -/

theorem getElem?_selectRows {ρ : Type} (y : List ℕ) (draws : ℕ → ℕ → ρ) (i : ℕ) :
    (selectRows y draws)[i]? = y[i]?.map fun k => draws k i := by
  simp [selectRows, List.getElem?_mapIdx]

theorem length_selectRows {ρ : Type} (y : List ℕ) (draws : ℕ → ℕ → ρ) : (selectRows y draws).length = y.length := by
  simp [selectRows]

theorem getElem?_studentRow (df u : ℝ) (nx loc : List ℝ) (j : ℕ) (z l : ℝ) (hz : nx[j]? = some z) (hl : loc[j]? = some l) :
    (studentRow df u nx loc)[j]? = some (Real.sqrt (df / u) * z + l) := by
  simp [studentRow, List.getElem?_zipWith, hz, hl]

theorem getElem?_studentT (n : ℕ) (df : ℝ) (us : ℕ → ℝ) (nxs : ℕ → List ℝ) (loc : List ℝ) (i : ℕ) (hi : i < n) :
    (studentT n df us nxs loc)[i]? = some (studentRow df (us i) (nxs i) loc) := by
  simp [studentT, hi]

end GemVerif.DataGenLemmas
