/-
  The real-number instance of `RealLike`, and the simp lemmas that turn a model term
  instantiated at ℝ into ordinary Mathlib mathematics.  Proof files import this.
-/
import GemVerif.Num
import Mathlib.Analysis.SpecialFunctions.Log.Basic
import Mathlib.Analysis.SpecialFunctions.Sqrt
import Mathlib.Algebra.BigOperators.Fin
import Mathlib.Algebra.BigOperators.Field

namespace GemVerif
open scoped BigOperators

noncomputable instance : RealLike ℝ where
  log := Real.log
  sqrt := Real.sqrt
  exp := Real.exp
  abs x := |x|
  max a b := Max.max a b
  min a b := Min.min a b
  lt a b := decide (a < b)
  le a b := decide (a ≤ b)
  beq a b := decide (a = b)

namespace RealLike
@[simp] theorem log_real (x : ℝ) : RealLike.log x = Real.log x := rfl
@[simp] theorem sqrt_real (x : ℝ) : RealLike.sqrt x = Real.sqrt x := rfl
@[simp] theorem exp_real (x : ℝ) : RealLike.exp x = Real.exp x := rfl
@[simp] theorem abs_real (x : ℝ) : RealLike.abs x = |x| := rfl
@[simp] theorem max_real (x y : ℝ) : RealLike.max x y = Max.max x y := rfl
@[simp] theorem min_real (x y : ℝ) : RealLike.min x y = Min.min x y := rfl
@[simp] theorem lt_real (x y : ℝ) : RealLike.lt x y = decide (x < y) := rfl
@[simp] theorem le_real (x y : ℝ) : RealLike.le x y = decide (x ≤ y) := rfl
@[simp] theorem beq_real (x y : ℝ) : RealLike.beq x y = decide (x = y) := rfl
@[simp] theorem nat_real (n : Nat) : (RealLike.nat n : ℝ) = (n : ℝ) := rfl
@[simp] theorem half_real : (RealLike.half : ℝ) = 1 / 2 := by simp [RealLike.half]
theorem sq_real (x : ℝ) : RealLike.sq x = x ^ 2 := by simp [RealLike.sq, pow_two]

theorem clip_real (x lo hi : ℝ) : RealLike.clip x lo hi = Min.min (Max.max x lo) hi := rfl

/-- Inside the clipping window, clipping is the identity. -/
theorem clip_of_mem {x lo hi : ℝ} (h1 : lo ≤ x) (h2 : x ≤ hi) : RealLike.clip x lo hi = x := by
  simp [clip_real, h1, h2]
end RealLike

@[simp] theorem sumFin_eq_sum {n : Nat} (f : Fin n → ℝ) : sumFin f = ∑ i, f i := by
  simp [sumFin, List.sum_ofFn]

@[simp] theorem tab_apply {α : Type} [Inhabited α] {n : Nat} (f : Fin n → α) (i : Fin n) :
    (tab f) i = f i := by
  simp [tab, Tab.get]

@[simp] theorem tab_get {α : Type} [Inhabited α] {n : Nat} (f : Fin n → α) (i : Fin n) :
    Tab.get (tab f) i = f i := tab_apply f i

@[simp] theorem tab2_apply {α : Type} [Inhabited α] {n k : Nat} (f : Fin n → Fin k → α)
    (i : Fin n) (j : Fin k) : (tab2 f) i j = f i j := by
  simp [tab2, Tab2.get]

@[simp] theorem tab2_get {α : Type} [Inhabited α] {n k : Nat} (f : Fin n → Fin k → α)
    (i : Fin n) (j : Fin k) : Tab2.get (tab2 f) i j = f i j := tab2_apply f i j

theorem tab_coe {α : Type} [Inhabited α] {n : Nat} (f : Fin n → α) : (⇑(tab f) : Fin n → α) = f := by
  funext i; simp

theorem tab2_coe {α : Type} [Inhabited α] {n k : Nat} (f : Fin n → Fin k → α) :
    (⇑(tab2 f) : Fin n → Fin k → α) = f := by
  funext i j; simp

end GemVerif
