import GemVerif.Props.C03
#print axioms GemVerif.Props.C03.categoricalGrad_eq
