import GemVerif.Props.C14
#print axioms GemVerif.Props.C14.bfs_is_component
#print axioms GemVerif.Props.C14.structural_decides
#print axioms GemVerif.Props.C14.acceptor_iff_any_order
#print axioms GemVerif.Props.C14.acceptor_iff
#print axioms GemVerif.Props.C14.acceptor_order_irrelevant
#print axioms GemVerif.Props.C14.contradiction_iff
#print axioms GemVerif.Props.C14.acceptsCurrent_not_spec
#print axioms GemVerif.Props.C14.inject_formula
#print axioms GemVerif.Props.C14.contrib_def
#print axioms GemVerif.Props.C14.inject_untouched
#print axioms GemVerif.Props.C14.inject_single_cannot_link
#print axioms GemVerif.Props.C14.inject_single_must_link
#print axioms GemVerif.Props.C14.inject_is_penalty_gradient
#print axioms GemVerif.Props.C14.penalty_def
#print axioms GemVerif.Props.C14.inject_perm_equivariant
