import GemVerif.Props.C19
#print axioms GemVerif.Props.C19.print_leaf
#print axioms GemVerif.Props.C19.print_eq_render
#print axioms GemVerif.Props.C19.read_render_line
#print axioms GemVerif.Props.C19.read_print
#print axioms GemVerif.Props.C19.parse_print_prefix
#print axioms GemVerif.Props.C19.parse_print
#print axioms GemVerif.Props.C19.rules_eval
#print axioms GemVerif.Props.C19.print_parse_eval
#print axioms GemVerif.Props.C19.split_print
#print axioms GemVerif.Props.C19.print_parse_eval_text
#print axioms GemVerif.Props.C19.print_parse_eval_lines
#print axioms GemVerif.Props.C19.readBack_distinct
#print axioms GemVerif.Props.C19.print_parse_eval_distinct
#print axioms GemVerif.Props.C19.default_names_distinct
#print axioms GemVerif.Props.C19.user_names_distinct
#print axioms GemVerif.Props.C19.wellFormed_init
#print axioms GemVerif.Props.C19.wellFormed_addChild
