import GemVerif.Props.C19
#print axioms GemVerif.Props.C19.print_leaf
