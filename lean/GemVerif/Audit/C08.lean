import GemVerif.Props.C08
import GemVerif.Props.C08Max
#print axioms GemVerif.Props.C08.leftStar_eq_dJ
#print axioms GemVerif.Props.C08.rightStar_eq_dJ
#print axioms GemVerif.Props.C08.leftSwitch_eq_dJ
#print axioms GemVerif.Props.C08.rightSwitch_eq_dJ
#print axioms GemVerif.Props.C08.doubleStar_eq_dJ
#print axioms GemVerif.Props.C08.realloc_eq_dJ
#print axioms GemVerif.Props.C08Max.admissible_iff
#print axioms GemVerif.Props.C08Max.switch_guard_redundant
#print axioms GemVerif.Props.C08Max.realloc_guard_redundant
#print axioms GemVerif.Props.C08Max.computeAllSplits_ge_best
#print axioms GemVerif.Props.C08Max.computeAllSplits_max
#print axioms GemVerif.Props.C08Max.computeAllSplits_attained
#print axioms GemVerif.Props.C08Max.candAt_fields
#print axioms GemVerif.Props.C08Max.evaluated_iff
#print axioms GemVerif.Props.C08Max.findBestSplit_uses_candAt
#print axioms GemVerif.Props.C08Max.evaluatedB_iff
#print axioms GemVerif.Props.C08Max.findBestSplit_max
#print axioms GemVerif.Props.C08Max.findBestSplit_attained
#print axioms GemVerif.Props.C08Max.findBestSplit_gain_nonneg
#print axioms GemVerif.Props.C08Max.no_positive_gain_means_none
#print axioms GemVerif.Props.C08Max.fitStep_applies_best
#print axioms GemVerif.Props.C08Max.fit_stops_only_without_positive_gain
