import GemVerif.Props.C08
#print axioms GemVerif.Props.C08.leftStar_eq_dJ
#print axioms GemVerif.Props.C08.rightStar_eq_dJ
#print axioms GemVerif.Props.C08.leftSwitch_eq_dJ
#print axioms GemVerif.Props.C08.rightSwitch_eq_dJ
#print axioms GemVerif.Props.C08.doubleStar_eq_dJ
#print axioms GemVerif.Props.C08.realloc_eq_dJ
