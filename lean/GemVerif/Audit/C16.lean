import GemVerif.Props.C16
#print axioms GemVerif.Props.C16.documented_parameters_exist
#print axioms GemVerif.Props.C16.no_false_rejection_estimators
#print axioms GemVerif.Props.C16.no_false_rejection_functions
#print axioms GemVerif.Props.C16.knownDeviations_are_deviations
#print axioms GemVerif.Props.C16.no_false_acceptance_estimators
#print axioms GemVerif.Props.C16.no_false_acceptance_functions
#print axioms GemVerif.Props.C16.lateRejected_pass_the_table
#print axioms GemVerif.Props.C16.unvalidated_are_the_rows_without_entry
#print axioms GemVerif.Props.C16.decorator_keys_name_parameters
#print axioms GemVerif.Props.C16.string_sets_resolved
#print axioms GemVerif.Props.C16.checkGroups_translation
#print axioms GemVerif.Props.C16.checkGroups_characterisation
#print axioms GemVerif.Props.C16.kauri_inequality
#print axioms GemVerif.Props.C16.douglas_mask_length
