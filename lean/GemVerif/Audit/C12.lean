import GemVerif.Props.C12
#print axioms GemVerif.Props.C12.tables_complete
#print axioms GemVerif.Props.C12.eighteen_estimators
#print axioms GemVerif.Props.C12.fit_reads_only_config
#print axioms GemVerif.Props.C12.path_reads_only_config
#print axioms GemVerif.Props.C12.fitting_reads_subset_config
#print axioms GemVerif.Props.C12.config_untouched_on_return
#print axioms GemVerif.Props.C12.config_untouched_except_known
#print axioms GemVerif.Props.C12.fit_predict_score_never_assign_config
#print axioms GemVerif.Props.C12.init_identity
#print axioms GemVerif.Props.C12.init_stores_each_param
#print axioms GemVerif.Props.C12.observers_keep_inputs
#print axioms GemVerif.Props.C12.observers_read_model
#print axioms GemVerif.Props.C12.history_independence
#print axioms GemVerif.Props.C12.refit_same_object
