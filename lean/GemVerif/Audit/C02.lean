import GemVerif.Props.C02
import GemVerif.Props.C02Wass
import GemVerif.Props.C02Fast
#print axioms GemVerif.Props.C02.klGrad_clipped_zero
#print axioms GemVerif.Props.C02.tvGrad_clipped_zero
#print axioms GemVerif.Props.C02.hellingerGrad_clipped_zero
#print axioms GemVerif.Props.C02.chi2Grad_clipped_zero
#print axioms GemVerif.Props.C02.mmdGrad_clipped_zero
#print axioms GemVerif.Props.C02.wassGradT_clipped_zero
#print axioms GemVerif.Props.C02.wassGrad_clipped_zero
#print axioms GemVerif.Props.C02.kl_ova_hasDerivAt
#print axioms GemVerif.Props.C02.kl_ovo_hasDerivAt
#print axioms GemVerif.Props.C02.chi2_ova_hasDerivAt
#print axioms GemVerif.Props.C02.chi2_ovo_hasDerivAt
#print axioms GemVerif.Props.C02.hellinger_ova_hasDerivAt
#print axioms GemVerif.Props.C02.hellinger_ovo_hasDerivAt
#print axioms GemVerif.Props.C02.tv_ova_hasDerivAt
#print axioms GemVerif.Props.C02.mmd_ova_hasDerivAt
#print axioms GemVerif.Props.C02.tv_ovo_hasDerivAt
#print axioms GemVerif.Props.C02.mmd_ovo_hasDerivAt
#print axioms GemVerif.Props.C02Wass.wass_ova_hasDerivAt
#print axioms GemVerif.Props.C02Wass.wass_ovo_hasDerivAt
#print axioms GemVerif.Props.C02Wass.wass_ova_hasDerivAt_of_envelope
#print axioms GemVerif.Props.C02Wass.wass_ovo_hasDerivAt_of_envelope
#print axioms GemVerif.Props.C02Wass.wassGrad_shift_invariant
#print axioms GemVerif.Props.C02Wass.emdEnvelopeAt_shift_invariant
#print axioms GemVerif.Props.C02Fast.mmdAlphaFast_eq
#print axioms GemVerif.Props.C02Fast.mmdGammaFast_eq
#print axioms GemVerif.Props.C02Fast.mmdDeltaOvoFast_eq
#print axioms GemVerif.Props.C02Fast.mmdDeltaOvaFast_eq
#print axioms GemVerif.Props.C02Fast.mmdScoreFast_eq
#print axioms GemVerif.Props.C02Fast.mmdGradFast_eq
#print axioms GemVerif.Props.C02Fast.mmdGradFast_apply
