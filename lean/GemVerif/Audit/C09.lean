import GemVerif.Props.C09
#print axioms GemVerif.Props.C09.addChild_nNodes
