import GemVerif.Props.C01
#print axioms GemVerif.Props.C01.kl_ova_eq_spec
#print axioms GemVerif.Props.C01.registry_ok
#print axioms GemVerif.Props.C01.registry_names
