import GemVerif.Props.C17
#print axioms GemVerif.Props.C17.clipped_in_window
#print axioms GemVerif.Props.C17.kl_defined
#print axioms GemVerif.Props.C17.tv_defined
#print axioms GemVerif.Props.C17.hellinger_defined
#print axioms GemVerif.Props.C17.chi2_defined
#print axioms GemVerif.Props.C17.mmd_defined
#print axioms GemVerif.Props.C17.wasserstein_defined
#print axioms GemVerif.Props.C17.softmax_normaliser_pos
#print axioms GemVerif.Props.C17.linear_prox_defined
#print axioms GemVerif.Props.C17.hier_prox_denominator_pos
#print axioms GemVerif.Props.C17.douglas_divisors_pos
#print axioms GemVerif.Props.C17.kauri_gain_denominators
#print axioms GemVerif.Props.C17.leftStar_cleared
