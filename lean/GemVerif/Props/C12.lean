/-
  C12 — fitting is reproducible, history-independent and free of side effects.
  Property theorems only.  Table theorems are decided by the kernel over the WHOLE translated table
  `Gen.frameTables` (regenerated from /repo on every run by `translator/frames.py`); the semantic theorem
  `history_independence` instantiates `Lemmas.Frames.frame_determinism` with them.

  Partial: what ties the table to the code (soundness of the static dataflow extraction, determinism of numpy/BLAS/POT
  for an integer `random_state`, no mutation through aliases) is the hypothesis `Sound` — trusted, and validated
  dynamically by `harness/props/c12.py`.  Caller-side arrays are outside the store model altogether (checked
  dynamically only).
-/
import GemVerif.Lemmas.Frames
import GemVerif.Gen.Frames

namespace GemVerif.Props.C12
open GemVerif.Model.Frames GemVerif.Lemmas.Frames GemVerif.Gen

/-- The translated table is well formed: every estimator class has its hyperparameter list and exactly one frame for
    `__init__`, `fit`, `fit_predict`, `predict`, `score`; frames are unique per (class, method); `net ⊆ writes`,
    `netExc ⊆ writes`, `must ⊆ writes`; an attribute written and restored was read first. -/
theorem tables_complete : complete frameTables = true ∧ restoredAreRead frameTables = true := by
  decide +kernel

/-- 18 estimator classes are covered. -/
theorem eighteen_estimators : frameTables.classes.length = 18 := by decide

/-- `noStaleRead` for `fit` and `fit_predict` of ALL classes: every attribute a fit reads before writing it is a
    constructor hyperparameter or a constructor literal — never `W_`, `optimiser_`, `tree_`, `n_features_in_`, `H_`,
    `groups_`, numpy's global generator or any other state left behind by an earlier call. -/
theorem fit_reads_only_config :
    noStaleRead frameTables "fit" = true ∧ noStaleRead frameTables "fit_predict" = true := by
  decide +kernel

/-- `noStaleRead` for `path` (5 sparse classes): besides the configuration, `path` reads only what its own initial
    `fit` (and its own assignment of `optimiser_`) wrote earlier in the same call. -/
theorem path_reads_only_config : noStaleRead frameTables "path" = true := by
  decide +kernel

/-- Same fact, readable form: the reads-before-write of every fitting method are configuration attributes. -/
theorem fitting_reads_subset_config :
    ∀ f ∈ frameTables.frames, f.method ∈ fittingMethods → ∀ x ∈ f.reads, x ∈ config frameTables f.cls := by
  decide +kernel

/-- When it RETURNS NORMALLY, no public method other than the constructor leaves a hyperparameter or constructor literal
    changed (`fit`, `fit_predict`, `predict`, `predict_proba`, `score`, `get_gemini`, `get_selection`,
    `find_active_points`, `path`): the list of normal-exit violations of the translated table is exactly the listed
    one, which is empty.  (`path` assigns `alpha` but saves and restores it.) -/
theorem config_untouched_on_return : netViolations frameTables = knownDeviationsOnReturn := by
  decide +kernel

/-- Counting exits by exception too, the violations of the translated table are EXACTLY the listed deviations, i.e.
    none: a `fit`, `predict`, `score`, `path`, … that raises half-way leaves every hyperparameter intact (`path`
    restores `alpha` in a `finally`).  The equality is exact in both directions: a regression of the source makes this
    theorem fail. -/
theorem config_untouched_except_known : allViolations frameTables = knownDeviations := by
  decide +kernel

/-- `fit`, `fit_predict`, `predict`, `predict_proba`, `score` of every class assign no hyperparameter at all, not even
    temporarily. -/
theorem fit_predict_score_never_assign_config :
    ∀ f ∈ frameTables.frames, f.method ∈ ["fit", "fit_predict", "predict", "predict_proba", "score"] →
      ∀ x ∈ f.writes, x ∉ config frameTables f.cls := by
  decide +kernel

/-- Every constructor stores each of its parameters unchanged under the parameter's own name, stores nothing else under
    such a name, stores only literals elsewhere (`gemini = None | 'mi'`, `batch_size = None`, `dynamic = False`), reads
    nothing — so `get_params`, `set_params` and `clone` round-trip every hyperparameter. -/
theorem init_identity : initIdentity frameTables = true := by
  decide +kernel

/-- Readable consequences of `init_identity`. -/
theorem init_stores_each_param :
    (∀ c ∈ frameTables.classes, ∀ p ∈ hyperOf frameTables c, (⟨c, p, "param", p⟩ : InitStore) ∈ frameTables.init) ∧
    (∀ s ∈ frameTables.init, s.attr ∈ hyperOf frameTables s.cls → s.kind = "param" ∧ s.src = s.attr) := by
  decide +kernel

/-- `predict`, `predict_proba`, `score` (and the other non-fitting public methods) leave untouched every attribute a
    fitting method of the same class reads before writing. -/
theorem observers_keep_inputs : observersKeepInputs frameTables = true := by
  decide +kernel

/-- `predict`, `predict_proba`, `score`, … read only the configuration, the fitted-ness flag and attributes that `fit`
    definitely wrote: after a fit their answers are determined by that fit. -/
theorem observers_read_model : observersReadModel frameTables = true := by
  decide +kernel

/-- **History independence** for the translated table.  For every class `c`, every fitting method `m ∈ {fit, fit_predict,
    path}` with frame `f`, every semantics `S` that respects the translated frames (`Sound`, the trusted link to the
    code), every history `h` of public calls — `fit`, `fit_predict`, `predict`, `predict_proba`, `score`, `set_params`,
    `path`, `get_selection`, … in any order and number, returning or raising (minus the listed deviations: none) —
    and every object `τ` holding the configuration that the `set_params` calls of
    `h` alone produce from `σ` (a fresh object, a clone, the object itself before the history): if `m` returns after
    the history, it returns on `τ` too and both agree on everything `m` definitely writes (`W_`, `b_`, `labels_`,
    `tree_`, `optimiser_`, … see `f.must`). -/
theorem history_independence {Val Arg : Type} (c m : String) (hm : m ∈ fittingMethods)
    {f : Frame} (hf : frameOf frameTables c m = some f)
    (S : Sem Val Arg) (hs : Sound frameTables c S)
    (h : List (Call Val Arg)) (σ τ : Store Val)
    (hadm : Admissible frameTables c knownDeviationsOnReturn knownDeviations S σ h)
    (hτ : AgreeOn (config frameTables c) (run S σ (paramsOnly h)) τ) (a : Arg)
    (hreturns : S.returns m (run S σ h) a) :
    S.returns m τ a ∧ AgreeOn f.must (S.step m (run S σ h) a) (S.step m τ a) := by
  have hstale : noStaleRead frameTables m = true := by
    simp only [fittingMethods, List.mem_cons, List.not_mem_nil, or_false] at hm
    rcases hm with rfl | rfl | rfl
    · exact fit_reads_only_config.1
    · exact fit_reads_only_config.2
    · exact path_reads_only_config
  exact frame_determinism config_untouched_on_return config_untouched_except_known hs hf hstale h σ τ hadm hτ a hreturns

/-- Special case: refitting the SAME object after any admissible history that contains no `set_params` gives what the
    first fit of that object would have given. -/
theorem refit_same_object {Val Arg : Type} (c m : String) (hm : m ∈ fittingMethods)
    {f : Frame} (hf : frameOf frameTables c m = some f)
    (S : Sem Val Arg) (hs : Sound frameTables c S)
    (h : List (Call Val Arg)) (σ : Store Val)
    (hadm : Admissible frameTables c knownDeviationsOnReturn knownDeviations S σ h) (hnp : paramsOnly h = [])
    (a : Arg) (hreturns : S.returns m (run S σ h) a) :
    S.returns m σ a ∧ AgreeOn f.must (S.step m (run S σ h) a) (S.step m σ a) :=
  history_independence c m hm hf S hs h σ σ hadm (by rw [hnp]; exact AgreeOn.refl _ _) a hreturns

/-- The hypotheses of `history_independence` are jointly satisfiable with a non-trivial history: a semantics that
    respects every translated frame exists, and `fit, set_params(alpha=3), predict, path, set_params(alpha=1), score`
    is an admissible history of `SparseLinearModel`. -/
example : Sound (Val := Nat) (Arg := Unit) frameTables "SparseLinearModel" (toySem frameTables "SparseLinearModel") ∧
    Admissible frameTables "SparseLinearModel" knownDeviationsOnReturn knownDeviations
      (toySem (Arg := Unit) frameTables "SparseLinearModel") (fun _ => 7)
      [Call.meth "fit" (), Call.setParam "alpha" 3, Call.meth "predict" (), Call.meth "path" (), Call.setParam "alpha" 1,
       Call.meth "score" ()] ∧
    ∃ f, frameOf frameTables "SparseLinearModel" "fit" = some f := by
  refine ⟨toySem_sound _ _ tables_complete.2, ?_, Option.isSome_iff_exists.mp (by decide +kernel)⟩
  simp only [Admissible]
  refine ⟨by decide, Option.isSome_iff_exists.mp (by decide +kernel), Or.inl (by intro a; simp [knownDeviations]), ?_⟩
  refine ⟨by decide, Option.isSome_iff_exists.mp (by decide +kernel), Or.inl (by intro a; simp [knownDeviations]), ?_⟩
  refine ⟨by decide, Option.isSome_iff_exists.mp (by decide +kernel),
    Or.inr ⟨trivial, by intro a; simp [knownDeviationsOnReturn]⟩, ?_⟩
  exact ⟨by decide, Option.isSome_iff_exists.mp (by decide +kernel), Or.inl (by intro a; simp [knownDeviations]), trivial⟩

end GemVerif.Props.C12
