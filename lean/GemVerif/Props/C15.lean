/-
  C15 — Douglas: masked features are inert, the soft bins are probability vectors, the cell of a
  sample is the number of cut points below it, active points are as defined.
  Property theorems only; helper lemmas live in `GemVerif/Lemmas/Douglas*.lean`.
  Model: `GemVerif/Model/Douglas.lean` (tied to `gemclus/tree/douglas.py` by the correspondence run).

  Vocabulary.  `cl : List (ℕ × List α)` is `cut_points_list_` (feature index, cut points as stored),
  `binning T x cuts` the membership row of `_leaf_binning`, `leafRow T x cl` the row of `self._leaf`,
  `inferRow T x cl S` the row of `_infer` / `predict_proba`, `usedFeatures mask d` the features that
  receive cut points in `_init_params`, `numLeaf` the height of `leaf_scores_`.
-/
import GemVerif.Lemmas.DouglasLimit
import GemVerif.Lemmas.DouglasActive

namespace GemVerif.Props.C15
open scoped BigOperators Topology
open GemVerif Model.Douglas GemVerif.Douglas Filter

/-! ### masked features are inert -/

/-- `_infer` reads the data through the feature indices of `cut_points_list_` only: two samples that
    agree on those features get the same prediction.  Holds for every number type, in particular
    bit for bit on IEEE doubles. -/
theorem infer_reads_used_only {α : Type} [RealLike α] {d L K : ℕ} (T : α) (x x' : Fin d → α)
    (cl : List (ℕ × List α)) (S : Fin L → Fin K → α)
    (h : ∀ z ∈ cl, ∀ hf : z.1 < d, x ⟨z.1, hf⟩ = x' ⟨z.1, hf⟩) :
    inferRow T x cl S = inferRow T x' cl S :=
  inferRow_congr T x x' cl S fun z hz => xget_eq_of_agree (h z hz)

/-- `_init_params` gives cut points to the positions where `feature_mask` is `True`, and to no other. -/
theorem used_features_mem {m : List Bool} {d : ℕ} {u : List ℕ} (h : usedFeatures (some m) d = some u) (f : ℕ) :
    f ∈ u ↔ f < d ∧ m.getD f false = true :=
  mem_usedFeatures h f

/-- Masked features are inert: with a `feature_mask`, changing the data on features where the mask is
    `False` never changes `predict_proba`, whatever the values of the cut points and leaf scores
    (`cl` has the feature indices `_init_params` built).  For every number type. -/
theorem unused_inert {α : Type} [RealLike α] {n d L K : ℕ} (T : α) {m : List Bool} {u : List ℕ}
    (hu : usedFeatures (some m) d = some u) (cl : List (ℕ × List α)) (hcl : cl.map Prod.fst = u)
    (S : Fin L → Fin K → α) (X X' : Fin n → Fin d → α)
    (h : ∀ i (f : Fin d), m.getD f.val false = true → X i f = X' i f) :
    infer T X cl S = infer T X' cl S := by
  funext i
  refine infer_reads_used_only T (X i) (X' i) cl S fun z hz hf => h i ⟨z.1, hf⟩ ?_
  have : z.1 ∈ u := hcl ▸ List.mem_map_of_mem hz
  exact ((mem_usedFeatures hu z.1).mp this).2

/-- A mask whose length differs from the number of features is rejected (`ValueError`), and only then. -/
theorem mask_length_check (m : List Bool) (d : ℕ) : usedFeatures (some m) d = none ↔ m.length ≠ d :=
  usedFeatures_eq_none

/-! ### leaf count -/

/-- The number of used features is the number of `True` entries of the mask (all features without one). -/
theorem used_features_count {d : ℕ} :
    (∀ u, usedFeatures none d = some u → u.length = d) ∧
    (∀ (m : List Bool) u, usedFeatures (some m) d = some u → u.length = m.count true) := by
  refine ⟨fun u h => ?_, fun m u h => usedFeatures_length h⟩
  simp only [usedFeatures, Option.some.injEq] at h
  subst h
  simp

/-- Leaf count: with `n_cuts` cut points on each of the used features, every row of `self._leaf` has
    `(n_cuts + 1) ^ (number of used features)` entries, which is the height `num_leaf` given to
    `leaf_scores_` by `_init_params`. -/
theorem leaf_count {d nCuts : ℕ} {mask : Option (List Bool)} {u : List ℕ} (hu : usedFeatures mask d = some u)
    {cl : List (ℕ × List ℝ)} (hcl : cl.map Prod.fst = u) (hcuts : ∀ z ∈ cl, z.2.length = nCuts)
    {T : ℝ} {x : Fin d → ℝ} {leaf : List ℝ} (h : leafRow T x cl = some leaf) :
    leaf.length = (nCuts + 1) ^ u.length ∧ numLeaf nCuts mask d = some leaf.length := by
  have hlen : leaf.length = (nCuts + 1) ^ u.length := by
    rw [leafRow_length h, prod_const_pow cl nCuts hcuts, ← hcl, List.length_map]
  exact ⟨hlen, by rw [hlen]; exact numLeaf_eq hu⟩

/-- `_infer` accepts exactly the `leaf_scores_` with one row per leaf. -/
theorem infer_accepts_iff {d L K : ℕ} (T : ℝ) (x : Fin d → ℝ) {cl : List (ℕ × List ℝ)} (hne : cl ≠ [])
    (hr : ∀ z ∈ cl, z.1 < d) (S : Fin L → Fin K → ℝ) :
    (∃ p, inferRow T x cl S = some p) ↔ L = (cl.map fun z => z.2.length + 1).prod := by
  obtain ⟨leaf, hleaf⟩ := leafRow_isSome T x hne hr
  have hlen := leafRow_length hleaf
  unfold inferRow
  rw [hleaf]
  simp only
  constructor
  · rintro ⟨p, hp⟩
    split at hp
    · rename_i h; rw [← h, hlen]
    · exact absurd hp (by simp)
  · intro h
    exact ⟨_, if_pos (by rw [hlen, h])⟩

/-! ### memberships are probability vectors, for every temperature -/

/-- Per-feature soft binning: `n_cuts + 1` memberships, each positive, summing to one — for every
    temperature, every value and every cut vector (sorted or not). -/
theorem binning_prob (T x : ℝ) (cuts : List ℝ) :
    (binning T x cuts).length = cuts.length + 1 ∧ (∀ p ∈ binning T x cuts, 0 < p) ∧ (binning T x cuts).sum = 1 :=
  ⟨binning_length T x cuts, binning_pos T x cuts, binning_sum T x cuts⟩

/-- The Kronecker product of two probability vectors is a probability vector, laid out as
    `np.einsum("ij,ik->ijk").reshape`: entry `j · len(b) + k` is `a[j] · b[k]`. -/
theorem kron_prob {a b : List ℝ} (ha : (∀ p ∈ a, 0 < p) ∧ a.sum = 1) (hb : (∀ p ∈ b, 0 < p) ∧ b.sum = 1) :
    ((∀ p ∈ kron a b, 0 < p) ∧ (kron a b).sum = 1) ∧ (kron a b).length = a.length * b.length ∧
      ∀ j k, j < a.length → k < b.length → (kron a b).getD (j * b.length + k) 0 = a.getD j 0 * b.getD k 0 :=
  ⟨IsProb.kron ha hb, kron_length a b, fun _ _ hj hk => kron_getD a b hj hk⟩

/-- The leaf memberships of a sample (row of `self._leaf`) are positive and sum to one, for every
    temperature. -/
theorem leaf_prob {d : ℕ} {T : ℝ} {x : Fin d → ℝ} {cl : List (ℕ × List ℝ)} {leaf : List ℝ}
    (h : leafRow T x cl = some leaf) : (∀ p ∈ leaf, 0 < p) ∧ leaf.sum = 1 :=
  leafRow_isProb h

/-- `_infer` succeeds on every non-empty `cut_points_list_` whose feature indices address the data
    (so the hypotheses `leafRow … = some leaf` above are satisfiable for every such input). -/
theorem leaf_defined {d : ℕ} (T : ℝ) (x : Fin d → ℝ) {cl : List (ℕ × List ℝ)} (hne : cl ≠ [])
    (hr : ∀ z ∈ cl, z.1 < d) : ∃ leaf, leafRow T x cl = some leaf :=
  leafRow_isSome T x hne hr

/-! ### logits, arg-max bin = number of cut points below the value -/

/-- `cut_points[np.argsort(cut_points)]` is the sorted rearrangement of the cut points, and the returned
    order is a permutation of the positions. -/
theorem sorted_cuts_spec (cuts : List ℝ) :
    (sortedCuts cuts).Perm cuts ∧ (sortedCuts cuts).Pairwise (· ≤ ·) ∧ (argsort cuts).Perm (List.range cuts.length) :=
  ⟨sortedCuts_perm cuts, sortedCuts_sorted cuts, argsort_perm cuts⟩

/-- `logit_{j+1} − logit_j = x − c_(j+1)` where `c_(1) ≤ … ≤ c_(n)` are the sorted cut points. -/
theorem logit_step (x : ℝ) (cuts : List ℝ) (j : ℕ) (hj : j < cuts.length) :
    (logits x cuts).getD (j + 1) 0 - (logits x cuts).getD j 0 = x - (sortedCuts cuts).getD j 0 := by
  have h1 : j + 1 < (logits x cuts).length := by rw [logits_length]; omega
  have h0 : j < (logits x cuts).length := by omega
  have hs : j < (sortedCuts cuts).length := by rw [sortedCuts_length]; exact hj
  simp only [List.getD_eq_getElem?_getD, List.getElem?_eq_getElem h1, List.getElem?_eq_getElem h0,
    List.getElem?_eq_getElem hs, Option.getD_some, logits_getElem]
  exact lg_succ_sub x _ j hs

/-- Arg-max bin, for EVERY temperature `T > 0`: when `x` equals no cut point, the bin with the strictly
    largest membership is bin number `#{cut points strictly below x}` — whatever the order in which
    the cut points are stored. -/
theorem argmax_bin {T x : ℝ} (hT : 0 < T) (cuts : List ℝ) (hx : ∀ c ∈ cuts, x ≠ c) {j : ℕ}
    (hj : j ≤ cuts.length) (hne : j ≠ cuts.countP fun c => decide (c < x)) :
    (binning T x cuts).getD j 0 < (binning T x cuts).getD (cuts.countP fun c => decide (c < x)) 0 := by
  obtain ⟨g, hg0, hg⟩ := exists_gap x cuts hx
  have := lg_gap_cuts hg hg0.le hj hne
  show memb T x cuts j < memb T x cuts (cell x cuts)
  exact memb_lt_of_lg_lt hT cuts hj (cell_le_length x cuts) (by linarith)

/-- Quantitative bound: if every cut point is at distance at least `gap ≥ 0` from `x`, the bin of the
    cell holds at least `1 − n_cuts · exp(−gap / T)`, and every other bin at most `exp(−gap / T)`. -/
theorem cell_bin_bound {T x gap : ℝ} (hT : 0 < T) (hgap : 0 ≤ gap) (cuts : List ℝ)
    (hg : ∀ c ∈ cuts, gap ≤ |x - c|) :
    1 - cuts.length * Real.exp (-gap / T) ≤ (binning T x cuts).getD (cuts.countP fun c => decide (c < x)) 0 ∧
    ∀ j ≤ cuts.length, j ≠ cuts.countP (fun c => decide (c < x)) →
      (binning T x cuts).getD j 0 ≤ Real.exp (-gap / T) :=
  ⟨memb_cell_ge hT hg hgap, fun _ hj hne => memb_other_le hT hg hgap hj hne⟩

/-- Limit: as `T → 0⁺` the membership of the cell's bin tends to 1 (and every other one to 0). -/
theorem cell_bin_tendsto {x : ℝ} (cuts : List ℝ) (hx : ∀ c ∈ cuts, x ≠ c) :
    Tendsto (fun T : ℝ => (binning T x cuts).getD (cuts.countP fun c => decide (c < x)) 0) (𝓝[>] 0) (𝓝 1) ∧
    ∀ j ≤ cuts.length, j ≠ cuts.countP (fun c => decide (c < x)) →
      Tendsto (fun T : ℝ => (binning T x cuts).getD j 0) (𝓝[>] 0) (𝓝 0) :=
  ⟨memb_cell_tendsto hx, fun _ hj hne => memb_other_tendsto hx hj hne⟩

/-- The binning depends on the multiset of cut points only: permuting `cut_points` changes nothing. -/
theorem binning_perm_invariant (T x : ℝ) {c₁ c₂ : List ℝ} (h : c₁.Perm c₂) :
    binning T x c₁ = binning T x c₂ := by
  simp only [binning, logits, bias, sortedCuts_congr h, h.length_eq]

/-- … and so does the whole prediction: permuting the cut points of any feature changes nothing. -/
theorem infer_perm_invariant {d L K : ℕ} (T : ℝ) (x : Fin d → ℝ) (S : Fin L → Fin K → ℝ)
    {cl₁ cl₂ : List (ℕ × List ℝ)} (h : List.Forall₂ (fun z w => z.1 = w.1 ∧ z.2.Perm w.2) cl₁ cl₂) :
    inferRow T x cl₁ S = inferRow T x cl₂ S := by
  have hb : binnings T x cl₁ = binnings T x cl₂ := by
    induction h with
    | nil => rfl
    | cons hzw _ ih =>
      simp only [binnings, List.map_cons] at ih ⊢
      rw [ih, hzw.1, binning_perm_invariant T _ hzw.2]
  have hr : inRange d cl₁ = inRange d cl₂ := by
    clear hb
    induction h with
    | nil => rfl
    | cons hzw _ ih =>
      simp only [inRange, List.all_cons] at ih ⊢
      rw [ih, hzw.1]
  simp only [inferRow, leafRow, hb, hr]

/-! ### the grid of cells, and the limit of the predictions -/

/-- The leaf whose index is the mixed-radix number of the per-feature cells holds the product of the
    memberships of those cells; hence at least `1 − (Σ_f n_cuts_f) · exp(−gap / T)`. -/
theorem leaf_cell_bound {d : ℕ} {T gap : ℝ} (hT : 0 < T) (hgap : 0 ≤ gap) {x : Fin d → ℝ}
    {cl : List (ℕ × List ℝ)} (hg : ∀ z ∈ cl, ∀ c ∈ z.2, gap ≤ |xget x z.1 - c|) {leaf : List ℝ}
    (h : leafRow T x cl = some leaf) :
    leaf.getD (leafIndex x cl) 0
        = (cl.map fun z => (binning T (xget x z.1) z.2).getD (z.2.countP fun c => decide (c < xget x z.1)) 0).prod ∧
    1 - ((cl.map fun z => z.2.length).sum : ℕ) * Real.exp (-gap / T) ≤ leaf.getD (leafIndex x cl) 0 :=
  ⟨leafRow_cell h, leafRow_cell_ge hT hgap hg h⟩

/-- The index of the cell's leaf depends on the sample only through its cell along each used feature
    (how many cut points lie below its value). -/
theorem leafIndex_of_cells {d : ℕ} (x x' : Fin d → ℝ) (cl : List (ℕ × List ℝ))
    (h : ∀ z ∈ cl, (z.2.countP fun c => decide (c < xget x z.1)) = z.2.countP fun c => decide (c < xget x' z.1)) :
    leafIndex x cl = leafIndex x' cl := by
  unfold leafIndex
  congr 1
  exact List.map_congr_left fun z hz => by simp only [cell, h z hz]

/-- As `T → 0⁺`, the prediction of a sample that lies on no cut point tends to the soft-max of the score
    row of its cell's leaf — a value that depends on the cell only. -/
theorem infer_tendsto {d L K : ℕ} (x : Fin d → ℝ) {cl : List (ℕ × List ℝ)} (S : Fin L → Fin K → ℝ)
    (hne : cl ≠ []) (hr : ∀ z ∈ cl, z.1 < d) (hL : L = (cl.map fun z => z.2.length + 1).prod)
    (hx : ∀ z ∈ cl, ∀ c ∈ z.2, xget x z.1 ≠ c) (k : Fin K) :
    Tendsto (fun T : ℝ => ((inferRow T x cl S).getD []).getD k.val 0) (𝓝[>] 0)
      (𝓝 (Real.exp (S ⟨leafIndex x cl, hL ▸ leafIndex_lt x hne⟩ k)
            / ∑ k', Real.exp (S ⟨leafIndex x cl, hL ▸ leafIndex_lt x hne⟩ k'))) := by
  have hsc := score_tendsto x cl S hne hr hx hL
  have hnum := (Real.continuous_exp.tendsto _).comp (hsc k)
  have hden := tendsto_finsetSum (Finset.univ : Finset (Fin K)) fun k' _ =>
    (Real.continuous_exp.tendsto _).comp (hsc k')
  have hpos : (∑ k', Real.exp (S ⟨leafIndex x cl, hL ▸ leafIndex_lt x hne⟩ k')) ≠ 0 :=
    (Finset.sum_pos (fun _ _ => Real.exp_pos _) ⟨k, Finset.mem_univ _⟩).ne'
  refine (hnum.div hden hpos).congr fun T => ?_
  rw [inferRow_eq x cl S hne hr hL T, Option.getD_some, smx_ofFn_getD]
  rfl

/-- Predictions become constant inside each cell of the grid drawn by the cut points: two samples with
    the same number of cut points below their value along every used feature (and on no cut point)
    have predictions whose difference tends to 0 as `T → 0⁺`. -/
theorem infer_same_cell {d L K : ℕ} (x x' : Fin d → ℝ) {cl : List (ℕ × List ℝ)} (S : Fin L → Fin K → ℝ)
    (hne : cl ≠ []) (hr : ∀ z ∈ cl, z.1 < d) (hL : L = (cl.map fun z => z.2.length + 1).prod)
    (hx : ∀ z ∈ cl, ∀ c ∈ z.2, xget x z.1 ≠ c) (hx' : ∀ z ∈ cl, ∀ c ∈ z.2, xget x' z.1 ≠ c)
    (hcell : ∀ z ∈ cl, (z.2.countP fun c => decide (c < xget x z.1)) = z.2.countP fun c => decide (c < xget x' z.1))
    (k : Fin K) :
    Tendsto (fun T : ℝ => ((inferRow T x cl S).getD []).getD k.val 0 - ((inferRow T x' cl S).getD []).getD k.val 0)
      (𝓝[>] 0) (𝓝 0) := by
  have h1 := infer_tendsto x S hne hr hL hx k
  have h2 := infer_tendsto x' S hne hr hL hx' k
  have he : leafIndex x cl = leafIndex x' cl := leafIndex_of_cells x x' cl hcell
  simp only [he] at h1
  simpa using h1.sub h2

/-! ### `find_active_points` -/

/-- The repaired `find_active_points` (`activeFixed`: some cut point strictly between the smallest and
    the largest value of the feature) returns exactly the features of `cut_points_list_` that have a cut
    point strictly inside the range taken by that feature in the data, in the order of the list. -/
theorem activeFixed_iff_spec {n d : ℕ} (hn : 0 < n) (X : Fin n → Fin d → ℝ) (cl : List (ℕ × List ℝ))
    (hlen : cl.length ≤ d) (hr : ∀ z ∈ cl, z.1 < d) :
    ∃ r, activeFixed X cl = some r ∧ r.Sublist (cl.map Prod.fst) ∧
      ∀ f, f ∈ r ↔ ∃ z ∈ cl, z.1 = f ∧ ∃ c ∈ z.2, (∃ i, xget (X i) z.1 < c) ∧ (∃ i, c < xget (X i) z.1) := by
  obtain ⟨r, h1, h2, h3⟩ := activeLoop_fixed hn X cl hr
  refine ⟨r, ?_, h2, h3⟩
  unfold activeFixed activeWith
  rw [if_neg (by omega), if_neg (by omega)]
  exact h1

/-- "Strictly inside the range taken by the feature" in terms of the smallest and largest observed
    values: `min_i X_if < c < max_i X_if`. -/
theorem spec_iff_min_max {n : ℕ} (hne : (Finset.univ : Finset (Fin n)).Nonempty) (col : Fin n → ℝ) (c : ℝ) :
    ((∃ i, col i < c) ∧ (∃ i, c < col i)) ↔
      Finset.univ.inf' hne col < c ∧ c < Finset.univ.sup' hne col := by
  simp [Finset.inf'_lt_iff, Finset.lt_sup'_iff]

/-- What the source rejects is rejected: no sample, fewer columns than entries in `cut_points_list_`,
    a feature index outside the data. -/
theorem active_rejects {n d : ℕ} (X : Fin n → Fin d → ℝ) (cl : List (ℕ × List ℝ))
    (h : n = 0 ∨ d < cl.length ∨ ∃ z ∈ cl, d ≤ z.1) :
    activeFixed X cl = none ∧ activeCurrent X cl = none := by
  unfold activeFixed activeCurrent activeWith
  rcases h with h | h | h
  · simp [h]
  · by_cases hn : n = 0
    · simp [hn]
    · simp [hn, h]
  · simp only [activeLoop_none _ X cl h]
    constructor <;> split_ifs <;> rfl

/-- The source as it is (`activeCurrent`: `not (all(x ≤ min cut) or all(x ≥ max cut))`) does NOT meet
    the specification once a feature has two cut points: with cut points `{-10, 10}` and data `{-2, 2}`
    no cut point is inside the data range, yet the feature is reported active.  (Exact rationals.) -/
theorem activeCurrent_ne_spec :
    activeCurrent (α := Rat) (n := 2) (d := 1) (fun i _ => if i.val = 0 then -2 else 2) [(0, [-10, 10])] = some [0] ∧
    activeFixed (α := Rat) (n := 2) (d := 1) (fun i _ => if i.val = 0 then -2 else 2) [(0, [-10, 10])] = some [] := by
  decide

/-- The same counterexample over ℝ, against the specification itself: feature 0 is returned by
    `activeCurrent` although no cut point lies strictly between two observed values. -/
theorem activeCurrent_ne_spec_real :
    ∃ (X : Fin 2 → Fin 1 → ℝ) (cl : List (ℕ × List ℝ)),
      activeCurrent X cl = some [0] ∧
      ¬ ∃ z ∈ cl, z.1 = 0 ∧ ∃ c ∈ z.2, (∃ i, xget (X i) z.1 < c) ∧ (∃ i, c < xget (X i) z.1) := by
  refine ⟨fun i _ => if i.val = 0 then -2 else 2, [(0, [-10, 10])], ?_, ?_⟩
  · simp [activeCurrent, activeWith, activeLoop, testCurrent, minL?, maxL?, colAll, List.finRange_succ]
    norm_num
  · rintro ⟨z, hz, -, c, hc, ⟨i, hi⟩, ⟨j, hj⟩⟩
    rw [List.mem_singleton] at hz
    subst hz
    simp only [xget, Nat.lt_one_iff, dite_true] at hi hj
    simp only [List.mem_cons, List.not_mem_nil, or_false] at hc
    rcases hc with rfl | rfl
    · split_ifs at hi <;> norm_num at hi
    · split_ifs at hj <;> norm_num at hj

/-- With a single cut point per feature (the default `n_cuts = 1`) the source's test and the repaired
    one agree: the defect needs at least two cut points. -/
theorem activeCurrent_single_cut {n : ℕ} (hn : 0 < n) (col : Fin n → ℝ) (c : ℝ) :
    testCurrent col [c] = testFixed col [c] := by
  obtain ⟨b, hb, hspec⟩ := testFixed_spec hn col [c]
  rw [hb]
  simp only [testCurrent, minL?, maxL?, List.foldl_nil, Option.some.injEq]
  rw [Bool.eq_iff_iff, hspec]
  simp only [Bool.not_eq_true', Bool.or_eq_false_iff, colAll, List.mem_singleton, exists_eq_left,
    RealLike.le_real]
  constructor
  · rintro ⟨h1, h2⟩
    have h1' := (Bool.eq_false_iff.mp h1)
    have h2' := (Bool.eq_false_iff.mp h2)
    simp only [ne_eq, List.all_eq_true, List.mem_finRange, decide_eq_true_eq, true_implies, not_forall, not_le] at h1' h2'
    exact ⟨h2', h1'⟩
  · rintro ⟨⟨i, hi⟩, ⟨j, hj⟩⟩
    constructor
    · rw [Bool.eq_false_iff]
      simp only [ne_eq, List.all_eq_true, List.mem_finRange, decide_eq_true_eq, true_implies, not_forall, not_le]
      exact ⟨j, hj⟩
    · rw [Bool.eq_false_iff]
      simp only [ne_eq, List.all_eq_true, List.mem_finRange, decide_eq_true_eq, true_implies, not_forall, not_le]
      exact ⟨i, hi⟩

end GemVerif.Props.C15
