/-
  C02 (machinery) — the table-valued MMD definitions that the driver executes
  (`GemVerif/Model/GeminiFast.lean`) are entry for entry THE SAME TERM as the models `mmdGrad`,
  `mmdScore` about which C01/C02/C13 are proved.  Everything is generic in `{α} [RealLike α]`: no
  property of the arithmetic is used (the proofs only look entries up in tables), so the equalities
  hold for `Float` — the type the driver runs — bit for bit, as well as for `ℝ`.

  The outer table look-up is stated for an ARBITRARY `Inhabited α` instance (`inst`): the default
  element is only returned for out-of-range indices, which `Fin` excludes.
-/
import GemVerif.NumReal
import GemVerif.Model.GeminiFast

namespace GemVerif.Props.C02Fast
open GemVerif Model RealLike

variable {α : Type} [RealLike α] {n K : ℕ}

/-- The table `mmdAlphaFast` holds exactly the entries of the model's `mmdAlpha`
    (`alpha = y_pred / pi` in `MMDGEMINI.evaluate`). -/
theorem mmdAlphaFast_eq [inst : Inhabited α] (ε : α) (P : Fin n → Fin K → α) (i : Fin n)
    (k : Fin K) : @Tab2.get α inst n K (mmdAlphaFast ε P) i k = mmdAlpha ε P i k := by
  simp only [mmdAlphaFast, mmdAlpha, tab2_get]

/-- The table `mmdGammaFast` holds exactly the entries of the model's `mmdGamma`
    (`gamma = (affinity / N**2) @ alpha`). -/
theorem mmdGammaFast_eq [inst : Inhabited α] (ε : α) (P : Fin n → Fin K → α)
    (κ : Fin n → Fin n → α) (i : Fin n) (k : Fin K) :
    @Tab2.get α inst n K (mmdGammaFast ε P κ) i k = mmdGamma ε P κ i k := by
  simp only [mmdGammaFast, mmdGamma, tab2_get, mmdAlphaFast_eq]

/-- The table `mmdDeltaOvoFast` holds exactly the entries of the model's `mmdDeltaOvo`
    (the one-vs-one pairwise MMD distances `delta[a,b]`). -/
theorem mmdDeltaOvoFast_eq [inst : Inhabited α] (ε : α) (P : Fin n → Fin K → α)
    (κ : Fin n → Fin n → α) (a b : Fin K) :
    @Tab2.get α inst K K (mmdDeltaOvoFast ε P κ) a b = mmdDeltaOvo ε P κ a b := by
  simp only [mmdDeltaOvoFast, mmdDeltaOvo, tab2_get, mmdAlphaFast_eq, mmdGammaFast_eq]

/-- The table `mmdDeltaOvaFast` holds exactly the entries of the model's `mmdDeltaOva`
    (the one-vs-all MMD distances `delta[k]`). -/
theorem mmdDeltaOvaFast_eq [inst : Inhabited α] (ε : α) (P : Fin n → Fin K → α)
    (κ : Fin n → Fin n → α) (k : Fin K) :
    @Tab.get α inst K (mmdDeltaOvaFast ε P κ) k = mmdDeltaOva ε P κ k := by
  simp only [mmdDeltaOvaFast, mmdDeltaOva, tab_get, tab2_apply, mmdAlphaFast_eq, mmdGammaFast_eq]

/-- The MMD score the driver computes (`mmdScoreFast`, every table built once) IS the model's
    `mmdScore` (the value returned by `MMDGEMINI.evaluate`), in both modes, for every number type —
    in particular for `Float`, bit for bit. -/
theorem mmdScoreFast_eq (ε : α) (ovo : Bool) (P : Fin n → Fin K → α) (κ : Fin n → Fin n → α) :
    mmdScoreFast ε ovo P κ = mmdScore ε ovo P κ := by
  cases ovo <;>
    simp only [mmdScoreFast, mmdScore, tab_apply, tab2_apply, mmdDeltaOvoFast_eq,
      mmdDeltaOvaFast_eq, if_true, if_false, Bool.false_eq_true]

/-- Every entry of the MMD gradient table the driver computes (`mmdGradFast`, every intermediate
    table built once) IS the corresponding entry of the model's `mmdGrad` (the gradient returned by
    `MMDGEMINI.evaluate(..., return_grad=True)`), in both modes, for every number type — in
    particular for `Float`, bit for bit. -/
theorem mmdGradFast_eq [inst : Inhabited α] (ε : α) (ovo : Bool) (P : Fin n → Fin K → α)
    (κ : Fin n → Fin n → α) (i : Fin n) (k : Fin K) :
    @Tab2.get α inst n K (mmdGradFast ε ovo P κ) i k = mmdGrad ε ovo P κ i k := by
  cases ovo <;>
    simp only [mmdGradFast, mmdGradOvoFast, mmdGradOvaFast, mmdGrad, tab_apply, tab2_apply,
      mmdAlphaFast_eq, mmdGammaFast_eq, mmdDeltaOvoFast_eq, mmdDeltaOvaFast_eq,
      if_true, if_false, Bool.false_eq_true]

/-- Same statement with the coercion the models themselves use (`Tab2` applied as a function). -/
theorem mmdGradFast_apply (ε : α) (ovo : Bool) (P : Fin n → Fin K → α) (κ : Fin n → Fin n → α)
    (i : Fin n) (k : Fin K) : (mmdGradFast ε ovo P κ) i k = mmdGrad ε ovo P κ i k :=
  mmdGradFast_eq ε ovo P κ i k

/-- The instance the driver runs: `Float`. -/
example (ε : Float) (ovo : Bool) {n K : ℕ} (P : Fin n → Fin K → Float) (κ : Fin n → Fin n → Float)
    (i : Fin n) (k : Fin K) : (mmdGradFast ε ovo P κ).get i k = mmdGrad ε ovo P κ i k :=
  mmdGradFast_eq ε ovo P κ i k

end GemVerif.Props.C02Fast
