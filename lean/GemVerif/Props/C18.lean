/-
  C18 — predictions are per-sample functions of the fitted model.

  Models: `Model.Nets.{linearInfer, mlpInfer, sparseMlpInfer}` (`_infer` of Linear*/RIM/SparseLinear*, MLP*, SparseMLP*),
  `Model.Douglas.infer`, `Model.KernelRim.{kernelRimInfer, trainingKernel, predictLabels, …}` (KernelRIM's
  `_compute_kernel` / `predict_proba`, `predict = argmax(predict_proba)`, `labels_ = _infer(X).argmax(1)`),
  `Model.Kauri.Tree.{route, predictMask}` (`Tree.predict`: per row / as the recursive mask-based numpy code is written).

  Every theorem holds for ALL sizes `m n d h K`, all parameters, EVERY index map `σ : Fin m → Fin n` (subsets,
  reorderings, repeated rows, single rows `m = 1`, the whole array `σ = id`) and — except where a tree invariant is
  needed, which does not mention numbers either — for EVERY number type `[RealLike α]`: at `α = Float` they are
  statements about IEEE doubles, bit for bit, for the model's fixed summation order.  (What a BLAS matrix product does
  on another batch shape is outside the model; the harness measures it on the real code.)

  For Linear*/MLP*/SparseMLP*/Douglas, `labels_` and `predict(X_train)` are the same expression `_infer(X).argmax(1)`
  on the same weights, so "predicting the training data reproduces what fit stored" is `predict_index_map` with `σ = id`;
  for KernelRIM the prediction path recomputes the kernel against the stored training points (`kernel_rim_train_*`);
  for Kauri it is the C09 routing invariant carried over to the numpy recursion (`kauri_predict_train_eq_labels`).
-/
import GemVerif.Lemmas.RowLocal

namespace GemVerif.Props.C18
open GemVerif RealLike Model.Nets Model.KernelRim Model.Kauri RowLocal KauriC09

/-! ### forward passes: row `i` of the output is a function of row `i` of the input and of the parameters -/

/-- LinearModel / RIM / SparseLinear*: row `i` of `_infer(X)` is the one-sample forward pass of `X[i]`. -/
theorem linear_row {α : Type} [RealLike α] {n d K : Nat} (X : Fin n → Fin d → α) (W : Fin d → Fin K → α)
    (b : Fin K → α) (i : Fin n) : linearInfer X W b i = linearRow (X i) W b :=
  linearInfer_row X W b i

/-- `_infer(X[σ]) = _infer(X)[σ]` for the linear model, every index map `σ`. -/
theorem linear_index_map {α : Type} [RealLike α] {m n d K : Nat} (σ : Fin m → Fin n) (X : Fin n → Fin d → α)
    (W : Fin d → Fin K → α) (b : Fin K → α) :
    linearInfer (fun i => X (σ i)) W b = fun i => linearInfer X W b (σ i) := rfl

/-- MLPModel and its GEMINI variants: row `i` of `_infer(X)` is the one-sample forward pass of `X[i]`. -/
theorem mlp_row {α : Type} [RealLike α] {n d h K : Nat} (X : Fin n → Fin d → α) (W1 : Fin d → Fin h → α)
    (b1 : Fin h → α) (W2 : Fin h → Fin K → α) (b2 : Fin K → α) (i : Fin n) :
    mlpInfer X W1 b1 W2 b2 i = mlpRow (X i) W1 b1 W2 b2 :=
  mlpInfer_row X W1 b1 W2 b2 i

/-- `_infer(X[σ]) = _infer(X)[σ]` for the MLP. -/
theorem mlp_index_map {α : Type} [RealLike α] {m n d h K : Nat} (σ : Fin m → Fin n) (X : Fin n → Fin d → α)
    (W1 : Fin d → Fin h → α) (b1 : Fin h → α) (W2 : Fin h → Fin K → α) (b2 : Fin K → α) :
    mlpInfer (fun i => X (σ i)) W1 b1 W2 b2 = fun i => mlpInfer X W1 b1 W2 b2 (σ i) := by
  funext i
  rw [mlpInfer_row, mlpInfer_row]

/-- SparseMLPModel (MLP plus skip connection): row `i` of `_infer(X)` is the one-sample forward pass of `X[i]`. -/
theorem sparse_mlp_row {α : Type} [RealLike α] {n d h K : Nat} (X : Fin n → Fin d → α) (W1 : Fin d → Fin h → α)
    (b1 : Fin h → α) (W2 : Fin h → Fin K → α) (b2 : Fin K → α) (Ws : Fin d → Fin K → α) (i : Fin n) :
    sparseMlpInfer X W1 b1 W2 b2 Ws i = sparseMlpRow (X i) W1 b1 W2 b2 Ws :=
  sparseMlpInfer_row X W1 b1 W2 b2 Ws i

/-- `_infer(X[σ]) = _infer(X)[σ]` for the sparse MLP. -/
theorem sparse_mlp_index_map {α : Type} [RealLike α] {m n d h K : Nat} (σ : Fin m → Fin n) (X : Fin n → Fin d → α)
    (W1 : Fin d → Fin h → α) (b1 : Fin h → α) (W2 : Fin h → Fin K → α) (b2 : Fin K → α) (Ws : Fin d → Fin K → α) :
    sparseMlpInfer (fun i => X (σ i)) W1 b1 W2 b2 Ws = fun i => sparseMlpInfer X W1 b1 W2 b2 Ws (σ i) := by
  funext i
  rw [sparseMlpInfer_row, sparseMlpInfer_row]

/-- Douglas: row `i` of `_infer(X)` (soft binning of every used feature, Kronecker merge, leaf scores, soft-max — or the
    error token when the stored parameters do not fit the data width) is the one-sample function of `X[i]`. -/
theorem douglas_row {α : Type} [RealLike α] {n d L K : Nat} (T : α) (X : Fin n → Fin d → α)
    (cl : List (Nat × List α)) (S : Fin L → Fin K → α) (i : Fin n) :
    Model.Douglas.infer T X cl S i = Model.Douglas.inferRow T (X i) cl S := rfl

/-- `_infer(X[σ]) = _infer(X)[σ]` for Douglas, row-wise (errors included). -/
theorem douglas_index_map {α : Type} [RealLike α] {m n d L K : Nat} (σ : Fin m → Fin n) (T : α)
    (X : Fin n → Fin d → α) (cl : List (Nat × List α)) (S : Fin L → Fin K → α) :
    Model.Douglas.infer T (fun i => X (σ i)) cl S = fun i => Model.Douglas.infer T X cl S (σ i) := rfl

/-- KernelRIM: row `i` of `predict_proba(X)` depends on `X[i]`, the stored training points and the weights only: it is
    the linear model applied to the kernel row of `X[i]` against the training points. -/
theorem kernel_rim_row {α : Type} [RealLike α] {m n d K : Nat} (pairwise : (Fin d → α) → (Fin d → α) → α)
    (Xnew : Fin m → Fin d → α) (Xtrain : Fin n → Fin d → α) (W : Fin n → Fin K → α) (b : Fin K → α) (i : Fin m) :
    kernelRimInfer pairwise Xnew Xtrain W b i = kernelRimRow pairwise (Xnew i) Xtrain W b := rfl

/-- `predict_proba(X[σ]) = predict_proba(X)[σ]` for KernelRIM (new points or training points alike). -/
theorem kernel_rim_index_map {α : Type} [RealLike α] {m' m n d K : Nat} (σ : Fin m' → Fin m)
    (pairwise : (Fin d → α) → (Fin d → α) → α) (Xnew : Fin m → Fin d → α) (Xtrain : Fin n → Fin d → α)
    (W : Fin n → Fin K → α) (b : Fin K → α) :
    kernelRimInfer pairwise (fun i => Xnew (σ i)) Xtrain W b = fun i => kernelRimInfer pairwise Xnew Xtrain W b (σ i) :=
  rfl

/-- Two arrays of any two sizes that share a row give that row the same probabilities (a single row predicted alone,
    a row of a new array equal to a training row, …): linear model. -/
theorem linear_same_row {α : Type} [RealLike α] {n n' d K : Nat} (X : Fin n → Fin d → α) (Y : Fin n' → Fin d → α)
    (W : Fin d → Fin K → α) (b : Fin K → α) (i : Fin n) (j : Fin n') (h : X i = Y j) :
    linearInfer X W b i = linearInfer Y W b j := by
  rw [linearInfer_row, linearInfer_row, h]

/-- The same for the MLP. -/
theorem mlp_same_row {α : Type} [RealLike α] {n n' d h K : Nat} (X : Fin n → Fin d → α) (Y : Fin n' → Fin d → α)
    (W1 : Fin d → Fin h → α) (b1 : Fin h → α) (W2 : Fin h → Fin K → α) (b2 : Fin K → α) (i : Fin n) (j : Fin n')
    (hij : X i = Y j) : mlpInfer X W1 b1 W2 b2 i = mlpInfer Y W1 b1 W2 b2 j := by
  rw [mlpInfer_row, mlpInfer_row, hij]

/-- The same for the sparse MLP. -/
theorem sparse_mlp_same_row {α : Type} [RealLike α] {n n' d h K : Nat} (X : Fin n → Fin d → α)
    (Y : Fin n' → Fin d → α) (W1 : Fin d → Fin h → α) (b1 : Fin h → α) (W2 : Fin h → Fin K → α) (b2 : Fin K → α)
    (Ws : Fin d → Fin K → α) (i : Fin n) (j : Fin n') (hij : X i = Y j) :
    sparseMlpInfer X W1 b1 W2 b2 Ws i = sparseMlpInfer Y W1 b1 W2 b2 Ws j := by
  rw [sparseMlpInfer_row, sparseMlpInfer_row, hij]

/-- The same for Douglas. -/
theorem douglas_same_row {α : Type} [RealLike α] {n n' d L K : Nat} (T : α) (X : Fin n → Fin d → α)
    (Y : Fin n' → Fin d → α) (cl : List (Nat × List α)) (S : Fin L → Fin K → α) (i : Fin n) (j : Fin n')
    (h : X i = Y j) : Model.Douglas.infer T X cl S i = Model.Douglas.infer T Y cl S j := by
  show Model.Douglas.inferRow T (X i) cl S = Model.Douglas.inferRow T (Y j) cl S
  rw [h]

/-- The same for KernelRIM. -/
theorem kernel_rim_same_row {α : Type} [RealLike α] {m m' n d K : Nat} (pairwise : (Fin d → α) → (Fin d → α) → α)
    (X : Fin m → Fin d → α) (Y : Fin m' → Fin d → α) (Xtrain : Fin n → Fin d → α) (W : Fin n → Fin K → α)
    (b : Fin K → α) (i : Fin m) (j : Fin m') (h : X i = Y j) :
    kernelRimInfer pairwise X Xtrain W b i = kernelRimInfer pairwise Y Xtrain W b j := by
  rw [kernelRimInfer_row, kernelRimInfer_row, h]

/-! ### `predict = argmax(predict_proba)` is per row too -/

/-- `np.argmax(P, axis=1)`: the label of row `i` is the arg-max of row `i`. -/
theorem predict_row {α : Type} [RealLike α] {n K : Nat} (P : Fin n → Fin K → α) (i : Fin n) :
    predictLabels P i = argmaxRow (P i) := rfl

/-- `argmax(P[σ]) = argmax(P)[σ]`. -/
theorem predict_index_map {α : Type} [RealLike α] {m n K : Nat} (σ : Fin m → Fin n) (P : Fin n → Fin K → α) :
    predictLabels (fun i => P (σ i)) = fun i => predictLabels P (σ i) := rfl

/-- `predict(X[σ]) = predict(X)[σ]`, linear model. -/
theorem linear_predict_index_map {α : Type} [RealLike α] {m n d K : Nat} (σ : Fin m → Fin n)
    (X : Fin n → Fin d → α) (W : Fin d → Fin K → α) (b : Fin K → α) :
    predictLabels (linearInfer (fun i => X (σ i)) W b) = fun i => predictLabels (linearInfer X W b) (σ i) := rfl

/-- `predict(X[σ]) = predict(X)[σ]`, MLP. -/
theorem mlp_predict_index_map {α : Type} [RealLike α] {m n d h K : Nat} (σ : Fin m → Fin n) (X : Fin n → Fin d → α)
    (W1 : Fin d → Fin h → α) (b1 : Fin h → α) (W2 : Fin h → Fin K → α) (b2 : Fin K → α) :
    predictLabels (mlpInfer (fun i => X (σ i)) W1 b1 W2 b2) = fun i => predictLabels (mlpInfer X W1 b1 W2 b2) (σ i) := by
  rw [mlp_index_map]; rfl

/-- `predict(X[σ]) = predict(X)[σ]`, sparse MLP. -/
theorem sparse_mlp_predict_index_map {α : Type} [RealLike α] {m n d h K : Nat} (σ : Fin m → Fin n)
    (X : Fin n → Fin d → α) (W1 : Fin d → Fin h → α) (b1 : Fin h → α) (W2 : Fin h → Fin K → α) (b2 : Fin K → α)
    (Ws : Fin d → Fin K → α) :
    predictLabels (sparseMlpInfer (fun i => X (σ i)) W1 b1 W2 b2 Ws)
      = fun i => predictLabels (sparseMlpInfer X W1 b1 W2 b2 Ws) (σ i) := by
  rw [sparse_mlp_index_map]; rfl

/-- `predict(X[σ]) = predict(X)[σ]`, Douglas (arg-max of each row's probability list, errors kept). -/
theorem douglas_predict_index_map {α : Type} [RealLike α] {m n d L K : Nat} (σ : Fin m → Fin n) (T : α)
    (X : Fin n → Fin d → α) (cl : List (Nat × List α)) (S : Fin L → Fin K → α) :
    (fun i => (Model.Douglas.infer T (fun i => X (σ i)) cl S i).map argmaxList)
      = fun i => (Model.Douglas.infer T X cl S (σ i)).map argmaxList := rfl

/-- `predict(X[σ]) = predict(X)[σ]`, KernelRIM. -/
theorem kernel_rim_predict_index_map {α : Type} [RealLike α] {m' m n d K : Nat} (σ : Fin m' → Fin m)
    (pairwise : (Fin d → α) → (Fin d → α) → α) (Xnew : Fin m → Fin d → α) (Xtrain : Fin n → Fin d → α)
    (W : Fin n → Fin K → α) (b : Fin K → α) :
    kernelRimPredict pairwise (fun i => Xnew (σ i)) Xtrain W b = fun i => kernelRimPredict pairwise Xnew Xtrain W b (σ i) :=
  rfl

/-- the vector arg-max of the models is the list arg-max used for Douglas rows -/
theorem argmax_row_eq_list {α : Type} [RealLike α] {K : Nat} (z : Fin K → α) : argmaxRow z = argmaxList (List.ofFn z) :=
  argmaxRow_eq_argmaxList z

/-! ### KernelRIM: predicting the training data reproduces what `fit` computed -/

/-- `predict_proba(X_train) = _infer(training_kernel)`: the kernel between the "new" points and the stored training
    points, evaluated on the training points themselves, is the training kernel `fit` trained on. -/
theorem kernel_rim_train_proba {α : Type} [RealLike α] {n d K : Nat} (pairwise : (Fin d → α) → (Fin d → α) → α)
    (Xtrain : Fin n → Fin d → α) (W : Fin n → Fin K → α) (b : Fin K → α) :
    kernelRimInfer pairwise Xtrain Xtrain W b = linearInfer (trainingKernel pairwise Xtrain) W b := rfl

/-- `predict(X_train) = labels_` for KernelRIM (`labels_ = _infer(training_kernel).argmax(1)` with the final weights). -/
theorem kernel_rim_train_labels {α : Type} [RealLike α] {n d K : Nat} (pairwise : (Fin d → α) → (Fin d → α) → α)
    (Xtrain : Fin n → Fin d → α) (W : Fin n → Fin K → α) (b : Fin K → α) :
    kernelRimPredict pairwise Xtrain Xtrain W b = kernelRimFitLabels pairwise Xtrain W b := rfl

/-- … and for any selection of training rows (a subset, a reordering, one training sample):
    `predict_proba(X_train[σ]) = _infer(training_kernel)[σ]`. -/
theorem kernel_rim_train_index_map {α : Type} [RealLike α] {m n d K : Nat} (σ : Fin m → Fin n)
    (pairwise : (Fin d → α) → (Fin d → α) → α) (Xtrain : Fin n → Fin d → α) (W : Fin n → Fin K → α) (b : Fin K → α) :
    kernelRimInfer pairwise (fun i => Xtrain (σ i)) Xtrain W b
      = fun i => linearInfer (trainingKernel pairwise Xtrain) W b (σ i) := rfl

/-- The rows of the training kernel that `_batchify` hands to `_infer` during `fit` (`training_kernel[batch_indices]`)
    are the kernel rows `_compute_kernel` gives for those samples at prediction time. -/
theorem kernel_rim_batch_rows {α : Type} [RealLike α] {m n d : Nat} (σ : Fin m → Fin n)
    (pairwise : (Fin d → α) → (Fin d → α) → α) (Xtrain : Fin n → Fin d → α) :
    (fun i => trainingKernel pairwise Xtrain (σ i)) = computeKernel pairwise (fun i => Xtrain (σ i)) Xtrain := rfl

/-! ### Kauri: the recursive mask-based `Tree.predict` routes every row on its own -/

/-- Routing is defined row by row: `routeAll(X[σ]) = routeAll(X)[σ]`. -/
theorem route_index_map {α : Type} [RealLike α] {m n : Nat} (t : Model.Kauri.Tree α) (fuel : Nat) (σ : Fin m → Fin n)
    (X : Fin n → Nat → α) : t.routeAll fuel (fun i => X (σ i)) = fun i => t.routeAll fuel X (σ i) := rfl

/-- The numpy recursion of `Tree.predict` (Boolean masks `X_left`, `~X_left`, recursive calls on `X[X_left]` and
    `X[X_right]`, answers scattered back with `predictions[mask] = …`), started anywhere in a well-formed tree on ANY
    list of rows, neither raises nor mixes rows: entry `i` of the answer is the routing of row `i` alone. -/
theorem tree_predict_node_eq_route {α : Type} [RealLike α] {t : Model.Kauri.Tree α} (ht : KauriC19.WellFormed t)
    (fuel node : Nat) (X : List (Nat → α)) (hn : node < t.nNodes) (hf : t.nNodes ≤ fuel + node) :
    t.predictMask fuel (node : Int) X = some (X.map fun x => t.route x fuel node) :=
  predictMask_eq_route ht fuel node X hn hf

/-- `Tree.predict(X)` (from the root, as `Kauri.predict` calls it) = every row routed on its own, for every array. -/
theorem tree_predict_eq_route {α : Type} [RealLike α] {t : Model.Kauri.Tree α} (ht : KauriC19.WellFormed t)
    {n : Nat} (X : Fin n → Nat → α) (fuel : Nat) (hf : t.nNodes ≤ fuel) :
    t.predictMask fuel 0 (List.ofFn X) = some (List.ofFn (t.routeAll fuel X)) := by
  have h := predictMask_eq_route ht fuel 0 (List.ofFn X) ht.pos (by omega)
  rw [List.map_ofFn] at h
  exact h

/-- `Tree.predict(X[σ]) = Tree.predict(X)[σ]` for the numpy recursion, every index map `σ`. -/
theorem tree_predict_index_map {α : Type} [RealLike α] {t : Model.Kauri.Tree α} (ht : KauriC19.WellFormed t)
    {m n : Nat} (σ : Fin m → Fin n) (X : Fin n → Nat → α) (fuel : Nat) (hf : t.nNodes ≤ fuel) :
    t.predictMask fuel 0 (List.ofFn fun i => X (σ i)) = some (List.ofFn fun i => t.routeAll fuel X (σ i)) :=
  tree_predict_eq_route ht (fun i => X (σ i)) fuel hf

/-- Python's recursion has no budget; the model's budget is irrelevant as soon as it covers the tree. -/
theorem route_fuel_irrelevant {α : Type} [RealLike α] {t : Model.Kauri.Tree α} (ht : KauriC19.WellFormed t)
    (x : Nat → α) (fuel fuel' : Nat) (h : t.nNodes ≤ fuel) (h' : t.nNodes ≤ fuel') :
    t.route x fuel 0 = t.route x fuel' 0 :=
  RowLocal.route_fuel_irrelevant ht x fuel fuel' 0 ht.pos (by omega) (by omega)

/-- Every tree reached by the fit loop is well formed (the hypothesis of the three theorems above). -/
theorem fitted_tree_well_formed {α : Type} [RealLike α] {X : Nat → Nat → α} {p : Params} {s : FitState α}
    (h : FullInv X p s) : KauriC19.WellFormed s.tree :=
  wellFormed_of_fullInv h

/-- Kauri: `predict(X_train) = labels_` through the numpy recursion, for every state reached by the fit loop
    (`FullInv`: C09's invariants). -/
theorem kauri_predict_train_eq_labels {α : Type} [RealLike α] {X : Nat → Nat → α} {p : Params} {s : FitState α}
    (h : FullInv X p s) (fuel : Nat) (hf : s.tree.nNodes ≤ fuel) :
    s.tree.predictMask fuel 0 ((List.range s.asg.n).map X) = some (s.labels.map fun (c : Nat) => (c : Int)) := by
  have ht := wellFormed_of_fullInv h
  rw [show s.tree.predictMask fuel 0 ((List.range s.asg.n).map X) = _ from
    predictMask_eq_route ht fuel 0 _ ht.pos (by omega), List.map_map]
  congr 1
  have e := KauriC09.route_train h.inv h.route
  unfold FitState.labels
  rw [List.map_map]
  apply List.map_congr_left
  intro i hi
  have hi' := List.mem_range.1 hi
  have hd := h.inv.depth_lt_leaves _ (h.inv.l2n_lt _ (h.inv.leafOf_lt i hi'))
  have := h.inv.nNodes_eq
  exact e i hi' fuel (by omega)

/-- … and for any selection `σ` of training samples: `predict(X_train[σ]) = labels_[σ]`. -/
theorem kauri_predict_train_index_map {α : Type} [RealLike α] {X : Nat → Nat → α} {p : Params} {s : FitState α}
    (h : FullInv X p s) (fuel : Nat) (hf : s.tree.nNodes ≤ fuel) {m : Nat} (σ : Fin m → Fin s.asg.n) :
    s.tree.predictMask fuel 0 (List.ofFn fun i => X (σ i))
      = some (List.ofFn fun i => (s.asg.clusterOfSample (σ i) : Int)) := by
  have ht := wellFormed_of_fullInv h
  rw [tree_predict_eq_route ht (fun i => X (σ i)) fuel hf]
  congr 1
  apply List.ofFn_inj.2
  funext i
  have hd := h.inv.depth_lt_leaves _ (h.inv.l2n_lt _ (h.inv.leafOf_lt (σ i) (σ i).isLt))
  have := h.inv.nNodes_eq
  exact KauriC09.route_train h.inv h.route (σ i) (σ i).isLt fuel (by omega)

/-- The same for the model's `fit` itself, under the post-condition of `find_best_split` (C08/C09). -/
theorem kauri_fit_predict_train {α : Type} [RealLike α] {κ X : Nat → Nat → α} {n : Nat} {p : Params} (hn : 1 ≤ n)
    (hmin : p.minLeaf ≤ n) (hspec : FindBestSplitSpec κ X p) (draws : List (List Nat)) (fuel : Nat)
    (hf : (fit κ X n p draws).tree.nNodes ≤ fuel) :
    (fit κ X n p draws).tree.predictMask fuel 0 ((List.range (fit κ X n p draws).asg.n).map X)
      = some ((fit κ X n p draws).labels.map fun (c : Nat) => (c : Int)) :=
  kauri_predict_train_eq_labels (KauriC09.fit_inv hn hmin hspec draws) fuel hf

/-! ### the statements at IEEE doubles, and non-vacuity -/

/-- the generic theorems instantiate at `Float`: bit-for-bit equality of the model's double-precision results -/
theorem linear_index_map_float {m n d K : Nat} (σ : Fin m → Fin n) (X : Fin n → Fin d → Float)
    (W : Fin d → Fin K → Float) (b : Fin K → Float) :
    linearInfer (fun i => X (σ i)) W b = fun i => linearInfer X W b (σ i) :=
  linear_index_map σ X W b

/-- the same for the MLP at `Float` (the memo table `tab2` of the model included) -/
theorem mlp_index_map_float {m n d h K : Nat} (σ : Fin m → Fin n) (X : Fin n → Fin d → Float)
    (W1 : Fin d → Fin h → Float) (b1 : Fin h → Float) (W2 : Fin h → Fin K → Float) (b2 : Fin K → Float) :
    mlpInfer (fun i => X (σ i)) W1 b1 W2 b2 = fun i => mlpInfer X W1 b1 W2 b2 (σ i) :=
  mlp_index_map σ X W1 b1 W2 b2

/-- `WellFormed` is satisfiable by a tree with a split, and the mask recursion really computes on it: rows with
    feature 2 equal to 0, 1, 1/2, 0 go to clusters 0, 1, 0, 0 -/
example : KauriC19.WellFormed KauriC19.Example.tree ∧
    KauriC19.Example.tree.predictMask 3 0
      [fun _ => 0, fun _ => 1, fun f => if f = 2 then 1/2 else 7, fun _ => 0] = some [0, 1, 0, 0] :=
  ⟨KauriC19.Example.wf, by decide +kernel⟩

/-- `FullInv` (hypothesis of `kauri_predict_train_eq_labels`) holds after a run with two applied splits (C09's example) -/
example : FullInv KauriC09.Example.X KauriC09.Example.p
    (fitWith KauriC09.Example.X 3 KauriC09.Example.p [KauriC09.Example.b1, KauriC09.Example.b2]) :=
  KauriC09.fitWith_inv (by decide) (by decide) _
    ⟨fun _ _ => ⟨by decide, by decide, by decide, by decide, by decide, by decide, by decide, by decide, by decide,
      by decide, by decide, by decide, ⟨0, by decide, by decide⟩⟩,
     fun _ _ => ⟨by decide, by decide, by decide, by decide, by decide, by decide, by decide, by decide, by decide,
      by decide, by decide, by decide, ⟨1, by decide, by decide⟩⟩, trivial⟩

end GemVerif.Props.C18
