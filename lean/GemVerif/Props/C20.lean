/-
  C20 — synthetic data generators follow their documented distributions.

  What is proved (for every n, K, d, every parameter value, every outcome of numpy's primitives) is the ASSEMBLY:
  which recorded draw ends up in which output row, with which label, through which formula, and that the
  constants the current source hands to numpy are the documented ones.  The distributional half of the property
  ("within sampling error") is a statistical test in `harness/props/c20.py` (DESIGN.md section 10).

  `Spec` below is the hand-written table of DOCUMENTED constants (docstrings of `synthetic_data.py`; Celeux et al.
  2014, sections 3.1 and 3.2, for the two `celeux_*` sets).  `Gen.DataGen.*` is regenerated from the source on every
  run; the `*_documented` theorems compare the two, so a changed constant breaks a theorem.

  Sections
    A  draw_gmm: selection lemma, shapes, label range, acceptor ⇔ documented validity, arguments of the primitives
       (in particular: the number handed to `normal` as its standard deviation squares to the documented variance)
    B  multivariate_student_t: formula, shape, arguments
    C  gstm: split sizes, shapes, labels ∈ {0,1,2,3}, which row is which draw, locations, constants
    D  celeux_one: rows, shape, means, constants
    E  celeux_two: rows, affine structure of X3..X11, constants (incl. the rotated noise blocks)
    F  every draw goes through the generator that was passed
-/
import GemVerif.Lemmas.DataGen
import Mathlib.Analysis.SpecialFunctions.Trigonometric.Basic

namespace GemVerif.Props.C20

/-! ## Documented constants -/
namespace Spec
open GemVerif.Gen.DataGen (Q Q3)

/-- a valid mixture needs at least two components (`K ≥ 2`) -/
def gmmMinComponents : Nat := 2
/-- tests that the documentation requires before / for each component (1-D) / for each component (n-D) -/
def gmmRequiredCommon : List String := ["lenScale", "square", "lenPvals", "pvalsPos", "pvalsSum"]
def gmmRequired1d : List String := ["varPos"]
def gmmRequiredNd : List String := ["eigNonneg"]
/-- guards the source may add on top of the required ones -/
def gmmKnownExtra : List String := ["notAllZero", "symmetric"]
/-- `scale` documents covariances: numpy's `normal` must receive the square root of the 1-D variance -/
def gmmNormalStd : String := "sqrt(scale[k])"
def gmmSelection : String := "X[k][i] for i,k in enumerate(y)"

/-- gstm: Gaussians at (1,1), (1,-1), (-1,1), Student-t at (-1,-1), all times alpha -/
def gstmLocations : List (List Int) := [[1, 1], [1, -1], [-1, 1], [-1, -1]]
def eye (n : Nat) : List (List Q) := (List.range n).map fun i => (List.range n).map fun j => if i = j then (1, 1) else (0, 1)
def gstmProportions : List Q := [(1, 3), (1, 3), (1, 3)]
def gstmSplit : Nat × Nat := (3, 4)
def gstmStudentLabel : Nat := 3

/-- celeux_one: means μ·1₅, −μ·1₅, 0 -/
def c1MeanCoeffs : List (List Int) := [[1, 1, 1, 1, 1], [-1, -1, -1, -1, -1], [0, 0, 0, 0, 0]]
def c1Proportions : List Q := [(1, 3), (1, 3), (1, 3)]

/-- celeux_two (Celeux et al., 3.2) -/
def c2Means : List (List Q) := [[(0, 1), (0, 1)], [(4, 1), (0, 1)], [(0, 1), (2, 1)], [(4, 1), (2, 1)]]
def c2Proportions : List Q := [(1, 4), (1, 4), (1, 4), (1, 4)]
/-- b = ((0.5,1)', (2,0)', (0,3)', (-1,2)', (2,-4)', (0.5,0)', (4,0.5)', (3,0)', (2,1)') -/
def c2BT : List (List Q) :=
  [[(1, 2), (1, 1)], [(2, 1), (0, 1)], [(0, 1), (3, 1)], [(-1, 1), (2, 1)], [(2, 1), (-4, 1)], [(1, 2), (0, 1)],
   [(4, 1), (1, 2)], [(3, 1), (0, 1)], [(2, 1), (1, 1)]]
/-- (0, 0, 0.4, 0.8, …, 2.8) -/
def c2Offsets : List Q := [(0, 1), (0, 1), (2, 5), (4, 5), (6, 5), (8, 5), (2, 1), (12, 5), (14, 5)]
/-- (3.2, 3.6, 4) -/
def c2X1214Mean : List Q := [(16, 5), (18, 5), (4, 1)]
def z3 : Q3 := ((0, 1), (0, 1))
def r3 (a : Q) : Q3 := (a, (0, 1))
/-- Ω = diag(I₃, 0.5·I₂, Ω₁, Ω₂), Ω₁ = Rot(π/3)ᵀ diag(1,3) Rot(π/3) = [[5/2, √3/2], [√3/2, 3/2]],
    Ω₂ = Rot(π/6)ᵀ diag(2,6) Rot(π/6) = [[3, √3], [√3, 5]] -/
def c2NoiseCov : List (List Q3) :=
  [[r3 (1, 1), z3, z3, z3, z3, z3, z3, z3, z3],
   [z3, r3 (1, 1), z3, z3, z3, z3, z3, z3, z3],
   [z3, z3, r3 (1, 1), z3, z3, z3, z3, z3, z3],
   [z3, z3, z3, r3 (1, 2), z3, z3, z3, z3, z3],
   [z3, z3, z3, z3, r3 (1, 2), z3, z3, z3, z3],
   [z3, z3, z3, z3, z3, r3 (5, 2), ((0, 1), (1, 2)), z3, z3],
   [z3, z3, z3, z3, z3, ((0, 1), (1, 2)), r3 (3, 2), z3, z3],
   [z3, z3, z3, z3, z3, z3, z3, r3 (3, 1), ((0, 1), (1, 1))],
   [z3, z3, z3, z3, z3, z3, z3, ((0, 1), (1, 1)), r3 (5, 1)]]
end Spec

open scoped BigOperators
open GemVerif GemVerif.Model.DataGen GemVerif.DataGenLemmas

/-! ## A. draw_gmm -/

/-- Selection lemma: row `i` of the output is row `i` of the array drawn for component `y[i]`
    (`X = [X[k][i] for i, k in enumerate(y)]`). -/
theorem selectRows_row {ρ : Type} (y : List ℕ) (draws : ℕ → ℕ → ρ) (i k : ℕ) (h : y[i]? = some k) :
    (selectRows y draws)[i]? = some (draws k i) := by
  rw [getElem?_selectRows, h]; rfl

/-- One output row per label. -/
theorem selectRows_length {ρ : Type} (y : List ℕ) (draws : ℕ → ℕ → ρ) : (selectRows y draws).length = y.length :=
  length_selectRows y draws

/-- `draw_gmm` returns exactly when the acceptor accepts, and then returns the selected rows and the drawn labels. -/
theorem drawGmm_ok_iff {α : Type} [RealLike α] (p : GmmIn α) (y : List ℕ) (draws : ℕ → ℕ → List α)
    (r : List (List α) × List ℕ) :
    drawGmm p y draws = .ok r ↔ gmmAccept p = none ∧ r = (selectRows y draws, y) := by
  unfold drawGmm
  cases h : gmmAccept p with
  | none => simp [eq_comm]
  | some e => simp

/-- Documented shapes and label range: `X` has one row of length `d` per sample, `y` has one label per sample,
    labels are `< K` (numpy's `choice(K, …)` returns values in `0..K-1`: hypothesis `hy`; each primitive returns
    rows of length `d`: hypothesis `hd`), and row `i` is the draw of the component named by label `i`. -/
theorem drawGmm_shapes_labels {α : Type} [RealLike α] (p : GmmIn α) (n : ℕ) (y : List ℕ) (draws : ℕ → ℕ → List α)
    (X : List (List α)) (lab : List ℕ) (hn : y.length = n) (hy : ∀ k ∈ y, k < p.K)
    (hd : ∀ k i, (draws k i).length = p.d) (h : drawGmm p y draws = .ok (X, lab)) :
    X.length = n ∧ lab.length = n ∧ (∀ r ∈ X, r.length = p.d) ∧ (∀ l ∈ lab, l < p.K) ∧
      ∀ i l, lab[i]? = some l → X[i]? = some (draws l i) := by
  obtain ⟨_, hr⟩ := (drawGmm_ok_iff p y draws (X, lab)).1 h
  obtain ⟨rfl, rfl⟩ := Prod.mk.injEq .. ▸ hr
  refine ⟨by rw [length_selectRows, hn], hn, ?_, hy, fun i l hl => selectRows_row _ draws i l hl⟩
  intro r hr
  obtain ⟨i, hi, rfl⟩ := List.mem_iff_getElem.1 hr
  have : (selectRows lab draws)[i]? = some ((selectRows lab draws)[i]) := List.getElem?_eq_getElem hi
  rw [getElem?_selectRows] at this
  cases hl : lab[i]? with
  | none => rw [hl] at this; simp at this
  | some l => rw [hl] at this; simp at this; rw [← this]; exact hd l i

/-- The documented validity of a mixture parameter set: K means, K covariances, K proportions; square d×d
    covariances; strictly positive proportions adding up to one; positive variances (d = 1) or covariances on which
    numpy's eigenvalue test finds no negative eigenvalue (d > 1; that test is numpy's, a parameter of the model). -/
structure ValidMixture (p : GmmIn ℝ) : Prop where
  lenScale : p.scaleShape[0]? = some p.K
  square : p.d ≠ 1 → p.scaleShape[1]? = some p.d ∧ p.scaleShape[2]? = some p.d
  lenPvals : p.pvalsLen = p.K
  pos : ∀ k < p.K, 0 < p.pvals k
  sumOne : ∑ k ∈ Finset.range p.K, p.pvals k = 1
  var : p.d = 1 → ∀ k < p.K, 0 < p.var1 k
  psd : p.d ≠ 1 → ∀ k < p.K, p.eigNeg k = false

/-- The guards of the current source include every documented validity test. -/
theorem gmm_guards_cover_documented :
    (∀ g ∈ Spec.gmmRequiredCommon, g ∈ Gen.DataGen.gmmGuardsCommon) ∧
    (∀ g ∈ Spec.gmmRequired1d, g ∈ Gen.DataGen.gmmGuards1d) ∧
    (∀ g ∈ Spec.gmmRequiredNd, g ∈ Gen.DataGen.gmmGuardsNd) := by decide

/-- …and nothing beyond them except the known extra tests (all-zero covariance, symmetry). -/
theorem gmm_guards_nothing_else :
    (∀ g ∈ Gen.DataGen.gmmGuardsCommon, g ∈ Spec.gmmRequiredCommon) ∧
    (∀ g ∈ Gen.DataGen.gmmGuards1d, g ∈ Spec.gmmRequired1d) ∧
    (∀ g ∈ Gen.DataGen.gmmGuardsNd, g ∈ Spec.gmmRequiredNd ++ Spec.gmmKnownExtra) := by decide

/-- Every parameter set that does not describe a mixture is rejected: acceptance implies documented validity. -/
theorem gmmAccept_sound (p : GmmIn ℝ) (h : gmmAccept p = none) : ValidMixture p := by
  unfold gmmAccept at h
  obtain ⟨hc, h1, hN⟩ := gmm_guards_cover_documented
  cases hcm : checkCommon p Gen.DataGen.gmmGuardsCommon with
  | some e => rw [hcm] at h; simp at h
  | none =>
    rw [hcm] at h
    have hall := (checkCommon_none_iff p _).1 hcm
    have hLS := (commonGuard_lenScale p).1 (hall _ (hc _ (by decide)))
    have hSQ := (commonGuard_square p).1 (hall _ (hc _ (by decide)))
    have hLP := (commonGuard_lenPvals p).1 (hall _ (hc _ (by decide)))
    have hPP := (commonGuard_pvalsPos p).1 (hall _ (hc _ (by decide)))
    have hPS := (commonGuard_pvalsSum p).1 (hall _ (hc _ (by decide)))
    rw [hLP] at hPP hPS
    refine ⟨hLS, hSQ, hLP, hPP, hPS, ?_, ?_⟩
    · intro hd k hk
      simp only [hd, ↓reduceIte] at h
      have := (checkComps_none_iff p _ _).1 h k (List.mem_range.2 hk) "varPos" (h1 "varPos" (by decide))
      exact (compGuard_varPos p k).1 this
    · intro hd k hk
      simp only [hd, ↓reduceIte] at h
      have := (checkComps_none_iff p _ _).1 h k (List.mem_range.2 hk) "eigNonneg" (hN "eigNonneg" (by decide))
      exact (compGuard_eigNonneg p k).1 this

/-- Conversely a documented-valid parameter set is accepted, provided no covariance is the zero matrix and every
    covariance is symmetric (the two extra tests the source makes or may make; both hold for every genuine,
    non-degenerate covariance). -/
theorem gmmAccept_complete (p : GmmIn ℝ) (hv : ValidMixture p) (hz : p.d ≠ 1 → ∀ k < p.K, p.allZero k = false)
    (hs : p.d ≠ 1 → ∀ k < p.K, p.symm k = true) : gmmAccept p = none := by
  unfold gmmAccept
  obtain ⟨hc, h1, hN⟩ := gmm_guards_nothing_else
  have hcm : checkCommon p Gen.DataGen.gmmGuardsCommon = none := by
    rw [checkCommon_none_iff]
    intro g hg
    have := hc g hg
    simp only [Spec.gmmRequiredCommon, List.mem_cons, List.not_mem_nil, or_false] at this
    rcases this with rfl | rfl | rfl | rfl | rfl
    · exact (commonGuard_lenScale p).2 hv.lenScale
    · exact (commonGuard_square p).2 hv.square
    · exact (commonGuard_lenPvals p).2 hv.lenPvals
    · exact (commonGuard_pvalsPos p).2 (hv.lenPvals ▸ hv.pos)
    · exact (commonGuard_pvalsSum p).2 (hv.lenPvals ▸ hv.sumOne)
  rw [hcm]
  by_cases hd : p.d = 1
  · simp only [hd, ↓reduceIte]
    rw [checkComps_none_iff]
    intro k hk g hg
    have := h1 g hg
    simp only [Spec.gmmRequired1d, List.mem_cons, List.not_mem_nil, or_false] at this
    subst this
    exact (compGuard_varPos p k).2 (hv.var hd k (List.mem_range.1 hk))
  · simp only [hd, ↓reduceIte]
    rw [checkComps_none_iff]
    intro k hk g hg
    have hk' := List.mem_range.1 hk
    have := hN g hg
    simp only [Spec.gmmRequiredNd, Spec.gmmKnownExtra, List.cons_append, List.nil_append, List.mem_cons,
      List.not_mem_nil, or_false] at this
    rcases this with rfl | rfl | rfl
    · exact (compGuard_eigNonneg p k).2 (hv.psd hd k hk')
    · exact (compGuard_notAllZero p k).2 (hz hd k hk')
    · exact (compGuard_symmetric p k).2 (hs hd k hk')

/-- The hypotheses of `gmmAccept_complete` are satisfiable (a 2-component mixture in dimension 2). -/
example : ∃ p : GmmIn ℝ, ValidMixture p ∧ (p.d ≠ 1 → ∀ k < p.K, p.allZero k = false) ∧
    (p.d ≠ 1 → ∀ k < p.K, p.symm k = true) :=
  ⟨{ K := 2, d := 2, scaleShape := [2, 2, 2], pvalsLen := 2, pvals := fun _ => 1 / 2, var1 := fun _ => 1,
     eigNeg := fun _ => false, allZero := fun _ => false, symm := fun _ => true },
   ⟨rfl, fun _ => ⟨rfl, rfl⟩, rfl, fun _ _ => by norm_num, by norm_num [Finset.sum_range_succ], fun _ _ _ => by norm_num,
    fun _ _ _ => rfl⟩, fun _ _ _ => rfl, fun _ _ _ => rfl⟩

/-- `scale` documents (co)variances, numpy's `normal` takes a standard deviation: whatever the source hands to
    `normal` for a component of variance `v ≥ 0` is a non-negative number whose square is `v`.
    (Breaks when the variance itself is passed: then `s = v` and `v * v ≠ v`.) -/
theorem gmm_normal_receives_std (v : ℝ) (hv : 0 ≤ v) :
    ∃ s, normalStdOf Gen.DataGen.gmmNormalStd v = some s ∧ s * s = v ∧ 0 ≤ s := by
  refine ⟨Real.sqrt v, ?_, Real.mul_self_sqrt hv, Real.sqrt_nonneg v⟩
  simp [normalStdOf, Gen.DataGen.gmmNormalStd]

/-- Arguments of the primitives of `draw_gmm` are the documented ones: labels by `choice(K, p=pvals, size=n)`,
    1-D components by `normal(loc[k], sqrt(scale[k]), n)`, n-D components by
    `multivariate_normal(loc[k], scale[k], n)`, rows assembled by `X[k][i] for i, k in enumerate(y)`,
    at least two components. -/
theorem gmm_calls_documented :
    Gen.DataGen.gmmChoiceArgs = [("a", "K"), ("p", "pvals"), ("size", "n"), ("replace", "default")] ∧
    Gen.DataGen.gmmDraw1dPrim = "normal" ∧ Gen.DataGen.gmmDraw1dLoc = "loc[k]" ∧
    Gen.DataGen.gmmNormalStd = Spec.gmmNormalStd ∧ Gen.DataGen.gmmDraw1dSize = "n" ∧
    Gen.DataGen.gmmDrawNdPrim = "multivariate_normal" ∧ Gen.DataGen.gmmDrawNdMean = "loc[k]" ∧
    Gen.DataGen.gmmDrawNdCov = "scale[k]" ∧ Gen.DataGen.gmmDrawNdSize = "n" ∧
    Gen.DataGen.gmmSelection = Spec.gmmSelection ∧ Gen.DataGen.gmmMinComponents = Spec.gmmMinComponents := by
  decide

/-! ## B. multivariate_student_t -/

/-- Student-t formula: entry `(i, j)` of the result is `√(df / u_i) · z_{ij} + loc_j`. -/
theorem studentT_entry (n : ℕ) (df : ℝ) (us : ℕ → ℝ) (nxs : ℕ → List ℝ) (loc : List ℝ) (i j : ℕ) (z l : ℝ)
    (hi : i < n) (hz : (nxs i)[j]? = some z) (hl : loc[j]? = some l) :
    ∃ row, (studentT n df us nxs loc)[i]? = some row ∧ row[j]? = some (Real.sqrt (df / us i) * z + l) :=
  ⟨_, getElem?_studentT n df us nxs loc i hi, getElem?_studentRow df (us i) (nxs i) loc j z l hz hl⟩

/-- Shape `(n, d)` of the Student-t sample. -/
theorem studentT_shape {α : Type} [RealLike α] (n d : ℕ) (df : α) (us : ℕ → α) (nxs : ℕ → List α) (loc : List α)
    (hx : ∀ i, (nxs i).length = d) (hl : loc.length = d) :
    (studentT n df us nxs loc).length = n ∧ ∀ r ∈ studentT n df us nxs loc, r.length = d := by
  constructor
  · simp [studentT]
  · intro r hr
    simp only [studentT, List.mem_map, List.mem_range] at hr
    obtain ⟨i, _, rfl⟩ := hr
    simp [studentRow, hx i, hl]

/-- The Gaussian part is `multivariate_normal(zeros(d), scale, n)`, the mixing part `chisquare(df, n)`, combined
    as `sqrt(df / chi2) * normal + loc`. -/
theorem student_calls_documented :
    Gen.DataGen.studentMvnArgs = [("mean", "zeros(d)"), ("cov", "scale"), ("size", "n")] ∧
    Gen.DataGen.studentChiArgs = [("df", "df"), ("size", "n")] ∧
    Gen.DataGen.studentFormula = "add(mul(sqrt(div(df,rng1)),rng0),loc)" := by decide

/-! ## C. gstm -/

/-- The split: `n_gaussian = 3n // 4`, and the two parts add up to `n`. -/
theorem gstm_split (n : ℕ) : gstmNGaussian n = 3 * n / 4 ∧ gstmNGaussian n + (n - gstmNGaussian n) = n := by
  have h : gstmNGaussian n = 3 * n / 4 := rfl
  refine ⟨h, ?_⟩
  rw [h]; omega

/-- Shapes: one row and one label per entry of the permutation. -/
theorem gstm_shapes {α : Type} [RealLike α] (n : ℕ) (alpha df : α) (yG : List ℕ) (drawsG : ℕ → ℕ → List α)
    (us : ℕ → α) (nxs : ℕ → List α) (order : List ℕ) :
    (gstm n alpha df yG drawsG us nxs order).1.length = order.length ∧
    (gstm n alpha df yG drawsG us nxs order).2.length = order.length := by
  simp [gstm]

/-- A shuffled position that points into the Gaussian part carries the drawn component as label and that
    component's draw as sample. -/
theorem gstm_gaussian_rows {α : Type} [RealLike α] (n : ℕ) (alpha df : α) (yG : List ℕ) (drawsG : ℕ → ℕ → List α)
    (us : ℕ → α) (nxs : ℕ → List α) (order : List ℕ) (j o k : ℕ) (ho : order[j]? = some o) (hk : yG[o]? = some k) :
    (gstm n alpha df yG drawsG us nxs order).1[j]? = some (some (drawsG k o)) ∧
    (gstm n alpha df yG drawsG us nxs order).2[j]? = some (some k) := by
  have ho' : o < yG.length := by
    by_contra hc
    rw [List.getElem?_eq_none (not_lt.1 hc)] at hk; simp at hk
  constructor
  · simp only [gstm, List.getElem?_map, ho, Option.map_some]
    rw [List.getElem?_append_left (by rw [length_selectRows]; exact ho'), selectRows_row yG drawsG o k hk]
  · simp only [gstm, List.getElem?_map, ho, Option.map_some]
    rw [List.getElem?_append_left ho', hk]

/-- A shuffled position that points into the Student-t part carries label 3 and the Student-t formula applied to
    the corresponding (z, u) draw at location `alpha·(-1,-1)`. -/
theorem gstm_student_rows {α : Type} [RealLike α] (n : ℕ) (alpha df : α) (yG : List ℕ) (drawsG : ℕ → ℕ → List α)
    (us : ℕ → α) (nxs : ℕ → List α) (order : List ℕ) (j o : ℕ) (hG : yG.length = gstmNGaussian n)
    (ho : order[j]? = some o) (h1 : gstmNGaussian n ≤ o) (h2 : o < n) :
    (gstm n alpha df yG drawsG us nxs order).1[j]? =
      some (some (studentRow df (us (o - gstmNGaussian n)) (nxs (o - gstmNGaussian n)) (gstmStudentLoc alpha))) ∧
    (gstm n alpha df yG drawsG us nxs order).2[j]? = some (some 3) := by
  have hlt : o - gstmNGaussian n < n - gstmNGaussian n := by omega
  constructor
  · simp only [gstm, List.getElem?_map, ho, Option.map_some]
    rw [List.getElem?_append_right (by rw [length_selectRows, hG]; exact h1), length_selectRows, hG]
    simp [studentT, hlt]
  · simp only [gstm, List.getElem?_map, ho, Option.map_some]
    rw [List.getElem?_append_right (by rw [hG]; exact h1), hG]
    simp [hlt, Gen.DataGen.gstmStudentLabel]

/-- Labels are in {0, 1, 2, 3}: with `choice(3, …)` labels `< 3` and a permutation of `0..n-1`, every returned label
    exists and is at most 3. -/
theorem gstm_labels_range {α : Type} [RealLike α] (n : ℕ) (alpha df : α) (yG : List ℕ) (drawsG : ℕ → ℕ → List α)
    (us : ℕ → α) (nxs : ℕ → List α) (order : List ℕ) (hG : yG.length = gstmNGaussian n) (hy : ∀ k ∈ yG, k < 3)
    (hord : ∀ o ∈ order, o < n) :
    ∀ l ∈ (gstm n alpha df yG drawsG us nxs order).2, ∃ k, l = some k ∧ k ≤ 3 := by
  intro l hl
  obtain ⟨j, hj, rfl⟩ := List.mem_iff_getElem.1 hl
  have hj' : j < order.length := by simpa [gstm] using hj
  have ho : order[j]? = some order[j] := List.getElem?_eq_getElem hj'
  have hon := hord _ (List.getElem_mem hj')
  by_cases hlt : order[j] < gstmNGaussian n
  · have hk : yG[order[j]]? = some (yG[order[j]]'(hG ▸ hlt)) := List.getElem?_eq_getElem (hG ▸ hlt)
    have := (gstm_gaussian_rows n alpha df yG drawsG us nxs order j _ _ ho hk).2
    rw [List.getElem?_eq_getElem hj] at this
    exact ⟨_, Option.some.inj this, le_of_lt (hy _ (List.getElem_mem _))⟩
  · have := (gstm_student_rows n alpha df yG drawsG us nxs order j _ hG ho (not_lt.1 hlt) hon).2
    rw [List.getElem?_eq_getElem hj] at this
    exact ⟨3, Option.some.inj this, le_refl 3⟩

/-- Exactly `n − 3n//4` samples carry the Student-t label 3, whatever the shuffle (`order` a permutation of
    `0..n-1`, Gaussian labels `< 3`). -/
theorem gstm_student_count {α : Type} [RealLike α] (n : ℕ) (alpha df : α) (yG : List ℕ) (drawsG : ℕ → ℕ → List α)
    (us : ℕ → α) (nxs : ℕ → List α) (order : List ℕ) (hG : yG.length = gstmNGaussian n) (hy : ∀ k ∈ yG, k < 3)
    (hperm : order.Perm (List.range n)) :
    (gstm n alpha df yG drawsG us nxs order).2.count (some 3) = n - gstmNGaussian n := by
  have hle : gstmNGaussian n ≤ n := by
    have : gstmNGaussian n = 3 * n / 4 := rfl
    omega
  have hlen : (yG ++ List.replicate (n - gstmNGaussian n) 3).length = n := by
    simp [hG]; omega
  have h1 : (gstm n alpha df yG drawsG us nxs order).2 =
      order.map fun o => (yG ++ List.replicate (n - gstmNGaussian n) 3)[o]? := rfl
  have h2 : (List.range n).map (fun o => (yG ++ List.replicate (n - gstmNGaussian n) 3)[o]?) =
      (yG ++ List.replicate (n - gstmNGaussian n) 3).map some := by
    apply List.ext_getElem
    · rw [List.length_map, List.length_map, List.length_range, hlen]
    · intro i hi1 hi2
      rw [List.length_map, List.length_range] at hi1
      have hi3 : i < (yG ++ List.replicate (n - gstmNGaussian n) 3).length := by rw [hlen]; exact hi1
      rw [List.getElem_map, List.getElem_map, List.getElem_range, List.getElem?_eq_getElem hi3]
  rw [h1, (hperm.map _).count_eq, h2, List.count_map_of_injective _ _ (Option.some_injective _), List.count_append,
    List.count_replicate_self, List.count_eq_zero_of_not_mem]
  · simp
  · intro h3; exact absurd (hy 3 h3) (by decide)

/-- Locations are `alpha·(1,1), alpha·(1,-1), alpha·(-1,1)` for the Gaussians (in this order, labels 0, 1, 2) and
    `alpha·(-1,-1)` for the Student-t component. -/
theorem gstm_locations (alpha : ℝ) :
    gstmGaussLocs alpha = [[alpha, alpha], [alpha, -alpha], [-alpha, alpha]] ∧
    gstmStudentLoc alpha = [-alpha, -alpha] ∧
    gstmLocations alpha = [[alpha, alpha], [alpha, -alpha], [-alpha, alpha], [-alpha, -alpha]] := by
  simp [gstmGaussLocs, gstmStudentLoc, gstmLocations, Gen.DataGen.gstmGaussLocs, Gen.DataGen.gstmStudentLoc,
    Gen.DataGen.gstmLocations, ofInt_real]

/-- Constants of gstm are the documented ones: location signs, identity covariances, three equal proportions, the
    3/4 split, label 3 for the Student-t part, `df` forwarded, scaling by `alpha`, and the Gaussian / Student rows
    are the first three / last row of the location table. -/
theorem gstm_constants_documented :
    Gen.DataGen.gstmLocations = Spec.gstmLocations ∧ Gen.DataGen.gstmScaledBy = "alpha" ∧
    Gen.DataGen.gstmGaussLocs = Spec.gstmLocations.take 3 ∧ some Gen.DataGen.gstmStudentLoc = Spec.gstmLocations[3]? ∧
    Gen.DataGen.gstmGaussCovs = [Spec.eye 2, Spec.eye 2, Spec.eye 2] ∧ Gen.DataGen.gstmStudentScale = Spec.eye 2 ∧
    Gen.DataGen.gstmProportions = Spec.gstmProportions ∧ Gen.DataGen.gstmSplit = Spec.gstmSplit ∧
    Gen.DataGen.gstmStudentLabel = Spec.gstmStudentLabel ∧ Gen.DataGen.gstmStudentDf = "df" := by decide

/-! ## D. celeux_one -/

/-- Row `i` is the draw of component `y[i]` followed by the `p` noise columns of row `i`; labels are returned
    unchanged. -/
theorem celeuxOne_rows {α : Type} [RealLike α] (y : List ℕ) (draws : ℕ → ℕ → List α) (noise : ℕ → List α) (i k : ℕ)
    (h : y[i]? = some k) :
    (celeuxOne y draws noise).1[i]? = some (draws k i ++ noise i) ∧ (celeuxOne y draws noise).2 = y := by
  simp [celeuxOne, List.getElem?_mapIdx, selectRows_row y draws i k h]

/-- Shape `(n, 5 + p)`. -/
theorem celeuxOne_shape {α : Type} [RealLike α] (n p : ℕ) (y : List ℕ) (draws : ℕ → ℕ → List α) (noise : ℕ → List α)
    (hn : y.length = n) (hd : ∀ k i, (draws k i).length = 5) (hp : ∀ i, (noise i).length = p) :
    (celeuxOne y draws noise).1.length = n ∧ ∀ r ∈ (celeuxOne y draws noise).1, r.length = 5 + p := by
  constructor
  · simp [celeuxOne, length_selectRows, hn]
  · intro r hr
    obtain ⟨i, hi, rfl⟩ := List.mem_iff_getElem.1 hr
    have hi' : i < y.length := by simpa [celeuxOne, length_selectRows] using hi
    have := (celeuxOne_rows y draws noise i _ (List.getElem?_eq_getElem hi')).1
    rw [List.getElem?_eq_getElem hi] at this
    rw [Option.some.inj this, List.length_append, hd, hp]

/-- Means of celeux_one are `μ·1₅`, `−μ·1₅`, `0₅`. -/
theorem c1_means (mu : ℝ) :
    c1Means mu = [[mu, mu, mu, mu, mu], [-mu, -mu, -mu, -mu, -mu], [0, 0, 0, 0, 0]] := by
  simp [c1Means, Gen.DataGen.c1MeanCoeffs, ofInt_real]

/-- Constants of celeux_one are the documented ones. -/
theorem c1_constants_documented :
    Gen.DataGen.c1MeanCoeffs = Spec.c1MeanCoeffs ∧ Gen.DataGen.c1ScaledBy = "mu" ∧
    Gen.DataGen.c1Covs = [Spec.eye 5, Spec.eye 5, Spec.eye 5] ∧ Gen.DataGen.c1Proportions = Spec.c1Proportions ∧
    Gen.DataGen.c1NoiseSize = "[n,p]" ∧ Gen.DataGen.c1Columns = ["good", "noise"] := by decide

/-! ## E. celeux_two -/

/-- Row `i` is `(X1, X2)` = the draw of component `y[i]`, then `X3..X11 = offsets + (X1, X2)·b + noise_i`, then
    `X12..X14` = row `i` of the last draw. -/
theorem celeuxTwo_rows {α : Type} [RealLike α] (y : List ℕ) (draws : ℕ → ℕ → List α) (noise x1214 : ℕ → List α)
    (i k : ℕ) (h : y[i]? = some k) :
    (celeuxTwo y draws noise x1214).1[i]? =
      some (draws k i ++ affineRow c2Offsets c2BT (draws k i) (noise i) ++ x1214 i) ∧
    (celeuxTwo y draws noise x1214).2 = y := by
  simp [celeuxTwo, List.getElem?_mapIdx, selectRows_row y draws i k h]

/-- The affine structure with the documented numbers: for informative variables `(g₁, g₂)` and noise `e`,
    `X3..X11 = (0, 0, 0.4, …, 2.8) + (g₁, g₂)·b + e` with
    `b = ((0.5,1)ᵀ,(2,0)ᵀ,(0,3)ᵀ,(-1,2)ᵀ,(2,-4)ᵀ,(0.5,0)ᵀ,(4,0.5)ᵀ,(3,0)ᵀ,(2,1)ᵀ)`. -/
theorem c2_affine (g1 g2 e1 e2 e3 e4 e5 e6 e7 e8 e9 : ℝ) :
    affineRow c2Offsets c2BT [g1, g2] [e1, e2, e3, e4, e5, e6, e7, e8, e9] =
      [0 + (1 / 2 * g1 + g2) + e1, 0 + (2 * g1) + e2, 2 / 5 + (3 * g2) + e3, 4 / 5 + (-g1 + 2 * g2) + e4,
       6 / 5 + (2 * g1 - 4 * g2) + e5, 8 / 5 + (1 / 2 * g1) + e6, 2 + (4 * g1 + 1 / 2 * g2) + e7,
       12 / 5 + (3 * g1) + e8, 14 / 5 + (2 * g1 + g2) + e9] := by
  simp only [affineRow, c2Offsets, c2BT, Gen.DataGen.c2Offsets, Gen.DataGen.c2BT, dot, List.map, List.zipWith,
    List.foldl, ofQ_real]
  norm_num
  refine ⟨?_, ?_, ?_, ?_, ?_, ?_, ?_, ?_, ?_⟩ <;> ring

/-- Shape `(n, 14)`. -/
theorem celeuxTwo_shape {α : Type} [RealLike α] (n : ℕ) (y : List ℕ) (draws : ℕ → ℕ → List α) (noise x1214 : ℕ → List α)
    (hn : y.length = n) (hd : ∀ k i, (draws k i).length = 2) (he : ∀ i, (noise i).length = 9)
    (hl : ∀ i, (x1214 i).length = 3) :
    (celeuxTwo y draws noise x1214).1.length = n ∧ ∀ r ∈ (celeuxTwo y draws noise x1214).1, r.length = 14 := by
  constructor
  · simp [celeuxTwo, length_selectRows, hn]
  · intro r hr
    obtain ⟨i, hi, rfl⟩ := List.mem_iff_getElem.1 hr
    have hi' : i < y.length := by simpa [celeuxTwo, length_selectRows] using hi
    have := (celeuxTwo_rows y draws noise x1214 i _ (List.getElem?_eq_getElem hi')).1
    rw [List.getElem?_eq_getElem hi] at this
    rw [Option.some.inj this]
    simp [affineRow, c2Offsets, c2BT, Gen.DataGen.c2Offsets, Gen.DataGen.c2BT, hd, he, hl]

/-- Constants of celeux_two are the documented ones: four means, identity covariances, equal proportions, `b` (and
    its 2 × 9 form used in `good @ b` is the transpose of the documented column list), offsets, zero-mean noise with
    the block covariance Ω, `X12..X14 ~ N((3.2, 3.6, 4), I₃)`, formula and column order. -/
theorem c2_constants_documented :
    Gen.DataGen.c2Means = Spec.c2Means ∧ Gen.DataGen.c2Covs = [Spec.eye 2, Spec.eye 2, Spec.eye 2, Spec.eye 2] ∧
    Gen.DataGen.c2Proportions = Spec.c2Proportions ∧ Gen.DataGen.c2BT = Spec.c2BT ∧
    Gen.DataGen.c2B = [Spec.c2BT.map (·.getD 0 (0, 1)), Spec.c2BT.map (·.getD 1 (0, 1))] ∧
    Gen.DataGen.c2Offsets = Spec.c2Offsets ∧ Gen.DataGen.c2NoiseMean = List.replicate 9 (0, 1) ∧
    Gen.DataGen.c2NoiseCov = Spec.c2NoiseCov ∧ Gen.DataGen.c2X1214Mean = Spec.c2X1214Mean ∧
    Gen.DataGen.c2X1214Cov = Spec.eye 3 ∧ Gen.DataGen.c2Formula = "add(add(offsets,matmul(good,b)),noise)" ∧
    Gen.DataGen.c2Columns = ["good", "X3_11", "X12_14"] := by decide

/-- The two non-trivial blocks of the documented Ω are the rotated diagonal matrices of the paper:
    `Rot(θ)ᵀ diag(a, b) Rot(θ)` with `Rot(θ) = [[cos θ, −sin θ], [sin θ, cos θ]]`, for (θ, a, b) = (π/3, 1, 3) and
    (π/6, 2, 6); entries `x + y·√3` as tabulated. -/
theorem c2_omega_blocks_are_rotations :
    (let c := Real.cos (Real.pi / 3); let s := Real.sin (Real.pi / 3)
     (c * 1 * c + s * 3 * s = 5 / 2 ∧ c * 1 * (-s) + s * 3 * c = 1 / 2 * Real.sqrt 3 ∧ (-s) * 1 * (-s) + c * 3 * c = 3 / 2)) ∧
    (let c := Real.cos (Real.pi / 6); let s := Real.sin (Real.pi / 6)
     (c * 2 * c + s * 6 * s = 3 ∧ c * 2 * (-s) + s * 6 * c = 1 * Real.sqrt 3 ∧ (-s) * 2 * (-s) + c * 6 * c = 5)) := by
  have h3 : Real.sqrt 3 * Real.sqrt 3 = 3 := Real.mul_self_sqrt (by norm_num)
  simp only [Real.cos_pi_div_three, Real.sin_pi_div_three, Real.cos_pi_div_six, Real.sin_pi_div_six]
  refine ⟨⟨?_, ?_, ?_⟩, ⟨?_, ?_, ?_⟩⟩ <;> nlinarith [h3]

/-! ## F. randomness -/

/-- No generator touches numpy's global RNG (`np.random.*`) or draws from an object other than
    `check_random_state(random_state)`; draw_gmm uses only `choice`, `normal`, `multivariate_normal`, the Student-t
    sampler only `multivariate_normal`, `chisquare`. -/
theorem draws_only_from_passed_generator :
    Gen.DataGen.usesGlobalRng = false ∧
    Gen.DataGen.gmmPrimitives = ["choice", "multivariate_normal", "normal"] ∧
    Gen.DataGen.studentPrimitives = ["chisquare", "multivariate_normal"] := by decide

end GemVerif.Props.C20
