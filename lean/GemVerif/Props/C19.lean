/-
  C19 — the printed KAURI tree is a faithful description of the fitted tree.
  (Work in progress.)  First facts about the printer model `Tree.printNode`.
-/
import GemVerif.Model.Kauri

namespace GemVerif.Props.C19
open GemVerif Model.Kauri

/-- A leaf prints exactly its node line and its cluster line. -/
theorem print_leaf {α : Type} [RealLike α] (t : Tree α) (sh : α → String) (nm : Int → String) (fuel node : Nat)
    (h : t.left[node]! = -1) :
    t.printNode sh nm (fuel + 1) node =
      [rep "| " (t.depths[node]!) ++ s!"Node {node}",
       rep "| " (t.depths[node]!) ++ " " ++ s!"Cluster: {t.target[node]!}"] := by
  simp [Tree.printNode, h]

end GemVerif.Props.C19
