/-
  C19 — the printed KAURI tree is a faithful description of the fitted tree.

  `Tree.printNode` (Model/Kauri.lean) is the line-by-line model of `print_kauri_tree.print_node`; the harness
  compares it character for character with the captured stdout of the real function.  Here:

  * `print_eq_render`   the printed strings are the renderings of structured lines (`KauriC19.printLines`);
  * `read_print`        every printed string determines its structured line (depth = number of leading `"| "`,
                        kind, node id, cluster label, feature label, threshold text): reading the strings back
                        gives exactly those lines;
  * `parse_print`       the recursive-descent reader (depth-directed, as `harness/props/c19.py::parse_rules`)
                        turns the lines into the nested rules `rulesOf t` and consumes them entirely;
  * `rules_eval`        applying `rulesOf t` to a point is `Tree.route` (= `Tree.predict` on one row);
  * `print_parse_eval`  the composition: read the printed lines back, apply them to any point, get `predict`;
  * `split_print`, `print_parse_eval_text`  the same starting from the output as ONE string (every line followed
                        by a newline): cutting it at newlines gives the lines back when no label has a newline;
  * `print_parse_eval_distinct`  the composition with the label/threshold readers *derived* from "labels of used
                        features are pairwise distinct" and "different thresholds print differently";
  * `default_names_distinct`, `user_names_distinct`  the default labels `X[:, f]`, and user labels taken from a
                        list without repetition, are pairwise distinct;
  * `wellFormed_init`, `wellFormed_addChild`  the hypothesis `WellFormed` holds for every tree `fit` can build.

  Trusted (stated as hypotheses): Python's `repr(float)` round-trips (`ReadBack.thr` / `ThrDistinct`) and contains
  neither blank nor newline (`ThrNoBlank`, `NoNewline`).  Feature labels are arbitrary strings (blanks, `<=`, `| `
  allowed); only a newline inside a label is excluded, and only for the one-string statement.
-/
import GemVerif.Lemmas.KauriC19

namespace GemVerif.Props.C19
open GemVerif RealLike Model.Kauri KauriC19

variable {α : Type} [RealLike α]
set_option linter.unusedSectionVars false

/-- A leaf prints exactly its node line and its cluster line. -/
theorem print_leaf {α : Type} [RealLike α] (t : Tree α) (sh : α → String) (nm : Int → String) (fuel node : Nat)
    (h : t.left[node]! = -1) :
    t.printNode sh nm (fuel + 1) node =
      [rep "| " (t.depths[node]!) ++ s!"Node {node}",
       rep "| " (t.depths[node]!) ++ " " ++ s!"Cluster: {t.target[node]!}"] := by
  simp [Tree.printNode, h]

/-- The printer model emits exactly the renderings of the structured lines `printLines` (any tree, any fuel). -/
theorem print_eq_render (t : Tree α) (sh : α → String) (nm : Int → String) (fuel node : Nat) :
    t.printNode sh nm fuel node = (printLines t sh nm fuel node).map Line.render :=
  printNode_eq_map_render t sh nm fuel node

/-- A printed string determines its line: `Line.read` (count the leading `"| "`, look at the next characters,
    cut the rule at its last blank) recovers depth, kind and all fields, for any feature label whatsoever, provided
    the threshold text contains no blank. -/
theorem read_render_line (l : Line) (h : l.ThrNoBlank) : Line.read l.render = some l :=
  read_render l h

/-- Reading the printed strings of a well-formed tree back gives its structured lines. -/
theorem read_print {t : Tree α} (ht : WellFormed t) {sh : α → String} (hnb : ThrNoBlank t sh) (nm : Int → String)
    (fuel node : Nat) (hnode : node < t.nNodes) :
    readLines (t.printNode sh nm fuel node) = some (printLines t sh nm fuel node) := by
  rw [print_eq_render]
  exact readLines_map_render _ (printLines_thrNoBlank ht hnb nm fuel node hnode)

/-- The reader turns the printed lines of the subtree of `node`, followed by anything, into the rules of that subtree
    and leaves the rest unread: the printed text is a set of properly nested rules. -/
theorem parse_print_prefix {t : Tree α} (ht : WellFormed t) (sh : α → String) (nm : Int → String)
    (fuel node : Nat) (hnode : node < t.nNodes) (hfuel : t.nNodes ≤ fuel + node) (rest : List Line)
    (f : Nat) (hf : (printLines t sh nm fuel node).length ≤ f) :
    parseAt f (t.depths[node]!) (printLines t sh nm fuel node ++ rest) = some (rulesOf t sh nm fuel node, rest) :=
  parseAt_printLines ht sh nm fuel node f rest hnode hfuel hf

/-- The whole printed tree is read as one rule tree, `rulesOf t`, with nothing left over. -/
theorem parse_print {t : Tree α} (ht : WellFormed t) (sh : α → String) (nm : Int → String)
    (fuel : Nat) (hfuel : t.nNodes ≤ fuel) :
    parse (printLines t sh nm fuel 0) = some (rulesOf t sh nm fuel 0) := by
  have h := parseAt_printLines ht sh nm fuel 0 (printLines t sh nm fuel 0).length [] ht.pos (by omega)
    (Nat.le_refl _)
  rw [ht.root_depth, List.append_nil] at h
  simp [parse, h]

/-- Applying the rules of the tree to a point is routing the point through the tree, when printed labels are read
    back to the column / the value they were printed from. -/
theorem rules_eval {t : Tree α} (ht : WellFormed t) {sh : α → String} {nm : Int → String}
    {colOf : String → Nat} {readThr : String → α} (hrb : ReadBack t sh nm colOf readThr) (x : Nat → α)
    (fuel node : Nat) (hnode : node < t.nNodes) (hfuel : t.nNodes ≤ fuel + node) :
    evalRules colOf readThr x (rulesOf t sh nm fuel node) = t.route x fuel node :=
  evalRules_rulesOf ht hrb x fuel node hnode hfuel

/-- **C19.**  For every well-formed tree and every point `x`: reading the printed text back (`parseText`: strings →
    lines → nested rules) and applying the rules to `x` gives the cluster `predict` assigns to `x`.
    `sh` is the rendering of thresholds, `nm f` the label of feature `f` (the user's `feature_names[f]` or the
    default); `ReadBack` says that `readThr` inverts `sh` on the thresholds of the tree (Python's `repr(float)`
    round-trips: trusted) and that `colOf` maps the label of each used feature to its column (possible exactly when
    the labels of used features are pairwise distinct, see `print_parse_eval_distinct`). -/
theorem print_parse_eval {t : Tree α} (ht : WellFormed t) {sh : α → String} {nm : Int → String}
    {colOf : String → Nat} {readThr : String → α} (hrb : ReadBack t sh nm colOf readThr)
    (hnb : ThrNoBlank t sh) (x : Nat → α) (fuel : Nat) (hfuel : t.nNodes ≤ fuel) :
    (parseText (t.printNode sh nm fuel 0)).map (evalRules colOf readThr x) = some (t.route x fuel 0) := by
  rw [parseText, read_print ht hnb nm fuel 0 ht.pos, Option.bind_some, parse_print ht sh nm fuel hfuel,
    Option.map_some, rules_eval ht hrb x fuel 0 ht.pos (by omega)]

/-- Cutting the printed text (every line followed by a newline, as `print` writes it) at newlines gives back the
    printed lines, when no label contains a newline. -/
theorem split_print {t : Tree α} (ht : WellFormed t) {sh : α → String} {nm : Int → String}
    (hnl : NoNewline t sh nm) (fuel node : Nat) (hnode : node < t.nNodes) :
    splitLines (textOf (t.printNode sh nm fuel node)) = t.printNode sh nm fuel node := by
  apply splitLines_textOf
  rw [print_eq_render]
  intro s hs
  obtain ⟨l, hl, rfl⟩ := List.mem_map.mp hs
  exact render_noNewline l (printLines_noNewline ht hnl fuel node hnode l hl)

/-- **C19 on the text as one string.**  `textOf (t.printNode …)` is what `print_kauri_tree` writes to stdout;
    `parseString` cuts it at newlines, reads every line, and reads the nested rules. -/
theorem print_parse_eval_text {t : Tree α} (ht : WellFormed t) {sh : α → String} {nm : Int → String}
    {colOf : String → Nat} {readThr : String → α} (hrb : ReadBack t sh nm colOf readThr)
    (hnb : ThrNoBlank t sh) (hnl : NoNewline t sh nm) (x : Nat → α) (fuel : Nat) (hfuel : t.nNodes ≤ fuel) :
    (parseString (textOf (t.printNode sh nm fuel 0))).map (evalRules colOf readThr x)
      = some (t.route x fuel 0) := by
  rw [parseString, split_print ht hnl fuel 0 ht.pos]
  exact print_parse_eval ht hrb hnb x fuel hfuel

/-- The same statement on structured lines (no assumption on the threshold text). -/
theorem print_parse_eval_lines {t : Tree α} (ht : WellFormed t) {sh : α → String} {nm : Int → String}
    {colOf : String → Nat} {readThr : String → α} (hrb : ReadBack t sh nm colOf readThr)
    (x : Nat → α) (fuel : Nat) (hfuel : t.nNodes ≤ fuel) :
    (parse (printLines t sh nm fuel 0)).map (evalRules colOf readThr x) = some (t.route x fuel 0) := by
  rw [parse_print ht sh nm fuel hfuel, Option.map_some, rules_eval ht hrb x fuel 0 ht.pos (by omega)]

/-- When the labels of the used features are pairwise distinct and different thresholds print differently, the
    printed text alone fixes how labels are read (`colOfTree`, `readThrTree`: look the label up among the printed
    rules). -/
theorem readBack_distinct {t : Tree α} {sh : α → String} {nm : Int → String}
    (hn : NamesDistinct t nm) (hth : ThrDistinct t sh) :
    ReadBack t sh nm (colOfTree t nm) (readThrTree t sh) :=
  readBack_of_distinct hn hth

/-- **C19**, with the readers derived from distinctness of labels and of printed thresholds. -/
theorem print_parse_eval_distinct {t : Tree α} (ht : WellFormed t) {sh : α → String} {nm : Int → String}
    (hn : NamesDistinct t nm) (hth : ThrDistinct t sh) (hnb : ThrNoBlank t sh) (x : Nat → α) (fuel : Nat)
    (hfuel : t.nNodes ≤ fuel) :
    (parseText (t.printNode sh nm fuel 0)).map (evalRules (colOfTree t nm) (readThrTree t sh) x)
      = some (t.route x fuel 0) :=
  print_parse_eval ht (readBack_of_distinct hn hth) hnb x fuel hfuel

/-- The default labels `X[:, f]` (used when `feature_names` is `None`) are pairwise distinct, for any tree. -/
theorem default_names_distinct (t : Tree α) : NamesDistinct t (fun f => s!"X[:, {f}]") := by
  intro n m _ _ _ _ h
  exact defaultName_injective h

/-- Labels taken from a list without repetition (`feature_names[f]`) are pairwise distinct on the features the tree
    uses, when the list is long enough for them. -/
theorem user_names_distinct (t : Tree α) (names : Array String) (hnd : names.toList.Nodup)
    (hlen : ∀ n, n < t.nNodes → t.left[n]! ≠ -1 → 0 ≤ featAt t n ∧ (featAt t n).toNat < names.size) :
    NamesDistinct t (fun f => names[f.toNat]!) := by
  intro n m hn hm hln hlm h
  obtain ⟨h0, h1⟩ := hlen n hn hln
  obtain ⟨h2, h3⟩ := hlen m hm hlm
  have := userName_injective names hnd h1 h3 h
  omega

/-- The tree `fit` starts from is well formed. -/
theorem wellFormed_init : WellFormed (Tree.init : Tree α) := KauriC19.wellFormed_init

/-- `Tree._add_child` keeps the tree well formed (any existing father, any split with a feature index ≥ 0): every
    tree `Kauri.fit` builds satisfies the hypothesis of `print_parse_eval`. -/
theorem wellFormed_addChild {t : Tree α} (ht : WellFormed t) {father : Nat} (hf : father < t.nNodes)
    (s : Split α) (hfeat : 0 ≤ s.feature) : WellFormed (t.addChild father s) :=
  KauriC19.wellFormed_addChild ht hf s hfeat

/-! ### the hypotheses are satisfiable: the 3-node tree `KauriC19.Example.tree` over `Rat`
    (root: feature 2 ≤ 1/2, left leaf → cluster 0, right leaf → cluster 1; printed with the default labels) -/

section Example
open KauriC19.Example

/-- `print_parse_eval` on this tree: the printed text, read back, sends `x` to cluster 0 when `x₂ ≤ 1/2` and to
    cluster 1 otherwise -/
example (x : Nat → Rat) :
    (parseText (tree.printNode sh nm 3 0)).map (evalRules colOf readThr x) = some (if x 2 ≤ 1/2 then 0 else 1) := by
  rw [print_parse_eval wf readBack noBlank x 3 (Nat.le_refl 3)]
  simp [Tree.route, tree, Tree.addChild, Tree.init, RealLike.le]

/-- the same through the one-string text -/
example (x : Nat → Rat) :
    (parseString (textOf (tree.printNode sh nm 3 0))).map (evalRules colOf readThr x)
      = some (if x 2 ≤ 1/2 then 0 else 1) := by
  rw [print_parse_eval_text wf readBack noBlank noNewline x 3 (Nat.le_refl 3)]
  simp [Tree.route, tree, Tree.addChild, Tree.init, RealLike.le]

/-- the distinctness hypotheses of `print_parse_eval_distinct` hold too (a single rule) -/
example : NamesDistinct tree nm ∧ ThrDistinct tree sh := by
  constructor
  · intro n m hn hm hln hlm _
    rw [internal_zero hn hln, internal_zero hm hlm]
  · intro n m hn hm hln hlm _
    rw [internal_zero hn hln, internal_zero hm hlm]

end Example

end GemVerif.Props.C19
