/-
  C08, bridge part — "the gain attached to the chosen split equals the actual increase of the objective": from stocks
  to sets, and from one split to the whole run.

  `Props/C08.lean` proves that each gain FORMULA of `compute_all_splits` equals an algebraic ΔJ expression, GIVEN that
  its arguments are the stocks σ(S_L²), σ(S_R²), σ(N²), σ(S_L×C_p), …; `Props/C08Max.lean` proves that the chosen split
  is the best admissible one.  This file closes the gap between the two and the data, over ℝ, for every SYMMETRIC
  kernel (`∀ i j, κ i j = κ j i`; positive semi-definiteness is NOT assumed):

  1. (stocks) the incremental accumulators of the sorted scan of `find_best_split` (gemclus/tree/_utils.pyx), i.e. the
     fields of the record `candAt … j f l` handed to `compute_all_splits`, ARE the stocks of the sets
     S_L = first `l+1` samples of the leaf sorted along the feature, S_R = the other samples of the leaf, N = the leaf,
     C_c = the samples of cluster `c`;
  2. (sets) for each of the six kinds of admissible candidate (left/right star, left/right switch, double star,
     reallocation) the gain computed by the code equals
        `gemini_objective(labels after the move) - gemini_objective(labels before)`,
     where the labels after the move give the left target to the samples of S_L, the right target to those of S_R and
     leave the others unchanged, under the well-formedness of the tree state that the fit loop guarantees;
  3. (run) the split applied by `Kauri.fit` relabels the samples exactly like that, so every iteration's recorded gain
     is the increase of the objective of `labels_`, and the entries of `tree_.gains` sum to the final objective minus
     the root score σ(all²)/n; combined with `Props/C08Max.lean`, no admissible alternative would have reached a larger
     objective than the labels after the iteration.

  Vocabulary (defined in `Lemmas/KauriStocks.lean`, `Lemmas/KauriC08.lean`; characterised below by `stock_def`,
  `parts_spec`, `labels_spec`, `wf_iff`, `objective_eq_sum_over_clusters`):
  `stock κ A B` = σ(A×B); `leftPart X a j f l`, `rightPart X a j f l` = S_L, S_R; `labelsBefore a` = the current labels;
  `labelsAfter X a j f l lt rt` = the labels after the move; `WF a nClusters nLeaves` = well-formedness;
  `stepGain`, `runGains` = the gain recorded by one iteration / along a run.
-/
import GemVerif.Lemmas.KauriStocks

namespace GemVerif.Props.C08Stocks
open GemVerif RealLike Model.Kauri KauriC08 KauriC09 KauriStocks
open scoped BigOperators

attribute [local instance low] GemVerif.Model.Kauri.instInhabited_gemVerif

/-! ### vocabulary -/

/-- `stock κ A B` of the model is σ(A × B) = Σ_{i ∈ A} Σ_{j ∈ B} κ(i, j) (lists, with multiplicity). -/
theorem stock_def (κ : Nat → Nat → ℝ) (A B : List Nat) :
    stock κ A B = (A.map fun i => (B.map fun j => κ i j).sum).sum :=
  stock_eq κ A B

/-- The two parts of the cut of leaf `j` along feature `f` at sorted position `l`: `leftPart` is the first `l + 1`
    entries of the sorted order `nu` of the scan, `rightPart` the remaining ones; together they are a rearrangement of
    the samples of the leaf, and the left part has `l + 1` samples (for every position `l` of the scan). -/
theorem parts_spec (X : Nat → Nat → ℝ) (a : Assign) (j f l : Nat) (hl : l < (a.samplesOfLeaf j).length) :
    leftPart X a j f l = (nuOf X a j f).toList.take (l + 1) ∧
    rightPart X a j f l = (nuOf X a j f).toList.drop (l + 1) ∧
    (leftPart X a j f l ++ rightPart X a j f l).Perm (a.samplesOfLeaf j) ∧
    (leftPart X a j f l).length = l + 1 ∧
    (rightPart X a j f l).length = (a.samplesOfLeaf j).length - (l + 1) :=
  ⟨rfl, rfl, parts_perm X a j f l, length_leftPart X a hl, length_rightPart X a j f l⟩

/-- `labelsBefore a` is the label list of the estimator (`labels_`: the cluster of the leaf of every sample) and
    `labelsAfter X a j f l lt rt` gives label `lt` to the samples of the left part of the cut, `rt` to those of the
    right part, and keeps the label of every other sample. -/
theorem labels_spec (X : Nat → Nat → ℝ) (a : Assign) (j f l lt rt : Nat) :
    labelsBefore a = (List.range a.n).map (fun i => a.clusterOf[a.leafOf[i]!]!) ∧
    labelsAfter X a j f l lt rt = (List.range a.n).map (fun i =>
      if i ∈ leftPart X a j f l then lt else if i ∈ rightPart X a j f l then rt else a.clusterOf[a.leafOf[i]!]!) :=
  ⟨rfl, rfl⟩

/-- `labelsBefore` of the assignment of a fit state is `FitState.labels` (`labels_ = (Y @ Z).argmax(0)`). -/
theorem labelsBefore_eq_labels (s : FitState ℝ) : labelsBefore s.asg = s.labels := rfl

/-- `WF a nClusters nLeaves`: every sample sits in one of the `nLeaves` existing leaves and the cluster of every sample
    is one of the `nClusters` existing clusters. -/
theorem wf_iff (a : Assign) (nClusters nLeaves : Nat) :
    WF a nClusters nLeaves ↔
      (∀ i, i < a.n → a.leafOf[i]! < nLeaves) ∧ (∀ i, i < a.n → a.clusterOf[a.leafOf[i]!]! < nClusters) :=
  ⟨fun h => ⟨h.leaf_lt, h.cluster_lt⟩, fun h => ⟨h.1, h.2⟩⟩

/-- `gemini_objective(labels, kernel)` of the model — a sum over the DISTINCT labels — is the kernel-KMeans objective
    J = Σ_{c < M} σ(C_c²)/|C_c| over the clusters `C_c = {i < n : labels[i] = c}`, for every bound `M` on the labels
    (labels that are not used contribute 0: their cluster is empty). -/
theorem objective_eq_sum_over_clusters (κ : Nat → Nat → ℝ) (n M : Nat) (lab : Nat → Nat)
    (hM : ∀ i, i < n → lab i < M) :
    objective κ ((List.range n).map lab) =
      ∑ c ∈ Finset.range M,
        stock κ ((List.range n).filter fun i => lab i == c) ((List.range n).filter fun i => lab i == c)
          / (((List.range n).filter fun i => lab i == c).length : ℝ) :=
  objective_eq_Jlab κ n M lab hM

/-! ### 1. the accumulators of the scan are the stocks -/

section stocks
variable (κ X : Nat → Nat → ℝ) (a : Assign) (nClusters K_max nLeaves : Nat)

/-- `sl_square`, the accumulator updated by `sl_square += 2 * alpha + kernel[nu[l], nu[l]]`, is σ(S_L²) when
    `compute_all_splits` is called at position `l`. -/
theorem sl_square_is_stock (hsym : ∀ i j, κ i j = κ j i) (j f l : Nat) (hl : l < (a.samplesOfLeaf j).length) :
    (candAt κ X a nClusters K_max nLeaves j f l).sl_square =
      stock κ (leftPart X a j f l) (leftPart X a j f l) :=
  (accAt_is X a nClusters nLeaves hsym j f (l + 1) hl).sl

/-- `sr_square`, initialised to σ(N²) and updated by `sr_square -= 2 * beta + kernel[nu[l], nu[l]]`, is σ(S_R²). -/
theorem sr_square_is_stock (hsym : ∀ i j, κ i j = κ j i) (j f l : Nat) (hl : l < (a.samplesOfLeaf j).length) :
    (candAt κ X a nClusters K_max nLeaves j f l).sr_square =
      stock κ (rightPart X a j f l) (rightPart X a j f l) :=
  (accAt_is X a nClusters nLeaves hsym j f (l + 1) hl).sr

/-- `leaf_square` is σ(N²), `N` the samples of the leaf (no hypothesis needed). -/
theorem leaf_square_is_stock (j f l : Nat) :
    (candAt κ X a nClusters K_max nLeaves j f l).leaf_square = stock κ (a.samplesOfLeaf j) (a.samplesOfLeaf j) :=
  rfl

/-- `sl_clusters[c]`, updated by `sl_clusters[c] += omega[c, nu[l]]`, is σ(S_L × C_c) for every existing cluster. -/
theorem sl_clusters_is_stock (hsym : ∀ i j, κ i j = κ j i) (j f l : Nat) (hl : l < (a.samplesOfLeaf j).length)
    (c : Nat) (hc : c < nClusters) :
    (candAt κ X a nClusters K_max nLeaves j f l).sl_clusters c =
      stock κ (leftPart X a j f l) (a.samplesOfCluster nLeaves c) :=
  (accAt_is X a nClusters nLeaves hsym j f (l + 1) hl).slc c hc

/-- `sr_clusters[c]`, initialised to Σ_{i ∈ N} omega[c, i] and updated by `sr_clusters[c] -= omega[c, nu[l]]`, is
    σ(S_R × C_c) for every existing cluster. -/
theorem sr_clusters_is_stock (hsym : ∀ i j, κ i j = κ j i) (j f l : Nat) (hl : l < (a.samplesOfLeaf j).length)
    (c : Nat) (hc : c < nClusters) :
    (candAt κ X a nClusters K_max nLeaves j f l).sr_clusters c =
      stock κ (rightPart X a j f l) (a.samplesOfCluster nLeaves c) :=
  (accAt_is X a nClusters nLeaves hsym j f (l + 1) hl).src c hc

/-- `gamma[c, c]` is σ(C_c²) for every existing cluster (no symmetry needed). -/
theorem gammaDiag_is_stock (j f l c : Nat) (hc : c < nClusters) :
    (candAt κ X a nClusters K_max nLeaves j f l).gammaDiag c =
      stock κ (a.samplesOfCluster nLeaves c) (a.samplesOfCluster nLeaves c) :=
  gammaDiagOf_get κ a nClusters nLeaves hc

/-- `cluster_sizes[c]` is |C_c| for every existing cluster. -/
theorem cluster_sizes_is_card (j f l c : Nat) (hc : c < nClusters) :
    (candAt κ X a nClusters K_max nLeaves j f l).cluster_sizes c = (a.samplesOfCluster nLeaves c).length :=
  sizesOf_get a nClusters nLeaves hc

/-- `n_leaf` is |N| and `split_size` is `l + 1` = |S_L|. -/
theorem sizes_are_cards (j f l : Nat) (hl : l < (a.samplesOfLeaf j).length) :
    (candAt κ X a nClusters K_max nLeaves j f l).n_leaf = (a.samplesOfLeaf j).length ∧
    (candAt κ X a nClusters K_max nLeaves j f l).split_size = (leftPart X a j f l).length :=
  ⟨rfl, (length_leftPart X a hl).symm⟩

/-- The same along the whole scan, not only where `compute_all_splits` is called: after `m ≤ n_leaf` iterations of the
    `l_split` loop the four accumulators are the stocks of the first `m` sorted samples (left) and of the others
    (right). -/
theorem accumulators_are_stocks (hsym : ∀ i j, κ i j = κ j i) (j f m : Nat) (hm : m ≤ (a.samplesOfLeaf j).length) :
    (accAt κ X a nClusters nLeaves j f m).sl =
        stock κ ((nuOf X a j f).toList.take m) ((nuOf X a j f).toList.take m) ∧
    (accAt κ X a nClusters nLeaves j f m).sr =
        stock κ ((nuOf X a j f).toList.drop m) ((nuOf X a j f).toList.drop m) ∧
    (∀ c, c < nClusters → (accAt κ X a nClusters nLeaves j f m).slc[c]! =
        stock κ ((nuOf X a j f).toList.take m) (a.samplesOfCluster nLeaves c)) ∧
    (∀ c, c < nClusters → (accAt κ X a nClusters nLeaves j f m).src[c]! =
        stock κ ((nuOf X a j f).toList.drop m) (a.samplesOfCluster nLeaves c)) :=
  have h := accAt_is X a nClusters nLeaves hsym j f m hm
  ⟨h.sl, h.sr, h.slc, h.src⟩

end stocks

/-! ### 2. each kind of candidate: gain = J(labels after the move) − J(labels before)

  Hypotheses, all guaranteed by the fit loop (see `wf_of_fullInv`, `clusters_nonempty_of_fullInv`):
  `WF a nClusters nLeaves`; `l < n_leaf - 1` (the range of the `l_split` loop); for a switch / reallocation the target
  cluster is an existing, non-empty cluster other than `k` (the code divides by `cluster_sizes[k']`); for double star
  and reallocation the guard `n_leaf != cluster_sizes[k]` of the code.  That the leaf is contained in its cluster
  `k = clusterOf[j]`, that `k < nClusters`, that different clusters are disjoint and that no divisor of the formulas of
  the star kinds vanishes all follow from `WF`. -/

section kinds
variable (κ X : Nat → Nat → ℝ) (a : Assign) (nClusters K_max nLeaves : Nat)

/-- Left star: the value `left_star_gain` computed for the cut `(j, f, l)` is the objective of the labels after the
    left part has become the new cluster `n_clusters` (the right part stays in `k`) minus the current objective. -/
theorem leftStar_gain_is_increase (hsym : ∀ i j, κ i j = κ j i) (hwf : WF a nClusters nLeaves) (j f l : Nat)
    (hl : l < (a.samplesOfLeaf j).length - 1) :
    (candAt κ X a nClusters K_max nLeaves j f l).app Gen.Kauri.leftStar a.clusterOf[j]! =
      objective κ (labelsAfter X a j f l nClusters a.clusterOf[j]!) - objective κ (labelsBefore a) :=
  leftStar_gain X K_max hsym hwf hl

/-- Right star: the same with the right part becoming the new cluster `n_clusters`. -/
theorem rightStar_gain_is_increase (hsym : ∀ i j, κ i j = κ j i) (hwf : WF a nClusters nLeaves) (j f l : Nat)
    (hl : l < (a.samplesOfLeaf j).length - 1) :
    (candAt κ X a nClusters K_max nLeaves j f l).app Gen.Kauri.rightStar a.clusterOf[j]! =
      objective κ (labelsAfter X a j f l a.clusterOf[j]! nClusters) - objective κ (labelsBefore a) :=
  rightStar_gain X K_max hsym hwf hl

/-- Left switch: the value `left_switch` computed for the other cluster `p` is the objective of the labels after the
    left part has joined cluster `p` minus the current objective. -/
theorem leftSwitch_gain_is_increase (hsym : ∀ i j, κ i j = κ j i) (hwf : WF a nClusters nLeaves) (j f l p : Nat)
    (hl : l < (a.samplesOfLeaf j).length - 1) (hp : p < nClusters) (hpk : p ≠ a.clusterOf[j]!)
    (hne : a.samplesOfCluster nLeaves p ≠ []) :
    (candAt κ X a nClusters K_max nLeaves j f l).app Gen.Kauri.leftSwitch p =
      objective κ (labelsAfter X a j f l p a.clusterOf[j]!) - objective κ (labelsBefore a) :=
  leftSwitch_gain X K_max hsym hwf hl hp hpk hne

/-- Right switch: the same with the right part joining cluster `p`. -/
theorem rightSwitch_gain_is_increase (hsym : ∀ i j, κ i j = κ j i) (hwf : WF a nClusters nLeaves) (j f l p : Nat)
    (hl : l < (a.samplesOfLeaf j).length - 1) (hp : p < nClusters) (hpk : p ≠ a.clusterOf[j]!)
    (hne : a.samplesOfCluster nLeaves p ≠ []) :
    (candAt κ X a nClusters K_max nLeaves j f l).app Gen.Kauri.rightSwitch p =
      objective κ (labelsAfter X a j f l a.clusterOf[j]! p) - objective κ (labelsBefore a) :=
  rightSwitch_gain X K_max hsym hwf hl hp hpk hne

/-- Double star: the value `double_star_gain` is the objective of the labels after the two parts have become the new
    clusters `n_clusters` and `n_clusters + 1` minus the current objective, when cluster `k` has a sample outside the
    leaf (the guard `n_leaf != cluster_sizes[k]` of the code). -/
theorem doubleStar_gain_is_increase (hsym : ∀ i j, κ i j = κ j i) (hwf : WF a nClusters nLeaves) (j f l : Nat)
    (hl : l < (a.samplesOfLeaf j).length - 1)
    (hleaf : (a.samplesOfLeaf j).length ≠ (a.samplesOfCluster nLeaves a.clusterOf[j]!).length) :
    (candAt κ X a nClusters K_max nLeaves j f l).app Gen.Kauri.doubleStar a.clusterOf[j]! =
      objective κ (labelsAfter X a j f l nClusters (nClusters + 1)) - objective κ (labelsBefore a) :=
  doubleStar_gain X K_max hsym hwf hl hleaf

/-- Reallocation: `left_switch(pl) + right_switch(pr) + corrective_term` is the objective of the labels after the left
    part has joined `pl` and the right part `pr` (two different existing non-empty clusters other than `k`) minus the
    current objective, when cluster `k` has a sample outside the leaf. -/
theorem realloc_gain_is_increase (hsym : ∀ i j, κ i j = κ j i) (hwf : WF a nClusters nLeaves) (j f l pl pr : Nat)
    (hl : l < (a.samplesOfLeaf j).length - 1)
    (hleaf : (a.samplesOfLeaf j).length ≠ (a.samplesOfCluster nLeaves a.clusterOf[j]!).length)
    (hpl : pl < nClusters) (hpr : pr < nClusters) (hplk : pl ≠ a.clusterOf[j]!) (hprk : pr ≠ a.clusterOf[j]!)
    (hne : pl ≠ pr) (hnel : a.samplesOfCluster nLeaves pl ≠ []) (hner : a.samplesOfCluster nLeaves pr ≠ []) :
    (candAt κ X a nClusters K_max nLeaves j f l).app Gen.Kauri.leftSwitch pl
        + (candAt κ X a nClusters K_max nLeaves j f l).app Gen.Kauri.rightSwitch pr
        + (candAt κ X a nClusters K_max nLeaves j f l).app Gen.Kauri.corrective a.clusterOf[j]! =
      objective κ (labelsAfter X a j f l pl pr) - objective κ (labelsBefore a) :=
  realloc_gain X K_max hsym hwf hl hleaf hpl hpr hplk hprk hne hnel hner

/-- All kinds at once: for every candidate (gain `g`, left target `lt`, right target `rt`) that `compute_all_splits`
    may evaluate for the cut `(j, f, l)` (`Admissible`, see `Props/C08Max.lean`), in a well-formed state whose existing
    clusters are all non-empty, `g` is the objective of the labels after moving the left part to `lt` and the right
    part to `rt`, minus the current objective. -/
theorem admissible_gain_is_increase (hsym : ∀ i j, κ i j = κ j i) (hwf : WF a nClusters nLeaves)
    (hne : ∀ c, c < nClusters → a.samplesOfCluster nLeaves c ≠ []) (j f l : Nat)
    (hl : l < (a.samplesOfLeaf j).length - 1) (g : ℝ) (lt rt : Int)
    (hadm : Admissible (candAt κ X a nClusters K_max nLeaves j f l) g lt rt) :
    g = objective κ (labelsAfter X a j f l lt.toNat rt.toNat) - objective κ (labelsBefore a) :=
  admissible_gain X K_max hsym hwf hne hl hadm

end kinds

/-! ### 3. the fit loop -/

section run
variable (κ X : Nat → Nat → ℝ) (p : Params)

/-- Every state reachable by the loop of `Kauri.fit` (`FullInv`, established by `KauriC09.fit_inv`) is well-formed. -/
theorem wf_of_fullInv (s : FitState ℝ) (h : FullInv X p s) : WF s.asg s.nClusters s.nLeaves :=
  wf_of_inv h.inv

/-- In every reachable state every existing cluster owns at least one sample. -/
theorem clusters_nonempty_of_fullInv (s : FitState ℝ) (h : FullInv X p s) (c : Nat) (hc : c < s.nClusters) :
    s.asg.samplesOfCluster s.nLeaves c ≠ [] :=
  clusters_nonempty h.inv h.samples c hc

/-- Applying (as `Kauri.fit` does: `X[i, feature] <= threshold` goes left) a split whose leaf, feature and threshold
    are those of an evaluated cut `(j, f, l)` produces exactly the labels `labelsAfter`: the samples of the left part
    of the cut get the left target, those of the right part the right target, all other labels are unchanged. -/
theorem applySplit_relabels (s : FitState ℝ) (b : Split ℝ) (hI : Inv p s) (hok : SplitOK X p s b)
    (hlt : s.nLeaves < p.maxLeaves) (j f l : Nat) (hev : Evaluated X s.asg p.minLeaf j f l)
    (hleaf : b.leaf = (j : Int)) (hfeat : b.feature = (f : Int))
    (hthr : b.threshold = X (nuOf X s.asg j f)[l]! f) :
    (applySplit X p s b).labels = labelsAfter X s.asg j f l b.left.toNat b.right.toNat :=
  applySplit_labels ⟨hI, hok, hlt⟩ hev hleaf hfeat hthr

/-- `stepGain κ X p s features` is the gain one iteration of the loop records: the gain returned by `find_best_split`
    if the loop guard holds and that gain is positive (the split is then applied), and 0 otherwise. -/
theorem stepGain_def (s : FitState ℝ) (features : List Nat) :
    stepGain κ X p s features =
      if s.continues p = true ∧
          0 < (findBestSplit κ X s.toExplore s.asg s.nClusters p.maxClusters s.nLeaves p.minLeaf features).gain then
        (findBestSplit κ X s.toExplore s.asg s.nClusters p.maxClusters s.nLeaves p.minLeaf features).gain
      else 0 :=
  rfl

/-- `runGains κ X p s draws` lists the gains recorded by the successive iterations of a run from state `s`. -/
theorem runGains_def (s : FitState ℝ) (d : List Nat) (ds : List (List Nat)) :
    runGains κ X p s [] = [] ∧
    runGains κ X p s (d :: ds) = stepGain κ X p s d :: runGains κ X p (fitStep κ X p s d) ds :=
  ⟨rfl, rfl⟩

/-- One iteration of `Kauri.fit` from a reachable state: the gain attached to the chosen split equals the actual
    increase of the objective of `labels_` caused by applying it (and nothing changes when no split is applied). -/
theorem fitStep_gain_is_increase (hsym : ∀ i j, κ i j = κ j i) (s : FitState ℝ) (hF : FullInv X p s)
    (features : List Nat) :
    stepGain κ X p s features = objective κ (fitStep κ X p s features).labels - objective κ s.labels :=
  fitStep_gain hsym hF features

/-- Telescoping, abstractly: if every recorded gain is the objective difference of its step, the recorded gains sum
    to the final objective minus the initial one. -/
theorem gains_telescope (J g : ℕ → ℝ) (T : ℕ) (h : ∀ t, t < T → g t = J (t + 1) - J t) :
    ∑ t ∈ Finset.range T, g t = J T - J 0 := by
  rw [Finset.sum_congr rfl (fun t ht => h t (Finset.mem_range.1 ht))]
  exact Finset.sum_range_sub J T

/-- Along any run of the loop from a reachable state, the recorded gains sum to the objective of the final labels minus
    the objective of the initial labels. -/
theorem run_gains_sum (hsym : ∀ i j, κ i j = κ j i) (s : FitState ℝ) (hF : FullInv X p s)
    (draws : List (List Nat)) :
    (runGains κ X p s draws).sum =
      objective κ (draws.foldl (fitStep κ X p) s).labels - objective κ s.labels :=
  sum_runGains hsym draws s hF

/-- The root score: before the first split all samples are in cluster 0 and the objective is σ(all²)/n. -/
theorem root_score (n : Nat) :
    objective κ (FitState.init n p : FitState ℝ).labels = stock κ (List.range n) (List.range n) / (n : ℝ) :=
  objective_init κ n p

/-- `Kauri.fit` as a whole (any data `X`, any symmetric kernel, any parameters and feature draws, `n ≥ 1` samples and
    `min_samples_leaf ≤ n` as `validate_data` ensures): the entries of `tree_.gains` sum to the objective of the final
    `labels_` minus the root score, i.e. final score = root score + sum of the recorded gains. -/
theorem fit_final_score (hsym : ∀ i j, κ i j = κ j i) (n : Nat) (hn : 1 ≤ n) (hmin : p.minLeaf ≤ n)
    (draws : List (List Nat)) :
    objective κ (fit κ X n p draws).labels =
      stock κ (List.range n) (List.range n) / (n : ℝ) + (fit κ X n p draws).tree.gains.toList.sum := by
  rw [fit_gains_sum hsym hn hmin draws]
  ring

/-- Gain and control together (`Props/C08Max.lean`): when an iteration applies a split, the objective of the labels
    after the iteration is at least the objective that ANY admissible alternative (any explorable leaf, drawn feature,
    evaluated threshold position, and star / double-star / switch / reallocation assignment) would have reached. -/
theorem chosen_split_gives_largest_increase (hsym : ∀ i j, κ i j = κ j i) (s : FitState ℝ) (hF : FullInv X p s)
    (features : List Nat) (hc : s.continues p = true)
    (hpos : 0 < (findBestSplit κ X s.toExplore s.asg s.nClusters p.maxClusters s.nLeaves p.minLeaf features).gain)
    (j f l : Nat) (hj : j ∈ s.toExplore) (hf : f ∈ features) (hev : Evaluated X s.asg p.minLeaf j f l)
    (g : ℝ) (lt rt : Int)
    (hadm : Admissible (candAt κ X s.asg s.nClusters p.maxClusters s.nLeaves j f l) g lt rt) :
    objective κ (labelsAfter X s.asg j f l lt.toNat rt.toNat) ≤ objective κ (fitStep κ X p s features).labels :=
  alternative_le_chosen hsym hF features hc hpos hj hf hev hadm

/-- When `find_best_split` reports no positive gain (the loop then stops), no admissible alternative would have
    increased the objective of the labels. -/
theorem stop_means_no_alternative_increases (hsym : ∀ i j, κ i j = κ j i) (s : FitState ℝ) (hF : FullInv X p s)
    (features : List Nat)
    (hstop : ¬ 0 < (findBestSplit κ X s.toExplore s.asg s.nClusters p.maxClusters s.nLeaves p.minLeaf features).gain)
    (j f l : Nat) (hj : j ∈ s.toExplore) (hf : f ∈ features) (hev : Evaluated X s.asg p.minLeaf j f l)
    (g : ℝ) (lt rt : Int)
    (hadm : Admissible (candAt κ X s.asg s.nClusters p.maxClusters s.nLeaves j f l) g lt rt) :
    objective κ (labelsAfter X s.asg j f l lt.toNat rt.toNat) ≤ objective κ s.labels :=
  alternative_le_current hsym hF features hstop hj hf hev hadm

end run

/-! ### non-vacuity witnesses -/

section witnesses

/-- five samples, four leaves `{0,1}, {2}, {3}, {4}`, three clusters: leaves 0 and 1 in cluster 0, leaf 2 in cluster 1,
    leaf 3 in cluster 2 -/
def exAsg : Assign := ⟨5, #[0, 0, 1, 2, 3], #[0, 0, 1, 2]⟩

/-- The hypotheses of all six theorems of section 2 hold together for the cut of leaf 0 at position 0 in `exAsg`: the
    state is well-formed, … -/
example : WF exAsg 3 4 := by
  rw [wf_iff]
  decide

/-- … position 0 is in the range of the scan of leaf 0, cluster 0 has a sample outside leaf 0, clusters 1 and 2 are
    existing non-empty clusters other than the cluster 0 of the leaf, … -/
example : 0 < (exAsg.samplesOfLeaf 0).length - 1 ∧
    (exAsg.samplesOfLeaf 0).length ≠ (exAsg.samplesOfCluster 4 exAsg.clusterOf[0]!).length ∧
    1 ≠ exAsg.clusterOf[0]! ∧ 2 ≠ exAsg.clusterOf[0]! ∧
    exAsg.samplesOfCluster 4 1 ≠ [] ∧ exAsg.samplesOfCluster 4 2 ≠ [] := by
  decide

/-- … and every existing cluster is non-empty (hypothesis `hne` of `admissible_gain_is_increase`). -/
example : ∀ c, c < 3 → exAsg.samplesOfCluster 4 c ≠ [] := by
  decide

/-- The hypothesis `FullInv` of section 3 holds in the initial state of `Kauri.fit` (and is preserved by every
    iteration, `KauriC09.fit_inv`). -/
example (X : Nat → Nat → ℝ) (p : Params) (n : Nat) (hn : 1 ≤ n) (hmin : p.minLeaf ≤ n) :
    FullInv X p (FitState.init n p : FitState ℝ) :=
  fullInv_init X n p hn hmin

/-- Symmetric kernels that are not positive semi-definite are covered: `κ(i, j) = -1` is symmetric. -/
example : ∀ i j : Nat, (fun _ _ => (-1 : ℝ)) i j = (fun _ _ => (-1 : ℝ)) j i := fun _ _ => rfl

end witnesses

end GemVerif.Props.C08Stocks
