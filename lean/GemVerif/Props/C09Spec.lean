/-
  C09 (continued) — the post-condition of `find_best_split` is PROVED, so the structural clauses of C09 hold for every
  run of the model's `fit` loop without any hypothesis on `find_best_split`.

  `Props/C09.lean` proves the clauses under `KauriC09.FindBestSplitSpec κ X p`: "whenever `findBestSplit` reports a
  positive gain in a state that satisfies the invariants, the reported split satisfies `SplitOK`".  Here that
  hypothesis is discharged for the number types ℝ (the target) and ℚ (what the exact differential check executes),
  with NO extra hypothesis on the parameters (in particular `min_samples_leaf ≥ 1` is not needed: the scan never
  evaluates the last position and skips equal consecutive values, so both children are non-empty anyway).
  The proof (`Lemmas/KauriSpec.lean`) uses of the numbers only that `<=` is a total order whose symmetric part is `==`
  and that `0 < 0` is false; the kernel `κ` and the gain formulas are arbitrary.
-/
import GemVerif.Props.C09
import GemVerif.Lemmas.KauriSpec

namespace GemVerif.Props.C09Spec
open GemVerif Model.Kauri KauriC09 KauriSpec

/-! ### the ingredients -/

/-- The insertion sort that models `np.argsort` returns a permutation of its input, sorted by value (for ℝ). -/
theorem sortBy_sorted_perm (l : List (ℝ × Nat)) :
    (sortBy (fun x y => RealLike.le x y) l).Perm l ∧
      (sortBy (fun x y => RealLike.le x y) l).Pairwise (fun a b => a.1 ≤ b.1) := by
  refine ⟨sortBy_perm _ l, ?_⟩
  have h := sortBy_sorted (le' := fun x y : ℝ => RealLike.le x y) orderLaws_real.le_total orderLaws_real.le_trans l
  exact h.imp (fun h => by simpa using h)

/-- `compute_all_splits` either keeps the running best split or overwrites it with a split for the candidate it was
    called with (same leaf, feature, threshold) whose targets are one of: double star `(n_clusters, n_clusters+1)` if
    `n_clusters + 2 ≤ K_max`; star `(n_clusters, k)` / `(k, n_clusters)` if `n_clusters + 1 ≤ K_max`; switch or
    reallocation between two different existing clusters; and (`outside`) the leaf's cluster `k` is a target unless
    `n_leaf != cluster_sizes[k]`.  Holds for every number type (no order law is used). -/
theorem computeAllSplits_targets {α : Type} [RealLike α] (best : Split α) (c : Cand α) (hk : c.k < c.n_clusters) :
    computeAllSplits best c = best ∨
      CandSplit c (c.n_leaf ≠ c.cluster_sizes c.k) (computeAllSplits best c) :=
  computeAllSplits_ind (P := fun b => b = best ∨ CandSplit c (c.n_leaf ≠ c.cluster_sizes c.k) b) best hk id
    (Or.inl rfl) (fun _ hb => Or.inr hb)

/-! ### the post-condition of `find_best_split` -/

/-- `find_best_split` meets its post-condition over ℝ: called in any state of the fit loop that satisfies the
    invariants, if it reports a positive gain then the reported split cuts a leaf that is to be explored, on a drawn
    feature, at the feature value of a sample of that leaf, leaves at least `min_samples_leaf` and at least one sample
    on each side, and sends the two children to an admissible pair of different clusters that does not empty the
    cluster of the leaf (`SplitOK`).  No hypothesis on the kernel, the data or the parameters. -/
theorem findBestSplitSpec (κ X : Nat → Nat → ℝ) (p : Params) : FindBestSplitSpec κ X p :=
  findBestSplitSpec_of_laws orderLaws_real κ X p

/-- The same over ℚ, the number type on which the exact differential check runs the model. -/
theorem findBestSplitSpec_rat (κ X : Nat → Nat → ℚ) (p : Params) : FindBestSplitSpec κ X p :=
  findBestSplitSpec_of_laws orderLaws_rat κ X p

/-! ### C09 without the hypothesis -/

/-- Every state reached by the model's `fit` (any data with `n ≥ 1` rows, `min_samples_leaf ≤ n`, any kernel, any
    parameters, any recorded feature draws) satisfies all the invariants of C09. -/
theorem fit_invariant_unconditional {κ X : Nat → Nat → ℝ} {n : Nat} {p : Params} (hn : 1 ≤ n) (hmin : p.minLeaf ≤ n)
    (draws : List (List Nat)) : FullInv X p (fit κ X n p draws) :=
  C09.fit_invariant_of_spec hn hmin (findBestSplitSpec κ X p) draws

/-- `fit_invariant_unconditional` over ℚ. -/
theorem fit_invariant_unconditional_rat {κ X : Nat → Nat → ℚ} {n : Nat} {p : Params} (hn : 1 ≤ n)
    (hmin : p.minLeaf ≤ n) (draws : List (List Nat)) : FullInv X p (fit κ X n p draws) :=
  C09.fit_invariant_of_spec hn hmin (findBestSplitSpec_rat κ X p) draws

/-- `Props.C09.fitted_tree_limits` without `hspec`: for the fitted state of the model's `fit` under the natural
    parameter ranges of `Kauri` (`n ≥ 1`, `min_samples_leaf ≤ n`, `max_leaves, max_depth, max_clusters ≥ 1`): the tree
    has `2·leaves − 1` nodes, at most `max_leaves` leaves, depth at most `max_depth`, at most `max_clusters` clusters
    labelled contiguously from 0, every leaf holds at least `min_samples_leaf` samples, and `predict` on the training
    data reproduces `labels_`. -/
theorem fitted_tree_limits_unconditional {κ X : Nat → Nat → ℝ} {n : Nat} {p : Params} (hn : 1 ≤ n)
    (hmin : p.minLeaf ≤ n) (hL : 1 ≤ p.maxLeaves) (hD : 1 ≤ p.maxDepth) (hK : 1 ≤ p.maxClusters)
    (draws : List (List Nat)) :
    let s := fit κ X n p draws
    s.tree.nNodes = 2 * (leafNodes s.tree).length - 1 ∧ (leafNodes s.tree).length ≤ p.maxLeaves ∧
      (∀ k, k < s.tree.nNodes → s.tree.depths[k]! ≤ p.maxDepth) ∧ s.nClusters ≤ p.maxClusters ∧
      (∀ c, c ∈ s.labels ↔ c < s.nClusters) ∧
      (∀ l, l < s.nLeaves → p.minLeaf ≤ (s.asg.samplesOfLeaf l).length) ∧
      (List.range s.asg.n).map (fun i => s.tree.route (X i) (s.tree.nNodes + 1) 0) =
        s.labels.map fun (c : Nat) => (c : Int) :=
  C09.fitted_tree_limits hn hmin hL hD hK (findBestSplitSpec κ X p) draws

/-- `fitted_tree_limits_unconditional` over ℚ. -/
theorem fitted_tree_limits_unconditional_rat {κ X : Nat → Nat → ℚ} {n : Nat} {p : Params} (hn : 1 ≤ n)
    (hmin : p.minLeaf ≤ n) (hL : 1 ≤ p.maxLeaves) (hD : 1 ≤ p.maxDepth) (hK : 1 ≤ p.maxClusters)
    (draws : List (List Nat)) :
    let s := fit κ X n p draws
    s.tree.nNodes = 2 * (leafNodes s.tree).length - 1 ∧ (leafNodes s.tree).length ≤ p.maxLeaves ∧
      (∀ k, k < s.tree.nNodes → s.tree.depths[k]! ≤ p.maxDepth) ∧ s.nClusters ≤ p.maxClusters ∧
      (∀ c, c ∈ s.labels ↔ c < s.nClusters) ∧
      (∀ l, l < s.nLeaves → p.minLeaf ≤ (s.asg.samplesOfLeaf l).length) ∧
      (List.range s.asg.n).map (fun i => s.tree.route (X i) (s.tree.nNodes + 1) 0) =
        s.labels.map fun (c : Nat) => (c : Int) :=
  C09.fitted_tree_limits hn hmin hL hD hK (findBestSplitSpec_rat κ X p) draws

/-! ### non-vacuity: the premise "positive reported gain" does occur -/

/-- On three samples `X[i,0] = i` with the linear kernel `κ i j = i·j`, `find_best_split` called on the initial state
    reports gain `3/2 > 0`: the right star `{0} | {1, 2}` with threshold `X[0,0] = 0` and targets `(0, 1)`. -/
example :
    let b := findBestSplit (fun i j => (i : ℚ) * (j : ℚ)) Example.X (FitState.init 3 Example.p : FitState ℚ).toExplore
      (FitState.init 3 Example.p : FitState ℚ).asg 1 Example.p.maxClusters 1 Example.p.minLeaf [0]
    RealLike.lt 0 b.gain = true ∧ b.gain = 3 / 2 ∧ b.leaf = 0 ∧ b.left = 0 ∧ b.right = 1 ∧ b.feature = 0 ∧
      b.threshold = 0 := by
  decide +kernel

/-- ... and the model's `fit` applies it: on that data the loop ends with 2 leaves, 3 nodes, 2 clusters and labels
    `[0, 1, 1]` (the second iteration finds no positive gain). -/
example :
    let s := fit (fun i j => (i : ℚ) * (j : ℚ)) Example.X 3 Example.p [[0], [0], [0]]
    s.nLeaves = 2 ∧ s.tree.nNodes = 3 ∧ s.nClusters = 2 ∧ s.labels = [0, 1, 1] ∧ s.steps = 2 := by
  decide +kernel

end GemVerif.Props.C09Spec
