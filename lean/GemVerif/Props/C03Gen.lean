/-
  C03 (companion) — the hand models of Model/Nets.lean ARE what the Python source says now.

  `Gen/Nets.lean` is regenerated on every run by translator/nets.py from the bodies of `_infer` / `_compute_grads`
  (LinearModel, MLPModel, CategoricalModel, SparseMLPModel), `RIM._update_weights` and `KernelRIM._compute_grads`
  in /repo: one definition per method, a literal transcription of the NumPy expressions into the untyped array
  language of GemVerif/Np.lean (shapes are data; `@`, `.T`, broadcasting `+ - *`, `.sum(axis, keepdims=True)`,
  `> 0`, `np.maximum(·, 0)`, `softmax`, scalar factors follow NumPy's rules; a shape NumPy would reject sets
  `ok := false`).

  Every theorem below says: the generated definition, applied to inputs of the shapes the estimator uses
  (`Arr.ofFn` = an `n × k` array, `Arr.ofRow` = a `(1, k)` bias), raises no shape error, has the shape of the hand
  model and has, entry for entry, the hand model's value (`Arr.Eqv`; `Arr.ListEqv` for the returned lists) —
  for ALL sizes (0 and 1 included, where broadcasting could bite) and for EVERY `[RealLike α]`: the equalities
  hold by unfolding (both sides sum with `sumFin`, in index order), so they hold for `Float` as well as for `ℝ`.
  The gradient theorems of Props/C03.lean, stated about Model/Nets.lean, therefore speak about the current source.
  Only Mathlib-free imports.
-/
import GemVerif.Lemmas.Np
import GemVerif.Gen.Nets

namespace GemVerif.Props.C03Gen
open GemVerif GemVerif.RealLike GemVerif.Np GemVerif.Np.Arr GemVerif.Model.Nets

variable {α : Type} [RealLike α] {n m d h K : Nat}

/-! ### what `Eqv` means -/

/-- Meaning of the relation used below: `A` is `Eqv` to the `n × k` matrix `f` exactly when no NumPy shape error
    occurred while computing `A`, `A` has shape `(n, k)` and `A[i, j] = f i j` for every index inside the shape. -/
theorem eqv_ofFn_spelled_out {k : Nat} (A : Arr α) (f : Fin n → Fin k → α) :
    Eqv A (ofFn f) ↔ A.ok = true ∧ A.r = n ∧ A.c = k ∧ ∀ (i : Fin n) (j : Fin k), A.get i.val j.val = f i j :=
  eqv_ofFn_iff

/-- A product `A @ B` whose inner sizes differ (NumPy raises) is `Eqv` to nothing: a mutation of the source that
    breaks the shapes cannot satisfy any theorem of this file. -/
theorem matmul_shape_error_not_eqv (A B C : Arr α) (hne : A.c ≠ B.r) : ¬ Eqv (matmul A B) C := by
  rintro ⟨hok, -⟩
  simp [hne] at hok

/-! ### LinearModel, RIM, KernelRIM (gemclus/linear/_linear_geminis.py) -/

/-- `LinearModel._infer` as written in the source (`softmax(X @ self.W_ + self.b_)`) computes, for an `n × d`
    input, `d × K` weights and a `(1, K)` bias, exactly the model's `linearInfer`: shape `(n, K)`, same entries. -/
theorem linear_infer_eq (X : Fin n → Fin d → α) (W : Fin d → Fin K → α) (b : Fin K → α) :
    Eqv (Gen.Nets.linear_infer (ofFn W) (ofRow b) (ofFn X)) (ofFn (linearInfer X W b)) := by
  apply eqv_ofFn <;> simp [Gen.Nets.linear_infer, add, linearInfer, affine_row]

/-- `LinearModel._compute_grads` as written in the source returns the two-element list
    `[linearGradW, linearGradB]` of the model (the already negated `d × K` weight direction and `(1, K)` bias
    direction). -/
theorem linear_compute_grads_eq (X : Fin n → Fin d → α) (y g : Fin n → Fin K → α) :
    ListEqv (Gen.Nets.linear_compute_grads (ofFn X) (ofFn y) (ofFn g))
      [ofFn (linearGradW X y g), ofRow (linearGradB y g)] := by
  simp only [Gen.Nets.linear_compute_grads, listEqv_cons, listEqv_nil, and_true]
  refine ⟨?_, ?_⟩
  · apply eqv_ofFn <;> simp [sub, mul, linearGradW, tauHat]
  · apply eqv_ofRow <;> simp [sub, mul, linearGradB, tauHat]

/-- `RIM._update_weights` as written in the source, applied to what `_compute_grads` returned, hands the optimiser
    `[rimGradW, linearGradB]`: the penalty line `gradients[0] += self.reg * 2 * self.W_` is the model's. -/
theorem rim_update_weights_eq (reg : α) (X : Fin n → Fin d → α) (W : Fin d → Fin K → α) (y g : Fin n → Fin K → α) :
    ListEqv (Gen.Nets.rim_update_weights (ofFn W) reg (Gen.Nets.linear_compute_grads (ofFn X) (ofFn y) (ofFn g)))
      [ofFn (rimGradW reg X W y g), ofRow (linearGradB y g)] := by
  simp only [Gen.Nets.rim_update_weights, Gen.Nets.linear_compute_grads, setNth_cons_zero, nth_cons_zero,
    listEqv_cons, listEqv_nil, and_true]
  refine ⟨?_, ?_⟩
  · apply eqv_ofFn <;> simp [add, sub, mul, rimGradW, linearGradW, tauHat]
  · apply eqv_ofRow <;> simp [sub, mul, linearGradB, tauHat]

/-- `KernelRIM._compute_grads` as written in the source (the parent's gradients, then
    `base_grads[0] += 2 * self.reg * np.dot(self._training_kernel, self.W_)`) returns `[kernelRimGradW, linearGradB]`
    for a batch of `m` kernel rows, the complete `n × n` training kernel and `n × K` weights. -/
theorem kernel_rim_compute_grads_eq (reg : α) (κ : Fin n → Fin n → α) (Xb : Fin m → Fin n → α) (W : Fin n → Fin K → α)
    (y g : Fin m → Fin K → α) :
    ListEqv (Gen.Nets.kernel_rim_compute_grads (ofFn W) (ofFn κ) reg (ofFn Xb) (ofFn y) (ofFn g))
      [ofFn (kernelRimGradW reg κ Xb W y g), ofRow (linearGradB y g)] := by
  simp only [Gen.Nets.kernel_rim_compute_grads, Gen.Nets.linear_compute_grads, setNth_cons_zero, nth_cons_zero,
    listEqv_cons, listEqv_nil, and_true]
  refine ⟨?_, ?_⟩
  · apply eqv_ofFn <;> simp [add, sub, mul, kernelRimGradW, linearGradW, tauHat]
  · apply eqv_ofRow <;> simp [sub, mul, linearGradB, tauHat]

/-! ### MLPModel (gemclus/mlp/_mlp_geminis.py) -/

/-- `MLPModel._infer` as written in the source computes the model's `mlpInfer` (`n × d` input, `d × h` and `h × K`
    weights, `(1, h)` and `(1, K)` biases). -/
theorem mlp_infer_eq (X : Fin n → Fin d → α) (W1 : Fin d → Fin h → α) (b1 : Fin h → α) (W2 : Fin h → Fin K → α)
    (b2 : Fin K → α) :
    Eqv (Gen.Nets.mlp_infer (ofFn W1) (ofFn W2) (ofRow b1) (ofRow b2) (ofFn X)) (ofFn (mlpInfer X W1 b1 W2 b2)) := by
  apply eqv_ofFn <;> simp [Gen.Nets.mlp_infer, add, mlpInfer, hidden, affine, affine_row]

/-- What `MLPModel._infer` retains in `self.H_` (read back by `_compute_grads`) is the model's hidden activation
    `hidden X W1 b1 = max(X @ W1 + b1, 0)`, the `H` the C03 theorems instantiate `mlpGrads` with. -/
theorem mlp_infer_retained_eq (X : Fin n → Fin d → α) (W1 : Fin d → Fin h → α) (b1 : Fin h → α)
    (W2 : Fin h → Fin K → α) (b2 : Fin K → α) :
    Eqv (Gen.Nets.mlp_infer_retained_H_ (ofFn W1) (ofFn W2) (ofRow b1) (ofRow b2) (ofFn X)) (ofFn (hidden X W1 b1)) := by
  apply eqv_ofFn <;> simp [Gen.Nets.mlp_infer_retained_H_, add, hidden, affine]

/-- `MLPModel._compute_grads` as written in the source returns `[W1, W2, b1, b2]` of the model's `mlpGrads`
    (same order as `_get_weights`), for any retained activation `H`. -/
theorem mlp_compute_grads_eq (X : Fin n → Fin d → α) (H : Fin n → Fin h → α) (W2 : Fin h → Fin K → α)
    (y g : Fin n → Fin K → α) :
    ListEqv (Gen.Nets.mlp_compute_grads (ofFn H) (ofFn W2) (ofFn X) (ofFn y) (ofFn g))
      [ofFn (mlpGrads X H W2 y g).W1, ofFn (mlpGrads X H W2 y g).W2, ofRow (mlpGrads X H W2 y g).b1,
       ofRow (mlpGrads X H W2 y g).b2] := by
  simp only [Gen.Nets.mlp_compute_grads, listEqv_cons, listEqv_nil, and_true]
  refine ⟨?_, ?_, ?_, ?_⟩
  · apply eqv_ofFn <;> simp [sub, mul, mlpGrads, tauHat]
  · apply eqv_ofFn <;> simp [sub, mul, mlpGrads, tauHat]
  · apply eqv_ofRow <;> simp [sub, mul, mlpGrads, tauHat]
  · apply eqv_ofRow <;> simp [sub, mul, mlpGrads, tauHat]

/-! ### CategoricalModel (gemclus/nonparametric/_categorical_models.py) -/

/-- `CategoricalModel._infer` as written in the source is `softmax(self.logits_)` = the model's `categoricalInfer`,
    whatever `X` is passed. -/
theorem categorical_infer_eq (logits : Fin n → Fin K → α) (X : Arr α) :
    Eqv (Gen.Nets.categorical_infer (ofFn logits) X) (ofFn (categoricalInfer logits)) := by
  apply eqv_ofFn <;> simp [Gen.Nets.categorical_infer, categoricalInfer]

/-- `CategoricalModel._compute_grads` as written in the source returns the one-element list `[categoricalGrad]`,
    whatever `X` is passed. -/
theorem categorical_compute_grads_eq (y g : Fin n → Fin K → α) (X : Arr α) :
    ListEqv (Gen.Nets.categorical_compute_grads X (ofFn y) (ofFn g)) [ofFn (categoricalGrad y g)] := by
  simp only [Gen.Nets.categorical_compute_grads, listEqv_cons, listEqv_nil, and_true]
  apply eqv_ofFn <;> simp [sub, mul, categoricalGrad, tauHat]

/-! ### SparseMLPModel (gemclus/sparse/_mlp_sparse.py) -/

/-- `SparseMLPModel._infer` as written in the source computes the model's `sparseMlpInfer` (MLP logits plus the
    skip connection `X @ W_skip`). -/
theorem sparse_mlp_infer_eq (X : Fin n → Fin d → α) (W1 : Fin d → Fin h → α) (b1 : Fin h → α)
    (W2 : Fin h → Fin K → α) (b2 : Fin K → α) (Ws : Fin d → Fin K → α) :
    Eqv (Gen.Nets.sparse_mlp_infer (ofFn W1) (ofFn W2) (ofFn Ws) (ofRow b1) (ofRow b2) (ofFn X))
      (ofFn (sparseMlpInfer X W1 b1 W2 b2 Ws)) := by
  apply eqv_ofFn <;> simp [Gen.Nets.sparse_mlp_infer, add, sparseMlpInfer, hidden, affine]

/-- What `SparseMLPModel._infer` retains in `self.H_` is the model's hidden activation `hidden X W1 b1`. -/
theorem sparse_mlp_infer_retained_eq (X : Fin n → Fin d → α) (W1 : Fin d → Fin h → α) (b1 : Fin h → α)
    (W2 : Fin h → Fin K → α) (b2 : Fin K → α) (Ws : Fin d → Fin K → α) :
    Eqv (Gen.Nets.sparse_mlp_infer_retained_H_ (ofFn W1) (ofFn W2) (ofFn Ws) (ofRow b1) (ofRow b2) (ofFn X))
      (ofFn (hidden X W1 b1)) := by
  apply eqv_ofFn <;> simp [Gen.Nets.sparse_mlp_infer_retained_H_, add, hidden, affine]

/-- `SparseMLPModel._compute_grads` as written in the source returns `[W1, W2, Ws, b1, b2]` of the model's
    `mlpGrads` (same order as `_get_weights`: the skip-connection direction comes third). -/
theorem sparse_mlp_compute_grads_eq (X : Fin n → Fin d → α) (H : Fin n → Fin h → α) (W2 : Fin h → Fin K → α)
    (y g : Fin n → Fin K → α) :
    ListEqv (Gen.Nets.sparse_mlp_compute_grads (ofFn H) (ofFn W2) (ofFn X) (ofFn y) (ofFn g))
      [ofFn (mlpGrads X H W2 y g).W1, ofFn (mlpGrads X H W2 y g).W2, ofFn (mlpGrads X H W2 y g).Ws,
       ofRow (mlpGrads X H W2 y g).b1, ofRow (mlpGrads X H W2 y g).b2] := by
  simp only [Gen.Nets.sparse_mlp_compute_grads, listEqv_cons, listEqv_nil, and_true]
  refine ⟨?_, ?_, ?_, ?_, ?_⟩
  · apply eqv_ofFn <;> simp [sub, mul, mlpGrads, tauHat]
  · apply eqv_ofFn <;> simp [sub, mul, mlpGrads, tauHat]
  · apply eqv_ofFn <;> simp [sub, mul, mlpGrads, tauHat]
  · apply eqv_ofRow <;> simp [sub, mul, mlpGrads, tauHat]
  · apply eqv_ofRow <;> simp [sub, mul, mlpGrads, tauHat]

/-! ### the statements hold on IEEE doubles (non-vacuity of "every `RealLike`") -/

/-- instance at `Float`: the generated linear gradients are the model's, double for double -/
example (X : Fin n → Fin d → Float) (y g : Fin n → Fin K → Float) :
    ListEqv (Gen.Nets.linear_compute_grads (ofFn X) (ofFn y) (ofFn g))
      [ofFn (linearGradW X y g), ofRow (linearGradB y g)] :=
  linear_compute_grads_eq X y g

end GemVerif.Props.C03Gen
