/-
  C05 — proximal operators return the exact minimiser of their penalised problem.
  Property theorems only.  Definitions of the penalised problems: `Lemmas/ProxSpec.lean`
  (`glObj`, `glProx`, `hObj`, `Feasible`, matrix-level `glRowsObj`, `glMatObj`, `hRowsObj`, `hMatObj`);
  model: `Model/Prox.lean`; helper lemmas: `Lemmas/ProxModel.lean`, `ProxSort.lean`, `ProxHier.lean`.

  All theorems are over ℝ.  The one place where ℝ and IEEE doubles take different routes is the
  unguarded division by `‖v‖ = 0` in `mlp_prox_grad` (`x/0 = 0` in Lean, `±inf`/`nan` in numpy):
  see `hier_prox_zero_row`; the floating-point behaviour of those rows is checked by the harness
  (both reach `β = θ = 0` when `u = 0`, `α > 0`).
-/
import GemVerif.Lemmas.ProxHier

namespace GemVerif.Props.C05
open scoped BigOperators
open GemVerif Model.Prox Spec.Prox

variable {d k h : ℕ}

/-! ## (a) group lasso -/

/-- **Strong minimum in any real inner-product space.**  For `α ≥ 0`,
    `z* = if ‖w‖ ≤ α then 0 else (1 − α/‖w‖)•w` satisfies
    `½‖z−w‖² + α‖z‖ ≥ ½‖z*−w‖² + α‖z*‖ + ½‖z−z*‖²` for every `z`. -/
theorem glProx_strong_min {E : Type*} [NormedAddCommGroup E] [InnerProductSpace ℝ E]
    (w : E) {α : ℝ} (hα : 0 ≤ α) (z : E) :
    glObj w α z ≥ glObj w α (glProx w α) + 1 / 2 * ‖z - glProx w α‖ ^ 2 :=
  Spec.Prox.glProx_strong_min w hα z

/-- … hence `z*` is the unique minimiser. -/
theorem glProx_unique_minimiser {E : Type*} [NormedAddCommGroup E] [InnerProductSpace ℝ E]
    (w : E) {α : ℝ} (hα : 0 ≤ α) :
    (∀ z, glObj w α (glProx w α) ≤ glObj w α z) ∧
    (∀ z, glObj w α z ≤ glObj w α (glProx w α) → z = glProx w α) :=
  ⟨glProx_minimises w hα, glProx_unique w hα⟩

/-- The row formula of `linear_prox_grad` (with the `np.where(W_norms == 0, 1, W_norms)` guard) is
    the group soft-threshold of the row in Euclidean space — every row, zero rows included, every `α`. -/
theorem linear_prox_row_eq (W : Fin d → Fin h → ℝ) (α : ℝ) (i : Fin d) :
    toE (linearProx W α i) = glProx (toE (W i)) α :=
  linearProxRow_eq (W i) α

/-- The norm the model computes is the real 2-norm `sqrt(Σ_j w_j²)`, which is the norm of
    `EuclideanSpace ℝ (Fin h)`. -/
theorem model_norm_is_two_norm (w : Fin h → ℝ) :
    norm2 w = Real.sqrt (∑ j, w j ^ 2) ∧ norm2 w = ‖toE w‖ := ⟨norm2_eq_sqrt w, norm2_eq w⟩

/-- Rows of norm `≤ α` become exactly zero. -/
theorem linear_prox_small_row (W : Fin d → Fin h → ℝ) {α : ℝ} (i : Fin d)
    (hsmall : rowNorm (W i) ≤ α) (j : Fin h) : linearProx W α i j = 0 := by
  have h1 := linear_prox_row_eq W α i
  rw [glProx, if_pos (by rw [toE_norm_rowNorm]; exact hsmall)] at h1
  exact congrFun (congrArg WithLp.ofLp h1) j

/-- Rows of norm `> α` are shrunk radially by `α`: multiplied by `1 − α/‖W_i‖`, so that the new
    norm is `‖W_i‖ − α`. -/
theorem linear_prox_large_row (W : Fin d → Fin h → ℝ) {α : ℝ} (hα : 0 ≤ α) (i : Fin d)
    (hlarge : α < rowNorm (W i)) :
    (∀ j, linearProx W α i j = (1 - α / rowNorm (W i)) * W i j) ∧
    rowNorm (linearProx W α i) = rowNorm (W i) - α := by
  have h1 := linear_prox_row_eq W α i
  rw [glProx, if_neg (by rw [toE_norm_rowNorm]; exact not_le.mpr hlarge), toE_norm_rowNorm] at h1
  refine ⟨fun j => congrFun (congrArg WithLp.ofLp h1) j, ?_⟩
  rw [← toE_norm_rowNorm, h1, norm_smul, toE_norm_rowNorm, Real.norm_eq_abs]
  have hpos : 0 < rowNorm (W i) := lt_of_le_of_lt hα hlarge
  rw [abs_of_nonneg (by rw [sub_nonneg, div_le_one hpos]; exact hlarge.le)]
  field_simp

/-- **Row-separable matrix problem**: `linear_prox_grad` is the strong (hence unique) minimiser of
    `Σ_i (½ Σ_j (Z_ij − W_ij)² + α‖Z_i‖₂)` over all matrices `Z`. -/
theorem linear_prox_strong_min (W : Fin d → Fin h → ℝ) {α : ℝ} (hα : 0 ≤ α) (Z : Fin d → Fin h → ℝ) :
    glRowsObj W α Z ≥ glRowsObj W α (linearProx W α)
      + 1 / 2 * ∑ i, ∑ j, (Z i j - linearProx W α i j) ^ 2 := by
  unfold glRowsObj
  rw [Finset.mul_sum, ← Finset.sum_add_distrib]
  refine Finset.sum_le_sum fun i _ => ?_
  have hs := Spec.Prox.glProx_strong_min (toE (W i)) hα (toE (Z i))
  rw [← linear_prox_row_eq W α i, glObj_toE, glObj_toE, toE_sub_sq] at hs
  exact hs

/-- **Flattening a group** (`W[g].reshape((1, -1))`) gives a row whose 2-norm is the norm of the
    stacked rows of the group, and whose squared distance to another flattened matrix is the
    squared Frobenius distance on the group. -/
theorem flat_group_norm (Z W : Fin d → Fin h → ℝ) (g : List (Fin d)) :
    norm2 (flatGroup Z g) = blockNorm Z g ∧
    ∑ p, (flatGroup Z g p - flatGroup W g p) ^ 2 = blockDist Z W g :=
  ⟨by rw [norm2_eq_sqrt]; exact rowNorm_flatGroup Z g, dist_flatGroup Z W g⟩

/-- What `group_linear_prox_grad` writes into row `g[q]` of a partition: the `q`-th slice of the row
    operator applied to the flattened group. -/
theorem group_linear_prox_row {groups : List (List (Fin d))} (hp : IsPartition groups)
    (W : Fin d → Fin h → ℝ) (α : ℝ) {g : List (Fin d)} (hg : g ∈ groups) (q : Fin g.length) :
    groupLinearProx groups W α (g.get q)
      = some fun j => linearProxRow (flatGroup W g) α (flatIdx q j) :=
  scatter_partition hp _ hg q

/-- rows not covered by any group are left uninitialised by the code (`np.empty`): the model says `none` -/
theorem group_linear_prox_uncovered (groups : List (List (Fin d))) (W : Fin d → Fin h → ℝ) (α : ℝ)
    (i : Fin d) (hi : ∀ g ∈ groups, i ∉ g) : groupLinearProx groups W α i = none := by
  unfold groupLinearProx scatter
  cases hloc : locate groups i with
  | none => rfl
  | some r => exact absurd (by rw [← (locate_some hloc).2]; exact List.get_mem _ _) (hi r.1 (locate_some hloc).1)

/-- the scatter reassembles, on each group of a partition, exactly the group's result -/
theorem flatGroup_scatter {n : ℕ} {groups : List (List (Fin d))} (hp : IsPartition groups)
    (res : (g : List (Fin d)) → Fin (g.length * n) → ℝ) (Zs : Fin d → Fin n → ℝ)
    (hZ : ∀ i, scatter groups res i = some (Zs i)) {g : List (Fin d)} (hg : g ∈ groups) :
    flatGroup Zs g = res g := by
  funext p
  have h1 := scatter_partition hp res hg (unflat p).1
  rw [hZ] at h1
  have h2 := congrFun (Option.some.inj h1) (unflat p).2
  unfold flatGroup
  rw [h2, flatIdx_unflat]

/-- **Group lasso on a partition of the features**: `group_linear_prox_grad` fills every covered row,
    and its result is the strong (hence unique) minimiser of `½‖Z − W‖² + α Σ_g ‖Z_g‖₂` (each group
    counted with the 2-norm of its stacked rows). -/
theorem group_linear_prox_strong_min {groups : List (List (Fin d))} (hp : IsPartition groups)
    (hcov : ∀ i : Fin d, ∃ g ∈ groups, i ∈ g) (W : Fin d → Fin h → ℝ) {α : ℝ} (hα : 0 ≤ α) :
    ∃ Zs : Fin d → Fin h → ℝ, (∀ i, groupLinearProx groups W α i = some (Zs i)) ∧
      ∀ Z, glMatObj groups W α Z ≥ glMatObj groups W α Zs + 1 / 2 * (groups.map (blockDist Z Zs)).sum := by
  let res : (g : List (Fin d)) → Fin (g.length * h) → ℝ := fun g => linearProxRow (flatGroup W g) α
  refine ⟨fun i => ((groupLinearProx groups W α i).getD fun _ => 0), fun i => ?_, fun Z => ?_⟩
  · obtain ⟨z, hz⟩ := scatter_isSome res (hcov i)
    show scatter groups res i = some ((scatter groups res i).getD fun _ => 0)
    rw [hz]; rfl
  · set Zs : Fin d → Fin h → ℝ := fun i => ((groupLinearProx groups W α i).getD fun _ => 0) with hZs
    have hZ : ∀ i, scatter groups res i = some (Zs i) := by
      intro i
      obtain ⟨z, hz⟩ := scatter_isSome res (hcov i)
      rw [hZs]
      show _ = some ((scatter groups res i).getD fun _ => 0)
      rw [hz]; rfl
    unfold glMatObj
    rw [ge_iff_le, ← List.sum_map_mul_left, ← List.sum_map_add]
    refine List.sum_le_sum fun g hg => ?_
    have hflat : flatGroup Zs g = linearProxRow (flatGroup W g) α := flatGroup_scatter hp res Zs hZ hg
    have hs := Spec.Prox.glProx_strong_min (toE (flatGroup W g)) hα (toE (flatGroup Z g))
    rw [← linearProxRow_eq, ← hflat, ← glGroupObj_eq, ← glGroupObj_eq, toE_sub_sq, dist_flatGroup] at hs
    exact hs

/-! ## (b) LassoNet HIER-PROX -/

/-- `β* = x*·v` with `x* ≥ 0` (every `v`, every `α`, `M`). -/
theorem hier_prox_beta_eq (v : Fin k → ℝ) (u : Fin h → ℝ) (α M : ℝ) :
    (∀ c, (hierProxRow v u α M).1 c = xStar v u α M * v c) ∧ 0 ≤ xStar v u α M :=
  ⟨fun _ => rfl, xS_nonneg _ _ _ _ _⟩

/-- `θ*_j = ±min(|u_j|, w*)`: the clipping of `u_j` to `[−w*, w*]`, and `w* = M‖β*‖` (every `v`). -/
theorem hier_prox_theta_eq (v : Fin k → ℝ) (u : Fin h → ℝ) (α M : ℝ) :
    (∀ j, (hierProxRow v u α M).2 j = clipPM (wStar v u α M) (u j)) ∧
    wStar v u α M = M * ‖toE (hierProxRow v u α M).1‖ := by
  refine ⟨fun j => theta_eq u _ j, ?_⟩
  have hβ : toE (hierProxRow v u α M).1 = xStar v u α M • toE v := rfl
  have hx0 : 0 ≤ xStar v u α M := xS_nonneg _ _ _ _ _
  rw [hβ, norm_smul, Real.norm_eq_abs, abs_of_nonneg hx0, ← norm2_eq, ← mul_assoc]
  rfl

/-- **Feasibility**: `|θ*_j| ≤ M‖β*‖` for every hidden unit — every `v` (zero rows included), every
    `u`, every `α`, every `M ≥ 0`. -/
theorem hier_prox_feasible (v : Fin k → ℝ) (u : Fin h → ℝ) (α : ℝ) {M : ℝ} (hM : 0 ≤ M) :
    Feasible M (toE (hierProxRow v u α M).1) (hierProxRow v u α M).2 := by
  intro j
  obtain ⟨hθ, hw⟩ := hier_prox_theta_eq v u α M
  rw [hθ j, ← hw]
  refine abs_clipPM_le ?_ _
  rw [hw]; exact mul_nonneg hM (norm_nonneg _)

/-- **KKT-sufficiency** (convex problem reduced to the scalar `b = ‖β‖`): if `b ≥ 0` solves
    `b = max(‖v‖ − α + M Σ_j (|u_j| − M b)₊, 0)`, then `(x•v, clip(u, ±M b))` with `x ≥ 0`,
    `x‖v‖ = b` is a global minimiser of `½‖β−v‖² + ½‖θ−u‖² + α‖β‖` over all feasible pairs —
    in any real inner-product space for `β`, any finite index set for `θ`. -/
theorem hier_kkt_optimal {E : Type*} [NormedAddCommGroup E] [InnerProductSpace ℝ E] {ι : Type*}
    [Fintype ι] (v : E) (u : ι → ℝ) (α M b x : ℝ) (hx : 0 ≤ x) (hb : b = x * ‖v‖)
    (hkkt : b = max (‖v‖ - α + M * ∑ j, max (|u j| - M * b) 0) 0)
    (β : E) (θ : ι → ℝ) (hfeas : Feasible M β θ) :
    hObj v u α (x • v) (fun j => clipPM (M * b) (u j)) ≤ hObj v u α β θ :=
  Spec.Prox.hier_kkt_optimal v u α M b x hx hb hkkt β θ hfeas

/-- **The sorted-breakpoint search returns a stationary point**: `b* = x*‖v‖` solves the scalar KKT
    equation, for every row with non-zero skip weights. -/
theorem hier_prox_stationary (v : Fin k → ℝ) (u : Fin h → ℝ) (hv : v ≠ 0) (α : ℝ) {M : ℝ} (hM : 0 ≤ M) :
    xStar v u α M * ‖toE v‖
      = max (‖toE v‖ - α + M * ∑ j, max (|u j| - M * (xStar v u α M * ‖toE v‖)) 0) 0 :=
  (hierRow_kkt v u hv hM).2.2

/-- **HIER-PROX optimality, full statement.**  For every skip row `v ≠ 0`, every hidden row `u`
    (ties and zeros included), every `M ≥ 0` and every `α` (the proof does not even need `α ≥ 0`),
    the pair returned by `mlp_prox_grad` attains the minimum of `½‖β−v‖² + ½‖θ−u‖² + α‖β‖₂` over ALL
    feasible pairs `(β, θ)`, `|θ_j| ≤ M‖β‖`. -/
theorem hier_prox_optimal (v : Fin k → ℝ) (u : Fin h → ℝ) (hv : v ≠ 0) (α : ℝ) {M : ℝ} (hM : 0 ≤ M)
    (β : EuclideanSpace ℝ (Fin k)) (θ : Fin h → ℝ) (hfeas : Feasible M β θ) :
    hObj (toE v) u α (toE (hierProxRow v u α M).1) (hierProxRow v u α M).2 ≤ hObj (toE v) u α β θ := by
  obtain ⟨hx, hw, hkkt⟩ := hierRow_kkt v u hv (α := α) hM
  have hβ : toE (hierProxRow v u α M).1 = xStar v u α M • toE v := rfl
  have hθ : (hierProxRow v u α M).2 = fun j => clipPM (M * (xStar v u α M * ‖toE v‖)) (u j) := by
    funext j
    rw [(hier_prox_theta_eq v u α M).1 j, hw]
  rw [hβ, hθ]
  exact Spec.Prox.hier_kkt_optimal (toE v) u α M _ _ hx rfl hkkt β θ hfeas

/-- The same in coordinates: explicit sums and the explicit 2-norm `rowNorm β = sqrt(Σ_c β_c²)`. -/
theorem hier_prox_optimal_coords (v : Fin k → ℝ) (u : Fin h → ℝ) (hv : v ≠ 0) (α : ℝ) {M : ℝ} (hM : 0 ≤ M)
    (β : Fin k → ℝ) (θ : Fin h → ℝ) (hfeas : ∀ j, |θ j| ≤ M * rowNorm β) :
    1 / 2 * ∑ c, ((hierProxRow v u α M).1 c - v c) ^ 2 + 1 / 2 * ∑ j, ((hierProxRow v u α M).2 j - u j) ^ 2
        + α * rowNorm (hierProxRow v u α M).1
      ≤ 1 / 2 * ∑ c, (β c - v c) ^ 2 + 1 / 2 * ∑ j, (θ j - u j) ^ 2 + α * rowNorm β := by
  have h1 := hier_prox_optimal v u hv α hM (toE β) θ (by
    intro j; rw [toE_norm_rowNorm]; exact hfeas j)
  rwa [hObj_toE, hObj_toE] at h1

/-- The hypotheses of `hier_prox_optimal` are satisfiable in every shape with `k ≥ 1`. -/
example (hk : 0 < k) : ∃ (v : Fin k → ℝ) (M : ℝ), v ≠ 0 ∧ 0 ≤ M :=
  ⟨fun _ => 1, 1, fun h0 => one_ne_zero (congrFun h0 ⟨0, hk⟩), zero_le_one⟩

/-- **Zero skip rows** (in scope only with `u = 0`): over ℝ (`x/0 = 0`) the model returns
    `β = 0`, `θ = 0`, which is the minimiser of the problem for `α ≥ 0` (value `0`, objective is
    non-negative).  On IEEE doubles the same output is reached through `α/0 = +inf` when `α > 0`
    (checked by the harness); for `α = 0` numpy computes `0/0 = nan`, which is why the property
    excludes that case. -/
theorem hier_prox_zero_row (α M : ℝ) (hα : 0 ≤ α) :
    (hierProxRow (fun _ : Fin k => (0 : ℝ)) (fun _ : Fin h => (0 : ℝ)) α M).1 = (fun _ => 0) ∧
    (hierProxRow (fun _ : Fin k => (0 : ℝ)) (fun _ : Fin h => (0 : ℝ)) α M).2 = (fun _ => 0) ∧
    ∀ (β : EuclideanSpace ℝ (Fin k)) (θ : Fin h → ℝ),
      hObj (toE fun _ : Fin k => (0 : ℝ)) (fun _ : Fin h => (0 : ℝ)) α (toE fun _ => 0) (fun _ => 0)
        ≤ hObj (toE fun _ : Fin k => (0 : ℝ)) (fun _ : Fin h => (0 : ℝ)) α β θ := by
  refine ⟨?_, ?_, fun β θ => ?_⟩
  · funext c; show _ * (0 : ℝ) = 0; ring
  · funext j
    rw [(hier_prox_theta_eq _ _ α M).1 j, (hier_prox_theta_eq _ _ α M).2]
    have h0 : toE (hierProxRow (fun _ : Fin k => (0 : ℝ)) (fun _ : Fin h => (0 : ℝ)) α M).1 = 0 := by
      ext c; show _ * (0 : ℝ) = 0; ring
    rw [h0, norm_zero, mul_zero]
    simp [clipPM]
  · have hz : (toE fun _ : Fin k => (0 : ℝ)) = 0 := rfl
    unfold hObj
    rw [hz]
    simp only [sub_self, norm_zero, sub_zero]
    have h1 : 0 ≤ ∑ j, θ j ^ 2 := Finset.sum_nonneg fun j _ => sq_nonneg _
    have h2 : 0 ≤ α * ‖β‖ := mul_nonneg hα (norm_nonneg _)
    have h3 : 0 ≤ ‖β‖ ^ 2 := sq_nonneg _
    simp
    linarith

/-- **HIER-PROX optimality on the whole scope of the property** (non-zero skip rows, and zero rows
    with zero hidden weights). -/
theorem hier_prox_optimal_in_scope (v : Fin k → ℝ) (u : Fin h → ℝ) (α : ℝ) {M : ℝ} (hM : 0 ≤ M)
    (hs : InScope v u α) (β : EuclideanSpace ℝ (Fin k)) (θ : Fin h → ℝ) (hfeas : Feasible M β θ) :
    hObj (toE v) u α (toE (hierProxRow v u α M).1) (hierProxRow v u α M).2 ≤ hObj (toE v) u α β θ := by
  rcases hs with hv | ⟨hv, hu, hα⟩
  · exact hier_prox_optimal v u hv α hM β θ hfeas
  · subst hv hu
    obtain ⟨h1, h2, h3⟩ := hier_prox_zero_row (k := k) (h := h) α M hα
    have e1 : (hierProxRow (0 : Fin k → ℝ) (0 : Fin h → ℝ) α M).1 = fun _ => 0 := h1
    have e2 : (hierProxRow (0 : Fin k → ℝ) (0 : Fin h → ℝ) α M).2 = fun _ => 0 := h2
    rw [e1, e2]
    exact h3 β θ

/-- The same in coordinates. -/
theorem hier_prox_optimal_in_scope_coords (v : Fin k → ℝ) (u : Fin h → ℝ) (α : ℝ) {M : ℝ} (hM : 0 ≤ M)
    (hs : InScope v u α) (β : Fin k → ℝ) (θ : Fin h → ℝ) (hfeas : ∀ j, |θ j| ≤ M * rowNorm β) :
    1 / 2 * ∑ c, ((hierProxRow v u α M).1 c - v c) ^ 2 + 1 / 2 * ∑ j, ((hierProxRow v u α M).2 j - u j) ^ 2
        + α * rowNorm (hierProxRow v u α M).1
      ≤ 1 / 2 * ∑ c, (β c - v c) ^ 2 + 1 / 2 * ∑ j, (θ j - u j) ^ 2 + α * rowNorm β := by
  have h1 := hier_prox_optimal_in_scope v u α hM hs (toE β) θ (by
    intro j; rw [toE_norm_rowNorm]; exact hfeas j)
  rwa [hObj_toE, hObj_toE] at h1

/-- **Matrix level** (`mlp_prox_grad` on a `d × k` / `d × h` pair whose rows are all in scope):
    every row is feasible and the pair minimises the row-separable objective over all row-feasible
    pairs of matrices. -/
theorem mlp_prox_optimal (Ws : Fin d → Fin k → ℝ) (W1 : Fin d → Fin h → ℝ) (α : ℝ) {M : ℝ} (hM : 0 ≤ M)
    (hscope : ∀ i, InScope (Ws i) (W1 i) α) :
    (∀ i j, |(mlpProx Ws W1 α M).2 i j| ≤ M * rowNorm ((mlpProx Ws W1 α M).1 i)) ∧
    ∀ (B : Fin d → Fin k → ℝ) (T : Fin d → Fin h → ℝ), (∀ i j, |T i j| ≤ M * rowNorm (B i)) →
      hRowsObj Ws W1 α (mlpProx Ws W1 α M).1 (mlpProx Ws W1 α M).2 ≤ hRowsObj Ws W1 α B T := by
  refine ⟨fun i j => ?_, fun B T hBT => ?_⟩
  · have := hier_prox_feasible (Ws i) (W1 i) α hM j
    rwa [toE_norm_rowNorm] at this
  · unfold hRowsObj
    exact Finset.sum_le_sum fun i _ =>
      hier_prox_optimal_in_scope_coords (Ws i) (W1 i) α hM (hscope i) (B i) (T i) (hBT i)

/-- **Group level** (`group_mlp_prox_grad` on a partition of the features, every group in scope: some
    non-zero skip weight, or all skip and hidden weights of the group zero): all rows are written, every group is feasible (each hidden weight of the
    group bounded by `M` times the norm of the group's stacked skip weights), and the result minimises
    `Σ_g (½‖B_g − Wskip_g‖² + ½‖T_g − W1_g‖² + α‖B_g‖₂)` over all group-feasible pairs. -/
theorem group_mlp_prox_optimal {groups : List (List (Fin d))} (hp : IsPartition groups)
    (hcov : ∀ i : Fin d, ∃ g ∈ groups, i ∈ g) (Ws : Fin d → Fin k → ℝ) (W1 : Fin d → Fin h → ℝ)
    (α : ℝ) {M : ℝ} (hM : 0 ≤ M) (hscope : ∀ g ∈ groups, InScope (flatGroup Ws g) (flatGroup W1 g) α) :
    ∃ (Bs : Fin d → Fin k → ℝ) (Ts : Fin d → Fin h → ℝ),
      (∀ i, (groupMlpProx groups Ws W1 α M).1 i = some (Bs i)) ∧
      (∀ i, (groupMlpProx groups Ws W1 α M).2 i = some (Ts i)) ∧
      (∀ g ∈ groups, GroupFeasible M Bs Ts g) ∧
      ∀ B T, (∀ g ∈ groups, GroupFeasible M B T g) →
        hMatObj groups Ws W1 α Bs Ts ≤ hMatObj groups Ws W1 α B T := by
  let resB : (g : List (Fin d)) → Fin (g.length * k) → ℝ :=
    fun g => (hierProxRow (flatGroup Ws g) (flatGroup W1 g) α M).1
  let resT : (g : List (Fin d)) → Fin (g.length * h) → ℝ :=
    fun g => (hierProxRow (flatGroup Ws g) (flatGroup W1 g) α M).2
  let Bs : Fin d → Fin k → ℝ := fun i => (scatter groups resB i).getD fun _ => 0
  let Ts : Fin d → Fin h → ℝ := fun i => (scatter groups resT i).getD fun _ => 0
  have hB : ∀ i, scatter groups resB i = some (Bs i) := fun i => by
    obtain ⟨z, hz⟩ := scatter_isSome resB (hcov i)
    show _ = some ((scatter groups resB i).getD fun _ => 0)
    rw [hz]; rfl
  have hT : ∀ i, scatter groups resT i = some (Ts i) := fun i => by
    obtain ⟨z, hz⟩ := scatter_isSome resT (hcov i)
    show _ = some ((scatter groups resT i).getD fun _ => 0)
    rw [hz]; rfl
  refine ⟨Bs, Ts, hB, hT, fun g hg => ?_, fun B T hBT => ?_⟩
  · rw [groupFeasible_iff, flatGroup_scatter hp resB Bs hB hg, flatGroup_scatter hp resT Ts hT hg]
    exact hier_prox_feasible _ _ α hM
  · unfold hMatObj
    refine List.sum_le_sum fun g hg => ?_
    rw [hGroupObj_eq, hGroupObj_eq, flatGroup_scatter hp resB Bs hB hg, flatGroup_scatter hp resT Ts hT hg]
    exact hier_prox_optimal_in_scope _ _ α hM (hscope g hg) _ _ ((groupFeasible_iff M B T g).mp (hBT g hg))

/-- The hypotheses on `groups` are satisfiable: the partition into singletons. -/
example : IsPartition ((List.finRange d).map fun i => [i]) ∧
    ∀ i : Fin d, ∃ g ∈ (List.finRange d).map fun i => [i], i ∈ g := by
  refine ⟨⟨fun g hg => ?_, ?_⟩, fun i => ⟨[i], by simp, by simp⟩⟩
  · obtain ⟨i, _, rfl⟩ := List.mem_map.mp hg; simp
  · rw [List.pairwise_map]
    refine (List.nodup_finRange d).imp ?_
    intro a b hab
    simp [List.Disjoint, hab]

/-! ## the sort -/

/-- `np.sort(·)[::-1]` is modelled by an insertion sort.  Only the values are observable: the result
    is THE non-increasing rearrangement (any non-increasing permutation of the input equals it). -/
theorem sortDesc_is_the_rearrangement (l : List ℝ) :
    (sortDesc l).Perm l ∧ (sortDesc l).Pairwise (· ≥ ·) ∧
    ∀ l' : List ℝ, l'.Perm l → l'.Pairwise (· ≥ ·) → l' = sortDesc l := by
  refine ⟨sortDesc_perm l, sortDesc_pairwise l, fun l' hp hs => ?_⟩
  exact (hp.trans (sortDesc_perm l).symm).eq_of_pairwise' hs (sortDesc_pairwise l)

end GemVerif.Props.C05
