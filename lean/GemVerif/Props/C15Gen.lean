/-
  C15 / C03 / C18 (companion) — the hand model of Model/Douglas.lean IS what gemclus/tree/douglas.py says now.

  `Gen/Douglas.lean` is regenerated on every run by translator/douglas.py from the bodies of `Douglas._leaf_binning`,
  `_merge_leaf`, `_infer` and `_compute_grads` in /repo: one definition per method (plus one per attribute `_infer` retains), a
  literal transcription of the NumPy statements into the untyped array language of GemVerif/Np.lean … Np5.lean (shapes are data;
  `np.linspace`, `np.argsort`, fancy indexing by the order, `np.concatenate` / `np.cumsum` / reshapes, `X @ W + b`, `softmax`,
  `np.einsum("ij,ik->ijk")` + reshape, the lambda / map / list / reduce pipeline as `List.map` + a fold, the N-d reshape, `*=` and
  `sum(axes)` as operations on the flat row-major layout, the loop over `enumerate(self.cut_points_list_)` as a fold follow
  NumPy's rules; anything NumPy would reject sets `ok := false`, and whatever a method returns collects the `ok` of EVERY
  intermediate array).

  Every positive theorem below says: the generated definition, applied to arrays holding the model's inputs (any arrays
  described by `IsMat` / `IsVec` / `IsRows`, in particular `ofFn X`, `ofList cuts`, `cplOf cl`), raises no NumPy error, has the
  shape of the hand model's value and has, entry for entry, that value — for ALL sizes (`n = 0`, empty cut vectors, ties
  included).  The inputs on which the model returns `none` are covered by the `…_raises` theorems: there the generated code
  carries an error (`ok = false`).
    * `_leaf_binning`: `leaf_binning_isRows` (memberships = the model's `binning`, order = the model's `argsort`),
      `leaf_binning_eq`, `leaf_binning_order_eq`; generic in the number type: `leaf_binning_order_generic`.
    * `_merge_leaf`: `merge_leaf_isRows` (= the model's `kron`), `merge_leaf_empty_raises`.
    * `_infer` and what it retains: `infer_eq` (= the model's `infer` / `leafRow` / `binning` / `argsort` of every slot),
      `infer_ofFn_eq`, `infer_empty_raises`, `infer_out_of_range_raises`, `infer_wrong_leaf_count_raises`.
    * `_compute_grads`: `compute_grads_closed_form` (= `lsbSpec :: map cutGradSpec`, the closed form of the model's
      `computeGrads`: `computeGrads_some`), `compute_grads_eq` (`_infer` then `_compute_grads`, = the model's `computeGrads`).
  NUMBER TYPE.  These theorems are stated over ℝ: the generated code and the model do not perform the same floating-point
  operations in the same order (`X @ W` sums one product with `0`, the model writes `x * w`; scikit-learn's soft-max is summed
  from the right by the DSL of Np.lean and from the left by Model/Douglas.lean; the marginalisation sums in flat-index order on
  both sides but NumPy's pairwise reduction does not).  What IS number-type generic: the DSL's `np.argsort` is the model's
  `argsort` / `argsortNat` (Lemmas/Np5.lean `argsortBy_eq_argsort`, `argsortBy_eq_argsortNat`: a stable insertion sort of the
  positions on both sides — NumPy promises nothing about ties, for distinct values every algorithm agrees), `np.cumsum` performs
  the model's additions (`douglas_cumsum_getD`), hence the order, the sorted cut points and the bias of `_leaf_binning`
  (Lemmas/C15Gen.lean, section `generic`) and `leaf_binning_order_generic` below.
  The proofs do not depend on which temporaries the source uses: every `let` is unfolded, the NumPy EXPRESSIONS are named
  (`generalize`), the error flags are discharged one fact at a time, the loop of `_compute_grads` is read semantically
  (`foldl_updates_true`: each round appends `-cut_grad` and raises nothing).  harmless/batch3/h07.diff (explicit loop in `_infer`,
  `np.matmul` / `np.sum` / `np.flip`, `range(n)` loop, extra temporaries) regenerates to definitions these same proofs accept.
  SPELLINGS.  Three expressions of the source have behaviour-preserving respellings that regenerate to DIFFERENT operations of
  the array language (harmless/h07.diff, harmless/batch2/h07.diff); the proofs below establish the facts for every spelling and
  use whichever the current text needs, so each theorem holds for whichever source is current:
    * the weights `W`: `np.linspace(1, n + 1, n + 1)` or `np.arange(1, n + 2, dtype=np.float64)` (`isWeights_linspace`,
      `isWeights_arangeFrom` of Lemmas/C15Gen.lean: both are the row `1, …, n + 1`);
    * the row-wise outer product: `np.einsum("ij,ik->ijk", a, b)` or `a[:, :, np.newaxis] * b[:, np.newaxis, :]` (NumPy
      broadcasting, `Arr3.mul (expandLast a) (expandMid b)`), reshaped by `np.prod(T.shape[1:])` or `a.shape[1] * b.shape[1]`;
    * undoing the sort: the gather `cumsum_grad[np.argsort(order)]`, the scatter `g = np.empty_like(cumsum_grad); g[order] =
      cumsum_grad`, or the gather through `ranks = np.empty_like(order); ranks[order] = np.arange(len(order))`.  The entries
      of `np.empty_like` are an OPAQUE constant; the scatter equals the gather because the retained order is a permutation of ALL
      positions (`argsortBy_perm`), so every entry is overwritten exactly once (`setAt_get_of_perm`, `argsortNat_inv` of
      Lemmas/C15GenGrad.lean) — proved, not assumed.  A scatter through anything else (e.g. `g[np.argsort(order)] = …`) matches none
      of the three and `compute_grads_closed_form` fails.
  The theorems of Props/C15.lean, C03Douglas.lean and the Douglas part of C18.lean, stated about Model/Douglas.lean, therefore
  speak about the current source.
-/
import GemVerif.Lemmas.C15Gen
import GemVerif.Lemmas.C15GenGrad
import GemVerif.Gen.Douglas

namespace GemVerif.Props.C15Gen
open GemVerif GemVerif.RealLike GemVerif.Np GemVerif.Np.Arr GemVerif.Model.Douglas GemVerif.Douglas

set_option linter.unusedVariables false
set_option linter.unusedSimpArgs false
-- the proofs serve several spellings of the source: the alternatives the current text does not use are never run
set_option linter.unusedTactic false
set_option linter.unreachableTactic false

/-! ### what the relations mean -/

/-- Meaning of the descriptions used below: `IsRows A rows len` says that no NumPy error occurred while computing `A`, that `A`
    has shape `(n, len)`, that every list `rows i` has `len` entries and that `A[i, j]` is entry `j` of `rows i`; it is what
    `Eqv A (ofFn fun i j => (rows i).getD j 0)` says, plus the lengths of the lists. -/
theorem isRows_spelled_out {n len : ℕ} (A : Arr ℝ) (rows : Fin n → List ℝ) (h : ∀ i, (rows i).length = len) :
    IsRows A rows len ↔ Eqv A (ofFn fun i (j : Fin len) => (rows i).getD j.val 0) := by
  constructor
  · exact fun hA => hA.isMat.eqv
  · intro hE
    obtain ⟨hok, hr, hc, hget⟩ := eqv_ofFn_iff.mp hE
    exact ⟨hok, hr, hc, h, fun i j hj => hget i ⟨j, hj⟩⟩

/-- A returned array whose `flags` (the conjunction of the `ok` of all arrays computed during the call) is false is described by
    nothing: a mutation of the source that makes ANY statement raise cannot satisfy any theorem of this file. -/
theorem raised_not_isRows {n len : ℕ} (A : Arr ℝ) (rows : Fin n → List ℝ) : ¬ IsRows (checked false A) rows len := by
  rintro ⟨hok, -⟩
  simp at hok

/-! ### `_leaf_binning` -/

/-- `Douglas._leaf_binning(X, cut_points)` as written in the source (weights `1, …, n + 1` by `np.linspace` or `np.arange`, `np.argsort`, the sorted cut points by
    fancy indexing, the bias by `np.concatenate` / `np.cumsum` / reshape, `softmax((X @ W + b) / self.temperature)`), applied to any
    array that is without error the `(n, 1)` column `x` and any 1-D array holding the list `cuts`: the memberships are without
    error the `(n, len(cuts) + 1)` array whose row `i` is the model's `binning T (x i) cuts`, and the returned order is the 1-D
    integer array of the model's `argsort cuts` — all `n` (0 included), all lists of cut points (the empty one, ties included),
    every temperature. -/
theorem leaf_binning_isRows (T : ℝ) {n : ℕ} {Xa ca : Arr ℝ} {x : Fin n → ℝ} {cuts : List ℝ}
    (hX : IsMat Xa (fun i (_ : Fin 1) => x i)) (hc : IsVec ca cuts) :
    IsRows (Gen.Douglas.leaf_binning T Xa ca).1 (fun i => binning T (x i) cuts) (cuts.length + 1) ∧
    IsVecN (Gen.Douglas.leaf_binning T Xa ca).2 (argsort cuts) := by
  unfold Gen.Douglas.leaf_binning
  dsimp only
  have hO := hc.argsort1
  have hS := hc.take1_argsort hO
  have hB := hS.bias
  rw [hc.2.2.1]
  -- the row `W` of the weights `1, …, n + 1`, spelled `np.linspace(1, n + 1, n + 1)` or `np.arange(1, n + 2)`
  have hWl := isWeights_linspace cuts.length
  have hWa := isWeights_arangeFrom cuts.length
  have hrows := fun (i : Fin n) (j : ℕ) (hj : j < cuts.length + 1) => softmax_logits_get_of_weights T hWl hX hB i hj
  have hrowsA := fun (i : Fin n) (j : ℕ) (hj : j < cuts.length + 1) => softmax_logits_get_of_weights T hWa hX hB i hj
  generalize argsort1 ca = order at hO hS hB hrows hrowsA ⊢
  generalize reshapeRow (cumsumAxis1 (concat1 (zeros 1 1) (neg (take1 ca order)))) = ba at hB hrows hrowsA ⊢
  generalize reshapeRow (linspace (1 : ℝ) (nat cuts.length + 1) (cuts.length + 1)) = Wl at hWl hrows ⊢
  generalize reshapeRow (arangeFrom 1 (cuts.length + 2) : Arr ℝ) = Wa at hWa hrowsA ⊢
  obtain ⟨hXok, hXr, hXc, hXget⟩ := hX
  obtain ⟨hbok, hbr, hbc, hbget⟩ := hB
  rw [bias_length] at hbc
  obtain ⟨hWlok, hWlr, hWlc, -⟩ := hWl
  obtain ⟨hWaok, hWar, hWac, -⟩ := hWa
  -- the flags: every array bound on the way is without error, whatever temporaries name them
  have hlogl : (add (matmul Xa Wl) ba).ok = true := by simp [add, hbok, hXok, hXc, hXr, hbr, hbc, hWlok, hWlr, hWlc]
  have hlogA : (add (matmul Xa Wa) ba).ok = true := by simp [add, hbok, hXok, hXc, hXr, hbr, hbc, hWaok, hWar, hWac]
  simp only [hWlok, hWaok, hO.1, hS.1, hbok, hlogl, hlogA, Bool.and_self]
  refine ⟨⟨?_, ?_, ?_, fun i => binning_length T (x i) cuts, fun i j hj => ?_⟩, ?_, ?_, ?_, ?_⟩
  · simp [add, hbok, hXok, hXc, hXr, hbr, hbc, hWlok, hWlr, hWlc, hWaok, hWar, hWac]
  · simp [add, hXr, hbr]
  · simp [add, hbc, hWlc, hWac]
  · first | exact hrows i j hj | exact hrowsA i j hj
  · simp [hO.1]
  · exact hO.2.1
  · exact hO.2.2.1
  · exact hO.2.2.2

/-- `_leaf_binning` on the arrays built from the model's inputs: the memberships are the matrix of the model's `binning`
    (shape `(n, len(cuts) + 1)`, no error), entry for entry. -/
theorem leaf_binning_eq (T : ℝ) {n : ℕ} (x : Fin n → ℝ) (cuts : List ℝ) :
    Eqv (Gen.Douglas.leaf_binning T (ofFn fun i (_ : Fin 1) => x i) (ofList cuts)).1
      (ofFn fun i (j : Fin (cuts.length + 1)) => (binning T (x i) cuts).getD j.val 0) :=
  (leaf_binning_isRows T (isMat_ofFn _) (isVec_ofList cuts)).1.isMat.eqv

/-- `_leaf_binning` on the arrays built from the model's inputs: the order is the model's `argsort`, the second component of
    the model's `leafBinning`. -/
theorem leaf_binning_order_eq (T : ℝ) {n : ℕ} (x : Fin n → ℝ) (cuts : List ℝ) (i : Fin n) :
    IsVecN (Gen.Douglas.leaf_binning T (ofFn fun i (_ : Fin 1) => x i) (ofList cuts)).2 (leafBinning T (x i) cuts).2 :=
  (leaf_binning_isRows T (isMat_ofFn _) (isVec_ofList cuts)).2

/-- NUMBER-TYPE GENERIC part of `_leaf_binning`: for EVERY `[RealLike α]` (IEEE doubles included: the sort is the same stable
    insertion sort of the positions on both sides, every error flag depends on shapes and indices only), applied to any array
    that is without error an `(n, 1)` column and any 1-D array holding `cuts`, the order returned by the source's
    `_leaf_binning` is without error the 1-D integer array of the model's `argsort cuts`. -/
theorem leaf_binning_order_generic {α : Type} [RealLike α] (T : α) {n : ℕ} {Xa ca : Arr α} {x : Fin n → α} {cuts : List α}
    (hX : IsMat Xa (fun i (_ : Fin 1) => x i)) (hc : IsVec ca cuts) :
    IsVecN (Gen.Douglas.leaf_binning T Xa ca).2 (argsort cuts) := by
  unfold Gen.Douglas.leaf_binning
  dsimp only
  have hO := hc.argsort1
  have hS := hc.take1_argsort hO
  have hB := hS.bias
  rw [hc.2.2.1]
  generalize argsort1 ca = order at hO hS hB ⊢
  generalize reshapeRow (cumsumAxis1 (concat1 (zeros 1 1) (neg (take1 ca order)))) = ba at hB ⊢
  obtain ⟨hXok, hXr, hXc, hXget⟩ := hX
  obtain ⟨hbok, hbr, hbc, hbget⟩ := hB
  rw [bias_length_g] at hbc
  -- the row of the weights in either spelling: no error, shape `(1, n + 1)`
  have hWl : (reshapeRow (linspace (1 : α) (nat cuts.length + 1) (cuts.length + 1))).ok = true := by simp
  have hWa : (reshapeRow (arangeFrom 1 (cuts.length + 2) : Arr α)).ok = true := by simp
  have hlogl : (add (matmul Xa (reshapeRow (linspace 1 (nat cuts.length + 1) (cuts.length + 1)))) ba).ok = true := by
    simp [add, hbok, hXok, hXc, hXr, hbr, hbc]
  have hlogA : (add (matmul Xa (reshapeRow (arangeFrom 1 (cuts.length + 2) : Arr α))) ba).ok = true := by
    simp [add, hbok, hXok, hXc, hXr, hbr, hbc]
  simp only [hWl, hWa, hO.1, hS.1, hbok, hlogl, hlogA, linspace_ok, arangeFrom_ok, Bool.and_self]
  exact ⟨by simp [hO.1], hO.2.1, hO.2.2.1, hO.2.2.2⟩

/-- instance at `Float`: on IEEE doubles the order returned by the source's `_leaf_binning` is the model's `argsort` -/
example (T : Float) (x : Fin 4 → Float) (cuts : List Float) :
    IsVecN (Gen.Douglas.leaf_binning T (ofFn fun i (_ : Fin 1) => x i) (ofList cuts)).2 (argsort cuts) :=
  leaf_binning_order_generic T (isMat_ofFn _) (isVec_ofList cuts)

/-- non-vacuity: the hypotheses of `leaf_binning_isRows` are met by the arrays built from any column and any list -/
example (x : Fin 3 → ℝ) (cuts : List ℝ) :
    IsMat (ofFn fun i (_ : Fin 1) => x i) (fun i (_ : Fin 1) => x i) ∧ IsVec (ofList cuts) cuts :=
  ⟨isMat_ofFn _, isVec_ofList cuts⟩

/-! ### `_merge_leaf` -/

/-- `Douglas._merge_leaf(a, b)` as written in the source (`np.einsum("ij,ik->ijk", a, b)`, or the same product by broadcasting
    `a[:, :, np.newaxis] * b[:, np.newaxis, :]`, reshaped to `(-1, J·K)`), applied to two
    arrays given row by row (rows of `la` resp. `lb` entries, `la · lb ≠ 0`): without error the `(n, la · lb)` array whose row `i`
    is the model's `kron` of the two rows (entry `j · lb + k` is `a[i, j] · b[i, k]`). -/
theorem merge_leaf_isRows {n la lb : ℕ} {A B : Arr ℝ} {ra rb : Fin n → List ℝ} (hA : IsRows A ra la) (hB : IsRows B rb lb)
    (h0 : la * lb ≠ 0) : IsRows (Gen.Douglas.merge_leaf A B) (fun i => kron (ra i) (rb i)) (la * lb) := by
  obtain ⟨hAok, hAr, hAc, hAlen, hAget⟩ := hA
  obtain ⟨hBok, hBr, hBc, hBlen, hBget⟩ := hB
  unfold Gen.Douglas.merge_leaf
  dsimp only
  -- the 3-d product is spelled `np.einsum("ij,ik->ijk", a, b)` or, by broadcasting, `a[:, :, np.newaxis] * b[:, np.newaxis, :]`
  refine ⟨?_, ?_, ?_, fun i => by rw [kron_length, hAlen, hBlen], fun i p hp => ?_⟩
  · simp [Arr3.mul, hAok, hBok, hAr, hBr, hAc, hBc, h0]
  · simp [Arr3.mul, hAr, hBr]
  · simp [Arr3.mul, hAc, hBc]
  · have hlb : 0 < lb := Nat.pos_of_ne_zero fun h => h0 (by rw [h, Nat.mul_zero])
    have h1 : p / lb < la := Nat.div_lt_of_lt_mul (by rwa [Nat.mul_comm])
    have h2 : p % lb < lb := Nat.mod_lt _ hlb
    simp only [checked_get, Arr3.flattenTail_get, Arr3.einsumIjIk_get, Arr3.einsumIjIk_d2, Arr3.mul, Arr3.zipWith_get,
      Arr3.zipWith_d2, Arr3.expandLast_get, Arr3.expandMid_get, Arr3.expandLast_d0, Arr3.expandMid_d0, Arr3.expandLast_d1,
      Arr3.expandMid_d2, Arr3.expandLast_d2, bdim_one_left, hAr, hBr, hAc, hBc, bidx_val, bidx_of_lt h1, bidx_of_lt h2]
    rw [hAget i _ h1, hBget i _ h2, kron_getD_divmod _ _ (by rw [hAlen, hBlen]; exact hp), hBlen]

/-- An empty second factor (`lb = 0`): NumPy cannot infer the `-1` of the reshape and raises; the generated `_merge_leaf` carries
    an error (the model's `kron` would be the empty list: such binnings never occur, a binning has `len(cuts) + 1 ≥ 1` entries). -/
theorem merge_leaf_empty_raises {n la : ℕ} {A B : Arr ℝ} {ra rb : Fin n → List ℝ} (hA : IsRows A ra la) (hB : IsRows B rb 0) :
    (Gen.Douglas.merge_leaf A B).ok = false := by
  simp [Gen.Douglas.merge_leaf, Arr3.mul, hB.2.2.1]

/-! ### `_infer` and what it retains -/

/-- `Douglas._infer(X)` as written in the source (one `_leaf_binning` per entry of `self.cut_points_list_` on the column
    `X[:, f:f+1]`, `reduce(self._merge_leaf, …)`, `softmax(leaf @ self.leaf_scores_)`), applied to arrays holding the `n × d` data
    `X`, the `L × K` leaf scores `S` and the cut-point lists `cl` — a non-empty `cl` whose feature indices address the data and
    whose leaf count `∏ (len(cuts) + 1)` is `L` (exactly the inputs on which the model's `infer` returns, see
    `infer_accepts_iff` of Props/C15.lean): without error the `(n, K)` matrix of the model's `infer`, and
    `self._leaf` is the `(n, L)` matrix of the model's merged leaf memberships `leafRow`,
    `self._all_binnings` has one array per entry of `cl`, the `i`-th holding row by row the model's `binning` of slot `i`,
    `self._all_orders[i]` is the model's `argsort` of the cut points of slot `i`. -/
theorem infer_eq (T : ℝ) {n d L K : ℕ} {Xa SA : Arr ℝ} {X : Fin n → Fin d → ℝ} {S : Fin L → Fin K → ℝ}
    (hX : IsMat Xa X) (hS : IsMat SA S) {clA : List (ℕ × Arr ℝ)} {cl : List (ℕ × List ℝ)} (hcl : CplIs clA cl)
    (hne : cl ≠ []) (hin : ∀ z ∈ cl, z.1 < d) (hL : (radices cl).prod = L) :
    IsMat (Gen.Douglas.infer clA SA T Xa) (inferM T X cl S) ∧
    IsMat (Gen.Douglas.infer_retained_leaf clA SA T Xa) (leafM T X cl L) ∧
    ((Gen.Douglas.infer_retained_all_binnings clA SA T Xa).length = cl.length ∧
      ∀ i, i < cl.length → IsRows ((Gen.Douglas.infer_retained_all_binnings clA SA T Xa).getD i err)
        (fun r : Fin n => binning T (xget (X r) (feat cl i)) (cutsAt cl i)) ((cutsAt cl i).length + 1)) ∧
    (∀ i, i < cl.length →
      IsVecN ((Gen.Douglas.infer_retained_all_orders clA SA T Xa).getD i errN) (argsort (cutsAt cl i))) := by
  unfold Gen.Douglas.infer Gen.Douglas.infer_retained_leaf Gen.Douglas.infer_retained_all_binnings
    Gen.Douglas.infer_retained_all_orders
  dsimp only
  have hlb : LeafBinningSpec T (Gen.Douglas.leaf_binning T) := fun hX hc => leaf_binning_isRows T hX hc
  have hml : MergeLeafSpec Gen.Douglas.merge_leaf := fun hA hB h0 => merge_leaf_isRows hA hB h0
  have hres := binnings_results_spec hlb hX hcl hin
  have hleaf := leaf_spec hlb hml hX hcl hne hin hL
  generalize (clA.map fun a => Gen.Douglas.leaf_binning T (Arr.colSlice Xa a.1 (a.1 + 1)) a.2) = P at hres hleaf ⊢
  generalize reduce1 Gen.Douglas.merge_leaf (P.map fun x => x.1) = leafA at hleaf ⊢
  obtain ⟨hSok, hSr, hSc, hSget⟩ := hS
  have hleafM : IsMat leafA (leafM T X cl L) := hleaf.isMat
  obtain ⟨hlok, hlr, hlc, hlget⟩ := hleafM
  have hmm : (matmul leafA SA).ok = true := by simp [hlok, hSok, hlc, hSr]
  simp only [hlok, hmm, Bool.and_self]
  refine ⟨⟨?_, ?_, ?_, fun r k => ?_⟩, ⟨by simp [hlok], hlr, hlc, hlget⟩, ⟨?_, fun i hi => ?_⟩, fun i hi => ?_⟩
  · simp [hlok, hSok, hlc, hSr]
  · simp [hlr]
  · simp [hSc]
  · obtain ⟨leaf, hlf⟩ := leafRow_isSome T (X r) hne hin
    have hlen : leaf.length = L := by rw [leafRow_length hlf, ← hL]; rfl
    rw [inferM_eq T X cl S r hlf hlen]
    simp only [checked_get, softmax_get, matmul_c, matmul_get, hSc, hlc]
    rw [softmaxRowN_val (K := K) _ k]
    congr 1
    funext k'
    simp only [sumTo_def, sumFin_eq_sum, hlget, hSget]
  · rw [List.length_map, List.length_map]
    exact hres.length_eq
  · have h2 : List.Forall₂ (fun (B : Arr ℝ) (z : ℕ × List ℝ) =>
        IsRows B (fun r : Fin n => binning T (xget (X r) z.1) z.2) (z.2.length + 1))
        ((P.map fun x => x.1).map (checked true)) cl := by
      rw [List.forall₂_map_left_iff, List.forall₂_map_left_iff]
      exact hres.imp fun P z h => h.1.checked_true
    exact forall₂_getD h2 err (0, []) hi
  · have h2 : List.Forall₂ (fun (I : Arr ℕ) (z : ℕ × List ℝ) => IsVecN I (argsort z.2))
        ((P.map fun x => x.2).map (checkedN true)) cl := by
      rw [List.forall₂_map_left_iff, List.forall₂_map_left_iff]
      exact hres.imp fun P z h => isVecN_checkedN_true h.2
    exact forall₂_getD h2 errN (0, []) hi

/-- `_infer` on the arrays built from the model's inputs (`ofFn X`, `ofFn S`, `cplOf cl`): for every sample `r` the model's
    `infer` returns a row, and the generated `_infer` is without error the `(n, K)` matrix of these rows. -/
theorem infer_ofFn_eq (T : ℝ) {n d L K : ℕ} (X : Fin n → Fin d → ℝ) (S : Fin L → Fin K → ℝ) {cl : List (ℕ × List ℝ)}
    (hne : cl ≠ []) (hin : ∀ z ∈ cl, z.1 < d) (hL : (radices cl).prod = L) :
    (∀ r, ∃ row, infer T X cl S r = some row ∧ ∀ k : Fin K, row.getD k.val 0 = inferM T X cl S r k) ∧
    Eqv (Gen.Douglas.infer (cplOf cl) (ofFn S) T (ofFn X)) (ofFn (inferM T X cl S)) := by
  refine ⟨fun r => ?_, (infer_eq T (isMat_ofFn X) (isMat_ofFn S) (cplIs_cplOf cl) hne hin hL).1.eqv⟩
  obtain ⟨leaf, hlf⟩ := leafRow_isSome T (X r) hne hin
  have hlen : leaf.length = L := by rw [leafRow_length hlf, ← hL]; rfl
  refine ⟨softmaxRow (scoreRow leaf S), by simp [infer, inferRow, hlf, hlen], fun k => ?_⟩
  simp [inferM, infer, inferRow, hlf, hlen]

/-- An empty `cut_points_list_`: `reduce` of an empty sequence raises TypeError; the generated `_infer` carries an error, as the
    model's `infer` is `none`. -/
theorem infer_empty_raises (T : ℝ) (SA Xa : Arr ℝ) : (Gen.Douglas.infer [] SA T Xa).ok = false := by
  simp [Gen.Douglas.infer]

/-- A feature index of `cut_points_list_` outside the data (`X[:, f:f+1]` is then an empty slice and `X @ W` raises): the
    generated `_infer` carries an error, as the model's `infer` is `none` on every sample (`inRange` fails). -/
theorem infer_out_of_range_raises (T : ℝ) {n d : ℕ} {Xa SA : Arr ℝ} {X : Fin n → Fin d → ℝ} (hX : IsMat Xa X)
    {clA : List (ℕ × Arr ℝ)} {cl : List (ℕ × List ℝ)} (hcl : CplIs clA cl) (hbad : ∃ z ∈ cl, d ≤ z.1) :
    (Gen.Douglas.infer clA SA T Xa).ok = false := by
  have hmerge_l : ∀ A B : Arr ℝ, A.ok = false → (Gen.Douglas.merge_leaf A B).ok = false := fun A B h => by
    simp [Gen.Douglas.merge_leaf, Arr3.mul, h]
  have hmerge_r : ∀ A B : Arr ℝ, B.ok = false → (Gen.Douglas.merge_leaf A B).ok = false := fun A B h => by
    simp [Gen.Douglas.merge_leaf, Arr3.mul, h]
  -- the array of that feature exists in `clA`, with the same index
  obtain ⟨z, hz, hdz⟩ := hbad
  have hmem : ∃ a ∈ clA, d ≤ a.1 := by
    unfold CplIs at hcl
    induction hcl with
    | nil => exact absurd hz (by simp)
    | @cons a z' as zs haz _ ih =>
      rcases List.mem_cons.mp hz with rfl | hz'
      · exact ⟨a, List.mem_cons_self, by rw [haz.1]; exact hdz⟩
      · obtain ⟨a', ha', hd'⟩ := ih hz'
        exact ⟨a', List.mem_cons_of_mem _ ha', hd'⟩
  obtain ⟨a, ha, hda⟩ := hmem
  have hbin : (Gen.Douglas.leaf_binning T (Arr.colSlice Xa a.1 (a.1 + 1)) a.2).1.ok = false := by
    have hc0 := colSlice_c_of_le hX.2.2.1 hda
    generalize Arr.colSlice Xa a.1 (a.1 + 1) = Xs at hc0 ⊢
    simp [Gen.Douglas.leaf_binning, add, hc0]
  unfold Gen.Douglas.infer
  dsimp only
  have hP : ∃ p ∈ (clA.map fun z => Gen.Douglas.leaf_binning T (Arr.colSlice Xa z.1 (z.1 + 1)) z.2), p.1.ok = false :=
    ⟨_, List.mem_map.mpr ⟨a, ha, rfl⟩, hbin⟩
  generalize (clA.map fun z => Gen.Douglas.leaf_binning T (Arr.colSlice Xa z.1 (z.1 + 1)) z.2) = P at hP ⊢
  obtain ⟨p, hp, hpok⟩ := hP
  have hleaf : (reduce1 Gen.Douglas.merge_leaf (P.map fun x => x.1)).ok = false :=
    reduce1_ok_false hmerge_l hmerge_r ⟨p.1, List.mem_map.mpr ⟨p, hp, rfl⟩, hpok⟩
  simp only [hleaf, checked_ok, Bool.false_and, Bool.and_false]

/-- A `leaf_scores_` whose number of rows is not the number of leaves `∏ (len(cuts) + 1)`: `leaf @ self.leaf_scores_` raises; the
    generated `_infer` carries an error, as the model's `infer` is `none`. -/
theorem infer_wrong_leaf_count_raises (T : ℝ) {n d L K : ℕ} {Xa SA : Arr ℝ} {X : Fin n → Fin d → ℝ} {S : Fin L → Fin K → ℝ}
    (hX : IsMat Xa X) (hS : IsMat SA S) {clA : List (ℕ × Arr ℝ)} {cl : List (ℕ × List ℝ)} (hcl : CplIs clA cl)
    (hne : cl ≠ []) (hin : ∀ z ∈ cl, z.1 < d) (hL : (radices cl).prod ≠ L) :
    (Gen.Douglas.infer clA SA T Xa).ok = false := by
  have hlb : LeafBinningSpec T (Gen.Douglas.leaf_binning T) := fun hX hc => leaf_binning_isRows T hX hc
  have hml : MergeLeafSpec Gen.Douglas.merge_leaf := fun hA hB h0 => merge_leaf_isRows hA hB h0
  have hleaf := leaf_spec hlb hml hX hcl hne hin rfl
  unfold Gen.Douglas.infer
  dsimp only
  generalize reduce1 Gen.Douglas.merge_leaf
    ((clA.map fun z => Gen.Douglas.leaf_binning T (Arr.colSlice Xa z.1 (z.1 + 1)) z.2).map fun x => x.1) = leafA at hleaf ⊢
  have hc := hleaf.2.2.1
  have hr := hS.2.1
  simp [hc, hr, hL]

/-! ### `_compute_grads` -/

/-- Meaning of `UpdatesAre L K U G`: the list of arrays `U` and the list of lists `G` have the same length ≥ 1, the first array
    is without error the `(L, K)` matrix stored row-major in the first list, every other array is without error the 1-D array
    of the entries of the corresponding list. -/
theorem updatesAre_spelled_out (L K : ℕ) (u : Arr ℝ) (us : List (Arr ℝ)) (g : List ℝ) (gs : List (List ℝ)) :
    UpdatesAre L K (u :: us) (g :: gs) ↔
      IsMat u (fun (l : Fin L) (k : Fin K) => g.getD (l.val * K + k.val) 0) ∧ List.Forall₂ IsVec us gs :=
  Iff.rfl

/-- `Douglas._compute_grads(X, y_pred, gradient)` as written in the source (soft-max back-propagation, `binning_backprop` and
    `leaf_score_backprop`, the N-d reshape / `*=` / `sum(axes_for_sum)` marginalisation, `bin_grad`, `bias_grad = bin_grad.sum(0)[1:]`,
    the reversed cumulative sum, the sort undone by `cumsum_grad[np.argsort(self._all_orders[i])]` or by a scatter through
    `self._all_orders[i]` into `np.empty_like` memory (see SPELLINGS above), the negations), applied to ANY retained
    state that holds the model's leaf memberships, binnings and orders and to arrays holding `cl`, `S`, `y_pred`, `gradient`
    (`X` itself is not read): the returned list is, without error, the model's update list in closed form — first
    `-leaf_score_backprop` (`lsbSpec`, row-major `L × K`), then one `-cut_grad` per entry of `cut_points_list_` (`cutGradSpec`), which
    is what the model's `computeGrads` returns (`computeGrads_some` of Lemmas/DouglasGrad.lean).  All sizes, `n = 0` and empty cut
    vectors included. -/
theorem compute_grads_closed_form {n d L K : ℕ} (T : ℝ) (X : Fin n → Fin d → ℝ) (cl : List (ℕ × List ℝ)) (S : Fin L → Fin K → ℝ)
    (yPred grad : Fin n → Fin K → ℝ) (hL : (radices cl).prod = L)
    {Bs : List (Arr ℝ)} {Os : List (Arr ℕ)} {leafA SA Xa yA gA : Arr ℝ} {clA : List (ℕ × Arr ℝ)}
    (hcl : CplIs clA cl) (hleaf : IsMat leafA (leafM T X cl L)) (hBlen : Bs.length = cl.length)
    (hB : ∀ i, i < cl.length → IsRows (Bs.getD i err)
            (fun r : Fin n => binning T (xget (X r) (feat cl i)) (cutsAt cl i)) ((cutsAt cl i).length + 1))
    (hO : ∀ i, i < cl.length → IsVecN (Os.getD i errN) (argsort (cutsAt cl i)))
    (hS : IsMat SA S) (hy : IsMat yA yPred) (hg : IsMat gA grad) :
    UpdatesAre L K (Gen.Douglas.compute_grads Bs Os leafA clA SA T Xa yA gA)
      (lsbSpec T X cl L yPred grad :: cl.zipIdx.map (cutGradSpec T X cl (bbM T X cl S yPred grad))) := by
  have hLpos : L ≠ 0 := by rw [← hL]; exact radices_prod_ne_zero cl
  have hlen : clA.length = cl.length := hcl.length_eq
  have hypg := Arr.isMat_y_pred_grad hy hg
  have hbb0 := hypg.matmul hS.transpose
  have hlsb := hleaf.transpose.matmul hypg
  have hbb1 := isArrN_reshapeOf hbb0 hL hLpos
  have hP : IsArrN _ _ (bbM T X cl S yPred grad) := hbb1.mul (isArrN_reshapeOf hleaf hL hLpos)
  unfold Gen.Douglas.compute_grads
  dsimp only
  rw [axes_eq_radices hcl]
  generalize Arr.mul yA (Arr.sub gA (Arr.sumAxis1 (Arr.mul yA gA))) = ypg at hypg hbb0 hlsb hbb1 hP ⊢
  generalize Arr.matmul ypg (Arr.transpose SA) = bb0 at hbb0 hbb1 hP ⊢
  generalize Arr.matmul (Arr.transpose leafA) ypg = lsb at hlsb ⊢
  generalize ArrN.reshapeOf bb0 (radices cl) = bb1 at hbb1 hP ⊢
  generalize ArrN.mul bb1 (ArrN.reshapeOf leafA (radices cl)) = P at hP ⊢
  -- the loop, read semantically: whatever temporaries a round binds, it raises nothing and appends `-cut_grad`, where `cut_grad`
  -- is `cumsum_grad` with the sort undone in one of three spellings: gathered through `np.argsort(order)` (`loopCut`), scattered
  -- through `order` into `np.empty_like(cumsum_grad)` (`loopCutS`), gathered through ranks built by scatter (`loopCutR`)
  first
    | rw [foldl_updates_true _ (fun zi => Arr.neg (loopCut P Bs Os T zi.2)) clA.zipIdx _ (fun st zi => rfl)]
    | rw [foldl_updates_true _ (fun zi => Arr.neg (loopCutS P Bs Os T zi.2)) clA.zipIdx _ (fun st zi => rfl)]
    | rw [foldl_updates_true _ (fun zi => Arr.neg (loopCutR P Bs Os T zi.2)) clA.zipIdx _ (fun st zi => rfl)]
  · dsimp only
    simp only [hypg.1, hbb0.1, hlsb.1, hbb1.1, hP.1, Bool.and_self, List.map_append, List.map_cons, List.map_nil,
      List.singleton_append, List.map_map]
    refine ⟨?_, ?_⟩
    · obtain ⟨h1, h2, h3, h4⟩ := hlsb.neg.checked_true
      exact ⟨h1, h2, h3, fun l k => by rw [h4]; exact (lsbSpec_getD T X cl L yPred grad l k).symm⟩
    · rw [List.forall₂_iff_get]
      refine ⟨by simp [hlen], fun i h1 h2 => ?_⟩
      have hi : i < cl.length := by simpa using h2
      simp only [List.get_eq_getElem, List.getElem_map, List.getElem_zipIdx, Function.comp, Nat.zero_add]
      first
        | exact (loop_round_spec T X cl _ hP hi (hB i hi) (hO i hi)).2.checked_true
        | exact (loop_round_spec_scatter T X cl _ hP hi (hB i hi) (hO i hi)).2.checked_true
        | exact (loop_round_spec_ranks T X cl _ hP hi (hB i hi) (hO i hi)).2.checked_true
  · rintro st ⟨a, i⟩ hzi hst
    have hi : i < cl.length := by rw [← hlen]; exact (List.mem_zipIdx' hzi).1
    have hok := (loop_round_spec T X cl _ hP hi (hB i hi) (hO i hi)).1
    simp only [loopOk, loopCut, loopCs, loopBias, loopBg1, loopBg, loopWg, Bool.and_eq_true] at hok
    obtain ⟨⟨⟨⟨⟨h1, h2⟩, h3⟩, h4⟩, h5⟩, h6⟩ := hok
    -- the arrays only the scatter spellings bind
    obtain ⟨hS1, hS2⟩ := (loop_round_spec_scatter T X cl _ hP hi (hB i hi) (hO i hi)).1
    obtain ⟨⟨hR1, hR2⟩, hR3⟩ := (loop_round_spec_ranks T X cl _ hP hi (hB i hi) (hO i hi)).1
    simp only [loopCutS, loopCutR, loopRanks, loopCs, loopBias, loopBg1, loopBg, loopWg] at hS1 hS2 hR1 hR2 hR3
    have hOi := hO i hi
    have h7 : (nthN Os i).ok = true := hOi.1
    have h8 : (nthN Os i).r = 1 := hOi.2.1
    dsimp only
    simp only [hst, h1, h2, h3, h4, h5, h6, h7, h8, hS1, hS2, hR1, hR2, hR3, sumAxis1_ok, argsortN_ok, Bool.and_self,
      beq_self_eq_true]

/-- `_infer(X)` followed by `_compute_grads(X, y_pred, gradient)` as `fit` calls them, both as written in the source, on the
    arrays built from the model's inputs (non-empty `cl`, feature indices inside the data, `L` leaves): the model's
    `computeGrads` returns a list `G`, and the generated `_compute_grads`, reading what the generated `_infer` retained, returns
    without error exactly `G` (`-leaf_score_backprop` as the `(L, K)` matrix, then the `-cut_grad` vectors). -/
theorem compute_grads_eq {n d L K : ℕ} (T : ℝ) (X : Fin n → Fin d → ℝ) {cl : List (ℕ × List ℝ)} (S : Fin L → Fin K → ℝ)
    (yPred grad : Fin n → Fin K → ℝ) (hne : cl ≠ []) (hin : ∀ z ∈ cl, z.1 < d) (hL : (radices cl).prod = L) (Xa' : Arr ℝ) :
    ∃ G, computeGrads T X cl S yPred grad = some G ∧
      UpdatesAre L K
        (Gen.Douglas.compute_grads (Gen.Douglas.infer_retained_all_binnings (cplOf cl) (ofFn S) T (ofFn X))
          (Gen.Douglas.infer_retained_all_orders (cplOf cl) (ofFn S) T (ofFn X))
          (Gen.Douglas.infer_retained_leaf (cplOf cl) (ofFn S) T (ofFn X)) (cplOf cl) (ofFn S) T Xa' (ofFn yPred) (ofFn grad)) G := by
  obtain ⟨G, hG⟩ := computeGrads_isSome T X hne hin hL.symm S yPred grad
  obtain ⟨-, hleaf, ⟨hBlen, hB⟩, hO⟩ := infer_eq T (isMat_ofFn X) (isMat_ofFn S) (cplIs_cplOf cl) hne hin hL
  refine ⟨G, hG, ?_⟩
  rw [(computeGrads_some T X cl S yPred grad hG).2]
  exact compute_grads_closed_form T X cl S yPred grad hL (cplIs_cplOf cl) hleaf hBlen hB hO (isMat_ofFn S) (isMat_ofFn yPred)
    (isMat_ofFn grad)

/-- non-vacuity of the hypotheses of `infer_eq` / `compute_grads_eq`: one feature, one cut point, two leaves -/
example : ([(0, [(0 : ℝ)])] : List (ℕ × List ℝ)) ≠ [] ∧ (∀ z ∈ ([(0, [(0 : ℝ)])] : List (ℕ × List ℝ)), z.1 < 1) ∧
    (radices ([(0, [(0 : ℝ)])] : List (ℕ × List ℝ))).prod = 2 := by
  refine ⟨by simp, by simp, by simp [radices]⟩

end GemVerif.Props.C15Gen
