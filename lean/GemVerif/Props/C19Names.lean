/-
  C19 (companion) — `print_kauri_tree` validates `feature_names` before it prints anything, and with accepted names
  the printed tree is as faithful as with the default labels.

  `Model.Kauri.validateNames` / `printNodeNamed` / `printKauriTree` (Model/KauriNames.lean) are the line-by-line model of
  the validation block (fix 781feb7), of `print_node` with the PARTIAL lookup `feature_names[feature]` (Python indexing:
  a position past the end raises) and of the whole call; the harness compares, on generated (tree, names) pairs, the
  model's outcome (accepted / which exception / text that reached stdout) with the real function.  Here:

  * `validate_none`, `validate_accepts_iff`, `validate_accepts_covers`, `validate_rejects_notOneDim`,
    `validate_rejects_tooFew`, `validate_outcomes`: the validation accepts a name list iff it is one-dimensional and long
    enough for the feature of every internal node (`Covers`); which exception otherwise;
  * `leavesNoFeature_init`, `leavesNoFeature_addChild`: the extra hypothesis of the `iff` (a leaf has `features[n] = None`)
    holds for every tree `fit` builds;
  * `lookups_in_range`: when it accepts, every `feature_names[feature]` the printer evaluates is in range;
  * `accepted_prints_named`, `none_prints_default`: then the call raises nothing and prints `Tree.printNode` with
    `name f = feature_names[f]` (resp. the default labels) — the printer of Props/C19.lean;
  * `rejected_prints_nothing`, `raises_iff_rejected`: when it rejects, the exception comes before any output; and on a
    well-formed tree a rejection is the only way the call can raise;
  * `named_lines_relabel`: the lines printed with names are the lines printed without, every label `X[:, f]` replaced by
    `feature_names[f]`;
  * `named_print_parse_eval`, `named_print_parse_eval_text`: C19's print → read back → evaluate = `predict`, for the
    call with accepted, pairwise distinct names.
-/
import GemVerif.Lemmas.KauriNames
import GemVerif.Props.C19

namespace GemVerif.Props.C19Names
open GemVerif RealLike Model.Kauri KauriC19 KauriNames

variable {α : Type} [RealLike α]
set_option linter.unusedSectionVars false

/-- `feature_names=None` passes the validation, whatever the tree. -/
theorem validate_none (t : Tree α) : validateNames t none = .ok () := rfl

/-- **Accept iff long enough.**  For every tree `fit` can build (well formed, leaves without feature) and every
    `feature_names` that is not `None`: the validation accepts iff the argument is one-dimensional and its length
    exceeds the feature index of every internal node (`Covers`: `0 ≤ f` and `f < len(feature_names)`). -/
theorem validate_accepts_iff {t : Tree α} (ht : WellFormed t) (hl : LeavesNoFeature t) (a : NamesArg) :
    validateNames t (some a) = .ok () ↔ a.ndim = 1 ∧ Covers t a.items.size :=
  ⟨fun h => ⟨((validate_ok_iff t a).mp h).1, covers_of_ok ht h⟩, fun h => ok_of_covers ht hl h.1 h.2⟩

/-- The safety direction needs no assumption on the leaves: whatever is accepted is one-dimensional and covers every
    internal node of a well-formed tree. -/
theorem validate_accepts_covers {t : Tree α} (ht : WellFormed t) {a : NamesArg}
    (h : validateNames t (some a) = .ok ()) : a.ndim = 1 ∧ Covers t a.items.size :=
  ⟨((validate_ok_iff t a).mp h).1, covers_of_ok ht h⟩

/-- The first `raise` (`"must be a one-dimensional array-like"`) is reached iff `np.ndim(feature_names) != 1`,
    whatever the tree and the entries. -/
theorem validate_rejects_notOneDim (t : Tree α) (a : NamesArg) :
    validateNames t (some a) = .error .notOneDim ↔ a.ndim ≠ 1 :=
  validate_notOneDim_iff t a

/-- The second `raise` (`"Fewer feature names than used features"`) is reached iff the argument is one-dimensional
    and some internal node's feature index is not a position of it. -/
theorem validate_rejects_tooFew {t : Tree α} (ht : WellFormed t) (hl : LeavesNoFeature t) (a : NamesArg) :
    validateNames t (some a) = .error .tooFew ↔ a.ndim = 1 ∧ ¬ Covers t a.items.size := by
  constructor
  · intro h
    have hd := ((validate_tooFew_iff t a).mp h).1
    refine ⟨hd, fun hc => ?_⟩
    have := ok_of_covers ht hl hd hc
    rw [h] at this
    exact absurd this (by simp)
  · rintro ⟨hd, hnc⟩
    rcases validate_cases t (some a) with h | h | h
    · exact absurd (covers_of_ok ht h) hnc
    · exact absurd hd ((validate_notOneDim_iff t a).mp h)
    · exact h

/-- The validation ends in one of three ways: accepted, or one of its two `ValueError`s (never anything else). -/
theorem validate_outcomes (t : Tree α) (names : Option NamesArg) :
    validateNames t names = .ok () ∨ validateNames t names = .error .notOneDim ∨
      validateNames t names = .error .tooFew :=
  validate_cases t names

/-- In the tree `fit` starts from, the only node is a leaf without feature. -/
theorem leavesNoFeature_init : LeavesNoFeature (Tree.init : Tree α) := KauriNames.leavesNoFeature_init

/-- `Tree._add_child` keeps "every leaf has `features[n] = None`": with `C19.wellFormed_init/_addChild` every tree
    `Kauri.fit` builds satisfies the hypotheses of `validate_accepts_iff`. -/
theorem leavesNoFeature_addChild {t : Tree α} (ht : WellFormed t) (hl : LeavesNoFeature t) {father : Nat}
    (s : Split α) : LeavesNoFeature (t.addChild father s) :=
  KauriNames.leavesNoFeature_addChild ht hl s

/-- **No lookup out of range.**  When the validation accepts, the `feature_names[feature]` evaluated at any internal
    node of a well-formed tree is a plain in-range access: `0 ≤ feature < len(feature_names)`, and it yields that
    entry (no IndexError, no wrap-around from a negative index). -/
theorem lookups_in_range {t : Tree α} (ht : WellFormed t) {a : NamesArg} (h : validateNames t (some a) = .ok ())
    (n : Nat) (hn : n < t.nNodes) (hleaf : t.left[n]! ≠ -1) :
    0 ≤ featAt t n ∧ (featAt t n).toNat < a.items.size ∧
      nameAt (some a) (t.feat[n]!) = some a.items[(featAt t n).toNat]! := by
  have hc := covers_of_ok ht h n hn hleaf
  obtain ⟨h0, _, hfe⟩ := featAt_mem_used ht hn hleaf
  exact ⟨hc.1, hc.2, by rw [hfe]; exact pyIndex_of_lt _ h0 hc.2⟩

/-- **Accepted names: the call prints the named tree and raises nothing.**  The text is `Tree.printNode` — the printer
    of Props/C19.lean — with `name f = feature_names[f]`. -/
theorem accepted_prints_named {t : Tree α} (ht : WellFormed t) (sh : α → String) {a : NamesArg}
    (h : validateNames t (some a) = .ok ()) (fuel : Nat) (hfuel : t.nNodes ≤ fuel) :
    printKauriTree t sh (some a) fuel = ⟨t.printNode sh (fun f => a.items[f.toNat]!) fuel 0, none⟩ := by
  simp only [printKauriTree, h]
  exact printNodeNamed_eq ht sh (covers_of_ok ht h) fuel 0 ht.pos (by omega)

/-- `feature_names=None`: the call prints the tree with the default labels `X[:, f]` and raises nothing. -/
theorem none_prints_default {t : Tree α} (ht : WellFormed t) (sh : α → String) (fuel : Nat)
    (hfuel : t.nNodes ≤ fuel) :
    printKauriTree t sh none fuel = ⟨t.printNode sh (fun f => s!"X[:, {f}]") fuel 0, none⟩ := by
  simp only [printKauriTree, validateNames]
  exact printNodeNamed_none_eq ht sh fuel 0 ht.pos (by omega)

/-- **Rejected names: nothing is printed.**  The call ends with the validation's exception and an empty stdout, for
    any tree whatsoever. -/
theorem rejected_prints_nothing (t : Tree α) (sh : α → String) (names : Option NamesArg) (fuel : Nat)
    {e : PrintError} (h : validateNames t names = .error e) :
    printKauriTree t sh names fuel = ⟨[], some e⟩ := by
  simp only [printKauriTree, h]

/-- On a well-formed tree the call raises iff the validation rejects: there is no exception half-way through the
    text (in particular no IndexError from `feature_names[feature]`). -/
theorem raises_iff_rejected {t : Tree α} (ht : WellFormed t) (sh : α → String) (names : Option NamesArg) (fuel : Nat)
    (hfuel : t.nNodes ≤ fuel) :
    (printKauriTree t sh names fuel).error ≠ none ↔ validateNames t names ≠ .ok () := by
  cases names with
  | none => simp [none_prints_default ht sh fuel hfuel, validateNames]
  | some a =>
    rcases validate_cases t (some a) with h | h | h
    · simp [accepted_prints_named ht sh h fuel hfuel, h]
    · simp [rejected_prints_nothing t sh (some a) fuel h, h]
    · simp [rejected_prints_nothing t sh (some a) fuel h, h]

/-- Whenever the call raises on a well-formed tree, stdout is empty. -/
theorem raises_prints_nothing {t : Tree α} (ht : WellFormed t) (sh : α → String) (names : Option NamesArg)
    (fuel : Nat) (hfuel : t.nNodes ≤ fuel) (h : (printKauriTree t sh names fuel).error ≠ none) :
    (printKauriTree t sh names fuel).printed = [] := by
  have hv := (raises_iff_rejected ht sh names fuel hfuel).mp h
  rcases validate_cases t names with h' | h' | h'
  · exact absurd h' hv
  · rw [rejected_prints_nothing t sh names fuel h']
  · rw [rejected_prints_nothing t sh names fuel h']

/-- **Named text = default text, relabelled.**  The structured lines printed with accepted names are the lines printed
    with the default labels in which the label `X[:, f]` of every rule line is replaced by `feature_names[f]`
    (`colOfTree` reads `X[:, f]` back to `f`). -/
theorem named_lines_relabel {t : Tree α} (ht : WellFormed t) (sh : α → String) {a : NamesArg}
    (_h : validateNames t (some a) = .ok ()) (fuel : Nat) :
    printLines t sh (fun f => a.items[f.toNat]!) fuel 0 =
      (printLines t sh (fun f => s!"X[:, {f}]") fuel 0).map
        (Line.mapName fun s => a.items[colOfTree t (fun f => s!"X[:, {f}]") s]!) := by
  refine printLines_mapName ht sh _ _ _ ?_ fuel 0 ht.pos
  intro n hn hleaf
  rw [colOfTree_name (C19.default_names_distinct t) hn hleaf]

/-- **C19 for the call with names.**  For every well-formed tree, every accepted `feature_names` without repeated
    entry and every point `x`: the call raises nothing, and reading its output back and applying the rules to `x` gives
    the cluster `predict` assigns to `x`.  (Trusted, as in C19: different thresholds print differently and without
    blank — Python's `repr(float)`.) -/
theorem named_print_parse_eval {t : Tree α} (ht : WellFormed t) {sh : α → String} {a : NamesArg}
    (h : validateNames t (some a) = .ok ()) (hnd : a.items.toList.Nodup)
    (hth : ThrDistinct t sh) (hnb : ThrNoBlank t sh) (x : Nat → α) (fuel : Nat) (hfuel : t.nNodes ≤ fuel) :
    (printKauriTree t sh (some a) fuel).error = none ∧
    (parseText (printKauriTree t sh (some a) fuel).printed).map
        (evalRules (colOfTree t fun f => a.items[f.toNat]!) (readThrTree t sh) x) = some (t.route x fuel 0) := by
  rw [accepted_prints_named ht sh h fuel hfuel]
  exact ⟨rfl, C19.print_parse_eval_distinct ht (C19.user_names_distinct t a.items hnd (covers_of_ok ht h)) hth hnb x
    fuel hfuel⟩

/-- The same on the output as ONE string (every line followed by a newline), when no name and no printed threshold
    contains a newline. -/
theorem named_print_parse_eval_text {t : Tree α} (ht : WellFormed t) {sh : α → String} {a : NamesArg}
    (h : validateNames t (some a) = .ok ()) (hnd : a.items.toList.Nodup)
    (hth : ThrDistinct t sh) (hnb : ThrNoBlank t sh) (hnl : NoNewline t sh fun f => a.items[f.toNat]!)
    (x : Nat → α) (fuel : Nat) (hfuel : t.nNodes ≤ fuel) :
    (parseString (textOf (printKauriTree t sh (some a) fuel).printed)).map
        (evalRules (colOfTree t fun f => a.items[f.toNat]!) (readThrTree t sh) x) = some (t.route x fuel 0) := by
  rw [accepted_prints_named ht sh h fuel hfuel]
  exact C19.print_parse_eval_text ht
    (C19.readBack_distinct (C19.user_names_distinct t a.items hnd (covers_of_ok ht h)) hth) hnb hnl x fuel hfuel

/-! ### the hypotheses are satisfiable, and both verdicts occur: the 3-node tree `KauriC19.Example.tree`
    (root: feature 2 ≤ 1/2; leaves → clusters 0 and 1) -/

section Example
open KauriC19.Example KauriNames.Example

/-- the example tree is one `fit` can build: leaves carry no feature -/
example : LeavesNoFeature tree :=
  KauriNames.leavesNoFeature_addChild KauriC19.wellFormed_init KauriNames.leavesNoFeature_init _

/-- three names are accepted (the tree uses feature 2), and the call prints the named tree -/
example : printKauriTree tree sh (some ⟨1, #["a", "b", "c"]⟩) 3 =
    ⟨["Node 0", "|=c <= 0.5", "| Node 1", "|  Cluster: 0", "|=c > 0.5", "| Node 2", "|  Cluster: 1"], none⟩ := by
  simp [printKauriTree, ok_abc, Tree.printNodeNamed, left_eq, right_eq, depths_eq, target_eq, thr_eq, feat_eq,
    nameAt, pyIndex, sh]
  decide

/-- two names are rejected before anything is printed: `len(feature_names) = 2 <= 2 = max(used)` -/
example : printKauriTree tree sh (some ⟨1, #["a", "b"]⟩) 3 = ⟨[], some .tooFew⟩ := by
  simp [printKauriTree, validateNames, usedFeatures, feat_eq, pyMax]

/-- a two-dimensional argument is rejected whatever it contains -/
example : printKauriTree tree sh (some ⟨2, #["a", "b", "c"]⟩) 3 = ⟨[], some .notOneDim⟩ := by
  simp [printKauriTree, validateNames]

/-- what the validation prevents: WITHOUT it, the printer given two names prints the first line and then raises -/
example : tree.printNodeNamed sh (some ⟨1, #["a", "b"]⟩) 3 0 = ⟨["Node 0"], some .lookup⟩ := by
  simp [Tree.printNodeNamed, left_eq, depths_eq, feat_eq, nameAt, pyIndex]
  decide

/-- `named_print_parse_eval` on this tree with the names `a, b, c`: the output, read back, sends `x` to cluster 0
    when `x₂ ≤ 1/2` and to cluster 1 otherwise -/
example (x : Nat → Rat) :
    (parseText (printKauriTree tree sh (some ⟨1, #["a", "b", "c"]⟩) 3).printed).map
        (evalRules (colOfTree tree fun f => (#["a", "b", "c"] : Array String)[f.toNat]!) (readThrTree tree sh) x)
      = some (if x 2 ≤ 1/2 then 0 else 1) := by
  rw [(named_print_parse_eval wf (a := ⟨1, #["a", "b", "c"]⟩) ok_abc (by decide) thrDistinct noBlank x 3
    (Nat.le_refl 3)).2]
  simp [Tree.route, tree, Tree.addChild, Tree.init, RealLike.le]

end Example

end GemVerif.Props.C19Names
