/-
  C08 — KAURI gains are real objective increases.
  (G1) every regenerated gain formula of `compute_all_splits` equals the change of the
  kernel-KMeans objective J = Σ_k σ(C_k²)/|C_k| caused by the corresponding reassignment,
  over ℝ, for all stocks and sizes (no positivity of the kernel is assumed).
-/
import GemVerif.NumReal
import GemVerif.Gen.KauriGains
import Mathlib.Tactic.FieldSimp
import Mathlib.Tactic.Ring
import Mathlib.Tactic.Linarith

namespace GemVerif.Props.C08
open GemVerif Gen.Kauri

/-
  Notation (symmetric kernel): for a leaf N = S_L ⊎ S_R inside cluster C_k,
    sl = σ(S_L²), sr = σ(S_R²), lf = σ(N²) = sl + sr + 2σ(S_L×S_R),
    g = σ(C_k²), c = |C_k|, n = |N|, s = |S_L|,  slk = σ(S_L×C_k), srk = σ(S_R×C_k),
    gp = σ(C_p²), cp = |C_p|, slp = σ(S_L×C_p), srp = σ(S_R×C_p) for another cluster p.
  Removing a set S from C_k turns σ(C_k²) into g - 2σ(S×C_k) + σ(S²); adding S to C_p turns σ(C_p²)
  into gp + 2σ(S×C_p) + σ(S²).
-/

variable (sl sr lf n s c cp g gp slk srk slp srp w : ℝ)

/-- single star, left part becomes a new cluster: ΔJ = sl/s + (g - 2slk + sl)/(c-s) - g/c -/
theorem leftStar_eq_dJ (hs : s ≠ 0) (hc : c ≠ 0) (hcs : c - s ≠ 0) :
    leftStar sl sr lf n s c cp g gp slk srk slp srp w = sl / s + (g - 2 * slk + sl) / (c - s) - g / c := by
  simp only [leftStar, RealLike.nat_real]
  field_simp
  ring

/-- single star, right part becomes a new cluster -/
theorem rightStar_eq_dJ (hr : n - s ≠ 0) (hc : c ≠ 0) (hcr : c - (n - s) ≠ 0) :
    rightStar sl sr lf n s c cp g gp slk srk slp srp w
      = sr / (n - s) + (g - 2 * srk + sr) / (c - (n - s)) - g / c := by
  simp only [rightStar, RealLike.nat_real]
  field_simp
  ring

/-- switch, left part moves to the existing cluster p -/
theorem leftSwitch_eq_dJ (hc : c ≠ 0) (hcs : c - s ≠ 0) (hp : cp ≠ 0) (hps : cp + s ≠ 0) :
    leftSwitch sl sr lf n s c cp g gp slk srk slp srp w
      = (g - 2 * slk + sl) / (c - s) - g / c + ((gp + 2 * slp + sl) / (cp + s) - gp / cp) := by
  simp only [leftSwitch, RealLike.nat_real]
  field_simp
  ring

/-- switch, right part moves to the existing cluster p -/
theorem rightSwitch_eq_dJ (hc : c ≠ 0) (hcs : c - (n - s) ≠ 0) (hp : cp ≠ 0) (hps : cp + (n - s) ≠ 0) :
    rightSwitch sl sr lf n s c cp g gp slk srk slp srp w
      = (g - 2 * srk + sr) / (c - (n - s)) - g / c + ((gp + 2 * srp + sr) / (cp + (n - s)) - gp / cp) := by
  simp only [rightSwitch, RealLike.nat_real]
  field_simp
  ring

/-- double star: S_L and S_R become two new clusters and C_k loses the whole leaf N:
    ΔJ = sl/s + sr/(n-s) + (g - 2σ(N×C_k) + lf)/(c-n) - g/c with σ(N×C_k) = slk + srk. -/
theorem doubleStar_eq_dJ (hs : s ≠ 0) (hr : n - s ≠ 0) (hn : n ≠ 0) (hc : c ≠ 0) (hcn : c - n ≠ 0) :
    doubleStar sl sr lf n s c cp g gp slk srk slp srp w
      = sl / s + sr / (n - s) + (g - 2 * (slk + srk) + lf) / (c - n) - g / c := by
  simp only [doubleStar, RealLike.nat_real]
  field_simp
  ring

/-- reallocation: S_L joins cluster l, S_R joins cluster r (l ≠ r, both ≠ k), C_k loses N.  The code reports
    `left_switch(l) + right_switch(r) + corrective_term`. -/
theorem realloc_eq_dJ (gl cl sll gr cr srr x1 x2 x3 x4 : ℝ)
    (hc : c ≠ 0) (hcs : c - s ≠ 0) (hcr : c - (n - s) ≠ 0) (hcn : c - n ≠ 0)
    (hl : cl ≠ 0) (hls : cl + s ≠ 0) (hr : cr ≠ 0) (hrs : cr + (n - s) ≠ 0) :
    leftSwitch sl sr lf n s c cl g gl slk srk sll x1 w + rightSwitch sl sr lf n s c cr g gr slk srk x2 srr w
        + corrective sl sr lf n s c x3 g x4 slk srk slp srp w
      = ((gl + 2 * sll + sl) / (cl + s) - gl / cl) + ((gr + 2 * srr + sr) / (cr + (n - s)) - gr / cr)
        + ((g - 2 * (slk + srk) + lf) / (c - n) - g / c) := by
  have hcns : c - n + s ≠ 0 := by intro h; apply hcr; linarith
  simp only [leftSwitch, rightSwitch, corrective, RealLike.nat_real]
  field_simp
  ring

end GemVerif.Props.C08
