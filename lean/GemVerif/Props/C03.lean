/-
  C03 — every training update follows the true gradient.  (Theorems are added by the proof work in
  progress; see Lemmas/NetsC03.lean.)
-/
import GemVerif.Model.Nets

namespace GemVerif.Props.C03
open GemVerif Model.Nets

/-- The categorical model's direction is minus the soft-max pull-back of the GEMINI gradient. -/
theorem categoricalGrad_eq {α : Type} [RealLike α] {n K : Nat} (y g : Fin n → Fin K → α) (i : Fin n) (k : Fin K) :
    categoricalGrad y g i k = -(tauHat y g i k) := rfl

end GemVerif.Props.C03
