/-
  C03 — every training update follows the true gradient.

  Reading.  `g` is ANY matrix (in the training loop: the GEMINI gradient w.r.t. the predictions at
  `y = infer θ X`, which Props/C02 proves is the derivative of the GEMINI).  By the chain rule the claim
  "the direction handed to the optimiser is minus the gradient of GEMINI∘infer (minus the documented
  penalty) w.r.t. every parameter" is: for every parameter the derivative of
  `t ↦ ∑ i, ∑ k, g i k * infer(θ perturbed by t) i k  (- penalty)` at `0` is `-(direction)`.
  This is proved here
   * along EVERY direction of the whole parameter tuple at once (`…_direction`: parameters `θ + t·E`,
     derivative `∑ -(grad θ) * E`), and
   * entry by entry (`…_entry`: `bump2 W a c t` / `bump1 b c t` move one entry by `t`, see Lemmas/NetsC03.lean),
  for all sizes, all real parameter values (nothing is assumed about closeness to the initialisation) and all `g`.
  The only hypotheses are: `κ` symmetric (KernelRIM) and, for the first-layer parameters of the MLPs, that no
  pre-activation is exactly 0 (`max(·,0)` has no derivative there).
  Helper lemmas (stated along arbitrary differentiable parameter curves): Lemmas/NetsC03.lean.
-/
import GemVerif.Lemmas.NetsC03

namespace GemVerif.Props.C03
open scoped BigOperators
open GemVerif Model.Nets

variable {n m d h K : ℕ}

/-- The categorical model's direction is minus the soft-max pull-back of the GEMINI gradient. -/
theorem categoricalGrad_eq {α : Type} [RealLike α] {n K : Nat} (y g : Fin n → Fin K → α) (i : Fin n) (k : Fin K) :
    categoricalGrad y g i k = -(tauHat y g i k) := rfl

/-! ### soft-max -/

/-- Over ℝ the row-max subtraction of `sklearn.utils.extmath.softmax` cancels: the model's `softmaxRow` is the
    textbook soft-max. -/
theorem softmaxRow_closed_form (z : Fin K → ℝ) (k : Fin K) :
    softmaxRow z k = Real.exp (z k) / ∑ c, Real.exp (z c) :=
  softmaxRow_eq z k

/-- Every soft-max entry is positive. -/
theorem softmaxRow_positive (z : Fin K → ℝ) (k : Fin K) : 0 < softmaxRow z k :=
  softmaxRow_pos z k

/-- Every (non-empty) soft-max row sums to 1. -/
theorem softmaxRow_sums_to_one (z : Fin K → ℝ) (hK : 0 < K) : ∑ k, softmaxRow z k = 1 :=
  softmaxRow_sum z hK

/-- `softmax_jacobian`: `∑ k, g k * ∂ softmax(z) k / ∂ z l = y l * (g l - ∑ k, y k * g k)` with `y = softmax z`. -/
theorem softmax_jacobian (z g : Fin K → ℝ) (l : Fin K) :
    HasDerivAt (fun t => ∑ k, g k * softmaxRow (Function.update z l t) k)
      (softmaxRow z l * (g l - ∑ k, softmaxRow z k * g k)) (z l) :=
  GemVerif.softmax_jacobian z g l

/-- The soft-max Jacobian along an arbitrary direction `v` of the logits: the pull-back of `g` is `tau`,
    `tau l = y l * (g l - ∑ k, y k * g k)` (one row of `tauHat`). -/
theorem softmax_jacobian_direction (z g v : Fin K → ℝ) :
    HasDerivAt (fun t : ℝ => ∑ k, g k * softmaxRow (fun c => z c + t * v c) k)
      (∑ l, softmaxRow z l * (g l - ∑ k, softmaxRow z k * g k) * v l) 0 := by
  have h := hasDerivAt_softmaxRow_pairing (u := fun t c => z c + t * v c) (t₀ := 0)
    (fun k => hasDerivAt_lin (z k) (v k)) g
  simpa only [zero_mul, add_zero] using h

/-! ### LinearModel -/

/-- LinearModel: along every direction `(E, e)` of `(W, b)` the derivative of `⟨g, infer⟩` is
    `⟨-gradW, E⟩ + ⟨-gradB, e⟩`: the list `[-X.T @ tau, -tau.sum(0)]` is minus the gradient. -/
theorem linear_direction (X : Fin n → Fin d → ℝ) (W : Fin d → Fin K → ℝ) (b : Fin K → ℝ)
    (g : Fin n → Fin K → ℝ) (E : Fin d → Fin K → ℝ) (e : Fin K → ℝ) :
    HasDerivAt
      (fun t : ℝ => ∑ i, ∑ k, g i k * linearInfer X (fun j k => W j k + t * E j k) (fun k => b k + t * e k) i k)
      (∑ j, ∑ k, -(linearGradW X (linearInfer X W b) g j k) * E j k
        + ∑ k, -(linearGradB (linearInfer X W b) g k) * e k) 0 := by
  have h := linear_hasDerivAt_curve X (Wc := fun t j k => W j k + t * E j k) (bc := fun t k => b k + t * e k)
    (t₀ := 0) (fun _ _ => hasDerivAt_lin _ _) (fun _ => hasDerivAt_lin _ _) g
  simpa only [zero_mul, add_zero] using h

/-- LinearModel, entry `(a, c)` of `W`. -/
theorem linear_W_entry (X : Fin n → Fin d → ℝ) (W : Fin d → Fin K → ℝ) (b : Fin K → ℝ)
    (g : Fin n → Fin K → ℝ) (a : Fin d) (c : Fin K) :
    HasDerivAt (fun t : ℝ => ∑ i, ∑ k, g i k * linearInfer X (bump2 W a c t) b i k)
      (-(linearGradW X (linearInfer X W b) g a c)) 0 := by
  have h := linear_hasDerivAt_curve X (Wc := bump2 W a c) (bc := fun _ => b) (t₀ := 0)
    (hasDerivAt_bump2 W a c) (fun _ => hasDerivAt_const _ _) g
  simpa only [bump2_zero, sum_ind2, mul_zero, Finset.sum_const_zero, add_zero] using h

/-- LinearModel, entry `c` of `b`. -/
theorem linear_b_entry (X : Fin n → Fin d → ℝ) (W : Fin d → Fin K → ℝ) (b : Fin K → ℝ)
    (g : Fin n → Fin K → ℝ) (c : Fin K) :
    HasDerivAt (fun t : ℝ => ∑ i, ∑ k, g i k * linearInfer X W (bump1 b c t) i k)
      (-(linearGradB (linearInfer X W b) g c)) 0 := by
  have h := linear_hasDerivAt_curve X (Wc := fun _ => W) (bc := bump1 b c) (t₀ := 0)
    (fun _ _ => hasDerivAt_const _ _) (hasDerivAt_bump1 b c) g
  simpa only [bump1_zero, sum_ind1, mul_zero, Finset.sum_const_zero, zero_add] using h

/-! ### CategoricalModel -/

/-- CategoricalModel: along every direction `E` of the logits the derivative of `⟨g, softmax(logits)⟩` is
    `⟨-grad, E⟩`. -/
theorem categorical_direction (L g E : Fin n → Fin K → ℝ) :
    HasDerivAt (fun t : ℝ => ∑ i, ∑ k, g i k * categoricalInfer (fun i k => L i k + t * E i k) i k)
      (∑ i, ∑ k, -(categoricalGrad (categoricalInfer L) g i k) * E i k) 0 := by
  have h := categorical_hasDerivAt_curve (Lc := fun t i k => L i k + t * E i k) (t₀ := 0)
    (fun _ _ => hasDerivAt_lin _ _) g
  simpa only [zero_mul, add_zero] using h

/-- CategoricalModel, logit `(a, c)`. -/
theorem categorical_entry (L g : Fin n → Fin K → ℝ) (a : Fin n) (c : Fin K) :
    HasDerivAt (fun t : ℝ => ∑ i, ∑ k, g i k * categoricalInfer (bump2 L a c t) i k)
      (-(categoricalGrad (categoricalInfer L) g a c)) 0 := by
  have h := categorical_hasDerivAt_curve (Lc := bump2 L a c) (t₀ := 0) (hasDerivAt_bump2 L a c) g
  simpa only [bump2_zero, sum_ind2] using h

/-! ### RIM -/

/-- RIM: after `_update_weights` the direction is minus the gradient of `⟨g, infer⟩ - reg * ∑ W²`
    (the bias is not penalised). -/
theorem rim_direction (reg : ℝ) (X : Fin n → Fin d → ℝ) (W : Fin d → Fin K → ℝ) (b : Fin K → ℝ)
    (g : Fin n → Fin K → ℝ) (E : Fin d → Fin K → ℝ) (e : Fin K → ℝ) :
    HasDerivAt
      (fun t : ℝ =>
        (∑ i, ∑ k, g i k * linearInfer X (fun j k => W j k + t * E j k) (fun k => b k + t * e k) i k)
          - reg * ∑ j, ∑ k, (W j k + t * E j k) ^ 2)
      (∑ j, ∑ k, -(rimGradW reg X W (linearInfer X W b) g j k) * E j k
        + ∑ k, -(linearGradB (linearInfer X W b) g k) * e k) 0 := by
  have h := rim_hasDerivAt_curve reg X (Wc := fun t j k => W j k + t * E j k) (bc := fun t k => b k + t * e k)
    (t₀ := 0) (fun _ _ => hasDerivAt_lin _ _) (fun _ => hasDerivAt_lin _ _) g
  simpa only [zero_mul, add_zero] using h

/-- RIM, entry `(a, c)` of `W`. -/
theorem rim_W_entry (reg : ℝ) (X : Fin n → Fin d → ℝ) (W : Fin d → Fin K → ℝ) (b : Fin K → ℝ)
    (g : Fin n → Fin K → ℝ) (a : Fin d) (c : Fin K) :
    HasDerivAt
      (fun t : ℝ => (∑ i, ∑ k, g i k * linearInfer X (bump2 W a c t) b i k)
        - reg * ∑ j, ∑ k, bump2 W a c t j k ^ 2)
      (-(rimGradW reg X W (linearInfer X W b) g a c)) 0 := by
  have h := rim_hasDerivAt_curve reg X (Wc := bump2 W a c) (bc := fun _ => b) (t₀ := 0)
    (hasDerivAt_bump2 W a c) (fun _ => hasDerivAt_const _ _) g
  simpa only [bump2_zero, sum_ind2, mul_zero, Finset.sum_const_zero, add_zero] using h

/-- RIM, entry `c` of `b`. -/
theorem rim_b_entry (reg : ℝ) (X : Fin n → Fin d → ℝ) (W : Fin d → Fin K → ℝ) (b : Fin K → ℝ)
    (g : Fin n → Fin K → ℝ) (c : Fin K) :
    HasDerivAt
      (fun t : ℝ => (∑ i, ∑ k, g i k * linearInfer X W (bump1 b c t) i k) - reg * ∑ j, ∑ k, W j k ^ 2)
      (-(linearGradB (linearInfer X W b) g c)) 0 := by
  have h := rim_hasDerivAt_curve reg X (Wc := fun _ => W) (bc := bump1 b c) (t₀ := 0)
    (fun _ _ => hasDerivAt_const _ _) (hasDerivAt_bump1 b c) g
  simpa only [bump1_zero, sum_ind1, mul_zero, Finset.sum_const_zero, zero_add] using h

/-! ### KernelRIM -/

/-- KernelRIM with a symmetric training kernel `κ`: whatever rows `Xb` of the kernel form the batch, the direction
    is minus the gradient of `⟨g, infer⟩ - reg * ∑ k, ∑ j, ∑ l, W j k * κ j l * W l k` (`= reg·tr(Wᵀ κ W)`). -/
theorem kernelRim_direction (reg : ℝ) (κ : Fin n → Fin n → ℝ) (hκ : ∀ j l, κ j l = κ l j)
    (Xb : Fin m → Fin n → ℝ) (W : Fin n → Fin K → ℝ) (b : Fin K → ℝ)
    (g : Fin m → Fin K → ℝ) (E : Fin n → Fin K → ℝ) (e : Fin K → ℝ) :
    HasDerivAt
      (fun t : ℝ =>
        (∑ i, ∑ k, g i k * linearInfer Xb (fun j k => W j k + t * E j k) (fun k => b k + t * e k) i k)
          - reg * ∑ k, ∑ j, ∑ l, (W j k + t * E j k) * κ j l * (W l k + t * E l k))
      (∑ j, ∑ k, -(kernelRimGradW reg κ Xb W (linearInfer Xb W b) g j k) * E j k
        + ∑ k, -(linearGradB (linearInfer Xb W b) g k) * e k) 0 := by
  have h := kernelRim_hasDerivAt_curve reg κ hκ Xb (Wc := fun t j k => W j k + t * E j k)
    (bc := fun t k => b k + t * e k) (t₀ := 0) (fun _ _ => hasDerivAt_lin _ _) (fun _ => hasDerivAt_lin _ _) g
  simpa only [zero_mul, add_zero] using h

/-- KernelRIM, entry `(a, c)` of `W`. -/
theorem kernelRim_W_entry (reg : ℝ) (κ : Fin n → Fin n → ℝ) (hκ : ∀ j l, κ j l = κ l j)
    (Xb : Fin m → Fin n → ℝ) (W : Fin n → Fin K → ℝ) (b : Fin K → ℝ)
    (g : Fin m → Fin K → ℝ) (a : Fin n) (c : Fin K) :
    HasDerivAt
      (fun t : ℝ => (∑ i, ∑ k, g i k * linearInfer Xb (bump2 W a c t) b i k)
        - reg * ∑ k, ∑ j, ∑ l, bump2 W a c t j k * κ j l * bump2 W a c t l k)
      (-(kernelRimGradW reg κ Xb W (linearInfer Xb W b) g a c)) 0 := by
  have h := kernelRim_hasDerivAt_curve reg κ hκ Xb (Wc := bump2 W a c) (bc := fun _ => b) (t₀ := 0)
    (hasDerivAt_bump2 W a c) (fun _ => hasDerivAt_const _ _) g
  simpa only [bump2_zero, sum_ind2, mul_zero, Finset.sum_const_zero, add_zero] using h

/-- KernelRIM, entry `c` of `b`. -/
theorem kernelRim_b_entry (reg : ℝ) (κ : Fin n → Fin n → ℝ) (hκ : ∀ j l, κ j l = κ l j)
    (Xb : Fin m → Fin n → ℝ) (W : Fin n → Fin K → ℝ) (b : Fin K → ℝ)
    (g : Fin m → Fin K → ℝ) (c : Fin K) :
    HasDerivAt
      (fun t : ℝ => (∑ i, ∑ k, g i k * linearInfer Xb W (bump1 b c t) i k)
        - reg * ∑ k, ∑ j, ∑ l, W j k * κ j l * W l k)
      (-(linearGradB (linearInfer Xb W b) g c)) 0 := by
  have h := kernelRim_hasDerivAt_curve reg κ hκ Xb (Wc := fun _ => W) (bc := bump1 b c) (t₀ := 0)
    (fun _ _ => hasDerivAt_const _ _) (hasDerivAt_bump1 b c) g
  simpa only [bump1_zero, sum_ind1, mul_zero, Finset.sum_const_zero, zero_add] using h

/- the symmetry hypothesis is satisfiable (identity kernel) -/
example : ∃ κ : Fin 2 → Fin 2 → ℝ, ∀ j l, κ j l = κ l j :=
  ⟨fun j l => if j = l then 1 else 0, fun j l => by simp [eq_comm]⟩

/-! ### MLPModel

`mlpGrads X H W2 y g` is called, as in `_compute_grads`, with the retained hidden activation
`H = hidden X W1 b1` and the predictions `y = mlpInfer X W1 b1 W2 b2`. -/

/-- MLPModel, output-side parameters `(W2, b2)`, along every direction, with NO differentiability condition. -/
theorem mlp_outer_direction (X : Fin n → Fin d → ℝ) (W1 : Fin d → Fin h → ℝ) (b1 : Fin h → ℝ)
    (W2 : Fin h → Fin K → ℝ) (b2 : Fin K → ℝ) (g : Fin n → Fin K → ℝ) (E2 : Fin h → Fin K → ℝ) (e2 : Fin K → ℝ) :
    HasDerivAt
      (fun t : ℝ => ∑ i, ∑ k, g i k *
        mlpInfer X W1 b1 (fun j k => W2 j k + t * E2 j k) (fun k => b2 k + t * e2 k) i k)
      (∑ j, ∑ k, -((mlpGrads X (hidden X W1 b1) W2 (mlpInfer X W1 b1 W2 b2) g).W2 j k) * E2 j k
        + ∑ k, -((mlpGrads X (hidden X W1 b1) W2 (mlpInfer X W1 b1 W2 b2) g).b2 k) * e2 k) 0 := by
  have h := mlp_outer_hasDerivAt_curve X W1 b1 (W2c := fun t j k => W2 j k + t * E2 j k)
    (b2c := fun t k => b2 k + t * e2 k) (t₀ := 0) (fun _ _ => hasDerivAt_lin _ _) (fun _ => hasDerivAt_lin _ _) g
  simpa only [zero_mul, add_zero] using h

/-- MLPModel, all parameters `(W1, b1, W2, b2)` at once along every direction, at any point where no
    pre-activation `X @ W1 + b1` is exactly 0. -/
theorem mlp_direction (X : Fin n → Fin d → ℝ) (W1 : Fin d → Fin h → ℝ) (b1 : Fin h → ℝ)
    (W2 : Fin h → Fin K → ℝ) (b2 : Fin K → ℝ) (hact : ∀ i j, affine X W1 b1 i j ≠ 0) (g : Fin n → Fin K → ℝ)
    (E1 : Fin d → Fin h → ℝ) (e1 : Fin h → ℝ) (E2 : Fin h → Fin K → ℝ) (e2 : Fin K → ℝ) :
    HasDerivAt
      (fun t : ℝ => ∑ i, ∑ k, g i k *
        mlpInfer X (fun a j => W1 a j + t * E1 a j) (fun j => b1 j + t * e1 j)
          (fun j k => W2 j k + t * E2 j k) (fun k => b2 k + t * e2 k) i k)
      (∑ a, ∑ j, -((mlpGrads X (hidden X W1 b1) W2 (mlpInfer X W1 b1 W2 b2) g).W1 a j) * E1 a j
        + ∑ j, -((mlpGrads X (hidden X W1 b1) W2 (mlpInfer X W1 b1 W2 b2) g).b1 j) * e1 j
        + ∑ j, ∑ k, -((mlpGrads X (hidden X W1 b1) W2 (mlpInfer X W1 b1 W2 b2) g).W2 j k) * E2 j k
        + ∑ k, -((mlpGrads X (hidden X W1 b1) W2 (mlpInfer X W1 b1 W2 b2) g).b2 k) * e2 k) 0 := by
  have h := mlp_hasDerivAt_curve X (W1c := fun t a j => W1 a j + t * E1 a j) (b1c := fun t j => b1 j + t * e1 j)
    (W2c := fun t j k => W2 j k + t * E2 j k) (b2c := fun t k => b2 k + t * e2 k) (t₀ := 0)
    (fun _ _ => hasDerivAt_lin _ _) (fun _ => hasDerivAt_lin _ _) (fun _ _ => hasDerivAt_lin _ _)
    (fun _ => hasDerivAt_lin _ _) (by simpa only [zero_mul, add_zero] using hact) g
  simpa only [zero_mul, add_zero] using h

/-- MLPModel, entry `(a, j)` of `W1` (no pre-activation exactly 0). -/
theorem mlp_W1_entry (X : Fin n → Fin d → ℝ) (W1 : Fin d → Fin h → ℝ) (b1 : Fin h → ℝ)
    (W2 : Fin h → Fin K → ℝ) (b2 : Fin K → ℝ) (hact : ∀ i j, affine X W1 b1 i j ≠ 0) (g : Fin n → Fin K → ℝ)
    (a : Fin d) (j : Fin h) :
    HasDerivAt (fun t : ℝ => ∑ i, ∑ k, g i k * mlpInfer X (bump2 W1 a j t) b1 W2 b2 i k)
      (-((mlpGrads X (hidden X W1 b1) W2 (mlpInfer X W1 b1 W2 b2) g).W1 a j)) 0 := by
  have h := mlp_hasDerivAt_curve X (W1c := bump2 W1 a j) (b1c := fun _ => b1) (W2c := fun _ => W2)
    (b2c := fun _ => b2) (t₀ := 0) (hasDerivAt_bump2 W1 a j) (fun _ => hasDerivAt_const _ _) (fun _ _ => hasDerivAt_const _ _) (fun _ => hasDerivAt_const _ _)
    (by simpa only [bump2_zero] using hact) g
  simpa only [bump2_zero, sum_ind2, mul_zero, Finset.sum_const_zero, add_zero] using h

/-- MLPModel, entry `j` of `b1` (no pre-activation exactly 0). -/
theorem mlp_b1_entry (X : Fin n → Fin d → ℝ) (W1 : Fin d → Fin h → ℝ) (b1 : Fin h → ℝ)
    (W2 : Fin h → Fin K → ℝ) (b2 : Fin K → ℝ) (hact : ∀ i j, affine X W1 b1 i j ≠ 0) (g : Fin n → Fin K → ℝ)
    (j : Fin h) :
    HasDerivAt (fun t : ℝ => ∑ i, ∑ k, g i k * mlpInfer X W1 (bump1 b1 j t) W2 b2 i k)
      (-((mlpGrads X (hidden X W1 b1) W2 (mlpInfer X W1 b1 W2 b2) g).b1 j)) 0 := by
  have h := mlp_hasDerivAt_curve X (W1c := fun _ => W1) (b1c := bump1 b1 j) (W2c := fun _ => W2)
    (b2c := fun _ => b2) (t₀ := 0) (fun _ _ => hasDerivAt_const _ _) (hasDerivAt_bump1 b1 j) (fun _ _ => hasDerivAt_const _ _) (fun _ => hasDerivAt_const _ _)
    (by simpa only [bump1_zero] using hact) g
  simpa only [bump1_zero, sum_ind1, mul_zero, Finset.sum_const_zero, add_zero, zero_add] using h

/-- MLPModel, entry `(j, c)` of `W2` (unconditional). -/
theorem mlp_W2_entry (X : Fin n → Fin d → ℝ) (W1 : Fin d → Fin h → ℝ) (b1 : Fin h → ℝ)
    (W2 : Fin h → Fin K → ℝ) (b2 : Fin K → ℝ) (g : Fin n → Fin K → ℝ) (j : Fin h) (c : Fin K) :
    HasDerivAt (fun t : ℝ => ∑ i, ∑ k, g i k * mlpInfer X W1 b1 (bump2 W2 j c t) b2 i k)
      (-((mlpGrads X (hidden X W1 b1) W2 (mlpInfer X W1 b1 W2 b2) g).W2 j c)) 0 := by
  have h := mlp_outer_hasDerivAt_curve X W1 b1 (W2c := bump2 W2 j c) (b2c := fun _ => b2) (t₀ := 0)
    (hasDerivAt_bump2 W2 j c) (fun _ => hasDerivAt_const _ _) g
  simpa only [bump2_zero, sum_ind2, mul_zero, Finset.sum_const_zero, add_zero] using h

/-- MLPModel, entry `c` of `b2` (unconditional). -/
theorem mlp_b2_entry (X : Fin n → Fin d → ℝ) (W1 : Fin d → Fin h → ℝ) (b1 : Fin h → ℝ)
    (W2 : Fin h → Fin K → ℝ) (b2 : Fin K → ℝ) (g : Fin n → Fin K → ℝ) (c : Fin K) :
    HasDerivAt (fun t : ℝ => ∑ i, ∑ k, g i k * mlpInfer X W1 b1 W2 (bump1 b2 c t) i k)
      (-((mlpGrads X (hidden X W1 b1) W2 (mlpInfer X W1 b1 W2 b2) g).b2 c)) 0 := by
  have h := mlp_outer_hasDerivAt_curve X W1 b1 (W2c := fun _ => W2) (b2c := bump1 b2 c) (t₀ := 0)
    (fun _ _ => hasDerivAt_const _ _) (hasDerivAt_bump1 b2 c) g
  simpa only [bump1_zero, sum_ind1, mul_zero, Finset.sum_const_zero, zero_add] using h

/-- The condition on the pre-activations in `mlp_W1_entry` cannot be dropped: there is an MLP (1 sample, 1 feature,
    1 hidden unit, 2 clusters) with a zero pre-activation for which `⟨g, infer⟩` has NO derivative with respect to
    `W1` (the two one-sided slopes are 0 and 1/4), so no direction whatsoever can be "the gradient" there. -/
theorem mlp_W1_entry_needs_hact :
    ∃ (X : Fin 1 → Fin 1 → ℝ) (W1 : Fin 1 → Fin 1 → ℝ) (b1 : Fin 1 → ℝ) (W2 : Fin 1 → Fin 2 → ℝ) (b2 : Fin 2 → ℝ)
      (g : Fin 1 → Fin 2 → ℝ) (a j : Fin 1),
      ¬ DifferentiableAt ℝ (fun t : ℝ => ∑ i, ∑ k, g i k * mlpInfer X (bump2 W1 a j t) b1 W2 b2 i k) 0 := by
  refine ⟨fun _ _ => 1, fun _ _ => 0, fun _ => 0, fun _ k => if k = 0 then 1 else 0, fun _ => 0,
    fun _ k => if k = 0 then 1 else 0, 0, 0, ?_⟩
  simp only [kink_example_eq]
  exact kink_example_not_differentiable

/-! ### SparseMLPModel (MLP plus the skip connection `X @ W_skip`)

`y = sparseMlpInfer X W1 b1 W2 b2 Ws`; the proximal step on `W_skip`/`W1` is C05/C06's subject, the direction
handed to the optimiser is this one. -/

/-- SparseMLPModel, output-side parameters `(W2, b2, W_skip)`, along every direction, with NO differentiability
    condition. -/
theorem sparse_outer_direction (X : Fin n → Fin d → ℝ) (W1 : Fin d → Fin h → ℝ) (b1 : Fin h → ℝ)
    (W2 : Fin h → Fin K → ℝ) (b2 : Fin K → ℝ) (Ws : Fin d → Fin K → ℝ) (g : Fin n → Fin K → ℝ)
    (E2 : Fin h → Fin K → ℝ) (e2 : Fin K → ℝ) (Es : Fin d → Fin K → ℝ) :
    HasDerivAt
      (fun t : ℝ => ∑ i, ∑ k, g i k *
        sparseMlpInfer X W1 b1 (fun j k => W2 j k + t * E2 j k) (fun k => b2 k + t * e2 k)
          (fun a k => Ws a k + t * Es a k) i k)
      (∑ j, ∑ k, -((mlpGrads X (hidden X W1 b1) W2 (sparseMlpInfer X W1 b1 W2 b2 Ws) g).W2 j k) * E2 j k
        + ∑ k, -((mlpGrads X (hidden X W1 b1) W2 (sparseMlpInfer X W1 b1 W2 b2 Ws) g).b2 k) * e2 k
        + ∑ a, ∑ k, -((mlpGrads X (hidden X W1 b1) W2 (sparseMlpInfer X W1 b1 W2 b2 Ws) g).Ws a k) * Es a k) 0 := by
  have h := sparse_outer_hasDerivAt_curve X W1 b1 (W2c := fun t j k => W2 j k + t * E2 j k)
    (b2c := fun t k => b2 k + t * e2 k) (Wsc := fun t a k => Ws a k + t * Es a k) (t₀ := 0)
    (fun _ _ => hasDerivAt_lin _ _) (fun _ => hasDerivAt_lin _ _) (fun _ _ => hasDerivAt_lin _ _) g
  simpa only [zero_mul, add_zero] using h

/-- SparseMLPModel, all parameters `(W1, b1, W2, b2, W_skip)` at once along every direction, at any point where
    no pre-activation `X @ W1 + b1` is exactly 0. -/
theorem sparse_direction (X : Fin n → Fin d → ℝ) (W1 : Fin d → Fin h → ℝ) (b1 : Fin h → ℝ)
    (W2 : Fin h → Fin K → ℝ) (b2 : Fin K → ℝ) (Ws : Fin d → Fin K → ℝ) (hact : ∀ i j, affine X W1 b1 i j ≠ 0)
    (g : Fin n → Fin K → ℝ)
    (E1 : Fin d → Fin h → ℝ) (e1 : Fin h → ℝ) (E2 : Fin h → Fin K → ℝ) (e2 : Fin K → ℝ) (Es : Fin d → Fin K → ℝ) :
    HasDerivAt
      (fun t : ℝ => ∑ i, ∑ k, g i k *
        sparseMlpInfer X (fun a j => W1 a j + t * E1 a j) (fun j => b1 j + t * e1 j)
          (fun j k => W2 j k + t * E2 j k) (fun k => b2 k + t * e2 k) (fun a k => Ws a k + t * Es a k) i k)
      (∑ a, ∑ j, -((mlpGrads X (hidden X W1 b1) W2 (sparseMlpInfer X W1 b1 W2 b2 Ws) g).W1 a j) * E1 a j
        + ∑ j, -((mlpGrads X (hidden X W1 b1) W2 (sparseMlpInfer X W1 b1 W2 b2 Ws) g).b1 j) * e1 j
        + ∑ j, ∑ k, -((mlpGrads X (hidden X W1 b1) W2 (sparseMlpInfer X W1 b1 W2 b2 Ws) g).W2 j k) * E2 j k
        + ∑ k, -((mlpGrads X (hidden X W1 b1) W2 (sparseMlpInfer X W1 b1 W2 b2 Ws) g).b2 k) * e2 k
        + ∑ a, ∑ k, -((mlpGrads X (hidden X W1 b1) W2 (sparseMlpInfer X W1 b1 W2 b2 Ws) g).Ws a k) * Es a k) 0 := by
  have h := sparse_hasDerivAt_curve X (W1c := fun t a j => W1 a j + t * E1 a j)
    (b1c := fun t j => b1 j + t * e1 j) (W2c := fun t j k => W2 j k + t * E2 j k)
    (b2c := fun t k => b2 k + t * e2 k) (Wsc := fun t a k => Ws a k + t * Es a k) (t₀ := 0)
    (fun _ _ => hasDerivAt_lin _ _) (fun _ => hasDerivAt_lin _ _) (fun _ _ => hasDerivAt_lin _ _)
    (fun _ => hasDerivAt_lin _ _) (fun _ _ => hasDerivAt_lin _ _)
    (by simpa only [zero_mul, add_zero] using hact) g
  simpa only [zero_mul, add_zero] using h

/-- SparseMLPModel, entry `(a, j)` of `W1` (no pre-activation exactly 0). -/
theorem sparse_W1_entry (X : Fin n → Fin d → ℝ) (W1 : Fin d → Fin h → ℝ) (b1 : Fin h → ℝ)
    (W2 : Fin h → Fin K → ℝ) (b2 : Fin K → ℝ) (Ws : Fin d → Fin K → ℝ) (hact : ∀ i j, affine X W1 b1 i j ≠ 0)
    (g : Fin n → Fin K → ℝ) (a : Fin d) (j : Fin h) :
    HasDerivAt (fun t : ℝ => ∑ i, ∑ k, g i k * sparseMlpInfer X (bump2 W1 a j t) b1 W2 b2 Ws i k)
      (-((mlpGrads X (hidden X W1 b1) W2 (sparseMlpInfer X W1 b1 W2 b2 Ws) g).W1 a j)) 0 := by
  have h := sparse_hasDerivAt_curve X (W1c := bump2 W1 a j) (b1c := fun _ => b1) (W2c := fun _ => W2)
    (b2c := fun _ => b2) (Wsc := fun _ => Ws) (t₀ := 0) (hasDerivAt_bump2 W1 a j) (fun _ => hasDerivAt_const _ _) (fun _ _ => hasDerivAt_const _ _) (fun _ => hasDerivAt_const _ _) (fun _ _ => hasDerivAt_const _ _)
    (by simpa only [bump2_zero] using hact) g
  simpa only [bump2_zero, sum_ind2, mul_zero, Finset.sum_const_zero, add_zero] using h

/-- SparseMLPModel, entry `j` of `b1` (no pre-activation exactly 0). -/
theorem sparse_b1_entry (X : Fin n → Fin d → ℝ) (W1 : Fin d → Fin h → ℝ) (b1 : Fin h → ℝ)
    (W2 : Fin h → Fin K → ℝ) (b2 : Fin K → ℝ) (Ws : Fin d → Fin K → ℝ) (hact : ∀ i j, affine X W1 b1 i j ≠ 0)
    (g : Fin n → Fin K → ℝ) (j : Fin h) :
    HasDerivAt (fun t : ℝ => ∑ i, ∑ k, g i k * sparseMlpInfer X W1 (bump1 b1 j t) W2 b2 Ws i k)
      (-((mlpGrads X (hidden X W1 b1) W2 (sparseMlpInfer X W1 b1 W2 b2 Ws) g).b1 j)) 0 := by
  have h := sparse_hasDerivAt_curve X (W1c := fun _ => W1) (b1c := bump1 b1 j) (W2c := fun _ => W2)
    (b2c := fun _ => b2) (Wsc := fun _ => Ws) (t₀ := 0) (fun _ _ => hasDerivAt_const _ _) (hasDerivAt_bump1 b1 j) (fun _ _ => hasDerivAt_const _ _) (fun _ => hasDerivAt_const _ _) (fun _ _ => hasDerivAt_const _ _)
    (by simpa only [bump1_zero] using hact) g
  simpa only [bump1_zero, sum_ind1, mul_zero, Finset.sum_const_zero, add_zero, zero_add] using h

/-- SparseMLPModel, entry `(j, c)` of `W2` (unconditional). -/
theorem sparse_W2_entry (X : Fin n → Fin d → ℝ) (W1 : Fin d → Fin h → ℝ) (b1 : Fin h → ℝ)
    (W2 : Fin h → Fin K → ℝ) (b2 : Fin K → ℝ) (Ws : Fin d → Fin K → ℝ) (g : Fin n → Fin K → ℝ)
    (j : Fin h) (c : Fin K) :
    HasDerivAt (fun t : ℝ => ∑ i, ∑ k, g i k * sparseMlpInfer X W1 b1 (bump2 W2 j c t) b2 Ws i k)
      (-((mlpGrads X (hidden X W1 b1) W2 (sparseMlpInfer X W1 b1 W2 b2 Ws) g).W2 j c)) 0 := by
  have h := sparse_outer_hasDerivAt_curve X W1 b1 (W2c := bump2 W2 j c) (b2c := fun _ => b2)
    (Wsc := fun _ => Ws) (t₀ := 0) (hasDerivAt_bump2 W2 j c) (fun _ => hasDerivAt_const _ _) (fun _ _ => hasDerivAt_const _ _) g
  simpa only [bump2_zero, sum_ind2, mul_zero, Finset.sum_const_zero, add_zero] using h

/-- SparseMLPModel, entry `c` of `b2` (unconditional). -/
theorem sparse_b2_entry (X : Fin n → Fin d → ℝ) (W1 : Fin d → Fin h → ℝ) (b1 : Fin h → ℝ)
    (W2 : Fin h → Fin K → ℝ) (b2 : Fin K → ℝ) (Ws : Fin d → Fin K → ℝ) (g : Fin n → Fin K → ℝ) (c : Fin K) :
    HasDerivAt (fun t : ℝ => ∑ i, ∑ k, g i k * sparseMlpInfer X W1 b1 W2 (bump1 b2 c t) Ws i k)
      (-((mlpGrads X (hidden X W1 b1) W2 (sparseMlpInfer X W1 b1 W2 b2 Ws) g).b2 c)) 0 := by
  have h := sparse_outer_hasDerivAt_curve X W1 b1 (W2c := fun _ => W2) (b2c := bump1 b2 c)
    (Wsc := fun _ => Ws) (t₀ := 0) (fun _ _ => hasDerivAt_const _ _) (hasDerivAt_bump1 b2 c) (fun _ _ => hasDerivAt_const _ _) g
  simpa only [bump1_zero, sum_ind1, mul_zero, Finset.sum_const_zero, add_zero, zero_add] using h

/-- SparseMLPModel, entry `(a, c)` of `W_skip` (unconditional). -/
theorem sparse_Ws_entry (X : Fin n → Fin d → ℝ) (W1 : Fin d → Fin h → ℝ) (b1 : Fin h → ℝ)
    (W2 : Fin h → Fin K → ℝ) (b2 : Fin K → ℝ) (Ws : Fin d → Fin K → ℝ) (g : Fin n → Fin K → ℝ)
    (a : Fin d) (c : Fin K) :
    HasDerivAt (fun t : ℝ => ∑ i, ∑ k, g i k * sparseMlpInfer X W1 b1 W2 b2 (bump2 Ws a c t) i k)
      (-((mlpGrads X (hidden X W1 b1) W2 (sparseMlpInfer X W1 b1 W2 b2 Ws) g).Ws a c)) 0 := by
  have h := sparse_outer_hasDerivAt_curve X W1 b1 (W2c := fun _ => W2) (b2c := fun _ => b2)
    (Wsc := bump2 Ws a c) (t₀ := 0) (fun _ _ => hasDerivAt_const _ _) (fun _ => hasDerivAt_const _ _) (hasDerivAt_bump2 Ws a c) g
  simpa only [bump2_zero, sum_ind2, mul_zero, Finset.sum_const_zero, zero_add] using h

/- the hypothesis `hact` is satisfiable (it holds for almost every parameter value; here a 2×1 input, 2 hidden units,
   one active and one inactive) -/
example : ∃ (X : Fin 2 → Fin 1 → ℝ) (W1 : Fin 1 → Fin 2 → ℝ) (b1 : Fin 2 → ℝ), ∀ i j, affine X W1 b1 i j ≠ 0 :=
  ⟨fun _ _ => 1, fun _ j => if j = 0 then 1 else -1, fun _ => 0, fun i j => by
    rw [affine_apply]; by_cases hj : j = 0 <;> simp [hj]⟩

end GemVerif.Props.C03
