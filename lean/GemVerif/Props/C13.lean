/-
  C13 — invariances and bounds of the GEMINI scores.
  Property theorems only; helper lemmas live in `GemVerif/Lemmas/GeminiC13.lean`.

  Sections
    A  sample-permutation invariance of every score, equivariance of every gradient
    B  cluster-permutation invariance / equivariance
    C  bounds: KL ≥ 0, TV ∈ [0,1], H² ∈ [0,1], χ² ≥ 0, MMD ≥ 0 (spec level, then OvA / OvO, then the
       model scores through the `score = spec` theorems of C01)
    D  predictions that do not depend on the sample: score 0 (χ²: 1/2)
    E  mutual information of a balanced hard K-partition is log K
    F  appending an empty cluster: exact effect on each score, zero gradient column
    G  guards on the closed simplex (every divisor / log / sqrt argument of the code is positive)

  All theorems hold for every `n K : ℕ`; A, B, F and the KL/TV/MMD parts of D need no hypothesis on `P`
  at all (clipping commutes with permutations).
-/
import GemVerif.Lemmas.GeminiC13
import GemVerif.Props.C01

namespace GemVerif.Props.C13
open scoped BigOperators
open GemVerif Model Spec GemVerif.C13

variable {n K : ℕ}

/-! ## A. Sample permutations -/

/-- KL score (OvA = `mi`, and OvO) is invariant under a reordering of the samples. -/
theorem kl_sample_perm (ε : ℝ) (ovo : Bool) (P : Fin n → Fin K → ℝ) (σ : Equiv.Perm (Fin n)) :
    klScore ε ovo (fun i k => P (σ i) k) = klScore ε ovo P :=
  klScore_sperm ε ovo P σ

/-- TV score is invariant under a reordering of the samples. -/
theorem tv_sample_perm (ε : ℝ) (ovo : Bool) (P : Fin n → Fin K → ℝ) (σ : Equiv.Perm (Fin n)) :
    tvScore ε ovo (fun i k => P (σ i) k) = tvScore ε ovo P :=
  tvScore_sperm ε ovo P σ

/-- Hellinger score is invariant under a reordering of the samples. -/
theorem hellinger_sample_perm (ε : ℝ) (ovo : Bool) (P : Fin n → Fin K → ℝ) (σ : Equiv.Perm (Fin n)) :
    hellingerScore ε ovo (fun i k => P (σ i) k) = hellingerScore ε ovo P :=
  hellingerScore_sperm ε ovo P σ

/-- Chi-square score is invariant under a reordering of the samples. -/
theorem chi2_sample_perm (ε : ℝ) (ovo : Bool) (P : Fin n → Fin K → ℝ) (σ : Equiv.Perm (Fin n)) :
    chi2Score ε ovo (fun i k => P (σ i) k) = chi2Score ε ovo P :=
  chi2Score_sperm ε ovo P σ

/-- MMD score is invariant under a reordering of the samples applied consistently to the
    predictions and to the rows and columns of the affinity (any `κ`, symmetric or not). -/
theorem mmd_sample_perm (ε : ℝ) (ovo : Bool) (P : Fin n → Fin K → ℝ) (κ : Fin n → Fin n → ℝ)
    (σ : Equiv.Perm (Fin n)) :
    mmdScore ε ovo (fun i k => P (σ i) k) (fun i j => κ (σ i) (σ j)) = mmdScore ε ovo P κ :=
  mmdScore_sperm ε ovo P κ σ

/-- KL gradient is permuted along with the samples. -/
theorem kl_grad_sample_perm (ε : ℝ) (ovo : Bool) (P : Fin n → Fin K → ℝ) (σ : Equiv.Perm (Fin n))
    (i : Fin n) (k : Fin K) :
    klGrad ε ovo (fun i k => P (σ i) k) i k = klGrad ε ovo P (σ i) k :=
  klGrad_sperm ε ovo P σ i k

/-- TV gradient is permuted along with the samples. -/
theorem tv_grad_sample_perm (ε : ℝ) (ovo : Bool) (P : Fin n → Fin K → ℝ) (σ : Equiv.Perm (Fin n))
    (i : Fin n) (k : Fin K) :
    tvGrad ε ovo (fun i k => P (σ i) k) i k = tvGrad ε ovo P (σ i) k :=
  tvGrad_sperm ε ovo P σ i k

/-- Hellinger gradient is permuted along with the samples. -/
theorem hellinger_grad_sample_perm (ε : ℝ) (ovo : Bool) (P : Fin n → Fin K → ℝ)
    (σ : Equiv.Perm (Fin n)) (i : Fin n) (k : Fin K) :
    hellingerGrad ε ovo (fun i k => P (σ i) k) i k = hellingerGrad ε ovo P (σ i) k :=
  hellingerGrad_sperm ε ovo P σ i k

/-- Chi-square gradient is permuted along with the samples. -/
theorem chi2_grad_sample_perm (ε : ℝ) (ovo : Bool) (P : Fin n → Fin K → ℝ) (σ : Equiv.Perm (Fin n))
    (i : Fin n) (k : Fin K) :
    chi2Grad ε ovo (fun i k => P (σ i) k) i k = chi2Grad ε ovo P (σ i) k :=
  chi2Grad_sperm ε ovo P σ i k

/-- MMD gradient is permuted along with the samples (affinity rows and columns permuted too). -/
theorem mmd_grad_sample_perm (ε : ℝ) (ovo : Bool) (P : Fin n → Fin K → ℝ) (κ : Fin n → Fin n → ℝ)
    (σ : Equiv.Perm (Fin n)) (i : Fin n) (k : Fin K) :
    mmdGrad ε ovo (fun i k => P (σ i) k) (fun i j => κ (σ i) (σ j)) i k = mmdGrad ε ovo P κ (σ i) k :=
  mmdGrad_sperm ε ovo P κ σ i k

/-! ## B. Cluster permutations -/

/-- KL score is invariant under a relabelling of the clusters. -/
theorem kl_cluster_perm (ε : ℝ) (ovo : Bool) (P : Fin n → Fin K → ℝ) (τ : Equiv.Perm (Fin K)) :
    klScore ε ovo (fun i k => P i (τ k)) = klScore ε ovo P :=
  klScore_cperm ε ovo P τ

/-- TV score is invariant under a relabelling of the clusters. -/
theorem tv_cluster_perm (ε : ℝ) (ovo : Bool) (P : Fin n → Fin K → ℝ) (τ : Equiv.Perm (Fin K)) :
    tvScore ε ovo (fun i k => P i (τ k)) = tvScore ε ovo P :=
  tvScore_cperm ε ovo P τ

/-- Hellinger score is invariant under a relabelling of the clusters. -/
theorem hellinger_cluster_perm (ε : ℝ) (ovo : Bool) (P : Fin n → Fin K → ℝ) (τ : Equiv.Perm (Fin K)) :
    hellingerScore ε ovo (fun i k => P i (τ k)) = hellingerScore ε ovo P :=
  hellingerScore_cperm ε ovo P τ

/-- Chi-square score is invariant under a relabelling of the clusters. -/
theorem chi2_cluster_perm (ε : ℝ) (ovo : Bool) (P : Fin n → Fin K → ℝ) (τ : Equiv.Perm (Fin K)) :
    chi2Score ε ovo (fun i k => P i (τ k)) = chi2Score ε ovo P :=
  chi2Score_cperm ε ovo P τ

/-- MMD score is invariant under a relabelling of the clusters. -/
theorem mmd_cluster_perm (ε : ℝ) (ovo : Bool) (P : Fin n → Fin K → ℝ) (κ : Fin n → Fin n → ℝ)
    (τ : Equiv.Perm (Fin K)) :
    mmdScore ε ovo (fun i k => P i (τ k)) κ = mmdScore ε ovo P κ :=
  mmdScore_cperm ε ovo P κ τ

/-- KL gradient columns are permuted along with the clusters. -/
theorem kl_grad_cluster_perm (ε : ℝ) (ovo : Bool) (P : Fin n → Fin K → ℝ) (τ : Equiv.Perm (Fin K))
    (i : Fin n) (k : Fin K) :
    klGrad ε ovo (fun i k => P i (τ k)) i k = klGrad ε ovo P i (τ k) :=
  klGrad_cperm ε ovo P τ i k

/-- TV gradient columns are permuted along with the clusters. -/
theorem tv_grad_cluster_perm (ε : ℝ) (ovo : Bool) (P : Fin n → Fin K → ℝ) (τ : Equiv.Perm (Fin K))
    (i : Fin n) (k : Fin K) :
    tvGrad ε ovo (fun i k => P i (τ k)) i k = tvGrad ε ovo P i (τ k) :=
  tvGrad_cperm ε ovo P τ i k

/-- Hellinger gradient columns are permuted along with the clusters. -/
theorem hellinger_grad_cluster_perm (ε : ℝ) (ovo : Bool) (P : Fin n → Fin K → ℝ)
    (τ : Equiv.Perm (Fin K)) (i : Fin n) (k : Fin K) :
    hellingerGrad ε ovo (fun i k => P i (τ k)) i k = hellingerGrad ε ovo P i (τ k) :=
  hellingerGrad_cperm ε ovo P τ i k

/-- Chi-square gradient columns are permuted along with the clusters. -/
theorem chi2_grad_cluster_perm (ε : ℝ) (ovo : Bool) (P : Fin n → Fin K → ℝ) (τ : Equiv.Perm (Fin K))
    (i : Fin n) (k : Fin K) :
    chi2Grad ε ovo (fun i k => P i (τ k)) i k = chi2Grad ε ovo P i (τ k) :=
  chi2Grad_cperm ε ovo P τ i k

/-- MMD gradient columns are permuted along with the clusters. -/
theorem mmd_grad_cluster_perm (ε : ℝ) (ovo : Bool) (P : Fin n → Fin K → ℝ) (κ : Fin n → Fin n → ℝ)
    (τ : Equiv.Perm (Fin K)) (i : Fin n) (k : Fin K) :
    mmdGrad ε ovo (fun i k => P i (τ k)) κ i k = mmdGrad ε ovo P κ i (τ k) :=
  mmdGrad_cperm ε ovo P κ τ i k

/-! ## C. Bounds -/

/-- Gibbs' inequality: `KL(p ‖ q) ≥ 0` for a probability vector `p` and a positive probability
    vector `q` (entries of `p` may vanish: `0 · log 0 = 0`). -/
theorem KL_nonneg {p q : Fin n → ℝ} (hp : ∀ i, 0 ≤ p i) (hp1 : ∑ i, p i = 1)
    (hq : ∀ i, 0 < q i) (hq1 : ∑ i, q i = 1) : 0 ≤ Spec.KL p q :=
  GemVerif.C13.KL_nonneg hp hp1 hq hq1

/-- `0 ≤ TV(p, q) ≤ 1` for probability vectors. -/
theorem TV_bounds {p q : Fin n → ℝ} (hp : ∀ i, 0 ≤ p i) (hp1 : ∑ i, p i = 1)
    (hq : ∀ i, 0 ≤ q i) (hq1 : ∑ i, q i = 1) : 0 ≤ Spec.TV p q ∧ Spec.TV p q ≤ 1 :=
  ⟨TV_nonneg p q, TV_le_one hp hp1 hq hq1⟩

/-- `0 ≤ H²(p, q) ≤ 1` for probability vectors (`Σ √(p q) ≤ 1` by AM-GM). -/
theorem H2_bounds {p q : Fin n → ℝ} (hp : ∀ i, 0 ≤ p i) (hp1 : ∑ i, p i = 1)
    (hq : ∀ i, 0 ≤ q i) (hq1 : ∑ i, q i = 1) : 0 ≤ Spec.H2 p q ∧ Spec.H2 p q ≤ 1 :=
  ⟨H2_nonneg hp hp1 hq hq1, H2_le_one p q⟩

/-- `χ²(p ‖ q) ≥ 0` whenever `q ≥ 0`. -/
theorem chi2_nonneg {p q : Fin n → ℝ} (hq : ∀ i, 0 ≤ q i) : 0 ≤ Spec.chi2 p q :=
  GemVerif.C13.chi2_nonneg hq

/-- `MMD_κ(p, q) ≥ 0` for every affinity. -/
theorem MMD_nonneg (κ : Fin n → Fin n → ℝ) (p q : Fin n → ℝ) : 0 ≤ Spec.MMD κ p q :=
  GemVerif.C13.MMD_nonneg κ p q

/-- For positive predictions every documented OvA and OvO GEMINI (KL, TV, H², χ², MMD) is
    non-negative.  (No row-sum hypothesis is needed: `p(x|k)` and `p(x)` are probability vectors
    as soon as `P > 0`.) -/
theorem spec_scores_nonneg {P : Fin n → Fin K → ℝ} (hP : ∀ i k, 0 < P i k) (κ : Fin n → Fin n → ℝ) :
    (0 ≤ Spec.ova Spec.KL P ∧ 0 ≤ Spec.ovo Spec.KL P) ∧
    (0 ≤ Spec.ova Spec.TV P ∧ 0 ≤ Spec.ovo Spec.TV P) ∧
    (0 ≤ Spec.ova Spec.H2 P ∧ 0 ≤ Spec.ovo Spec.H2 P) ∧
    (0 ≤ Spec.ova Spec.chi2 P ∧ 0 ≤ Spec.ovo Spec.chi2 P) ∧
    (0 ≤ Spec.ova (Spec.MMD κ) P ∧ 0 ≤ Spec.ovo (Spec.MMD κ) P) := by
  have hKL : BoundedBelow (Spec.KL (n := n)) := fun p q hp hp1 hq hq1 =>
    GemVerif.C13.KL_nonneg (fun i => (hp i).le) hp1 hq hq1
  have hTV : BoundedBelow (Spec.TV (n := n)) := fun p q _ _ _ _ => TV_nonneg p q
  have hH2 : BoundedBelow (Spec.H2 (n := n)) := fun p q hp hp1 hq hq1 =>
    H2_nonneg (fun i => (hp i).le) hp1 (fun i => (hq i).le) hq1
  have hchi : BoundedBelow (Spec.chi2 (n := n)) := fun p q _ _ hq _ =>
    GemVerif.C13.chi2_nonneg fun i => (hq i).le
  have hMMD : BoundedBelow (Spec.MMD κ) := fun p q _ _ _ _ => GemVerif.C13.MMD_nonneg κ p q
  exact ⟨⟨ova_nonneg_of hKL hP, ovo_nonneg_of hKL hP⟩, ⟨ova_nonneg_of hTV hP, ovo_nonneg_of hTV hP⟩,
    ⟨ova_nonneg_of hH2 hP, ovo_nonneg_of hH2 hP⟩, ⟨ova_nonneg_of hchi hP, ovo_nonneg_of hchi hP⟩,
    ⟨ova_nonneg_of hMMD hP, ovo_nonneg_of hMMD hP⟩⟩

/-- For positive row-stochastic predictions the TV and Hellinger GEMINIs (OvA and OvO) never
    exceed 1 (`Σ_k π_k = 1`, `Σ_ab π_a π_b = 1`). -/
theorem spec_tv_hellinger_le_one {P : Fin n → Fin K → ℝ} (hP : ∀ i k, 0 < P i k)
    (hrow : ∀ i, ∑ k, P i k = 1) :
    (Spec.ova Spec.TV P ≤ 1 ∧ Spec.ovo Spec.TV P ≤ 1) ∧
    (Spec.ova Spec.H2 P ≤ 1 ∧ Spec.ovo Spec.H2 P ≤ 1) := by
  have hTV : BoundedAbove (Spec.TV (n := n)) := fun p q hp hp1 hq hq1 =>
    TV_le_one (fun i => (hp i).le) hp1 (fun i => (hq i).le) hq1
  have hH2 : BoundedAbove (Spec.H2 (n := n)) := fun p q _ _ _ _ => H2_le_one p q
  exact ⟨⟨ova_le_one_of hTV hP hrow, ovo_le_one_of hTV hP hrow⟩,
    ⟨ova_le_one_of hH2 hP hrow, ovo_le_one_of hH2 hP hrow⟩⟩

/-- Model KL scores are non-negative on the open region (OvA for every interior `P`, OvO for
    interior row-stochastic `P`). -/
theorem klScore_nonneg (hn : 0 < n) {ε : ℝ} (hε : 0 < ε) (P : Fin n → Fin K → ℝ) (hI : Interior ε P) :
    0 ≤ klScore ε false P ∧ ((∀ i, ∑ k, P i k = 1) → 0 ≤ klScore ε true P) := by
  have h := spec_scores_nonneg (fun i k => P_pos hε hI i k) (fun _ _ => 0)
  refine ⟨by rw [C01.kl_ova_eq_spec hn hε P hI]; exact h.1.1, fun hrow => ?_⟩
  rw [C01.kl_ovo_eq_spec hn hε P hI hrow]; exact h.1.2

/-- Model TV scores lie in `[0, 1]` on the open region (row-stochastic `P` for the upper bound). -/
theorem tvScore_bounds (hn : 0 < n) {ε : ℝ} (hε : 0 < ε) (ovo : Bool) (P : Fin n → Fin K → ℝ)
    (hI : Interior ε P) :
    0 ≤ tvScore ε ovo P ∧ ((∀ i, ∑ k, P i k = 1) → tvScore ε ovo P ≤ 1) := by
  have hP := fun i k => P_pos hε hI i k
  have h := spec_scores_nonneg hP (fun _ _ => 0)
  cases ovo
  · rw [C01.tv_ova_eq_spec hn hε P hI]
    exact ⟨h.2.1.1, fun hrow => (spec_tv_hellinger_le_one hP hrow).1.1⟩
  · rw [C01.tv_ovo_eq_spec hn hε P hI]
    exact ⟨h.2.1.2, fun hrow => (spec_tv_hellinger_le_one hP hrow).1.2⟩

/-- Model Hellinger scores lie in `[0, 1]` for interior row-stochastic `P`. -/
theorem hellingerScore_bounds (hn : 0 < n) {ε : ℝ} (hε : 0 < ε) (ovo : Bool) (P : Fin n → Fin K → ℝ)
    (hI : Interior ε P) (hrow : ∀ i, ∑ k, P i k = 1) :
    0 ≤ hellingerScore ε ovo P ∧ hellingerScore ε ovo P ≤ 1 := by
  have hP := fun i k => P_pos hε hI i k
  have h := spec_scores_nonneg hP (fun _ _ => 0)
  cases ovo
  · rw [C01.hellinger_ova_eq_spec hn hε P hI hrow]
    exact ⟨h.2.2.1.1, (spec_tv_hellinger_le_one hP hrow).2.1⟩
  · rw [C01.hellinger_ovo_eq_spec hn hε P hI hrow]
    exact ⟨h.2.2.1.2, (spec_tv_hellinger_le_one hP hrow).2.2⟩

/-- Model chi-square scores are at least the offset `1/2` for interior row-stochastic `P`
    (the code value is `(χ² + 1)/2`). -/
theorem chi2Score_ge_half (hn : 0 < n) {ε : ℝ} (hε : 0 < ε) (ovo : Bool) (P : Fin n → Fin K → ℝ)
    (hI : Interior ε P) (hrow : ∀ i, ∑ k, P i k = 1) :
    1 / 2 ≤ chi2Score ε ovo P := by
  have h := spec_scores_nonneg (fun i k => P_pos hε hI i k) (fun _ _ => 0)
  cases ovo
  · rw [C01.chi2_ova_eq_spec hn hε P hI hrow]; linarith [h.2.2.2.1.1]
  · rw [C01.chi2_ovo_eq_spec hn hε P hI hrow]; linarith [h.2.2.2.1.2]

/-- Model MMD scores are non-negative on the whole closed simplex — indeed for every real matrix
    `P` and every affinity — as soon as `0 ≤ ε ≤ 1/2`. -/
theorem mmdScore_nonneg {ε : ℝ} (h0 : 0 ≤ ε) (h1 : ε ≤ 1 / 2) (ovo : Bool) (P : Fin n → Fin K → ℝ)
    (κ : Fin n → Fin n → ℝ) : 0 ≤ mmdScore ε ovo P κ := by
  have hπ : ∀ k, 0 ≤ mean0 (clipP ε P) k := fun k => by
    simp only [mean0, sumFin_eq_sum, RealLike.nat_real]
    exact div_nonneg (Finset.sum_nonneg fun i _ => h0.trans (clipP_mem h1 P i k).1) (Nat.cast_nonneg n)
  cases ovo
  · simp only [mmdScore, tab_apply, sumFin_eq_sum, Bool.false_eq_true, if_false, mmdDeltaOva,
      RealLike.sqrt_real]
    exact Finset.sum_nonneg fun k _ => mul_nonneg (hπ k) (Real.sqrt_nonneg _)
  · simp only [mmdScore, tab_apply, tab2_apply, sumFin_eq_sum, if_true, mmdDeltaOvo, RealLike.sqrt_real]
    exact Finset.sum_nonneg fun b _ => mul_nonneg
      (Finset.sum_nonneg fun a _ => mul_nonneg (hπ a) (Real.sqrt_nonneg _)) (hπ b)

/-- Model TV scores are non-negative for every real matrix `P` and every `ε`. -/
theorem tvScore_nonneg (ε : ℝ) (ovo : Bool) (P : Fin n → Fin K → ℝ) : 0 ≤ tvScore ε ovo P := by
  cases ovo
  · simp only [tvScore, tab_apply, meanV_eq, sumFin_eq_sum, Bool.false_eq_true, if_false,
      RealLike.half_real, RealLike.abs_real]
    exact mul_nonneg (by norm_num) (Finset.sum_nonneg fun k _ =>
      div_nonneg (Finset.sum_nonneg fun i _ => abs_nonneg _) (Nat.cast_nonneg n))
  · simp only [tvScore, tab_apply, meanV_eq, sumFin_eq_sum, if_true, RealLike.half_real,
      RealLike.abs_real]
    exact mul_nonneg (by norm_num) (Finset.sum_nonneg fun a _ => Finset.sum_nonneg fun b _ =>
      div_nonneg (Finset.sum_nonneg fun i _ => abs_nonneg _) (Nat.cast_nonneg n))

/-! ## D. Predictions that do not depend on the sample -/

/-- KL (OvA = MI, and OvO) vanishes when the predictions do not depend on the sample — for every
    such `P`, interior or not, and every `ε`. -/
theorem kl_indep_zero (ε : ℝ) (ovo : Bool) {P : Fin n → Fin K → ℝ} (h : ∀ i j k, P i k = P j k) :
    klScore ε ovo P = 0 :=
  klScore_indep ε ovo h

/-- TV vanishes when the predictions do not depend on the sample (any `P`, any `ε`). -/
theorem tv_indep_zero (ε : ℝ) (ovo : Bool) {P : Fin n → Fin K → ℝ} (h : ∀ i j k, P i k = P j k) :
    tvScore ε ovo P = 0 :=
  tvScore_indep ε ovo h

/-- MMD vanishes when the predictions do not depend on the sample (any `P`, any `ε`, any affinity,
    symmetric or not). -/
theorem mmd_indep_zero (ε : ℝ) (ovo : Bool) {P : Fin n → Fin K → ℝ} (κ : Fin n → Fin n → ℝ)
    (h : ∀ i j k, P i k = P j k) : mmdScore ε ovo P κ = 0 :=
  mmdScore_indep ε ovo κ h

/-- Hellinger vanishes when interior row-stochastic predictions do not depend on the sample.
    (Without the row sums the value is `1 - Σ_k c_k`, resp. `1 - (Σ_k c_k)²`; with `n = 0` it is 1.) -/
theorem hellinger_indep_zero (hn : 0 < n) {ε : ℝ} (hε : 0 ≤ ε) (ovo : Bool) {P : Fin n → Fin K → ℝ}
    (hI : Interior ε P) (hrow : ∀ i, ∑ k, P i k = 1) (h : ∀ i j k, P i k = P j k) :
    hellingerScore ε ovo P = 0 :=
  hellingerScore_indep hn hε ovo hI hrow h

/-- Chi-square equals its offset `1/2` when interior row-stochastic predictions do not depend on
    the sample. -/
theorem chi2_indep_half (hn : 0 < n) {ε : ℝ} (hε : 0 ≤ ε) (ovo : Bool) {P : Fin n → Fin K → ℝ}
    (hI : Interior ε P) (hrow : ∀ i, ∑ k, P i k = 1) (h : ∀ i j k, P i k = P j k) :
    chi2Score ε ovo P = 1 / 2 :=
  chi2Score_indep hn hε ovo hI hrow h

/-- Non-vacuity of the hypotheses of D (and of C): a 2 × 2 interior row-stochastic matrix whose
    rows coincide. -/
example : ∃ P : Fin 2 → Fin 2 → ℝ, Interior (1 / 4) P ∧ (∀ i, ∑ k, P i k = 1) ∧
    (∀ i j k, P i k = P j k) ∧ ∀ i k, 0 < P i k := by
  refine ⟨fun _ _ => 1 / 2, fun _ _ => ⟨by norm_num, by norm_num⟩, fun _ => ?_, fun _ _ _ => rfl,
    fun _ _ => by norm_num⟩
  simp

/-! ## E. Balanced hard partition -/

/-- The mutual information (KL one-vs-all) of a balanced hard `K`-partition of `n` samples is
    `log K`, with the convention `0 · log 0 = 0` (which is `Real.log 0 = 0`).  Spec level: the hard
    assignment matrix lies on the boundary of the simplex, where the code value differs from this
    by the clipping slack. -/
theorem mi_balanced_partition (hn : 0 < n) (hK : 0 < K) (hdvd : K ∣ n) (lab : Fin n → Fin K)
    (hbal : ∀ k, (Finset.univ.filter (fun i => lab i = k)).card = n / K) :
    Spec.ova Spec.KL (fun i k => if lab i = k then (1 : ℝ) else 0) = Real.log K :=
  mi_balanced hn hK hdvd lab hbal

/-- Non-vacuity of E: four samples, two classes of two. -/
example : ∃ lab : Fin 4 → Fin 2, ∀ k, (Finset.univ.filter (fun i => lab i = k)).card = 4 / 2 :=
  ⟨fun i => ⟨i.val % 2, Nat.mod_lt _ (by norm_num)⟩, by decide⟩

/-! ## F. Appending an empty cluster

`addEmpty P` is `P` with an extra last column of zeros.  After clipping that column is the constant
`ε`, so the new "cluster" has proportion `ε`, not 0: KL (both modes), TV OvA and MMD OvA are exactly
unchanged, the others change by the explicit `O(ε)` terms below (the literal claim "unchanged" is
false for them at the level of the code, by about `1e-12` for the default `ε`). -/

/-- KL (OvA = MI, and OvO): unchanged, for every `P` and `ε`. -/
theorem kl_add_empty (ε : ℝ) (ovo : Bool) (P : Fin n → Fin K → ℝ) :
    klScore ε ovo (addEmpty P) = klScore ε ovo P :=
  klScore_addEmpty ε ovo P

/-- TV OvA: unchanged; TV OvO: increases by `2 ε · TV_OvA`. -/
theorem tv_add_empty {ε : ℝ} (h0 : 0 ≤ ε) (h1 : ε ≤ 1 / 2) (P : Fin n → Fin K → ℝ) :
    tvScore ε false (addEmpty P) = tvScore ε false P ∧
    tvScore ε true (addEmpty P) = tvScore ε true P + 2 * ε * tvScore ε false P :=
  ⟨tvScore_ova_addEmpty ε P, tvScore_ovo_addEmpty h0 h1 P⟩

/-- Hellinger OvA decreases by `ε`; OvO by `2 ε (1 - H_OvA) + ε²`. -/
theorem hellinger_add_empty (hn : 0 < n) {ε : ℝ} (h0 : 0 ≤ ε) (h1 : ε ≤ 1 / 2) (P : Fin n → Fin K → ℝ) :
    hellingerScore ε false (addEmpty P) = hellingerScore ε false P - ε ∧
    hellingerScore ε true (addEmpty P)
      = hellingerScore ε true P - 2 * ε * (1 - hellingerScore ε false P) - ε ^ 2 :=
  ⟨hellingerScore_ova_addEmpty hn h0 h1 P, hellingerScore_ovo_addEmpty hn h0 h1 P⟩

/-- Chi-square OvA increases by `ε / 2`; OvO by the explicit `O(ε)` term shown. -/
theorem chi2_add_empty (hn : 0 < n) {ε : ℝ} (h0 : 0 < ε) (h1 : ε ≤ 1 / 2) (P : Fin n → Fin K → ℝ) :
    chi2Score ε false (addEmpty P) = chi2Score ε false P + ε / 2 ∧
    chi2Score ε true (addEmpty P)
      = chi2Score ε true P + ε * chi2Score ε false P
        + ε / 2 * meanV (fun i => sumFin fun k =>
            mean0 (clipP ε P) k / (clipP ε P i k / mean0 (clipP ε P) k))
        + ε ^ 2 / 2 :=
  ⟨chi2Score_ova_addEmpty hn h0 h1 P, chi2Score_ovo_addEmpty hn h0 h1 P⟩

/-- MMD OvA: unchanged (any affinity); MMD OvO: increases by `2 ε · MMD_OvA` (symmetric affinity). -/
theorem mmd_add_empty {ε : ℝ} (h0 : 0 ≤ ε) (h1 : ε ≤ 1 / 2) (P : Fin n → Fin K → ℝ)
    (κ : Fin n → Fin n → ℝ) :
    mmdScore ε false (addEmpty P) κ = mmdScore ε false P κ ∧
    ((∀ i j, κ i j = κ j i) →
      mmdScore ε true (addEmpty P) κ = mmdScore ε true P κ + 2 * ε * mmdScore ε false P κ) :=
  ⟨mmdScore_ova_addEmpty ε P κ, fun hκ => mmdScore_ovo_addEmpty h0 h1 P κ hκ⟩

/-- The appended empty cluster receives zero gradient, in all five classes and both modes. -/
theorem grad_add_empty_zero {ε : ℝ} (hε : 0 ≤ ε) (ovo : Bool) (P : Fin n → Fin K → ℝ)
    (κ : Fin n → Fin n → ℝ) (i : Fin n) :
    klGrad ε ovo (addEmpty P) i (Fin.last K) = 0 ∧
    tvGrad ε ovo (addEmpty P) i (Fin.last K) = 0 ∧
    hellingerGrad ε ovo (addEmpty P) i (Fin.last K) = 0 ∧
    chi2Grad ε ovo (addEmpty P) i (Fin.last K) = 0 ∧
    mmdGrad ε ovo (addEmpty P) κ i (Fin.last K) = 0 :=
  ⟨klGrad_addEmpty_last hε ovo P i, tvGrad_addEmpty_last hε ovo P i,
    hellingerGrad_addEmpty_last hε ovo P i, chi2Grad_addEmpty_last hε ovo P i,
    mmdGrad_addEmpty_last hε ovo P κ i⟩

/-! ## G. Guards on the closed simplex -/

/-- For `0 < ε ≤ 1/2`, `n > 0` and *every* real matrix `P` (in particular one-hot rows), the
    clipped predictions and their column means lie in `[ε, 1-ε]`; hence every quantity the code
    divides by, takes the logarithm of, or takes the square root of (`p`, `π`, `√(p π)`, `p / π`)
    is strictly positive — over ℝ no totalised `x/0`, `log 0` is ever used, in IEEE arithmetic no
    `inf`/`nan` is produced by these operations.  (The MMD gradient's only other divisor,
    `delta + mask`, is guarded by the code's explicit `delta == 0` test.) -/
theorem closed_simplex_guards (hn : 0 < n) {ε : ℝ} (h0 : 0 < ε) (h1 : ε ≤ 1 / 2) (P : Fin n → Fin K → ℝ)
    (i : Fin n) (k : Fin K) :
    (ε ≤ clipP ε P i k ∧ clipP ε P i k ≤ 1 - ε) ∧
    (ε ≤ mean0 (clipP ε P) k ∧ mean0 (clipP ε P) k ≤ 1 - ε) ∧
    0 < Real.sqrt (clipP ε P i k * mean0 (clipP ε P) k) ∧
    0 < clipP ε P i k / mean0 (clipP ε P) k := by
  have hp := clipP_mem h1 P i k
  have hm := mean0_mem hn (clipP_mem h1 P) k
  have hp0 : 0 < clipP ε P i k := lt_of_lt_of_le h0 hp.1
  have hm0 : 0 < mean0 (clipP ε P) k := lt_of_lt_of_le h0 hm.1
  exact ⟨hp, hm, Real.sqrt_pos.mpr (mul_pos hp0 hm0), div_pos hp0 hm0⟩

end GemVerif.Props.C13
