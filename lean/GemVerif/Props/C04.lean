/-
  C04 — fit succeeds on every valid configuration and yields a coherent model.

  `Model/Api.lean` is the state machine of `gemclus/_base_gemini.py` (`fit / fit_predict / predict_proba / predict /
  score`) over an abstract model family `F` (forward pass `F.infer`, objective `F.gemini`, affinity `F.affinity`, one
  epoch of training `F.epoch`).  The theorems below hold for EVERY family, every number type `α` (IEEE doubles included)
  and all sizes unless they say ℝ; the ℝ-theorems add what needs real arithmetic: soft-max rows are probability vectors
  and `np.argmax` picks the first maximal entry.

  What is NOT a theorem: "the numerical code inside an epoch never raises" (numpy shape errors, POT assertions, …) — in
  the model `F.epoch` is a total function.  That part of the property is the configuration sweep of
  `harness/props/c04.py` on the real code (DESIGN 6, C04: partial by nature).
-/
import GemVerif.Lemmas.Api
import GemVerif.Props.C09

namespace GemVerif.Props.C04
open scoped BigOperators
open GemVerif Model.Api Model.Nets ApiLemmas

variable {α : Type} [RealLike α] {K : Nat} {X Y Aff Params Opt Rng : Type}

/-! ### `fit`: when it succeeds, and what it leaves behind -/

/-- In the model `fit` fails exactly for the three documented reasons: the hyper-parameters are rejected by validation,
    there are fewer samples than clusters, or the affinity cannot be computed (precomputed affinity not supplied). -/
theorem fit_ok_iff (F : Family α K X Y Aff Params Opt Rng) (e : Estimator Params Opt) (rng : Rng) (x : X)
    (y : Option Y) :
    (∃ e', fit F e rng x y = .ok e') ↔
      e.cfg.valid K = true ∧ K ≤ F.rows x ∧ (F.affinity x y).isSome = true := by
  unfold fit
  by_cases hv : e.cfg.valid K = true
  · by_cases hn : F.rows x < K
    · simp [hv, hn]
    · cases ha : F.affinity x y with
      | none => simp [hv, hn]
      | some aff => simp [hv, hn]; omega
  · simp [hv]

/-- After a successful `fit` the estimator carries `labels_ = argmax(_infer(X))` of the final weights,
    `n_iter_ = max_iter`, an optimiser of the class named by `solver`, and unchanged constructor arguments. -/
theorem fit_attributes (F : Family α K X Y Aff Params Opt Rng) {e e' : Estimator Params Opt} {rng : Rng} {x : X}
    {y : Option Y} (h : fit F e rng x y = .ok e') :
    e'.cfg = e.cfg ∧ ∃ f, e'.fitted = some f ∧ f.labels = (F.infer f.params true x).argmax ∧
      f.nIter = e.cfg.maxIter ∧ f.optimiser = optimiserOf e.cfg.solver := by
  unfold fit at h
  by_cases hv : e.cfg.valid K = true
  · by_cases hn : F.rows x < K
    · simp [hv, hn] at h
    · cases ha : F.affinity x y with
      | none => simp [hv, hn, ha] at h
      | some aff =>
        simp only [hv, hn, ha, Bool.not_true, Bool.false_eq_true, if_false] at h
        injection h with h
        subst h
        exact ⟨rfl, _, rfl, rfl, rfl, rfl⟩
  · simp [hv] at h

/-- `n_iter_ == max_iter`. -/
theorem n_iter_eq_max_iter (F : Family α K X Y Aff Params Opt Rng) {e e' : Estimator Params Opt} {rng : Rng} {x : X}
    {y : Option Y} (h : fit F e rng x y = .ok e') : e'.fitted.map (·.nIter) = some e.cfg.maxIter := by
  obtain ⟨_, f, hf, _, hn, _⟩ := fit_attributes F h
  simp [hf, hn]

/-- `type(optimiser_)` is `SGDOptimizer` for `solver="sgd"` and `AdamOptimizer` for `solver="adam"`. -/
theorem optimiser_matches_solver (F : Family α K X Y Aff Params Opt Rng) {e e' : Estimator Params Opt} {rng : Rng}
    {x : X} {y : Option Y} (h : fit F e rng x y = .ok e') :
    e'.fitted.map (·.optimiser) = some (optimiserOf e.cfg.solver) ∧
      optimiserOf .sgd = .SGDOptimizer ∧ optimiserOf .adam = .AdamOptimizer := by
  obtain ⟨_, f, hf, _, _, ho⟩ := fit_attributes F h
  simp [hf, ho, optimiserOf]

/-- A successful `fit` implies `n_clusters ≥ 1`, `max_iter ≥ 1` and at least `n_clusters` samples. -/
theorem fit_ok_bounds (F : Family α K X Y Aff Params Opt Rng) {e e' : Estimator Params Opt} {rng : Rng} {x : X}
    {y : Option Y} (h : fit F e rng x y = .ok e') : 1 ≤ K ∧ 1 ≤ e.cfg.maxIter ∧ K ≤ F.rows x := by
  obtain ⟨hv, hn, _⟩ := (fit_ok_iff F e rng x y).1 ⟨e', h⟩
  simp only [Config.valid, Bool.and_eq_true, decide_eq_true_eq] at hv
  exact ⟨hv.1.1, hv.1.2, hn⟩

/-! ### `predict`, `predict_proba`, `labels_` -/

/-- `predict = argmax ∘ predict_proba` (errors included: both raise `NotFittedError` before `fit`). -/
theorem predict_eq_argmax_predict_proba (F : Family α K X Y Aff Params Opt Rng) (e : Estimator Params Opt) (x : X) :
    predict F e x = (predictProba F e x).map Mat.argmax := by
  unfold predict predictProba
  cases e.fitted <;> rfl

/-- every entry of `np.argmax(P, axis=1)` is a column index, one entry per row — for every number type -/
theorem argmax_range (P : Mat α K) (hK : 1 ≤ K) : P.argmax.length = P.n ∧ ∀ c ∈ P.argmax, c < K := by
  refine ⟨by simp [Mat.argmax], fun c hc => ?_⟩
  simp only [Mat.argmax, List.mem_ofFn] at hc
  obtain ⟨i, rfl⟩ := hc
  exact argmaxRow_lt _ hK

/-- `labels_` has one entry per row of the predictions on the training data, each in `[0, n_clusters)`. -/
theorem labels_range (F : Family α K X Y Aff Params Opt Rng) {e e' : Estimator Params Opt} {rng : Rng} {x : X}
    {y : Option Y} (h : fit F e rng x y = .ok e') :
    ∃ f, e'.fitted = some f ∧ f.labels.length = (F.infer f.params true x).n ∧ ∀ c ∈ f.labels, c < K := by
  obtain ⟨_, f, hf, hl, _, _⟩ := fit_attributes F h
  have hK := (fit_ok_bounds F h).1
  exact ⟨f, hf, by rw [hl]; exact (argmax_range _ hK).1, by rw [hl]; exact (argmax_range _ hK).2⟩

/-- `predict(X_train) == labels_` whenever the forward pass does not depend on the `retain` flag. -/
theorem predict_train_eq_labels (F : Family α K X Y Aff Params Opt Rng)
    (hretain : ∀ θ x, F.infer θ true x = F.infer θ false x)
    {e e' : Estimator Params Opt} {rng : Rng} {x : X} {y : Option Y} (h : fit F e rng x y = .ok e') :
    ∃ f, e'.fitted = some f ∧ predict F e' x = .ok f.labels := by
  obtain ⟨_, f, hf, hl, _, _⟩ := fit_attributes F h
  refine ⟨f, hf, ?_⟩
  rw [predict_eq_argmax_predict_proba]
  simp [predictProba, hf, hl, hretain, Except.map]

/-- The forward passes of Linear / MLP / SparseMLP models ignore `retain` (it only decides whether `H_` is stored). -/
theorem concrete_families_ignore_retain {d h : Nat} :
    (∀ (init : LinearParams α d K) tr g θ x,
      (linearFamily init tr g).infer θ true x = (linearFamily init tr g).infer θ false x) ∧
    (∀ (init : MlpParams α d h K) tr g θ x,
      (mlpFamily init tr g).infer θ true x = (mlpFamily init tr g).infer θ false x) :=
  ⟨fun _ _ _ _ _ => rfl, fun _ _ _ _ _ => rfl⟩

/-- `fit_predict(X) = fit(X).labels_`. -/
theorem fit_predict_eq_labels (F : Family α K X Y Aff Params Opt Rng) {e e' : Estimator Params Opt} {rng : Rng}
    {x : X} {y : Option Y} (h : fit F e rng x y = .ok e') :
    ∃ f, e'.fitted = some f ∧ fitPredict F e rng x y = .ok (e', f.labels) := by
  obtain ⟨_, f, hf, _⟩ := fit_attributes F h
  exact ⟨f, hf, by simp [fitPredict, h, hf]⟩

/-- Before `fit`, `predict_proba`, `predict` (and hence `score`) raise `NotFittedError`. -/
theorem not_fitted (F : Family α K X Y Aff Params Opt Rng) (cfg : Config) (x : X) :
    predictProba F { cfg := cfg } x = .error .notFitted ∧ predict F { cfg := cfg } x = .error .notFitted :=
  ⟨rfl, rfl⟩

/-! ### `score` -/

omit [RealLike α] in
/-- `score(X, y) = gemini(predict_proba(X), affinity(X, y))` on any data, for a fitted estimator. -/
theorem score_eq_gemini (F : Family α K X Y Aff Params Opt Rng) (e : Estimator Params Opt) (x : X) (y : Option Y)
    {P : Mat α K} {aff : Aff} (hP : predictProba F e x = .ok P) (ha : F.affinity x y = some aff) :
    score F e x y = .ok (F.gemini P aff) := by
  simp [score, hP, ha]

/-- the same, after a successful `fit`, spelled out with the learned weights -/
theorem score_after_fit (F : Family α K X Y Aff Params Opt Rng) {e e' : Estimator Params Opt} {rng : Rng}
    {x x' : X} {y y' : Option Y} (h : fit F e rng x y = .ok e') {aff : Aff} (ha : F.affinity x' y' = some aff) :
    ∃ f, e'.fitted = some f ∧ score F e' x' y' = .ok (F.gemini (F.infer f.params false x') aff) := by
  obtain ⟨_, f, hf, _⟩ := fit_attributes F h
  exact ⟨f, hf, score_eq_gemini F e' x' y' (by simp [predictProba, hf]) ha⟩

/-! ### over ℝ: probability vectors and the arg-max -/

/-- Soft-max rows are probability vectors of length `K`: every entry in `(0, 1]`, the `K` entries sum to 1. -/
theorem softmax_row_is_probability_vector (z : Fin K → ℝ) (hK : 1 ≤ K) :
    (∀ k, 0 < softmaxRow z k ∧ softmaxRow z k ≤ 1) ∧ ∑ k, softmaxRow z k = 1 :=
  ⟨fun k => ⟨softmaxRow_pos z k, softmaxRow_le_one z k⟩, softmaxRow_sum z hK⟩

/-- `predict_proba` rows of the Linear, MLP, SparseMLP and Categorical forward passes are probability vectors,
    whatever the weights and the data. -/
theorem infer_rows_are_probability_vectors {n d h : Nat} (hK : 1 ≤ K) (Xd : Fin n → Fin d → ℝ)
    (W : Fin d → Fin K → ℝ) (b : Fin K → ℝ) (W1 : Fin d → Fin h → ℝ) (b1 : Fin h → ℝ) (W2 : Fin h → Fin K → ℝ)
    (b2 : Fin K → ℝ) (Ws : Fin d → Fin K → ℝ) (L : Fin n → Fin K → ℝ) (i : Fin n) :
    ((∀ k, 0 < linearInfer Xd W b i k) ∧ ∑ k, linearInfer Xd W b i k = 1) ∧
    ((∀ k, 0 < mlpInfer Xd W1 b1 W2 b2 i k) ∧ ∑ k, mlpInfer Xd W1 b1 W2 b2 i k = 1) ∧
    ((∀ k, 0 < sparseMlpInfer Xd W1 b1 W2 b2 Ws i k) ∧ ∑ k, sparseMlpInfer Xd W1 b1 W2 b2 Ws i k = 1) ∧
    ((∀ k, 0 < categoricalInfer L i k) ∧ ∑ k, categoricalInfer L i k = 1) :=
  ⟨⟨fun k => softmaxRow_pos _ k, softmaxRow_sum _ hK⟩, ⟨fun k => softmaxRow_pos _ k, softmaxRow_sum _ hK⟩,
   ⟨fun k => softmaxRow_pos _ k, softmaxRow_sum _ hK⟩, ⟨fun k => softmaxRow_pos _ k, softmaxRow_sum _ hK⟩⟩

/-- `np.argmax` of a non-empty row is an index of a maximal entry, and the FIRST one. -/
theorem argmax_is_first_maximum (z : Fin K → ℝ) (hK : 1 ≤ K) :
    ∃ h : argmaxRow z < K, (∀ j : Fin K, z j ≤ z ⟨argmaxRow z, h⟩) ∧
      (∀ j : Fin K, j.val < argmaxRow z → z j < z ⟨argmaxRow z, h⟩) :=
  argmaxRow_spec z hK

/-- The predicted cluster of a soft-max model is a cluster of maximal probability and of maximal logit. -/
theorem predict_is_most_probable (z : Fin K → ℝ) (hK : 1 ≤ K) :
    ∃ h : argmaxRow (softmaxRow z) < K, ∀ j : Fin K,
      softmaxRow z j ≤ softmaxRow z ⟨argmaxRow (softmaxRow z), h⟩ ∧ z j ≤ z ⟨argmaxRow (softmaxRow z), h⟩ := by
  obtain ⟨h, hmax, _⟩ := argmaxRow_spec (softmaxRow z) hK
  exact ⟨h, fun j => ⟨hmax j, (softmaxRow_le_iff z j _).1 (hmax j)⟩⟩

/-! ### Kauri: labels in `[0, max_clusters)` together with a tree (corollaries of C09) -/

/-- In every state satisfying the C09 invariants: one label per sample, every label below `max_clusters`, and the tree
    has at least its root (`2·leaves − 1 ≥ 1` nodes). -/
theorem kauri_labels_lt_max_clusters {β : Type} [RealLike β] {Xk : Nat → Nat → β} {p : Model.Kauri.Params}
    {s : Model.Kauri.FitState β} (h : KauriC09.FullInv Xk p s) (hK : 1 ≤ p.maxClusters) :
    s.labels.length = s.asg.n ∧ (∀ c ∈ s.labels, c < p.maxClusters) ∧ 1 ≤ s.tree.nNodes := by
  obtain ⟨hle, hmem⟩ := Props.C09.clusters_le_max_clusters h hK
  refine ⟨by simp [Model.Kauri.FitState.labels], fun c hc => lt_of_lt_of_le ((hmem c).1 hc) hle, ?_⟩
  have := h.inv.nNodes_eq; have := h.inv.nLeaves_pos; omega

/-- The same for the fitted state of the model's `Kauri.fit`, under `FindBestSplitSpec` (C08/C09's differential tie). -/
theorem kauri_fit_labels_lt_max_clusters {β : Type} [RealLike β] {κ Xk : Nat → Nat → β} {n : Nat}
    {p : Model.Kauri.Params} (hn : 1 ≤ n) (hmin : p.minLeaf ≤ n) (hK : 1 ≤ p.maxClusters)
    (hspec : KauriC09.FindBestSplitSpec κ Xk p) (draws : List (List Nat)) :
    (∀ c ∈ (Model.Kauri.fit κ Xk n p draws).labels, c < p.maxClusters) ∧
      1 ≤ (Model.Kauri.fit κ Xk n p draws).tree.nNodes :=
  let h := Props.C09.fit_invariant_of_spec hn hmin hspec draws
  ⟨(kauri_labels_lt_max_clusters h hK).2.1, (kauri_labels_lt_max_clusters h hK).2.2⟩

/-! ### the hypotheses are satisfiable: a concrete run of the state machine over `ℚ` -/

/-- a two-sample, two-cluster "linear" family over ℚ whose training returns fixed weights (soft-max replaced by the
    identity-like stub of `Rat.exp = 0` is irrelevant here: only the control flow is exercised) -/
example : ∃ e', fit (linearFamily (α := Rat) (K := 2) (d := 1) ⟨fun _ _ => 0, fun _ => 0⟩ id (fun _ _ => 0))
    { cfg := ⟨2, .sgd, true⟩ } () ⟨2, fun _ _ => 1⟩ none = .ok e' :=
  (fit_ok_iff _ _ _ _ _).2 ⟨by decide, by decide, rfl⟩

/-- too few samples: `fit` is rejected (3 clusters, 2 samples) -/
example : fit (linearFamily (α := Rat) (K := 3) (d := 1) ⟨fun _ _ => 0, fun _ => 0⟩ id (fun _ _ => 0))
    { cfg := ⟨2, .sgd, true⟩ } () ⟨2, fun _ _ => 1⟩ none = .error .tooFewSamples := rfl

end GemVerif.Props.C04
