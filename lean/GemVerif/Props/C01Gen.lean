/-
  C01 / C02 / C13 (companion) — the hand models of Model/Gemini.lean ARE what the Python source says now.

  `Gen/Geminis.lean` is regenerated on every run by translator/geminis.py from the bodies of `evaluate` of KLGEMINI,
  TVGEMINI, HellingerGEMINI, ChiSquareGEMINI (gemclus/gemini/_fdivergences.py) and MMDGEMINI
  (gemclus/gemini/_geomdistances.py) in /repo: FOUR definitions per class, one per value of (`self.ovo`,
  `return_grad`) — the two `if`s are folded —, a literal transcription of the NumPy statements into the untyped array
  language of GemVerif/Np.lean + Np2.lean (shapes are data; broadcasting, `@`, reductions, `np.clip`, masks, in-place
  updates, masked assignments and the N×K×K tensors of the one-vs-one TV follow NumPy's rules; anything NumPy would
  reject sets `ok := false`, and the returned arrays collect the `ok` of EVERY intermediate array).
  Unit `<cls>_<ova|ovo>` is the call with `return_grad=False` (value: the score, a 0-d array); unit
  `<cls>_<ova|ovo>_grad` is the call with `return_grad=True` (value: the pair (score, gradient)).

  Every theorem below says: the generated definition, applied to an `n × K` prediction array (`Arr.ofFn P`), the
  clipping constant `ε = self.epsilon` and (MMD) an `n × n` affinity (`Arr.ofFn κ`; the f-divergences never read their
  `affinity` argument, which is therefore arbitrary), raises no NumPy error, has the shape of the hand model's value
  and has, entry for entry, that value (`Arr.Eqv`) — for ALL sizes `n`, `K` (0 and 1 included), with ONE exception
  that the source itself makes: `MMDGEMINI(ovo=False)` with `return_grad=True` raises ZeroDivisionError on an empty
  batch (`1 / N` between Python integers), so its two theorems assume `0 < n` and `mmd_ova_grad_empty_raises` states
  the exception.
    * GENERIC theorems (`[RealLike α]`): both sides sum with `sumFin` in the same order, the equality holds by unfolding,
      hence for `Float` as well as for `ℝ`: KL (all), TV one-vs-all (all), Hellinger (all), χ² one-vs-all (all),
      χ² one-vs-one gradient, MMD scores (both modes, also as first component of the `_grad` units).
    * REAL-NUMBER theorems (`ℝ`): the source and the model associate differently, equal by algebra only:
      χ² one-vs-one score (`np.mean` of an `(n, 1)` array: sums of ONE term, `x + 0` vs `x`), TV one-vs-one (the outer
      product `(N,K,1) @ (N,1,K)` is a sum of one term), MMD one-vs-one gradient (`pi.T @ pi` is a sum of one term;
      `Lambda -= np.diag(np.diag(Lambda))` is `x - x` on the diagonal where the model writes 0), MMD one-vs-all gradient
      (`(np.eye(N) - 1/N) @ K @ (alpha - 1)` vs the model's `K(alpha-1)` minus its column means: distributivity).
  The proofs do not depend on which temporaries the source uses: they are `simp` over the unfolded definition, or (the
  two MMD gradients) unfold every `let` and name the NumPy EXPRESSIONS themselves (`name_expr`, Lemmas/Np2.lean), the
  diagonal of `Lambda` being removed either by `Lambda -= np.diag(np.diag(Lambda))` or by `np.fill_diagonal(Lambda, 0)`.
  The theorems of Props/C01.lean, C02*.lean, C13*.lean, stated about Model/Gemini.lean, therefore speak about the
  current source.  Not covered here: WassersteinGEMINI (loops and `ot.emd2`): differential check only.
-/
import GemVerif.Lemmas.Np2
import GemVerif.Lemmas.GeminiGen
import GemVerif.Gen.Geminis
import GemVerif.Model.Gemini

namespace GemVerif.Props.C01Gen
open GemVerif GemVerif.RealLike GemVerif.Np GemVerif.Np.Arr GemVerif.Model GemVerif.Lemmas.GeminiGen

set_option linter.unusedSimpArgs false

/-! ## Part 1 — every `RealLike` number type (IEEE doubles included) -/

section generic
variable {α : Type} [RealLike α] {n K : Nat}

/-! ### what the relation means -/

/-- Meaning of the relation used for scores: `A` is `Eqv` to the 0-d array holding `s` exactly when no NumPy error
    occurred while computing `A` (nor any other array of the call), `A` has the stored shape `(1, 1)` of a 0-d array
    and its entry is `s`. -/
theorem eqv_ofScalar_spelled_out (A : Arr α) (s : α) :
    Eqv A (ofScalar s) ↔ A.ok = true ∧ A.r = 1 ∧ A.c = 1 ∧ A.get 0 0 = s :=
  eqv_ofScalar_iff

/-- A returned array whose `flags` (the conjunction of the `ok` of all arrays computed during the call) is false is
    `Eqv` to nothing: a mutation of the source that makes ANY statement raise a shape error — also one the result does
    not depend on — cannot satisfy any theorem of this file. -/
theorem raised_not_eqv {β : Type} [RealLike β] (A B : Arr β) : ¬ Eqv (checked false A) B := by
  rintro ⟨hok, -⟩
  simp at hok

/-! ### KLGEMINI (gemclus/gemini/_fdivergences.py) -/

/-- `KLGEMINI(ovo=False).evaluate(P, ·)` as written in the source (`prediction_entropy - cluster_entropy` of the
    clipped predictions) returns exactly the model's `klScore ε false P`, as a 0-d array. -/
theorem kl_ova_eq (ε : α) (P : Fin n → Fin K → α) (A : Arr α) :
    Eqv (Gen.Geminis.kl_ova ε (ofFn P) A) (ofScalar (klScore ε false P)) := by
  apply eqv_ofScalar <;> simp [Gen.Geminis.kl_ova, sub, mul, klScore, clipP, mean0, meanV]

/-- With `return_grad=True` the first returned value of `KLGEMINI(ovo=False).evaluate` is the same score
    `klScore ε false P`. -/
theorem kl_ova_grad_fst_eq (ε : α) (P : Fin n → Fin K → α) (A : Arr α) :
    Eqv (Gen.Geminis.kl_ova_grad ε (ofFn P) A).1 (ofScalar (klScore ε false P)) := by
  apply eqv_ofScalar <;> simp [Gen.Geminis.kl_ova_grad, sub, mul, klScore, clipP, mean0, meanV]

/-- With `return_grad=True` the second returned value of `KLGEMINI(ovo=False).evaluate`
    (`(log p / N - log p_y / N) * clip_mask`) is the `n × K` array `klGrad ε false P` of the model. -/
theorem kl_ova_grad_snd_eq (ε : α) (P : Fin n → Fin K → α) (A : Arr α) :
    Eqv (Gen.Geminis.kl_ova_grad ε (ofFn P) A).2 (ofFn (klGrad ε false P)) := by
  apply eqv_ofFn <;> simp [Gen.Geminis.kl_ova_grad, sub, mul, klGrad, clipP, clipMask, mean0, meanV]

/-- `KLGEMINI(ovo=True).evaluate(P, ·)` as written in the source returns the model's `klScore ε true P`. -/
theorem kl_ovo_eq (ε : α) (P : Fin n → Fin K → α) (A : Arr α) :
    Eqv (Gen.Geminis.kl_ovo ε (ofFn P) A) (ofScalar (klScore ε true P)) := by
  apply eqv_ofScalar <;> simp [Gen.Geminis.kl_ovo, sub, mul, klScore, clipP, mean0, meanV]

/-- With `return_grad=True` the first returned value of `KLGEMINI(ovo=True).evaluate` is `klScore ε true P`. -/
theorem kl_ovo_grad_fst_eq (ε : α) (P : Fin n → Fin K → α) (A : Arr α) :
    Eqv (Gen.Geminis.kl_ovo_grad ε (ofFn P) A).1 (ofScalar (klScore ε true P)) := by
  apply eqv_ofScalar <;> simp [Gen.Geminis.kl_ovo_grad, sub, mul, add, div, klScore, clipP, mean0, meanV]

/-- With `return_grad=True` the second returned value of `KLGEMINI(ovo=True).evaluate` is the model's
    `klGrad ε true P`. -/
theorem kl_ovo_grad_snd_eq (ε : α) (P : Fin n → Fin K → α) (A : Arr α) :
    Eqv (Gen.Geminis.kl_ovo_grad ε (ofFn P) A).2 (ofFn (klGrad ε true P)) := by
  apply eqv_ofFn <;> simp [Gen.Geminis.kl_ovo_grad, sub, mul, add, div, klGrad, clipP, clipMask, mean0, meanV]

/-! ### TVGEMINI, one-vs-all -/

/-- `TVGEMINI(ovo=False).evaluate(P, ·)` as written in the source (`0.5 * Σ_k mean_i |p_ik - p_k|`) returns the
    model's `tvScore ε false P`. -/
theorem tv_ova_eq (ε : α) (P : Fin n → Fin K → α) (A : Arr α) :
    Eqv (Gen.Geminis.tv_ova ε (ofFn P) A) (ofScalar (tvScore ε false P)) := by
  apply eqv_ofScalar <;> simp [Gen.Geminis.tv_ova, sub, tvScore, clipP, mean0, meanV]

/-- With `return_grad=True` the first returned value of `TVGEMINI(ovo=False).evaluate` is `tvScore ε false P`. -/
theorem tv_ova_grad_fst_eq (ε : α) (P : Fin n → Fin K → α) (A : Arr α) :
    Eqv (Gen.Geminis.tv_ova_grad ε (ofFn P) A).1 (ofScalar (tvScore ε false P)) := by
  apply eqv_ofScalar <;> simp [Gen.Geminis.tv_ova_grad, sub, tvScore, clipP, mean0, meanV]

/-- With `return_grad=True` the second returned value of `TVGEMINI(ovo=False).evaluate`
    (`0.5 * (sign - mean sign) / N * clip_mask`) is the model's `tvGrad ε false P`. -/
theorem tv_ova_grad_snd_eq (ε : α) (P : Fin n → Fin K → α) (A : Arr α) :
    Eqv (Gen.Geminis.tv_ova_grad ε (ofFn P) A).2 (ofFn (tvGrad ε false P)) := by
  apply eqv_ofFn <;> simp [Gen.Geminis.tv_ova_grad, sub, mul, tvGrad, clipP, clipMask, mean0, meanV]

/-! ### HellingerGEMINI -/

/-- `HellingerGEMINI(ovo=False).evaluate(P, ·)` as written in the source (`1 - mean_i Σ_k sqrt(p_ik p_k)`) returns
    the model's `hellingerScore ε false P`. -/
theorem hellinger_ova_eq (ε : α) (P : Fin n → Fin K → α) (A : Arr α) :
    Eqv (Gen.Geminis.hellinger_ova ε (ofFn P) A) (ofScalar (hellingerScore ε false P)) := by
  apply eqv_ofScalar <;> simp [Gen.Geminis.hellinger_ova, mul, hellingerScore, clipP, mean0, meanV]

/-- With `return_grad=True` the first returned value of `HellingerGEMINI(ovo=False).evaluate` is
    `hellingerScore ε false P`. -/
theorem hellinger_ova_grad_fst_eq (ε : α) (P : Fin n → Fin K → α) (A : Arr α) :
    Eqv (Gen.Geminis.hellinger_ova_grad ε (ofFn P) A).1 (ofScalar (hellingerScore ε false P)) := by
  apply eqv_ofScalar <;> simp [Gen.Geminis.hellinger_ova_grad, mul, add, div, hellingerScore, clipP, mean0, meanV]

/-- With `return_grad=True` the second returned value of `HellingerGEMINI(ovo=False).evaluate` (including the in-place
    `gradients /= y_pred.shape[0]`) is the model's `hellingerGrad ε false P`. -/
theorem hellinger_ova_grad_snd_eq (ε : α) (P : Fin n → Fin K → α) (A : Arr α) :
    Eqv (Gen.Geminis.hellinger_ova_grad ε (ofFn P) A).2 (ofFn (hellingerGrad ε false P)) := by
  apply eqv_ofFn <;> simp [Gen.Geminis.hellinger_ova_grad, mul, add, div, hellingerGrad, clipP, clipMask, mean0, meanV]

/-- `HellingerGEMINI(ovo=True).evaluate(P, ·)` as written in the source (`1 - mean_i (Σ_k sqrt(p_ik p_k))²`) returns
    the model's `hellingerScore ε true P`. -/
theorem hellinger_ovo_eq (ε : α) (P : Fin n → Fin K → α) (A : Arr α) :
    Eqv (Gen.Geminis.hellinger_ovo ε (ofFn P) A) (ofScalar (hellingerScore ε true P)) := by
  apply eqv_ofScalar <;> simp [Gen.Geminis.hellinger_ovo, mul, hellingerScore, clipP, mean0, meanV]

/-- With `return_grad=True` the first returned value of `HellingerGEMINI(ovo=True).evaluate` is
    `hellingerScore ε true P`. -/
theorem hellinger_ovo_grad_fst_eq (ε : α) (P : Fin n → Fin K → α) (A : Arr α) :
    Eqv (Gen.Geminis.hellinger_ovo_grad ε (ofFn P) A).1 (ofScalar (hellingerScore ε true P)) := by
  apply eqv_ofScalar <;> simp [Gen.Geminis.hellinger_ovo_grad, mul, add, div, hellingerScore, clipP, mean0, meanV]

/-- With `return_grad=True` the second returned value of `HellingerGEMINI(ovo=True).evaluate` (the `(-1, 1)` reshape
    of the squared estimates, their square root, the in-place division) is the model's `hellingerGrad ε true P`. -/
theorem hellinger_ovo_grad_snd_eq (ε : α) (P : Fin n → Fin K → α) (A : Arr α) :
    Eqv (Gen.Geminis.hellinger_ovo_grad ε (ofFn P) A).2 (ofFn (hellingerGrad ε true P)) := by
  apply eqv_ofFn <;> simp [Gen.Geminis.hellinger_ovo_grad, mul, add, div, hellingerGrad, clipP, clipMask, mean0, meanV]

/-! ### ChiSquareGEMINI -/

/-- `ChiSquareGEMINI(ovo=False).evaluate(P, ·)` as written in the source (`0.5 * mean_i Σ_k p_ik² / p_k`) returns the
    model's `chi2Score ε false P`. -/
theorem chi2_ova_eq (ε : α) (P : Fin n → Fin K → α) (A : Arr α) :
    Eqv (Gen.Geminis.chi2_ova ε (ofFn P) A) (ofScalar (chi2Score ε false P)) := by
  apply eqv_ofScalar <;> simp [Gen.Geminis.chi2_ova, mul, div, chi2Score, clipP, mean0, meanV]

/-- With `return_grad=True` the first returned value of `ChiSquareGEMINI(ovo=False).evaluate` is
    `chi2Score ε false P`. -/
theorem chi2_ova_grad_fst_eq (ε : α) (P : Fin n → Fin K → α) (A : Arr α) :
    Eqv (Gen.Geminis.chi2_ova_grad ε (ofFn P) A).1 (ofScalar (chi2Score ε false P)) := by
  apply eqv_ofScalar <;> simp [Gen.Geminis.chi2_ova_grad, sub, mul, div, chi2Score, clipP, mean0, meanV]

/-- With `return_grad=True` the second returned value of `ChiSquareGEMINI(ovo=False).evaluate` is the model's
    `chi2Grad ε false P`. -/
theorem chi2_ova_grad_snd_eq (ε : α) (P : Fin n → Fin K → α) (A : Arr α) :
    Eqv (Gen.Geminis.chi2_ova_grad ε (ofFn P) A).2 (ofFn (chi2Grad ε false P)) := by
  apply eqv_ofFn <;> simp [Gen.Geminis.chi2_ova_grad, sub, mul, div, chi2Grad, clipP, clipMask, mean0, meanV]

/-- With `return_grad=True` the second returned value of `ChiSquareGEMINI(ovo=True).evaluate` (`2 β c - α / c / c +
    mean(2 α / c - β c c)`, divided in place by `N`, halved, masked) is the model's `chi2Grad ε true P`. -/
theorem chi2_ovo_grad_snd_eq (ε : α) (P : Fin n → Fin K → α) (A : Arr α) :
    Eqv (Gen.Geminis.chi2_ovo_grad ε (ofFn P) A).2 (ofFn (chi2Grad ε true P)) := by
  apply eqv_ofFn <;> simp [Gen.Geminis.chi2_ovo_grad, sub, mul, add, div, chi2Grad, clipP, clipMask, mean0, meanV]

/-! ### MMDGEMINI (gemclus/gemini/_geomdistances.py): scores -/

/-- `MMDGEMINI(ovo=False).evaluate(P, κ)` as written in the source (`alpha`, `gamma = (κ / N²) @ alpha`,
    `delta = sqrt(max(a + c - 2 b, 0))`, `np.dot(pi, delta).squeeze()`) returns the model's `mmdScore ε false P κ`. -/
theorem mmd_ova_eq (ε : α) (P : Fin n → Fin K → α) (κ : Fin n → Fin n → α) :
    Eqv (Gen.Geminis.mmd_ova ε (ofFn P) (ofFn κ)) (ofScalar (mmdScore ε false P κ)) := by
  apply eqv_ofScalar <;>
    simp [Gen.Geminis.mmd_ova, sub, mul, add, div, mmdScore, mmdDeltaOva, mmdGamma, mmdAlpha, clipP, mean0]

/-- With `return_grad=True` and at least one sample, the first returned value of `MMDGEMINI(ovo=False).evaluate` is
    `mmdScore ε false P κ`.  (`0 < n` is needed: see `mmd_ova_grad_empty_raises`.) -/
theorem mmd_ova_grad_fst_eq (hn : 0 < n) (ε : α) (P : Fin n → Fin K → α) (κ : Fin n → Fin n → α) :
    Eqv (Gen.Geminis.mmd_ova_grad ε (ofFn P) (ofFn κ)).1 (ofScalar (mmdScore ε false P κ)) := by
  apply eqv_ofScalar <;>
    simp [Gen.Geminis.mmd_ova_grad, sub, mul, add, div, mmdScore, mmdDeltaOva, mmdGamma, mmdAlpha, clipP, mean0,
      Nat.pos_iff_ne_zero.mp hn]

/-- On an EMPTY batch (`n = 0`) `MMDGEMINI(ovo=False).evaluate(P, κ, return_grad=True)` raises: the source computes
    `1 / N` between Python integers (`np.eye(N) - 1 / N`), a ZeroDivisionError — unlike every other unit, which returns
    NaNs / empty arrays there.  Hence the hypothesis `0 < n` of the two theorems about this unit. -/
theorem mmd_ova_grad_empty_raises (ε : α) (P : Fin 0 → Fin K → α) (κ : Fin 0 → Fin 0 → α) :
    (Gen.Geminis.mmd_ova_grad ε (ofFn P) (ofFn κ)).1.ok = false ∧
    (Gen.Geminis.mmd_ova_grad ε (ofFn P) (ofFn κ)).2.ok = false := by
  constructor <;> simp [Gen.Geminis.mmd_ova_grad]

/-- `MMDGEMINI(ovo=True).evaluate(P, κ)` as written in the source (`omega = alpha.T @ gamma`, its diagonal `A`,
    `delta = sqrt(max(-2 omega + A + A.T, 0))`, `(pi @ delta @ pi.T).squeeze()`) returns the model's
    `mmdScore ε true P κ`. -/
theorem mmd_ovo_eq (ε : α) (P : Fin n → Fin K → α) (κ : Fin n → Fin n → α) :
    Eqv (Gen.Geminis.mmd_ovo ε (ofFn P) (ofFn κ)) (ofScalar (mmdScore ε true P κ)) := by
  apply eqv_ofScalar <;>
    simp [Gen.Geminis.mmd_ovo, add, div, mmdScore, mmdDeltaOvo, mmdGamma, mmdAlpha, clipP, mean0]

/-- With `return_grad=True` the first returned value of `MMDGEMINI(ovo=True).evaluate` is `mmdScore ε true P κ` (the
    in-place updates of `Lambda` and `gradient` all keep their shapes: no error). -/
theorem mmd_ovo_grad_fst_eq (ε : α) (P : Fin n → Fin K → α) (κ : Fin n → Fin n → α) :
    Eqv (Gen.Geminis.mmd_ovo_grad ε (ofFn P) (ofFn κ)).1 (ofScalar (mmdScore ε true P κ)) := by
  apply eqv_ofScalar <;>
    simp [Gen.Geminis.mmd_ovo_grad, sub, mul, add, div, mmdScore, mmdDeltaOvo, mmdGamma, mmdAlpha, clipP, mean0]

/-- instance at `Float`: the generated KL gradient is the model's, double for double (non-vacuity of "every
    `RealLike`") -/
example (ε : Float) (P : Fin n → Fin K → Float) (A : Arr Float) :
    Eqv (Gen.Geminis.kl_ovo_grad ε (ofFn P) A).2 (ofFn (klGrad ε true P)) :=
  kl_ovo_grad_snd_eq ε P A

end generic

/-! ## Part 2 — real numbers (the source and the model associate differently) -/

section real
variable {n K : Nat}

/-! ### ChiSquareGEMINI one-vs-one score -/

/-- Over ℝ, `ChiSquareGEMINI(ovo=True).evaluate(P, ·)` as written in the source (`0.5 * np.mean(alpha * beta)` with
    `(n, 1)` arrays `alpha`, `beta`) returns the model's `chi2Score ε true P`. -/
theorem chi2_ovo_eq (ε : ℝ) (P : Fin n → Fin K → ℝ) (A : Arr ℝ) :
    Eqv (Gen.Geminis.chi2_ovo ε (ofFn P) A) (ofScalar (chi2Score ε true P)) := by
  apply eqv_ofScalar <;> simp [Gen.Geminis.chi2_ovo, mul, div, chi2Score, clipP, mean0, meanV]

/-- Over ℝ, with `return_grad=True` the first returned value of `ChiSquareGEMINI(ovo=True).evaluate` is
    `chi2Score ε true P`. -/
theorem chi2_ovo_grad_fst_eq (ε : ℝ) (P : Fin n → Fin K → ℝ) (A : Arr ℝ) :
    Eqv (Gen.Geminis.chi2_ovo_grad ε (ofFn P) A).1 (ofScalar (chi2Score ε true P)) := by
  apply eqv_ofScalar <;> simp [Gen.Geminis.chi2_ovo_grad, sub, mul, add, div, chi2Score, clipP, mean0, meanV]

/-! ### TVGEMINI one-vs-one (N×K×K tensors) -/

/-- Over ℝ, `TVGEMINI(ovo=True).evaluate(P, ·)` as written in the source (the `(N,K,1) @ (N,1,K)` outer products, minus
    their `axes=[0,2,1]` transposes, `0.5 * Σ_ab mean_i |·|`) returns the model's `tvScore ε true P`. -/
theorem tv_ovo_eq (ε : ℝ) (P : Fin n → Fin K → ℝ) (A : Arr ℝ) :
    Eqv (Gen.Geminis.tv_ovo ε (ofFn P) A) (ofScalar (tvScore ε true P)) := by
  apply eqv_ofScalar <;> simp [Gen.Geminis.tv_ovo, Arr3.sub, tvScore, clipP, mean0, meanV]

/-- Over ℝ, with `return_grad=True` the first returned value of `TVGEMINI(ovo=True).evaluate` is `tvScore ε true P`
    (the batched products and the two `np.squeeze(·, axis)` raise no error, whatever `n` and `K`). -/
theorem tv_ovo_grad_fst_eq (ε : ℝ) (P : Fin n → Fin K → ℝ) (A : Arr ℝ) :
    Eqv (Gen.Geminis.tv_ovo_grad ε (ofFn P) A).1 (ofScalar (tvScore ε true P)) := by
  apply eqv_ofScalar <;> simp [Gen.Geminis.tv_ovo_grad, add, Arr3.sub, tvScore, clipP, mean0, meanV]

/-- Over ℝ, with `return_grad=True` the second returned value of `TVGEMINI(ovo=True).evaluate` (`base_grad`, its
    antisymmetrisation, the two batched products with `extended_p_y`ᵀ and `extended_p_y_x`ᵀ, squeezed and summed) is
    the model's `tvGrad ε true P`. -/
theorem tv_ovo_grad_snd_eq (ε : ℝ) (P : Fin n → Fin K → ℝ) (A : Arr ℝ) :
    Eqv (Gen.Geminis.tv_ovo_grad ε (ofFn P) A).2 (ofFn (tvGrad ε true P)) := by
  apply eqv_ofFn <;> simp [Gen.Geminis.tv_ovo_grad, mul, add, Arr3.sub, tvGrad, clipP, clipMask, mean0, meanV]

/-! ### MMDGEMINI gradients -/

/-- Over ℝ, with `return_grad=True` and at least one sample, the second returned value of
    `MMDGEMINI(ovo=False).evaluate` —
    `tau_grad = (np.eye(N) - 1/N) @ normalised_kernel @ (alpha - 1)`, divided by `delta + (delta == 0)`, columns with
    `delta == 0` set to 0, masked — is the model's `mmdGrad ε false P κ`. -/
theorem mmd_ova_grad_snd_eq (hn : 0 < n) (ε : ℝ) (P : Fin n → Fin K → ℝ) (κ : Fin n → Fin n → ℝ) :
    Eqv (Gen.Geminis.mmd_ova_grad ε (ofFn P) (ofFn κ)).2 (ofFn (mmdGrad ε false P κ)) := by
  unfold Gen.Geminis.mmd_ova_grad
  -- all `let`s are unfolded: what follows speaks about the NumPy EXPRESSIONS of the source, whatever temporaries name them
  dsimp only
  have hy : IsMat (Arr.clip (ofFn P) ε (1 - ε)) (clipP ε P) := by
    refine ⟨?_, ?_, ?_, ?_⟩ <;> simp [clipP]
  name_expr y1 := Arr.clip (ofFn P) ε (1 - ε) at hy
  obtain ⟨hy_ok, hy_r, hy_c, hy_get⟩ := hy
  subst hy_r
  have hpi : IsRow (meanAxis0 y1) (mean0 (clipP ε P)) := by
    refine ⟨?_, ?_, ?_, ?_⟩ <;> simp [mean0, hy_ok, hy_c, hy_get]
  name_expr pi := meanAxis0 y1 at hpi
  obtain ⟨hpi_ok, hpi_r, hpi_c, hpi_get⟩ := hpi
  have hal : IsMat (div y1 pi) (mmdAlpha ε P) := by
    refine ⟨?_, ?_, ?_, ?_⟩ <;>
      simp [div, mmdAlpha, hy_ok, hy_c, hy_get, hpi_ok, hpi_r, hpi_c, hpi_get]
  name_expr alpha := div y1 pi at hal
  obtain ⟨hal_ok, hal_r, hal_c, hal_get⟩ := hal
  have hnk : IsMat (divs (ofFn κ) (nat y1.r * nat y1.r)) (fun i j : Fin y1.r => κ i j / ((y1.r : ℝ) * y1.r)) := by
    refine ⟨?_, ?_, ?_, ?_⟩ <;> simp
  name_expr nk := divs (ofFn κ) (nat y1.r * nat y1.r) at hnk
  obtain ⟨hnk_ok, hnk_r, hnk_c, hnk_get⟩ := hnk
  have hga : IsMat (matmul nk alpha) (mmdGamma ε P κ) := by
    refine ⟨?_, ?_, ?_, ?_⟩ <;>
      simp [mmdGamma, hnk_ok, hnk_r, hnk_c, hnk_get, hal_ok, hal_r, hal_c, hal_get]
  name_expr gamma := matmul nk alpha at hga
  obtain ⟨hga_ok, hga_r, hga_c, hga_get⟩ := hga
  have habc : (mul alpha gamma).ok = true ∧ (sumAxis0 (mul alpha gamma)).ok = true ∧ (sumAxis0 gamma).ok = true ∧
      (sumAll nk).ok = true := by
    simp [mul, hnk_ok, hal_ok, hal_r, hal_c, hga_ok, hga_r, hga_c]
  have hde : IsRow (sqrt (maximum0 (sub (add (sumAxis0 (mul alpha gamma)) (sumAll nk)) (smul (nat 2) (sumAxis0 gamma)))))
      (mmdDeltaOva ε P κ) := by
    refine ⟨?_, ?_, ?_, ?_⟩ <;>
      simp [add, sub, mul, mmdDeltaOva, hnk_ok, hnk_r, hnk_c, hnk_get,
        hal_ok, hal_r, hal_c, hal_get, hga_ok, hga_r, hga_c, hga_get]
  name_expr delta := sqrt (maximum0 (sub (add (sumAxis0 (mul alpha gamma)) (sumAll nk)) (smul (nat 2) (sumAxis0 gamma)))) at hde
  obtain ⟨hde_ok, hde_r, hde_c, hde_get⟩ := hde
  have hval_ok : (squeeze0 (matvec pi delta)).ok = true := by
    simp [hpi_ok, hpi_r, hpi_c, hde_ok, hde_r, hde_c]
  have htau : IsMat (matmul (matmul (subs (eye y1.r) (1 / nat y1.r)) nk) (subs alpha 1)) (fun (i : Fin y1.r) (k : Fin K) =>
      (∑ j, κ i j / ((y1.r : ℝ) * y1.r) * (mmdAlpha ε P j k - 1))
        - (∑ i', ∑ j, κ i' j / ((y1.r : ℝ) * y1.r) * (mmdAlpha ε P j k - 1)) / y1.r) := by
    refine ⟨?_, ?_, ?_, ?_⟩
    · simp [hnk_ok, hnk_r, hnk_c, hal_ok, hal_r, hal_c]
    · simp [hnk_ok, hnk_r, hnk_c, hal_ok, hal_r, hal_c]
    · simp [hnk_ok, hnk_r, hnk_c, hal_ok, hal_r, hal_c]
    · intro i k
      simp [hnk_ok, hnk_r, hnk_c, hnk_get, hal_ok, hal_r, hal_c, hal_get]
      refine (centering_matmul _ _ _ i).trans ?_
      ring
  name_expr tau_grad := matmul (matmul (subs (eye y1.r) (1 / nat y1.r)) nk) (subs alpha 1) at htau
  obtain ⟨htau_ok, htau_r, htau_c, htau_get⟩ := htau
  apply eqv_ofFn
  · simp [add, mul, div, hy_ok, hnk_ok, hnk_r, hnk_c, hpi_ok, hpi_r, hpi_c, hal_ok, hal_r, hal_c, hga_ok, hga_r, hga_c, habc,
      hde_ok, hde_r, hde_c, hval_ok, htau_ok, htau_r, htau_c, Nat.pos_iff_ne_zero.mp hn]
  · simp [add, mul, div, hde_r, hde_c, htau_r, htau_c]
  · simp [add, mul, div, hde_r, hde_c, htau_r, htau_c]
  · intro i k
    simp [add, mul, div, hde_r, hde_c, hde_get, htau_r, htau_c, htau_get, mmdGrad,
      clipMask, meanV]
    split_ifs with h <;> simp [h, ofBool]

/-- Over ℝ, with `return_grad=True` the second returned value of `MMDGEMINI(ovo=True).evaluate` —
    `Lambda = (pi.T @ pi) / (delta + np.eye(K))`, its diagonal removed in place, `Lambda[delta == 0] = 0`, then the six
    in-place updates of `gradient`, masked — is the model's `mmdGrad ε true P κ`. -/
theorem mmd_ovo_grad_snd_eq (ε : ℝ) (P : Fin n → Fin K → ℝ) (κ : Fin n → Fin n → ℝ) :
    Eqv (Gen.Geminis.mmd_ovo_grad ε (ofFn P) (ofFn κ)).2 (ofFn (mmdGrad ε true P κ)) := by
  unfold Gen.Geminis.mmd_ovo_grad
  -- all `let`s are unfolded: what follows speaks about the NumPy EXPRESSIONS of the source, whatever temporaries name them
  dsimp only
  have hy : IsMat (Arr.clip (ofFn P) ε (1 - ε)) (clipP ε P) := by
    refine ⟨?_, ?_, ?_, ?_⟩ <;> simp [clipP]
  name_expr y1 := Arr.clip (ofFn P) ε (1 - ε) at hy
  obtain ⟨hy_ok, hy_r, hy_c, hy_get⟩ := hy
  subst hy_r
  have hpi : IsRow (meanAxis0 y1) (mean0 (clipP ε P)) := by
    refine ⟨?_, ?_, ?_, ?_⟩ <;> simp [mean0, hy_ok, hy_c, hy_get]
  name_expr pi := meanAxis0 y1 at hpi
  obtain ⟨hpi_ok, hpi_r, hpi_c, hpi_get⟩ := hpi
  have hal : IsMat (div y1 pi) (mmdAlpha ε P) := by
    refine ⟨?_, ?_, ?_, ?_⟩ <;>
      simp [div, mmdAlpha, hy_ok, hy_c, hy_get, hpi_ok, hpi_r, hpi_c, hpi_get]
  name_expr alpha := div y1 pi at hal
  obtain ⟨hal_ok, hal_r, hal_c, hal_get⟩ := hal
  have hnk_ok : (divs (ofFn κ) (nat y1.r * nat y1.r)).ok = true := by simp
  have hga : IsMat (matmul (divs (ofFn κ) (nat y1.r * nat y1.r)) alpha) (mmdGamma ε P κ) := by
    refine ⟨?_, ?_, ?_, ?_⟩ <;> simp [mmdGamma, hal_ok, hal_r, hal_c, hal_get]
  name_expr gamma := matmul (divs (ofFn κ) (nat y1.r * nat y1.r)) alpha at hga
  obtain ⟨hga_ok, hga_r, hga_c, hga_get⟩ := hga
  have hom : IsMat (matmul (transpose alpha) gamma) (fun a b : Fin K => ∑ i, mmdAlpha ε P i a * mmdGamma ε P κ i b) := by
    refine ⟨?_, ?_, ?_, ?_⟩ <;>
      simp [hal_ok, hal_r, hal_c, hal_get, hga_ok, hga_r, hga_c, hga_get]
  name_expr omega := matmul (transpose alpha) gamma at hom
  obtain ⟨hom_ok, hom_r, hom_c, hom_get⟩ := hom
  have hA : IsRow (reshapeRow (diagVec omega)) (fun b : Fin K => ∑ i, mmdAlpha ε P i b * mmdGamma ε P κ i b) := by
    refine ⟨?_, ?_, ?_, ?_⟩ <;> simp [hom_ok, hom_r, hom_c, hom_get]
  name_expr A := reshapeRow (diagVec omega) at hA
  obtain ⟨hA_ok, hA_r, hA_c, hA_get⟩ := hA
  have hde : IsMat (sqrt (maximum0 (add (add (smul (-(nat 2)) omega) A) (transpose A)))) (mmdDeltaOvo ε P κ) := by
    refine ⟨?_, ?_, ?_, ?_⟩ <;>
      simp [add, mmdDeltaOvo, hom_ok, hom_r, hom_c, hom_get, hA_ok, hA_r, hA_c, hA_get]
  name_expr delta := sqrt (maximum0 (add (add (smul (-(nat 2)) omega) A) (transpose A))) at hde
  obtain ⟨hde_ok, hde_r, hde_c, hde_get⟩ := hde
  have hval_ok : (squeeze0 (matmul (matmul pi delta) (transpose pi))).ok = true := by
    simp [hpi_ok, hpi_r, hpi_c, hde_ok, hde_r, hde_c]
  -- Lambda = (pi.T @ pi) / (delta + np.eye(len(delta)))
  have hLam : IsMat (div (matmul (transpose pi) pi) (add delta (eye delta.r))) (fun a b : Fin K =>
      mean0 (clipP ε P) a * mean0 (clipP ε P) b / (mmdDeltaOvo ε P κ a b + if a = b then 1 else 0)) := by
    refine ⟨?_, ?_, ?_, ?_⟩
    · simp [add, div, hpi_ok, hpi_r, hpi_c, hde_ok, hde_r, hde_c]
    · simp [add, div, hpi_ok, hpi_r, hpi_c, hde_ok, hde_r, hde_c]
    · simp [add, div, hpi_ok, hpi_r, hpi_c, hde_ok, hde_r, hde_c]
    · intro a b
      have hv : ((a : ℕ) = b) ↔ a = b := Fin.val_inj
      simp [add, div, hpi_ok, hpi_r, hpi_c, hpi_get, hde_ok, hde_r, hde_c, hde_get, hv]
  name_expr Lambda := div (matmul (transpose pi) pi) (add delta (eye delta.r)) at hLam
  obtain ⟨hLam_ok, hLam_r, hLam_c, hLam_get⟩ := hLam
  -- its diagonal removed: `Lambda -= np.diag(np.diag(Lambda))` (`x - x` on the diagonal) or `np.fill_diagonal(Lambda, 0)`
  have hL1 : IsMat (inPlace Lambda (sub Lambda (diagMat (diagVec Lambda)))) (fun a b : Fin K => if a = b then 0 else
      mean0 (clipP ε P) a * mean0 (clipP ε P) b / (mmdDeltaOvo ε P κ a b + if a = b then 1 else 0)) := by
    refine ⟨?_, ?_, ?_, ?_⟩
    · simp [sub, hLam_ok, hLam_r, hLam_c]
    · simp [sub, hLam_ok, hLam_r, hLam_c]
    · simp [sub, hLam_ok, hLam_r, hLam_c]
    · intro a b
      simp [sub, hLam_ok, hLam_r, hLam_c, hLam_get]
      by_cases hab : a = b
      · subst hab; simp [hLam_get]
      · have hv : (a : ℕ) ≠ b := fun h => hab (Fin.ext h)
        simp [hab, hv, hLam_get]
  have hL1' : IsMat (fillDiagonal Lambda 0) (fun a b : Fin K => if a = b then 0 else
      mean0 (clipP ε P) a * mean0 (clipP ε P) b / (mmdDeltaOvo ε P κ a b + if a = b then 1 else 0)) := by
    refine ⟨?_, ?_, ?_, ?_⟩
    · simp [hLam_ok]
    · simp [hLam_r]
    · simp [hLam_c]
    · intro a b
      have hv : ((a : ℕ) = b) ↔ a = b := Fin.val_inj
      simp [hLam_get, hv]
  name_expr Lambda1 := inPlace Lambda (sub Lambda (diagMat (diagVec Lambda))) at hL1
  name_expr Lambda1' := fillDiagonal Lambda 0 at hL1'
  -- `Lambda[delta == 0] = 0`
  have hL2 : ∀ L1 : Arr ℝ, IsMat L1 (fun a b : Fin K => if a = b then 0 else
        mean0 (clipP ε P) a * mean0 (clipP ε P) b / (mmdDeltaOvo ε P κ a b + if a = b then 1 else 0)) →
      IsMat (setWhere L1 (eqS delta 0) 0) (fun a b : Fin K => if a = b then 0 else
        if mmdDeltaOvo ε P κ a b = 0 then 0 else
          mean0 (clipP ε P) a * mean0 (clipP ε P) b / mmdDeltaOvo ε P κ a b) := by
    rintro L1 ⟨h1_ok, h1_r, h1_c, h1_get⟩
    refine ⟨?_, ?_, ?_, ?_⟩
    · simp [h1_ok, h1_r, h1_c, hde_ok, hde_r, hde_c]
    · simp [h1_r]
    · simp [h1_c]
    · intro a b
      simp [h1_get, hde_get]
      by_cases hab : a = b
      · simp [hab]
      · simp [hab]
  have hL := hL2 _ hL1
  have hL' := hL2 _ hL1'
  name_expr Lambda2 := setWhere Lambda1 (eqS delta 0) 0 at hL
  name_expr Lambda2' := setWhere Lambda1' (eqS delta 0) 0 at hL'
  obtain ⟨hL1_ok, -, -, -⟩ := hL1
  obtain ⟨hL1_ok', -, -, -⟩ := hL1'
  obtain ⟨hL_ok, hL_r, hL_c, hL_get⟩ := hL
  obtain ⟨hL_ok', hL_r', hL_c', hL_get'⟩ := hL'
  apply eqv_ofFn
  · simp [add, sub, mul, div, hy_ok, hnk_ok, hpi_ok, hpi_r, hpi_c,
      hal_ok, hal_r, hal_c, hga_ok, hga_r, hga_c, hom_ok, hA_ok, hA_r, hA_c, hde_ok, hde_r, hde_c, hL_ok, hL_r, hL_c,
      hL_ok', hL_r', hL_c', hLam_ok, hL1_ok, hL1_ok', hval_ok]
  · simp [add, sub, mul, div, hpi_r, hpi_c, hal_r, hal_c, hga_r, hga_c,
      hA_r, hA_c, hde_r, hde_c, hL_r, hL_c, hL_r', hL_c']
  · simp [add, sub, mul, div, hpi_r, hpi_c, hal_r, hal_c, hga_r, hga_c,
      hA_r, hA_c, hde_r, hde_c, hL_r, hL_c, hL_r', hL_c']
  · intro i k
    simp [add, sub, mul, div, hpi_r, hpi_c, hal_r, hal_c, hga_r, hga_c,
      hA_r, hA_c, hde_r, hde_c, hL_r, hL_c, hL_r', hL_c', hpi_get, hal_get, hga_get, hA_get, hde_get, hL_get, hL_get',
      mmdGrad, clipMask, meanV]

end real

end GemVerif.Props.C01Gen
