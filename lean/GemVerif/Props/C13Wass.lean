/-
  C13 for the Wasserstein GEMINI (`WassersteinGEMINI.evaluate`, model `wassScore` / `wassGrad`) —
  invariances, bounds and degenerate cases, modulo explicit hypotheses on POT's `ot.emd2`, which is
  the parameter `emd2 : (Fin n → ℝ) → (Fin n → ℝ) → Emd ℝ n` (value, potentials `u`, `v`; the cost
  matrix lives inside it).  Property theorems only; the hypotheses on the solver are the small
  `def`s of `GemVerif/Lemmas/GeminiWassC13.lean`:

    WassCalls ε ovo P a b      `(a, b)` is one of the pairs of marginals the code calls `ot.emd2` on
    EmdPermValueAt / EmdPermPotAt   the solver of the permuted problem returns the same value / the
                                    permuted potentials up to additive constants, at `(a, b)`
    EmdSymmValueAt / EmdSymmPotAt   swapping the marginals keeps the value / swaps `u` and `v` up to
                                    additive constants, at `(a, b)`
    EmdPermValue, EmdPermPot, EmdSymmValue, EmdSymmPot, EmdNonneg
                                    the same at every pair of marginals of the open probability simplex
    EmdUnifZero                     `ot.emd2(1/N, 1/N).value = 0`

  Each theorem comes in a pointwise form (hypothesis only at the calls actually made; every `n`, `K`,
  `ε`, `P`) and, where useful, in a global form (hypothesis on the open simplex; `0 < ε < 1`).

  Sections
    A  sample permutations            (needs: solver of the permuted cost matrix is the permuted solver)
    B  cluster permutations           (OvA: nothing; OvO: symmetry of the solver)
    C  score ≥ 0                      (needs: values ≥ 0)
    D  predictions that do not depend on the sample: score 0   (needs: `EmdUnifZero`)
    E  appending an empty cluster     (OvA unchanged given `EmdUnifZero`; OvO: + 2 ε · OvA; zero gradient)
    F  non-vacuity: solvers satisfying the hypotheses
    G  the symmetry hypotheses of B cannot be dropped (two 2 × 2 counterexamples)
-/
import GemVerif.Lemmas.GeminiWassC13

namespace GemVerif.Props.C13Wass
open scoped BigOperators
open GemVerif Model Spec GemVerif.C13 GemVerif.WassC13

variable {n K : ℕ}

/-! ## A. Sample permutations -/

/-- Wasserstein score, both modes: reorder the samples by `σ` (rows of `y_pred`; rows and columns of
    the cost matrix, i.e. replace the solver by `emd2'`).  If on every pair of marginals `(a, b)` the
    code calls `ot.emd2` on, `emd2'` returns on `(a∘σ, b∘σ)` the value `emd2` returns on `(a, b)`,
    then the score is unchanged.  Every `n`, `K`, `ε`, `P`. -/
theorem wass_sample_perm (emd2 emd2' : (Fin n → ℝ) → (Fin n → ℝ) → Emd ℝ n) (ε : ℝ) (ovo : Bool)
    (P : Fin n → Fin K → ℝ) (σ : Equiv.Perm (Fin n))
    (h : ∀ a b, WassCalls ε ovo P a b → EmdPermValueAt emd2 emd2' σ a b) :
    wassScore emd2' ε ovo (fun i k => P (σ i) k) = wassScore emd2 ε ovo P :=
  wassScore_sperm_at emd2 emd2' ε ovo P σ h

/-- Wasserstein gradient, both modes: if moreover `emd2'` returns the permuted dual potentials, up
    to additive constants (which the code's centring removes), the gradient rows are permuted along
    with the samples. -/
theorem wass_grad_sample_perm (emd2 emd2' : (Fin n → ℝ) → (Fin n → ℝ) → Emd ℝ n) (ε : ℝ) (ovo : Bool)
    (P : Fin n → Fin K → ℝ) (σ : Equiv.Perm (Fin n))
    (h : ∀ a b, WassCalls ε ovo P a b → EmdPermValueAt emd2 emd2' σ a b)
    (hp : ∀ a b, WassCalls ε ovo P a b → EmdPermPotAt emd2 emd2' σ a b) (i : Fin n) (k : Fin K) :
    wassGrad emd2' ε ovo (fun i k => P (σ i) k) i k = wassGrad emd2 ε ovo P (σ i) k :=
  wassGrad_sperm_at emd2 emd2' ε ovo P σ h hp i k

/-- For `0 < ε < 1` (all legal `epsilon`) every marginal handed to `ot.emd2` has positive entries
    and total mass 1, for EVERY real matrix `P` (one-hot rows included). -/
theorem wass_calls_in_open_simplex (hn : 0 < n) {ε : ℝ} (h0 : 0 < ε) (h1 : ε < 1) (ovo : Bool)
    (P : Fin n → Fin K → ℝ) (a b : Fin n → ℝ) (h : WassCalls ε ovo P a b) :
    OpenSimplex a ∧ OpenSimplex b :=
  wassCalls_openSimplex hn h0 h1 h

/-- Global form of `wass_sample_perm`: hypothesis on the open probability simplex only. -/
theorem wass_sample_perm_of_global (emd2 emd2' : (Fin n → ℝ) → (Fin n → ℝ) → Emd ℝ n) {ε : ℝ}
    (h0 : 0 < ε) (h1 : ε < 1) (ovo : Bool) (P : Fin n → Fin K → ℝ) (σ : Equiv.Perm (Fin n))
    (h : EmdPermValue emd2 emd2' σ) :
    wassScore emd2' ε ovo (fun i k => P (σ i) k) = wassScore emd2 ε ovo P := by
  rcases Nat.eq_zero_or_pos n with rfl | hn
  · rw [wassScore_n0, wassScore_n0]
  · exact wassScore_sperm_at emd2 emd2' ε ovo P σ fun a b hab =>
      h a b (wassCalls_openSimplex hn h0 h1 hab).1 (wassCalls_openSimplex hn h0 h1 hab).2

/-- Global form of `wass_grad_sample_perm`. -/
theorem wass_grad_sample_perm_of_global (emd2 emd2' : (Fin n → ℝ) → (Fin n → ℝ) → Emd ℝ n) {ε : ℝ}
    (h0 : 0 < ε) (h1 : ε < 1) (ovo : Bool) (P : Fin n → Fin K → ℝ) (σ : Equiv.Perm (Fin n))
    (h : EmdPermValue emd2 emd2' σ) (hp : EmdPermPot emd2 emd2' σ) (i : Fin n) (k : Fin K) :
    wassGrad emd2' ε ovo (fun i k => P (σ i) k) i k = wassGrad emd2 ε ovo P (σ i) k := by
  have hn : 0 < n := Fin.pos i
  exact wassGrad_sperm_at emd2 emd2' ε ovo P σ
    (fun a b hab => h a b (wassCalls_openSimplex hn h0 h1 hab).1 (wassCalls_openSimplex hn h0 h1 hab).2)
    (fun a b hab => hp a b (wassCalls_openSimplex hn h0 h1 hab).1 (wassCalls_openSimplex hn h0 h1 hab).2)
    i k

/-! ## B. Cluster permutations -/

/-- One-vs-all: the score is invariant under a relabelling of the clusters and the gradient columns
    are permuted accordingly — for every solver, with no hypothesis at all. -/
theorem wass_ova_cluster_perm (emd2 : (Fin n → ℝ) → (Fin n → ℝ) → Emd ℝ n) (ε : ℝ)
    (P : Fin n → Fin K → ℝ) (τ : Equiv.Perm (Fin K)) :
    wassScore emd2 ε false (fun i k => P i (τ k)) = wassScore emd2 ε false P ∧
    ∀ i k, wassGrad emd2 ε false (fun i k => P i (τ k)) i k = wassGrad emd2 ε false P i (τ k) :=
  ⟨wassScore_cperm_ova emd2 ε P τ, wassGrad_cperm_ova emd2 ε P τ⟩

/-- One-vs-one score: the code solves only the pairs `k1 < k2` and mirrors the value, so a
    relabelling may reverse a pair.  If the solver's value is symmetric at every pair
    `(wy[x], wy[y])`, `x < y`, the score is invariant under every relabelling of the clusters. -/
theorem wass_ovo_cluster_perm (emd2 : (Fin n → ℝ) → (Fin n → ℝ) → Emd ℝ n) (ε : ℝ)
    (P : Fin n → Fin K → ℝ) (τ : Equiv.Perm (Fin K))
    (hs : ∀ x y : Fin K, x.val < y.val →
      EmdSymmValueAt emd2 (wassWeights ε P x) (wassWeights ε P y)) :
    wassScore emd2 ε true (fun i k => P i (τ k)) = wassScore emd2 ε true P :=
  wassScore_cperm_ovo emd2 ε P τ hs

/-- One-vs-one gradient: column `k1` of a call `(k1, k2)` receives `u`, column `k2` receives `v`.  If
    moreover the solver swaps `u` and `v` (up to additive constants) when the marginals are swapped,
    at every pair of distinct clusters, the gradient columns are permuted along with the clusters. -/
theorem wass_ovo_grad_cluster_perm (emd2 : (Fin n → ℝ) → (Fin n → ℝ) → Emd ℝ n) (ε : ℝ)
    (P : Fin n → Fin K → ℝ) (τ : Equiv.Perm (Fin K))
    (hs : ∀ x y : Fin K, x.val < y.val →
      EmdSymmValueAt emd2 (wassWeights ε P x) (wassWeights ε P y))
    (hp : ∀ x y : Fin K, x ≠ y → EmdSymmPotAt emd2 (wassWeights ε P x) (wassWeights ε P y))
    (i : Fin n) (k : Fin K) :
    wassGrad emd2 ε true (fun i k => P i (τ k)) i k = wassGrad emd2 ε true P i (τ k) :=
  wassGrad_cperm_ovo emd2 ε P τ hs hp i k

/-- Global form, one-vs-one score: a solver whose value is symmetric on the open simplex. -/
theorem wass_ovo_cluster_perm_of_global (emd2 : (Fin n → ℝ) → (Fin n → ℝ) → Emd ℝ n) {ε : ℝ}
    (h0 : 0 < ε) (h1 : ε < 1) (P : Fin n → Fin K → ℝ) (τ : Equiv.Perm (Fin K))
    (hs : EmdSymmValue emd2) :
    wassScore emd2 ε true (fun i k => P i (τ k)) = wassScore emd2 ε true P := by
  rcases Nat.eq_zero_or_pos n with rfl | hn
  · rw [wassScore_n0, wassScore_n0]
  · exact wassScore_cperm_ovo emd2 ε P τ fun x y _ =>
      hs _ _ (wassWeights_openSimplex hn h0 h1 P x) (wassWeights_openSimplex hn h0 h1 P y)

/-- Global form, one-vs-one gradient. -/
theorem wass_ovo_grad_cluster_perm_of_global (emd2 : (Fin n → ℝ) → (Fin n → ℝ) → Emd ℝ n) {ε : ℝ}
    (h0 : 0 < ε) (h1 : ε < 1) (P : Fin n → Fin K → ℝ) (τ : Equiv.Perm (Fin K))
    (hs : EmdSymmValue emd2) (hp : EmdSymmPot emd2) (i : Fin n) (k : Fin K) :
    wassGrad emd2 ε true (fun i k => P i (τ k)) i k = wassGrad emd2 ε true P i (τ k) := by
  have hn : 0 < n := Fin.pos i
  exact wassGrad_cperm_ovo emd2 ε P τ
    (fun x y _ => hs _ _ (wassWeights_openSimplex hn h0 h1 P x) (wassWeights_openSimplex hn h0 h1 P y))
    (fun x y _ => hp _ _ (wassWeights_openSimplex hn h0 h1 P x) (wassWeights_openSimplex hn h0 h1 P y))
    i k

/-! ## C. Bounds -/

/-- If the solver returns a non-negative value on every call the code makes, the Wasserstein score
    is non-negative, in both modes, for every real matrix `P` and `0 ≤ ε ≤ 1` (the cluster
    proportions are means of clipped, hence non-negative, predictions). -/
theorem wass_nonneg (emd2 : (Fin n → ℝ) → (Fin n → ℝ) → Emd ℝ n) {ε : ℝ} (h0 : 0 ≤ ε) (h1 : ε ≤ 1)
    (ovo : Bool) (P : Fin n → Fin K → ℝ)
    (h : ∀ a b, WassCalls ε ovo P a b → 0 ≤ (emd2 a b).value) : 0 ≤ wassScore emd2 ε ovo P :=
  wassScore_nonneg_at emd2 h0 h1 ovo P h

/-- Global form: a solver whose value is non-negative on the open simplex (any cost matrix `M ≥ 0`). -/
theorem wass_nonneg_of_global (emd2 : (Fin n → ℝ) → (Fin n → ℝ) → Emd ℝ n) {ε : ℝ} (h0 : 0 < ε)
    (h1 : ε < 1) (ovo : Bool) (P : Fin n → Fin K → ℝ) (h : EmdNonneg emd2) :
    0 ≤ wassScore emd2 ε ovo P := by
  rcases Nat.eq_zero_or_pos n with rfl | hn
  · rw [wassScore_n0]
  · exact wassScore_nonneg_at emd2 h0.le h1.le ovo P fun a b hab =>
      h a b (wassCalls_openSimplex hn h0 h1 hab).1 (wassCalls_openSimplex hn h0 h1 hab).2

/-! ## D. Predictions that do not depend on the sample -/

/-- If all rows of `y_pred` coincide, every `wy[k]` is the uniform vector `1/N` (or its cluster has
    proportion 0), so as soon as `ot.emd2(1/N, 1/N)` has value 0 the Wasserstein score is 0, in both
    modes — for every such `P` (interior or not), every `ε`, every `n`, `K`. -/
theorem wass_indep_zero (emd2 : (Fin n → ℝ) → (Fin n → ℝ) → Emd ℝ n) (hz : EmdUnifZero emd2) (ε : ℝ)
    (ovo : Bool) {P : Fin n → Fin K → ℝ} (h : ∀ i j k, P i k = P j k) : wassScore emd2 ε ovo P = 0 :=
  wassScore_indep emd2 hz ε ovo h

/-- ... because the weights are then exactly uniform (shown here for `0 < ε < 1`). -/
theorem wass_indep_weights_uniform (hn : 0 < n) {ε : ℝ} (h0 : 0 < ε) (h1 : ε < 1)
    {P : Fin n → Fin K → ℝ} (h : ∀ i j k, P i k = P j k) (k : Fin K) :
    wassWeights ε P k = fun _ => 1 / (n : ℝ) :=
  wassWeights_indep hn h k (mean0_pos hn (clipP_pos h0 h1 P) k).ne'

/-! ## E. Appending an empty cluster

`addEmpty P` is `P` with an extra last column of zeros.  After clipping that column is the constant
`ε`: the new "cluster" has proportion `ε` (not 0) and uniform weights `wy = 1/N`. -/

/-- One-vs-all: unchanged as soon as `ot.emd2(1/N, 1/N)` has value 0 (every `P`, `ε`, `n`, `K`).
    One-vs-one: the new cluster is compared with every old one through exactly the one-vs-all calls
    `ot.emd2(wy[k], 1/N)`, so the score increases by `2 ε` times the one-vs-all score — for every
    solver, no hypothesis (the same law as for the MMD GEMINI, `C13.mmd_add_empty`).  The literal
    claim "unchanged" is false for one-vs-one at the level of the code, by about `1e-12 · score`. -/
theorem wass_add_empty (emd2 : (Fin n → ℝ) → (Fin n → ℝ) → Emd ℝ n) {ε : ℝ} (h0 : 0 ≤ ε)
    (h1 : ε ≤ 1 / 2) (P : Fin n → Fin K → ℝ) :
    (EmdUnifZero emd2 → wassScore emd2 ε false (addEmpty P) = wassScore emd2 ε false P) ∧
    wassScore emd2 ε true (addEmpty P)
      = wassScore emd2 ε true P + 2 * ε * wassScore emd2 ε false P := by
  refine ⟨fun hz => wassScore_ova_addEmpty emd2 hz ε P, ?_⟩
  rw [wassScore_ovo_addEmpty, clip_zero h0 h1]

/-- The appended empty cluster receives zero gradient in both modes (its mask is zero), and in
    one-vs-all the gradient columns of the old clusters are unchanged. -/
theorem wass_grad_add_empty (emd2 : (Fin n → ℝ) → (Fin n → ℝ) → Emd ℝ n) {ε : ℝ} (hε : 0 ≤ ε)
    (P : Fin n → Fin K → ℝ) (i : Fin n) :
    (∀ ovo, wassGrad emd2 ε ovo (addEmpty P) i (Fin.last K) = 0) ∧
    ∀ k : Fin K, wassGrad emd2 ε false (addEmpty P) i k.castSucc = wassGrad emd2 ε false P i k :=
  ⟨fun ovo => wassGrad_addEmpty_last emd2 hε ovo P i,
    fun k => wassGrad_ova_addEmpty_castSucc emd2 ε P i k⟩

/-! ## F. Non-vacuity: solvers satisfying the hypotheses -/

/- every size: a weighted squared distance `Σ c_i (a_i - b_i)²` whose weights `c ≥ 0` are not
   permutation invariant (the solver of the permuted problem is a different function) -/
example (c : Fin n → ℝ) (hc : ∀ i, 0 ≤ c i) (σ : Equiv.Perm (Fin n)) :
    EmdPermValue (wsqEmd c) (wsqEmd fun i => c (σ i)) σ ∧
    EmdPermPot (wsqEmd c) (wsqEmd fun i => c (σ i)) σ ∧
    EmdSymmValue (wsqEmd c) ∧ EmdSymmPot (wsqEmd c) ∧ EmdNonneg (wsqEmd c) ∧ EmdUnifZero (wsqEmd c) :=
  ⟨wsqEmd_permValue c σ, wsqEmd_permPot c σ, wsqEmd_symmValue c, wsqEmd_symmPot c, wsqEmd_nonneg hc,
    wsqEmd_unifZero c⟩

/- the genuine transport cost on two points at distance 1 (`W(a,b) = |a₀ - b₀|`, optimal potentials
   `u = (s, 0)`, `v = (-s, 0)`, `s = sign (a₀ - b₀)`): all hypotheses hold, the swap of the two points
   permutes the potentials only up to the non-zero constants `∓s`, and preserves the value only on
   the probability simplex -/
example : EmdPermValue absEmd absEmd (Equiv.swap 0 1) ∧ EmdPermPot absEmd absEmd (Equiv.swap 0 1) ∧
    EmdSymmValue absEmd ∧ EmdSymmPot absEmd ∧ EmdNonneg absEmd ∧ EmdUnifZero absEmd :=
  ⟨absEmd_permValue, absEmd_permPot, absEmd_symmValue, absEmd_symmPot, absEmd_nonneg, absEmd_unifZero⟩

/- the pointwise hypotheses follow from the global ones at every real matrix `P` -/
example (hn : 0 < n) {ε : ℝ} (h0 : 0 < ε) (h1 : ε < 1) (ovo : Bool) (P : Fin n → Fin K → ℝ)
    (emd2 emd2' : (Fin n → ℝ) → (Fin n → ℝ) → Emd ℝ n) (σ : Equiv.Perm (Fin n))
    (h : EmdPermValue emd2 emd2' σ) :
    ∀ a b, WassCalls ε ovo P a b → EmdPermValueAt emd2 emd2' σ a b := fun a b hab =>
  h a b (wassCalls_openSimplex hn h0 h1 hab).1 (wassCalls_openSimplex hn h0 h1 hab).2

/-! ## G. The symmetry hypotheses of B (one-vs-one) cannot be dropped -/

/- a solver with a non-symmetric value (e.g. a non-symmetric `precomputed` cost matrix): the
   one-vs-one score of a 2 × 2 interior matrix changes from 3/8 to 1/8 when the two clusters are
   swapped, because the code only solves the pair `(0, 1)` -/
example : wassScore asymEmd (1 / 10) true exQ = 3 / 8 ∧
    wassScore asymEmd (1 / 10) true (fun i k => exQ i (Equiv.swap 0 1 k)) = 1 / 8 :=
  asymEmd_score_not_invariant

/- a solver with symmetric value whose potentials are not swapped with the marginals: the
   one-vs-one gradient is not equivariant (entry `(0, τ 0)` of the gradient at `P` is 0, entry
   `(0, 0)` of the gradient at `P ∘ τ` is 1/4) -/
example : wassGrad asymPot (1 / 4) true exH 0 (Equiv.swap 0 1 0) = 0 ∧
    wassGrad asymPot (1 / 4) true (fun i k => exH i (Equiv.swap 0 1 k)) 0 0 = 1 / 4 :=
  asymPot_grad_not_equivariant

end GemVerif.Props.C13Wass
