/-
  C02 for the Wasserstein GEMINI — the gradient returned with `return_grad=True` is the exact
  derivative of the returned score, GIVEN the sensitivity (envelope) property of the transport LP
  solved by POT's `ot.emd2` (hypothesis `EmdEnvelopeAt`, defined and documented in
  `GemVerif/Lemmas/GeminiWass.lean`: along curves of marginals that stay in the open probability
  simplex, the derivative of the optimal value is the pairing of the returned dual potentials with
  the velocities of the marginals).  Property theorems only.
-/
import GemVerif.Lemmas.GeminiWass

namespace GemVerif.Props.C02Wass
open scoped BigOperators Topology
open GemVerif Model Spec Filter

variable {n K : ℕ}

set_option linter.unusedSimpArgs false

/-- Wasserstein one-vs-all (`Σ_k π_k W(wy_k, uniform)`): at every interior point `P` (clipping inactive)
    such that `ot.emd2` has the envelope property at each pair `(wy_k, uniform)` it is called on, and
    along EVERY direction `V` (not only simplex-tangent ones), the returned gradient paired with `V` is
    the derivative of the returned score.  The chain goes through `π_k = mean P[:,k]` and
    `wy_k = P[:,k]/(π_k N)`, which both move with `P`. -/
theorem wass_ova_hasDerivAt (hn : 0 < n) {ε : ℝ} (hε : 0 < ε)
    (emd2 : (Fin n → ℝ) → (Fin n → ℝ) → Emd ℝ n) (P : Fin n → Fin K → ℝ) (hI : Interior ε P)
    (hE : ∀ k, EmdEnvelopeAt emd2 (wassWeights ε P k) (fun _ => 1 / (n : ℝ)))
    (V : Fin n → Fin K → ℝ) :
    HasDerivAt (fun t : ℝ => wassScore emd2 ε false (fun i k => P i k + t * V i k))
      (∑ i, ∑ k, wassGrad emd2 ε false P i k * V i k) 0 := by
  have hev : (fun t : ℝ => wassScore emd2 ε false (line P V t)) =ᶠ[𝓝 0] fun t => _ :=
    (interior_eventually hI V).mono fun t ht => wassScore_ova_interior ht emd2
  refine HasDerivAt.congr_of_eventuallyEq ?_ hev
  have hπ : ∀ k, Spec.pi P k ≠ 0 := fun k => (pi_pos hε hn hI k).ne'
  rw [wassWeights_interior hI] at hE
  have hS : ∀ k, ∀ᶠ t in 𝓝 (0 : ℝ), OpenSimplex (wyR (line P V t) k)
      ∧ OpenSimplex (fun _ : Fin n => 1 / (n : ℝ)) := fun k =>
    (wyR_line_eventually hn hε hI V).mono fun t ht => ⟨ht k, unif_openSimplex hn⟩
  have h1 : ∀ k, HasDerivAt (fun t => (emd2 (wyR (line P V t) k) (fun _ => 1 / (n : ℝ))).value)
      (∑ i, (emd2 (wyR P k) (fun _ => 1 / (n : ℝ))).u i * wyD P V k i
        + ∑ i, (emd2 (wyR P k) (fun _ => 1 / (n : ℝ))).v i * 0) 0 := fun k =>
    hE k (fun t => wyR (line P V t) k) (fun _ _ => 1 / (n : ℝ)) (wyD P V k) (fun _ => 0)
      (by simp) rfl (hS k) (hasDerivAt_wyR_line hn P V k (hπ k)) (fun _ => hasDerivAt_const _ _)
  refine (HasDerivAt.fun_sum fun k _ => (hasDerivAt_pi_line P V k).fun_mul (h1 k)).congr_deriv ?_
  simp only [line_zero, mul_zero, Finset.sum_const_zero, add_zero]
  rw [Finset.sum_comm]
  refine Finset.sum_congr rfl fun k _ => ?_
  rw [wass_chain hn P V k (hπ k) _ ((∑ j, (emd2 (wyR P k) (fun _ => 1 / (n : ℝ))).u j) / n)]
  simp only [wassGrad_ova_interior hI]
  generalize (emd2 (wyR P k) (fun _ => 1 / (n : ℝ))) = E
  generalize (∑ j, E.u j) / n = ub
  have e : ∀ i, (E.u i - ub) / n + E.value / n - (∑ j, P j k * (E.u j - ub)) / (n * n * Spec.pi P k)
      = ((E.u i - ub) / n - (∑ j, (E.u j - ub) * P j k) / (n * n * Spec.pi P k)) + E.value / n :=
    fun i => by simp only [mul_comm (P _ k)]; ring
  simp only [e, add_mul, Finset.sum_add_distrib]
  rw [add_comm]
  congr 1
  unfold Spec.pi
  rw [Finset.sum_div, Finset.sum_mul]
  exact Finset.sum_congr rfl fun i _ => by ring

/-- Wasserstein one-vs-one (`πᵀ W π`, `W` symmetric with zero diagonal, filled from the calls
    `ot.emd2(wy[k1], wy[k2])`, `k1 < k2`): at every interior point `P` such that `ot.emd2` has the
    envelope property at each pair `(wy_k1, wy_k2)`, `k1 < k2`, it is called on, and along EVERY
    direction `V`, the returned gradient paired with `V` is the derivative of the returned score.
    Both marginals of every call move with `P`; column `k` collects the `u` potentials of the calls
    `(k, o)`, `k < o`, and the `v` potentials of the calls `(o, k)`, `o < k`. -/
theorem wass_ovo_hasDerivAt (hn : 0 < n) {ε : ℝ} (hε : 0 < ε)
    (emd2 : (Fin n → ℝ) → (Fin n → ℝ) → Emd ℝ n) (P : Fin n → Fin K → ℝ) (hI : Interior ε P)
    (hE : ∀ a b : Fin K, a.val < b.val → EmdEnvelopeAt emd2 (wassWeights ε P a) (wassWeights ε P b))
    (V : Fin n → Fin K → ℝ) :
    HasDerivAt (fun t : ℝ => wassScore emd2 ε true (fun i k => P i k + t * V i k))
      (∑ i, ∑ k, wassGrad emd2 ε true P i k * V i k) 0 := by
  have hev : (fun t : ℝ => wassScore emd2 ε true (line P V t)) =ᶠ[𝓝 0] fun t => _ :=
    (interior_eventually hI V).mono fun t ht => wassScore_ovo_interior ht emd2
  refine HasDerivAt.congr_of_eventuallyEq ?_ hev
  have hπ : ∀ k, Spec.pi P k ≠ 0 := fun k => (pi_pos hε hn hI k).ne'
  rw [wassWeights_interior hI] at hE
  have hW := hasDerivAt_wPair hn hε hI emd2 hE V
  have h2 := HasDerivAt.fun_sum (u := Finset.univ) fun a _ =>
    (hasDerivAt_pi_line P V a).fun_mul (HasDerivAt.fun_sum (u := Finset.univ) fun b _ =>
      (hW a b).fun_mul (hasDerivAt_pi_line P V b))
  refine h2.congr_deriv ?_
  simp only [line_zero]
  rw [wass_ovo_algebra (Spec.pi P) (Spec.pi V) (wPair emd2 (wyR P))
    (fun k o => ∑ i, potR emd2 (wyR P) k o i * wyD P V k i) (wPair_symm emd2 (wyR P))]
  rw [grad_sum_split _
    (fun i k => ∑ o, if o = k then 0 else 2 * Spec.pi P o *
      ((potR emd2 (wyR P) k o i - (∑ l, potR emd2 (wyR P) k o l) / n) / n
        - (∑ j, (potR emd2 (wyR P) k o j - (∑ l, potR emd2 (wyR P) k o l) / n) * P j k)
            / (n * n * Spec.pi P k)))
    (fun k => 2 * (∑ b, wPair emd2 (wyR P) k b * Spec.pi P b)) V
    (fun i k => by rw [wassGrad_ovo_interior hI])]
  refine Finset.sum_congr rfl fun k _ => ?_
  congr 1
  simp only [Finset.sum_mul]
  rw [Finset.sum_comm]
  refine Finset.sum_congr rfl fun o _ => ?_
  by_cases h : o = k
  · simp [h]
  · simp only [if_neg h]
    rw [wass_chain hn P V k (hπ k) _ ((∑ l, potR emd2 (wyR P) k o l) / n), Finset.mul_sum]
    exact Finset.sum_congr rfl fun i _ => by ring

/-! ### the same, for a solver that has the envelope property everywhere on the open simplex -/

/-- One-vs-all, global form of the hypothesis: the weights `wy[k]` and the uniform weights always lie
    in the open probability simplex at interior points, so `EmdEnvelope` suffices. -/
theorem wass_ova_hasDerivAt_of_envelope (hn : 0 < n) {ε : ℝ} (hε : 0 < ε)
    (emd2 : (Fin n → ℝ) → (Fin n → ℝ) → Emd ℝ n) (hE : EmdEnvelope emd2)
    (P : Fin n → Fin K → ℝ) (hI : Interior ε P) (V : Fin n → Fin K → ℝ) :
    HasDerivAt (fun t : ℝ => wassScore emd2 ε false (fun i k => P i k + t * V i k))
      (∑ i, ∑ k, wassGrad emd2 ε false P i k * V i k) 0 :=
  wass_ova_hasDerivAt hn hε emd2 P hI (fun k => by
    rw [wassWeights_interior hI]
    exact hE _ _ (wyR_openSimplex hn hε hI k) (unif_openSimplex hn)) V

/-- One-vs-one, global form of the hypothesis. -/
theorem wass_ovo_hasDerivAt_of_envelope (hn : 0 < n) {ε : ℝ} (hε : 0 < ε)
    (emd2 : (Fin n → ℝ) → (Fin n → ℝ) → Emd ℝ n) (hE : EmdEnvelope emd2)
    (P : Fin n → Fin K → ℝ) (hI : Interior ε P) (V : Fin n → Fin K → ℝ) :
    HasDerivAt (fun t : ℝ => wassScore emd2 ε true (fun i k => P i k + t * V i k))
      (∑ i, ∑ k, wassGrad emd2 ε true P i k * V i k) 0 :=
  wass_ovo_hasDerivAt hn hε emd2 P hI (fun a b _ => by
    rw [wassWeights_interior hI]
    exact hE _ _ (wyR_openSimplex hn hε hI a) (wyR_openSimplex hn hε hI b)) V

/-! ### the additive constants of the dual potentials are irrelevant (the centring is harmless) -/

/-- The code subtracts the mean from `log["u"]` and `log["v"]` before using them.  This removes all
    dependence on the additive constants of the potentials: for EVERY input (any `P`, clipped or
    not, both modes), a solver returning `u + c`, `v + d` (constants that may vary from call to call)
    yields exactly the same gradient. -/
theorem wassGrad_shift_invariant (emd2 : (Fin n → ℝ) → (Fin n → ℝ) → Emd ℝ n)
    (c d : (Fin n → ℝ) → (Fin n → ℝ) → ℝ) (ε : ℝ) (ovo : Bool) (P : Fin n → Fin K → ℝ) :
    wassGrad (shiftEmd emd2 c d) ε ovo P = wassGrad emd2 ε ovo P :=
  wassGradT_shift _ _ (fun a b => c (wassWeights ε P a) (wassWeights ε P b))
    (fun a b => d (wassWeights ε P a) (wassWeights ε P b))
    (fun k => c (wassWeights ε P k) (fun _ => 1 / RealLike.nat n))
    (fun k => d (wassWeights ε P k) (fun _ => 1 / RealLike.nat n)) ε ovo P

/-- ... and the envelope hypothesis itself does not depend on those constants either (the marginals
    handed to `ot.emd2` have total mass 1, so their velocities sum to 0): the hypothesis constrains
    POT's potentials only modulo constants, and the theorems above hold whichever normalisation
    (`center_dual` or not) the solver uses. -/
theorem emdEnvelopeAt_shift_invariant (emd2 : (Fin n → ℝ) → (Fin n → ℝ) → Emd ℝ n)
    (c d : (Fin n → ℝ) → (Fin n → ℝ) → ℝ) (a₀ b₀ : Fin n → ℝ) (h : EmdEnvelopeAt emd2 a₀ b₀) :
    EmdEnvelopeAt (shiftEmd emd2 c d) a₀ b₀ :=
  h.shift c d

/-! ### non-vacuity: the hypotheses are satisfiable -/

/- `EmdEnvelope` is satisfiable, for every size: a value linear in the marginals -/
example (c d : Fin n → ℝ) : EmdEnvelope (linEmd c d) := linEmd_envelope c d

/- ... and by a non-linear one: the squared Euclidean distance `Σ (a_i - b_i)²` between the marginals -/
example : EmdEnvelope (sqEmd (n := n)) := sqEmd_envelope

/- the pointwise hypotheses of `wass_ova_hasDerivAt` hold for the genuine (piecewise linear, kinked)
   transport cost on two points `W(a,b) = |a₀ - b₀|` at a point of the simplex -/
example : Interior (1 / 10) exP ∧
    ∀ k, EmdEnvelopeAt absEmd (wassWeights (1 / 10) exP k) (fun _ => 1 / ((2 : ℕ) : ℝ)) := by
  refine ⟨exP_interior, fun k => ?_⟩
  rw [wassWeights_interior exP_interior]
  exact absEmd_envelopeAt (exP_wass_ova k)

/- the pointwise hypotheses of `wass_ovo_hasDerivAt` hold for the same cost at the same point -/
example : Interior (1 / 10) exP ∧ ∀ a b : Fin 2, a.val < b.val →
    EmdEnvelopeAt absEmd (wassWeights (1 / 10) exP a) (wassWeights (1 / 10) exP b) := by
  refine ⟨exP_interior, fun a b hab => ?_⟩
  rw [wassWeights_interior exP_interior]
  exact absEmd_envelopeAt (exP_wass_ovo a b hab)

end GemVerif.Props.C02Wass
