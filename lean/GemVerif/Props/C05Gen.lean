/-
  C05 / C06 (companion) — the hand model of Model/Prox.lean IS what gemclus/sparse/_prox_grad.py says now.

  `Gen/Prox.lean` is regenerated on every run by translator/prox.py from the bodies of `soft_threshold`,
  `linear_prox_grad`, `mlp_prox_grad`, `group_linear_prox_grad`, `group_mlp_prox_grad` in /repo: one definition per
  function, a literal transcription of the NumPy statements into the untyped array language of GemVerif/Np.lean +
  Np2.lean + Np3.lean (shapes are data; broadcasting, `np.linalg.norm(axis=1, keepdims=True)`, `np.sort(·, axis=1)[:, ::-1]`,
  `np.cumsum`, `np.concatenate`, `np.arange`, the Boolean `lower > w` summed along axis 1, `np.take_along_axis`, `np.where`,
  `np.minimum`, reshapes, and — group variants — the loop `for g in groups:` as a fold, `W[g]`, `W_star[g] = …` into
  `np.empty` follow NumPy's rules; anything NumPy would reject, an index out of range included, sets `ok := false`, and
  the returned arrays collect the `ok` of EVERY intermediate array).

  Every theorem below says: the generated definition, applied to `d × h` (`d × k`) weight arrays (`Arr.ofFn`, or any
  array described by `IsMat`), raises no NumPy error, has the shape of the hand model's value and has, entry for entry,
  that value — for ALL sizes (0 and 1 included).
    * GENERIC theorems (every `[RealLike α]`, IEEE doubles included; both sides perform the same floating-point
      operations in the same order, the equality holds by unfolding): `soft_threshold`, `linear_prox_grad`,
      `group_linear_prox_grad`.
    * Theorems UNDER THE ORDER LAWS `OrderLaws α` (`RealLike.le` is a total order: what is needed to know that
      `np.sort(·)[:, ::-1]` — an ascending sort read backwards — and the model's descending insertion sort produce the
      same list) and under the hypothesis that the breakpoint count `idx` is a valid column (`≤ h`): `mlp_prox_grad`,
      `group_mlp_prox_grad`.  All arithmetic is again performed in the same order on both sides.  When `idx` is NOT a
      valid column, NumPy raises IndexError where the model returns numbers (`mlp_prox_grad_index_error`).
    * REAL-NUMBER corollaries: ℝ satisfies the order laws and, for `M ≥ 0`, `idx ≤ h` always: unconditional equality.
  Group variants: `groups` is a list of lists of valid row indices (`Fin d`, handed to the generated code as naturals);
  ANY such list: groups may overlap (the last one wins, as in the model), need not cover every row (the theorems state the
  model's value on the covered rows and the uninitialised memory `junk` on the others) and may even repeat an index
  (NumPy does not specify the order of the writes of `W_star[g] = …` then; the rows written twice receive identical
  values, so the order is irrelevant — the DSL keeps the last write, the model the first occurrence).
  The proofs do not depend on which temporaries the source uses: `mlp_prox_grad_spec` unfolds every `let` and names the
  NumPy EXPRESSIONS themselves (`name_expr`, Lemmas/Np2.lean); it accepts the breakpoint count as `np.sum` or
  `np.count_nonzero` of `lower > w`, the selected column with or without its (redundant) `.reshape((batch, 1))`, and the
  signs as `np.where(u >= 0, 1, -1)` or as `np.full(u.shape, -1)` overwritten with `1` where `u >= 0`.
  The theorems of Props/C05.lean and C06.lean, stated about Model/Prox.lean, therefore speak about the current source.
-/
import GemVerif.Lemmas.ProxGen
import GemVerif.Gen.Prox

namespace GemVerif.Props.C05Gen
open GemVerif GemVerif.RealLike GemVerif.Np GemVerif.Np.Arr GemVerif.Model.Prox

set_option linter.unusedSimpArgs false
set_option linter.unusedVariables false
set_option linter.unusedSectionVars false

/-! ## Part 1 — every `RealLike` number type -/

section generic
variable {α : Type} [RealLike α] {d h k : Nat}

/-! ### what the relations mean -/

/-- Meaning of the description used below: `IsMat A f` says that no NumPy error occurred while computing `A`, that `A`
    has shape `(n, k)` and that `A[i, j] = f i j` for every index inside the shape; it is what `Eqv A (ofFn f)` says. -/
theorem isMat_spelled_out {n : Nat} (A : Arr α) (f : Fin n → Fin k → α) :
    IsMat A f ↔ Eqv A (ofFn f) :=
  ⟨IsMat.eqv, fun h => eqv_ofFn_iff.mp h⟩

/-- A returned array whose `flags` (the conjunction of the `ok` of all arrays computed during the call) is false is
    `Eqv` to nothing: a mutation of the source that makes ANY statement raise cannot satisfy any theorem of this file. -/
theorem raised_not_eqv (A B : Arr α) : ¬ Eqv (checked false A) B := by
  rintro ⟨hok, -⟩
  simp at hok

/-! ### `soft_threshold` -/

/-- `soft_threshold(t, x)` as written in the source (`np.sign(x) * np.maximum(np.abs(x) - t, 0)`), applied to any array
    that is without error the matrix `X`, is without error the matrix of the model's `softThreshold t (X i j)`. -/
theorem soft_threshold_isMat (t : α) {A : Arr α} {X : Fin d → Fin h → α} (hA : IsMat A X) :
    IsMat (Gen.Prox.soft_threshold t A) (fun i j => softThreshold t (X i j)) := by
  obtain ⟨hok, hr, hc, hget⟩ := hA
  subst hr hc
  refine ⟨?_, ?_, ?_, ?_⟩ <;> simp [Gen.Prox.soft_threshold, mul, softThreshold, hok, hget]

/-- `soft_threshold(t, X)` as written in the source computes, for a `d × h` array, the model's `softThreshold`
    entry by entry (same shape, no error), on every number type. -/
theorem soft_threshold_eq (t : α) (X : Fin d → Fin h → α) :
    Eqv (Gen.Prox.soft_threshold t (ofFn X)) (ofFn fun i j => softThreshold t (X i j)) :=
  (soft_threshold_isMat t (isMat_ofFn X)).eqv

/-! ### `linear_prox_grad` -/

/-- `linear_prox_grad(W, alpha)` as written in the source
    (`np.maximum(W_norms - alpha, 0) * W / np.where(W_norms == 0, 1, W_norms)` with the row norms `W_norms`), applied to
    any array that is without error the matrix `W`, is without error the model's `linearProx W alpha`. -/
theorem linear_prox_grad_isMat (al : α) {A : Arr α} {W : Fin d → Fin h → α} (hA : IsMat A W) :
    IsMat (Gen.Prox.linear_prox_grad A al) (linearProx W al) := by
  obtain ⟨hok, hr, hc, hget⟩ := hA
  subst hr hc
  refine ⟨?_, ?_, ?_, fun i j => ?_⟩
  · simp [Gen.Prox.linear_prox_grad, mul, div, hok]
  · simp [Gen.Prox.linear_prox_grad, mul, div]
  · simp [Gen.Prox.linear_prox_grad, mul, div]
  · simp [Gen.Prox.linear_prox_grad, mul, div, linearProx, linearProxRow, norm2, sumL, sumLTo, hget]
    rfl

/-- `linear_prox_grad(W, alpha)` as written in the source returns, for a `d × h` weight array, exactly the model's
    `linearProx W alpha`: shape `(d, h)`, same entries, no NumPy error — all `d`, `h` (0 included), every number type
    (the same floating-point operations in the same order). -/
theorem linear_prox_grad_eq (W : Fin d → Fin h → α) (al : α) :
    Eqv (Gen.Prox.linear_prox_grad (ofFn W) al) (ofFn (linearProx W al)) :=
  (linear_prox_grad_isMat al (isMat_ofFn W)).eqv

/-- instance at `Float`: the generated `linear_prox_grad` is the model's, double for double -/
example (W : Fin d → Fin h → Float) (al : Float) :
    Eqv (Gen.Prox.linear_prox_grad (ofFn W) al) (ofFn (linearProx W al)) :=
  linear_prox_grad_eq W al

/-! ### `mlp_prox_grad` -/

/-- `mlp_prox_grad(W_skip_, W1_, alpha, M)` as written in the source, applied to arrays that are without error the
    `d × k` matrix `Ws` and the `d × h` matrix `W1`, under the order laws:
    (1) if every row's breakpoint count `idx` (the model's `hierIdx`) is a valid column (`≤ h`), the two returned arrays
        are without error the two components of the model's `mlpProx Ws W1 alpha M`;
    (2) if some row has `idx = h + 1` (every one of the `h + 1` entries of `lower > w` true), both returned arrays carry
        an error: `np.take_along_axis` raises IndexError. -/
theorem mlp_prox_grad_spec (H : OrderLaws α) (al M : α) {V U : Arr α} {Ws : Fin d → Fin k → α}
    {W1 : Fin d → Fin h → α} (hV : IsMat V Ws) (hU : IsMat U W1) :
    ((∀ i, hierIdx (uAbsSorted (W1 i)) al M (norm2 (Ws i)) ≤ h) →
      IsMat (Gen.Prox.mlp_prox_grad V U al M).1 (mlpProx Ws W1 al M).1 ∧
      IsMat (Gen.Prox.mlp_prox_grad V U al M).2 (mlpProx Ws W1 al M).2) ∧
    ((∃ i, hierIdx (uAbsSorted (W1 i)) al M (norm2 (Ws i)) = h + 1) →
      (Gen.Prox.mlp_prox_grad V U al M).1.ok = false ∧ (Gen.Prox.mlp_prox_grad V U al M).2.ok = false) := by
  unfold Gen.Prox.mlp_prox_grad
  -- all `let`s are unfolded: what follows speaks about the NumPy EXPRESSIONS of the source, whatever temporaries name them
  dsimp only
  obtain ⟨hVok, hVr, hVc, hVget⟩ := id hV
  obtain ⟨hUok, hUr, hUc, hUget⟩ := id hU
  have hLlen : ∀ i, (uAbsSorted (W1 i)).length = h := fun i => uAbsSorted_length' _
  subst hUr hUc
  -- the sorted absolute values `np.sort(np.abs(u), axis=1)[:, ::-1]`
  have hUabs : IsMat (Arr.abs U) (fun i j => RealLike.abs (W1 i j)) := by
    refine ⟨?_, ?_, ?_, ?_⟩ <;> simp [hUok, hUget]
  have hS : IsMat (flipCols (sortAxis1 (Arr.abs U))) (fun i (j : Fin U.c) => (uAbsSorted (W1 i)).getD j.val 0) :=
    hUabs.sortFlip H
  name_expr S := flipCols (sortAxis1 (Arr.abs U)) at hS
  obtain ⟨hS_ok, hS_r, hS_c, hS_get⟩ := id hS
  have hS_nat : ∀ (i : Fin U.r) (l : Nat), l < U.c → S.get i.val l = (uAbsSorted (W1 i)).getD l 0 :=
    fun i l hl => hS.get_nat i.isLt hl
  -- `np.arange(k + 1.0).reshape((1, -1))`, `np.zeros((batch, 1))`
  have hs : IsRow (reshapeRow (arange (U.c + 1)) : Arr α) (fun j : Fin (U.c + 1) => (nat j.val : α)) := by
    refine ⟨?_, ?_, ?_, ?_⟩ <;> simp
  name_expr s := (reshapeRow (arange (U.c + 1)) : Arr α) at hs
  obtain ⟨hs_ok, hs_r, hs_c, hs_get⟩ := hs
  have hz : (zeros U.r 1 : Arr α).ok = true ∧ (zeros U.r 1 : Arr α).r = U.r ∧ (zeros U.r 1 : Arr α).c = 1 ∧
      ∀ i j, (zeros U.r 1 : Arr α).get i j = 0 := by
    refine ⟨?_, ?_, ?_, ?_⟩ <;> simp
  name_expr zeros := (zeros U.r 1 : Arr α) at hz
  obtain ⟨hz_ok, hz_r, hz_c, hz_get⟩ := hz
  -- a_s
  have ha : IsMat (rsubs al (smul M (concat1 zeros (cumsumAxis1 S))))
      (fun i (t : Fin (U.c + 1)) => aS (uAbsSorted (W1 i)) al M t.val) := by
    refine ⟨?_, ?_, ?_, fun i t => ?_⟩
    · simp [hz_ok, hz_r, hS_ok, hS_r]
    · simp [hz_r]
    · simp [hz_c, hS_c]; omega
    · simp only [rsubs_get, smul_get, concat1_get, cumsumAxis1_get, hz_c, hz_get, aS]
      rw [zero_cumsum_getD _ _ (by rw [hLlen]; exact Nat.lt_succ_iff.mp t.isLt)]
      by_cases ht : t.val < 1
      · simp [ht]
      · rw [if_neg ht, if_neg ht, cumsumTo_congr (fun l hl => hS_nat i l (by have := t.isLt; omega))]
  name_expr a_s := rsubs al (smul M (concat1 zeros (cumsumAxis1 S))) at ha
  obtain ⟨ha_ok, ha_r, ha_c, ha_get⟩ := ha
  -- norm_v
  have hn : IsMat (normAxis1 V) (fun i (_ : Fin 1) => norm2 (Ws i)) := hV.normAxis1
  name_expr norm_v := normAxis1 V at hn
  obtain ⟨hn_ok, hn_r, hn_c, hn_get⟩ := hn
  have hn_get0 : ∀ i : Fin U.r, norm_v.get i.val 0 = norm2 (Ws i) := fun i => hn_get i ⟨0, Nat.one_pos⟩
  -- x, w
  have hx : IsMat (div (maximum0 (rsubs 1 (div a_s norm_v))) (radds 1 (muls s (M * M))))
      (fun i (t : Fin (U.c + 1)) => xS (uAbsSorted (W1 i)) al M (norm2 (Ws i)) t.val) := by
    refine ⟨?_, ?_, ?_, ?_⟩ <;>
      simp [div, xS, ha_ok, ha_r, ha_c, ha_get, hn_ok, hn_r, hn_c, hn_get0, hs_ok, hs_r, hs_c, hs_get]
  name_expr x := div (maximum0 (rsubs 1 (div a_s norm_v))) (radds 1 (muls s (M * M))) at hx
  obtain ⟨hx_ok, hx_r, hx_c, hx_get⟩ := id hx
  have hw : IsMat (mul (smul M x) norm_v)
      (fun i (t : Fin (U.c + 1)) => wS (uAbsSorted (W1 i)) al M (norm2 (Ws i)) t.val) := by
    refine ⟨?_, ?_, ?_, ?_⟩ <;>
      simp [mul, wS, hx_ok, hx_r, hx_c, hx_get, hn_ok, hn_r, hn_c, hn_get0]
  name_expr w := mul (smul M x) norm_v at hw
  obtain ⟨hw_ok, hw_r, hw_c, hw_get⟩ := id hw
  -- lower
  have hI : IsMat (Gen.Prox.soft_threshold 0 S)
      (fun i (j : Fin U.c) => softThreshold 0 ((uAbsSorted (W1 i)).getD j.val 0)) :=
    soft_threshold_isMat 0 hS
  name_expr intervals := Gen.Prox.soft_threshold 0 S at hI
  obtain ⟨hI_ok, hI_r, hI_c, hI_get⟩ := id hI
  have hl : IsMat (concat1 intervals zeros) (fun i (t : Fin (U.c + 1)) => lowerS (uAbsSorted (W1 i)) t.val) := by
    refine ⟨?_, ?_, ?_, fun i t => ?_⟩
    · simp [hI_ok, hI_r, hz_ok, hz_r]
    · simp [hI_r]
    · simp [hI_c, hz_c]
    · simp only [concat1_get, hI_c, hz_get, lowerS]
      rw [map_append_zero_getD, hLlen]
      by_cases ht : t.val < U.c
      · rw [if_pos ht, if_pos ht]; exact hI.get_nat i.isLt ht
      · rw [if_neg ht, if_neg ht]
  name_expr lower := concat1 intervals zeros at hl
  obtain ⟨hl_ok, hl_r, hl_c, hl_get⟩ := id hl
  -- idx: the number of True entries of each row of `lower > w` (`np.sum` or `np.count_nonzero`)
  have hi : (countAxis1 (gtA lower w)).ok = true ∧ (countAxis1 (gtA lower w)).r = U.r ∧ (countAxis1 (gtA lower w)).c = 1 ∧
      ∀ i : Fin U.r, (countAxis1 (gtA lower w)).get i.val 0 = hierIdx (uAbsSorted (W1 i)) al M (norm2 (Ws i)) := by
    refine ⟨?_, ?_, ?_, fun i => ?_⟩
    · simp [hl_ok, hl_r, hl_c, hw_ok, hw_r, hw_c]
    · simp [hl_r, hw_r]
    · simp
    · simp only [countAxis1_get, gtA_c, gtA_get, hl_r, hl_c, hw_r, hw_c, bdim_self, bidx_val, hierIdx, hLlen]
      refine countTo_congr fun t ht => ?_
      rw [bidx_of_lt ht, hw.get_nat i.isLt ht, hl.get_nat i.isLt ht]
  name_expr idx := countAxis1 (gtA lower w) at hi
  obtain ⟨hi_ok, hi_r, hi_c, hi_get⟩ := hi
  refine ⟨fun hidx => ?_, fun ⟨i0, hi0⟩ => ?_⟩
  · -- x_star, w_star: `np.take_along_axis(·, idx, axis=1)`, with or without the (redundant) `.reshape((batch, 1))`
    have htx : (takeAlong1 x idx).ok = true :=
      (takeAlong1_ok_col hx_ok hi_ok (hi_r.trans hx_r.symm) hi_c).mpr fun i hi => by
        rw [hx_r] at hi
        have := hi_get ⟨i, hi⟩
        simp only at this
        rw [this, hx_c]
        exact Nat.lt_succ_iff.mpr (hidx ⟨i, hi⟩)
    have htw : (takeAlong1 w idx).ok = true :=
      (takeAlong1_ok_col hw_ok hi_ok (hi_r.trans hw_r.symm) hi_c).mpr fun i hi => by
        rw [hw_r] at hi
        have := hi_get ⟨i, hi⟩
        simp only at this
        rw [this, hw_c]
        exact Nat.lt_succ_iff.mpr (hidx ⟨i, hi⟩)
    have hxs : IsMat (reshape2 (takeAlong1 x idx) U.r 1) (fun i (_ : Fin 1) => xStar (Ws i) (W1 i) al M) := by
      refine ⟨?_, ?_, ?_, fun i j => ?_⟩
      · simp [htx, hx_r, hi_r, hi_c]
      · simp
      · simp
      · simp [hx_r, hi_r, hi_c, hi_get, xStar, Nat.mod_one]
        exact hx.get_nat i.isLt (Nat.lt_succ_iff.mpr (hidx i))
    have hxs' : IsMat (takeAlong1 x idx) (fun i (_ : Fin 1) => xStar (Ws i) (W1 i) al M) := by
      refine ⟨htx, ?_, ?_, fun i j => ?_⟩
      · simp [hx_r, hi_r]
      · simp [hi_c]
      · have hj : j.val = 0 := by omega
        simp [hx_r, hi_r, hi_c, hi_get, xStar, hj]
        exact hx.get_nat i.isLt (Nat.lt_succ_iff.mpr (hidx i))
    have hws : IsMat (reshape2 (takeAlong1 w idx) U.r 1) (fun i (_ : Fin 1) => wStar (Ws i) (W1 i) al M) := by
      refine ⟨?_, ?_, ?_, fun i j => ?_⟩
      · simp [htw, hw_r, hi_r, hi_c]
      · simp
      · simp
      · simp [hw_r, hi_r, hi_c, hi_get, wStar, Nat.mod_one]
        exact hw.get_nat i.isLt (Nat.lt_succ_iff.mpr (hidx i))
    have hws' : IsMat (takeAlong1 w idx) (fun i (_ : Fin 1) => wStar (Ws i) (W1 i) al M) := by
      refine ⟨htw, ?_, ?_, fun i j => ?_⟩
      · simp [hw_r, hi_r]
      · simp [hi_c]
      · have hj : j.val = 0 := by omega
        simp [hw_r, hi_r, hi_c, hi_get, wStar, hj]
        exact hw.get_nat i.isLt (Nat.lt_succ_iff.mpr (hidx i))
    -- whichever spelling the source uses becomes a name; the other name does not occur in the goal
    name_expr x_star := reshape2 (takeAlong1 x idx) U.r 1 at hxs
    name_expr w_star := reshape2 (takeAlong1 w idx) U.r 1 at hws
    name_expr x_star' := takeAlong1 x idx at hxs'
    name_expr w_star' := takeAlong1 w idx at hws'
    obtain ⟨hxs_ok, hxs_r, hxs_c, hxs_get⟩ := hxs
    obtain ⟨hws_ok, hws_r, hws_c, hws_get⟩ := hws
    obtain ⟨hxs_ok', hxs_r', hxs_c', hxs_get'⟩ := hxs'
    obtain ⟨hws_ok', hws_r', hws_c', hws_get'⟩ := hws'
    have hxs_get0 : ∀ i : Fin U.r, x_star.get i.val 0 = xStar (Ws i) (W1 i) al M := fun i => hxs_get i ⟨0, Nat.one_pos⟩
    have hws_get0 : ∀ i : Fin U.r, w_star.get i.val 0 = wStar (Ws i) (W1 i) al M := fun i => hws_get i ⟨0, Nat.one_pos⟩
    have hxs_get0' : ∀ i : Fin U.r, x_star'.get i.val 0 = xStar (Ws i) (W1 i) al M := fun i => hxs_get' i ⟨0, Nat.one_pos⟩
    have hws_get0' : ∀ i : Fin U.r, w_star'.get i.val 0 = wStar (Ws i) (W1 i) al M := fun i => hws_get' i ⟨0, Nat.one_pos⟩
    -- the two results (the signs are `np.where(u >= 0, 1, -1)`, or an array of `-1` overwritten with `1` where `u >= 0`)
    obtain ⟨hT_ok, hT_r, hT_c, hT_get⟩ := soft_threshold_isMat (0 : α) hUabs
    refine ⟨⟨?_, ?_, ?_, ?_⟩, ⟨?_, ?_, ?_, ?_⟩⟩ <;>
      simp [mul, minimum, mlpProx, hierProxRow, signPM, hVok, hVr, hVc, hVget, hUok, hUget, hS_ok, hs_ok, hz_ok, ha_ok, hn_ok,
        hx_ok, hw_ok, hI_ok, hl_ok, hi_ok, hxs_ok, hxs_r, hxs_c, hxs_get0, hws_ok, hws_r, hws_c, hws_get0, hxs_ok', hxs_r',
        hxs_c', hxs_get0', hws_ok', hws_r', hws_c', hws_get0', hT_ok, hT_r, hT_c, hT_get]
  · -- IndexError
    have htx : (takeAlong1 x idx).ok = false := by
      by_contra hne
      have hok : (takeAlong1 x idx).ok = true := by simpa using hne
      have := (takeAlong1_ok_col hx_ok hi_ok (hi_r.trans hx_r.symm) hi_c).mp hok i0.val (by rw [hx_r]; exact i0.isLt)
      rw [hi_get i0, hi0, hx_c] at this
      omega
    have hxs_ok : (reshape2 (takeAlong1 x idx) U.r 1).ok = false := by simp [htx]
    name_expr x_star := reshape2 (takeAlong1 x idx) U.r 1 at hxs_ok
    name_expr x_star' := takeAlong1 x idx at htx
    simp [hxs_ok, htx]

/-- Under the order laws, when every row's breakpoint count is a valid column, `mlp_prox_grad(W_skip_, W1_, alpha, M)` as
    written in the source returns, for a `d × k` and a `d × h` weight array, exactly the pair `mlpProx Ws W1 alpha M` of
    the model (`beta_star`, then `theta_star`): shapes `(d, k)` and `(d, h)`, same entries, no NumPy error.  All the
    arithmetic (norms, cumulative sums, the `h + 1` candidate solutions, the selection, the clipping) is performed in the
    same order on both sides. -/
theorem mlp_prox_grad_eq (H : OrderLaws α) (Ws : Fin d → Fin k → α) (W1 : Fin d → Fin h → α) (al M : α)
    (hidx : ∀ i, hierIdx (uAbsSorted (W1 i)) al M (norm2 (Ws i)) ≤ h) :
    Eqv (Gen.Prox.mlp_prox_grad (ofFn Ws) (ofFn W1) al M).1 (ofFn (mlpProx Ws W1 al M).1) ∧
    Eqv (Gen.Prox.mlp_prox_grad (ofFn Ws) (ofFn W1) al M).2 (ofFn (mlpProx Ws W1 al M).2) :=
  have h0 := (mlp_prox_grad_spec H al M (isMat_ofFn Ws) (isMat_ofFn W1)).1 hidx
  ⟨h0.1.eqv, h0.2.eqv⟩

/-- Under the order laws, when some row's breakpoint count is `h + 1` (all `h + 1` comparisons `lower > w` true, which
    needs `w < 0` in the last column: e.g. `M < 0`), the source raises IndexError in `np.take_along_axis` — both returned
    arrays carry an error — whereas the model `mlpProx` returns numbers: outside `M ≥ 0` the model does not describe the
    exception. -/
theorem mlp_prox_grad_index_error (H : OrderLaws α) (Ws : Fin d → Fin k → α) (W1 : Fin d → Fin h → α) (al M : α)
    (hfull : ∃ i, hierIdx (uAbsSorted (W1 i)) al M (norm2 (Ws i)) = h + 1) :
    (Gen.Prox.mlp_prox_grad (ofFn Ws) (ofFn W1) al M).1.ok = false ∧
    (Gen.Prox.mlp_prox_grad (ofFn Ws) (ofFn W1) al M).2.ok = false :=
  (mlp_prox_grad_spec H al M (isMat_ofFn Ws) (isMat_ofFn W1)).2 hfull

/-! ### the group variants -/

/-- Meaning of the description used for the group variants: `IsPartialMat junk R rows` says that no NumPy error occurred
    while computing `R`, that `R` has shape `(d, n)`, that row `i` of `R` is `f` whenever the model answers `some f` for
    that row, and that it still holds the uninitialised memory `junk` whenever the model answers `none`. -/
theorem isPartialMat_spelled_out {n : Nat} (junk : Nat → Nat → α) (R : Arr α) (rows : Fin d → Option (Fin n → α)) :
    IsPartialMat junk R rows ↔ R.ok = true ∧ R.r = d ∧ R.c = n ∧
      (∀ i f, rows i = some f → ∀ j : Fin n, R.get i.val j.val = f j) ∧
      (∀ i, rows i = none → ∀ j : Fin n, R.get i.val j.val = junk i.val j.val) := by
  unfold IsPartialMat
  refine ⟨fun ⟨h1, h2, h3, h4⟩ => ⟨h1, h2, h3, fun i f hf => ?_, fun i hn => ?_⟩,
    fun ⟨h1, h2, h3, h4, h5⟩ => ⟨h1, h2, h3, fun i => ?_⟩⟩
  · have := h4 i; rw [hf] at this; exact this
  · have := h4 i; rw [hn] at this; exact this
  · cases hr : rows i with
    | none => exact h5 i hr
    | some f => exact h4 i f hr

/-- `group_linear_prox_grad(groups, W, alpha)` as written in the source — `np.empty`, then for every group: gather the
    rows `W[g]`, flatten them to one row, `linear_prox_grad`, reshape back, scatter with `W_star[g] = …` —, applied to any
    list of groups of valid row indices (overlapping groups, repeated indices and uncovered rows allowed)
    and to an array that is without error the `d × h` matrix `W`, returns without error a `d × h` array whose covered rows
    are the model's `groupLinearProx groups W alpha` and whose uncovered rows are the uninitialised memory.  Every number
    type (same floating-point operations in the same order). -/
theorem group_linear_prox_grad_isPartialMat (junk : Nat → Nat → Nat → α) (groups : List (List (Fin d)))
    {A : Arr α} {W : Fin d → Fin h → α} (hA : IsMat A W) (al : α) :
    IsPartialMat (junk 0) (Gen.Prox.group_linear_prox_grad junk (groups.map (List.map Fin.val)) A al)
      (groupLinearProx groups W al) := by
  unfold Gen.Prox.group_linear_prox_grad
  extract_lets W_star W_star_3 flags
  have key : RowsAre (junk 0) (fun g => linearProxRow (flatGroup W g) al) W_star_3
      (fun i => groups.foldl (locStep i) none) := by
    refine foldl_groups (RowsAre (junk 0) (fun g => linearProxRow (flatGroup W g) al)) _ groups ?_ W_star
      (fun _ => none) ?_
    · intro st loc g hg hP
      have h1 := hA.takeRows g
      have h3 := linear_prox_grad_isMat al h1.flattenRow
      have h4 : IsMat (reshape2 (Gen.Prox.linear_prox_grad (flattenRow (takeRows A (g.map Fin.val))) al) g.length h)
          (fun q j => linearProxRow (flatGroup W g) al (flatIdx q j)) := IsMat.unflattenRow h3
      have h5 := hP.setRows (fun q q' j e => by simp only [linearProxRow, flatGroup_flatIdx', e]) h4
      simp only [takeRows_r, takeRows_c, List.length_map, hA.2.2.1]
      exact h5.checked (by simp only [h1.1, h3.1, h5.1, Bool.and_self])
    · show RowsAre _ _ (Arr.empty (junk 0) A.r A.c) _
      rw [hA.2.1, hA.2.2.1]
      exact RowsAre.empty _ _
  exact key.isPartialMat.checked (by simp [flags, W_star, key.1])

/-- `group_linear_prox_grad(groups, W, alpha)` as written in the source, for a `d × h` weight array: covered rows are the
    model's `groupLinearProx`, uncovered rows the uninitialised memory, shape `(d, h)`, no NumPy error. -/
theorem group_linear_prox_grad_eq (junk : Nat → Nat → Nat → α) (groups : List (List (Fin d)))
    (W : Fin d → Fin h → α) (al : α) :
    IsPartialMat (junk 0) (Gen.Prox.group_linear_prox_grad junk (groups.map (List.map Fin.val)) (ofFn W) al)
      (groupLinearProx groups W al) :=
  group_linear_prox_grad_isPartialMat junk groups (isMat_ofFn W) al

/-- instance at `Float`: the generated `group_linear_prox_grad` is the model's on the covered rows, double for double -/
example (junk : Nat → Nat → Nat → Float) (groups : List (List (Fin d)))
    (W : Fin d → Fin h → Float) (al : Float) :
    IsPartialMat (junk 0) (Gen.Prox.group_linear_prox_grad junk (groups.map (List.map Fin.val)) (ofFn W) al)
      (groupLinearProx groups W al) :=
  group_linear_prox_grad_eq junk groups W al

/-- `group_mlp_prox_grad(groups, W_skip, W1, alpha, M)` as written in the source — two `np.empty`, then for every group:
    gather and flatten the rows of both arrays, `mlp_prox_grad` on the two single rows, reshape back, scatter —, under the
    order laws, for ANY list of groups of valid row indices whose breakpoint count (on the
    flattened group) is a valid column: the two returned arrays are without error `d × k` and `d × h`, their covered rows
    are the two components of the model's `groupMlpProx groups Ws W1 alpha M`, their uncovered rows the uninitialised
    memory of the first, resp. second `np.empty`. -/
theorem group_mlp_prox_grad_isPartialMat (H : OrderLaws α) (junk : Nat → Nat → Nat → α) (groups : List (List (Fin d)))
    {A B : Arr α} {Ws : Fin d → Fin k → α} {W1 : Fin d → Fin h → α} (hA : IsMat A Ws)
    (hB : IsMat B W1) (al M : α)
    (hidx : ∀ g ∈ groups, hierIdx (uAbsSorted (flatGroup W1 g)) al M (norm2 (flatGroup Ws g)) ≤ g.length * h) :
    IsPartialMat (junk 0) (Gen.Prox.group_mlp_prox_grad junk (groups.map (List.map Fin.val)) A B al M).1
      (groupMlpProx groups Ws W1 al M).1 ∧
    IsPartialMat (junk 1) (Gen.Prox.group_mlp_prox_grad junk (groups.map (List.map Fin.val)) A B al M).2
      (groupMlpProx groups Ws W1 al M).2 := by
  unfold Gen.Prox.group_mlp_prox_grad
  extract_lets W_skip_star W1_star st W_skip_star_3 W1_star_3 flags
  have key : RowsAre (junk 0) (fun g => (hierProxRow (flatGroup Ws g) (flatGroup W1 g) al M).1) st.1
        (fun i => groups.foldl (locStep i) none) ∧
      RowsAre (junk 1) (fun g => (hierProxRow (flatGroup Ws g) (flatGroup W1 g) al M).2) st.2
        (fun i => groups.foldl (locStep i) none) := by
    refine foldl_groups (fun (st : Arr α × Arr α) loc =>
        RowsAre (junk 0) (fun g => (hierProxRow (flatGroup Ws g) (flatGroup W1 g) al M).1) st.1 loc ∧
        RowsAre (junk 1) (fun g => (hierProxRow (flatGroup Ws g) (flatGroup W1 g) al M).2) st.2 loc) _ groups ?_
      (W_skip_star, W1_star) (fun _ => none) ?_
    · intro st loc g hg hP
      have hA1 := hA.takeRows g
      have hB1 := hB.takeRows g
      obtain ⟨hm1, hm2⟩ := (mlp_prox_grad_spec H al M hA1.flattenRow hB1.flattenRow).1 (fun _ => hidx g hg)
      have h4 : IsMat (reshape2 (Gen.Prox.mlp_prox_grad (flattenRow (takeRows A (g.map Fin.val)))
            (flattenRow (takeRows B (g.map Fin.val))) al M).1 g.length k)
          (fun q j => (hierProxRow (flatGroup Ws g) (flatGroup W1 g) al M).1 (flatIdx q j)) := IsMat.unflattenRow hm1
      have h4' : IsMat (reshape2 (Gen.Prox.mlp_prox_grad (flattenRow (takeRows A (g.map Fin.val)))
            (flattenRow (takeRows B (g.map Fin.val))) al M).2 g.length h)
          (fun q j => (hierProxRow (flatGroup Ws g) (flatGroup W1 g) al M).2 (flatIdx q j)) := IsMat.unflattenRow hm2
      have h5 := hP.1.setRows (fun q q' j e => by simp only [hierProxRow, flatGroup_flatIdx', e]) h4
      have h5' := hP.2.setRows (fun q q' j e => by simp only [hierProxRow, flatGroup_flatIdx', e]) h4'
      simp only [takeRows_r, takeRows_c, List.length_map, hA.2.2.1, hB.2.2.1]
      exact ⟨h5.checked (by simp only [hA1.1, hB1.1, hm1.1, hm2.1, h5.1, h5'.1, Bool.and_self]),
        h5'.checked (by simp only [hA1.1, hB1.1, hm1.1, hm2.1, h5.1, h5'.1, Bool.and_self])⟩
    · refine ⟨?_, ?_⟩
      · show RowsAre _ _ (Arr.empty (junk 0) A.r A.c) _
        rw [hA.2.1, hA.2.2.1]
        exact RowsAre.empty _ _
      · show RowsAre _ _ (Arr.empty (junk 1) B.r B.c) _
        rw [hB.2.1, hB.2.2.1]
        exact RowsAre.empty _ _
  have hfl : flags = true := by simp [flags, W_skip_star, W1_star, W_skip_star_3, W1_star_3, key.1.1, key.2.1]
  exact ⟨key.1.isPartialMat.checked hfl, key.2.isPartialMat.checked hfl⟩

/-- `group_mlp_prox_grad(groups, W_skip, W1, alpha, M)` as written in the source, for a `d × k` and a `d × h` weight array,
    under the order laws and valid breakpoint counts: covered rows are the model's `groupMlpProx`, uncovered rows the
    uninitialised memory, shapes `(d, k)` and `(d, h)`, no NumPy error. -/
theorem group_mlp_prox_grad_eq (H : OrderLaws α) (junk : Nat → Nat → Nat → α) (groups : List (List (Fin d)))
    (Ws : Fin d → Fin k → α) (W1 : Fin d → Fin h → α) (al M : α)
    (hidx : ∀ g ∈ groups, hierIdx (uAbsSorted (flatGroup W1 g)) al M (norm2 (flatGroup Ws g)) ≤ g.length * h) :
    IsPartialMat (junk 0) (Gen.Prox.group_mlp_prox_grad junk (groups.map (List.map Fin.val)) (ofFn Ws) (ofFn W1) al M).1
      (groupMlpProx groups Ws W1 al M).1 ∧
    IsPartialMat (junk 1) (Gen.Prox.group_mlp_prox_grad junk (groups.map (List.map Fin.val)) (ofFn Ws) (ofFn W1) al M).2
      (groupMlpProx groups Ws W1 al M).2 :=
  group_mlp_prox_grad_isPartialMat H junk groups (isMat_ofFn Ws) (isMat_ofFn W1) al M hidx

end generic

/-! ## Part 2 — real numbers: the order laws hold, and `M ≥ 0` rules the IndexError out -/

section real
variable {d h k : Nat}

/-- Over ℝ, for every `M ≥ 0` (every `alpha`, every weights, zero rows included), `mlp_prox_grad(W_skip_, W1_, alpha, M)`
    as written in the source returns exactly the pair `mlpProx Ws W1 alpha M` of the model, without NumPy error. -/
theorem mlp_prox_grad_eq_real (Ws : Fin d → Fin k → ℝ) (W1 : Fin d → Fin h → ℝ) (al : ℝ) {M : ℝ} (hM : 0 ≤ M) :
    Eqv (Gen.Prox.mlp_prox_grad (ofFn Ws) (ofFn W1) al M).1 (ofFn (mlpProx Ws W1 al M).1) ∧
    Eqv (Gen.Prox.mlp_prox_grad (ofFn Ws) (ofFn W1) al M).2 (ofFn (mlpProx Ws W1 al M).2) :=
  mlp_prox_grad_eq orderLaws_real Ws W1 al M fun i => by
    have := hierIdx_le_real (uAbsSorted (W1 i)) al hM (norm2_nonneg (Ws i))
    rwa [uAbsSorted_length'] at this

/-- Over ℝ, for every `M ≥ 0` and every list of groups of valid row indices,
    `group_mlp_prox_grad(groups, W_skip, W1, alpha, M)` as written in the source returns without NumPy error two arrays
    whose covered rows are the model's `groupMlpProx groups Ws W1 alpha M` (uncovered rows: uninitialised memory). -/
theorem group_mlp_prox_grad_eq_real (junk : Nat → Nat → Nat → ℝ) (groups : List (List (Fin d)))
    (Ws : Fin d → Fin k → ℝ) (W1 : Fin d → Fin h → ℝ) (al : ℝ) {M : ℝ} (hM : 0 ≤ M) :
    IsPartialMat (junk 0) (Gen.Prox.group_mlp_prox_grad junk (groups.map (List.map Fin.val)) (ofFn Ws) (ofFn W1) al M).1
      (groupMlpProx groups Ws W1 al M).1 ∧
    IsPartialMat (junk 1) (Gen.Prox.group_mlp_prox_grad junk (groups.map (List.map Fin.val)) (ofFn Ws) (ofFn W1) al M).2
      (groupMlpProx groups Ws W1 al M).2 :=
  group_mlp_prox_grad_eq orderLaws_real junk groups Ws W1 al M fun g _ => by
    have := hierIdx_le_real (uAbsSorted (flatGroup W1 g)) al hM (norm2_nonneg (flatGroup Ws g))
    rwa [uAbsSorted_length'] at this

/-- The hypothesis of `mlp_prox_grad_index_error` is satisfiable over ℝ: one feature with skip weight `1`, no hidden unit,
    `alpha = 0`, `M = -1` gives `w = M·1·1 = -1 < 0 = lower` in the only column, hence `idx = 1 = h + 1`
    (NumPy: "IndexError: index 1 is out of bounds for axis 1 with size 1"). -/
example : ∃ (Ws : Fin 1 → Fin 1 → ℝ) (W1 : Fin 1 → Fin 0 → ℝ) (al M : ℝ),
    ∃ i, hierIdx (uAbsSorted (W1 i)) al M (norm2 (Ws i)) = 0 + 1 := by
  refine ⟨fun _ _ => 1, fun _ j => j.elim0, 0, -1, 0, ?_⟩
  simp [hierIdx, uAbsSorted, sortDesc, wS, xS, aS, lowerS, norm2, sumL, cumsum, List.range_succ]

end real

end GemVerif.Props.C05Gen
