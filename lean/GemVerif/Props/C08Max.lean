/-
  C08, control part — "the chosen split is the best one".

  `Props/C08.lean` proves that every gain formula of `compute_all_splits` is the change ΔJ of the kernel-KMeans
  objective.  This file proves the control skeleton of `compute_all_splits` / `find_best_split`
  (gemclus/tree/_utils.pyx) and of the stopping rule of `Kauri.fit` (gemclus/tree/kauri.py), over ℝ, treating the
  gain formulas as opaque functions of the stocks:

  * the running best never decreases and, after `compute_all_splits`, dominates every candidate the code may evaluate
    (`Admissible`: double star, left/right star, left/right switch to any other cluster, reallocation to any pair of
    different other clusters — the last one needs the top-2 argument);
  * the running best is either unchanged or the record of an admissible candidate (strictly better, except that the
    switch block also overwrites on ties);
  * `find_best_split` therefore returns a record whose gain is ≥ 0 and ≥ the gain of every admissible candidate at
    every evaluated place (explorable leaf, candidate feature, threshold position respecting `min_samples_leaf`
    between two different feature values), and the record is the initial one or comes from such a place;
  * the loop of `Kauri.fit` stops on `last_gain > 0` failing only if no admissible candidate has a positive gain.

  Vocabulary (defined in `Lemmas/KauriC08.lean`, characterised here by `admissible_iff`, `candAt_fields`,
  `evaluated_iff`): `Admissible c g l r`, `candAt … j f l`, `Evaluated … j f l`, `Cand.record c g l r`.
-/
import GemVerif.Lemmas.KauriC08

namespace GemVerif.Props.C08Max
open GemVerif RealLike Model.Kauri KauriC08

/-! ### the candidates of `compute_all_splits` -/

/-- `Admissible c g l r` lists exactly the candidates (gain `g`, cluster `l` for the left part, cluster `r` for the
    right part) that `compute_all_splits` may evaluate for the candidate cut `c`, each under the guard written in the
    code: double star if `n_clusters < K_max - 1 and n_leaf != cluster_sizes[k]`; the two single stars if
    `n_clusters < K_max`; the two switches to every `k' < n_clusters`, `k' ≠ k` if `n_clusters >= 2`; the reallocation
    to every pair `l ≠ r` of clusters `< n_clusters` other than `k` if `n_clusters >= 3 and n_leaf != cluster_sizes[k]`,
    with gain `left_switch(l) + right_switch(r) + corrective_term`. -/
theorem admissible_iff (c : Cand ℝ) (g : ℝ) (l r : Int) :
    Admissible c g l r ↔
      (c.n_clusters + 1 < c.K_max ∧ c.n_leaf ≠ c.cluster_sizes c.k ∧
        g = c.app Gen.Kauri.doubleStar c.k ∧ l = (c.n_clusters : Int) ∧ r = (c.n_clusters : Int) + 1) ∨
      (c.n_clusters < c.K_max ∧ g = c.app Gen.Kauri.leftStar c.k ∧ l = (c.n_clusters : Int) ∧ r = (c.k : Int)) ∨
      (c.n_clusters < c.K_max ∧ g = c.app Gen.Kauri.rightStar c.k ∧ l = (c.k : Int) ∧ r = (c.n_clusters : Int)) ∨
      (∃ p : Nat, 2 ≤ c.n_clusters ∧ p < c.n_clusters ∧ p ≠ c.k ∧
        g = c.app Gen.Kauri.leftSwitch p ∧ l = (p : Int) ∧ r = (c.k : Int)) ∨
      (∃ p : Nat, 2 ≤ c.n_clusters ∧ p < c.n_clusters ∧ p ≠ c.k ∧
        g = c.app Gen.Kauri.rightSwitch p ∧ l = (c.k : Int) ∧ r = (p : Int)) ∨
      (∃ kl kr : Nat, 3 ≤ c.n_clusters ∧ c.n_leaf ≠ c.cluster_sizes c.k ∧ kl < c.n_clusters ∧ kr < c.n_clusters ∧
        kl ≠ c.k ∧ kr ≠ c.k ∧ kl ≠ kr ∧
        g = c.app Gen.Kauri.leftSwitch kl + c.app Gen.Kauri.rightSwitch kr + c.app Gen.Kauri.corrective c.k ∧
        l = (kl : Int) ∧ r = (kr : Int)) := by
  constructor
  · intro h
    cases h with
    | doubleStar h1 h2 => exact Or.inl ⟨h1, h2, rfl, rfl, by push_cast; rfl⟩
    | leftStar h1 => exact Or.inr (Or.inl ⟨h1, rfl, rfl, rfl⟩)
    | rightStar h1 => exact Or.inr (Or.inr (Or.inl ⟨h1, rfl, rfl, rfl⟩))
    | leftSwitch p h2 hp hpk => exact Or.inr (Or.inr (Or.inr (Or.inl ⟨p, h2, hp, hpk, rfl, rfl, rfl⟩)))
    | rightSwitch p h2 hp hpk =>
      exact Or.inr (Or.inr (Or.inr (Or.inr (Or.inl ⟨p, h2, hp, hpk, rfl, rfl, rfl⟩))))
    | realloc kl kr h3 hleaf hl hr hlk hrk hlr =>
      exact Or.inr (Or.inr (Or.inr (Or.inr (Or.inr ⟨kl, kr, h3, hleaf, hl, hr, hlk, hrk, hlr, rfl, rfl, rfl⟩))))
  · rintro (⟨h1, h2, rfl, rfl, rfl⟩ | ⟨h1, rfl, rfl, rfl⟩ | ⟨h1, rfl, rfl, rfl⟩ | ⟨p, h2, hp, hpk, rfl, rfl, rfl⟩ |
      ⟨p, h2, hp, hpk, rfl, rfl, rfl⟩ | ⟨kl, kr, h3, hleaf, hl, hr, hlk, hrk, hlr, rfl, rfl, rfl⟩)
    · have := Admissible.doubleStar h1 h2
      push_cast at this
      exact this
    · exact Admissible.leftStar h1
    · exact Admissible.rightStar h1
    · exact Admissible.leftSwitch p h2 hp hpk
    · exact Admissible.rightSwitch p h2 hp hpk
    · exact Admissible.realloc kl kr h3 hleaf hl hr hlk hrk hlr

/-- In a tree state where the cluster `k` of the leaf is one of the `n_clusters` existing clusters, the guard
    `n_clusters >= 2` of the switch block is implied by the existence of another cluster `p`. -/
theorem switch_guard_redundant {c : Cand ℝ} (hk : c.k < c.n_clusters) {p : Nat} (hp : p < c.n_clusters)
    (hpk : p ≠ c.k) : 2 ≤ c.n_clusters :=
  two_le_of_switch hk hp hpk

/-- In such a state the guard `n_clusters >= 3` of the refurbish block is implied by the existence of two different
    other clusters. -/
theorem realloc_guard_redundant {c : Cand ℝ} (hk : c.k < c.n_clusters) {l r : Nat} (hl : l < c.n_clusters)
    (hr : r < c.n_clusters) (hlk : l ≠ c.k) (hrk : r ≠ c.k) (hlr : l ≠ r) : 3 ≤ c.n_clusters :=
  three_le_of_realloc hk hl hr hlk hrk hlr

/-! ### `compute_all_splits` -/

/-- `compute_all_splits` never lowers the gain stored in `best_split`. -/
theorem computeAllSplits_ge_best (best : Split ℝ) (c : Cand ℝ) : best.gain ≤ (computeAllSplits best c).gain :=
  KauriC08.computeAllSplits_ge_best best c

/-- After `compute_all_splits` the gain stored in `best_split` is at least the gain of every candidate the code may
    evaluate for this cut — star, double star, switch to any other cluster, and reallocation of the two parts to any
    pair of different other clusters.  For the reallocations this is the top-2 argument: tracking the best and second
    best left and right switches (ties included) finds the best pair `l ≠ r` of `left_switch(l) + right_switch(r)`. -/
theorem computeAllSplits_max (best : Split ℝ) (c : Cand ℝ) {g : ℝ} {l r : Int} (h : Admissible c g l r) :
    g ≤ (computeAllSplits best c).gain :=
  KauriC08.computeAllSplits_max best c h

/-- `compute_all_splits` leaves `best_split` unchanged or overwrites it with the record (gain, this leaf, targets,
    this feature, this threshold) of one of the admissible candidates of this cut.  In the second case the new gain is
    at least the old one, and strictly larger unless the winner is one of the two switch candidates of some cluster
    (the star, double-star and refurbish blocks compare with `>`, the switch block with `>=`). -/
theorem computeAllSplits_attained (best : Split ℝ) (c : Cand ℝ) :
    computeAllSplits best c = best ∨
      ∃ g l r, Admissible c g l r ∧
        computeAllSplits best c = ⟨g, c.leaf_id, l, r, c.feature_id, c.threshold⟩ ∧
        best.gain ≤ g ∧
        (best.gain < g ∨ ∃ p : Nat, p < c.n_clusters ∧ p ≠ c.k ∧
          ((g = c.app Gen.Kauri.leftSwitch p ∧ l = (p : Int) ∧ r = (c.k : Int)) ∨
           (g = c.app Gen.Kauri.rightSwitch p ∧ l = (c.k : Int) ∧ r = (p : Int)))) :=
  computeAllSplits_adv best c

/-! ### `find_best_split` -/

section findBestSplit
variable (κ X : Nat → Nat → ℝ) (a : Assign) (nClusters K_max nLeaves minLeaf : Nat)

/-- The candidate cut `candAt … j f l` that `find_best_split` hands to `compute_all_splits` at leaf `j`, feature `f`,
    sorted position `l`: the left part has `l + 1` samples, the threshold is the feature value of the `l`-th sorted
    sample of the leaf, the cluster `k` is the one of leaf `j`, and the cluster count and `K_max` are the arguments
    of `find_best_split`. -/
theorem candAt_fields (j f l : Nat) :
    let c := candAt κ X a nClusters K_max nLeaves j f l
    c.leaf_id = j ∧ c.feature_id = f ∧ c.split_size = l + 1 ∧ c.threshold = X (nuOf X a j f)[l]! f ∧
      c.k = a.clusterOf[j]! ∧ c.n_clusters = nClusters ∧ c.K_max = K_max ∧ c.n_leaf = (a.samplesOfLeaf j).length :=
  ⟨rfl, rfl, rfl, rfl, rfl, rfl, rfl, rfl⟩

/-- `Evaluated … j f l`: position `l` of the scan of leaf `j` along feature `f` is a position at which the code calls
    `compute_all_splits`: it is one of the `n_leaf - 1` positions, both parts keep at least `min_samples_leaf` samples
    and the feature values of the sorted samples `l` and `l + 1` differ. -/
theorem evaluated_iff (j f l : Nat) :
    Evaluated X a minLeaf j f l ↔
      (l < (a.samplesOfLeaf j).length - 1 ∧ minLeaf ≤ l + 1 ∧ l + minLeaf + 1 ≤ (a.samplesOfLeaf j).length ∧
        X (nuOf X a j f)[l]! f ≠ X (nuOf X a j f)[l + 1]! f) :=
  evaluated_real_iff X a minLeaf

/-- The model of `find_best_split` is the three nested loops — explorable leaves, candidate features, positions of
    the sorted scan — that call `compute_all_splits` on `candAt … j f l` exactly when the guard of the code holds. -/
theorem findBestSplit_uses_candAt (toExplore features : List Nat) :
    findBestSplit κ X toExplore a nClusters K_max nLeaves minLeaf features =
      toExplore.foldl (fun best j =>
        features.foldl (fun best f =>
          (List.range ((a.samplesOfLeaf j).length - 1)).foldl (fun best l =>
            if evaluatedB X a minLeaf j f l then computeAllSplits best (candAt κ X a nClusters K_max nLeaves j f l)
            else best) best) best)
        Split.init :=
  findBestSplit_eq κ X a nClusters K_max nLeaves minLeaf toExplore features

/-- The guard computed by the scan is true exactly at the evaluated positions. -/
theorem evaluatedB_iff (j f l : Nat) (hl : l < (a.samplesOfLeaf j).length - 1) :
    evaluatedB X a minLeaf j f l = true ↔ Evaluated X a minLeaf j f l := by
  rw [evaluatedB_eq_true]
  exact ⟨fun h => ⟨hl, h⟩, fun h => h.2⟩

/-- The split returned by `find_best_split` is the best one: its gain is at least the gain of every admissible
    assignment (star, double star, switch, reallocation, as permitted by `K_max`) of every evaluated cut (explorable
    leaf `j`, candidate feature `f`, threshold position `l` respecting `min_samples_leaf`). -/
theorem findBestSplit_max (toExplore features : List Nat) {j f l : Nat} (hj : j ∈ toExplore) (hf : f ∈ features)
    (he : Evaluated X a minLeaf j f l) {g : ℝ} {lt rt : Int}
    (hadm : Admissible (candAt κ X a nClusters K_max nLeaves j f l) g lt rt) :
    g ≤ (findBestSplit κ X toExplore a nClusters K_max nLeaves minLeaf features).gain :=
  KauriC08.findBestSplit_max κ X a nClusters K_max nLeaves minLeaf toExplore features hj hf he hadm

/-- The split returned by `find_best_split` is the initial `Split(0, -1, -1, -1, -1, 0)` or the record — gain, leaf,
    targets, feature, threshold — of an admissible assignment of an evaluated cut of an explorable leaf along a
    candidate feature. -/
theorem findBestSplit_attained (toExplore features : List Nat) :
    findBestSplit κ X toExplore a nClusters K_max nLeaves minLeaf features = Split.init ∨
      ∃ j f l g lt rt, j ∈ toExplore ∧ f ∈ features ∧ Evaluated X a minLeaf j f l ∧
        Admissible (candAt κ X a nClusters K_max nLeaves j f l) g lt rt ∧
        findBestSplit κ X toExplore a nClusters K_max nLeaves minLeaf features =
          ⟨g, j, lt, rt, f, X (nuOf X a j f)[l]! f⟩ :=
  findBestSplit_chosen κ X a nClusters K_max nLeaves minLeaf toExplore features

/-- The gain returned by `find_best_split` is never negative. -/
theorem findBestSplit_gain_nonneg (toExplore features : List Nat) :
    0 ≤ (findBestSplit κ X toExplore a nClusters K_max nLeaves minLeaf features).gain :=
  KauriC08.findBestSplit_gain_nonneg κ X a nClusters K_max nLeaves minLeaf toExplore features

/-- If `find_best_split` reports no positive gain (the test `last_gain > 0` of the loop fails), then no admissible
    assignment of any evaluated cut has a positive gain. -/
theorem no_positive_gain_means_none (toExplore features : List Nat)
    (h : ¬ 0 < (findBestSplit κ X toExplore a nClusters K_max nLeaves minLeaf features).gain)
    {j f l : Nat} (hj : j ∈ toExplore) (hf : f ∈ features) (he : Evaluated X a minLeaf j f l) {g : ℝ} {lt rt : Int}
    (hadm : Admissible (candAt κ X a nClusters K_max nLeaves j f l) g lt rt) : g ≤ 0 :=
  le_trans (findBestSplit_max κ X a nClusters K_max nLeaves minLeaf toExplore features hj hf he hadm) (not_lt.1 h)

end findBestSplit

/-! ### the loop of `Kauri.fit` -/

/-- When no structural limit stops the loop (`n_leaves < max_leaves`, leaves left to explore, previous gain positive)
    and the best gain is positive, the iteration applies exactly the split returned by `find_best_split` — the best
    one by `findBestSplit_max`. -/
theorem fitStep_applies_best (κ X : Nat → Nat → ℝ) (p : Params) (s : FitState ℝ) (features : List Nat)
    (hc : s.continues p = true)
    (hpos : 0 < (findBestSplit κ X s.toExplore s.asg s.nClusters p.maxClusters s.nLeaves p.minLeaf features).gain) :
    fitStep κ X p s features =
      { applySplit X p { s with steps := s.steps + 1 }
          (findBestSplit κ X s.toExplore s.asg s.nClusters p.maxClusters s.nLeaves p.minLeaf features)
        with lastGainPos := true } := by
  unfold fitStep
  simp only [hc, Bool.not_true, Bool.false_eq_true, if_false, lt_real, decide_eq_true_eq]
  rw [if_pos hpos]

/-- Fitting stops on the gain test only when no admissible split has a positive gain: if no structural limit stops
    the loop and the iteration records `last_gain > 0` as false, then every admissible assignment of every evaluated
    cut of every explorable leaf along every drawn feature has gain ≤ 0. -/
theorem fit_stops_only_without_positive_gain (κ X : Nat → Nat → ℝ) (p : Params) (s : FitState ℝ)
    (features : List Nat) (hc : s.continues p = true) (hstop : (fitStep κ X p s features).lastGainPos = false)
    {j f l : Nat} (hj : j ∈ s.toExplore) (hf : f ∈ features) (he : Evaluated X s.asg p.minLeaf j f l)
    {g : ℝ} {lt rt : Int}
    (hadm : Admissible (candAt κ X s.asg s.nClusters p.maxClusters s.nLeaves j f l) g lt rt) : g ≤ 0 := by
  refine no_positive_gain_means_none κ X s.asg s.nClusters p.maxClusters s.nLeaves p.minLeaf s.toExplore features
    ?_ hj hf he hadm
  intro hpos
  rw [fitStep_applies_best κ X p s features hc hpos] at hstop
  cases hstop

/-! ### non-vacuity witnesses

  `Example.exA`, `Example.exB` (`Lemmas/KauriC08.lean`) are cuts of a 2-sample leaf of cluster 0 into 1 + 1 samples, with
  three clusters and `K_max = 3`. -/

section witnesses
open KauriC08.Example

/-- The reallocation candidate is admissible for `exA` (left part to cluster 1, right part to cluster 2) … -/
example : Admissible exA (exA.app Gen.Kauri.leftSwitch 1 + exA.app Gen.Kauri.rightSwitch 2
    + exA.app Gen.Kauri.corrective exA.k) (1 : Nat) (2 : Nat) :=
  Admissible.realloc (c := exA) 1 2 (show 3 ≤ 3 by decide) (show 2 ≠ 4 by decide) (show 1 < 3 by decide)
    (show 2 < 3 by decide) (show 1 ≠ 0 by decide) (show 2 ≠ 0 by decide) (by decide)

/-- … and it wins: `compute_all_splits` returns it with gain 23/6 + 23/6 + 1/6 = 47/6, above the best single switch
    (23/6).  Here the two maxima sit on different clusters (`top_k_left = 1 ≠ top_k_right = 2`). -/
example : computeAllSplits Split.init exA = ⟨47 / 6, 0, 1, 2, 0, 0⟩ := resultA

/-- On `exA` the switch loop overwrote the running best on a tie (`right_switch(2) = left_switch(1) = 23/6`): after the
    loop the running best is the right switch to cluster 2, not the left switch to cluster 1 found first. -/
example : ((List.range 3).foldl (switchStep exA) (({} : Top2 ℝ), Split.init)).2 = ⟨23 / 6, 0, 0, 2, 0, 0⟩ := by
  rw [foldA]; rfl

/-- On `exB` both maxima sit on cluster 1 (`top_k_left = top_k_right`), so the second best is needed … -/
example : ((List.range 3).foldl (switchStep exB) (({} : Top2 ℝ), Split.init)).1.topKL =
    ((List.range 3).foldl (switchStep exB) (({} : Top2 ℝ), Split.init)).1.topKR := by
  rw [foldB]

/-- … and the reallocation (left part to cluster 2, its second best; right part to cluster 1) wins with gain
    11/6 + 23/6 + 1/6 = 35/6, above the best single switch (23/6) and above the other pairing (23/6 + 7/6 + 1/6). -/
example : computeAllSplits Split.init exB = ⟨35 / 6, 0, 2, 1, 0, 0⟩ := resultB

/-- two samples in one leaf of one cluster, one feature with values 0 and 1 -/
def exAsg : Assign := ⟨2, #[0, 0], #[0]⟩
/-- `X[i, f] = i` -/
noncomputable def exX : Nat → Nat → ℝ := fun i _ => (i : ℝ)

/-- The hypotheses of `findBestSplit_max` are satisfiable: position 0 of leaf 0 along feature 0 is evaluated
    (`min_samples_leaf = 1`) … -/
example : Evaluated exX exAsg 1 0 0 0 := by
  rw [evaluated_real_iff]
  have h1 : exAsg.samplesOfLeaf 0 = [0, 1] := by decide
  have h2 : nuOf exX exAsg 0 0 = #[0, 1] := by
    unfold nuOf
    rw [h1]
    simp [sortBy, insertBy, exX]
  unfold nLeafOf
  rw [h1, h2]
  simp [exX]

/-- … and with one cluster and `K_max = 2` the left star is admissible there, for every kernel. -/
example (κ : Nat → Nat → ℝ) : Admissible (candAt κ exX exAsg 1 2 1 0 0 0)
    ((candAt κ exX exAsg 1 2 1 0 0 0).app Gen.Kauri.leftStar 0) (1 : Nat) (0 : Nat) :=
  Admissible.leftStar (c := candAt κ exX exAsg 1 2 1 0 0 0) (show 1 < 2 by decide)

end witnesses

end GemVerif.Props.C08Max
