/-
  C01 — GEMINI scores equal their defining statistical distances.
  Property theorems only; helper lemmas live in `GemVerif/Lemmas/Gemini.lean`
  and `GemVerif/Lemmas/GeminiC01.lean`.
-/
import GemVerif.Lemmas.GeminiC01
import GemVerif.Gen.Registry

namespace GemVerif.Props.C01
open scoped BigOperators
open GemVerif Model Spec

variable {n K : ℕ}

/-- KL one-vs-all (= the name `mi`): the code's `prediction_entropy - cluster_entropy`
    is `Σ_k π_k · KL(p(x|k) ‖ p(x))`, for every shape and every interior `P`. -/
theorem kl_ova_eq_spec (hn : 0 < n) {ε : ℝ} (hε : 0 < ε) (P : Fin n → Fin K → ℝ) (hI : Interior ε P) :
    klScore ε false P = Spec.ova Spec.KL P := by
  have hnR : (0 : ℝ) < n := by exact_mod_cast hn
  simp only [klScore, clipP_of_interior hI, tab_apply, mean0_eq_pi, meanV_eq, sumFin_eq_sum,
    RealLike.log_real, Bool.false_eq_true, if_false, Spec.ova, Spec.KL, Spec.cond, Spec.unif]
  rw [← Finset.sum_sub_distrib]
  refine Finset.sum_congr rfl fun k _ => ?_
  have hπ := pi_pos hε hn hI k
  have hlog : ∀ i, Real.log (P i k / (↑n * Spec.pi P k) / (1 / ↑n)) = Real.log (P i k) - Real.log (Spec.pi P k) := by
    intro i
    have hP := P_pos hε hI i k
    rw [show P i k / (↑n * Spec.pi P k) / (1 / ↑n) = P i k / Spec.pi P k by field_simp]
    exact Real.log_div hP.ne' hπ.ne'
  simp_rw [hlog]
  have hsum : ∑ i, P i k = n * Spec.pi P k := by unfold Spec.pi; field_simp
  calc (∑ i, P i k * Real.log (P i k)) / ↑n - Spec.pi P k * Real.log (Spec.pi P k)
      = (∑ i, P i k * Real.log (P i k)) / ↑n - (∑ i, P i k) / n * Real.log (Spec.pi P k) := by
        rw [hsum]; field_simp
    _ = Spec.pi P k * ∑ i, P i k / (↑n * Spec.pi P k) * (Real.log (P i k) - Real.log (Spec.pi P k)) := by
        rw [Finset.mul_sum, Finset.sum_div, Finset.sum_div, Finset.sum_mul, ← Finset.sum_sub_distrib]
        refine Finset.sum_congr rfl fun i _ => ?_
        field_simp

/-- The hypotheses used below (`0 < ε`, `Interior ε P`, unit row sums) are jointly satisfiable for
    every `n` and every `K ≥ 2` (for `K = 1` a row-stochastic `P` is identically 1 and is always
    clipped). -/
example (hK : 2 ≤ K) :
    ∃ (ε : ℝ) (P : Fin n → Fin K → ℝ), 0 < ε ∧ Interior ε P ∧ ∀ i, ∑ k, P i k = 1 := by
  have hKR : (2 : ℝ) ≤ K := by exact_mod_cast hK
  have hK0 : (0 : ℝ) < K := by linarith
  refine ⟨1 / (2 * K), fun _ _ => 1 / K, by positivity, fun _ _ => ⟨?_, ?_⟩, fun _ => ?_⟩
  · rw [div_lt_div_iff₀ (by positivity) hK0]; linarith
  · rw [div_lt_iff₀ hK0, sub_mul, div_mul_eq_mul_div, one_mul, mul_comm (2 : ℝ), ← div_div,
      div_self hK0.ne']
    linarith
  · simp only [Finset.sum_const, Finset.card_univ, Fintype.card_fin, nsmul_eq_mul]
    field_simp

/-- KL one-vs-one: the code's `prediction_entropy - Σ_k π_k · mean_i log p_ik` is
    `Σ_a Σ_b π_a π_b · KL(p(x|a) ‖ p(x|b))`.  Unit row sums are necessary here: for `P = t • Q` with
    `Q` row-stochastic the spec value is `t` times the code value. -/
theorem kl_ovo_eq_spec (hn : 0 < n) {ε : ℝ} (hε : 0 < ε) (P : Fin n → Fin K → ℝ) (hI : Interior ε P)
    (hrow : ∀ i, ∑ k, P i k = 1) :
    klScore ε true P = Spec.ovo Spec.KL P := by
  have hnR : (0 : ℝ) < n := by exact_mod_cast hn
  simp only [klScore, clipP_of_interior hI, tab_apply, mean0_eq_pi, meanV_eq, sumFin_eq_sum,
    RealLike.log_real, if_true, Spec.ovo, Spec.KL, Spec.cond]
  have hterm : ∀ a b, Spec.pi P a * Spec.pi P b *
      ∑ i, P i a / (↑n * Spec.pi P a) * Real.log (P i a / (↑n * Spec.pi P a) / (P i b / (↑n * Spec.pi P b)))
      = Spec.pi P b * ((∑ i, P i a * Real.log (P i a)) / n)
        - Spec.pi P b * ((∑ i, P i a * Real.log (P i b)) / n)
        + (Spec.pi P a * (Spec.pi P b * Real.log (Spec.pi P b))
            - Spec.pi P b * (Spec.pi P a * Real.log (Spec.pi P a))) := by
    intro a b
    have hπa := pi_pos hε hn hI a
    have hπb := pi_pos hε hn hI b
    have hlog : ∀ i, Real.log (P i a / (↑n * Spec.pi P a) / (P i b / (↑n * Spec.pi P b)))
        = Real.log (P i a) - Real.log (P i b) + Real.log (Spec.pi P b) - Real.log (Spec.pi P a) := by
      intro i
      have hPa := P_pos hε hI i a
      have hPb := P_pos hε hI i b
      rw [show P i a / (↑n * Spec.pi P a) / (P i b / (↑n * Spec.pi P b))
          = (P i a * Spec.pi P b) / (P i b * Spec.pi P a) by field_simp,
        Real.log_div (mul_pos hPa hπb).ne' (mul_pos hPb hπa).ne',
        Real.log_mul hPa.ne' hπb.ne', Real.log_mul hPb.ne' hπa.ne']
      ring
    simp_rw [hlog]
    have hsplit : ∑ i, P i a / (↑n * Spec.pi P a) *
        (Real.log (P i a) - Real.log (P i b) + Real.log (Spec.pi P b) - Real.log (Spec.pi P a))
        = ((∑ i, P i a * Real.log (P i a)) - (∑ i, P i a * Real.log (P i b))
            + (∑ i, P i a) * (Real.log (Spec.pi P b) - Real.log (Spec.pi P a))) / (↑n * Spec.pi P a) := by
      rw [Finset.sum_mul, ← Finset.sum_sub_distrib, ← Finset.sum_add_distrib, Finset.sum_div]
      refine Finset.sum_congr rfl fun i _ => ?_
      ring
    rw [hsplit, sum_P_eq hn]
    field_simp
  simp_rw [hterm]
  simp only [Finset.sum_add_distrib, Finset.sum_sub_distrib]
  have h1 : ∑ a, ∑ b, Spec.pi P b * ((∑ i, P i a * Real.log (P i a)) / n)
      = ∑ k, (∑ i, P i k * Real.log (P i k)) / n := by
    simp_rw [← Finset.sum_mul, sum_pi_eq_one hn hrow, one_mul]
  have h2 : ∑ a, ∑ b, Spec.pi P b * ((∑ i, P i a * Real.log (P i b)) / n)
      = ∑ k, Spec.pi P k * ((∑ i, Real.log (P i k)) / n) := by
    rw [Finset.sum_comm]
    refine Finset.sum_congr rfl fun b _ => ?_
    rw [← Finset.mul_sum, ← Finset.sum_div, Finset.sum_comm]
    simp_rw [← Finset.sum_mul, hrow, one_mul]
  have h3 : ∑ a, ∑ b, Spec.pi P b * (Spec.pi P a * Real.log (Spec.pi P a))
      = ∑ a, ∑ b, Spec.pi P a * (Spec.pi P b * Real.log (Spec.pi P b)) := Finset.sum_comm
  rw [h1, h2, h3]
  ring

/-- TV one-vs-all: `Σ_k π_k · TV(p(x|k), p(x))` (no row-sum hypothesis needed). -/
theorem tv_ova_eq_spec (hn : 0 < n) {ε : ℝ} (hε : 0 < ε) (P : Fin n → Fin K → ℝ) (hI : Interior ε P) :
    tvScore ε false P = Spec.ova Spec.TV P := by
  have hnR : (0 : ℝ) < n := by exact_mod_cast hn
  simp only [tvScore, clipP_of_interior hI, tab_apply, mean0_eq_pi, meanV_eq, sumFin_eq_sum,
    RealLike.abs_real, RealLike.half_real, Bool.false_eq_true, if_false, Spec.ova, Spec.TV,
    Spec.cond, Spec.unif]
  rw [Finset.mul_sum]
  refine Finset.sum_congr rfl fun k _ => ?_
  have hπ := pi_pos hε hn hI k
  have habs : ∀ i, |P i k / (↑n * Spec.pi P k) - 1 / ↑n| = |P i k - Spec.pi P k| / (↑n * Spec.pi P k) := by
    intro i
    rw [show P i k / (↑n * Spec.pi P k) - 1 / ↑n = (P i k - Spec.pi P k) / (↑n * Spec.pi P k) by field_simp,
      abs_div, abs_of_pos (mul_pos hnR hπ)]
  simp_rw [habs]
  rw [← Finset.sum_div]
  field_simp

/-- TV one-vs-one: `Σ_a Σ_b π_a π_b · TV(p(x|a), p(x|b))` (no row-sum hypothesis needed). -/
theorem tv_ovo_eq_spec (hn : 0 < n) {ε : ℝ} (hε : 0 < ε) (P : Fin n → Fin K → ℝ) (hI : Interior ε P) :
    tvScore ε true P = Spec.ovo Spec.TV P := by
  have hnR : (0 : ℝ) < n := by exact_mod_cast hn
  simp only [tvScore, clipP_of_interior hI, tab_apply, mean0_eq_pi, meanV_eq, sumFin_eq_sum,
    RealLike.abs_real, RealLike.half_real, if_true, Spec.ovo, Spec.TV, Spec.cond]
  rw [Finset.mul_sum]
  refine Finset.sum_congr rfl fun a _ => ?_
  rw [Finset.mul_sum]
  refine Finset.sum_congr rfl fun b _ => ?_
  have hπa := pi_pos hε hn hI a
  have hπb := pi_pos hε hn hI b
  have habs : ∀ i, |P i a / (↑n * Spec.pi P a) - P i b / (↑n * Spec.pi P b)|
      = |Spec.pi P a * P i b - Spec.pi P b * P i a| / (↑n * Spec.pi P a * Spec.pi P b) := by
    intro i
    rw [show P i a / (↑n * Spec.pi P a) - P i b / (↑n * Spec.pi P b)
        = (Spec.pi P b * P i a - Spec.pi P a * P i b) / (↑n * Spec.pi P a * Spec.pi P b) by field_simp,
      abs_div, abs_of_pos (mul_pos (mul_pos hnR hπa) hπb), abs_sub_comm]
  simp_rw [habs]
  rw [← Finset.sum_div]
  field_simp

/-- Squared Hellinger one-vs-all without the row-sum hypothesis: the code value exceeds
    `Σ_k π_k · H²(p(x|k), p(x))` by `1 - Σ_k π_k` (so unit mean row sum is exactly what is needed). -/
theorem hellinger_ova_eq_spec_gen (hn : 0 < n) {ε : ℝ} (hε : 0 < ε) (P : Fin n → Fin K → ℝ)
    (hI : Interior ε P) :
    hellingerScore ε false P = Spec.ova Spec.H2 P + (1 - ∑ k, Spec.pi P k) := by
  have hnR : (0 : ℝ) < n := by exact_mod_cast hn
  simp only [hellingerScore, clipP_of_interior hI, tab_apply, mean0_eq_pi, meanV_eq, sumFin_eq_sum,
    RealLike.sqrt_real, Bool.false_eq_true, if_false, Spec.ova, Spec.H2, Spec.cond, Spec.unif]
  have hterm : ∀ k, Spec.pi P k * (1 - ∑ i, Real.sqrt (P i k / (↑n * Spec.pi P k) * (1 / ↑n)))
      = Spec.pi P k - (∑ i, Real.sqrt (P i k * Spec.pi P k)) / n := by
    intro k
    have hπ := pi_pos hε hn hI k
    have hsq : ∀ i, Real.sqrt (P i k / (↑n * Spec.pi P k) * (1 / ↑n))
        = Real.sqrt (P i k * Spec.pi P k) / (↑n * Spec.pi P k) := by
      intro i
      rw [show P i k / (↑n * Spec.pi P k) * (1 / ↑n) = (P i k * Spec.pi P k) / (↑n * Spec.pi P k) ^ 2 by
        field_simp, Real.sqrt_div' _ (sq_nonneg _), Real.sqrt_sq (mul_pos hnR hπ).le]
    simp_rw [hsq]
    rw [← Finset.sum_div]
    field_simp
  simp_rw [hterm]
  rw [Finset.sum_sub_distrib, Finset.sum_comm, Finset.sum_div]
  ring

/-- Squared Hellinger one-vs-all: `Σ_k π_k · H²(p(x|k), p(x))`.  Unit row sums are necessary
    (the code's leading `1` stands for `Σ_k π_k`, see `hellinger_ova_eq_spec_gen`). -/
theorem hellinger_ova_eq_spec (hn : 0 < n) {ε : ℝ} (hε : 0 < ε) (P : Fin n → Fin K → ℝ)
    (hI : Interior ε P) (hrow : ∀ i, ∑ k, P i k = 1) :
    hellingerScore ε false P = Spec.ova Spec.H2 P := by
  rw [hellinger_ova_eq_spec_gen hn hε P hI, sum_pi_eq_one hn hrow]; ring

/-- Squared Hellinger one-vs-one without the row-sum hypothesis: the code value exceeds
    `Σ_a Σ_b π_a π_b · H²(p(x|a), p(x|b))` by `1 - (Σ_k π_k)²`. -/
theorem hellinger_ovo_eq_spec_gen (hn : 0 < n) {ε : ℝ} (hε : 0 < ε) (P : Fin n → Fin K → ℝ)
    (hI : Interior ε P) :
    hellingerScore ε true P = Spec.ovo Spec.H2 P + (1 - (∑ k, Spec.pi P k) ^ 2) := by
  have hnR : (0 : ℝ) < n := by exact_mod_cast hn
  simp only [hellingerScore, clipP_of_interior hI, tab_apply, mean0_eq_pi, meanV_eq, sumFin_eq_sum,
    RealLike.sqrt_real, RealLike.sq_real, if_true, Spec.ovo, Spec.H2, Spec.cond]
  have hterm : ∀ a b, Spec.pi P a * Spec.pi P b *
      (1 - ∑ i, Real.sqrt (P i a / (↑n * Spec.pi P a) * (P i b / (↑n * Spec.pi P b))))
      = Spec.pi P a * Spec.pi P b
        - (∑ i, Real.sqrt (P i a * Spec.pi P a) * Real.sqrt (P i b * Spec.pi P b)) / n := by
    intro a b
    have hπa := pi_pos hε hn hI a
    have hπb := pi_pos hε hn hI b
    have hsq : ∀ i, Real.sqrt (P i a / (↑n * Spec.pi P a) * (P i b / (↑n * Spec.pi P b)))
        = Real.sqrt (P i a * Spec.pi P a) * Real.sqrt (P i b * Spec.pi P b)
          / (↑n * Spec.pi P a * Spec.pi P b) := by
      intro i
      have hPa := P_pos hε hI i a
      rw [show P i a / (↑n * Spec.pi P a) * (P i b / (↑n * Spec.pi P b))
          = ((P i a * Spec.pi P a) * (P i b * Spec.pi P b)) / (↑n * Spec.pi P a * Spec.pi P b) ^ 2 by
        field_simp, Real.sqrt_div' _ (sq_nonneg _),
        Real.sqrt_sq (mul_pos (mul_pos hnR hπa) hπb).le, Real.sqrt_mul (mul_pos hPa hπa).le]
    simp_rw [hsq]
    rw [← Finset.sum_div]
    field_simp
  simp_rw [hterm]
  simp only [Finset.sum_sub_distrib]
  have hsum : ∑ a, ∑ b, (∑ i, Real.sqrt (P i a * Spec.pi P a) * Real.sqrt (P i b * Spec.pi P b)) / n
      = (∑ i, (∑ k, Real.sqrt (P i k * Spec.pi P k)) ^ 2) / n := by
    simp_rw [← Finset.sum_div]
    congr 1
    simp_rw [pow_two, Finset.sum_mul_sum]
    exact (Finset.sum_congr rfl fun a _ => Finset.sum_comm).trans Finset.sum_comm
  rw [hsum, sum_sum_pi]
  ring

/-- Squared Hellinger one-vs-one: `Σ_a Σ_b π_a π_b · H²(p(x|a), p(x|b))`.  Unit row sums are
    necessary (the code's leading `1` stands for `(Σ_k π_k)²`, see `hellinger_ovo_eq_spec_gen`). -/
theorem hellinger_ovo_eq_spec (hn : 0 < n) {ε : ℝ} (hε : 0 < ε) (P : Fin n → Fin K → ℝ)
    (hI : Interior ε P) (hrow : ∀ i, ∑ k, P i k = 1) :
    hellingerScore ε true P = Spec.ovo Spec.H2 P := by
  rw [hellinger_ovo_eq_spec_gen hn hε P hI, sum_pi_eq_one hn hrow]; ring

/-- Pearson chi-square one-vs-all without the row-sum hypothesis: the code value is
    `(Σ_k π_k · χ²(p(x|k) ‖ p(x)) + Σ_k π_k) / 2`. -/
theorem chi2_ova_eq_spec_gen (hn : 0 < n) {ε : ℝ} (hε : 0 < ε) (P : Fin n → Fin K → ℝ)
    (hI : Interior ε P) :
    chi2Score ε false P = (Spec.ova Spec.chi2 P + ∑ k, Spec.pi P k) / 2 := by
  have hnR : (0 : ℝ) < n := by exact_mod_cast hn
  simp only [chi2Score, clipP_of_interior hI, tab_apply, mean0_eq_pi, meanV_eq, sumFin_eq_sum,
    RealLike.half_real, Bool.false_eq_true, if_false, Spec.ova, Spec.chi2, Spec.cond, Spec.unif]
  have hterm : ∀ k, Spec.pi P k * ∑ i, (P i k / (↑n * Spec.pi P k) - 1 / ↑n) ^ 2 / (1 / ↑n)
      = (∑ i, P i k * (P i k / Spec.pi P k)) / n - Spec.pi P k := by
    intro k
    have hπ := pi_pos hε hn hI k
    have hexp : ∀ i, (P i k / (↑n * Spec.pi P k) - 1 / ↑n) ^ 2 / (1 / ↑n)
        = (P i k * (P i k / Spec.pi P k)) / (↑n * Spec.pi P k) - 2 * P i k / (↑n * Spec.pi P k) + 1 / n := by
      intro i
      field_simp
      ring
    simp_rw [hexp]
    rw [Finset.sum_add_distrib, Finset.sum_sub_distrib, ← Finset.sum_div, ← Finset.sum_div,
      ← Finset.mul_sum, sum_P_eq hn]
    simp only [Finset.sum_const, Finset.card_univ, Fintype.card_fin, nsmul_eq_mul]
    field_simp
    ring
  simp_rw [hterm]
  rw [Finset.sum_sub_distrib, Finset.sum_comm, Finset.sum_div]
  ring

/-- Pearson chi-square one-vs-all: the code value is `(Σ_k π_k · χ²(p(x|k) ‖ p(x)) + 1) / 2`.
    Unit row sums are necessary (the `+ 1` stands for `Σ_k π_k`, see `chi2_ova_eq_spec_gen`). -/
theorem chi2_ova_eq_spec (hn : 0 < n) {ε : ℝ} (hε : 0 < ε) (P : Fin n → Fin K → ℝ)
    (hI : Interior ε P) (hrow : ∀ i, ∑ k, P i k = 1) :
    chi2Score ε false P = (Spec.ova Spec.chi2 P + 1) / 2 := by
  rw [chi2_ova_eq_spec_gen hn hε P hI, sum_pi_eq_one hn hrow]

/-- Pearson chi-square one-vs-one without the row-sum hypothesis: the code value is
    `(Σ_a Σ_b π_a π_b · χ²(p(x|a) ‖ p(x|b)) + (Σ_k π_k)²) / 2`. -/
theorem chi2_ovo_eq_spec_gen (hn : 0 < n) {ε : ℝ} (hε : 0 < ε) (P : Fin n → Fin K → ℝ)
    (hI : Interior ε P) :
    chi2Score ε true P = (Spec.ovo Spec.chi2 P + (∑ k, Spec.pi P k) ^ 2) / 2 := by
  have hnR : (0 : ℝ) < n := by exact_mod_cast hn
  simp only [chi2Score, clipP_of_interior hI, tab_apply, mean0_eq_pi, meanV_eq, sumFin_eq_sum,
    RealLike.half_real, if_true, Spec.ovo, Spec.chi2]
  have hterm : ∀ a b, Spec.pi P a * Spec.pi P b *
      ∑ i, (Spec.cond P a i - Spec.cond P b i) ^ 2 / Spec.cond P b i
      = (∑ i, (P i a * (P i a / Spec.pi P a)) * (Spec.pi P b / (P i b / Spec.pi P b))) / n
        - Spec.pi P a * Spec.pi P b := by
    intro a b
    have hπa := pi_pos hε hn hI a
    have hπb := pi_pos hε hn hI b
    have hexp : ∀ i, (Spec.cond P a i - Spec.cond P b i) ^ 2 / Spec.cond P b i
        = (P i a * (P i a / Spec.pi P a)) * (Spec.pi P b / (P i b / Spec.pi P b))
            / (↑n * Spec.pi P a * Spec.pi P b)
          - 2 * Spec.cond P a i + Spec.cond P b i := by
      intro i
      have hPa := P_pos hε hI i a
      have hPb := P_pos hε hI i b
      have hcb := cond_pos hε hn hI b i
      rw [show (Spec.cond P a i - Spec.cond P b i) ^ 2 / Spec.cond P b i
          = Spec.cond P a i ^ 2 / Spec.cond P b i - 2 * Spec.cond P a i + Spec.cond P b i by
        field_simp; ring]
      congr 2
      unfold Spec.cond
      field_simp
    simp_rw [hexp]
    rw [Finset.sum_add_distrib, Finset.sum_sub_distrib, ← Finset.sum_div, ← Finset.mul_sum,
      cond_sum hε hn hI a, cond_sum hε hn hI b]
    field_simp
    ring
  simp_rw [hterm]
  simp only [Finset.sum_sub_distrib]
  have hsum : ∑ a, ∑ b, (∑ i, (P i a * (P i a / Spec.pi P a)) * (Spec.pi P b / (P i b / Spec.pi P b))) / n
      = (∑ i, (∑ k, P i k * (P i k / Spec.pi P k)) * (∑ k, Spec.pi P k / (P i k / Spec.pi P k))) / n := by
    simp_rw [← Finset.sum_div]
    congr 1
    simp_rw [Finset.sum_mul_sum]
    exact (Finset.sum_congr rfl fun a _ => Finset.sum_comm).trans Finset.sum_comm
  rw [hsum, sum_sum_pi]
  ring

/-- Pearson chi-square one-vs-one: the code value is
    `(Σ_a Σ_b π_a π_b · χ²(p(x|a) ‖ p(x|b)) + 1) / 2`.  Unit row sums are necessary
    (the `+ 1` stands for `(Σ_k π_k)²`, see `chi2_ovo_eq_spec_gen`). -/
theorem chi2_ovo_eq_spec (hn : 0 < n) {ε : ℝ} (hε : 0 < ε) (P : Fin n → Fin K → ℝ)
    (hI : Interior ε P) (hrow : ∀ i, ∑ k, P i k = 1) :
    chi2Score ε true P = (Spec.ovo Spec.chi2 P + 1) / 2 := by
  rw [chi2_ovo_eq_spec_gen hn hε P hI, sum_pi_eq_one hn hrow]; norm_num

/-- MMD one-vs-all: `Σ_k π_k · MMD_κ(p(x|k), p(x))` for every symmetric affinity `κ` — no
    positive-semidefiniteness hypothesis (`np.sqrt(np.maximum(x, 0))` and `Real.sqrt` agree on
    negative arguments) and no row-sum hypothesis; `0 < n`, `0 < ε` are not needed either. -/
theorem mmd_ova_eq_spec {ε : ℝ} (P : Fin n → Fin K → ℝ) (hI : Interior ε P)
    (κ : Fin n → Fin n → ℝ) (hκ : ∀ i j, κ i j = κ j i) :
    mmdScore ε false P κ = Spec.ova (Spec.MMD κ) P := by
  simp only [mmdScore, clipP_of_interior hI, tab_apply, mean0_eq_pi, sumFin_eq_sum,
    Bool.false_eq_true, if_false, Spec.ova, mmdDeltaOva_eq hI hκ]

/-- MMD one-vs-one: `Σ_a Σ_b π_a π_b · MMD_κ(p(x|a), p(x|b))` for every symmetric affinity `κ`
    (no positive-semidefiniteness and no row-sum hypothesis). -/
theorem mmd_ovo_eq_spec {ε : ℝ} (P : Fin n → Fin K → ℝ) (hI : Interior ε P)
    (κ : Fin n → Fin n → ℝ) (hκ : ∀ i j, κ i j = κ j i) :
    mmdScore ε true P κ = Spec.ovo (Spec.MMD κ) P := by
  simp only [mmdScore, clipP_of_interior hI, tab_apply, tab2_apply, mean0_eq_pi, sumFin_eq_sum,
    if_true, Spec.ovo, mmdDeltaOvo_eq hI hκ]
  rw [Finset.sum_comm]
  refine Finset.sum_congr rfl fun a _ => ?_
  simp_rw [Finset.sum_mul]
  refine Finset.sum_congr rfl fun b _ => ?_
  ring

/-- Wasserstein: the weight vector handed to `ot.emd2` for cluster `k` is exactly the empirical
    conditional `p(x|k)`. -/
theorem wassWeights_eq_cond {ε : ℝ} (P : Fin n → Fin K → ℝ) (hI : Interior ε P) (k : Fin K) :
    wassWeights ε P k = Spec.cond P k :=
  wassWeights_eq hI k

/-- Wasserstein: every weight vector handed to `ot.emd2` is a probability vector
    (non-negative — in fact positive — entries that sum to one). -/
theorem wassWeights_prob (hn : 0 < n) {ε : ℝ} (hε : 0 < ε) (P : Fin n → Fin K → ℝ) (hI : Interior ε P)
    (k : Fin K) :
    (∀ i, 0 < wassWeights ε P k i) ∧ ∑ i, wassWeights ε P k i = 1 := by
  rw [wassWeights_eq hI k]
  exact ⟨cond_pos hε hn hI k, cond_sum hε hn hI k⟩

/-- Wasserstein: the reference vector `np.ones(N) / N` handed to `ot.emd2` in the one-vs-all mode is a
    probability vector too. -/
theorem unif_prob (hn : 0 < n) : (∀ i, 0 < Spec.unif n i) ∧ ∑ i, Spec.unif n i = 1 := by
  have hnR : (0 : ℝ) < n := by exact_mod_cast hn
  refine ⟨fun _ => by unfold Spec.unif; positivity, ?_⟩
  simp only [Spec.unif, Finset.sum_const, Finset.card_univ, Fintype.card_fin, nsmul_eq_mul]
  field_simp

/-- Wasserstein one-vs-all, modulo POT: for an arbitrary function `emd2` standing for
    `ot.emd2(·, ·, affinity)`, the code value is `Σ_k π_k · emd2(p(x|k), p(x))`. -/
theorem wass_ova_eq_spec {ε : ℝ} (emd2 : (Fin n → ℝ) → (Fin n → ℝ) → Model.Emd ℝ n)
    (P : Fin n → Fin K → ℝ) (hI : Interior ε P) :
    wassScore emd2 ε false P = ∑ k, Spec.pi P k * (emd2 (Spec.cond P k) (Spec.unif n)).value := by
  simp only [wassScore, wassScoreT, clipP_of_interior hI, tab_apply, mean0_eq_pi, sumFin_eq_sum,
    Bool.false_eq_true, if_false, wassWeights_eq hI, RealLike.nat_real]
  rfl

/-- Wasserstein one-vs-one, modulo POT: if `emd2` is symmetric in value and vanishes on equal
    arguments — required only on the conditionals `p(x|k)` actually handed to it — the code's
    mirrored upper-triangular table gives `Σ_a Σ_b π_a π_b · emd2(p(x|a), p(x|b))`. -/
theorem wass_ovo_eq_spec_of_on_cond {ε : ℝ} (emd2 : (Fin n → ℝ) → (Fin n → ℝ) → Model.Emd ℝ n)
    (P : Fin n → Fin K → ℝ) (hI : Interior ε P)
    (hsymm : ∀ a b : Fin K, (emd2 (Spec.cond P a) (Spec.cond P b)).value
      = (emd2 (Spec.cond P b) (Spec.cond P a)).value)
    (hdiag : ∀ a : Fin K, (emd2 (Spec.cond P a) (Spec.cond P a)).value = 0) :
    wassScore emd2 ε true P
      = ∑ a, ∑ b, Spec.pi P a * Spec.pi P b * (emd2 (Spec.cond P a) (Spec.cond P b)).value := by
  simp only [wassScore, wassScoreT, clipP_of_interior hI, tab_apply, mean0_eq_pi, sumFin_eq_sum,
    if_true, wassWeights_eq hI]
  refine Finset.sum_congr rfl fun a _ => ?_
  rw [Finset.mul_sum]
  refine Finset.sum_congr rfl fun b _ => ?_
  rcases lt_trichotomy a.val b.val with h | h | h
  · rw [if_pos h]; ring
  · have hab : a = b := Fin.ext h
    subst hab
    rw [if_neg (lt_irrefl _), if_neg (lt_irrefl _), hdiag]; ring
  · rw [if_neg (not_lt.mpr h.le), if_pos h, hsymm a b]; ring

/-- Wasserstein one-vs-one, modulo POT, with the hypotheses on `emd2` stated globally
    (symmetric value, zero on the diagonal). -/
theorem wass_ovo_eq_spec {ε : ℝ} (emd2 : (Fin n → ℝ) → (Fin n → ℝ) → Model.Emd ℝ n)
    (P : Fin n → Fin K → ℝ) (hI : Interior ε P)
    (hsymm : ∀ a b, (emd2 a b).value = (emd2 b a).value) (hdiag : ∀ a, (emd2 a a).value = 0) :
    wassScore emd2 ε true P
      = ∑ a, ∑ b, Spec.pi P a * Spec.pi P b * (emd2 (Spec.cond P a) (Spec.cond P b)).value :=
  wass_ovo_eq_spec_of_on_cond emd2 P hI (fun _ _ => hsymm _ _) (fun _ => hdiag _)

/-- The translated registry (`_str_to_gemini`) maps every documented name to the documented
    (class, ovo) pair — in particular `mi ↦ KL one-vs-all` — and offers exactly the 13 names. -/
theorem registry_ok :
    Gen.registry.map (fun e => (e.1, e.2.1, e.2.2.1)) = Spec.registryDoc := by
  decide

theorem registry_names :
    (∀ nm ∈ Gen.availableGeminis, nm ∈ Gen.registry.map (·.1)) ∧
    (∀ nm ∈ Gen.registry.map (·.1), nm ∈ Gen.availableGeminis) := by
  decide

end GemVerif.Props.C01
