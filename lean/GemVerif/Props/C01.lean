/-
  C01 — GEMINI scores equal their defining statistical distances.
  Property theorems only; helper lemmas live in `GemVerif/Lemmas/Gemini.lean`.
-/
import GemVerif.Lemmas.Gemini
import GemVerif.Gen.Registry

namespace GemVerif.Props.C01
open scoped BigOperators
open GemVerif Model Spec

variable {n K : ℕ}

/-- KL one-vs-all (= the name `mi`): the code's `prediction_entropy - cluster_entropy`
    is `Σ_k π_k · KL(p(x|k) ‖ p(x))`, for every shape and every interior `P`. -/
theorem kl_ova_eq_spec (hn : 0 < n) {ε : ℝ} (hε : 0 < ε) (P : Fin n → Fin K → ℝ) (hI : Interior ε P) :
    klScore ε false P = Spec.ova Spec.KL P := by
  have hnR : (0 : ℝ) < n := by exact_mod_cast hn
  simp only [klScore, clipP_of_interior hI, tab_apply, mean0_eq_pi, meanV_eq, sumFin_eq_sum,
    RealLike.log_real, Bool.false_eq_true, if_false, Spec.ova, Spec.KL, Spec.cond, Spec.unif]
  rw [← Finset.sum_sub_distrib]
  refine Finset.sum_congr rfl fun k _ => ?_
  have hπ := pi_pos hε hn hI k
  have hlog : ∀ i, Real.log (P i k / (↑n * Spec.pi P k) / (1 / ↑n)) = Real.log (P i k) - Real.log (Spec.pi P k) := by
    intro i
    have hP := P_pos hε hI i k
    rw [show P i k / (↑n * Spec.pi P k) / (1 / ↑n) = P i k / Spec.pi P k by field_simp]
    exact Real.log_div hP.ne' hπ.ne'
  simp_rw [hlog]
  have hsum : ∑ i, P i k = n * Spec.pi P k := by unfold Spec.pi; field_simp
  calc (∑ i, P i k * Real.log (P i k)) / ↑n - Spec.pi P k * Real.log (Spec.pi P k)
      = (∑ i, P i k * Real.log (P i k)) / ↑n - (∑ i, P i k) / n * Real.log (Spec.pi P k) := by
        rw [hsum]; field_simp
    _ = Spec.pi P k * ∑ i, P i k / (↑n * Spec.pi P k) * (Real.log (P i k) - Real.log (Spec.pi P k)) := by
        rw [Finset.mul_sum, Finset.sum_div, Finset.sum_div, Finset.sum_mul, ← Finset.sum_sub_distrib]
        refine Finset.sum_congr rfl fun i _ => ?_
        field_simp

/-- The translated registry (`_str_to_gemini`) maps every documented name to the documented
    (class, ovo) pair — in particular `mi ↦ KL one-vs-all` — and offers exactly the 13 names. -/
theorem registry_ok :
    Gen.registry.map (fun e => (e.1, e.2.1, e.2.2.1)) = Spec.registryDoc := by
  decide

theorem registry_names :
    (∀ nm ∈ Gen.availableGeminis, nm ∈ Gen.registry.map (·.1)) ∧
    (∀ nm ∈ Gen.registry.map (·.1), nm ∈ Gen.availableGeminis) := by
  decide

end GemVerif.Props.C01
