/-
  C03 (companion) — what "follows the gradient" means once the gradient has been handed to the optimiser.
  `DiscriminativeModel.fit` gives the exact gradient (Props/C03.lean) to scikit-learn's `SGDOptimizer` / `AdamOptimizer`
  (`Model/Optim.lean`, per coordinate).  Proved here, for every history length and every real gradient value:
  the step is a descent step for that gradient (SGD from rest, Adam along its first moment), coordinates whose gradient has
  always been exactly zero never move (what keeps eliminated features at zero between proximal steps), Adam's second
  moment stays non-negative (its square root is defined), its step is shorter than the learning rate, and the
  `learning_rate` attribute the sparse models read for their threshold is the documented positive number.
-/
import GemVerif.Model.Optim
import GemVerif.Model.Sparse
import GemVerif.Model.Prox
import GemVerif.NumReal
import Mathlib.Analysis.SpecialFunctions.Pow.Real
import Mathlib.Tactic.Positivity
import Mathlib.Tactic.Linarith

namespace GemVerif.Props.C03Optim
open GemVerif GemVerif.Model.Optim GemVerif.Model.Prox

/-- `powNat` is the power function. -/
theorem powNat_eq (b : ℝ) (t : ℕ) : powNat b t = b ^ t := by
  induction t with
  | zero => simp [powNat]
  | succ t ih => simp [powNat, ih, pow_succ, mul_comm]

/-- SGD from rest (velocity 0), Nesterov momentum: the update is `-(1+μ)·lr·g`. -/
theorem sgd_first_step_nesterov (lr mu g : ℝ) :
    (sgdStep { lr := lr, momentum := mu, nesterov := true } 0 g).2 = -((1 + mu) * lr * g) := by
  simp [sgdStep]; ring

/-- SGD from rest, classical momentum: the update is `-lr·g`. -/
theorem sgd_first_step_plain (lr mu g : ℝ) :
    (sgdStep { lr := lr, momentum := mu, nesterov := false } 0 g).2 = -(lr * g) := by
  simp [sgdStep]

/-- SGD from rest is a strict descent step for the gradient it was given (any momentum ≥ 0, either variant). -/
theorem sgd_first_step_descent (c : SgdCfg ℝ) (g : ℝ) (hlr : 0 < c.lr) (hmu : 0 ≤ c.momentum) (hg : g ≠ 0) :
    (sgdStep c 0 g).2 * g < 0 := by
  have hgg : 0 < g * g := mul_self_pos.mpr hg
  rcases c with ⟨lr, mu, nv⟩
  cases nv
  · simp only [sgdStep, mul_zero, zero_sub, Bool.false_eq_true, if_false]
    nlinarith
  · simp only [sgdStep, mul_zero, zero_sub, if_true]
    have : 0 < (1 + mu) * lr := by positivity
    nlinarith

/-- with momentum 0 and no Nesterov look-ahead the run is plain gradient descent: `w − lr·Σg`. -/
theorem sgd_plain_run (lr : ℝ) (gs : List ℝ) (w v : ℝ) :
    (sgdRun { lr := lr, momentum := 0, nesterov := false } gs (w, v)).1 = w - lr * gs.sum := by
  induction gs generalizing w v with
  | nil => simp [sgdRun]
  | cons g gs ih => simp [sgdRun, sgdStep, ih]; ring

/-- a coordinate whose gradient has been exactly zero at every step never moves under SGD. -/
theorem sgd_zero_history_fixed (c : SgdCfg ℝ) (gs : List ℝ) (w : ℝ) (h : ∀ g ∈ gs, g = 0) :
    sgdRun c gs (w, 0) = (w, 0) := by
  induction gs with
  | nil => simp [sgdRun]
  | cons g gs ih =>
    have hg : g = 0 := h g (by simp)
    have := ih (fun x hx => h x (by simp [hx]))
    subst hg
    simpa [sgdRun, sgdStep] using this

/-- Adam's second moment stays non-negative (so `np.sqrt(v)` is defined at every step). -/
theorem adam_v_nonneg (c : AdamCfg ℝ) (s : AdamSt ℝ) (g : ℝ) (h2 : 0 ≤ c.beta2) (h2' : c.beta2 ≤ 1) (hv : 0 ≤ s.v) :
    0 ≤ (adamStep c s g).1.v := by
  simp only [adamStep]
  have : 0 ≤ g * g := mul_self_nonneg g
  have : 0 ≤ 1 - c.beta2 := by linarith
  positivity

/-- the `learning_rate` attribute after step `t ≥ 1` is `lr0·√(1−β₂ᵗ)/(1−β₁ᵗ)` and it is positive:
    the threshold `alpha * optimiser_.learning_rate` of the sparse models is a genuine (positive) penalty weight. -/
theorem adam_lr_pos (c : AdamCfg ℝ) (t : ℕ) (ht : 1 ≤ t) (hlr : 0 < c.lr0)
    (h1 : 0 ≤ c.beta1) (h1' : c.beta1 < 1) (h2 : 0 ≤ c.beta2) (h2' : c.beta2 < 1) :
    adamLr c t = c.lr0 * Real.sqrt (1 - c.beta2 ^ t) / (1 - c.beta1 ^ t) ∧ 0 < adamLr c t := by
  have e : adamLr c t = c.lr0 * Real.sqrt (1 - c.beta2 ^ t) / (1 - c.beta1 ^ t) := by
    simp [adamLr, powNat_eq]
  refine ⟨e, ?_⟩
  rw [e]
  have ht0 : t ≠ 0 := by omega
  have a : c.beta1 ^ t < 1 := pow_lt_one₀ h1 h1' ht0
  have b : c.beta2 ^ t < 1 := pow_lt_one₀ h2 h2' ht0
  have : 0 < Real.sqrt (1 - c.beta2 ^ t) := Real.sqrt_pos.mpr (by linarith)
  have : 0 < 1 - c.beta1 ^ t := by linarith
  positivity

/-- Adam moves every coordinate against its (new) first moment, strictly when that moment is non-zero. -/
theorem adam_step_descent (c : AdamCfg ℝ) (s : AdamSt ℝ) (g : ℝ) (hlr : 0 < c.lr0)
    (h1 : 0 ≤ c.beta1) (h1' : c.beta1 < 1) (h2 : 0 ≤ c.beta2) (h2' : c.beta2 < 1) (he : 0 < c.eps)
    (hm : (adamStep c s g).1.m ≠ 0) :
    (adamStep c s g).2 * (adamStep c s g).1.m < 0 := by
  have hl := (adam_lr_pos c (s.t + 1) (by omega) hlr h1 h1' h2 h2').2
  simp only [adamStep] at hm ⊢
  set m' := c.beta1 * s.m + (1 - c.beta1) * g with hm'
  have hd : 0 < RealLike.sqrt (c.beta2 * s.v + (1 - c.beta2) * (g * g)) + c.eps := by
    have := Real.sqrt_nonneg (c.beta2 * s.v + (1 - c.beta2) * (g * g))
    simp only [RealLike.sqrt_real]; linarith
  have hmm : 0 < m' * m' := mul_self_pos.mpr hm
  rw [div_mul_eq_mul_div, neg_mul, neg_mul, neg_div, neg_lt_zero]
  apply div_pos _ hd
  nlinarith [mul_pos hl hmm]

/-- Adam from rest moves against the gradient itself (first step: `m₁ = (1−β₁) g`). -/
theorem adam_first_step_descent (c : AdamCfg ℝ) (g : ℝ) (hlr : 0 < c.lr0)
    (h1 : 0 ≤ c.beta1) (h1' : c.beta1 < 1) (h2 : 0 ≤ c.beta2) (h2' : c.beta2 < 1) (he : 0 < c.eps) (hg : g ≠ 0) :
    (adamStep c adamInit g).2 * g < 0 := by
  have hb : 0 < 1 - c.beta1 := by linarith
  have hm : (adamStep c adamInit g).1.m = (1 - c.beta1) * g := by simp [adamStep, adamInit]
  have h := adam_step_descent c adamInit g hlr h1 h1' h2 h2' he (by rw [hm]; exact mul_ne_zero hb.ne' hg)
  rw [hm] at h
  nlinarith

/-- a coordinate whose gradient has been exactly zero at every step never moves under Adam, and its moments stay zero
    (no hypothesis on the hyperparameters: `0 / x = 0` also in floating point unless `x` is 0 or NaN, and `√0 + ε = ε`). -/
theorem adam_zero_history_fixed (c : AdamCfg ℝ) (gs : List ℝ) (w : ℝ) (t : ℕ) (h : ∀ g ∈ gs, g = 0) :
    adamRun c gs (w, { t := t, m := 0, v := 0 }) = (w, { t := t + gs.length, m := 0, v := 0 }) := by
  induction gs generalizing t with
  | nil => simp [adamRun]
  | cons g gs ih =>
    have hg : g = 0 := h g (by simp)
    have := ih (t + 1) (fun x hx => h x (by simp [hx]))
    subst hg
    simp only [adamRun, adamStep, mul_zero, add_zero, zero_div, List.length_cons]
    rw [this]; congr 2; omega

/-- the proximal threshold of the sparse estimators, `self.alpha * self.optimiser_.learning_rate`, read AFTER the `t`-th Adam
    update (`Model/Sparse.lean: threshold`): it is `alpha·lr0·√(1−β₂ᵗ)/(1−β₁ᵗ)`, strictly positive for `alpha > 0` and zero for
    `alpha = 0` — never negative, so the proximal operators of C05 are always called inside their domain. -/
theorem sparse_threshold_adam (c : AdamCfg ℝ) (alpha : ℝ) (t : ℕ) (ht : 1 ≤ t) (hlr : 0 < c.lr0)
    (h1 : 0 ≤ c.beta1) (h1' : c.beta1 < 1) (h2 : 0 ≤ c.beta2) (h2' : c.beta2 < 1) :
    GemVerif.Model.Sparse.threshold alpha (adamLr c t)
        = alpha * (c.lr0 * Real.sqrt (1 - c.beta2 ^ t) / (1 - c.beta1 ^ t))
      ∧ (0 < alpha → 0 < GemVerif.Model.Sparse.threshold alpha (adamLr c t))
      ∧ (alpha = 0 → GemVerif.Model.Sparse.threshold alpha (adamLr c t) = 0) := by
  obtain ⟨e, hp⟩ := adam_lr_pos c t ht hlr h1 h1' h2 h2'
  refine ⟨by simp [GemVerif.Model.Sparse.threshold, e], fun ha => ?_, fun ha => by simp [GemVerif.Model.Sparse.threshold, ha]⟩
  simp only [GemVerif.Model.Sparse.threshold]
  exact mul_pos ha hp

/-- Adam's learning-rate attribute tends to forget its warm-up: at `t = 1` it is `lr0·√(1−β₂)/(1−β₁)`. -/
theorem adam_lr_first (c : AdamCfg ℝ) : adamLr c 1 = c.lr0 * Real.sqrt (1 - c.beta2) / (1 - c.beta1) := by
  simp [adamLr, powNat]

/-- Adam's first step from rest is shorter than the learning rate: `|Δw| < lr0`, whatever the size of the gradient
    (the scale invariance the method is known for; here for the exact expression scikit-learn evaluates). -/
theorem adam_first_step_bounded (c : AdamCfg ℝ) (g : ℝ) (hlr : 0 < c.lr0)
    (h1' : c.beta1 < 1) (h2' : c.beta2 < 1) (he : 0 < c.eps) :
    |(adamStep c adamInit g).2| < c.lr0 := by
  have hb1 : 0 < 1 - c.beta1 := by linarith
  have hb2 : 0 < 1 - c.beta2 := by linarith
  have hs : 0 < Real.sqrt (1 - c.beta2) := Real.sqrt_pos.mpr hb2
  have hsq : Real.sqrt ((1 - c.beta2) * (g * g)) = Real.sqrt (1 - c.beta2) * |g| := by
    rw [Real.sqrt_mul hb2.le, Real.sqrt_mul_self_eq_abs]
  have hu : (adamStep c adamInit g).2
      = -(c.lr0 * (Real.sqrt (1 - c.beta2) * g) / (Real.sqrt (1 - c.beta2) * |g| + c.eps)) := by
    simp only [adamStep, adamInit, adamLr, powNat, mul_zero, zero_add, mul_one, RealLike.sqrt_real, hsq]
    field_simp
  rw [hu, abs_neg, abs_div, abs_mul, abs_mul, abs_of_pos hlr, abs_of_pos hs]
  have hd : 0 < Real.sqrt (1 - c.beta2) * |g| + c.eps := by positivity
  rw [abs_of_pos hd, div_lt_iff₀ hd]
  have : 0 ≤ Real.sqrt (1 - c.beta2) * |g| := by positivity
  nlinarith [mul_pos hlr he]

/-- momentum never reverses a consistent direction: if every gradient of the history is ≥ 0 (and the velocity starts ≤ 0, e.g. at
    rest), every SGD update is ≤ 0 — the weight only moves downhill — for every history length, with or without Nesterov. -/
theorem sgd_consistent_sign (c : SgdCfg ℝ) (gs : List ℝ) (w v : ℝ) (hlr : 0 ≤ c.lr) (hmu : 0 ≤ c.momentum)
    (hv : v ≤ 0) (hg : ∀ g ∈ gs, 0 ≤ g) :
    (sgdRun c gs (w, v)).1 ≤ w ∧ (sgdRun c gs (w, v)).2 ≤ 0 := by
  induction gs generalizing w v with
  | nil => simp [sgdRun, hv]
  | cons g gs ih =>
    have hg0 : 0 ≤ g := hg g (by simp)
    have hv' : (sgdStep c v g).1 ≤ 0 := by
      simp only [sgdStep]
      nlinarith [mul_nonneg hmu (neg_nonneg.mpr hv), mul_nonneg hlr hg0]
    have hu : (sgdStep c v g).2 ≤ 0 := by
      simp only [sgdStep] at hv' ⊢
      split
      · nlinarith [mul_nonneg hmu (neg_nonneg.mpr hv'), mul_nonneg hlr hg0]
      · exact hv'
    obtain ⟨a, b⟩ := ih (w + (sgdStep c v g).2) (sgdStep c v g).1 hv' (fun x hx => hg x (by simp [hx]))
    simp only [sgdRun]
    exact ⟨by linarith, b⟩

/-- an eliminated feature stays eliminated: a weight row that is exactly zero, whose coordinates all have an all-zero gradient
    history (C06: the gradient of an unselected feature's row is zero when its inputs do not reach the output), is still exactly
    zero after any number of Adam updates followed by the group-lasso proximal step of the sparse linear model — for every threshold. -/
theorem eliminated_row_stays_zero_adam {h : ℕ} (c : AdamCfg ℝ) (gs : Fin h → List ℝ) (t : ℕ) (al : ℝ)
    (hz : ∀ j, ∀ g ∈ gs j, g = 0) :
    linearProxRow (fun j => (adamRun c (gs j) (0, { t := t, m := 0, v := 0 })).1) al = fun _ => 0 := by
  funext j
  simp [linearProxRow, adam_zero_history_fixed c _ 0 t (hz _)]

/-- the same under SGD (momentum and Nesterov included). -/
theorem eliminated_row_stays_zero_sgd {h : ℕ} (c : SgdCfg ℝ) (gs : Fin h → List ℝ) (al : ℝ)
    (hz : ∀ j, ∀ g ∈ gs j, g = 0) :
    linearProxRow (fun j => (sgdRun c (gs j) (0, 0)).1) al = fun _ => 0 := by
  funext j
  simp [linearProxRow, sgd_zero_history_fixed c _ 0 (hz _)]

/-- hypotheses of the theorems above hold at scikit-learn's defaults as GemClus uses them (non-vacuity). -/
example : (0 : ℝ) < 1e-3 ∧ (0 : ℝ) ≤ 0.9 ∧ (0.9 : ℝ) < 1 ∧ (0 : ℝ) ≤ 0.999 ∧ (0.999 : ℝ) < 1 ∧ (0 : ℝ) < 1e-8 := by
  norm_num

end GemVerif.Props.C03Optim
