/-
  C07 — the regularisation path honours its stopping, history and best-weights contract.
  Property theorems only.  Model: `Model/Path.lean` (`_path` as a fold over an observed trace; `path`'s restoration rule),
  restore blocks: `Model/Sparse.lean`; helper lemmas and specification-side definitions (`geomList`, `runBest`,
  `accepts`, `LastAccepted`, `completed`): `Lemmas/Path.lean`.

  Notation used in the statements.  `r = (runPath α₀ maxIter d args tr).1` is the result of `_path` on the trace `tr`;
  `a = (normalise args d).1` are the arguments after the defaults block.  `T = r.alphas.length` is the number of recorded
  steps.  Theorems stated for an arbitrary number type `α` hold verbatim for IEEE doubles (they use no algebraic law);
  theorems over `ℝ` are marked.

  Termination.  The inner loop always terminates (`inner_loop_bounded`).  The outer loop is proved to terminate ONLY under
  the hypothesis that the selected count eventually drops to `min_features` (`path_terminates_if_count_drops_partial`): nothing in
  `_path` forces that.  In particular `alpha = 0`, which the estimators' validation accepts, gives `alphas[t] = 0` for every `t`
  (`alpha_zero_stays_zero`), hence a proximal threshold `0·lr = 0` that removes nothing (`alpha_zero_prox_removes_nothing`).
-/
import GemVerif.Lemmas.Path
import GemVerif.Model.Sparse
import GemVerif.Lemmas.ProxModel
import GemVerif.Props.C05

namespace GemVerif.Props.C07
open GemVerif Model.Path Model.Sparse

variable {α : Type} [RealLike α] {ω : Type}

/-! ## histories -/

/-- **The four histories have equal length** (and so has the ghost history of weights). -/
theorem histories_equal_length (alpha0 : α) (maxIter d : Nat) (args : PathArgs α) (tr : Trace α ω) :
    (runPath alpha0 maxIter d args tr).1.geminis.length = (runPath alpha0 maxIter d args tr).1.alphas.length ∧
    (runPath alpha0 maxIter d args tr).1.penalties.length = (runPath alpha0 maxIter d args tr).1.alphas.length ∧
    (runPath alpha0 maxIter d args tr).1.nFeatures.length = (runPath alpha0 maxIter d args tr).1.alphas.length ∧
    (runPath alpha0 maxIter d args tr).1.weightsHist.length = (runPath alpha0 maxIter d args tr).1.alphas.length := by
  obtain ⟨j, scores, h1, h2, h3, h4, h5, h6, h7, -⟩ := runPath_spec alpha0 maxIter d args tr
  have hj : (tr.steps.take j).length = j := by simp [h1]
  rw [h3, h4, h5, h6, h7, geomList_length, List.length_map, List.length_map, List.length_map, hj]
  exact ⟨h2, rfl, rfl, rfl⟩

/-- **The alphas start at the model's alpha and each is the previous one times `alpha_multiplier`** — by repeated
    multiplication, in any number type (this is bit-exactly what doubles do): `[α₀, α₀·m, (α₀·m)·m, …]`. -/
theorem alphas_repeated_multiplication (alpha0 : α) (maxIter d : Nat) (args : PathArgs α) (tr : Trace α ω) :
    (runPath alpha0 maxIter d args tr).1.alphas
      = geomList alpha0 (normalise args d).1.alphaMultiplier (runPath alpha0 maxIter d args tr).1.alphas.length := by
  obtain ⟨j, scores, h1, h2, h3, -⟩ := runPath_spec alpha0 maxIter d args tr
  rw [h3, geomList_length]

/-- (ℝ) **`alphas[t] = α₀ · m^t`.** -/
theorem alphas_geometric (alpha0 : ℝ) (maxIter d : Nat) (args : PathArgs ℝ) (tr : Trace ℝ ω) :
    (runPath alpha0 maxIter d args tr).1.alphas
      = (List.range (runPath alpha0 maxIter d args tr).1.alphas.length).map
          fun t => alpha0 * (normalise args d).1.alphaMultiplier ^ t := by
  have h := alphas_repeated_multiplication alpha0 maxIter d args tr
  rw [geomList_real] at h
  exact h

/-- **Each recorded feature count and penalty is that of the model at that step**: with `T` recorded steps, the
    histories are the observed counts / penalties / weights after the first `T` steps of the trace, in order. -/
theorem recorded_counts_and_penalties (alpha0 : α) (maxIter d : Nat) (args : PathArgs α) (tr : Trace α ω) :
    (runPath alpha0 maxIter d args tr).1.alphas.length ≤ tr.steps.length ∧
    (runPath alpha0 maxIter d args tr).1.nFeatures
      = (tr.steps.take (runPath alpha0 maxIter d args tr).1.alphas.length).map (·.nSel) ∧
    (runPath alpha0 maxIter d args tr).1.penalties
      = (tr.steps.take (runPath alpha0 maxIter d args tr).1.alphas.length).map (·.penalty) ∧
    (runPath alpha0 maxIter d args tr).1.weightsHist
      = (tr.steps.take (runPath alpha0 maxIter d args tr).1.alphas.length).map (·.weights) := by
  obtain ⟨j, scores, h1, h2, h3, h4, h5, h6, -⟩ := runPath_spec alpha0 maxIter d args tr
  have hT : (runPath alpha0 maxIter d args tr).1.alphas.length = j := by rw [h3, geomList_length]
  rw [hT]
  exact ⟨h1, h4, h5, h6⟩

/-! ## stopping -/

/-- **On a normal exit the last recorded feature count is at most `min_features`** (the count after the initial fit
    when no step was recorded); `min_features` is the value after the defaults block. -/
theorem normal_exit_last_count (alpha0 : α) (maxIter d : Nat) (args : PathArgs α) (tr : Trace α ω)
    (hx : (runPath alpha0 maxIter d args tr).1.exit = .normal) :
    (((runPath alpha0 maxIter d args tr).1.nFeatures.getLast?.getD tr.initNSel : Nat) : Int)
      ≤ (normalise args d).1.minFeatures := by
  obtain ⟨j, scores, h1, h2, h3, h4, h5, h6, h7, h8, h9, h10, -⟩ := runPath_spec alpha0 maxIter d args tr
  rw [h4]; exact (h10 hx).2

/-- **On a NaN abort nothing is appended for the aborted step**: the histories hold exactly the `T` steps before it
    (`recorded_counts_and_penalties`), one more step was started than recorded, that step is `tr.steps[T]`, one of its
    observed epochs has a NaN score, and the estimator is left with that step's weights. -/
theorem nan_abort_appends_nothing (alpha0 : α) (maxIter d : Nat) (args : PathArgs α) (tr : Trace α ω)
    (hx : (runPath alpha0 maxIter d args tr).1.exit = .nanAbort) :
    (runPath alpha0 maxIter d args tr).1.epochsRun.length = (runPath alpha0 maxIter d args tr).1.alphas.length + 1 ∧
    ∃ s e, tr.steps[(runPath alpha0 maxIter d args tr).1.alphas.length]? = some s ∧ e ∈ s.epochs ∧ e.isNaN = true ∧
      (runPath alpha0 maxIter d args tr).1.curW = s.weights := by
  obtain ⟨j, scores, h1, h2, h3, h4, h5, h6, h7, h8, h9, h10, h11, -⟩ := runPath_spec alpha0 maxIter d args tr
  have hT : (runPath alpha0 maxIter d args tr).1.alphas.length = j := by rw [h3, geomList_length]
  rw [hT]
  exact h11 hx

/-- … and on a normal exit exactly as many steps were started as recorded. -/
theorem normal_exit_all_steps_recorded (alpha0 : α) (maxIter d : Nat) (args : PathArgs α) (tr : Trace α ω)
    (hx : (runPath alpha0 maxIter d args tr).1.exit = .normal) :
    (runPath alpha0 maxIter d args tr).1.epochsRun.length = (runPath alpha0 maxIter d args tr).1.alphas.length := by
  obtain ⟨j, scores, h1, h2, h3, h4, h5, h6, h7, h8, h9, h10, -⟩ := runPath_spec alpha0 maxIter d args tr
  have hT : (runPath alpha0 maxIter d args tr).1.alphas.length = j := by rw [h3, geomList_length]
  rw [hT]
  exact (h10 hx).1

/-- **The inner loop terminates**: it is a structural recursion over the observed epochs, its counter `i` increases by
    one per epoch and never exceeds `max_iter` — every started step ran at most `max_iter` epochs. -/
theorem inner_loop_bounded (alpha0 : α) (maxIter d : Nat) (args : PathArgs α) (tr : Trace α ω) :
    ∀ i ∈ (runPath alpha0 maxIter d args tr).1.epochsRun, i ≤ maxIter := by
  have hr := outerLoop_runs (cfgOf maxIter d (normalise args d).1) tr.steps (initState alpha0 tr) tr.initNSel
  show ∀ i ∈ (restoreAlpha alpha0 _).epochsRun, i ≤ maxIter
  rw [restoreAlpha_epochsRun]
  exact runs_epochs_le _ hr (by intro i hi; cases hi)

/-- the inner loop of one step, in isolation: counter bounded by `max_iter`, at most one observation consumed per
    iteration, and the score it leaves in `iteration_gemini_score` is the one observed after the last epoch it ran -/
theorem inner_loop_contract (maxIter : Nat) (maxPat : Int) (esf alpha vs vl : α) (eps : List (Epoch α))
    (i : Nat) (last : Option (Epoch α))
    (h : innerLoop maxIter maxPat esf alpha 0 0 vs vl none eps = .done i last) :
    i ≤ maxIter ∧ i ≤ eps.length ∧ ((i = 0 ∧ last = none) ∨ (0 < i ∧ ∃ e, eps[i - 1]? = some e ∧ last = some e)) := by
  obtain ⟨_, h2, h3, h4⟩ := innerLoop_done _ _ _ _ _ _ _ _ _ _ _ _ h
  refine ⟨h3 (Nat.zero_le _), by simpa using h2, ?_⟩
  rcases h4 with h4 | ⟨h5, e, he, hl⟩
  · exact Or.inl h4
  · exact Or.inr ⟨h5, e, by simpa using he, hl⟩

/-- the trace is sufficient for the inner loop whenever `max_iter` epochs were observed: the model then never reports
    `needMoreEpochs` for that step -/
theorem inner_loop_never_starves (maxIter : Nat) (maxPat : Int) (esf alpha vs vl : α) (last0 : Option (Epoch α))
    (eps : List (Epoch α)) (h : maxIter ≤ eps.length) :
    innerLoop maxIter maxPat esf alpha 0 0 vs vl last0 eps ≠ .exhausted := by
  intro hx
  have := innerLoop_exhausted _ _ _ _ _ _ _ _ _ _ hx
  omega

/-- **Outer-loop termination, PARTIAL.**  Hypothesis (not provable from `_path`: it is a statement about the optimiser and
    the data): at some step of the observed trace the selected count is at most `min_features`.  Then the loop has
    stopped by then — the model never asks for a step beyond the trace.
    Full statement that does NOT hold: "for every `alpha ≥ 0` … `path` terminates" — see `alpha_zero_stays_zero`. -/
theorem path_terminates_if_count_drops_partial (alpha0 : α) (maxIter d : Nat) (args : PathArgs α) (tr : Trace α ω)
    (hdrop : ∃ s ∈ tr.steps, (s.nSel : Int) ≤ (normalise args d).1.minFeatures) :
    (runPath alpha0 maxIter d args tr).1.exit ≠ .needMoreSteps := by
  have hr := outerLoop_runs (cfgOf maxIter d (normalise args d).1) tr.steps (initState alpha0 tr) tr.initNSel
  show (restoreAlpha alpha0 _).exit ≠ .needMoreSteps
  rw [restoreAlpha_exit]
  exact runs_terminates _ hr hdrop

/-- the hypothesis of the previous theorem is satisfiable (a one-step trace that drops every feature) -/
example : ∃ (tr : Trace ℝ Nat) (args : PathArgs ℝ),
    ∃ s ∈ tr.steps, (s.nSel : Int) ≤ (normalise args 3).1.minFeatures :=
  ⟨{ initScore := 1, initNSel := 3, initWeights := 0,
     steps := [{ valScore := 1, valPenalty := 1, epochs := [], nSel := 0, penalty := 0, weights := 1 }] },
   { alphaMultiplier := 2, minFeatures := 2, keepThreshold := 0.9, earlyStoppingFactor := 0.99, maxPatience := 10 },
   _, List.mem_cons_self, by simp [normalise]⟩

/-- conversely, if the count never drops within the trace (and no NaN, no starving), the loop wants more: the model
    consumed the WHOLE trace and still asks — this is how non-termination shows in a bounded run -/
theorem need_more_steps_means_no_drop (alpha0 : α) (maxIter d : Nat) (args : PathArgs α) (tr : Trace α ω)
    (hx : (runPath alpha0 maxIter d args tr).1.exit = .needMoreSteps) :
    (runPath alpha0 maxIter d args tr).1.alphas.length = tr.steps.length ∧
    (((runPath alpha0 maxIter d args tr).1.nFeatures.getLast?.getD tr.initNSel : Nat) : Int)
      > (normalise args d).1.minFeatures := by
  obtain ⟨j, scores, h1, h2, h3, h4, h5, h6, h7, h8, h9, h10, h11, h12⟩ := runPath_spec alpha0 maxIter d args tr
  have hT : (runPath alpha0 maxIter d args tr).1.alphas.length = j := by rw [h3, geomList_length]
  obtain ⟨ha, hb⟩ := h12 hx
  refine ⟨by rw [hT, ha], ?_⟩
  rw [h4]; exact hb

/-- (ℝ) **`alpha = 0` is a fixed point of `alpha *= alpha_multiplier`**: every recorded alpha is `0`. -/
theorem alpha_zero_stays_zero (maxIter d : Nat) (args : PathArgs ℝ) (tr : Trace ℝ ω) :
    ∀ a ∈ (runPath (0 : ℝ) maxIter d args tr).1.alphas, a = 0 := by
  intro a ha
  rw [alphas_geometric] at ha
  obtain ⟨t, _, rfl⟩ := List.mem_map.mp ha
  simp

/-- (ℝ) … and with `alpha = 0` the proximal threshold `alpha·lr` is `0`, for which the group-lasso proximal operator is
    the identity: it never removes a feature, so the selected count is whatever the optimiser leaves. -/
theorem alpha_zero_prox_removes_nothing {d h : ℕ} (W : Fin d → Fin h → ℝ) (lr : ℝ) :
    Model.Prox.linearProx W (threshold 0 lr) = W := by
  have h0 : threshold (0 : ℝ) lr = 0 := by simp [threshold]
  rw [h0]
  funext i j
  by_cases hz : Spec.Prox.rowNorm (W i) ≤ 0
  · rw [Props.C05.linear_prox_small_row W i hz j]
    have hnn : Spec.Prox.rowNorm (W i) = 0 := le_antisymm hz (by unfold Spec.Prox.rowNorm; exact Real.sqrt_nonneg _)
    have : W i = 0 := by
      rw [← norm2_eq_zero, norm2_eq_sqrt]; exact hnn
    rw [this]; rfl
  · have := (Props.C05.linear_prox_large_row W (le_refl 0) i (not_le.mp hz)).1 j
    rw [this]; simp

/-! ## best score and best weights -/

/-- **Best-weights rule.**  Let `cs` be the recorded steps, each with its score, feature count and weights.
    `best_gemini_score` ends as the running best `runBest` (the initial fit's score, raised by every step whose score is
    `≥` it while all `d` features are selected).  The returned `best_weights` are the weights of the LAST step `c` with
    `score_c ≥ keep_threshold · B_c`, where `B_c` is the running best over the initial fit and the steps up to and
    including `c`; if no step qualifies they are the snapshot taken after the initial fit. -/
theorem best_weights_rule (alpha0 : α) (maxIter d : Nat) (args : PathArgs α) (tr : Trace α ω) :
    (runPath alpha0 maxIter d args tr).1.best = runBest d tr.initScore
      (completed (runPath alpha0 maxIter d args tr).1.geminis (runPath alpha0 maxIter d args tr).1.nFeatures
        (runPath alpha0 maxIter d args tr).1.weightsHist) ∧
    LastAccepted (normalise args d).1.keepThreshold d tr.initScore tr.initWeights
      (completed (runPath alpha0 maxIter d args tr).1.geminis (runPath alpha0 maxIter d args tr).1.nFeatures
        (runPath alpha0 maxIter d args tr).1.weightsHist)
      (runPath alpha0 maxIter d args tr).1.bestWeights := by
  obtain ⟨j, scores, h1, h2, h3, h4, h5, h6, h7, h8, h9, -⟩ := runPath_spec alpha0 maxIter d args tr
  rw [h7, h4, h6]
  exact ⟨h8, h9⟩

/-- (ℝ) the two Boolean tests of the rule, spelled out: the best score moves to `s` iff `s ≥ B` with all `d` features
    selected; a step is accepted iff `keep_threshold · B ≤ score` -/
theorem best_rule_tests_real (d : Nat) (B s thr : ℝ) (n : Nat) :
    newBest d B s n = (if B ≤ s ∧ n = d then s else B) ∧ (keeps thr B s = true ↔ thr * B ≤ s) :=
  ⟨newBest_real d B s n, keeps_real thr B s⟩

/-- **Running best = final best after the last all-features step** (reading of "the best score seen while all features
    were still selected", DESIGN §12): steps at which some feature is already gone never change the running best, so for
    every step after the last all-features step the running best used by the rule IS the final best. -/
theorem running_best_final_after_last_full_step (d : Nat) (B0 : α) (pre post : List (α × Nat × ω))
    (hpost : ∀ c ∈ post, c.2.1 ≠ d) :
    ∀ post₁ post₂, post = post₁ ++ post₂ → runBest d B0 (pre ++ post₁) = runBest d B0 (pre ++ post) := by
  intro post₁ post₂ hp
  rw [runBest_append_not_full d B0 pre post hpost]
  exact runBest_append_not_full d B0 pre post₁ (fun c hc => hpost c (by rw [hp]; exact List.mem_append_left _ hc))

/-- the rule on an explicit three-step history over ℝ (`d = 3`, threshold 0.9, initial score 1):
    scores 1.2 (3 features), 1.1 (2 features), 0.5 (1 feature) → best 1.2, best weights = those of step 2 -/
example : LastAccepted (0.9 : ℝ) 3 1 (0 : Nat) [(1.2, 3, 1), (1.1, 2, 2), (0.5, 1, 3)] 2 := by
  refine Or.inr ⟨[(1.2, 3, 1)], (1.1, 2, 2), [(0.5, 1, 3)], rfl, ?_, ?_, rfl⟩
  · simp only [accepts, runBest, List.cons_append, List.nil_append, List.foldl, keeps_real, newBest_real]
    norm_num
  · intro pre' c' post' h
    have : pre' = [] ∧ c' = (0.5, 1, 3) := by
      cases pre' with
      | nil => simp at h; exact ⟨rfl, h.1.symm⟩
      | cons x l => cases l <;> simp at h
    obtain ⟨rfl, rfl⟩ := this
    have : ¬ ((0.9 : ℝ) * 1.2 ≤ 0.5) := by norm_num
    simp only [accepts, runBest, List.cons_append, List.nil_append, List.foldl, newBest_real]
    rw [Bool.eq_false_iff, Ne, keeps_real]
    norm_num

/-! ## restoration -/

/-- **`restore ∘ snapshot = id` on `_get_weights()`** (sparse MLP): the restore block of `SparseMLPModel.path` applied to
    `[w.copy() for w in _get_weights()]` of a state gives that state back, whatever the estimator held before. -/
theorem mlp_restore_snapshot {A : Type} (est est' : MlpSlot → A) :
    applyRestore mlpRestoreBlock est (snapshot mlpGetWeights est') = est' := by
  funext s; cases s <;> rfl

/-- the same for `SparseLinearModel.path` -/
theorem linear_restore_snapshot {A : Type} (est est' : LinSlot → A) :
    applyRestore linRestoreBlock est (snapshot linGetWeights est') = est' := by
  funext s; cases s <;> rfl

/-- **both restore blocks list every weight of `_get_weights()`, each with its own position** -/
theorem restore_blocks_list_all_weights :
    mlpRestoreBlock = mlpGetWeights.zipIdx ∧ linRestoreBlock = linGetWeights.zipIdx := ⟨rfl, rfl⟩

omit [RealLike α] in
/-- **what the estimator holds after `path`**: the returned best weights iff `restore_best_weights` on a non-dynamic
    model, the weights of the last step otherwise (with a warning when restoration was asked of a dynamic model). -/
theorem after_path_state (restore dynamic : Bool) (r : PathResult α ω) :
    afterPath restore dynamic r =
      if restore = true ∧ dynamic = false then (r.bestWeights, false) else (r.curW, restore && dynamic) := by
  cases restore <;> cases dynamic <;> rfl

/-- **`_path` hands the estimator back with its own `alpha`** (`finally: clf.set_params(alpha=initial_alpha)`):
    on every way out of the Python function — normal exit, NaN abort, or the `UnboundLocalError` of `max_patience ≤ 0` —
    `clf.alpha` is the value it had on entry, not `0` and not the last alpha of the path. -/
theorem path_returns_with_initial_alpha (alpha0 : α) (maxIter d : Nat) (args : PathArgs α) (tr : Trace α ω)
    (hx : (runPath alpha0 maxIter d args tr).1.exit = .normal ∨ (runPath alpha0 maxIter d args tr).1.exit = .nanAbort ∨
          (runPath alpha0 maxIter d args tr).1.exit = .unboundScore) :
    (runPath alpha0 maxIter d args tr).1.clfAlpha = alpha0 := by
  change (restoreAlpha alpha0 _).exit = .normal ∨ (restoreAlpha alpha0 _).exit = .nanAbort ∨
    (restoreAlpha alpha0 _).exit = .unboundScore at hx
  rw [restoreAlpha_exit] at hx
  exact restoreAlpha_clfAlpha alpha0 _ hx

/-! ## defaults -/

/-- (ℝ) **Out-of-range arguments are replaced by the documented defaults, with a warning; in-range arguments are kept,
    without one**: `alpha_multiplier ≤ 1 ↦ 1.05`, `keep_threshold ∉ [0,1] ↦ 0.9`, `min_features ≤ 0 ↦ 2`. -/
theorem defaults (a : PathArgs ℝ) (d : Nat) :
    let n := normalise a d
    (a.alphaMultiplier ≤ 1 → n.1.alphaMultiplier = 1.05 ∧ n.2.multiplier = true) ∧
    (1 < a.alphaMultiplier → n.1.alphaMultiplier = a.alphaMultiplier ∧ n.2.multiplier = false) ∧
    (a.keepThreshold < 0 ∨ 1 < a.keepThreshold → n.1.keepThreshold = 0.9 ∧ n.2.keepThreshold = true) ∧
    (0 ≤ a.keepThreshold ∧ a.keepThreshold ≤ 1 → n.1.keepThreshold = a.keepThreshold ∧ n.2.keepThreshold = false) ∧
    (a.minFeatures ≤ 0 → n.1.minFeatures = 2 ∧ n.2.minFeatures = true) ∧
    (0 < a.minFeatures → n.1.minFeatures = a.minFeatures ∧ n.2.minFeatures = false) ∧
    n.1.earlyStoppingFactor = a.earlyStoppingFactor ∧ n.1.maxPatience = a.maxPatience := by
  intro n
  have hm : (defaultMultiplier : ℝ) = 1.05 := by simp [defaultMultiplier]; norm_num
  have hk : (defaultKeep : ℝ) = 0.9 := by simp [defaultKeep]; norm_num
  refine ⟨fun h => ?_, fun h => ?_, fun h => ?_, fun h => ?_, fun h => ?_, fun h => ?_, rfl, rfl⟩
  · simp [n, normalise, h, hm]
  · simp [n, normalise, not_le.mpr h]
  · have : (a.keepThreshold < 0 ∨ 1 < a.keepThreshold) := h
    simp [n, normalise, this, hk]
  · simp [n, normalise, not_lt.mpr h.1, not_lt.mpr h.2]
  · simp [n, normalise, h, defaultMinFeatures]
  · simp [n, normalise, not_le.mpr h]

/-- `min_features ≥ d` only warns (the path is then equivalent to `fit`): the value is kept -/
theorem min_features_ge_d_only_warns (a : PathArgs α) (d : Nat) (h0 : 0 < a.minFeatures) (hd : (d : Int) ≤ a.minFeatures) :
    (normalise a d).1.minFeatures = a.minFeatures ∧ (normalise a d).2.minFeaturesGe = true := by
  have : ¬ a.minFeatures ≤ 0 := by omega
  simp [normalise, this, hd]

end GemVerif.Props.C07
