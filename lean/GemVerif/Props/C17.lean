/-
  C17 — results stay finite on degenerate and badly scaled but legal inputs.   (*partial*)

  PROVED here, for all sizes `n K`, all predictions `P` (interior, on the boundary of the simplex, or outside it) and
  all affinities: under the code's own guards every quantity the numeric code divides by is non-zero, every `log`
  argument is positive and every `sqrt` argument is non-negative.  The guards are the hypotheses
  `0 < ε ≤ 1/2` (the `epsilon` of the GEMINI constructors, `Interval(Real, 0, 1, closed="neither")`, default `1e-12`),
  `0 < n` (a batch is never empty), `0 < temperature`, and the loop guards of `compute_all_splits`; the clipping
  `np.clip(y_pred, ε, 1-ε)`, `np.maximum(·, 0)`, `delta + delta_mask`, `np.where(W_norms == 0, 1, W_norms)` are part
  of the model terms the statements mention — deleting one of them in the model makes the statement false.

  NOT provable here (exhibited by `harness/props/c17.py` on the real code and on the `Float` model):
  IEEE overflow / underflow (e.g. a soft-bin membership `exp(-800)` IS `0.0` in doubles although it is positive in ℝ:
  theorem `douglas_divisors_pos` holds over ℝ and fails in floating point — the harness found exactly that: the original
  `Douglas._compute_grads` divided by the memberships and produced `0/0`; /repo commit 62053a1 removed the division),
  numpy broadcasting after `np.squeeze` when `n = 1` or `K = 1`, and the unguarded `a_s / norm_v` of `mlp_prox_grad`
  (C05 owns it: a zero row of `W_skip_` divides by zero and the result is saved by `np.maximum(-inf, 0)`).
-/
import GemVerif.Lemmas.Defined
import GemVerif.Lemmas.Api
import GemVerif.Lemmas.Douglas

namespace GemVerif.Props.C17
open scoped BigOperators
open GemVerif Model Defined

variable {n K : ℕ}

/-! ### the six GEMINI `evaluate`s -/

/-- Clipped predictions and their column means lie in `[ε, 1-ε] ⊂ (0, 1)` — whatever `y_pred` is. -/
theorem clipped_in_window (hn : 0 < n) {ε : ℝ} (h0 : 0 < ε) (h1 : ε ≤ 1 / 2) (P : Fin n → Fin K → ℝ)
    (i : Fin n) (k : Fin K) :
    (ε ≤ clipP ε P i k ∧ clipP ε P i k ≤ 1 - ε) ∧ (ε ≤ mean0 (clipP ε P) k ∧ mean0 (clipP ε P) k ≤ 1 - ε) ∧
      0 < clipP ε P i k ∧ 0 < mean0 (clipP ε P) k :=
  ⟨(window hn h1 P i k).1, (window hn h1 P i k).2, cp_pos h0 h1 P i k, cpi_pos hn h0 h1 P k⟩

/-- `KLGEMINI.evaluate`: `np.log(p_y_x)`, `np.log(p_y)` have positive arguments; `p_y / p_y_x` and the divisions by
    `shape[0]` / inside `.mean(0)` have non-zero divisors. -/
theorem kl_defined (hn : 0 < n) {ε : ℝ} (h0 : 0 < ε) (h1 : ε ≤ 1 / 2) (P : Fin n → Fin K → ℝ) (i : Fin n) (k : Fin K) :
    0 < clipP ε P i k ∧ 0 < mean0 (clipP ε P) k ∧ clipP ε P i k ≠ 0 ∧ (RealLike.nat n : ℝ) ≠ 0 :=
  ⟨cp_pos h0 h1 P i k, cpi_pos hn h0 h1 P k, (cp_pos h0 h1 P i k).ne', (natn_pos hn).ne'⟩

/-- `TVGEMINI.evaluate` divides by the batch size only. -/
theorem tv_defined (hn : 0 < n) : (RealLike.nat n : ℝ) ≠ 0 := (natn_pos hn).ne'

/-- `HellingerGEMINI.evaluate`: the radicand `p_y_x * p_y` is positive, so `cluster_wise_estimates = sqrt(·)` — the
    divisor of `p_y / cw` and `p_y_x / cw` — is positive; `estimates` (row sums of `cw`) is positive for `K ≥ 1`, and the
    argument of `np.sqrt(estimates)` in the one-vs-one branch, `estimates²`, is non-negative. -/
theorem hellinger_defined (hn : 0 < n) {ε : ℝ} (h0 : 0 < ε) (h1 : ε ≤ 1 / 2) (P : Fin n → Fin K → ℝ) (i : Fin n)
    (k : Fin K) :
    0 < clipP ε P i k * mean0 (clipP ε P) k ∧ 0 < Real.sqrt (clipP ε P i k * mean0 (clipP ε P) k) ∧
    0 < ∑ c, Real.sqrt (clipP ε P i c * mean0 (clipP ε P) c) ∧
    0 ≤ RealLike.sq (∑ c, Real.sqrt (clipP ε P i c * mean0 (clipP ε P) c)) ∧ (RealLike.nat n : ℝ) ≠ 0 := by
  have hm : ∀ c, 0 < clipP ε P i c * mean0 (clipP ε P) c := fun c => mul_pos (cp_pos h0 h1 P i c) (cpi_pos hn h0 h1 P c)
  refine ⟨hm k, Real.sqrt_pos.mpr (hm k), ?_, ?_, (natn_pos hn).ne'⟩
  · exact Finset.sum_pos (fun c _ => Real.sqrt_pos.mpr (hm c)) ⟨k, Finset.mem_univ k⟩
  · rw [RealLike.sq_real]; positivity

/-- `ChiSquareGEMINI.evaluate`: `p_y_x / p_y` divides by a positive number and is itself positive, so
    `p_y / cluster_wise_estimates`, `alpha / cw`, `alpha / cw / cw` are defined. -/
theorem chi2_defined (hn : 0 < n) {ε : ℝ} (h0 : 0 < ε) (h1 : ε ≤ 1 / 2) (P : Fin n → Fin K → ℝ) (i : Fin n)
    (k : Fin K) :
    mean0 (clipP ε P) k ≠ 0 ∧ 0 < clipP ε P i k / mean0 (clipP ε P) k ∧ (RealLike.nat n : ℝ) ≠ 0 :=
  ⟨(cpi_pos hn h0 h1 P k).ne', div_pos (cp_pos h0 h1 P i k) (cpi_pos hn h0 h1 P k), (natn_pos hn).ne'⟩

/-- `MMDGEMINI.evaluate`: `y_pred / pi` and `affinity / N**2` have non-zero divisors; both distance vectors are square
    roots of `np.maximum(·, 0)`, hence defined and non-negative; the divisor `delta + delta_mask` of the one-vs-all
    gradient and the diagonal `delta + np.eye` of the one-vs-one gradient are non-zero; in the model the one-vs-one
    off-diagonal division happens only where `delta ≠ 0` (the code divides first and overwrites `Lambda[delta == 0] = 0`
    afterwards: in IEEE arithmetic an `inf` is produced and discarded there). -/
theorem mmd_defined (hn : 0 < n) {ε : ℝ} (h0 : 0 < ε) (h1 : ε ≤ 1 / 2) (P : Fin n → Fin K → ℝ)
    (κ : Fin n → Fin n → ℝ) (k a b : Fin K) :
    mean0 (clipP ε P) k ≠ 0 ∧ (RealLike.nat n * RealLike.nat n : ℝ) ≠ 0 ∧
    (∀ x : ℝ, 0 ≤ max x 0) ∧ 0 ≤ mmdDeltaOva ε P κ k ∧ 0 ≤ mmdDeltaOvo ε P κ a b ∧
    mmdDeltaOva ε P κ k + (if mmdDeltaOva ε P κ k = 0 then 1 else 0) ≠ 0 ∧
    mmdDeltaOvo ε P κ a a + 1 ≠ 0 ∧
    (RealLike.beq (mmdDeltaOvo ε P κ a b) 0 = false → mmdDeltaOvo ε P κ a b + 0 ≠ 0) := by
  have hova : 0 ≤ mmdDeltaOva ε P κ k := by
    simp only [mmdDeltaOva, RealLike.sqrt_real]; exact Real.sqrt_nonneg _
  have hovo : ∀ a b, 0 ≤ mmdDeltaOvo ε P κ a b := fun a b => by
    simp only [mmdDeltaOvo, RealLike.sqrt_real]; exact Real.sqrt_nonneg _
  refine ⟨(cpi_pos hn h0 h1 P k).ne', (mul_pos (natn_pos hn) (natn_pos hn)).ne', fun x => le_max_right x 0, hova,
    hovo a b, ?_, ?_, ?_⟩
  · split_ifs with h
    · rw [h]; norm_num
    · simpa using h
  · have := hovo a a; linarith
  · intro h
    simp only [RealLike.beq_real, decide_eq_false_iff_not] at h
    simpa using h

/-- `WassersteinGEMINI.evaluate`: the divisors `pi * N` and `N * N * pi` are non-zero, and the weight vectors handed to
    `ot.emd2` are strictly positive and sum to one (POT's precondition) for ANY `y_pred`. -/
theorem wasserstein_defined (hn : 0 < n) {ε : ℝ} (h0 : 0 < ε) (h1 : ε ≤ 1 / 2) (P : Fin n → Fin K → ℝ) (k : Fin K) :
    mean0 (clipP ε P) k * RealLike.nat n ≠ 0 ∧ (RealLike.nat n * RealLike.nat n * mean0 (clipP ε P) k : ℝ) ≠ 0 ∧
    (∀ i, 0 < wassWeights ε P k i) ∧ ∑ i, wassWeights ε P k i = 1 := by
  have hπ := cpi_pos hn h0 h1 P k
  have hN := natn_pos hn
  refine ⟨(mul_pos hπ hN).ne', (mul_pos (mul_pos hN hN) hπ).ne', fun i => ?_, ?_⟩
  · simp only [wassWeights, tab_apply]
    exact div_pos (cp_pos h0 h1 P i k) (mul_pos hπ hN)
  · simp only [wassWeights, tab_apply, ← Finset.sum_div]
    rw [sum_col_eq hn, RealLike.nat_real, mul_comm]
    exact div_self (mul_pos hπ (by exact_mod_cast hn)).ne'

/-! ### soft-max, proximal operators, Douglas -/

/-- `sklearn.utils.extmath.softmax` divides by a strictly positive row sum (non-empty rows). -/
theorem softmax_normaliser_pos (z : Fin K → ℝ) (k : Fin K) :
    0 < sumFin fun c => (tab fun c => RealLike.exp (z c - Nets.rowMax z)) c :=
  ApiLemmas.softmax_normaliser_pos z k

/-- `linear_prox_grad`: the radicand of `np.linalg.norm(W, axis=1)` is non-negative and the divisor
    `np.where(W_norms == 0, 1, W_norms)` is non-zero, for every row `w`. -/
theorem linear_prox_defined {h : ℕ} (w : Fin h → ℝ) :
    0 ≤ Prox.sumL (List.ofFn fun k => w k * w k) ∧
    (if RealLike.beq (Prox.norm2 w) 0 then 1 else Prox.norm2 w) ≠ 0 := by
  refine ⟨norm2_radicand_nonneg w, ?_⟩
  simp only [RealLike.beq_real, decide_eq_true_eq]
  split_ifs with h0
  · norm_num
  · exact h0

/-- `mlp_prox_grad`: the divisor `1 + s * M**2` is positive.  (Its other divisor, `norm_v`, is NOT guarded by the code.) -/
theorem hier_prox_denominator_pos (s : ℕ) (M : ℝ) : 0 < 1 + (RealLike.nat s : ℝ) * (M * M) := by
  have : (0 : ℝ) ≤ (s : ℝ) * (M * M) := mul_nonneg (Nat.cast_nonneg s) (mul_self_nonneg M)
  simp only [RealLike.nat_real]; linarith

/-- `Douglas`: the temperature (validated `> 0`) is a non-zero divisor of `logits / self.temperature` and
    `bin_grad /= self.temperature`; and over ℝ every soft-bin membership `softmax(logits / temperature)[j]` is strictly
    positive.  The original `_compute_grads` divided by these memberships
    (`binning_backprop.sum(...) / self._all_binnings[i]`, still the form of `Model/Douglas.lean computeGrads`): defined
    over ℝ by this theorem, but in IEEE arithmetic a membership underflows to `0.0` as soon as two logits differ by more
    than `745·temperature`, giving `0/0` — the statement is exactly what floating point breaks (fixed in /repo 62053a1 by
    the algebraically equal division-free form). -/
theorem douglas_divisors_pos {T : ℝ} (hT : 0 < T) (x : ℝ) (cuts : List ℝ) (j : ℕ) (hj : j ≤ cuts.length) :
    T ≠ 0 ∧ 0 < (Douglas.binning T x cuts).getD j 0 := by
  refine ⟨hT.ne', ?_⟩
  rw [GemVerif.Douglas.binning_getD T x cuts j hj]
  exact div_pos (Real.exp_pos _) (GemVerif.Douglas.Z_pos _ _ _)

/-! ### KAURI gains (`Gen/KauriGains.lean`, regenerated from `_utils.pyx`) -/

/-- Every denominator of the regenerated gain formulas `leftStar, rightStar, leftSwitch, rightSwitch` is positive under
    the loop guards (`n_leaf ≥ 2`, `1 ≤ split < n_leaf`, `n_leaf ≤ cs_k`, `cs_p ≥ 1`); those of `doubleStar` and
    `corrective` are positive under the additional source guard `n_leaf != cluster_sizes[k]`.  The list of denominators
    is compared with the regenerated file by `harness/props/c17.py` on every run. -/
theorem kauri_gain_denominators {n_leaf split cs_k cs_p : ℝ} (g : SplitGuards n_leaf split cs_k cs_p) :
    (0 < split ∧ 0 < n_leaf - split ∧ 0 < n_leaf ∧ 0 < cs_k ∧ 0 < cs_k - split ∧ 0 < cs_k - (n_leaf - split) ∧
      0 < cs_p + split ∧ 0 < cs_p ∧ 0 < cs_p + (n_leaf - split) ∧ 0 < cs_k - n_leaf + split ∧
      (RealLike.nat 1 : ℝ) ≠ 0 ∧ (RealLike.nat 2 : ℝ) ≠ 0) ∧
    (n_leaf ≠ cs_k → 0 < cs_k - n_leaf) := by
  obtain ⟨h1, h2, h3, h4, h5⟩ := g
  refine ⟨⟨by linarith, by linarith, by linarith, by linarith, by linarith, by linarith, by linarith, by linarith,
    by linarith, by linarith, by simp, by simp⟩, fun hne => ?_⟩
  exact sub_pos.mpr (lt_of_le_of_ne h4 hne)

/-- hence the star / switch formulas can be cleared of denominators: e.g. `leftStar` times its three denominators is a
    polynomial (no hidden `x/0 = 0` is used by the C08 identities on guarded states) -/
theorem leftStar_cleared {n_leaf split cs_k cs_p : ℝ} (g : SplitGuards n_leaf split cs_k cs_p)
    (sl_square sr_square leaf_square gamma_kk gamma_pp sl_k sr_k sl_p sr_p om : ℝ) :
    Gen.Kauri.leftStar sl_square sr_square leaf_square n_leaf split cs_k cs_p gamma_kk gamma_pp sl_k sr_k sl_p sr_p om
        * (split * (cs_k - split) * cs_k) =
      sl_square * (cs_k - split) * cs_k + sl_square * split * cs_k + gamma_kk * split * cs_k
        - gamma_kk * split * (cs_k - split) - 2 * sl_k * split * cs_k := by
  obtain ⟨⟨hs, _, _, hk, hks, _⟩, _⟩ := kauri_gain_denominators g
  simp only [Gen.Kauri.leftStar, RealLike.nat_real]
  field_simp
  ring

/-! ### the hypotheses are satisfiable -/

/-- the default `epsilon = 1e-12` meets the guard -/
example : (0 : ℝ) < 1e-12 ∧ (1e-12 : ℝ) ≤ 1 / 2 := by norm_num

/-- a leaf of 3 samples in a cluster of 5, cut after the first sample, another cluster of 2 -/
example : SplitGuards 3 1 5 2 := ⟨by norm_num, by norm_num, by norm_num, by norm_num, by norm_num⟩

/-- one-hot predictions (the saturated case): after clipping, the window holds with equality at both ends -/
example : clipP (1e-12 : ℝ) (fun (_ : Fin 1) (k : Fin 2) => if k = 0 then 1 else 0) 0 0 = 1 - 1e-12 ∧
    clipP (1e-12 : ℝ) (fun (_ : Fin 1) (k : Fin 2) => if k = 0 then 1 else 0) 0 1 = 1e-12 := by
  constructor <;> simp [clipP, RealLike.clip_real] <;> norm_num

end GemVerif.Props.C17
