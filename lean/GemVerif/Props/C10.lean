/-
  C10 — Mini-batches partition the data and stay aligned with the affinity matrix.

  All statements are about the executable model `GemVerif.Model.Batch` (tied to `/repo` by the correspondence run of
  `./check C10`), for every permutation, every data size `n`, every batch size `bs ≥ 1` (what `_validate_params`
  admits) and `None`.  `perm` is what `random_state.permutation(len(X))` returned (numpy: a permutation of `range n`).
-/
import GemVerif.Lemmas.Batch

namespace GemVerif.Props.C10
open GemVerif.Model.Batch GemVerif.BatchLemmas

/-! ### the batches are the permutation cut into consecutive chunks -/

/-- Concatenating the batches of one epoch gives back the permutation: nothing dropped, nothing repeated,
    order kept (in particular the last, partial batch is not lost). -/
theorem batches_concat (perm : List Nat) (bs : Nat) (hbs : 0 < bs) :
    (batchify perm (some bs)).flatten = perm := by
  simp only [batchify, dif_pos hbs]
  simpa using batchLoop_flatten perm bs hbs 0

/-- Every batch holds at most `batch_size` rows. -/
theorem batches_len (perm : List Nat) (bs : Nat) : ∀ b ∈ batchify perm (some bs), b.length ≤ bs := by
  intro b hb
  by_cases hbs : 0 < bs
  · simp only [batchify, dif_pos hbs] at hb
    exact (batchLoop_len perm bs hbs 0 b hb).1
  · simp [batchify, hbs] at hb

/-- No batch is empty (so no optimiser step is made on an empty batch). -/
theorem batches_nonempty (perm : List Nat) (bs : Nat) : ∀ b ∈ batchify perm (some bs), b ≠ [] := by
  intro b hb
  by_cases hbs : 0 < bs
  · simp only [batchify, dif_pos hbs] at hb
    exact List.ne_nil_of_length_pos (batchLoop_len perm bs hbs 0 b hb).2
  · simp [batchify, hbs] at hb

/-- There are `(n + bs - 1) / bs` batches per epoch. -/
theorem batches_count (perm : List Nat) (bs : Nat) (hbs : 0 < bs) :
    (batchify perm (some bs)).length = (perm.length + bs - 1) / bs := by
  simp only [batchify, dif_pos hbs]
  simpa using batchLoop_length perm bs hbs 0

/-- `(n + bs - 1) / bs` is `⌈n / bs⌉`. -/
theorem count_is_ceil (n bs : Nat) (hbs : 0 < bs) : (n + bs - 1) / bs = ⌈(n : ℚ) / (bs : ℚ)⌉₊ :=
  ceilDiv_eq_ceil n bs hbs

/-- There are `⌈n / bs⌉` batches per epoch. -/
theorem batches_count_ceil (perm : List Nat) (bs : Nat) (hbs : 0 < bs) :
    (batchify perm (some bs)).length = ⌈(perm.length : ℚ) / (bs : ℚ)⌉₊ := by
  rw [batches_count perm bs hbs, count_is_ceil _ _ hbs]

/-- The `k`-th batch is exactly `perm[k·bs : (k+1)·bs]`, in the same order. -/
theorem batches_get (perm : List Nat) (bs : Nat) (hbs : 0 < bs) (k : Nat)
    (hk : k < (perm.length + bs - 1) / bs) :
    (batchify perm (some bs))[k]? = some ((perm.drop (k * bs)).take bs) := by
  simp only [batchify, dif_pos hbs]
  rw [batchLoop_getElem?]
  have := (lt_ceilDiv_iff perm.length bs k hbs).1 hk
  simp [this]

/-- The `k`-th batch has `min bs (n - k·bs)` rows: all batches are full except possibly the last one. -/
theorem batches_get_length (perm : List Nat) (bs : Nat) (hbs : 0 < bs) (k : Nat) (b : List Nat)
    (hb : (batchify perm (some bs))[k]? = some b) : b.length = min bs (perm.length - k * bs) := by
  simp only [batchify, dif_pos hbs] at hb
  rw [batchLoop_getElem?] at hb
  split at hb
  · cases hb; simp
  · cases hb

/-- Within one epoch the batches are pairwise disjoint, free of repetitions, contain only sample indices `< n`,
    and every sample `i < n` occurs exactly once over all batches. -/
theorem batches_partition (perm : List Nat) (n bs : Nat) (hbs : 0 < bs) (hperm : perm.Perm (List.range n)) :
    (batchify perm (some bs)).Pairwise List.Disjoint
    ∧ (∀ b ∈ batchify perm (some bs), b.Nodup)
    ∧ (∀ b ∈ batchify perm (some bs), ∀ i ∈ b, i < n)
    ∧ (∀ i, i < n → ((batchify perm (some bs)).map (List.count i)).sum = 1) := by
  have hflat := batches_concat perm bs hbs
  have hnd : (batchify perm (some bs)).flatten.Nodup := by
    rw [hflat]; exact (hperm.nodup_iff).2 List.nodup_range
  obtain ⟨h1, h2⟩ := List.nodup_flatten.1 hnd
  refine ⟨h2, h1, ?_, ?_⟩
  · intro b hb i hi
    have : i ∈ (batchify perm (some bs)).flatten := List.mem_flatten.2 ⟨b, hb, hi⟩
    rw [hflat] at this
    exact List.mem_range.1 ((hperm.mem_iff).1 this)
  · intro i hi
    rw [← List.count_flatten, hflat, hperm.count_eq]
    exact List.count_eq_one_of_mem List.nodup_range (List.mem_range.2 hi)

/-- Every sample belongs to exactly one batch of the epoch. -/
theorem batches_cover_unique (perm : List Nat) (n bs : Nat) (hbs : 0 < bs) (hperm : perm.Perm (List.range n))
    (i : Nat) (hi : i < n) : ∃ (k : Nat) (b : List Nat), (batchify perm (some bs))[k]? = some b ∧ i ∈ b ∧
      ∀ (k' : Nat) (b' : List Nat), (batchify perm (some bs))[k']? = some b' → i ∈ b' → k' = k := by
  obtain ⟨hdis, _, _, _⟩ := batches_partition perm n bs hbs hperm
  have hmem : i ∈ (batchify perm (some bs)).flatten := by
    rw [batches_concat perm bs hbs]; exact (hperm.mem_iff).2 (List.mem_range.2 hi)
  obtain ⟨b, hb, hib⟩ := List.mem_flatten.1 hmem
  obtain ⟨k, hk, hkb⟩ := List.getElem_of_mem hb
  refine ⟨k, b, by rw [List.getElem?_eq_getElem hk, hkb], hib, ?_⟩
  intro k' b' hk' hib'
  by_contra hne
  obtain ⟨hk'lt, hk'b⟩ := List.getElem?_eq_some_iff.1 hk'
  rw [List.pairwise_iff_getElem] at hdis
  rcases Nat.lt_or_gt_of_ne hne with hlt | hlt
  · have hd := hdis k' k hk'lt hk hlt
    exact hd (a := i) (by rw [hk'b]; exact hib') (by rw [hkb]; exact hib)
  · have hd := hdis k k' hk hk'lt hlt
    exact hd (a := i) (by rw [hkb]; exact hib) (by rw [hk'b]; exact hib')

/-! ### `batch_size = None`, and batch sizes at or above `n` -/

/-- `batch_size = None` gives a single batch holding the whole permutation. -/
theorem batchify_none (perm : List Nat) (hne : perm ≠ []) : batchify perm none = [perm] := by
  have hpos : 0 < perm.length := List.length_pos_iff.2 hne
  simp only [batchify, dif_pos hpos]
  exact batchLoop_single perm perm.length hpos hne (Nat.le_refl _)

/-- `None` behaves as `batch_size = n`. -/
theorem batchify_none_eq (perm : List Nat) : batchify perm none = batchify perm (some perm.length) := rfl

/-- Any `batch_size ≥ n` (e.g. `n+1`, `n+2`) also gives the single full batch. -/
theorem batchify_large (perm : List Nat) (bs : Nat) (hne : perm ≠ []) (hle : perm.length ≤ bs) :
    batchify perm (some bs) = [perm] := by
  have hbs : 0 < bs := Nat.lt_of_lt_of_le (List.length_pos_iff.2 hne) hle
  simp only [batchify, dif_pos hbs]
  exact batchLoop_single perm bs hbs hne hle

/-! ### the affinity block is the double gather -/

/-- Entry `(a, b)` of the delivered block is the full affinity at (sample of row `a`, sample of row `b`). -/
theorem block_entries {α : Type} [Inhabited α] (A : Mat α) (idx : List Nat) (a b : Nat)
    (ha : a < idx.length) (hb : b < idx.length) :
    (block A idx)[a]![b]! = A[idx[a]!]![idx[b]!]! :=
  block_getElem! A idx a b ha hb

/-- The block is square of the size of the batch. -/
theorem block_shape {α : Type} [Inhabited α] (A : Mat α) (idx : List Nat) :
    (block A idx).length = idx.length ∧ ∀ r ∈ block A idx, r.length = idx.length :=
  ⟨block_length A idx, block_row_length A idx⟩

/-- Same statement for an affinity given as a function tabulated on `n × n` and in-range indices:
    `block A idx a b = A (idx a) (idx b)`. -/
theorem block_entries_fn {α : Type} [Inhabited α] (n : Nat) (Af : Nat → Nat → α) (idx : List Nat)
    (hidx : ∀ i ∈ idx, i < n) (a b : Nat) (ha : a < idx.length) (hb : b < idx.length) :
    (block ((List.range n).map fun i => (List.range n).map fun j => Af i j) idx)[a]![b]! = Af idx[a]! idx[b]! := by
  rw [block_entries _ idx a b ha hb]
  have h1 : idx[a]! < n := by
    rw [getElem!_pos idx a ha]; exact hidx _ (List.getElem_mem ha)
  have h2 : idx[b]! < n := by
    rw [getElem!_pos idx b hb]; exact hidx _ (List.getElem_mem hb)
  rw [getElem!_pos _ idx[a]! (by simpa using h1), List.getElem_map,
    getElem!_pos _ idx[b]! (by simpa using h2), List.getElem_map]
  simp

/-- The yielded pairs are, batch by batch, `(X[idx], A[idx][:, idx])` for the index lists of `batchify`. -/
theorem yields_spec {β α : Type} [Inhabited β] [Inhabited α] (X : List β) (A : Mat α) (perm : List Nat)
    (bs : Option Nat) (k : Nat) (idx : List Nat) (hk : (batchify perm bs)[k]? = some idx) :
    (batchifyData X (some A) perm bs)[k]? = some ⟨gather X idx, some (block A idx)⟩ := by
  simp [batchifyData, hk, mkBatch]

/-- When the GEMINI needs no affinity (`affinity_matrix is None`), `None` is delivered with every batch,
    and the data part is unchanged. -/
theorem yields_none {β α : Type} [Inhabited β] [Inhabited α] (X : List β) (perm : List Nat)
    (bs : Option Nat) (k : Nat) (idx : List Nat) (hk : (batchify perm bs)[k]? = some idx) :
    (batchifyData X (none : Option (Mat α)) perm bs)[k]? = some ⟨gather X idx, none⟩ := by
  simp [batchifyData, hk, mkBatch]

/-- As many pairs are yielded as there are index lists. -/
theorem yields_length {β α : Type} [Inhabited β] [Inhabited α] (X : List β) (A : Option (Mat α))
    (perm : List Nat) (bs : Option Nat) : (batchifyData X A perm bs).length = (batchify perm bs).length := by
  simp [batchifyData]

/-! ### `fit`: `max_iter` epochs, `max_iter × ⌈n / bs⌉` optimiser steps -/

/-- `fit` calls the optimiser `max_iter * ⌈n/bs⌉` times. -/
theorem fit_step_count (maxIter n bs : Nat) (hbs : 0 < bs) (perms : Nat → List Nat)
    (hlen : ∀ i, i < maxIter → (perms i).length = n) :
    fitStepCount maxIter perms (some bs) = maxIter * ((n + bs - 1) / bs) := by
  unfold fitStepCount fitSteps
  rw [List.length_flatMap]
  have : (List.range maxIter).map (fun i => (batchify (perms i) (some bs)).length)
      = (List.range maxIter).map (fun _ => (n + bs - 1) / bs) := by
    apply List.map_congr_left
    intro i hi
    rw [batches_count _ _ hbs, hlen i (List.mem_range.1 hi)]
  rw [this]
  simp

/-- With `batch_size = None` (and non-empty data) `fit` makes one step per epoch. -/
theorem fit_step_count_none (maxIter n : Nat) (hn : 0 < n) (perms : Nat → List Nat)
    (hlen : ∀ i, i < maxIter → (perms i).length = n) :
    fitStepCount maxIter perms none = maxIter := by
  unfold fitStepCount fitSteps
  rw [List.length_flatMap]
  have : (List.range maxIter).map (fun i => (batchify (perms i) none).length)
      = (List.range maxIter).map (fun _ => 1) := by
    apply List.map_congr_left
    intro i hi
    have hne : perms i ≠ [] := by
      intro h; have := hlen i (List.mem_range.1 hi); rw [h] at this; simp at this; omega
    rw [batchify_none _ hne]; rfl
  rw [this]
  simp

/-- The batching skeleton of `fit` on valid hyper-parameters: `max_iter` epochs, `n_iter_ = max_iter`,
    `max_iter * ⌈n/bs⌉` optimiser steps, the epochs being the batchings of the successive permutations. -/
theorem fitRun_valid (n : Nat) (maxIter bs : Int) (hmi : 1 ≤ maxIter) (hbs : 1 ≤ bs) (perms : Nat → List Nat)
    (hlen : ∀ i, (perms i).length = n) :
    ∃ tr, fitRun false n maxIter (some bs) perms = .ok tr
      ∧ tr.nIter = maxIter.toNat
      ∧ tr.epochs = (List.range maxIter.toNat).map (fun i => batchify (perms i) (some bs.toNat))
      ∧ tr.steps = maxIter.toNat * ((n + bs.toNat - 1) / bs.toNat) := by
  have hbs' : 0 < bs.toNat := by omega
  have hv : paramsValid maxIter (some bs) = true := by simp [paramsValid, hmi, hbs]
  unfold fitRun
  rw [hv]
  simp only [Bool.not_true, Bool.false_eq_true, if_false, Option.map_some]
  refine ⟨_, rfl, rfl, rfl, ?_⟩
  have := fit_step_count maxIter.toNat n bs.toNat hbs' perms (fun i _ => hlen i)
  unfold fitStepCount fitSteps at this
  show (List.flatten _).length = _
  rw [← this, List.flatMap_def]

/-- Hyper-parameters outside `_parameter_constraints` (`batch_size < 1` or `max_iter < 1`) are rejected, not defaulted. -/
theorem fitRun_rejects (cat : Bool) (n : Nat) (maxIter : Int) (bs : Option Int) (perms : Nat → List Nat)
    (h : maxIter < 1 ∨ ∃ b, bs = some b ∧ b < 1) :
    fitRun cat n maxIter bs perms = .error "InvalidParameterError" := by
  have : paramsValid maxIter bs = false := by
    rcases h with h | ⟨b, rfl, hb⟩
    · simp [paramsValid]; intro h'; omega
    · simp [paramsValid]; intro _; omega
  simp [fitRun, this]

/-! ### nonparametric models always see the full data -/

/-- `CategoricalModel._batchify` yields exactly one pair: the whole data and the whole affinity (or `None`). -/
theorem categorical_full {β α : Type} (X : List β) (A : Option (Mat α)) :
    batchifyCategorical X A = [⟨X, A⟩] := rfl

/-- A categorical `fit`: every epoch is the single batch `0, …, n-1`; `max_iter` optimiser steps; `n_iter_ = max_iter`. -/
theorem categorical_fit (n : Nat) (maxIter : Int) (hmi : 1 ≤ maxIter) (perms : Nat → List Nat) :
    ∃ tr, fitRun true n maxIter none perms = .ok tr
      ∧ tr.nIter = maxIter.toNat ∧ tr.steps = maxIter.toNat
      ∧ tr.epochs = List.replicate maxIter.toNat [List.range n] := by
  have hv : paramsValid maxIter none = true := by simp [paramsValid, hmi]
  unfold fitRun
  rw [hv]
  simp only [Bool.not_true, Bool.false_eq_true, if_false, if_true]
  refine ⟨_, rfl, rfl, ?_, ?_⟩
  · simp
  · apply List.ext_getElem <;> simp

/-! ### constraint decoration (`add_mlcl_constraint`) preserves the batches and records their indices -/

/-- Data-wise the decorated `_batchify` yields exactly what the plain one yields. -/
theorem decorated_eq_plain {β α : Type} [Inhabited β] [Inhabited α] (X : List β) (A : Option (Mat α))
    (perm : List Nat) (bs : Nat) (hbs : 0 < bs) (hperm : ∀ i ∈ perm, i < X.length) :
    (batchifyDecorated X A perm (some bs)).map (fun b => (⟨b.data, b.aff⟩ : Batch β α))
      = batchifyData X A perm (some bs) := by
  simp only [batchifyDecorated, decorate, batchifyData, List.map_map]
  apply List.map_congr_left
  intro idx hidx
  have hin : ∀ i ∈ idx, i < X.length := by
    intro i hi
    have : i ∈ (batchify perm (some bs)).flatten := List.mem_flatten.2 ⟨idx, hidx, hi⟩
    rw [batches_concat perm bs hbs] at this
    exact hperm i this
  simp only [Function.comp, mkBatch, gather_range X.length idx hin]

/-- `_batchify.indices` at the `k`-th yield is exactly the list of true sample indices of the `k`-th batch. -/
theorem decorated_records {β α : Type} [Inhabited β] [Inhabited α] (X : List β) (A : Option (Mat α))
    (perm : List Nat) (bs : Nat) (hbs : 0 < bs) (hperm : ∀ i ∈ perm, i < X.length) :
    (batchifyDecorated X A perm (some bs)).map (·.recorded) = batchify perm (some bs) := by
  simp only [batchifyDecorated, decorate, batchifyData, List.map_map]
  conv_rhs => rw [← List.map_id (batchify perm (some bs))]
  apply List.map_congr_left
  intro idx hidx
  have hin : ∀ i ∈ idx, i < X.length := by
    intro i hi
    have : i ∈ (batchify perm (some bs)).flatten := List.mem_flatten.2 ⟨idx, hidx, hi⟩
    rw [batches_concat perm bs hbs] at this
    exact hperm i this
  simp only [Function.comp, mkBatch, gather_range X.length idx hin, id]

/-- The same two facts for `batch_size = None`. -/
theorem decorated_none {β α : Type} [Inhabited β] [Inhabited α] (X : List β) (A : Option (Mat α))
    (perm : List Nat) (hperm : ∀ i ∈ perm, i < X.length) :
    (batchifyDecorated X A perm none).map (fun b => (⟨b.data, b.aff⟩ : Batch β α)) = batchifyData X A perm none
    ∧ (batchifyDecorated X A perm none).map (·.recorded) = batchify perm none := by
  by_cases hne : perm = []
  · subst hne; simp [batchifyDecorated, decorate, batchifyData, batchify]
  · have hpos : 0 < perm.length := List.length_pos_iff.2 hne
    rw [batchify_none_eq]
    have e1 : batchifyDecorated X A perm none = batchifyDecorated X A perm (some perm.length) := rfl
    have e2 : batchifyData X A perm none = batchifyData X A perm (some perm.length) := rfl
    rw [e1, e2]
    exact ⟨decorated_eq_plain X A perm _ hpos hperm, decorated_records X A perm _ hpos hperm⟩

/-- A decorated categorical model still sees the full data and affinity, and records all indices `0 … n-1`. -/
theorem decorated_categorical {β α : Type} [Inhabited β] (X : List β) (A : Option (Mat α)) :
    batchifyCategoricalDecorated X A = [⟨X, A, List.range X.length⟩] := by
  simp [batchifyCategoricalDecorated, decorate, batchifyCategorical, gather_range_self]

/-! ### `compute_val_score`: consecutive validation blocks -/

/-- The validation blocks concatenate to `0, 1, …, n-1`: consecutive, disjoint, covering. -/
theorem valBlocks_concat (n bs : Nat) (hbs : 0 < bs) : (valBlocks n bs).flatten = List.range n := by
  simp only [valBlocks, dif_pos hbs]
  simpa using batchLoop_flatten (List.range n) bs hbs 0

/-- There are `⌈n/bs⌉` validation blocks and the `k`-th one is the interval `[k·bs, min((k+1)·bs, n))`. -/
theorem valBlocks_get (n bs : Nat) (hbs : 0 < bs) :
    (valBlocks n bs).length = (n + bs - 1) / bs ∧
    ∀ k, k < (n + bs - 1) / bs → (valBlocks n bs)[k]? = some (List.range' (k * bs) (min bs (n - k * bs))) := by
  simp only [valBlocks, dif_pos hbs]
  refine ⟨by simpa using batchLoop_length (List.range n) bs hbs 0, ?_⟩
  intro k hk
  rw [batchLoop_getElem?]
  have := (lt_ceilDiv_iff n bs k hbs).1 hk
  simp [this, range_drop_take]

/-- With a user-supplied `n × n` affinity `y`, the pairs evaluated by `compute_val_score` are the data rows and the
    rows-and-columns block of `y` for those same consecutive indices. -/
theorem valBatches_spec {β α : Type} [Inhabited β] [Inhabited α] (X : List β) (y : Mat α) (bs : Nat)
    (hy : y.length = X.length) (hrow : ∀ r ∈ y, r.length = X.length) :
    valBatches X y bs = (valBlocks X.length bs).map (mkBatch X (some y)) := by
  by_cases hbs : 0 < bs
  · simp only [valBatches, valBlocks, dif_pos hbs]
    exact valLoop_eq X y bs hbs hy hrow 0
  · simp [valBatches, valBlocks, hbs]

/-- `_path` validates with `batch_size`, or `n` when it is `None`; this is the block structure of the training batches
    of the identity permutation. -/
theorem valBlocks_eq_batchify (n : Nat) (bs : Option Nat) (hbs : ∀ b, bs = some b → 0 < b) :
    valBlocks n (pathBatchSize n bs) = batchify (List.range n) bs := by
  cases bs with
  | none =>
    by_cases h : 0 < n
    · simp [pathBatchSize, valBlocks, batchify, h]
    · simp [pathBatchSize, valBlocks, batchify, h]
  | some b => simp [pathBatchSize, valBlocks, batchify, hbs b rfl]

/-! ### non-vacuity: the statements on concrete data -/

/-- 5 samples, batch size 2: three batches, the last one partial. -/
example : batchify [3, 1, 4, 0, 2] (some 2) = [[3, 1], [4, 0], [2]] := by simp [batchify, batchLoop]

example : [3, 1, 4, 0, 2].Perm (List.range 5) := by decide

example : batchify [3, 1, 4, 0, 2] none = [[3, 1, 4, 0, 2]] := by simp [batchify, batchLoop]

example : batchify [3, 1, 4, 0, 2] (some 7) = [[3, 1, 4, 0, 2]] := by simp [batchify, batchLoop]

/-- a non-symmetric affinity: rows and columns both follow the batch order -/
example : block [[0, 1, 2], [10, 11, 12], [20, 21, 22]] [2, 0] = [[22, 20], [2, 0]] := by decide

example : batchifyDecorated ["a", "b", "c"] (some [[0, 1, 2], [10, 11, 12], [20, 21, 22]]) [2, 0, 1] (some 2)
    = [⟨["c", "a"], some [[22, 20], [2, 0]], [2, 0]⟩, ⟨["b"], some [[11]], [1]⟩] := by
  simp [batchifyDecorated, decorate, batchifyData, batchify, batchLoop, mkBatch, block, gatherCols, gather]

example : valBlocks 5 2 = [[0, 1], [2, 3], [4]] := by
  simp [valBlocks, batchLoop, List.range, List.range.loop]

example : valBatches ["a", "b", "c"] [[0, 1, 2], [10, 11, 12], [20, 21, 22]] 2
    = [⟨["a", "b"], some [[0, 1], [10, 11]]⟩, ⟨["c"], some [[22]]⟩] := by
  simp [valBatches, valLoop, slice, sliceBlock]

example : fitRun false 3 2 (some 2) (fun i => if i = 0 then [2, 0, 1] else [1, 2, 0])
    = .ok ⟨[[[2, 0], [1]], [[1, 2], [0]]], 4, 2⟩ := by
  have e0 : batchify [2, 0, 1] (some 2) = [[2, 0], [1]] := by simp [batchify, batchLoop]
  have e1 : batchify [1, 2, 0] (some 2) = [[1, 2], [0]] := by simp [batchify, batchLoop]
  simp [fitRun, paramsValid, List.range_succ, e0, e1]

example : fitRun false 3 2 (some 0) (fun _ => [2, 0, 1]) = .error "InvalidParameterError" := by
  simp [fitRun, paramsValid]

end GemVerif.Props.C10
