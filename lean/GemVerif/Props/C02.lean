/-
  C02 — the gradient returned with `return_grad=True` is the exact derivative of the score.
  Property theorems only; helper lemmas live in `GemVerif/Lemmas/GeminiC02.lean`.
-/
import GemVerif.Lemmas.GeminiC02

namespace GemVerif.Props.C02
open scoped BigOperators Topology
open GemVerif Model Spec Filter

variable {n K : ℕ}

set_option linter.unusedSimpArgs false

/-! ### entries clipped at the epsilon bounds receive zero gradient -/

/-- KL (both modes): an entry outside the open clipping window gets gradient 0. -/
theorem klGrad_clipped_zero (ε : ℝ) (ovo : Bool) (P : Fin n → Fin K → ℝ) (i : Fin n) (k : Fin K)
    (h : P i k ≤ ε ∨ 1 - ε ≤ P i k) : klGrad ε ovo P i k = 0 := by
  simp [klGrad, clipMask_of_clipped h]

/-- TV (both modes): an entry outside the open clipping window gets gradient 0. -/
theorem tvGrad_clipped_zero (ε : ℝ) (ovo : Bool) (P : Fin n → Fin K → ℝ) (i : Fin n) (k : Fin K)
    (h : P i k ≤ ε ∨ 1 - ε ≤ P i k) : tvGrad ε ovo P i k = 0 := by
  cases ovo <;> simp [tvGrad, clipMask_of_clipped h]

/-- Hellinger (both modes): an entry outside the open clipping window gets gradient 0. -/
theorem hellingerGrad_clipped_zero (ε : ℝ) (ovo : Bool) (P : Fin n → Fin K → ℝ) (i : Fin n)
    (k : Fin K) (h : P i k ≤ ε ∨ 1 - ε ≤ P i k) : hellingerGrad ε ovo P i k = 0 := by
  cases ovo <;> simp [hellingerGrad, clipMask_of_clipped h]

/-- chi-square (both modes): an entry outside the open clipping window gets gradient 0. -/
theorem chi2Grad_clipped_zero (ε : ℝ) (ovo : Bool) (P : Fin n → Fin K → ℝ) (i : Fin n) (k : Fin K)
    (h : P i k ≤ ε ∨ 1 - ε ≤ P i k) : chi2Grad ε ovo P i k = 0 := by
  cases ovo <;> simp [chi2Grad, clipMask_of_clipped h]

/-- MMD (both modes, any affinity): an entry outside the open clipping window gets gradient 0. -/
theorem mmdGrad_clipped_zero (ε : ℝ) (ovo : Bool) (P : Fin n → Fin K → ℝ) (κ : Fin n → Fin n → ℝ)
    (i : Fin n) (k : Fin K) (h : P i k ≤ ε ∨ 1 - ε ≤ P i k) : mmdGrad ε ovo P κ i k = 0 := by
  cases ovo <;> simp [mmdGrad, clipMask_of_clipped h]

/-- Wasserstein (both modes, whatever `ot.emd2` returns — table form): an entry outside the open
    clipping window gets gradient 0. -/
theorem wassGradT_clipped_zero (pairE : Fin K → Fin K → Emd ℝ n) (unifE : Fin K → Emd ℝ n) (ε : ℝ)
    (ovo : Bool) (P : Fin n → Fin K → ℝ) (i : Fin n) (k : Fin K)
    (h : P i k ≤ ε ∨ 1 - ε ≤ P i k) : wassGradT pairE unifE ε ovo P i k = 0 := by
  cases ovo <;> simp [wassGradT, clipMask_of_clipped h]

/-- Wasserstein (both modes, whatever `ot.emd2` returns — function form): an entry outside the open
    clipping window gets gradient 0. -/
theorem wassGrad_clipped_zero (emd2 : (Fin n → ℝ) → (Fin n → ℝ) → Emd ℝ n) (ε : ℝ)
    (ovo : Bool) (P : Fin n → Fin K → ℝ) (i : Fin n) (k : Fin K)
    (h : P i k ≤ ε ∨ 1 - ε ≤ P i k) : wassGrad emd2 ε ovo P i k = 0 :=
  wassGradT_clipped_zero _ _ ε ovo P i k h

/-! ### the gradient is the derivative of the score along every direction -/

/-- KL one-vs-all (`mi`): at every interior point and along EVERY direction `V` (not only simplex-tangent
    ones) the returned gradient paired with `V` is the derivative of the returned score. -/
theorem kl_ova_hasDerivAt (hn : 0 < n) {ε : ℝ} (hε : 0 < ε) (P : Fin n → Fin K → ℝ) (hI : Interior ε P)
    (V : Fin n → Fin K → ℝ) :
    HasDerivAt (fun t : ℝ => klScore ε false (fun i k => P i k + t * V i k))
      (∑ i, ∑ k, klGrad ε false P i k * V i k) 0 := by
  have hev : (fun t : ℝ => klScore ε false (line P V t)) =ᶠ[𝓝 0] fun t =>
      ∑ k, (∑ i, line P V t i k * Real.log (line P V t i k)) / n
        - ∑ k, Spec.pi (line P V t) k * Real.log (Spec.pi (line P V t) k) :=
    (interior_eventually hI V).mono fun t ht => klScore_ova_interior ht
  refine HasDerivAt.congr_of_eventuallyEq ?_ hev
  have hP : ∀ i k, P i k ≠ 0 := fun i k => (P_pos hε hI i k).ne'
  have hπ : ∀ k, Spec.pi P k ≠ 0 := fun k => (pi_pos hε hn hI k).ne'
  have h1 : ∀ k, HasDerivAt (fun t => (∑ i, line P V t i k * Real.log (line P V t i k)) / n)
      ((∑ i, (V i k * Real.log (P i k) + P i k * (V i k / P i k))) / n) 0 := fun k =>
    (HasDerivAt.fun_sum fun i _ => by
      simpa using (hasDerivAt_line P V i k).fun_mul ((hasDerivAt_line P V i k).log (by simpa using hP i k))).div_const _
  have h2 : ∀ k, HasDerivAt (fun t => Spec.pi (line P V t) k * Real.log (Spec.pi (line P V t) k))
      (Spec.pi V k * Real.log (Spec.pi P k) + Spec.pi P k * (Spec.pi V k / Spec.pi P k)) 0 := fun k => by
    simpa using (hasDerivAt_pi_line P V k).fun_mul ((hasDerivAt_pi_line P V k).log (by simpa using hπ k))
  refine ((HasDerivAt.fun_sum fun k _ => h1 k).fun_sub (HasDerivAt.fun_sum fun k _ => h2 k)).congr_deriv ?_
  simp only [klGrad_ova_interior hI, sub_mul, Finset.sum_sub_distrib, sum_pi_term]
  rw [Finset.sum_comm]
  have e1 : ∀ k, (∑ i, (V i k * Real.log (P i k) + P i k * (V i k / P i k))) / n
      = ∑ i, Real.log (P i k) / n * V i k + Spec.pi V k := fun k => by
    unfold Spec.pi
    rw [Finset.sum_div, Finset.sum_div, ← Finset.sum_add_distrib]
    refine Finset.sum_congr rfl fun i _ => ?_
    have := hP i k
    field_simp
  have e2 : ∀ k, Spec.pi V k * Real.log (Spec.pi P k) + Spec.pi P k * (Spec.pi V k / Spec.pi P k)
      = Real.log (Spec.pi P k) * Spec.pi V k + Spec.pi V k := fun k => by
    have := hπ k
    field_simp
  simp only [e1, e2]
  simp only [Finset.sum_add_distrib]
  ring

/-- KL one-vs-one: the returned gradient is the exact derivative of the score along every direction. -/
theorem kl_ovo_hasDerivAt (hn : 0 < n) {ε : ℝ} (hε : 0 < ε) (P : Fin n → Fin K → ℝ) (hI : Interior ε P)
    (V : Fin n → Fin K → ℝ) :
    HasDerivAt (fun t : ℝ => klScore ε true (fun i k => P i k + t * V i k))
      (∑ i, ∑ k, klGrad ε true P i k * V i k) 0 := by
  have hev : (fun t : ℝ => klScore ε true (line P V t)) =ᶠ[𝓝 0] fun t => _ :=
    (interior_eventually hI V).mono fun t ht => klScore_ovo_interior ht
  refine HasDerivAt.congr_of_eventuallyEq ?_ hev
  have hP : ∀ i k, P i k ≠ 0 := fun i k => (P_pos hε hI i k).ne'
  have h1 : ∀ k, HasDerivAt (fun t => (∑ i, line P V t i k * Real.log (line P V t i k)) / n)
      ((∑ i, (V i k * Real.log (P i k) + P i k * (V i k / P i k))) / n) 0 := fun k =>
    (HasDerivAt.fun_sum fun i _ => by
      simpa using (hasDerivAt_line P V i k).fun_mul ((hasDerivAt_line P V i k).log (by simpa using hP i k))).div_const _
  have h2 : ∀ k, HasDerivAt (fun t => Spec.pi (line P V t) k * ((∑ i, Real.log (line P V t i k)) / n))
      (Spec.pi V k * ((∑ i, Real.log (P i k)) / n) + Spec.pi P k * ((∑ i, V i k / P i k) / n)) 0 := fun k => by
    simpa using (hasDerivAt_pi_line P V k).fun_mul
      ((HasDerivAt.fun_sum fun i _ => (hasDerivAt_line P V i k).log (by simpa using hP i k)).div_const _)
  refine ((HasDerivAt.fun_sum fun k _ => h1 k).fun_sub (HasDerivAt.fun_sum fun k _ => h2 k)).congr_deriv ?_
  simp only [klGrad_ovo_interior hI]
  rw [Finset.sum_comm, ← Finset.sum_sub_distrib]
  refine Finset.sum_congr rfl fun k _ => ?_
  generalize Spec.pi P k = π
  generalize (∑ i, Real.log (P i k)) / n = L
  simp only [Spec.pi, Finset.sum_div, Finset.sum_mul, Finset.mul_sum, ← Finset.sum_add_distrib, ← Finset.sum_sub_distrib]
  refine Finset.sum_congr rfl fun i _ => ?_
  have := hP i k
  field_simp
  ring

/-- chi-square one-vs-all: the returned gradient is the exact derivative of the score along every direction. -/
theorem chi2_ova_hasDerivAt (hn : 0 < n) {ε : ℝ} (hε : 0 < ε) (P : Fin n → Fin K → ℝ) (hI : Interior ε P)
    (V : Fin n → Fin K → ℝ) :
    HasDerivAt (fun t : ℝ => chi2Score ε false (fun i k => P i k + t * V i k))
      (∑ i, ∑ k, chi2Grad ε false P i k * V i k) 0 := by
  have hev : (fun t : ℝ => chi2Score ε false (line P V t)) =ᶠ[𝓝 0] fun t => _ :=
    (interior_eventually hI V).mono fun t ht => chi2Score_ova_interior ht
  refine HasDerivAt.congr_of_eventuallyEq ?_ hev
  have hπ : ∀ k, Spec.pi P k ≠ 0 := fun k => (pi_pos hε hn hI k).ne'
  have h1 : ∀ i k, HasDerivAt (fun t => line P V t i k * (line P V t i k / Spec.pi (line P V t) k))
      (V i k * (P i k / Spec.pi P k)
        + P i k * ((V i k * Spec.pi P k - P i k * Spec.pi V k) / Spec.pi P k ^ 2)) 0 := fun i k => by
    simpa using (hasDerivAt_line P V i k).fun_mul
      ((hasDerivAt_line P V i k).fun_div (hasDerivAt_pi_line P V k) (by simpa using hπ k))
  refine (((HasDerivAt.fun_sum fun i _ => HasDerivAt.fun_sum fun k _ => h1 i k).div_const _).const_mul _).congr_deriv ?_
  rw [grad_sum_split _ (fun i k => P i k / (Spec.pi P k * n))
    (fun k => -(1 / 2) * ((∑ j, (P j k / Spec.pi P k) * (P j k / Spec.pi P k)) / n)) V
    (fun i k => by rw [chi2Grad_ova_interior hI]; ring)]
  rw [Finset.sum_comm]
  simp only [Finset.sum_div, Finset.mul_sum]
  refine Finset.sum_congr rfl fun k _ => ?_
  have := hπ k
  generalize Spec.pi P k = π at *
  generalize Spec.pi V k = w
  simp only [Finset.sum_div, Finset.sum_mul, Finset.mul_sum, ← Finset.sum_add_distrib]
  refine Finset.sum_congr rfl fun i _ => ?_
  field_simp
  ring

/-- chi-square one-vs-one: the returned gradient is the exact derivative of the score along every direction. -/
theorem chi2_ovo_hasDerivAt (hn : 0 < n) {ε : ℝ} (hε : 0 < ε) (P : Fin n → Fin K → ℝ) (hI : Interior ε P)
    (V : Fin n → Fin K → ℝ) :
    HasDerivAt (fun t : ℝ => chi2Score ε true (fun i k => P i k + t * V i k))
      (∑ i, ∑ k, chi2Grad ε true P i k * V i k) 0 := by
  have hev : (fun t : ℝ => chi2Score ε true (line P V t)) =ᶠ[𝓝 0] fun t => _ :=
    (interior_eventually hI V).mono fun t ht => chi2Score_ovo_interior ht
  refine HasDerivAt.congr_of_eventuallyEq ?_ hev
  have hπ : ∀ k, Spec.pi P k ≠ 0 := fun k => (pi_pos hε hn hI k).ne'
  have hP : ∀ i k, P i k ≠ 0 := fun i k => (P_pos hε hI i k).ne'
  have hcw : ∀ i k, HasDerivAt (fun t => line P V t i k / Spec.pi (line P V t) k)
      ((V i k * Spec.pi P k - P i k * Spec.pi V k) / Spec.pi P k ^ 2) 0 := fun i k => by
    simpa using (hasDerivAt_line P V i k).fun_div (hasDerivAt_pi_line P V k) (by simpa using hπ k)
  have h1 : ∀ i k, HasDerivAt (fun t => line P V t i k * (line P V t i k / Spec.pi (line P V t) k))
      (V i k * (P i k / Spec.pi P k)
        + P i k * ((V i k * Spec.pi P k - P i k * Spec.pi V k) / Spec.pi P k ^ 2)) 0 := fun i k => by
    simpa using (hasDerivAt_line P V i k).fun_mul (hcw i k)
  have h2 : ∀ i k, HasDerivAt (fun t => Spec.pi (line P V t) k / (line P V t i k / Spec.pi (line P V t) k))
      ((Spec.pi V k * (P i k / Spec.pi P k)
        - Spec.pi P k * ((V i k * Spec.pi P k - P i k * Spec.pi V k) / Spec.pi P k ^ 2))
          / (P i k / Spec.pi P k) ^ 2) 0 := fun i k => by
    simpa using (hasDerivAt_pi_line P V k).fun_div (hcw i k)
      (by simpa using div_ne_zero (hP i k) (hπ k))
  have h3 := fun i : Fin n => (HasDerivAt.fun_sum (u := Finset.univ) fun k _ => h1 i k).fun_mul
    (HasDerivAt.fun_sum (u := Finset.univ) fun k _ => h2 i k)
  refine (((HasDerivAt.fun_sum fun i _ => h3 i).div_const _).const_mul _).congr_deriv ?_
  simp only [line_zero]
  obtain ⟨al, hal⟩ : ∃ al : Fin n → ℝ, ∀ i, al i = ∑ c, P i c * (P i c / Spec.pi P c) := ⟨_, fun _ => rfl⟩
  obtain ⟨be, hbe⟩ : ∃ be : Fin n → ℝ, ∀ i, be i = ∑ c, Spec.pi P c / (P i c / Spec.pi P c) := ⟨_, fun _ => rfl⟩
  rw [grad_sum_split _ (fun i k => 1 / 2 * ((2 * (be i * (P i k / Spec.pi P k))
      - al i / (P i k / Spec.pi P k) / (P i k / Spec.pi P k)) / n))
    (fun k => 1 / 2 * ((∑ j, (2 * (al j / (P j k / Spec.pi P k))
          - be j * (P j k / Spec.pi P k) * (P j k / Spec.pi P k))) / n)) V
    (fun i k => by rw [chi2Grad_ovo_interior hI]; simp only [← hal, ← hbe]; ring)]
  simp only [← hal, ← hbe]
  simp only [Finset.sum_div, Finset.sum_mul, Finset.mul_sum, ← Finset.sum_add_distrib]
  rw [Finset.sum_comm]
  refine Finset.sum_congr rfl fun k _ => ?_
  have := hπ k
  generalize Spec.pi P k = π at *
  generalize Spec.pi V k = w
  refine Finset.sum_congr rfl fun i _ => ?_
  have := hP i k
  field_simp
  ring

/-- Hellinger one-vs-all: the returned gradient is the exact derivative of the score along every direction. -/
theorem hellinger_ova_hasDerivAt (hn : 0 < n) {ε : ℝ} (hε : 0 < ε) (P : Fin n → Fin K → ℝ) (hI : Interior ε P)
    (V : Fin n → Fin K → ℝ) :
    HasDerivAt (fun t : ℝ => hellingerScore ε false (fun i k => P i k + t * V i k))
      (∑ i, ∑ k, hellingerGrad ε false P i k * V i k) 0 := by
  have hev : (fun t : ℝ => hellingerScore ε false (line P V t)) =ᶠ[𝓝 0] fun t => _ :=
    (interior_eventually hI V).mono fun t ht => hellingerScore_ova_interior ht
  refine HasDerivAt.congr_of_eventuallyEq ?_ hev
  have hπ : ∀ k, 0 < Spec.pi P k := fun k => pi_pos hε hn hI k
  have hP : ∀ i k, 0 < P i k := fun i k => P_pos hε hI i k
  have hs : ∀ i k, Real.sqrt (P i k * Spec.pi P k) ≠ 0 := fun i k =>
    (Real.sqrt_pos.mpr (mul_pos (hP i k) (hπ k))).ne'
  have h1 : ∀ i k, HasDerivAt (fun t => Real.sqrt (line P V t i k * Spec.pi (line P V t) k))
      ((V i k * Spec.pi P k + P i k * Spec.pi V k) / (2 * Real.sqrt (P i k * Spec.pi P k))) 0 := fun i k => by
    simpa using ((hasDerivAt_line P V i k).fun_mul (hasDerivAt_pi_line P V k)).sqrt
      (by simpa using (mul_pos (hP i k) (hπ k)).ne')
  refine (((HasDerivAt.fun_sum fun i _ => HasDerivAt.fun_sum fun k _ => h1 i k).div_const _).const_sub _).congr_deriv ?_
  rw [grad_sum_split _ (fun i k => -(1 / 2) * (Spec.pi P k / Real.sqrt (P i k * Spec.pi P k)) / n)
    (fun k => -(1 / 2) * ((∑ j, P j k / Real.sqrt (P j k * Spec.pi P k)) / n)) V
    (fun i k => by rw [hellingerGrad_ova_interior hI]; ring)]
  rw [Finset.sum_comm]
  simp only [Finset.sum_div, Finset.sum_mul, Finset.mul_sum, ← Finset.sum_add_distrib, ← Finset.sum_neg_distrib]
  refine Finset.sum_congr rfl fun k _ => ?_
  generalize Spec.pi V k = w
  refine Finset.sum_congr rfl fun i _ => ?_
  have := hs i k
  generalize Real.sqrt (P i k * Spec.pi P k) = s at *
  field_simp
  ring

/-- Hellinger one-vs-one: the returned gradient is the exact derivative of the score along every direction. -/
theorem hellinger_ovo_hasDerivAt (hn : 0 < n) {ε : ℝ} (hε : 0 < ε) (P : Fin n → Fin K → ℝ) (hI : Interior ε P)
    (V : Fin n → Fin K → ℝ) :
    HasDerivAt (fun t : ℝ => hellingerScore ε true (fun i k => P i k + t * V i k))
      (∑ i, ∑ k, hellingerGrad ε true P i k * V i k) 0 := by
  have hev : (fun t : ℝ => hellingerScore ε true (line P V t)) =ᶠ[𝓝 0] fun t => _ :=
    (interior_eventually hI V).mono fun t ht => hellingerScore_ovo_interior ht
  refine HasDerivAt.congr_of_eventuallyEq ?_ hev
  have hπ : ∀ k, 0 < Spec.pi P k := fun k => pi_pos hε hn hI k
  have hP : ∀ i k, 0 < P i k := fun i k => P_pos hε hI i k
  have hs : ∀ i k, Real.sqrt (P i k * Spec.pi P k) ≠ 0 := fun i k =>
    (Real.sqrt_pos.mpr (mul_pos (hP i k) (hπ k))).ne'
  have h1 : ∀ i k, HasDerivAt (fun t => Real.sqrt (line P V t i k * Spec.pi (line P V t) k))
      ((V i k * Spec.pi P k + P i k * Spec.pi V k) / (2 * Real.sqrt (P i k * Spec.pi P k))) 0 := fun i k => by
    simpa using ((hasDerivAt_line P V i k).fun_mul (hasDerivAt_pi_line P V k)).sqrt
      (by simpa using (mul_pos (hP i k) (hπ k)).ne')
  have h2 := fun i : Fin n => HasDerivAt.fun_sum (u := Finset.univ) fun k _ => h1 i k
  refine (((HasDerivAt.fun_sum fun i _ => (h2 i).fun_mul (h2 i)).div_const _).const_sub _).congr_deriv ?_
  simp only [line_zero]
  obtain ⟨e, he⟩ : ∃ e : Fin n → ℝ, ∀ i, e i = ∑ c, Real.sqrt (P i c * Spec.pi P c) := ⟨_, fun _ => rfl⟩
  rw [grad_sum_split _ (fun i k => -(Spec.pi P k / Real.sqrt (P i k * Spec.pi P k) * e i) / n)
    (fun k => -((∑ j, P j k / Real.sqrt (P j k * Spec.pi P k) * e j) / n)) V
    (fun i k => by rw [hellingerGrad_ovo_interior hI]; simp only [← he]; ring)]
  simp only [← he]
  simp only [Finset.sum_div, Finset.sum_mul, Finset.mul_sum, ← Finset.sum_add_distrib, ← Finset.sum_neg_distrib]
  rw [Finset.sum_comm]
  refine Finset.sum_congr rfl fun k _ => ?_
  generalize Spec.pi V k = w
  refine Finset.sum_congr rfl fun i _ => ?_
  have := hs i k
  generalize Real.sqrt (P i k * Spec.pi P k) = s at *
  field_simp
  ring

/-- TV one-vs-all: at interior points where no `P i k - π k` vanishes (the score is differentiable there) the
    returned gradient is the exact derivative of the score along every direction. -/
theorem tv_ova_hasDerivAt {ε : ℝ} (P : Fin n → Fin K → ℝ) (hI : Interior ε P)
    (hne : ∀ i k, P i k ≠ Spec.pi P k) (V : Fin n → Fin K → ℝ) :
    HasDerivAt (fun t : ℝ => tvScore ε false (fun i k => P i k + t * V i k))
      (∑ i, ∑ k, tvGrad ε false P i k * V i k) 0 := by
  have hev : (fun t : ℝ => tvScore ε false (line P V t)) =ᶠ[𝓝 0] fun t => _ :=
    (interior_eventually hI V).mono fun t ht => tvScore_ova_interior ht
  refine HasDerivAt.congr_of_eventuallyEq ?_ hev
  have h1 : ∀ i k, HasDerivAt (fun t => |line P V t i k - Spec.pi (line P V t) k|)
      (RealLike.sign (P i k - Spec.pi P k) * (V i k - Spec.pi V k)) 0 := fun i k => by
    simpa using hasDerivAt_abs_sign ((hasDerivAt_line P V i k).fun_sub (hasDerivAt_pi_line P V k))
      (by simpa using sub_ne_zero.mpr (hne i k))
  refine ((HasDerivAt.fun_sum fun k _ => (HasDerivAt.fun_sum fun i _ => h1 i k).div_const _).const_mul _).congr_deriv ?_
  rw [grad_sum_split _ (fun i k => 1 / 2 * (RealLike.sign (P i k - Spec.pi P k) / n))
    (fun k => -(1 / 2) * ((∑ j, RealLike.sign (P j k - Spec.pi P k)) / n)) V
    (fun i k => by rw [tvGrad_ova_interior hI]; ring)]
  rw [Finset.mul_sum]
  refine Finset.sum_congr rfl fun k _ => ?_
  generalize Spec.pi V k = w
  simp only [Finset.sum_div, Finset.sum_mul, Finset.mul_sum, ← Finset.sum_add_distrib]
  refine Finset.sum_congr rfl fun i _ => ?_
  ring

end GemVerif.Props.C02
