/-
  C02 — the gradient returned with `return_grad=True` is the exact derivative of the score.
  Property theorems only; helper lemmas live in `GemVerif/Lemmas/GeminiC02.lean`.
-/
import GemVerif.Lemmas.GeminiC02

namespace GemVerif.Props.C02
open scoped BigOperators Topology
open GemVerif Model Spec Filter

variable {n K : ℕ}

set_option linter.unusedSimpArgs false

/-! ### entries clipped at the epsilon bounds receive zero gradient -/

/-- KL (both modes): an entry outside the open clipping window gets gradient 0. -/
theorem klGrad_clipped_zero (ε : ℝ) (ovo : Bool) (P : Fin n → Fin K → ℝ) (i : Fin n) (k : Fin K)
    (h : P i k ≤ ε ∨ 1 - ε ≤ P i k) : klGrad ε ovo P i k = 0 := by
  simp [klGrad, clipMask_of_clipped h]

/-- TV (both modes): an entry outside the open clipping window gets gradient 0. -/
theorem tvGrad_clipped_zero (ε : ℝ) (ovo : Bool) (P : Fin n → Fin K → ℝ) (i : Fin n) (k : Fin K)
    (h : P i k ≤ ε ∨ 1 - ε ≤ P i k) : tvGrad ε ovo P i k = 0 := by
  cases ovo <;> simp [tvGrad, clipMask_of_clipped h]

/-- Hellinger (both modes): an entry outside the open clipping window gets gradient 0. -/
theorem hellingerGrad_clipped_zero (ε : ℝ) (ovo : Bool) (P : Fin n → Fin K → ℝ) (i : Fin n)
    (k : Fin K) (h : P i k ≤ ε ∨ 1 - ε ≤ P i k) : hellingerGrad ε ovo P i k = 0 := by
  cases ovo <;> simp [hellingerGrad, clipMask_of_clipped h]

/-- chi-square (both modes): an entry outside the open clipping window gets gradient 0. -/
theorem chi2Grad_clipped_zero (ε : ℝ) (ovo : Bool) (P : Fin n → Fin K → ℝ) (i : Fin n) (k : Fin K)
    (h : P i k ≤ ε ∨ 1 - ε ≤ P i k) : chi2Grad ε ovo P i k = 0 := by
  cases ovo <;> simp [chi2Grad, clipMask_of_clipped h]

/-- MMD (both modes, any affinity): an entry outside the open clipping window gets gradient 0. -/
theorem mmdGrad_clipped_zero (ε : ℝ) (ovo : Bool) (P : Fin n → Fin K → ℝ) (κ : Fin n → Fin n → ℝ)
    (i : Fin n) (k : Fin K) (h : P i k ≤ ε ∨ 1 - ε ≤ P i k) : mmdGrad ε ovo P κ i k = 0 := by
  cases ovo <;> simp [mmdGrad, clipMask_of_clipped h]

/-- Wasserstein (both modes, whatever `ot.emd2` returns — table form): an entry outside the open
    clipping window gets gradient 0. -/
theorem wassGradT_clipped_zero (pairE : Fin K → Fin K → Emd ℝ n) (unifE : Fin K → Emd ℝ n) (ε : ℝ)
    (ovo : Bool) (P : Fin n → Fin K → ℝ) (i : Fin n) (k : Fin K)
    (h : P i k ≤ ε ∨ 1 - ε ≤ P i k) : wassGradT pairE unifE ε ovo P i k = 0 := by
  cases ovo <;> simp [wassGradT, clipMask_of_clipped h]

/-- Wasserstein (both modes, whatever `ot.emd2` returns — function form): an entry outside the open
    clipping window gets gradient 0. -/
theorem wassGrad_clipped_zero (emd2 : (Fin n → ℝ) → (Fin n → ℝ) → Emd ℝ n) (ε : ℝ)
    (ovo : Bool) (P : Fin n → Fin K → ℝ) (i : Fin n) (k : Fin K)
    (h : P i k ≤ ε ∨ 1 - ε ≤ P i k) : wassGrad emd2 ε ovo P i k = 0 :=
  wassGradT_clipped_zero _ _ ε ovo P i k h

/-! ### the gradient is the derivative of the score along every direction -/

/-- KL one-vs-all (`mi`): at every interior point and along EVERY direction `V` (not only simplex-tangent
    ones) the returned gradient paired with `V` is the derivative of the returned score. -/
theorem kl_ova_hasDerivAt (hn : 0 < n) {ε : ℝ} (hε : 0 < ε) (P : Fin n → Fin K → ℝ) (hI : Interior ε P)
    (V : Fin n → Fin K → ℝ) :
    HasDerivAt (fun t : ℝ => klScore ε false (fun i k => P i k + t * V i k))
      (∑ i, ∑ k, klGrad ε false P i k * V i k) 0 := by
  have hev : (fun t : ℝ => klScore ε false (line P V t)) =ᶠ[𝓝 0] fun t =>
      ∑ k, (∑ i, line P V t i k * Real.log (line P V t i k)) / n
        - ∑ k, Spec.pi (line P V t) k * Real.log (Spec.pi (line P V t) k) :=
    (interior_eventually hI V).mono fun t ht => klScore_ova_interior ht
  refine HasDerivAt.congr_of_eventuallyEq ?_ hev
  have hP : ∀ i k, P i k ≠ 0 := fun i k => (P_pos hε hI i k).ne'
  have hπ : ∀ k, Spec.pi P k ≠ 0 := fun k => (pi_pos hε hn hI k).ne'
  have h1 : ∀ k, HasDerivAt (fun t => (∑ i, line P V t i k * Real.log (line P V t i k)) / n)
      ((∑ i, (V i k * Real.log (P i k) + P i k * (V i k / P i k))) / n) 0 := fun k =>
    (HasDerivAt.fun_sum fun i _ => by
      simpa using (hasDerivAt_line P V i k).fun_mul ((hasDerivAt_line P V i k).log (by simpa using hP i k))).div_const _
  have h2 : ∀ k, HasDerivAt (fun t => Spec.pi (line P V t) k * Real.log (Spec.pi (line P V t) k))
      (Spec.pi V k * Real.log (Spec.pi P k) + Spec.pi P k * (Spec.pi V k / Spec.pi P k)) 0 := fun k => by
    simpa using (hasDerivAt_pi_line P V k).fun_mul ((hasDerivAt_pi_line P V k).log (by simpa using hπ k))
  refine ((HasDerivAt.fun_sum fun k _ => h1 k).fun_sub (HasDerivAt.fun_sum fun k _ => h2 k)).congr_deriv ?_
  simp only [klGrad_ova_interior hI, sub_mul, Finset.sum_sub_distrib, sum_pi_term]
  rw [Finset.sum_comm]
  have e1 : ∀ k, (∑ i, (V i k * Real.log (P i k) + P i k * (V i k / P i k))) / n
      = ∑ i, Real.log (P i k) / n * V i k + Spec.pi V k := fun k => by
    unfold Spec.pi
    rw [Finset.sum_div, Finset.sum_div, ← Finset.sum_add_distrib]
    refine Finset.sum_congr rfl fun i _ => ?_
    have := hP i k
    field_simp
  have e2 : ∀ k, Spec.pi V k * Real.log (Spec.pi P k) + Spec.pi P k * (Spec.pi V k / Spec.pi P k)
      = Real.log (Spec.pi P k) * Spec.pi V k + Spec.pi V k := fun k => by
    have := hπ k
    field_simp
  simp only [e1, e2]
  simp only [Finset.sum_add_distrib]
  ring

/-- KL one-vs-one: the returned gradient is the exact derivative of the score along every direction. -/
theorem kl_ovo_hasDerivAt (hn : 0 < n) {ε : ℝ} (hε : 0 < ε) (P : Fin n → Fin K → ℝ) (hI : Interior ε P)
    (V : Fin n → Fin K → ℝ) :
    HasDerivAt (fun t : ℝ => klScore ε true (fun i k => P i k + t * V i k))
      (∑ i, ∑ k, klGrad ε true P i k * V i k) 0 := by
  have hev : (fun t : ℝ => klScore ε true (line P V t)) =ᶠ[𝓝 0] fun t => _ :=
    (interior_eventually hI V).mono fun t ht => klScore_ovo_interior ht
  refine HasDerivAt.congr_of_eventuallyEq ?_ hev
  have hP : ∀ i k, P i k ≠ 0 := fun i k => (P_pos hε hI i k).ne'
  have h1 : ∀ k, HasDerivAt (fun t => (∑ i, line P V t i k * Real.log (line P V t i k)) / n)
      ((∑ i, (V i k * Real.log (P i k) + P i k * (V i k / P i k))) / n) 0 := fun k =>
    (HasDerivAt.fun_sum fun i _ => by
      simpa using (hasDerivAt_line P V i k).fun_mul ((hasDerivAt_line P V i k).log (by simpa using hP i k))).div_const _
  have h2 : ∀ k, HasDerivAt (fun t => Spec.pi (line P V t) k * ((∑ i, Real.log (line P V t i k)) / n))
      (Spec.pi V k * ((∑ i, Real.log (P i k)) / n) + Spec.pi P k * ((∑ i, V i k / P i k) / n)) 0 := fun k => by
    simpa using (hasDerivAt_pi_line P V k).fun_mul
      ((HasDerivAt.fun_sum fun i _ => (hasDerivAt_line P V i k).log (by simpa using hP i k)).div_const _)
  refine ((HasDerivAt.fun_sum fun k _ => h1 k).fun_sub (HasDerivAt.fun_sum fun k _ => h2 k)).congr_deriv ?_
  simp only [klGrad_ovo_interior hI]
  rw [Finset.sum_comm, ← Finset.sum_sub_distrib]
  refine Finset.sum_congr rfl fun k _ => ?_
  generalize Spec.pi P k = π
  generalize (∑ i, Real.log (P i k)) / n = L
  simp only [Spec.pi, Finset.sum_div, Finset.sum_mul, Finset.mul_sum, ← Finset.sum_add_distrib, ← Finset.sum_sub_distrib]
  refine Finset.sum_congr rfl fun i _ => ?_
  have := hP i k
  field_simp
  ring

/-- chi-square one-vs-all: the returned gradient is the exact derivative of the score along every direction. -/
theorem chi2_ova_hasDerivAt (hn : 0 < n) {ε : ℝ} (hε : 0 < ε) (P : Fin n → Fin K → ℝ) (hI : Interior ε P)
    (V : Fin n → Fin K → ℝ) :
    HasDerivAt (fun t : ℝ => chi2Score ε false (fun i k => P i k + t * V i k))
      (∑ i, ∑ k, chi2Grad ε false P i k * V i k) 0 := by
  have hev : (fun t : ℝ => chi2Score ε false (line P V t)) =ᶠ[𝓝 0] fun t => _ :=
    (interior_eventually hI V).mono fun t ht => chi2Score_ova_interior ht
  refine HasDerivAt.congr_of_eventuallyEq ?_ hev
  have hπ : ∀ k, Spec.pi P k ≠ 0 := fun k => (pi_pos hε hn hI k).ne'
  have h1 : ∀ i k, HasDerivAt (fun t => line P V t i k * (line P V t i k / Spec.pi (line P V t) k))
      (V i k * (P i k / Spec.pi P k)
        + P i k * ((V i k * Spec.pi P k - P i k * Spec.pi V k) / Spec.pi P k ^ 2)) 0 := fun i k => by
    simpa using (hasDerivAt_line P V i k).fun_mul
      ((hasDerivAt_line P V i k).fun_div (hasDerivAt_pi_line P V k) (by simpa using hπ k))
  refine (((HasDerivAt.fun_sum fun i _ => HasDerivAt.fun_sum fun k _ => h1 i k).div_const _).const_mul _).congr_deriv ?_
  rw [grad_sum_split _ (fun i k => P i k / (Spec.pi P k * n))
    (fun k => -(1 / 2) * ((∑ j, (P j k / Spec.pi P k) * (P j k / Spec.pi P k)) / n)) V
    (fun i k => by rw [chi2Grad_ova_interior hI]; ring)]
  rw [Finset.sum_comm]
  simp only [Finset.sum_div, Finset.mul_sum]
  refine Finset.sum_congr rfl fun k _ => ?_
  have := hπ k
  generalize Spec.pi P k = π at *
  generalize Spec.pi V k = w
  simp only [Finset.sum_div, Finset.sum_mul, Finset.mul_sum, ← Finset.sum_add_distrib]
  refine Finset.sum_congr rfl fun i _ => ?_
  field_simp
  ring

/-- chi-square one-vs-one: the returned gradient is the exact derivative of the score along every direction. -/
theorem chi2_ovo_hasDerivAt (hn : 0 < n) {ε : ℝ} (hε : 0 < ε) (P : Fin n → Fin K → ℝ) (hI : Interior ε P)
    (V : Fin n → Fin K → ℝ) :
    HasDerivAt (fun t : ℝ => chi2Score ε true (fun i k => P i k + t * V i k))
      (∑ i, ∑ k, chi2Grad ε true P i k * V i k) 0 := by
  have hev : (fun t : ℝ => chi2Score ε true (line P V t)) =ᶠ[𝓝 0] fun t => _ :=
    (interior_eventually hI V).mono fun t ht => chi2Score_ovo_interior ht
  refine HasDerivAt.congr_of_eventuallyEq ?_ hev
  have hπ : ∀ k, Spec.pi P k ≠ 0 := fun k => (pi_pos hε hn hI k).ne'
  have hP : ∀ i k, P i k ≠ 0 := fun i k => (P_pos hε hI i k).ne'
  have hcw : ∀ i k, HasDerivAt (fun t => line P V t i k / Spec.pi (line P V t) k)
      ((V i k * Spec.pi P k - P i k * Spec.pi V k) / Spec.pi P k ^ 2) 0 := fun i k => by
    simpa using (hasDerivAt_line P V i k).fun_div (hasDerivAt_pi_line P V k) (by simpa using hπ k)
  have h1 : ∀ i k, HasDerivAt (fun t => line P V t i k * (line P V t i k / Spec.pi (line P V t) k))
      (V i k * (P i k / Spec.pi P k)
        + P i k * ((V i k * Spec.pi P k - P i k * Spec.pi V k) / Spec.pi P k ^ 2)) 0 := fun i k => by
    simpa using (hasDerivAt_line P V i k).fun_mul (hcw i k)
  have h2 : ∀ i k, HasDerivAt (fun t => Spec.pi (line P V t) k / (line P V t i k / Spec.pi (line P V t) k))
      ((Spec.pi V k * (P i k / Spec.pi P k)
        - Spec.pi P k * ((V i k * Spec.pi P k - P i k * Spec.pi V k) / Spec.pi P k ^ 2))
          / (P i k / Spec.pi P k) ^ 2) 0 := fun i k => by
    simpa using (hasDerivAt_pi_line P V k).fun_div (hcw i k)
      (by simpa using div_ne_zero (hP i k) (hπ k))
  have h3 := fun i : Fin n => (HasDerivAt.fun_sum (u := Finset.univ) fun k _ => h1 i k).fun_mul
    (HasDerivAt.fun_sum (u := Finset.univ) fun k _ => h2 i k)
  refine (((HasDerivAt.fun_sum fun i _ => h3 i).div_const _).const_mul _).congr_deriv ?_
  simp only [line_zero]
  obtain ⟨al, hal⟩ : ∃ al : Fin n → ℝ, ∀ i, al i = ∑ c, P i c * (P i c / Spec.pi P c) := ⟨_, fun _ => rfl⟩
  obtain ⟨be, hbe⟩ : ∃ be : Fin n → ℝ, ∀ i, be i = ∑ c, Spec.pi P c / (P i c / Spec.pi P c) := ⟨_, fun _ => rfl⟩
  rw [grad_sum_split _ (fun i k => 1 / 2 * ((2 * (be i * (P i k / Spec.pi P k))
      - al i / (P i k / Spec.pi P k) / (P i k / Spec.pi P k)) / n))
    (fun k => 1 / 2 * ((∑ j, (2 * (al j / (P j k / Spec.pi P k))
          - be j * (P j k / Spec.pi P k) * (P j k / Spec.pi P k))) / n)) V
    (fun i k => by rw [chi2Grad_ovo_interior hI]; simp only [← hal, ← hbe]; ring)]
  simp only [← hal, ← hbe]
  simp only [Finset.sum_div, Finset.sum_mul, Finset.mul_sum, ← Finset.sum_add_distrib]
  rw [Finset.sum_comm]
  refine Finset.sum_congr rfl fun k _ => ?_
  have := hπ k
  generalize Spec.pi P k = π at *
  generalize Spec.pi V k = w
  refine Finset.sum_congr rfl fun i _ => ?_
  have := hP i k
  field_simp
  ring

/-- Hellinger one-vs-all: the returned gradient is the exact derivative of the score along every direction. -/
theorem hellinger_ova_hasDerivAt (hn : 0 < n) {ε : ℝ} (hε : 0 < ε) (P : Fin n → Fin K → ℝ) (hI : Interior ε P)
    (V : Fin n → Fin K → ℝ) :
    HasDerivAt (fun t : ℝ => hellingerScore ε false (fun i k => P i k + t * V i k))
      (∑ i, ∑ k, hellingerGrad ε false P i k * V i k) 0 := by
  have hev : (fun t : ℝ => hellingerScore ε false (line P V t)) =ᶠ[𝓝 0] fun t => _ :=
    (interior_eventually hI V).mono fun t ht => hellingerScore_ova_interior ht
  refine HasDerivAt.congr_of_eventuallyEq ?_ hev
  have hπ : ∀ k, 0 < Spec.pi P k := fun k => pi_pos hε hn hI k
  have hP : ∀ i k, 0 < P i k := fun i k => P_pos hε hI i k
  have hs : ∀ i k, Real.sqrt (P i k * Spec.pi P k) ≠ 0 := fun i k =>
    (Real.sqrt_pos.mpr (mul_pos (hP i k) (hπ k))).ne'
  have h1 : ∀ i k, HasDerivAt (fun t => Real.sqrt (line P V t i k * Spec.pi (line P V t) k))
      ((V i k * Spec.pi P k + P i k * Spec.pi V k) / (2 * Real.sqrt (P i k * Spec.pi P k))) 0 := fun i k => by
    simpa using ((hasDerivAt_line P V i k).fun_mul (hasDerivAt_pi_line P V k)).sqrt
      (by simpa using (mul_pos (hP i k) (hπ k)).ne')
  refine (((HasDerivAt.fun_sum fun i _ => HasDerivAt.fun_sum fun k _ => h1 i k).div_const _).const_sub _).congr_deriv ?_
  rw [grad_sum_split _ (fun i k => -(1 / 2) * (Spec.pi P k / Real.sqrt (P i k * Spec.pi P k)) / n)
    (fun k => -(1 / 2) * ((∑ j, P j k / Real.sqrt (P j k * Spec.pi P k)) / n)) V
    (fun i k => by rw [hellingerGrad_ova_interior hI]; ring)]
  rw [Finset.sum_comm]
  simp only [Finset.sum_div, Finset.sum_mul, Finset.mul_sum, ← Finset.sum_add_distrib, ← Finset.sum_neg_distrib]
  refine Finset.sum_congr rfl fun k _ => ?_
  generalize Spec.pi V k = w
  refine Finset.sum_congr rfl fun i _ => ?_
  have := hs i k
  generalize Real.sqrt (P i k * Spec.pi P k) = s at *
  field_simp
  ring

/-- Hellinger one-vs-one: the returned gradient is the exact derivative of the score along every direction. -/
theorem hellinger_ovo_hasDerivAt (hn : 0 < n) {ε : ℝ} (hε : 0 < ε) (P : Fin n → Fin K → ℝ) (hI : Interior ε P)
    (V : Fin n → Fin K → ℝ) :
    HasDerivAt (fun t : ℝ => hellingerScore ε true (fun i k => P i k + t * V i k))
      (∑ i, ∑ k, hellingerGrad ε true P i k * V i k) 0 := by
  have hev : (fun t : ℝ => hellingerScore ε true (line P V t)) =ᶠ[𝓝 0] fun t => _ :=
    (interior_eventually hI V).mono fun t ht => hellingerScore_ovo_interior ht
  refine HasDerivAt.congr_of_eventuallyEq ?_ hev
  have hπ : ∀ k, 0 < Spec.pi P k := fun k => pi_pos hε hn hI k
  have hP : ∀ i k, 0 < P i k := fun i k => P_pos hε hI i k
  have hs : ∀ i k, Real.sqrt (P i k * Spec.pi P k) ≠ 0 := fun i k =>
    (Real.sqrt_pos.mpr (mul_pos (hP i k) (hπ k))).ne'
  have h1 : ∀ i k, HasDerivAt (fun t => Real.sqrt (line P V t i k * Spec.pi (line P V t) k))
      ((V i k * Spec.pi P k + P i k * Spec.pi V k) / (2 * Real.sqrt (P i k * Spec.pi P k))) 0 := fun i k => by
    simpa using ((hasDerivAt_line P V i k).fun_mul (hasDerivAt_pi_line P V k)).sqrt
      (by simpa using (mul_pos (hP i k) (hπ k)).ne')
  have h2 := fun i : Fin n => HasDerivAt.fun_sum (u := Finset.univ) fun k _ => h1 i k
  refine (((HasDerivAt.fun_sum fun i _ => (h2 i).fun_mul (h2 i)).div_const _).const_sub _).congr_deriv ?_
  simp only [line_zero]
  obtain ⟨e, he⟩ : ∃ e : Fin n → ℝ, ∀ i, e i = ∑ c, Real.sqrt (P i c * Spec.pi P c) := ⟨_, fun _ => rfl⟩
  rw [grad_sum_split _ (fun i k => -(Spec.pi P k / Real.sqrt (P i k * Spec.pi P k) * e i) / n)
    (fun k => -((∑ j, P j k / Real.sqrt (P j k * Spec.pi P k) * e j) / n)) V
    (fun i k => by rw [hellingerGrad_ovo_interior hI]; simp only [← he]; ring)]
  simp only [← he]
  simp only [Finset.sum_div, Finset.sum_mul, Finset.mul_sum, ← Finset.sum_add_distrib, ← Finset.sum_neg_distrib]
  rw [Finset.sum_comm]
  refine Finset.sum_congr rfl fun k _ => ?_
  generalize Spec.pi V k = w
  refine Finset.sum_congr rfl fun i _ => ?_
  have := hs i k
  generalize Real.sqrt (P i k * Spec.pi P k) = s at *
  field_simp
  ring

/-- TV one-vs-all: at interior points where no `P i k - π k` vanishes (the score is differentiable there) the
    returned gradient is the exact derivative of the score along every direction. -/
theorem tv_ova_hasDerivAt {ε : ℝ} (P : Fin n → Fin K → ℝ) (hI : Interior ε P)
    (hne : ∀ i k, P i k ≠ Spec.pi P k) (V : Fin n → Fin K → ℝ) :
    HasDerivAt (fun t : ℝ => tvScore ε false (fun i k => P i k + t * V i k))
      (∑ i, ∑ k, tvGrad ε false P i k * V i k) 0 := by
  have hev : (fun t : ℝ => tvScore ε false (line P V t)) =ᶠ[𝓝 0] fun t => _ :=
    (interior_eventually hI V).mono fun t ht => tvScore_ova_interior ht
  refine HasDerivAt.congr_of_eventuallyEq ?_ hev
  have h1 : ∀ i k, HasDerivAt (fun t => |line P V t i k - Spec.pi (line P V t) k|)
      (RealLike.sign (P i k - Spec.pi P k) * (V i k - Spec.pi V k)) 0 := fun i k => by
    simpa using hasDerivAt_abs_sign ((hasDerivAt_line P V i k).fun_sub (hasDerivAt_pi_line P V k))
      (by simpa using sub_ne_zero.mpr (hne i k))
  refine ((HasDerivAt.fun_sum fun k _ => (HasDerivAt.fun_sum fun i _ => h1 i k).div_const _).const_mul _).congr_deriv ?_
  rw [grad_sum_split _ (fun i k => 1 / 2 * (RealLike.sign (P i k - Spec.pi P k) / n))
    (fun k => -(1 / 2) * ((∑ j, RealLike.sign (P j k - Spec.pi P k)) / n)) V
    (fun i k => by rw [tvGrad_ova_interior hI]; ring)]
  rw [Finset.mul_sum]
  refine Finset.sum_congr rfl fun k _ => ?_
  generalize Spec.pi V k = w
  simp only [Finset.sum_div, Finset.sum_mul, Finset.mul_sum, ← Finset.sum_add_distrib]
  refine Finset.sum_congr rfl fun i _ => ?_
  ring

/- the hypotheses of `tv_ova_hasDerivAt` are satisfiable (a 2×2 point of the simplex) -/
example : ∃ P : Fin 2 → Fin 2 → ℝ, Interior (1 / 10) P ∧ ∀ i k, P i k ≠ Spec.pi P k :=
  ⟨exP, exP_interior, exP_tv_ova⟩

/-- MMD one-vs-all with a symmetric affinity: at interior points where every distance `delta[k]` is
    positive (the score is differentiable there) the returned gradient is the exact derivative of the
    score along every direction. -/
theorem mmd_ova_hasDerivAt (hn : 0 < n) {ε : ℝ} (hε : 0 < ε) (P : Fin n → Fin K → ℝ) (hI : Interior ε P)
    (κ : Fin n → Fin n → ℝ) (hκ : ∀ i j, κ i j = κ j i) (hδ : ∀ k, 0 < mmdDeltaOva ε P κ k)
    (V : Fin n → Fin K → ℝ) :
    HasDerivAt (fun t : ℝ => mmdScore ε false (fun i k => P i k + t * V i k) κ)
      (∑ i, ∑ k, mmdGrad ε false P κ i k * V i k) 0 := by
  have hev : (fun t : ℝ => mmdScore ε false (line P V t) κ) =ᶠ[𝓝 0] fun t => _ :=
    (interior_eventually hI V).mono fun t ht => mmdScore_ova_interior ht κ
  refine HasDerivAt.congr_of_eventuallyEq ?_ hev
  have hπ : ∀ k, Spec.pi P k ≠ 0 := fun k => (pi_pos hε hn hI k).ne'
  set q : Fin n → Fin n → ℝ := fun i j => κ i j / (n * n) with hq
  have hqs : ∀ i j, q i j = q j i := fun i j => by simp only [hq, hκ i j]
  have hrad : ∀ k, 0 < quadForm q (fun i => P i k / Spec.pi P k) := fun k => by
    have h := hδ k
    rw [mmdDeltaOva_interior hI, Real.sqrt_pos] at h
    exact lt_max_iff.mp h |>.resolve_right (lt_irrefl _)
  have hcw : ∀ i k, HasDerivAt (fun t => line P V t i k / Spec.pi (line P V t) k)
      ((V i k * Spec.pi P k - P i k * Spec.pi V k) / Spec.pi P k ^ 2) 0 := fun i k => by
    simpa using (hasDerivAt_line P V i k).fun_div (hasDerivAt_pi_line P V k) (by simpa using hπ k)
  have h1 : ∀ k, HasDerivAt (fun t => Spec.pi (line P V t) k
        * Real.sqrt (max (quadForm q (fun i => line P V t i k / Spec.pi (line P V t) k)) 0))
      (Spec.pi V k * mmdDeltaOva ε P κ k + Spec.pi P k *
        ((2 * ∑ i, (V i k * Spec.pi P k - P i k * Spec.pi V k) / Spec.pi P k ^ 2
            * ∑ j, q i j * (P j k / Spec.pi P k - 1)) / (2 * mmdDeltaOva ε P κ k))) 0 := fun k => by
    have h := hasDerivAt_max_zero (quadForm_hasDerivAt hqs (fun i => hcw i k)) (by simpa using hrad k)
    have h' := (hasDerivAt_pi_line P V k).fun_mul (h.sqrt (by simpa only [line_zero] using (lt_max_of_lt_left (hrad k)).ne'))
    simpa [mmdDeltaOva_interior hI] using h'
  refine (HasDerivAt.fun_sum fun k _ => h1 k).congr_deriv ?_
  rw [grad_sum_split _ (fun i k => (∑ j, q i j * (P j k / Spec.pi P k - 1)) / mmdDeltaOva ε P κ k)
    (fun k => -(∑ l, ∑ j, q l j * (P j k / Spec.pi P k - 1)) / mmdDeltaOva ε P κ k) V
    (fun i k => by rw [mmdGrad_ova_interior hI κ i k (hδ k).ne']; ring)]
  refine Finset.sum_congr rfl fun k _ => ?_
  have hd2 : mmdDeltaOva ε P κ k * mmdDeltaOva ε P κ k
      = ∑ i, (P i k / Spec.pi P k - 1) * ∑ j, q i j * (P j k / Spec.pi P k - 1) := by
    rw [mmdDeltaOva_interior hI, Real.mul_self_sqrt (le_max_right _ _), max_eq_left (hrad k).le,
      quadForm_eq hqs]
  have hd0 := (hδ k).ne'
  have := hπ k
  generalize mmdDeltaOva ε P κ k = δ at *
  obtain ⟨m, hm⟩ : ∃ m : Fin n → ℝ, ∀ i, m i = ∑ j, q i j * (P j k / Spec.pi P k - 1) := ⟨_, fun _ => rfl⟩
  simp only [← hm] at hd2 ⊢
  generalize Spec.pi P k = π at *
  generalize Spec.pi V k = w
  have e1 : ∑ i, (V i k * π - P i k * w) / π ^ 2 * m i
      = (∑ i, V i k * m i) / π - w * (∑ i, P i k * m i) / π ^ 2 := by
    rw [Finset.mul_sum, Finset.sum_div, Finset.sum_div, ← Finset.sum_sub_distrib]
    refine Finset.sum_congr rfl fun i _ => ?_
    field_simp
  have e2 : ∑ i, (P i k / π - 1) * m i = (∑ i, P i k * m i) / π - ∑ i, m i := by
    rw [Finset.sum_div, ← Finset.sum_sub_distrib]
    refine Finset.sum_congr rfl fun i _ => ?_
    field_simp
  have e3 : ∑ i, m i / δ * V i k = (∑ i, V i k * m i) / δ := by
    rw [Finset.sum_div]
    refine Finset.sum_congr rfl fun i _ => ?_
    ring
  rw [e1, e3]; rw [e2] at hd2
  generalize (∑ i, V i k * m i) = S1 at *
  generalize (∑ i, P i k * m i) = S2 at *
  generalize (∑ i, m i) = S3 at *
  field_simp
  have hd2' : δ ^ 2 * π = S2 - S3 * π := by
    have := hd2; field_simp at this; linarith
  linear_combination w * hd2'

/- the hypotheses of `mmd_ova_hasDerivAt` are satisfiable (identity affinity) -/
example : ∃ (P : Fin 2 → Fin 2 → ℝ) (κ : Fin 2 → Fin 2 → ℝ), Interior (1 / 10) P ∧ (∀ i j, κ i j = κ j i) ∧
    ∀ k, 0 < mmdDeltaOva (1 / 10) P κ k :=
  ⟨exP, exK, exP_interior, exK_symm, exP_mmd_ova⟩

/-- TV one-vs-one: at interior points where no off-diagonal difference `π_a P_ib - π_b P_ia` vanishes
    (the score is differentiable there; the diagonal differences are identically 0 and contribute
    nothing) the returned gradient is the exact derivative of the score along every direction. -/
theorem tv_ovo_hasDerivAt {ε : ℝ} (P : Fin n → Fin K → ℝ) (hI : Interior ε P)
    (hne : ∀ i a b, a ≠ b → Spec.pi P a * P i b ≠ Spec.pi P b * P i a) (V : Fin n → Fin K → ℝ) :
    HasDerivAt (fun t : ℝ => tvScore ε true (fun i k => P i k + t * V i k))
      (∑ i, ∑ k, tvGrad ε true P i k * V i k) 0 := by
  have hev : (fun t : ℝ => tvScore ε true (line P V t)) =ᶠ[𝓝 0] fun t => _ :=
    (interior_eventually hI V).mono fun t ht => tvScore_ovo_interior ht
  refine HasDerivAt.congr_of_eventuallyEq ?_ hev
  have h1 : ∀ i a b, HasDerivAt
      (fun t => |Spec.pi (line P V t) a * line P V t i b - Spec.pi (line P V t) b * line P V t i a|)
      (tvSign P i a b * (Spec.pi V a * P i b + Spec.pi P a * V i b
        - (Spec.pi V b * P i a + Spec.pi P b * V i a))) 0 := fun i a b => by
    by_cases hab : a = b
    · subst hab
      simp only [sub_self, abs_zero, tvSign, RealLike.sign, RealLike.lt_real, lt_self_iff_false,
        decide_false, Bool.false_eq_true, if_false, zero_mul]
      exact hasDerivAt_const _ _
    · simpa [tvSign] using hasDerivAt_abs_sign
        (((hasDerivAt_pi_line P V a).fun_mul (hasDerivAt_line P V i b)).fun_sub
          ((hasDerivAt_pi_line P V b).fun_mul (hasDerivAt_line P V i a)))
        (by simpa using sub_ne_zero.mpr (hne i a b hab))
  refine ((HasDerivAt.fun_sum fun a _ => HasDerivAt.fun_sum fun b _ =>
    (HasDerivAt.fun_sum fun i _ => h1 i a b).div_const _).const_mul _).congr_deriv ?_
  rw [tv_ovo_algebra]
  refine (grad_sum_split _ _ _ V fun i k => ?_).symm
  rw [tvGrad_ovo_interior hI]
  have e1 : ∑ a, Spec.pi P a * (tvSign P i a k / n - tvSign P i k a / n)
      = (∑ a, Spec.pi P a * (tvSign P i a k - tvSign P i k a)) / n := by
    rw [Finset.sum_div]; exact Finset.sum_congr rfl fun a _ => by ring
  have e2 : ∑ j, ∑ b, (tvSign P j k b / n - tvSign P j b k / n) * P j b
      = -(∑ j, ∑ a, P j a * (tvSign P j a k - tvSign P j k a)) / n := by
    rw [← Finset.sum_neg_distrib, Finset.sum_div]
    refine Finset.sum_congr rfl fun j _ => ?_
    rw [← Finset.sum_neg_distrib, Finset.sum_div]
    exact Finset.sum_congr rfl fun a _ => by ring
  rw [e1, e2]
  ring

/- the hypotheses of `tv_ovo_hasDerivAt` are satisfiable -/
example : ∃ P : Fin 2 → Fin 2 → ℝ, Interior (1 / 10) P ∧
    ∀ i a b, a ≠ b → Spec.pi P a * P i b ≠ Spec.pi P b * P i a :=
  ⟨exP, exP_interior, exP_tv_ovo⟩

/-- MMD one-vs-one with a symmetric affinity: at interior points where every off-diagonal distance
    `delta[a,b]` is positive (the score is differentiable there; the diagonal distances are identically 0
    and contribute nothing) the returned gradient is the exact derivative of the score along every
    direction. -/
theorem mmd_ovo_hasDerivAt (hn : 0 < n) {ε : ℝ} (hε : 0 < ε) (P : Fin n → Fin K → ℝ) (hI : Interior ε P)
    (κ : Fin n → Fin n → ℝ) (hκ : ∀ i j, κ i j = κ j i)
    (hδ : ∀ a b, a ≠ b → 0 < mmdDeltaOvo ε P κ a b) (V : Fin n → Fin K → ℝ) :
    HasDerivAt (fun t : ℝ => mmdScore ε true (fun i k => P i k + t * V i k) κ)
      (∑ i, ∑ k, mmdGrad ε true P κ i k * V i k) 0 := by
  have hev : (fun t : ℝ => mmdScore ε true (line P V t) κ) =ᶠ[𝓝 0] fun t => _ :=
    (interior_eventually hI V).mono fun t ht => mmdScore_ovo_interior ht κ
  refine HasDerivAt.congr_of_eventuallyEq ?_ hev
  have hπ : ∀ k, Spec.pi P k ≠ 0 := fun k => (pi_pos hε hn hI k).ne'
  set q : Fin n → Fin n → ℝ := fun i j => κ i j / (n * n) with hq
  have hqs : ∀ i j, q i j = q j i := fun i j => by simp only [hq, hκ i j]
  have hrad : ∀ a b, a ≠ b → 0 < radOvo q (fun k i => P i k / Spec.pi P k) a b := fun a b hab => by
    have h := hδ a b hab
    rw [mmdDeltaOvo_interior hI, Real.sqrt_pos] at h
    exact lt_max_iff.mp h |>.resolve_right (lt_irrefl _)
  have hcw : ∀ k i, HasDerivAt (fun t => line P V t i k / Spec.pi (line P V t) k)
      ((V i k * Spec.pi P k - P i k * Spec.pi V k) / Spec.pi P k ^ 2) 0 := fun k i => by
    simpa using (hasDerivAt_line P V i k).fun_div (hasDerivAt_pi_line P V k) (by simpa using hπ k)
  have h1 : ∀ a b, HasDerivAt (fun t => Spec.pi (line P V t) a
        * Real.sqrt (max (radOvo q (fun k i => line P V t i k / Spec.pi (line P V t) k) a b) 0))
      (Spec.pi V a * mmdDeltaOvo ε P κ a b + Spec.pi P a * (if a = b then 0 else
        (2 * ∑ i, ((V i a * Spec.pi P a - P i a * Spec.pi V a) / Spec.pi P a ^ 2
            - (V i b * Spec.pi P b - P i b * Spec.pi V b) / Spec.pi P b ^ 2)
          * ((∑ j, q i j * (P j a / Spec.pi P a)) - ∑ j, q i j * (P j b / Spec.pi P b)))
          / (2 * mmdDeltaOvo ε P κ a b))) 0 := fun a b => by
    by_cases hab : a = b
    · subst hab
      simp only [radOvo_self, max_self, Real.sqrt_zero, mul_zero, mmdDeltaOvo_self hI, if_true, add_zero]
      exact hasDerivAt_const _ _
    · have h := hasDerivAt_max_zero (radOvo_hasDerivAt hqs hcw a b) (by simpa using hrad a b hab)
      have h' := (hasDerivAt_pi_line P V a).fun_mul
        (h.sqrt (by simpa only [line_zero] using (lt_max_of_lt_left (hrad a b hab)).ne'))
      rw [if_neg hab]
      simpa [mmdDeltaOvo_interior hI] using h'
  have h2 := HasDerivAt.fun_sum (u := Finset.univ) fun b _ =>
    (HasDerivAt.fun_sum (u := Finset.univ) fun a _ => h1 a b).fun_mul (hasDerivAt_pi_line P V b)
  refine h2.congr_deriv ?_
  have hδe : ∀ a b, Real.sqrt (max (radOvo q (fun k i => P i k / Spec.pi P k) a b) 0)
      = mmdDeltaOvo ε P κ a b := fun a b => (mmdDeltaOvo_interior hI κ a b).symm
  simp only [line_zero, hδe]
  obtain ⟨g, hg⟩ : ∃ g : Fin n → Fin K → ℝ, ∀ i k, g i k = ∑ j, q i j * (P j k / Spec.pi P k) :=
    ⟨_, fun _ _ => rfl⟩
  simp only [← hg]
  rw [mmd_ovo_algebra (Spec.pi P) (Spec.pi V) hπ (mmdDeltaOvo ε P κ) (mmdDeltaOvo_symm hI hκ)
    (fun a b hab => (hδ a b hab).ne') P V g]
  refine (grad_sum_split _ _ _ V fun i k => ?_).symm
  rw [mmdGrad_ovo_interior hI κ (fun a b hab => (hδ a b hab).ne')]
  have hg2 : ∀ i k, ∑ j, κ i j / (n * n) * (P j k / Spec.pi P k) = g i k := fun i k => (hg i k).symm
  simp only [hg2]
  ring

/- the hypotheses of `mmd_ovo_hasDerivAt` are satisfiable (identity affinity) -/
example : ∃ (P : Fin 2 → Fin 2 → ℝ) (κ : Fin 2 → Fin 2 → ℝ), Interior (1 / 10) P ∧ (∀ i j, κ i j = κ j i) ∧
    ∀ a b, a ≠ b → 0 < mmdDeltaOvo (1 / 10) P κ a b :=
  ⟨exP, exK, exP_interior, exK_symm, exP_mmd_ovo⟩

end GemVerif.Props.C02
