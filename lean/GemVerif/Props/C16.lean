/-
  C16 — invalid hyperparameters and malformed inputs are rejected, never trained on.

  The extracted tables (`Gen.Constraints.estimators`, `Gen.Constraints.functions`: REGENERATED from /repo on every
  run) are compared with the hand-written documented domains (`Spec.Constraints.documented`, written from the
  docstrings, in `Lemmas/Constraints.lean`) under scikit-learn's validator semantics (`Model.Constraints.accepts`),
  over every (owner, parameter) and every representative value, by kernel evaluation of the WHOLE tables.
  The run-time half of the property (what `fit` does with a value the table lets through, malformed data, calls
  before fit) is the harness' business; the lists `lateRejected`, `knownDeviations`, `unvalidated` that appear in
  the statements are re-confirmed entry by entry on the real code by every run.
-/
import GemVerif.Model.Constraints
import GemVerif.Gen.Constraints
import GemVerif.Lemmas.Constraints

namespace GemVerif.Props.C16
open GemVerif.Model.Constraints GemVerif.Spec.Constraints

/-- the validators' environment: in-repo sets and class hierarchy are regenerated, scikit-learn's sets are listed -/
def env : Env := { sets := Gen.Constraints.namedSets ++ sklearnSets, ancestors := Gen.Constraints.ancestors }

/-- every translated row: (owner, parameter, constraint list or `none`) -/
def rows : List (String × String × Option (List Constraint)) :=
  (Gen.Constraints.estimators ++ Gen.Constraints.functions).flatMap fun (o, ps) => ps.map fun (p, r) => (o, p, r)

/-- the representative values (hand-written ones, plus the neighbours of every extracted bound and every extracted option) -/
def values : List Value := repValues env (Gen.Constraints.estimators ++ Gen.Constraints.functions)

/-- The documentation and the code speak about the same parameters: every `__init__` / function parameter that the
    translator found is documented, and every documented parameter exists. -/
theorem documented_parameters_exist :
    (∀ r ∈ rows, (r.1, r.2.1) ∈ documentedKeys) ∧ (∀ k ∈ documentedKeys, k ∈ rows.map fun r => (r.1, r.2.1)) := by
  decide +kernel

/-- (a) NO FALSE REJECTION.  For every owner, parameter and representative value: a value inside the documented
    domain satisfies the extracted table — except the listed `knownDeviations` (`random_state=RandomState(…)` on the
    DiscriminativeModel subclasses), each of which is shown below to be a genuine deviation of the current code. -/
theorem no_false_rejection :
    ∀ r ∈ rows, ∀ v ∈ values,
      docVerdict r.1 r.2.1 v = some .inDom → accepts env r.2.2 v = true ∨ (r.1, r.2.1, v) ∈ knownDeviations := by
  decide +kernel

/-- the `knownDeviations` list is tight: every entry is a documented value that the extracted table rejects -/
theorem knownDeviations_are_deviations :
    ∀ d ∈ knownDeviations, ∃ r ∈ rows, r.1 = d.1 ∧ r.2.1 = d.2.1 ∧
      docVerdict d.1 d.2.1 d.2.2 = some .inDom ∧ accepts env r.2.2 d.2.2 = false := by
  decide +kernel

/-- (b) NO FALSE ACCEPTANCE.  For every owner, parameter and representative value: a value that satisfies the
    extracted table is not outside the documented domain — unless it is one of the explicitly listed `lateRejected`
    values (confirmed on every run to be rejected inside `fit` by a ValueError/TypeError), or the parameter is one of
    the `unvalidated` ones (no usable table entry at all: every out-of-domain value is left to the body). -/
theorem no_false_acceptance :
    ∀ r ∈ rows, ∀ v ∈ values,
      accepts env r.2.2 v = true →
        docVerdict r.1 r.2.1 v ≠ some .outDom ∨ (r.1, r.2.1, v) ∈ lateRejected ∨ (r.1, r.2.1) ∈ unvalidated := by
  decide +kernel

/-- the `lateRejected` list is tight: every entry passes its table and is outside the documented domain -/
theorem lateRejected_pass_the_table :
    ∀ d ∈ lateRejected, ∃ r ∈ rows, r.1 = d.1 ∧ r.2.1 = d.2.1 ∧ d.2.2 ∈ values ∧
      docVerdict d.1 d.2.1 d.2.2 = some .outDom ∧ accepts env r.2.2 d.2.2 = true := by
  decide +kernel

/-- `unvalidated` is exactly the set of parameters without a table entry -/
theorem unvalidated_are_the_rows_without_entry :
    ∀ r ∈ rows, (r.2.2 = none ↔ (r.1, r.2.1) ∈ unvalidated) := by
  decide +kernel

/-- every key of a `@constraint_params` table names a parameter of the decorated function — except the two keys of
    `add_mlcl_constraint` spelt with a hyphen (`"must-link"`, `"cannot-link"`), which therefore validate nothing -/
theorem decorator_keys_name_parameters :
    Gen.Constraints.deadKeys = [("add_mlcl_constraint", "must-link"), ("add_mlcl_constraint", "cannot-link")] := by
  decide +kernel

/-- every string set used by a table is either defined in the repository or one of the listed scikit-learn sets -/
theorem string_sets_resolved :
    ∀ nm ∈ Gen.Constraints.externalSets, nm ∈ sklearnSets.map (·.1) := by
  decide +kernel

end GemVerif.Props.C16
