/-
  C16 — invalid hyperparameters and malformed inputs are rejected, never trained on.

  The extracted tables (`Gen.Constraints.estimators`, `Gen.Constraints.functions`: REGENERATED from /repo on every
  run) are compared with the hand-written documented domains (`Spec.Constraints.documented`, written from the
  docstrings, in `Lemmas/Constraints.lean`) under scikit-learn's validator semantics (`Model.Constraints.accepts`),
  over every (owner, parameter) and every representative value, by kernel evaluation of the WHOLE tables.
  The run-time half of the property (what `fit` does with a value the table lets through, malformed data, calls
  before fit) is the harness' business; the lists `lateRejected`, `knownDeviations`, `unvalidated` that appear in
  the statements are re-confirmed entry by entry on the real code by every run.
-/
import GemVerif.Model.Constraints
import GemVerif.Gen.Constraints
import GemVerif.Lemmas.Constraints

namespace GemVerif.Props.C16
open GemVerif.Model.Constraints GemVerif.Spec.Constraints GemVerif.Lemmas.Constraints

/-- the validators' environment: in-repo sets and class hierarchy are regenerated, scikit-learn's sets are listed -/
def env : Env := { sets := Gen.Constraints.namedSets ++ sklearnSets, ancestors := Gen.Constraints.ancestors }

/-- every translated row of a table: (owner, parameter, constraint list or `none`) -/
def rowsOf (t : List (String × List (String × Option (List Constraint)))) : List (String × String × Option (List Constraint)) :=
  t.flatMap fun (o, ps) => ps.map fun (p, r) => (o, p, r)

/-- rows of the 18 estimators -/
def estimatorRows := rowsOf Gen.Constraints.estimators
/-- rows of the GEMINI constructors and decorated functions -/
def functionRows := rowsOf Gen.Constraints.functions
def rows := estimatorRows ++ functionRows

/-- the representative values (hand-written ones, plus the neighbours of every extracted bound and every extracted option) -/
def values : List Value := repValues env (Gen.Constraints.estimators ++ Gen.Constraints.functions)

/-- (a) for one row and one value: inside the documented domain ⇒ the extracted table is satisfied (or a listed deviation) -/
def NoFalseRejection (r : String × String × Option (List Constraint)) (v : Value) : Prop :=
  docVerdict r.1 r.2.1 v = some .inDom → accepts env r.2.2 v = true ∨ (r.1, r.2.1, v) ∈ knownDeviations

/-- (b) for one row and one value: the extracted table is satisfied ⇒ not outside the documented domain, or a listed
    late rejection, or a parameter that has no usable table entry at all -/
def NoFalseAcceptance (r : String × String × Option (List Constraint)) (v : Value) : Prop :=
  accepts env r.2.2 v = true →
    docVerdict r.1 r.2.1 v ≠ some .outDom ∨ (r.1, r.2.1, v) ∈ lateRejected ∨ (r.1, r.2.1) ∈ unvalidated

instance (r v) : Decidable (NoFalseRejection r v) := by unfold NoFalseRejection; infer_instance
instance (r v) : Decidable (NoFalseAcceptance r v) := by unfold NoFalseAcceptance; infer_instance

/-- The documentation and the code speak about the same parameters: every `__init__` / function parameter that the
    translator found is documented, and every documented parameter exists. -/
theorem documented_parameters_exist :
    (∀ r ∈ rows, (r.1, r.2.1) ∈ documentedKeys) ∧ (∀ k ∈ documentedKeys, k ∈ rows.map fun r => (r.1, r.2.1)) := by
  decide +kernel

/-- (a) NO FALSE REJECTION, estimators.  For every parameter of every estimator and every representative value: a
    value inside the documented domain satisfies the extracted `_parameter_constraints` entry (`knownDeviations`,
    the explicit exception list, is currently EMPTY). -/
theorem no_false_rejection_estimators : ∀ r ∈ estimatorRows, ∀ v ∈ values, NoFalseRejection r v := by
  decide +kernel

/-- (a) NO FALSE REJECTION, GEMINI constructors and decorated functions. -/
theorem no_false_rejection_functions : ∀ r ∈ functionRows, ∀ v ∈ values, NoFalseRejection r v := by
  decide +kernel

/-- the `knownDeviations` list is tight: every entry is a documented value that the extracted table rejects -/
theorem knownDeviations_are_deviations :
    ∀ d ∈ knownDeviations, ∃ r ∈ rows, r.1 = d.1 ∧ r.2.1 = d.2.1 ∧
      docVerdict d.1 d.2.1 d.2.2 = some .inDom ∧ accepts env r.2.2 d.2.2 = false := by
  decide +kernel

/-- (b) NO FALSE ACCEPTANCE, estimators.  For every parameter of every estimator and every representative value: a
    value that satisfies the extracted table is not outside the documented domain — unless it is one of the explicitly
    listed `lateRejected` values (confirmed on every run to be rejected inside `fit` by a ValueError/TypeError), or the
    parameter is one of the `unvalidated` ones (no table entry: every out-of-domain value is left to the body). -/
theorem no_false_acceptance_estimators : ∀ r ∈ estimatorRows, ∀ v ∈ values, NoFalseAcceptance r v := by
  decide +kernel

/-- (b) NO FALSE ACCEPTANCE, GEMINI constructors and decorated functions. -/
theorem no_false_acceptance_functions : ∀ r ∈ functionRows, ∀ v ∈ values, NoFalseAcceptance r v := by
  decide +kernel

/-- the `lateRejected` list is tight: every entry is a representative value that passes its table and is outside the
    documented domain -/
theorem lateRejected_pass_the_table :
    ∀ d ∈ lateRejected, ∃ r ∈ rows, r.1 = d.1 ∧ r.2.1 = d.2.1 ∧ d.2.2 ∈ values ∧
      docVerdict d.1 d.2.1 d.2.2 = some .outDom ∧ accepts env r.2.2 d.2.2 = true := by
  decide +kernel

/-- `unvalidated` is exactly the set of parameters without a table entry -/
theorem unvalidated_are_the_rows_without_entry :
    ∀ r ∈ rows, (r.2.2 = none ↔ (r.1, r.2.1) ∈ unvalidated) := by
  decide +kernel

/-- every key of a `@constraint_params` table names a parameter of the decorated function (until /repo commit 37cb7b8
    the keys `"must-link"`, `"cannot-link"` of `add_mlcl_constraint`, spelt with a hyphen, validated nothing) -/
theorem decorator_keys_name_parameters : Gen.Constraints.deadKeys = [] := by
  decide +kernel

/-- every string set used by a table is either defined in the repository or one of the listed scikit-learn sets -/
theorem string_sets_resolved :
    ∀ nm ∈ Gen.Constraints.externalSets, nm ∈ sklearnSets.map (·.1) := by
  decide +kernel

/-! ### (c) `check_groups` -/

/-- The translated `check_groups` (regenerated from gemclus/sparse/_base_sparse.py on every run) is, term for term,
    the function the statements below are proved about. -/
theorem checkGroups_translation : Gen.Constraints.checkGroups = Model.Constraints.checkGroups := rfl

/-- (c) For ALL group lists and ALL numbers of features: when every index is a feature index (`0 ≤ i < d`) and no
    index occurs twice (`Legal`), `check_groups` returns the user's groups, in their order, followed by one singleton
    per unmentioned feature, and the result is a partition of `range d` (its concatenation is a permutation of
    `0, …, d-1`); in every other case it raises.  `None` is passed through. -/
theorem checkGroups_characterisation (groups : Groups) (d : Nat) :
    (Legal groups d →
        Gen.Constraints.checkGroups (some groups) d = .ok (some (completion groups d)) ∧
        (completion groups d).flatten.Perm (pyRange d)) ∧
    (¬ Legal groups d → ∃ e, Gen.Constraints.checkGroups (some groups) d = .error e) ∧
    Gen.Constraints.checkGroups none d = .ok none := by
  rw [checkGroups_translation]
  exact ⟨fun h => ⟨checkGroups_legal groups d h, completion_partition groups d h⟩,
         checkGroups_illegal groups d, rfl⟩

/-- the hypotheses of (c) are satisfiable in both directions, including the empty partial list (accepted since /repo
    commit a36587a) and a group list that already covers every feature -/
example : Legal [[2, 0]] 4 ∧ Legal [] 3 ∧ Legal [[]] 2 ∧ Legal [[1], [0, 2]] 3 ∧ ¬ Legal [[0, 0]] 2 ∧ ¬ Legal [[0], [3]] 3 ∧
    ¬ Legal [[-1]] 3 ∧ completion [[2, 0]] 4 = [[2, 0], [1], [3]] := by decide

/-! ### (d) the two scalar tests -/

/-- (d) Kauri's consistency test, as translated from `Kauri.fit`, raises exactly when the documented condition
    "`min_samples_leaf`*2 <= `min_samples_split`" fails. -/
theorem kauri_inequality (min_samples_leaf min_samples_split : Int) :
    Gen.Constraints.kauriRejects min_samples_leaf min_samples_split = false ↔ 2 * min_samples_leaf ≤ min_samples_split := by
  simp only [Gen.Constraints.kauriRejects, decide_eq_false_iff_not]
  omega

/-- (d) Douglas' mask test, as translated from `Douglas._init_params`, raises exactly when the mask does not have one
    entry per feature ("array of boolean [shape d]"). -/
theorem douglas_mask_length (len_feature_mask n_features : Int) :
    Gen.Constraints.douglasMaskRejects len_feature_mask n_features = false ↔ len_feature_mask = n_features := by
  simp [Gen.Constraints.douglasMaskRejects]

end GemVerif.Props.C16
