/-
  C11 (companion) — the congruence "precomputed ≡ named", stated on everything the forwarding model says an estimator
  hands to the rest of its code.

  In `Model.Forwarding` an estimator `Est(**hyper)` touches its kernel / metric hyperparameters in two places only:
  `get_gemini()` (`resolveGemini`: the GEMINI object) and `get_gemini().compute_affinity(X, y)` (`estAffinity`: the
  matrix, the exception, the warnings); `Kauri` in `_compute_kernel` (`estOwnKernel`).  `trainingInputs` below packs
  the two: the GEMINI object WITHOUT the attributes that name the affinity (`kernel`, `kernel_params`, `metric`,
  `metric_params`) — its constructor, the class whose `evaluate` runs and EVERY other attribute (`ovo`, `epsilon`, and
  whatever a later version of the constructor may add) — together with the affinity outcome.

  Theorems (for an ARBITRARY interpretation `ops` of scikit-learn's pairwise functions):

  * `mmd_congruence`, `wasserstein_congruence`: the estimator with `kernel="precomputed"` given the matrix of the named
    kernel has the same `trainingInputs` as the estimator given the name and the parameter dictionary.  Stronger than
    `C11.mmd_precomputed_eq_named` + `C11.mmd_precomputed_same_objective` in one respect: the two GEMINI objects agree on
    every attribute other than the affinity-naming ones, not only on class / `ovo` / `epsilon`.
  * `instance_is_itself_any`: a generic estimator returns ANY GEMINI instance it was given (`C11.instance_is_itself`
    covers the seven representative instances).
  * `generic_mmd_instance_congruence`, `generic_wasserstein_instance_congruence`: the same congruence for the six
    generic estimators and ANY pair of MMD / Wasserstein instances that differ only in the affinity-naming attributes.
  * `downstream_congruence`, `kauri_downstream_congruence`: hence every function of `trainingInputs` (resp. of Kauri's
    kernel outcome) — "the rest of the estimator", as far as it is such a function — returns the same value.

  What this model CANNOT say, and what therefore stays an observation of harness/props/c11.py (named vs precomputed
  fits / paths / scores compared bitwise): that the Python `fit`, `path` and `score` ARE functions of `trainingInputs`,
  i.e. read `self.kernel`, `self.kernel_params`, `self.metric`, `self.metric_params` nowhere else.  The forwarding model
  has no `fit`; the dataflow frames of C12 list the attributes a method reads, not where it reads them.
-/
import GemVerif.Props.C11

namespace GemVerif.Props.C11Cong
open GemVerif.Model.Forwarding GemVerif.Lemmas.Forwarding
open GemVerif.Gen.Forwarding (tables estimators aff_MMDGEMINI aff_WassersteinGEMINI)

/-- the attributes through which a GEMINI object names its affinity -/
def affinityAttrs : List String := ["kernel", "kernel_params", "metric", "metric_params"]

/-- a GEMINI object without the attributes that name its affinity: constructor, class whose `evaluate` runs, every
    other attribute (in the order the constructor binds them) -/
def objectiveOf (g : GeminiObj) : String × String × List (String × Atom) :=
  (g.ctor, g.evalCls, g.attrs.filter fun a => !affinityAttrs.contains a.1)

/-- everything `Est(**hyper)` derives from its kernel / metric hyperparameters, according to the forwarding model:
    the GEMINI of `get_gemini()` up to the affinity-naming attributes, and the outcome of
    `get_gemini().compute_affinity(X, y)` (matrix or exception, number of warnings) -/
def trainingInputs {M : Type} (T : Tables) (ops : Ops M) (e : EstDesc) (h : Hyper) (y : Option M) :
    Except String (String × String × List (String × Atom)) × Out M :=
  ((resolveGemini T e h).map objectiveOf, estAffinity T ops e h y)

section generic
variable {M : Type} (ops : Ops M)

/-- **Congruence, MMD estimators** (Linear, MLP, SparseLinear, SparseMLP, Categorical; both modes; every documented
    kernel name `s`; any parameter dictionary or none; whatever `y` the named estimator receives): the estimator with
    `kernel="precomputed"` that is given the matrix `pairwise_kernels(X, metric=s, **params)` and the estimator with
    `kernel=s, kernel_params=params` resolve to GEMINI objects that agree on everything but `kernel` /
    `kernel_params`, and compute the same affinity without warning. -/
theorem mmd_congruence :
    ∀ e ∈ mmdEstimators, ∀ ovo : Bool, ∀ s ∈ namedKernels, ∀ (p : Option Params) (y : Option M),
      trainingInputs tables ops (est e) (mmdHyper (some ovo) (some (.str "precomputed")) (some .none))
          (some (ops.pairwise "pairwise_kernels" [.X] (.name s) (p.getD [])))
        = trainingInputs tables ops (est e) (mmdHyper (some ovo) (some (.str s)) (some (optAtom p))) y := by
  intro e he ovo s hs p y
  unfold trainingInputs
  rw [C11.mmd_precomputed_eq_named ops e he ovo s hs p y,
    mmd_est_builds ovo _ _ e he, mmd_est_builds ovo _ _ e he,
    buildMMD_none ovo "precomputed" (List.mem_cons_self ..), buildMMD_opt ovo p s (List.mem_cons_of_mem _ hs)]
  rfl

/-- **Congruence, Wasserstein estimators** (Linear, MLP, Categorical): same statement with `pairwise_distances`,
    `metric`, `metric_params`. -/
theorem wasserstein_congruence :
    ∀ e ∈ wassEstimators, ∀ ovo : Bool, ∀ s ∈ namedMetrics, ∀ (p : Option Params) (y : Option M),
      trainingInputs tables ops (est e) (wassHyper (some ovo) (some (.str "precomputed")) (some .none))
          (some (ops.pairwise "pairwise_distances" [.X] (.name s) (p.getD [])))
        = trainingInputs tables ops (est e) (wassHyper (some ovo) (some (.str s)) (some (optAtom p))) y := by
  intro e he ovo s hs p y
  unfold trainingInputs
  rw [C11.wasserstein_precomputed_eq_named ops e he ovo s hs p y,
    wass_est_builds ovo _ _ e he, wass_est_builds ovo _ _ e he,
    buildWass_none ovo "precomputed" (List.mem_cons_self ..), buildWass_opt ovo p s (List.mem_cons_of_mem _ hs)]
  rfl

/-- A generic estimator (LinearModel, MLPModel, SparseLinearModel, SparseMLPModel, CategoricalModel, Douglas) given a
    GEMINI instance returns that very instance from `get_gemini()`, whatever the instance. -/
theorem instance_is_itself_any :
    ∀ e ∈ genericEstimators, ∀ g : GeminiObj, resolveGemini tables (est e) [("gemini", .gem g)] = .ok g := by
  intro e he g
  simp only [genericEstimators, List.mem_cons, List.not_mem_nil, or_false] at he
  rcases he with rfl | rfl | rfl | rfl | rfl | rfl <;> rfl

/-- **Congruence, generic estimators with MMD instances.**  For ANY two `MMDGEMINI` instances that agree on everything
    but the affinity-naming attributes — one with `kernel="precomputed"`, the other with a kernel name `s` and
    parameters `pa` (`None` or a dictionary): the estimator holding the first and given the matrix
    `pairwise_kernels(X, metric=s, **pa)` has the same `trainingInputs` as the estimator holding the second. -/
theorem generic_mmd_instance_congruence :
    ∀ e ∈ genericEstimators, ∀ (gP gN : GeminiObj) (s : String) (pa : Atom) (y : Option M),
      gP.ctor = "MMDGEMINI" → gN.ctor = "MMDGEMINI" → objectiveOf gP = objectiveOf gN →
      lookup gP.attrs "kernel" = some (.str "precomputed") →
      lookup gN.attrs "kernel" = some (.str s) → s ≠ "precomputed" →
      lookup gN.attrs "kernel_params" = some pa → (pa = .none ∨ ∃ d, pa = .dict d) →
      trainingInputs tables ops (est e) [("gemini", .gem gP)]
          (some (ops.pairwise "pairwise_kernels" [.X] (.name s) (paramsOf pa)))
        = trainingInputs tables ops (est e) [("gemini", .gem gN)] y := by
  intro e he gP gN s pa y hcP hcN hobj hkP hkN hs hp hpa
  have hP : computeAffinity tables ops gP (some (ops.pairwise "pairwise_kernels" [.X] (.name s) (paramsOf pa)))
      = runAff ops gP.attrs (some (ops.pairwise "pairwise_kernels" [.X] (.name s) (paramsOf pa))) aff_MMDGEMINI := by
    unfold computeAffinity; rw [hcP]; rfl
  have hN : computeAffinity tables ops gN y = runAff ops gN.attrs y aff_MMDGEMINI := by
    unfold computeAffinity; rw [hcN]; rfl
  unfold trainingInputs estAffinity
  rw [instance_is_itself_any e he gP, instance_is_itself_any e he gN]
  simp only [Except.map, hobj, hP, hN]
  rw [C11.mmd_dispatch_precomputed_eq_named ops gN.attrs gP.attrs s pa y hkN hs hp hpa hkP]

/-- **Congruence, generic estimators with Wasserstein instances.** -/
theorem generic_wasserstein_instance_congruence :
    ∀ e ∈ genericEstimators, ∀ (gP gN : GeminiObj) (s : String) (pa : Atom) (y : Option M),
      gP.ctor = "WassersteinGEMINI" → gN.ctor = "WassersteinGEMINI" → objectiveOf gP = objectiveOf gN →
      lookup gP.attrs "metric" = some (.str "precomputed") →
      lookup gN.attrs "metric" = some (.str s) → s ≠ "precomputed" →
      lookup gN.attrs "metric_params" = some pa → (pa = .none ∨ ∃ d, pa = .dict d) →
      trainingInputs tables ops (est e) [("gemini", .gem gP)]
          (some (ops.pairwise "pairwise_distances" [.X] (.name s) (paramsOf pa)))
        = trainingInputs tables ops (est e) [("gemini", .gem gN)] y := by
  intro e he gP gN s pa y hcP hcN hobj hkP hkN hs hp hpa
  have hP : computeAffinity tables ops gP (some (ops.pairwise "pairwise_distances" [.X] (.name s) (paramsOf pa)))
      = runAff ops gP.attrs (some (ops.pairwise "pairwise_distances" [.X] (.name s) (paramsOf pa)))
          aff_WassersteinGEMINI := by
    unfold computeAffinity; rw [hcP]; rfl
  have hN : computeAffinity tables ops gN y = runAff ops gN.attrs y aff_WassersteinGEMINI := by
    unfold computeAffinity; rw [hcN]; rfl
  unfold trainingInputs estAffinity
  rw [instance_is_itself_any e he gP, instance_is_itself_any e he gN]
  simp only [Except.map, hobj, hP, hN]
  rw [C11.wasserstein_dispatch_precomputed_eq_named ops gN.attrs gP.attrs s pa y hkN hs hp hpa hkP]

/-- The hypotheses of `generic_mmd_instance_congruence` are satisfiable: a precomputed and an rbf instance with a
    non-default `epsilon` and one-vs-one mode. -/
example : ∃ (gP gN : GeminiObj) (s : String) (pa : Atom),
    gP.ctor = "MMDGEMINI" ∧ gN.ctor = "MMDGEMINI" ∧ objectiveOf gP = objectiveOf gN ∧
    lookup gP.attrs "kernel" = some (.str "precomputed") ∧ lookup gN.attrs "kernel" = some (.str s) ∧
    s ≠ "precomputed" ∧ lookup gN.attrs "kernel_params" = some pa ∧ (pa = .none ∨ ∃ d, pa = .dict d) :=
  ⟨⟨"MMDGEMINI", "MMDGEMINI", [("epsilon", .tok "1e-09"), ("ovo", .bool true), ("kernel_params", .none),
      ("kernel", .str "precomputed")]⟩,
   ⟨"MMDGEMINI", "MMDGEMINI", [("epsilon", .tok "1e-09"), ("ovo", .bool true), ("kernel_params", .dict [("gamma", "0.3")]),
      ("kernel", .str "rbf")]⟩,
   "rbf", .dict [("gamma", "0.3")], rfl, rfl, by decide, rfl, rfl, by decide, rfl, Or.inr ⟨_, rfl⟩⟩

/-- **Every downstream function.**  Whatever the rest of an MMD estimator computes from its GEMINI (up to the
    affinity-naming attributes) and from the affinity outcome — `F` arbitrary, any result type — it computes the same
    with `kernel="precomputed"` + the matrix of the named kernel as with the name.  (Instantiate with the other
    congruence theorems for the Wasserstein and the generic estimators.) -/
theorem downstream_congruence {β : Type}
    (F : Except String (String × String × List (String × Atom)) × Out M → β) :
    ∀ e ∈ mmdEstimators, ∀ ovo : Bool, ∀ s ∈ namedKernels, ∀ (p : Option Params) (y : Option M),
      F (trainingInputs tables ops (est e) (mmdHyper (some ovo) (some (.str "precomputed")) (some .none))
          (some (ops.pairwise "pairwise_kernels" [.X] (.name s) (p.getD []))))
        = F (trainingInputs tables ops (est e) (mmdHyper (some ovo) (some (.str s)) (some (optAtom p))) y) := by
  intro e he ovo s hs p y
  rw [mmd_congruence ops e he ovo s hs p y]

/-- `Kauri` has no GEMINI object: all it derives from `kernel` is the outcome of `_compute_kernel`.  Whatever the rest
    of `Kauri.fit` / `score` computes from that outcome (`F` arbitrary), `Kauri(kernel="precomputed")` given
    `pairwise_kernels(X, metric=s)` computes the same as `Kauri(kernel=s)`, for any string `s` other than
    "precomputed". -/
theorem kauri_downstream_congruence {β : Type} (F : Out M → β) (s : String) (hs : s ≠ "precomputed") (y : Option M) :
    F (estOwnKernel ops (est "Kauri") [("kernel", .atom (.str "precomputed"))]
        (some (ops.pairwise "pairwise_kernels" [.X] (.name s) [])))
      = F (estOwnKernel ops (est "Kauri") [("kernel", .atom (.str s))] y) := by
  rw [C11.kauri_precomputed_eq_named ops s hs y]

end generic

end GemVerif.Props.C11Cong
