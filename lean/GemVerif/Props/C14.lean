/-
  C14 — must-link / cannot-link constraints: exact validation, right samples, right sign.
  Property theorems only; definitions and helper lemmas live in `GemVerif/Model/Mlcl.lean`
  (executable model of `gemclus/mlcl.py`) and `GemVerif/Lemmas/Mlcl.lean` (`SpecOK`, `contrib`,
  `penalty`, ...).

  The model has ONE switch, `nodeKey fixed`: what a BFS node of `_check_structural_constraint` is
  compared with the entries of a cannot-link pair.  `fixed = true` (`acceptsFixed`): the sample index
  `unique_indices[node]` — for this acceptor the property is proved (`acceptor_iff`).
  `fixed = false` (`acceptsCurrent`): the node number itself, as in the source at commit 60c6bee —
  for this one the property is refuted (`acceptsCurrent_not_spec`).  The harness decides on every run
  which of the two the source in /repo is, by comparing both with the real function.
-/
import GemVerif.Lemmas.Mlcl

namespace GemVerif.Props.C14
open GemVerif GemVerif.Model.Mlcl GemVerif.Spec.Mlcl GemVerif.MlclLemmas Relation

/-! ### the acceptor -/

/-- The graph-reachability primitive that stands for scipy's `breadth_first_order(M, s,
    directed=False)` returns exactly the nodes `< n` in the connected component of `s`
    (equivalence closure of "`M a b` is set"). -/
theorem bfs_is_component (n : ℕ) (M : ℕ → ℕ → Bool) (s v : ℕ) :
    v ∈ bfsReach n M s ↔ v < n ∧ EqvGen (fun a b => a < n ∧ b < n ∧ M a b = true) s v :=
  bfsReach_spec n M s v

/-- What `_check_structural_constraint` decides, for either comparison key: it returns (does not
    raise) iff in no connected component of the position graph two distinct positions `i ≠ j` match a
    cannot-link pair through `nodeKey`.  In particular the `while` loop visits every component and its
    fuel never runs out. -/
theorem structural_decides (fixed : Bool) (uniq : List ℤ) (ML CL : List Pair) :
    structural fixed uniq ML CL = true ↔
      ∀ t, t < uniq.length → ∀ i j, i ≠ j →
        i ∈ bfsReach uniq.length (connMatrix uniq ML) t → j ∈ bfsReach uniq.length (connMatrix uniq ML) t →
        ∀ p ∈ CL, clash (nodeKey fixed uniq) i j p = false :=
  structural_iff fixed uniq ML CL

/-- **Exact validation, for whatever enumeration `list(set(...))` produces.**  With sample indices
    compared with sample indices, `add_mlcl_constraint` accepts lists of integer pairs `ML`, `CL`
    iff nobody is paired with itself and no cannot-link pair lies inside a connected component of the
    must-link graph — for arbitrary (negative, non-contiguous, unordered, repeated) sample indices and
    any list `uniq` that contains the must-link end points. -/
theorem acceptor_iff_any_order (uniq : List ℤ) (ML CL : List Pair)
    (hU : ∀ q ∈ ML, q.1 ∈ uniq ∧ q.2 ∈ uniq) :
    acceptsWith true uniq ML CL = true ↔ SpecOK ML CL :=
  acceptsWith_fixed_iff uniq ML CL hU

/-- **Exact validation** (`acceptsFixed` = the acceptor above on the canonical enumeration). -/
theorem acceptor_iff (ML CL : List Pair) : acceptsFixed ML CL = true ↔ SpecOK ML CL :=
  acceptsWith_fixed_iff _ ML CL fun q hq =>
    ⟨(mem_dedup _ _).2 (endpoints_cover ML q hq).1, (mem_dedup _ _).2 (endpoints_cover ML q hq).2⟩

/-- The verdict of the intended acceptor does not depend on the order in which CPython enumerates
    the set of must-link end points. -/
theorem acceptor_order_irrelevant (uniq uniq' : List ℤ) (ML CL : List Pair)
    (hU : ∀ q ∈ ML, q.1 ∈ uniq ∧ q.2 ∈ uniq) (hU' : ∀ q ∈ ML, q.1 ∈ uniq' ∧ q.2 ∈ uniq') :
    acceptsWith true uniq ML CL = acceptsWith true uniq' ML CL := by
  have h := (acceptsWith_fixed_iff uniq ML CL hU).trans (acceptsWith_fixed_iff uniq' ML CL hU').symm
  cases h1 : acceptsWith true uniq ML CL <;> cases h2 : acceptsWith true uniq' ML CL <;> simp_all

/-- Which error is reported: "Triangular contradiction" exactly when there is no self pair and some
    cannot-link pair is must-link-connected. -/
theorem contradiction_iff (ML CL : List Pair) :
    checkLinking true (dedup (endpoints ML)) ML CL = .contradiction ↔
      (∀ p ∈ ML ++ CL, p.1 ≠ p.2) ∧ ∃ p ∈ CL, EqvGen (Linked ML) p.1 p.2 := by
  have hacc := acceptor_iff ML CL
  unfold acceptsFixed acceptsWith at hacc
  unfold SpecOK at hacc
  unfold checkLinking at hacc ⊢
  by_cases hml : (ML.any fun p => p.1 == p.2) = true
  · simp only [hml, if_true, reduceCtorEq, false_iff]
    rintro ⟨h, _⟩
    obtain ⟨p, hp, he⟩ := List.any_eq_true.1 hml
    exact absurd (by simpa using he) (h p (List.mem_append_left _ hp))
  by_cases hcl : (CL.any fun p => p.1 == p.2) = true
  · simp only [hml, hcl, if_true, Bool.false_eq_true, if_false, reduceCtorEq, false_iff]
    rintro ⟨h, _⟩
    obtain ⟨p, hp, he⟩ := List.any_eq_true.1 hcl
    exact absurd (by simpa using he) (h p (List.mem_append_right _ hp))
  have hself : ∀ p ∈ ML ++ CL, p.1 ≠ p.2 := by
    intro p hp he
    rcases List.mem_append.1 hp with h | h
    · exact hml (List.any_eq_true.2 ⟨p, h, by simpa using he⟩)
    · exact hcl (List.any_eq_true.2 ⟨p, h, by simpa using he⟩)
  simp only [hml, hcl, Bool.false_eq_true, if_false] at hacc ⊢
  by_cases hne : (decide (ML.length > 0) && decide (CL.length > 0)) = true
  · simp only [hne, if_true] at hacc ⊢
    by_cases hst : structural true (dedup (endpoints ML)) ML CL = true
    · simp only [hst, if_true, reduceCtorEq, false_iff] at hacc ⊢
      rintro ⟨_, p, hp, hl⟩
      exact (hacc.1 (by decide)).2 p hp hl
    · simp only [hst, Bool.false_eq_true, if_false, true_iff] at hacc ⊢
      refine ⟨hself, ?_⟩
      by_contra hno
      have : (Verdict.contradiction == Verdict.ok) = true :=
        hacc.2 ⟨hself, fun p hp hl => hno ⟨p, hp, hl⟩⟩
      exact absurd this (by decide)
  · simp only [hne, Bool.false_eq_true, if_false, reduceCtorEq, false_iff] at hacc ⊢
    rintro ⟨_, p, hp, hl⟩
    exact (hacc.1 (by decide)).2 p hp hl

/-- **The source as it stands (BFS positions compared with sample indices) is not the
    specification**, in both directions: it accepts the contradictory set ML = [(5,6),(6,7)],
    CL = [(5,7)] and rejects the consistent set ML = [(5,6)], CL = [(0,1)]. -/
theorem acceptsCurrent_not_spec :
    (∃ ML CL, acceptsCurrent ML CL = true ∧ ¬ SpecOK ML CL) ∧
    (∃ ML CL, acceptsCurrent ML CL = false ∧ SpecOK ML CL) := by
  refine ⟨⟨[(5, 6), (6, 7)], [(5, 7)], by decide, ?_⟩, ⟨[(5, 6)], [(0, 1)], by decide, ?_⟩⟩
  · rw [← acceptor_iff]; decide
  · rw [← acceptor_iff]; decide

/-! ### the injected gradient (`intercept_grads`), over the reals -/

section Inject
variable {K : ℕ}

/-- **Right rows, right sign, weight `factor`.**  Entry `(r, k)` of the gradient handed to the wrapped
    `_compute_grads` is the incoming entry plus, for every cannot-link pair with both ends in the
    batch, `+factor·(p_a - p_b)` if `r` is the batch position of `a` and `+factor·(p_b - p_a)` if it
    is the position of `b` — and the same with a minus sign for every must-link pair.
    (`contrib` is that term; pairs with an end outside the batch contribute 0.) -/
theorem inject_formula (last : List ℤ) (CL ML : List Pair) (f : ℝ) (y g : Rows ℝ K) (r : ℕ) (k : Fin K) :
    inject last CL ML f y g r k =
      g r k + (CL.map fun p => contrib last f y p r k).sum - (ML.map fun p => contrib last f y p r k).sum :=
  inject_apply last CL ML f y g r k

/-- The term of one pair, spelled out. -/
theorem contrib_def (last : List ℤ) (f : ℝ) (y : Rows ℝ K) (p : Pair) (r : ℕ) (k : Fin K) :
    contrib last f y p r k =
      if p.1 ∈ last ∧ p.2 ∈ last then
        (if r = last.idxOf p.1 then f * (y (last.idxOf p.1) k - y (last.idxOf p.2) k) else 0) +
        (if r = last.idxOf p.2 then f * (y (last.idxOf p.2) k - y (last.idxOf p.1) k) else 0)
      else 0 := rfl

/-- **All other rows are untouched**: a row that is not the batch position of an end of a pair lying
    inside the batch leaves `intercept_grads` as it entered. -/
theorem inject_untouched (last : List ℤ) (CL ML : List Pair) (f : ℝ) (y g : Rows ℝ K) (r : ℕ)
    (h : ∀ p ∈ CL ++ ML, p.1 ∈ last → p.2 ∈ last → r ≠ last.idxOf p.1 ∧ r ≠ last.idxOf p.2) (k : Fin K) :
    inject last CL ML f y g r k = g r k := by
  rw [inject_apply]
  have hz : ∀ (l : List Pair), (∀ p ∈ l, p ∈ CL ++ ML) → (l.map fun p => contrib last f y p r k).sum = 0 := by
    intro l hl
    induction l with
    | nil => simp
    | cons p ps ih =>
      rw [List.map_cons, List.sum_cons, contrib_eq_zero (h p (hl p List.mem_cons_self)),
        ih fun q hq => hl q (List.mem_cons_of_mem _ hq)]
      simp
  rw [hz CL fun p hp => List.mem_append_left _ hp, hz ML fun p hp => List.mem_append_right _ hp]
  simp

/-- A single cannot-link pair inside the batch pushes its two rows apart:
    row of `a` receives `+factor·(p_a - p_b)`, row of `b` receives `+factor·(p_b - p_a)`. -/
theorem inject_single_cannot_link (last : List ℤ) (a b : ℤ) (ha : a ∈ last) (hb : b ∈ last) (hab : a ≠ b)
    (f : ℝ) (y g : Rows ℝ K) (k : Fin K) :
    inject last [(a, b)] [] f y g (last.idxOf a) k =
        g (last.idxOf a) k + f * (y (last.idxOf a) k - y (last.idxOf b) k) ∧
    inject last [(a, b)] [] f y g (last.idxOf b) k =
        g (last.idxOf b) k + f * (y (last.idxOf b) k - y (last.idxOf a) k) := by
  have hne : last.idxOf a ≠ last.idxOf b := by
    intro he
    have := getD_idxOf ha
    rw [he, getD_idxOf hb] at this
    exact hab this.symm
  constructor <;> simp [inject_apply, contrib, ha, hb, hne, hne.symm]

/-- A single must-link pair inside the batch pulls its two rows together (opposite sign). -/
theorem inject_single_must_link (last : List ℤ) (a b : ℤ) (ha : a ∈ last) (hb : b ∈ last) (hab : a ≠ b)
    (f : ℝ) (y g : Rows ℝ K) (k : Fin K) :
    inject last [] [(a, b)] f y g (last.idxOf a) k =
        g (last.idxOf a) k - f * (y (last.idxOf a) k - y (last.idxOf b) k) ∧
    inject last [] [(a, b)] f y g (last.idxOf b) k =
        g (last.idxOf b) k - f * (y (last.idxOf b) k - y (last.idxOf a) k) := by
  have hne : last.idxOf a ≠ last.idxOf b := by
    intro he
    have := getD_idxOf ha
    rw [he, getD_idxOf hb] at this
    exact hab this.symm
  constructor <;> simp [inject_apply, contrib, ha, hb, hne, hne.symm]

/-- **The injected term is the gradient of the pairwise penalty.**  With
    `penalty y = ½·factor·(Σ_{CL in batch} ‖p_i - p_j‖² - Σ_{ML in batch} ‖p_i - p_j‖²)`, what
    `intercept_grads` adds to entry `(r, k)` is `∂ penalty / ∂ y[r, k]` (derivative in the entry, all
    other entries fixed).  The GEMINI gradient being an ascent direction, cannot-linked rows are pushed
    apart and must-linked rows pulled together. -/
theorem inject_is_penalty_gradient (last : List ℤ) (CL ML : List Pair) (f : ℝ) (y g : Rows ℝ K) (r : ℕ)
    (k : Fin K) :
    HasDerivAt (fun t => penalty last CL ML f (setEntry y r k t))
      (inject last CL ML f y g r k - g r k) (y r k) :=
  hasDerivAt_penalty last CL ML f y g r k

/-- The penalty, spelled out. -/
theorem penalty_def (last : List ℤ) (CL ML : List Pair) (f : ℝ) (y : Rows ℝ K) :
    penalty last CL ML f y =
      (CL.map fun p => 1 / 2 * f *
          (if p.1 ∈ last ∧ p.2 ∈ last then ∑ k, (y (last.idxOf p.1) k - y (last.idxOf p.2) k) ^ 2 else 0)).sum -
      (ML.map fun p => 1 / 2 * f *
          (if p.1 ∈ last ∧ p.2 ∈ last then ∑ k, (y (last.idxOf p.1) k - y (last.idxOf p.2) k) ^ 2 else 0)).sum :=
  rfl

/-- **Independence from the batch permutation.**  If the batch `last'` is the batch `last` read
    through `σ` (`last'[r] = last[σ r]`), the indices being distinct, then injecting into the permuted
    rows gives the permuted result: `inject (σ·last) (σ·y) (σ·g) = σ·(inject last y g)`. -/
theorem inject_perm_equivariant (last last' : List ℤ) (σ : ℕ → ℕ) (hnd : last.Nodup)
    (hperm : last'.Perm last) (hσ : ∀ r, r < last'.length → last'[r]? = last[σ r]?)
    (CL ML : List Pair) (f : ℝ) (y g : Rows ℝ K) (r : ℕ) (hr : r < last'.length) (k : Fin K) :
    inject last' CL ML f (fun r => y (σ r)) (fun r => g (σ r)) r k = inject last CL ML f y g (σ r) k := by
  rw [inject_apply, inject_apply]
  have hc : ∀ p, contrib last' f (fun r => y (σ r)) p r k = contrib last f y p (σ r) k :=
    fun p => contrib_perm hnd hperm hσ f y p r hr k
  simp only [hc]

/-- the hypotheses of `inject_perm_equivariant` are satisfiable by a non-trivial permutation of a
    non-contiguous batch -/
example : ∃ (last last' : List ℤ) (σ : ℕ → ℕ), last.Nodup ∧ last'.Perm last ∧ last' ≠ last ∧
    ∀ r, r < last'.length → last'[r]? = last[σ r]? := by
  refine ⟨[7, 3, 12], [12, 7, 3], fun r => (r + 2) % 3, by decide, by decide, by decide, ?_⟩
  intro r hr
  have : r = 0 ∨ r = 1 ∨ r = 2 := by simp at hr; omega
  rcases this with rfl | rfl | rfl <;> rfl

end Inject

end GemVerif.Props.C14
