/-
  C06 — unselected features are inert; selection reads exact zeros; groups stay whole.
  Property theorems only.  Model: `Model/Sparse.lean` (+ `Model/Prox.lean`, `Model/Nets.lean`); helper lemmas:
  `Lemmas/Sparse.lean`; imported C05 facts: `Props.C05.hier_prox_feasible`, `Props.C05.flatGroup_scatter`.

  All theorems are over ℝ.  Float caveat (outside every theorem, see C17): a non-zero row whose squared entries
  underflow has a computed norm of `0.0` and is reported unselected; `x * 0` is `nan` for a non-finite `x`.

  The optimiser is an ARBITRARY function `opt` on the weights throughout: nothing is assumed about gradients,
  momenta or learning-rate schedules.  What an arbitrary optimiser can break is said explicitly:
  `groups_all_or_nothing_*` need the rows of a group to be non-zero after the optimiser step (true of every real
  optimiser step from generic data, but not a theorem), because the group operator multiplies all rows of a group by one
  common factor and a row that is already zero stays zero while the others survive.
-/
import GemVerif.Lemmas.Sparse

namespace GemVerif.Props.C06
open scoped BigOperators
open GemVerif Model.Prox Model.Nets Model.Sparse Spec.Prox

variable {d h K n : ℕ}

/-! ## selection reads exact zeros -/

/-- **`get_selection` = the rows that are not exactly zero.**  `np.nonzero(np.linalg.norm(W, axis=1))` over ℝ:
    the norm of a row is `0` iff the row is `0`. -/
theorem selection_reads_exact_zeros (W : Fin d → Fin h → ℝ) (i : Fin d) :
    (i ∈ getSelection W ↔ W i ≠ 0) ∧ (i ∈ getSelection W ↔ ∃ k, W i k ≠ 0) := by
  have h1 : i ∈ getSelection W ↔ W i ≠ 0 := by
    unfold getSelection
    rw [List.mem_filter, rowSelected_iff]
    exact ⟨fun h => h.2, fun h => ⟨List.mem_finRange i, h⟩⟩
  refine ⟨h1, h1.trans ?_⟩
  rw [Ne, funext_iff, not_forall]
  rfl

/-- the indices come in increasing order, each once (as `np.nonzero` returns them) -/
theorem selection_sorted (W : Fin d → Fin h → ℝ) : (getSelection W).Pairwise (· < ·) := by
  unfold getSelection
  exact (List.pairwise_lt_finRange d).filter _

/-- `_n_selected_features()` is the length of `get_selection()` -/
theorem n_selected_eq_length (W : Fin d → Fin h → ℝ) : nSelected W = (getSelection W).length :=
  sum_indicator_eq_length_filter _ _

/-- `_group_lasso_penalty()` is the sum of the 2-norms of the rows -/
theorem penalty_eq_sum_norms (W : Fin d → Fin h → ℝ) : groupLassoPenalty W = ∑ i, rowNorm (W i) := by
  unfold groupLassoPenalty
  rw [sumL_eq, ← List.sum_ofFn]
  congr 1
  rw [List.ofFn_eq_map]
  refine List.map_congr_left fun i _ => ?_
  rw [norm2_eq_sqrt]; rfl

/-! ## unselected features are inert -/

/-- **Sparse linear model**: `predict_proba` depends only on the selected columns of `X` — two inputs that agree on
    every selected feature get the same probabilities (so changing an unselected feature changes nothing). -/
theorem unselected_inert_linear (w : LinW ℝ d K) (X X' : Fin n → Fin d → ℝ)
    (hX : ∀ r j, j ∈ w.selection → X r j = X' r j) : w.predictProba X = w.predictProba X' := by
  unfold LinW.predictProba linearInfer
  have ha : affine X w.W w.b = affine X' w.W w.b :=
    affine_congr_of_zero_rows X X' w.W w.b fun r j hj => hX r j ((selection_reads_exact_zeros w.W j).1.mpr hj)
  rw [ha]

/-- **Sparse MLP**: if every zero skip row has a zero first-layer row (`HierInv`, which holds in every reachable
    state: `reachable_hier`), `predict_proba` depends only on the selected columns of `X`. -/
theorem unselected_inert_mlp (w : MlpW ℝ d h K) (hw : HierInv w) (X X' : Fin n → Fin d → ℝ)
    (hX : ∀ r j, j ∈ w.selection → X r j = X' r j) : w.predictProba X = w.predictProba X' := by
  have hsel : ∀ r j, w.Ws j ≠ 0 → X r j = X' r j := fun r j hj =>
    hX r j ((selection_reads_exact_zeros w.Ws j).1.mpr hj)
  have h1 : ∀ r j, w.W1 j ≠ 0 → X r j = X' r j := fun r j hj =>
    hsel r j (fun h0 => hj (hw j h0))
  have hH : Model.Nets.hidden X w.W1 w.b1 = Model.Nets.hidden X' w.W1 w.b1 := by
    unfold Model.Nets.hidden
    rw [affine_congr_of_zero_rows X X' w.W1 w.b1 h1]
  unfold MlpW.predictProba sparseMlpInfer
  simp only [hH]
  funext r
  congr 1
  funext k
  rw [skip_congr_of_zero_rows X X' w.Ws hsel r k]

/-- one column at a time, as the property words it: changing the value of ONE unselected feature `i₀` never changes
    `predict_proba` (its skip row and its first-layer row are zero) -/
theorem unselected_column_inert_mlp (w : MlpW ℝ d h K) (i₀ : Fin d) (hs : w.Ws i₀ = 0) (h1 : w.W1 i₀ = 0)
    (X X' : Fin n → Fin d → ℝ) (hX : ∀ r j, j ≠ i₀ → X r j = X' r j) : w.predictProba X = w.predictProba X' := by
  have hH : Model.Nets.hidden X w.W1 w.b1 = Model.Nets.hidden X' w.W1 w.b1 := by
    unfold Model.Nets.hidden
    rw [affine_congr_of_zero_row X X' w.W1 w.b1 i₀ h1 hX]
  have hS : ∀ r k, (sumFin fun j => X r j * w.Ws j k) = sumFin fun j => X' r j * w.Ws j k := by
    intro r k
    rw [sumFin_eq_sum, sumFin_eq_sum]
    refine Finset.sum_congr rfl fun j _ => ?_
    by_cases hj : j = i₀
    · subst hj; rw [hs]; simp
    · rw [hX r j hj]
  unfold MlpW.predictProba sparseMlpInfer
  simp only [hH]
  funext r
  congr 1
  funext k
  rw [hS r k]

/-! ## the shrinkage is the proximal step of C05 with threshold `alpha · learning_rate` -/

/-- **Threshold identity**: `self.alpha * self.optimiser_.learning_rate`. -/
theorem threshold_is_alpha_times_lr (alpha lr : ℝ) : threshold alpha lr = alpha * lr := rfl

/-- `_update_weights` of the sparse linear model is `prox ∘ opt`: the C05 group-lasso operator `linear_prox_grad`
    applied to the weights the optimiser produced, with threshold `alpha · lr`; the bias is the optimiser's -/
theorem update_linear_is_prox_after_opt (opt : LinW ℝ d K → LinW ℝ d K) (alpha lr : ℝ) (w : LinW ℝ d K) :
    updateLinear none opt alpha lr w = some { W := linearProx (opt w).W (alpha * lr), b := (opt w).b } := rfl

/-- `_update_weights` of the sparse MLP is `prox ∘ opt`: HIER-PROX `mlp_prox_grad` on `(W_skip, W1)` with threshold
    `alpha · lr` and hierarchy coefficient `M`; the other weights are the optimiser's -/
theorem update_mlp_is_prox_after_opt (M : ℝ) (opt : MlpW ℝ d h K → MlpW ℝ d h K) (alpha lr : ℝ) (w : MlpW ℝ d h K) :
    updateMlp none M opt alpha lr w = some
      { W1 := (mlpProx (opt w).Ws (opt w).W1 (alpha * lr) M).2, W2 := (opt w).W2,
        Ws := (mlpProx (opt w).Ws (opt w).W1 (alpha * lr) M).1, b1 := (opt w).b1, b2 := (opt w).b2 } := rfl

/-- with groups: row `g[q]` of the new weights is the `q`-th slice of the C05 row operator applied to the flattened
    group, threshold `alpha · lr` (groups = a partition, as `check_groups` produces) -/
theorem update_linear_group_rows {gs : List (List (Fin d))} (hp : IsPartition gs) (opt : LinW ℝ d K → LinW ℝ d K)
    (alpha lr : ℝ) (w w' : LinW ℝ d K) (hu : updateLinear (some gs) opt alpha lr w = some w')
    {g : List (Fin d)} (hg : g ∈ gs) (q : Fin g.length) (j : Fin K) :
    w'.W (g.get q) j = linearProxRow (flatGroup (opt w).W g) (alpha * lr) (flatIdx q j) := by
  have h1 := (proxLinear_group_rows hu).1 (g.get q)
  rw [Props.C05.group_linear_prox_row hp (opt w).W _ hg q] at h1
  exact (congrFun (Option.some.inj h1) j).symm

/-! ## invariant over histories: zero skip row ⇒ zero first-layer row -/

/-- **After ANY update** (any previous weights, any optimiser step, any `alpha`, any learning rate, `M ≥ 0`), every
    zero skip row has a zero first-layer row — from the HIER-PROX feasibility `|θ_j| ≤ M‖β‖` of C05. -/
theorem update_establishes_hier {M : ℝ} (hM : 0 ≤ M) (opt : MlpW ℝ d h K → MlpW ℝ d h K) (alpha lr : ℝ)
    (w w' : MlpW ℝ d h K) (hu : updateMlp none M opt alpha lr w = some w') : HierInv w' := by
  have hu' := hu
  rw [update_mlp_is_prox_after_opt] at hu'
  injection hu' with hu'
  subst hu'
  intro i hi
  exact hierProxRow_zero _ _ _ hM hi

/-- what a group update returns on a group `g` of the partition: the flattened new skip / first-layer rows of `g` are
    the two components of the C05 row operator on the flattened group -/
theorem update_mlp_group_flat {gs : List (List (Fin d))} (hp : IsPartition gs) {M : ℝ}
    (opt : MlpW ℝ d h K → MlpW ℝ d h K) (alpha lr : ℝ) (w w' : MlpW ℝ d h K)
    (hu : updateMlp (some gs) M opt alpha lr w = some w') {g : List (Fin d)} (hg : g ∈ gs) :
    flatGroup w'.Ws g = (hierProxRow (flatGroup (opt w).Ws g) (flatGroup (opt w).W1 g) (alpha * lr) M).1 ∧
    flatGroup w'.W1 g = (hierProxRow (flatGroup (opt w).Ws g) (flatGroup (opt w).W1 g) (alpha * lr) M).2 := by
  obtain ⟨h1, h2, -⟩ := proxMlp_group_rows hu
  exact ⟨Props.C05.flatGroup_scatter hp
            (fun g => (hierProxRow (flatGroup (opt w).Ws g) (flatGroup (opt w).W1 g) (alpha * lr) M).1) w'.Ws h1 hg,
         Props.C05.flatGroup_scatter hp
            (fun g => (hierProxRow (flatGroup (opt w).Ws g) (flatGroup (opt w).W1 g) (alpha * lr) M).2) w'.W1 h2 hg⟩

/-- **After any group update**: a group all of whose skip rows are zero has all its first-layer rows zero. -/
theorem update_establishes_group_hier {gs : List (List (Fin d))} (hp : IsPartition gs) {M : ℝ} (hM : 0 ≤ M)
    (opt : MlpW ℝ d h K → MlpW ℝ d h K) (alpha lr : ℝ) (w w' : MlpW ℝ d h K)
    (hu : updateMlp (some gs) M opt alpha lr w = some w') : GroupHierInv gs w' := by
  intro g hg hz i hi
  obtain ⟨hs, h1⟩ := update_mlp_group_flat hp opt alpha lr w w' hu hg
  have hβ : flatGroup w'.Ws g = 0 := by
    funext p
    unfold flatGroup
    rw [hz _ (List.get_mem g _)]; rfl
  have hθ : flatGroup w'.W1 g = 0 := by
    rw [h1]
    exact hierProxRow_zero _ _ _ hM (by rw [← hs]; exact hβ)
  obtain ⟨q, rfl⟩ := List.mem_iff_get.mp hi
  funext j
  rw [← flatGroup_flatIdx w'.W1 g q j, hθ]; rfl

/-- **Invariant over histories.**  Take ANY history of a sparse MLP without groups: fits (each starting from arbitrary
    fresh weights and made of updates), path steps (updates with changing `alpha`), snapshots of the current weights and
    restorations of the snapshot — with arbitrary optimiser steps and learning rates.  In the state it reaches, the
    estimator's weights and the snapshot both satisfy: zero skip row ⇒ zero first-layer row.  (Every prefix of a history
    is a history, so this is every reachable state.) -/
theorem reachable_hier {M : ℝ} (hM : 0 ≤ M) (evs : List (Ev (MlpW ℝ d h K) ℝ)) (s : HState (MlpW ℝ d h K))
    (hrun : runEvs (proxMlp none M) {} evs = some s) :
    (∀ w, s.cur = some w → HierInv w) ∧ (∀ w, s.snap = some w → HierInv w) := by
  refine runEvs_inv (proxMlp none M) HierInv ?_ evs {} s (by intro w hw; cases hw) (by intro w hw; cases hw) hrun
  intro a lr w w' hp
  exact update_establishes_hier hM id a lr w w' hp

/-- … at every intermediate point of the history as well -/
theorem reachable_hier_every_prefix {M : ℝ} (hM : 0 ≤ M) (evs₁ evs₂ : List (Ev (MlpW ℝ d h K) ℝ))
    (s : HState (MlpW ℝ d h K)) (hrun : runEvs (proxMlp none M) {} (evs₁ ++ evs₂) = some s) :
    ∃ s₁, runEvs (proxMlp none M) {} evs₁ = some s₁ ∧ (∀ w, s₁.cur = some w → HierInv w) ∧
      (∀ w, s₁.snap = some w → HierInv w) := by
  obtain ⟨s₁, h1, -⟩ := runEvs_append _ evs₁ evs₂ {} s hrun
  exact ⟨s₁, h1, reachable_hier hM evs₁ s₁ h1⟩

/-- the same with groups (a partition): in every reachable state a group with zero skip rows has zero first-layer rows -/
theorem reachable_group_hier {gs : List (List (Fin d))} (hp : IsPartition gs) {M : ℝ} (hM : 0 ≤ M)
    (evs : List (Ev (MlpW ℝ d h K) ℝ)) (s : HState (MlpW ℝ d h K))
    (hrun : runEvs (proxMlp (some gs) M) {} evs = some s) :
    (∀ w, s.cur = some w → GroupHierInv gs w) ∧ (∀ w, s.snap = some w → GroupHierInv gs w) := by
  refine runEvs_inv (proxMlp (some gs) M) (GroupHierInv gs) ?_ evs {} s (by intro w hw; cases hw)
    (by intro w hw; cases hw) hrun
  intro a lr w w' hp'
  exact update_establishes_group_hier hp hM id a lr w w' hp'

/-- **Hence: in every reachable state of a sparse MLP (no groups) the unselected features are inert.** -/
theorem reachable_inert {M : ℝ} (hM : 0 ≤ M) (evs : List (Ev (MlpW ℝ d h K) ℝ)) (s : HState (MlpW ℝ d h K))
    (hrun : runEvs (proxMlp none M) {} evs = some s) (w : MlpW ℝ d h K) (hw : s.cur = some w)
    (X X' : Fin n → Fin d → ℝ) (hX : ∀ r j, j ∈ w.selection → X r j = X' r j) :
    w.predictProba X = w.predictProba X' :=
  unselected_inert_mlp w ((reachable_hier hM evs s hrun).1 w hw) X X' hX

/-- the hypotheses are satisfiable: a fit of two updates, a snapshot, one more update, a restoration -/
example : ∃ s, runEvs (proxMlp (d := 2) (h := 1) (K := 1) none (1 : ℝ)) {}
    [.update (some ⟨fun _ _ => 1, fun _ _ => 1, fun _ _ => 1, fun _ => 0, fun _ => 0⟩) id 1 1,
     .update none id 1 1, .snapshot, .update none id 2 1, .restore] = some s := by
  simp [runEvs, stepEv, proxMlp]

/-! ## groups stay whole -/

/-- **The group operator scales all skip rows of a group by ONE common factor `x ≥ 0`**, and if that factor is `0` the
    first-layer rows of the whole group are zero as well. -/
theorem group_common_factor_mlp {gs : List (List (Fin d))} (hp : IsPartition gs) {M : ℝ} (hM : 0 ≤ M)
    (opt : MlpW ℝ d h K → MlpW ℝ d h K) (alpha lr : ℝ) (w w' : MlpW ℝ d h K)
    (hu : updateMlp (some gs) M opt alpha lr w = some w') {g : List (Fin d)} (hg : g ∈ gs) :
    ∃ x : ℝ, 0 ≤ x ∧ (∀ i ∈ g, ∀ c, w'.Ws i c = x * (opt w).Ws i c) ∧ (x = 0 → ∀ i ∈ g, w'.W1 i = 0) := by
  obtain ⟨hs, -⟩ := update_mlp_group_flat hp opt alpha lr w w' hu hg
  have hrow : ∀ i ∈ g, ∀ c, w'.Ws i c
      = xStar (flatGroup (opt w).Ws g) (flatGroup (opt w).W1 g) (alpha * lr) M * (opt w).Ws i c := by
    intro i hi c
    obtain ⟨q, rfl⟩ := List.mem_iff_get.mp hi
    rw [← flatGroup_flatIdx w'.Ws g q c, hs, ← flatGroup_flatIdx (opt w).Ws g q c]
    rfl
  refine ⟨_, (Props.C05.hier_prox_beta_eq _ _ _ _).2, hrow, fun hx i hi => ?_⟩
  refine update_establishes_group_hier hp hM opt alpha lr w w' hu g hg (fun i' hi' => ?_) i hi
  funext c
  rw [hrow i' hi' c, hx, zero_mul]; rfl

/-- **All-or-nothing for the sparse MLP with groups**: if no skip row of the group is exactly zero after the optimiser
    step, then after the proximal step either every feature of the group is discarded (zero skip row AND zero
    first-layer row: inert) or every feature of the group is selected. -/
theorem groups_all_or_nothing_mlp {gs : List (List (Fin d))} (hp : IsPartition gs) {M : ℝ} (hM : 0 ≤ M)
    (opt : MlpW ℝ d h K → MlpW ℝ d h K) (alpha lr : ℝ) (w w' : MlpW ℝ d h K)
    (hu : updateMlp (some gs) M opt alpha lr w = some w') {g : List (Fin d)} (hg : g ∈ gs)
    (hnz : ∀ i ∈ g, (opt w).Ws i ≠ 0) :
    (∀ i ∈ g, i ∉ w'.selection ∧ w'.Ws i = 0 ∧ w'.W1 i = 0) ∨ (∀ i ∈ g, i ∈ w'.selection) := by
  obtain ⟨x, -, hrow, hzero⟩ := group_common_factor_mlp hp hM opt alpha lr w w' hu hg
  by_cases hx : x = 0
  · left
    intro i hi
    have hs0 : w'.Ws i = 0 := by funext c; rw [hrow i hi c, hx, zero_mul]; rfl
    exact ⟨fun hsel => ((selection_reads_exact_zeros w'.Ws i).1.mp hsel) hs0, hs0, hzero hx i hi⟩
  · right
    intro i hi
    refine (selection_reads_exact_zeros w'.Ws i).1.mpr fun h0 => hnz i hi ?_
    funext c
    have := congrFun h0 c
    rw [hrow i hi c] at this
    exact (mul_eq_zero.mp this).resolve_left hx

/-- **Group lasso, linear model: one common factor per group.** -/
theorem group_common_factor_linear {gs : List (List (Fin d))} (hp : IsPartition gs) (opt : LinW ℝ d K → LinW ℝ d K)
    (alpha lr : ℝ) (w w' : LinW ℝ d K) (hu : updateLinear (some gs) opt alpha lr w = some w')
    {g : List (Fin d)} (hg : g ∈ gs) : ∃ x : ℝ, ∀ i ∈ g, ∀ c, w'.W i c = x * (opt w).W i c := by
  refine ⟨max (norm2 (flatGroup (opt w).W g) - alpha * lr) 0 /
      (if norm2 (flatGroup (opt w).W g) = 0 then 1 else norm2 (flatGroup (opt w).W g)), fun i hi c => ?_⟩
  obtain ⟨q, rfl⟩ := List.mem_iff_get.mp hi
  rw [update_linear_group_rows hp opt alpha lr w w' hu hg q c]
  unfold linearProxRow
  simp only [RealLike.max_real, RealLike.beq_real, decide_eq_true_eq]
  rw [flatGroup_flatIdx, mul_div_right_comm]

/-- **All-or-nothing for the sparse linear model with groups** (same proviso on exact zeros after the optimiser step). -/
theorem groups_all_or_nothing_linear {gs : List (List (Fin d))} (hp : IsPartition gs) (opt : LinW ℝ d K → LinW ℝ d K)
    (alpha lr : ℝ) (w w' : LinW ℝ d K) (hu : updateLinear (some gs) opt alpha lr w = some w')
    {g : List (Fin d)} (hg : g ∈ gs) (hnz : ∀ i ∈ g, (opt w).W i ≠ 0) :
    (∀ i ∈ g, i ∉ w'.selection) ∨ (∀ i ∈ g, i ∈ w'.selection) := by
  obtain ⟨x, hrow⟩ := group_common_factor_linear hp opt alpha lr w w' hu hg
  by_cases hx : x = 0
  · left
    intro i hi hsel
    refine ((selection_reads_exact_zeros w'.W i).1.mp hsel) ?_
    funext c; rw [hrow i hi c, hx, zero_mul]; rfl
  · right
    intro i hi
    refine (selection_reads_exact_zeros w'.W i).1.mpr fun h0 => hnz i hi ?_
    funext c
    have := congrFun h0 c
    rw [hrow i hi c] at this
    exact (mul_eq_zero.mp this).resolve_left hx

/-- the hypotheses on groups are satisfiable for every `d` (singletons) -/
example : IsPartition ((List.finRange d).map fun i => [i]) := by
  refine ⟨fun g hg => ?_, ?_⟩
  · obtain ⟨i, _, rfl⟩ := List.mem_map.mp hg; simp
  · rw [List.pairwise_map]
    exact (List.nodup_finRange d).imp fun {a b} hab => by simp [List.Disjoint, hab]

/-! ## `check_groups`: partial lists are completed with singletons -/

/-- **`check_groups` accepts a list exactly when its indices are in range and pairwise distinct**, and then
    returns the user's groups followed by the singletons of the uncovered features, in increasing order.
    (`groups=None ↦ None`; the empty list is a legal partial list.) -/
theorem check_groups_accepts_iff (gs : List (List Int)) (n : ℕ) :
    (∃ res, checkGroups (some gs) n = .ok res) ↔ ((∀ i ∈ gs.flatten, 0 ≤ i ∧ i < n) ∧ gs.flatten.Nodup) := by
  show (∃ res, checkAll gs gs.flatten n = .ok res) ↔ _
  rw [checkAll_eval gs gs.flatten n]
  constructor
  · rintro ⟨res, hres⟩
    split_ifs at hres with h1 h2 h3 h3
    · exact ⟨h1, h3⟩
    · exact ⟨h1, h3⟩
  · rintro ⟨hr, hnd⟩
    rw [if_neg (not_not.mpr hr)]
    split_ifs
    · exact ⟨_, rfl⟩
    · exact ⟨_, rfl⟩

/-- … and what it returns then is the completion of the user's list -/
theorem check_groups_returns_completion (gs : List (List Int)) (n : ℕ) (res : Option (List (List Int)))
    (hok : checkGroups (some gs) n = .ok res) : res = some (completeGroups gs n) := by
  obtain ⟨hr, hnd⟩ := (check_groups_accepts_iff gs n).mp ⟨res, hok⟩
  change checkAll gs gs.flatten n = .ok res at hok
  rw [checkAll_eval gs gs.flatten n, if_neg (not_not.mpr hr)] at hok
  by_cases hlen : gs.flatten.length = n
  · -- a full partition is returned as it is; the completion adds nothing
    rw [if_pos hlen, if_pos hnd] at hok
    injection hok with hok
    rw [← hok]
    have hcov := (covers_iff_nodup gs.flatten n hlen hr).mpr hnd
    have hsing : singletons gs.flatten n = [] := by
      unfold singletons
      rw [List.map_eq_nil_iff, List.filter_eq_nil_iff]
      intro i hi
      have := hcov i (List.mem_range.mp hi)
      simpa using this
    unfold completeGroups
    rw [hsing, List.append_nil]
  · rw [if_neg hlen, if_pos hnd] at hok
    injection hok with hok
    rw [← hok]; rfl

/-- **The completion is a partition of `range n` extending the user's groups by singletons**: the user's groups come
    first, unchanged; every added group is a singleton; every feature `0 … n-1` occurs exactly once overall. -/
theorem completion_is_partition (gs : List (List Int)) (n : ℕ) (hr : ∀ i ∈ gs.flatten, 0 ≤ i ∧ i < n)
    (hnd : gs.flatten.Nodup) :
    gs <+: completeGroups gs n ∧
    (∀ g ∈ (completeGroups gs n).drop gs.length, ∃ i : ℕ, i < n ∧ g = [(i : Int)] ∧ (i : Int) ∉ gs.flatten) ∧
    (completeGroups gs n).flatten.Perm ((List.range n).map Int.ofNat) := by
  refine ⟨List.prefix_append _ _, ?_, completeGroups_perm gs n hr hnd⟩
  intro g hg
  unfold completeGroups at hg
  rw [List.drop_left] at hg
  unfold singletons at hg
  obtain ⟨i, hi, rfl⟩ := List.mem_map.mp hg
  obtain ⟨hi1, hi2⟩ := List.mem_filter.mp hi
  exact ⟨i, List.mem_range.mp hi1, rfl, by simpa using hi2⟩

/-- conversely, a list with an index out of range or a repeated index has NO completion into a partition of `range n` -/
theorem no_partition_otherwise (gs rest : List (List Int)) (n : ℕ)
    (hperm : (gs ++ rest).flatten.Perm ((List.range n).map Int.ofNat)) :
    (∀ i ∈ gs.flatten, 0 ≤ i ∧ i < n) ∧ gs.flatten.Nodup := by
  have hinj : Function.Injective Int.ofNat := fun a b hab => Int.ofNat.inj hab
  have hnd : (gs ++ rest).flatten.Nodup := hperm.nodup_iff.mpr (List.nodup_range.map hinj)
  rw [List.flatten_append] at hnd hperm
  refine ⟨fun i hi => ?_, (List.nodup_append.mp hnd).1⟩
  have := hperm.subset (List.mem_append_left _ hi)
  obtain ⟨k, hk, rfl⟩ := List.mem_map.mp this
  have := List.mem_range.mp hk
  exact ⟨Int.natCast_nonneg k, by show (k : Int) < n; exact_mod_cast this⟩

/-- the emptiest partial lists: `[]` is completed to all singletons, and empty groups are carried along -/
example : checkGroups (some []) 3 = .ok (some [[0], [1], [2]]) ∧
    checkGroups (some [[]]) 2 = .ok (some [[], [0], [1]]) := by decide

/-- `groups=None` stays `None` -/
theorem check_groups_none (n : ℕ) : checkGroups none n = .ok none := rfl

/-- an accepted example and its completion: 5 features, user groups `[[3,1]]` ↦ `[[3,1],[0],[2],[4]]` -/
example : checkGroups (some [[3, 1]]) 5 = .ok (some [[3, 1], [0], [2], [4]]) := by decide

end GemVerif.Props.C06
