/-
  C11 — Kernel, metric and GEMINI choices are forwarded faithfully; precomputed = named.

  The objects: `Gen.Forwarding.tables` / `.estimators` are REGENERATED from /repo on every check
  (translator/forwarding.py); `Model.Forwarding` interprets them (`resolveGemini` = `Est(**hyper).get_gemini()`,
  `estAffinity` = `get_gemini().compute_affinity(X, y)`, `estOwnKernel` = `_compute_kernel`).

  `Spec.Forwarding` below is HAND-WRITTEN from the docstrings of the 18 estimators and of the GEMINI classes and is
  the only place that says what the documentation promises.  The table theorems compare the two by `decide` over
  every estimator and every representative hyperparameter assignment of `Lemmas.Forwarding`; the dispatch
  theorems hold for an ARBITRARY interpretation `ops` of scikit-learn's pairwise functions and user callables.

  Not a theorem here (validated bitwise on the real code by harness/props/c11.py): that `fit`, `path` and `score`
  depend on the kernel/metric hyperparameters only through the affinity matrix and the resolved GEMINI.
-/
import GemVerif.Lemmas.Forwarding
import GemVerif.Gen.Registry

namespace GemVerif.Spec.Forwarding
open GemVerif.Model.Forwarding

/-- `MMDGEMINI` / `*MMD` docstrings: "kernel: {'additive_chi2', 'chi2', 'cosine','linear','poly','polynomial',
    'rbf','laplacian','sigmoid', 'precomputed'}, default='linear'" -/
def mmdKernels : List String :=
  ["additive_chi2", "chi2", "cosine", "linear", "poly", "polynomial", "rbf", "laplacian", "sigmoid", "precomputed"]

/-- `WassersteinGEMINI` / `*Wasserstein` docstrings: "metric: {'cosine', 'euclidean', 'l2','l1','manhattan',
    'cityblock', 'precomputed'}, default='euclidean'" -/
def wassMetrics : List String := ["cosine", "euclidean", "l2", "l1", "manhattan", "cityblock", "precomputed"]

/-- every GEMINI class: "epsilon: float, default=1e-12" -/
def defaultEps : String := "1e-12"

def given (h : Hyper) (k : String) (dflt : Atom) : Val := (lookup h k).getD (.atom dflt)

/-- "kernel_params: dict, default=None — a dictionary of keyword arguments to pass to the chosen kernel function" -/
def paramsDoc : Val → Option (Option Params)
  | .atom .none => some none
  | .atom (.dict d) => some (some d)
  | _ => none

/-- the affinity a `kernel` / `metric` value names: a callable, the user's matrix, or one of the documented
    names; anything else is outside the documentation (`none`) -/
def affDoc (names : List String) (k : Val) (p : Option Params) : Option AffKind :=
  match k with
  | .atom (.fn f) => some (.callable f p)
  | .atom (.str s) =>
      if s = "precomputed" then some (.precomputed p) else if s ∈ names then some (.named s p) else none
  | _ => none

/-- `LinearMMD`, `MLPMMD`, `SparseLinearMMD`, `SparseMLPMMD`, `CategoricalMMD`: "maximisation of the MMD GEMINI";
    "ovo: bool, default=False — MMD OvA (False) or MMD OvO (True)"; kernel and kernel_params as above. -/
def mmdDoc (h : Hyper) : Except Unit GeminiDoc :=
  match given h "ovo" (.bool false), paramsDoc (given h "kernel_params" .none) with
  | .atom (.bool ovo), some p =>
      match affDoc mmdKernels (given h "kernel" (.str "linear")) p with
      | some a => .ok ⟨"MMDGEMINI", ovo, a, defaultEps⟩
      | none => .error ()
  | _, _ => .error ()

/-- `LinearWasserstein`, `MLPWasserstein`, `CategoricalWasserstein`: "maximisation of the Wasserstein GEMINI";
    "ovo: bool, default=False"; "metric … default='euclidean'"; "metric_params: dict, default=None".
    The docstrings list no callable, and `WassersteinGEMINI` documents none: a callable metric is outside the
    documentation. -/
def wassDoc (h : Hyper) : Except Unit GeminiDoc :=
  match given h "ovo" (.bool false), paramsDoc (given h "metric_params" .none), given h "metric" (.str "euclidean") with
  | .atom (.bool ovo), some p, .atom (.str s) =>
      match affDoc wassMetrics (.atom (.str s)) p with
      | some a => .ok ⟨"WassersteinGEMINI", ovo, a, defaultEps⟩
      | none => .error ()
  | _, _, _ => .error ()

/-- `RIM`, `KernelRIM`: "maximisation of the classical mutual information"; `SparseLinearMI`: "the MI GEMINI
    (KL one-vs-all)".  No affinity. -/
def miDoc : GeminiDoc := ⟨"KLGEMINI", false, .notNeeded, defaultEps⟩

/-- the 13 names of `gemclus.gemini.AVAILABLE_GEMINIS`: "Default GEMINIs involve the Euclidean metric or linear
    kernel"; `mi` is the KL one-vs-all GEMINI -/
def nameDoc : List (String × GeminiDoc) := [
  ("mmd_ova", ⟨"MMDGEMINI", false, .named "linear" none, defaultEps⟩),
  ("mmd_ovo", ⟨"MMDGEMINI", true, .named "linear" none, defaultEps⟩),
  ("wasserstein_ova", ⟨"WassersteinGEMINI", false, .named "euclidean" none, defaultEps⟩),
  ("wasserstein_ovo", ⟨"WassersteinGEMINI", true, .named "euclidean" none, defaultEps⟩),
  ("kl_ova", ⟨"KLGEMINI", false, .notNeeded, defaultEps⟩),
  ("kl_ovo", ⟨"KLGEMINI", true, .notNeeded, defaultEps⟩),
  ("mi", ⟨"KLGEMINI", false, .notNeeded, defaultEps⟩),
  ("tv_ova", ⟨"TVGEMINI", false, .notNeeded, defaultEps⟩),
  ("tv_ovo", ⟨"TVGEMINI", true, .notNeeded, defaultEps⟩),
  ("hellinger_ova", ⟨"HellingerGEMINI", false, .notNeeded, defaultEps⟩),
  ("hellinger_ovo", ⟨"HellingerGEMINI", true, .notNeeded, defaultEps⟩),
  ("chi2_ova", ⟨"ChiSquareGEMINI", false, .notNeeded, defaultEps⟩),
  ("chi2_ovo", ⟨"ChiSquareGEMINI", true, .notNeeded, defaultEps⟩)]

/-- "gemini: str, GEMINI instance or None, default=<dflt> … a GEMINI can also be passed as an instance.  If set to
    None, the GEMINI will be MMD OvA with linear kernel." -/
def genericDoc (dflt : String) (h : Hyper) : Except Unit GeminiDoc :=
  match given h "gemini" (.str dflt) with
  | .atom .none => .ok ⟨"MMDGEMINI", false, .named "linear" none, defaultEps⟩
  | .atom (.str s) => match lookup nameDoc s with
      | some d => .ok d
      | none => .error ()
  | .gem g => match describe g with
      | some d => .ok d
      | none => .error ()
  | _ => .error ()

/-- THE documented forwarding table: estimator, hyperparameters ↦ the GEMINI it trains and scores with -/
def forwardingDoc (est : String) (h : Hyper) : Except Unit GeminiDoc :=
  if est ∈ ["LinearMMD", "MLPMMD", "SparseLinearMMD", "SparseMLPMMD", "CategoricalMMD"] then mmdDoc h
  else if est ∈ ["LinearWasserstein", "MLPWasserstein", "CategoricalWasserstein"] then wassDoc h
  else if est ∈ ["RIM", "KernelRIM", "SparseLinearMI"] then .ok miDoc
  else if est ∈ ["LinearModel", "MLPModel", "SparseLinearModel", "SparseMLPModel", "CategoricalModel"] then
    genericDoc "mmd_ova" h
  else if est = "Douglas" then genericDoc "wasserstein_ova" h     -- "gemini: … default='wasserstein_ova'"
  else .error ()

/-- the scikit-learn function a GEMINI class evaluates its named affinity with -/
def pairwiseFn (cls : String) : String :=
  if cls = "MMDGEMINI" then "pairwise_kernels" else "pairwise_distances"

/-- the documented affinity of a documented GEMINI, as a symbolic matrix: the named scikit-learn kernel/metric of
    `X` "evaluated with the given kernel_params/metric_params", the output of the callable on `X`, the user's
    matrix — "a missing matrix is an error" — or nothing (f-divergences) -/
def affinityDoc (d : GeminiDoc) (y : Option Sym) : Except Unit (Option Sym) :=
  match d.aff with
  | .notNeeded => .ok none
  | .named s p => .ok (some (.pairwise (pairwiseFn d.cls) [.X] (.name s) (p.getD [])))
  | .callable f _ => .ok (some (.call f [.X]))
  | .precomputed _ => match y with
      | some m => .ok (some m)
      | none => .error ()

end GemVerif.Spec.Forwarding

namespace GemVerif.Props.C11
open GemVerif.Model.Forwarding GemVerif.Lemmas.Forwarding
open GemVerif.Gen.Forwarding (tables estimators)
open GemVerif.Spec.Forwarding

/-! ### the translated table against the documented table -/

/-- The translator found exactly the 18 estimators, in the order of the property text. -/
theorem estimators_complete :
    estimators.map (·.name) =
      ["LinearModel", "LinearMMD", "LinearWasserstein", "RIM", "KernelRIM", "MLPModel", "MLPMMD", "MLPWasserstein",
       "SparseLinearModel", "SparseLinearMMD", "SparseLinearMI", "SparseMLPModel", "SparseMLPMMD",
       "CategoricalModel", "CategoricalMMD", "CategoricalWasserstein", "Douglas", "Kauri"] := by
  decide

/-- MMD estimators (Linear, MLP, SparseLinear, SparseMLP, Categorical): for every representative assignment of
    `ovo` (omitted / False / True), `kernel` (omitted, named, "precomputed", callable, undocumented name) and
    `kernel_params` (omitted / None / two dictionaries) `get_gemini()` is the documented MMD GEMINI — same OvA/OvO
    mode, same kernel, the SAME parameter dictionary, default epsilon — or both reject the value. -/
theorem mmd_estimators_forward :
    ∀ e ∈ mmdEstimators, ∀ h ∈ mmdHypers, docOf (resolveGemini tables (est e) h) = forwardingDoc e h := by
  decide

/-- Wasserstein estimators (Linear, MLP, Categorical): same statement with `metric` / `metric_params`; callables
    and names outside the documented list are rejected by both. -/
theorem wasserstein_estimators_forward :
    ∀ e ∈ wassEstimators, ∀ h ∈ wassHypers, docOf (resolveGemini tables (est e) h) = forwardingDoc e h := by
  decide

/-- RIM, KernelRIM and SparseLinearMI train with the KL one-vs-all GEMINI (mutual information), whatever their
    other hyperparameters. -/
theorem mi_estimators_forward :
    ∀ e ∈ miEstimators, docOf (resolveGemini tables (est e) []) = .ok miDoc ∧
      docOf (resolveGemini tables (est e) []) = forwardingDoc e [] := by
  decide

/-- `KernelRIM`'s `base_kernel` / `base_kernel_params` do not leak into its GEMINI. -/
theorem kernelrim_gemini_ignores_base_kernel :
    ∀ h ∈ miHypers, docOf (resolveGemini tables (est "KernelRIM") h) = .ok miDoc := by
  decide

/-- Generic estimators (LinearModel, MLPModel, SparseLinearModel, SparseMLPModel, CategoricalModel, Douglas):
    `gemini` omitted ↦ the documented default ("mmd_ova"; Douglas "wasserstein_ova"), `None` ↦ MMD one-vs-all with
    the linear kernel, each of the 13 names ↦ its documented GEMINI, an unknown name ↦ rejected, an instance ↦ that
    very instance. -/
theorem generic_estimators_forward :
    ∀ e ∈ genericEstimators, ∀ h ∈ geminiHypers, docOf (resolveGemini tables (est e) h) = forwardingDoc e h := by
  decide

/-- A GEMINI instance is returned untouched (object identity in the model: the same `GeminiObj`). -/
theorem instance_is_itself :
    ∀ e ∈ genericEstimators, ∀ g ∈ instances, resolveGemini tables (est e) [("gemini", .gem g)] = .ok g := by
  decide

/-- The registry as this translator reads it (constructor calls, resolved through the constructors) agrees with
    the registry table of C01 (`Gen.registry`, produced by translator/tables.py): class, mode, kernel/metric. -/
theorem registry_consistent :
    ∀ r ∈ GemVerif.Gen.registry,
      docOf (strToGemini tables r.1) =
        .ok ⟨r.2.1, r.2.2.1, if r.2.2.2 = "" then .notNeeded else .named r.2.2.2 none, defaultEps⟩ := by
  decide

/-! ### the affinity every estimator computes -/

/-- For every MMD estimator and every representative assignment, with and without a user matrix `y`: the affinity
    `get_gemini().compute_affinity(X, y)` is the documented one — `pairwise_kernels` of `X` with the named kernel
    and exactly the given parameter dictionary, `f(X)` for a callable, `y` itself for "precomputed", an error when
    that `y` is missing. -/
theorem mmd_affinity_as_documented :
    ∀ e ∈ mmdEstimators, ∀ h ∈ mmdHypers, ∀ y ∈ [none, some Sym.user],
      okOrRejected (estAffinity tables symOps (est e) h y).res = (forwardingDoc e h >>= (affinityDoc · y)) := by
  decide

/-- Wasserstein estimators: `pairwise_distances` of `X` with the named metric and exactly the given dictionary,
    `y` itself for "precomputed", an error when it is missing. -/
theorem wasserstein_affinity_as_documented :
    ∀ e ∈ wassEstimators, ∀ h ∈ wassHypers, ∀ y ∈ [none, some Sym.user],
      okOrRejected (estAffinity tables symOps (est e) h y).res = (forwardingDoc e h >>= (affinityDoc · y)) := by
  decide

/-- Generic estimators: the affinity of the resolved GEMINI (default, `None`, name or instance); `None` for the
    f-divergences. -/
theorem generic_affinity_as_documented :
    ∀ e ∈ genericEstimators, ∀ h ∈ geminiHypers, ∀ y ∈ [none, some Sym.user],
      okOrRejected (estAffinity tables symOps (est e) h y).res = (forwardingDoc e h >>= (affinityDoc · y)) := by
  decide

/-- RIM, KernelRIM, SparseLinearMI: no affinity (`None`), with or without `y`. -/
theorem mi_affinity_is_none :
    ∀ e ∈ miEstimators, ∀ y ∈ [none, some Sym.user], (estAffinity tables symOps (est e) [] y) = ⟨0, .ok none⟩ := by
  decide

/-- "(a missing matrix is an error)": every GEMINI-based estimator asked for a precomputed affinity and given no
    matrix raises `ValueError` — for each MMD / Wasserstein estimator, both modes, any parameter value, and for the
    generic estimators holding a precomputed instance. -/
theorem missing_matrix_is_error :
    (∀ e ∈ mmdEstimators, ∀ o ∈ ovoVals, ∀ p ∈ paramVals,
      (estAffinity tables symOps (est e) (mmdHyper o (some (.str "precomputed")) p) none).res = .error "ValueError") ∧
    (∀ e ∈ wassEstimators, ∀ o ∈ ovoVals, ∀ p ∈ paramVals,
      (estAffinity tables symOps (est e) (wassHyper o (some (.str "precomputed")) p) none).res = .error "ValueError") ∧
    (∀ e ∈ genericEstimators, ∀ g ∈ instances, (describe g).any (fun d => d.aff matches .precomputed _) →
      (estAffinity tables symOps (est e) [("gemini", .gem g)] none).res = .error "ValueError") := by
  decide

/-! ### precomputed ≡ named, for an arbitrary interpretation of scikit-learn -/

section generic
variable {M : Type} (ops : Ops M)

/-- MMD estimators: handing `kernel="precomputed"` the matrix `pairwise_kernels(X, metric=s, **params)` gives the
    same affinity (and no warning) as naming the kernel `s` with `kernel_params=params` — whatever scikit-learn
    computes (`ops` arbitrary), for every documented name, both modes, any dictionary, and whatever `y` the named
    call receives. -/
theorem mmd_precomputed_eq_named :
    ∀ e ∈ mmdEstimators, ∀ ovo : Bool, ∀ s ∈ namedKernels, ∀ (p : Option Params) (y : Option M),
      estAffinity tables ops (est e) (mmdHyper (some ovo) (some (.str "precomputed")) (some .none))
          (some (ops.pairwise "pairwise_kernels" [.X] (.name s) (p.getD [])))
        = estAffinity tables ops (est e) (mmdHyper (some ovo) (some (.str s)) (some (optAtom p))) y := by
  intro e he ovo s hs p y
  have hne : s ≠ "precomputed" := by
    intro h; subst h; revert hs; decide
  unfold estAffinity
  rw [mmd_est_builds ovo _ _ e he, mmd_est_builds ovo _ _ e he,
    buildMMD_none ovo "precomputed" (List.mem_cons_self ..), buildMMD_opt ovo p s (List.mem_cons_of_mem _ hs)]
  simp only [computeAffinity_mmdObj]
  rw [mmd_precomputed ops _ _ rfl, mmd_named ops _ s (optAtom p) y rfl hne rfl (optAtom_cases p), paramsOf_optAtom]

/-- … and the two estimators resolve to the same GEMINI class, mode and epsilon (they differ only in the
    attributes that name the affinity). -/
theorem mmd_precomputed_same_objective :
    ∀ e ∈ mmdEstimators, ∀ ovo : Bool, ∀ s ∈ namedKernels, ∀ p : Option Params,
      docOf (resolveGemini tables (est e) (mmdHyper (some ovo) (some (.str "precomputed")) (some .none)))
          = .ok ⟨"MMDGEMINI", ovo, .precomputed none, "1e-12"⟩ ∧
      docOf (resolveGemini tables (est e) (mmdHyper (some ovo) (some (.str s)) (some (optAtom p))))
          = .ok ⟨"MMDGEMINI", ovo, .named s p, "1e-12"⟩ := by
  intro e he ovo s hs p
  have hne : s ≠ "precomputed" := by
    intro h; subst h; revert hs; decide
  rw [mmd_est_builds ovo _ _ e he, mmd_est_builds ovo _ _ e he,
    buildMMD_none ovo "precomputed" (List.mem_cons_self ..), buildMMD_opt ovo p s (List.mem_cons_of_mem _ hs)]
  refine ⟨rfl, ?_⟩
  cases p <;> simp [docOf, describe, mmdObj, lookup, optAtom, optParams, hne]

/-- Wasserstein estimators: same statement with `pairwise_distances` and `metric_params`. -/
theorem wasserstein_precomputed_eq_named :
    ∀ e ∈ wassEstimators, ∀ ovo : Bool, ∀ s ∈ namedMetrics, ∀ (p : Option Params) (y : Option M),
      estAffinity tables ops (est e) (wassHyper (some ovo) (some (.str "precomputed")) (some .none))
          (some (ops.pairwise "pairwise_distances" [.X] (.name s) (p.getD [])))
        = estAffinity tables ops (est e) (wassHyper (some ovo) (some (.str s)) (some (optAtom p))) y := by
  intro e he ovo s hs p y
  have hne : s ≠ "precomputed" := by
    intro h; subst h; revert hs; decide
  unfold estAffinity
  rw [wass_est_builds ovo _ _ e he, wass_est_builds ovo _ _ e he,
    buildWass_none ovo "precomputed" (List.mem_cons_self ..), buildWass_opt ovo p s (List.mem_cons_of_mem _ hs)]
  simp only [computeAffinity_wassObj]
  rw [wass_precomputed ops _ _ rfl, wass_named ops _ s (optAtom p) y rfl hne rfl (optAtom_cases p), paramsOf_optAtom]

theorem wasserstein_precomputed_same_objective :
    ∀ e ∈ wassEstimators, ∀ ovo : Bool, ∀ s ∈ namedMetrics, ∀ p : Option Params,
      docOf (resolveGemini tables (est e) (wassHyper (some ovo) (some (.str "precomputed")) (some .none)))
          = .ok ⟨"WassersteinGEMINI", ovo, .precomputed none, "1e-12"⟩ ∧
      docOf (resolveGemini tables (est e) (wassHyper (some ovo) (some (.str s)) (some (optAtom p))))
          = .ok ⟨"WassersteinGEMINI", ovo, .named s p, "1e-12"⟩ := by
  intro e he ovo s hs p
  have hne : s ≠ "precomputed" := by
    intro h; subst h; revert hs; decide
  rw [wass_est_builds ovo _ _ e he, wass_est_builds ovo _ _ e he,
    buildWass_none ovo "precomputed" (List.mem_cons_self ..), buildWass_opt ovo p s (List.mem_cons_of_mem _ hs)]
  refine ⟨rfl, ?_⟩
  cases p <;> simp [docOf, describe, wassObj, lookup, optAtom, optParams, hne]

/-- A callable kernel is used as `f(X)`: for every MMD estimator, both modes, with or without a parameter
    dictionary (which is ignored), with or without `y`. -/
theorem mmd_callable_is_f_of_X :
    ∀ e ∈ mmdEstimators, ∀ (ovo : Bool) (f : String) (p : Option Params) (y : Option M),
      (estAffinity tables ops (est e) (mmdHyper (some ovo) (some (.fn f)) (some (optAtom p))) y).res
        = .ok (some (ops.call f [.X])) := by
  intro e he ovo f p y
  unfold estAffinity
  rw [mmd_est_builds ovo _ _ e he, buildMMD_fn ovo f p]
  simp only [computeAffinity_mmdObj]
  exact mmd_callable ops _ f (optAtom p) y rfl rfl

/-- `Kauri(kernel=s)._compute_kernel(X, y)` is `pairwise_kernels(X, metric=s)` with NO parameters (Kauri documents
    none: "all kernel parameters are the default ones"), so `Kauri(kernel="precomputed")` given that matrix
    computes with the same kernel.  Any string `s` other than "precomputed". -/
theorem kauri_precomputed_eq_named (s : String) (hs : s ≠ "precomputed") (y : Option M) :
    estOwnKernel ops (est "Kauri") [("kernel", .atom (.str "precomputed"))]
        (some (ops.pairwise "pairwise_kernels" [.X] (.name s) []))
      = estOwnKernel ops (est "Kauri") [("kernel", .atom (.str s))] y := by
  have h1 := kauri_precomputed ops
    [("max_clusters", .tok "3"), ("max_depth", .none), ("min_samples_split", .tok "2"), ("min_samples_leaf", .tok "1"),
     ("max_features", .none), ("max_leaves", .none), ("kernel", .str "precomputed"), ("verbose", .bool false),
     ("random_state", .none)] (ops.pairwise "pairwise_kernels" [.X] (.name s) []) rfl
  have h2 := kauri_named ops
    [("max_clusters", .tok "3"), ("max_depth", .none), ("min_samples_split", .tok "2"), ("min_samples_leaf", .tok "1"),
     ("max_features", .none), ("max_leaves", .none), ("kernel", .str s), ("verbose", .bool false),
     ("random_state", .none)] s y rfl hs
  exact h1.trans h2.symm

/-- Kauri's documented fall-back (DESIGN §12: modelled as the code does, not reported): `kernel="precomputed"`
    without a matrix warns once and uses the linear kernel. -/
theorem kauri_missing_matrix_falls_back_to_linear :
    estOwnKernel ops (est "Kauri") [("kernel", .atom (.str "precomputed"))] none
      = ⟨1, .ok (some (ops.pairwise "pairwise_kernels" [.X] (.name "linear") []))⟩ := by
  rfl

/-- `KernelRIM._compute_kernel`: the named kernel between the points and the TRAINING points with exactly
    `base_kernel_params`, or `f(X, input_data_)` for a callable. -/
theorem kernelrim_kernel_between_new_and_training (s : String) (p : Option Params) (f : String) (y : Option M) :
    estOwnKernel ops (est "KernelRIM") [("base_kernel", .atom (.str s)), ("base_kernel_params", .atom (optAtom p))] y
        = ⟨0, .ok (some (ops.pairwise "pairwise_kernels" [.X, .train] (.name s) (p.getD [])))⟩ ∧
    (estOwnKernel ops (est "KernelRIM") [("base_kernel", .atom (.fn f)), ("base_kernel_params", .atom (optAtom p))] y).res
        = .ok (some (ops.call f [.X, .train])) := by
  cases p <;> exact ⟨rfl, rfl⟩

end generic

/-! ### the translated dispatch trees, for any object carrying the attributes -/

section trees
variable {M : Type} (ops : Ops M)
open GemVerif.Gen.Forwarding (aff_MMDGEMINI aff_WassersteinGEMINI)

/-- `MMDGEMINI.compute_affinity`, for ANY kernel string and ANY attribute list: a matrix equal to the named kernel
    given to "precomputed" is the affinity the named kernel yields. -/
theorem mmd_dispatch_precomputed_eq_named (aN aP : List (String × Atom)) (s : String) (pa : Atom) (y : Option M)
    (hN : lookup aN "kernel" = some (.str s)) (hs : s ≠ "precomputed")
    (hp : lookup aN "kernel_params" = some pa) (hpa : pa = .none ∨ ∃ d, pa = .dict d)
    (hP : lookup aP "kernel" = some (.str "precomputed")) :
    runAff ops aP (some (ops.pairwise "pairwise_kernels" [.X] (.name s) (paramsOf pa))) aff_MMDGEMINI
      = runAff ops aN y aff_MMDGEMINI := by
  rw [mmd_named ops aN s pa y hN hs hp hpa, mmd_precomputed ops aP _ hP]

/-- `WassersteinGEMINI.compute_affinity`, likewise. -/
theorem wasserstein_dispatch_precomputed_eq_named (aN aP : List (String × Atom)) (s : String) (pa : Atom)
    (y : Option M) (hN : lookup aN "metric" = some (.str s)) (hs : s ≠ "precomputed")
    (hp : lookup aN "metric_params" = some pa) (hpa : pa = .none ∨ ∃ d, pa = .dict d)
    (hP : lookup aP "metric" = some (.str "precomputed")) :
    runAff ops aP (some (ops.pairwise "pairwise_distances" [.X] (.name s) (paramsOf pa))) aff_WassersteinGEMINI
      = runAff ops aN y aff_WassersteinGEMINI := by
  rw [wass_named ops aN s pa y hN hs hp hpa, wass_precomputed ops aP _ hP]

/-- The hypotheses above are satisfiable (a named object and a precomputed one exist). -/
example : ∃ (aN aP : List (String × Atom)) (s : String) (pa : Atom),
    lookup aN "kernel" = some (.str s) ∧ s ≠ "precomputed" ∧ lookup aN "kernel_params" = some pa ∧
    (pa = .none ∨ ∃ d, pa = .dict d) ∧ lookup aP "kernel" = some (.str "precomputed") :=
  ⟨[("kernel", .str "rbf"), ("kernel_params", .dict [("gamma", "0.3")])], [("kernel", .str "precomputed")], "rbf",
   .dict [("gamma", "0.3")], rfl, by decide, rfl, Or.inr ⟨_, rfl⟩, rfl⟩

end trees

end GemVerif.Props.C11
