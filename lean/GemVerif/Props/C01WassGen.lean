/-
  C01 / C02 / C13 / C17 (companion) — the hand model `wassScore` / `wassGrad` of Model/Gemini.lean IS what
  `WassersteinGEMINI.evaluate` (gemclus/gemini/_geomdistances.py) says now.

  `Gen/Wass.lean` is regenerated on every run by translator/wass.py from the body of `WassersteinGEMINI.evaluate` in /repo:
  FOUR definitions, one per value of (`self.ovo`, `return_grad`) — the two `if`s are folded —, a literal transcription of the
  statements into the untyped array language of GemVerif/Np.lean … Np4.lean.  The Python loops `for k in range(K):` and
  `for k1 in range(K): for k2 in range(k1 + 1, K):` (or `for k1, k2 in itertools.combinations(range(K), 2):`, which is the same
  thing) are `List.foldl`s over `List.range K` / `pyRange (k1 + 1) K` whose state is the tuple of the arrays and lists the body
  writes into (`wasserstein_distances[k] = …`, `wasserstein_distances[k1, k2] = …`, `grads[:, k1] += …`,
  `dual_variables[k] = log` / `dual_variables.append(log)`) preceded by the conjunction of the error flags of the iterations
  done so far; anything NumPy / Python would reject (shape mismatch, index out of range, `None["u"]`, `np.vstack([])`) sets
  `ok := false`, and the returned arrays collect the `ok` of EVERY intermediate array.
  POT's `ot.emd2(a, b, M, log=True)` is a PARAMETER `emd2` of the generated definitions.  The theorems instantiate it with
  `EmdR.ofModel emd`, where `emd M a b : Emd α n` (cost matrix, two weight vectors ↦ value and dual potentials `u`, `v`) is an
  ARBITRARY solver: `EmdR.ofModel emd a b M` applies `emd` to the contents of the arrays `M`, `a`, `b` (and raises unless their
  shapes are `(n, n)`, `(n,)`, `(n,)`).  The hand model gets the same solver with the cost matrix fixed, `emd κ`: each theorem
  thus also says that the source hands `affinity` itself, `wy[k]` (resp. `wy[k1]`, `wy[k2]`) and the uniform weights, in
  this order, to POT.

  Every theorem says: the generated definition, applied to an `n × K` prediction array (`Arr.ofFn P`), the clipping constant
  `ε = self.epsilon` and an `n × n` affinity (`Arr.ofFn κ`), raises no NumPy / Python error, has the shape of the hand model's
  value and has, entry for entry, that value (`Arr.Eqv`) — for ALL sizes `n`, `K`, with ONE exception that the source itself
  makes: `WassersteinGEMINI(ovo=False)` with `return_grad=True` and NO cluster (`K = 0`) raises (`np.vstack` of an empty
  list), so `wass_ova_grad_eq` assumes `0 < K` and `wass_ova_grad_no_cluster_raises` states the exception.
    * GENERIC theorems (`[RealLike α]`, hence `Float` as well as `ℝ`): both sides compute in the same order — the one-vs-all
      score and gradient, the one-vs-one score (`np.dot(pi, np.dot(W, pi))` is `Σ_a π_a (Σ_b W_ab π_b)` on both sides), also as
      first component of the one-vs-one call with `return_grad=True`.
    * REAL-NUMBER theorem (`ℝ`): the one-vs-one gradient.  The source starts from `np.zeros` and adds to columns `k1` and `k2`
      of `grads` the two terms of each pair `k1 < k2` in lexicographic order (a left-nested sum `((0 + t) + t') + …`), the
      model sums, for each column `k`, over the other clusters `o` (`sumFin`, right-nested, with a `0` at `o = k`): equal by
      associativity and `0 + x = x` only.
  The proofs do not depend on which temporaries the source uses: every `let` is unfolded and the NumPy EXPRESSIONS are named
  (`wass_prefix`, `name_expr`); the loops are handled by invariants (Lemmas/WassGen.lean: `OvaInv`, `InvW`, `GVals`) on the
  fold that is in the goal, whatever names its body uses.  Both ways of collecting the one-vs-all logs (`[None] * K` + item
  assignment, `[]` + `append`) are accepted.
  The clipping `np.clip(y_pred, self.epsilon, 1 - self.epsilon)` and the mask `clip_mask` are part of the equalities (`clipP`,
  `clipMask` of the model): the definedness theorems of C17 about `wassScore` / `wassGrad` speak about the current source.
-/
import GemVerif.Lemmas.Np4
import GemVerif.Lemmas.WassGen
import GemVerif.Gen.Wass
import GemVerif.Model.Gemini
import GemVerif.NumReal

namespace GemVerif.Props.C01WassGen
open GemVerif GemVerif.RealLike GemVerif.Np GemVerif.Np.Arr GemVerif.Model GemVerif.Lemmas.WassGen

set_option linter.unusedSimpArgs false
set_option linter.unusedVariables false
set_option linter.unusedTactic false
set_option linter.unreachableTactic false

/-! ## Part 1 — every `RealLike` number type (IEEE doubles included) -/

section generic
variable {α : Type} [RealLike α] {n K : Nat}

/-- `WassersteinGEMINI(ovo=False).evaluate(P, κ)` as written in the source — clip, `pi = y_pred.mean(0)`,
    `wy = (y_pred / (pi * N)).T`, the loop `for k in range(K)` calling `ot.emd2(wy[k], np.ones(N) / N, affinity, log=True)`
    and storing the value in `wasserstein_distances[k]`, then `np.dot(pi, wasserstein_distances)` — raises nothing and returns
    exactly the model's `wassScore (emd κ) ε false P`, as a 0-d array; for every number type (doubles included), every
    solver `emd`, all sizes. -/
theorem wass_ova_eq (emd : (Fin n → Fin n → α) → (Fin n → α) → (Fin n → α) → Emd α n) (ε : α)
    (P : Fin n → Fin K → α) (κ : Fin n → Fin n → α) :
    Eqv (Gen.Wass.wass_ova (EmdR.ofModel emd) ε (ofFn P) (ofFn κ)) (ofScalar (wassScore (emd κ) ε false P)) := by
  unfold Gen.Wass.wass_ova
  wass_prefix
  have hcw : IsRow (divs (full 1 n (1 : α)) (nat n)) (fun _ : Fin n => (1 : α) / nat n) := by
    refine ⟨?_, ?_, ?_, ?_⟩ <;> simp
  name_expr cw := divs (full 1 n (1 : α)) (nat n) at hcw
  have hcall : ∀ k : Fin K, EmdR.ofModel emd (row wy k.val) cw (ofFn κ)
      = EmdR.ofEmd (emd κ (wassWeights ε P k) (fun _ => 1 / nat n)) := fun k =>
    EmdR.ofModel_eq emd (hwy.row k) hcw ⟨rfl, rfl, rfl, fun i j => ofFn_get κ i j⟩
  generalize hE : (fun k : Fin K => emd κ (wassWeights ε P k) (fun _ => 1 / nat n)) = E at hcall
  have hE' : ∀ k, emd κ (wassWeights ε P k) (fun _ => 1 / nat n) = E k := fun k => congrFun hE k
  simp only [hE'] at hcall
  obtain ⟨hwy_ok, -, -, -⟩ := hwy
  obtain ⟨hcw_ok, -, -, -⟩ := hcw
  generalize hR : List.foldl _ _ (List.range _) = R
  have hinv : R.1 = true ∧ IsRow R.2.1 (fun k : Fin K => (E k).value) ∧ R.2.2.length = K ∧
      ∀ j : Fin K, ∃ x, R.2.2[j.val]? = some x ∧ LogOf.rel x (E j) := by
    rw [← hR]
    first
    | refine (foldl_range_inv (OvaInv E fun _ => K) K _ _ (OvaInv.init_set E (by simp [hy_c])) ?_).final rfl
      intro k st hk h
      have hc := hcall ⟨k, hk⟩
      dsimp only at hc ⊢
      simp only [hc]
      exact h.step_set hk (by simp [h.ok, h.wd_ok, h.wd_r, h.wd_c, hk])
    | refine (foldl_range_inv (OvaInv E id) K _ _ (OvaInv.init_append E (by simp [hy_c])) ?_).final rfl
      intro k st hk h
      have hc := hcall ⟨k, hk⟩
      dsimp only at hc ⊢
      simp only [hc]
      exact h.step_append hk (by simp [h.ok, h.wd_ok, h.wd_r, h.wd_c, hk]) rfl
  obtain ⟨hR1, ⟨hR_ok, hR_r, hR_c, hR_get⟩, -, -⟩ := hinv
  apply eqv_ofScalar
  · simp [hy_ok, hpi_ok, hpi_r, hpi_c, hwy_ok, hcw_ok, hR1, hR_ok, hR_r, hR_c]
  · simp
  · simp
  · simp [hpi_c, hpi_get, hR_get, wassScore, wassScoreT, ← hE]

/-- With `return_grad=True` and at least one cluster, `WassersteinGEMINI(ovo=False).evaluate(P, κ)` returns (1) the same
    score `wassScore (emd κ) ε false P` and (2) as gradient — `u_bar = np.vstack([x["u"] - x["u"].mean() for x in
    dual_variables]).T`, `u_bar / N + wasserstein_distances / N`, minus in place `(y_pred * u_bar).sum(0) / (N * N * pi)`, times
    `clip_mask` — exactly the `n × K` array `wassGrad (emd κ) ε false P` of the model; for every number type, every solver.
    (`0 < K` is needed: see `wass_ova_grad_no_cluster_raises`.) -/
theorem wass_ova_grad_eq (hK : 0 < K) (emd : (Fin n → Fin n → α) → (Fin n → α) → (Fin n → α) → Emd α n) (ε : α)
    (P : Fin n → Fin K → α) (κ : Fin n → Fin n → α) :
    Eqv (Gen.Wass.wass_ova_grad (EmdR.ofModel emd) ε (ofFn P) (ofFn κ)).1 (ofScalar (wassScore (emd κ) ε false P)) ∧
    Eqv (Gen.Wass.wass_ova_grad (EmdR.ofModel emd) ε (ofFn P) (ofFn κ)).2 (ofFn (wassGrad (emd κ) ε false P)) := by
  unfold Gen.Wass.wass_ova_grad
  wass_prefix
  have hcw : IsRow (divs (full 1 n (1 : α)) (nat n)) (fun _ : Fin n => (1 : α) / nat n) := by
    refine ⟨?_, ?_, ?_, ?_⟩ <;> simp
  name_expr cw := divs (full 1 n (1 : α)) (nat n) at hcw
  have hcall : ∀ k : Fin K, EmdR.ofModel emd (row wy k.val) cw (ofFn κ)
      = EmdR.ofEmd (emd κ (wassWeights ε P k) (fun _ => 1 / nat n)) := fun k =>
    EmdR.ofModel_eq emd (hwy.row k) hcw ⟨rfl, rfl, rfl, fun i j => ofFn_get κ i j⟩
  generalize hE : (fun k : Fin K => emd κ (wassWeights ε P k) (fun _ => 1 / nat n)) = E at hcall
  have hE' : ∀ k, emd κ (wassWeights ε P k) (fun _ => 1 / nat n) = E k := fun k => congrFun hE k
  simp only [hE'] at hcall
  obtain ⟨hwy_ok, -, -, -⟩ := hwy
  obtain ⟨hcw_ok, -, -, -⟩ := hcw
  generalize hR : List.foldl _ _ (List.range _) = R
  have hinv : R.1 = true ∧ IsRow R.2.1 (fun k : Fin K => (E k).value) ∧ R.2.2.length = K ∧
      ∀ j : Fin K, ∃ x, R.2.2[j.val]? = some x ∧ LogOf.rel x (E j) := by
    rw [← hR]
    first
    | refine (foldl_range_inv (OvaInv E fun _ => K) K _ _ (OvaInv.init_set E (by simp [hy_c])) ?_).final rfl
      intro k st hk h
      have hc := hcall ⟨k, hk⟩
      dsimp only at hc ⊢
      simp only [hc]
      exact h.step_set hk (by simp [h.ok, h.wd_ok, h.wd_r, h.wd_c, hk])
    | refine (foldl_range_inv (OvaInv E id) K _ _ (OvaInv.init_append E (by simp [hy_c])) ?_).final rfl
      intro k st hk h
      have hc := hcall ⟨k, hk⟩
      dsimp only at hc ⊢
      simp only [hc]
      exact h.step_append hk (by simp [h.ok, h.wd_ok, h.wd_r, h.wd_c, hk]) rfl
  obtain ⟨hR1, ⟨hR_ok, hR_r, hR_c, hR_get⟩, hlen, hL⟩ := hinv
  -- u_bar.T = np.vstack([x["u"] - x["u"].mean() for x in dual_variables])
  generalize hU : vstack (α := α) (List.map _ R.2.2) = U
  have hU' : IsMat U (fun (k : Fin K) (i : Fin n) => (E k).u i - meanV (E k).u) := by
    rw [← hU]
    refine isMat_vstack _ _ hK (by simp [hlen]) fun j => ?_
    obtain ⟨x, hx, hrel⟩ := hL j
    rw [getD_map_of_getElem? _ _ _ hx]
    simp only [LogOf.rel] at hrel
    subst hrel
    refine ⟨?_, ?_, ?_, ?_⟩ <;> simp [sub, meanV]
  obtain ⟨hU_ok, hU_r, hU_c, hU_get⟩ := hU'
  constructor
  · apply eqv_ofScalar
    · simp [add, sub, mul, div, hy_ok, hy_r, hy_c, hpi_ok, hpi_r, hpi_c, hwy_ok, hcw_ok, hR1, hR_ok, hR_r, hR_c, hU_ok, hU_r, hU_c]
    · simp
    · simp
    · simp [hpi_c, hpi_get, hR_get, wassScore, wassScoreT, ← hE]
  · apply eqv_ofFn
    · simp [add, sub, mul, div, hy_ok, hy_r, hy_c, hpi_ok, hpi_r, hpi_c, hwy_ok, hcw_ok, hR1, hR_ok, hR_r, hR_c, hU_ok, hU_r, hU_c]
    · simp [add, sub, mul, div, hy_r, hy_c, hpi_r, hpi_c, hR_r, hR_c, hU_r, hU_c]
    · simp [add, sub, mul, div, hy_r, hy_c, hpi_r, hpi_c, hR_r, hR_c, hU_r, hU_c]
    · intro i k
      simp [add, sub, mul, div, hy_r, hy_c, hy_get, hpi_r, hpi_c, hpi_get, hR_r, hR_c, hR_get, hU_r, hU_c, hU_get,
        wassGrad, wassGradT, clipMask, ← hE]

/-- `WassersteinGEMINI(ovo=True).evaluate(P, κ)` as written in the source — the two nested loops over the pairs `k1 < k2`
    calling `ot.emd2(wy[k1], wy[k2], affinity, log=True)` and storing the value in `wasserstein_distances[k1, k2]` and
    `[k2, k1]` of a `K × K` array of zeros, then `np.dot(pi, np.dot(wasserstein_distances, pi))` — raises nothing and returns
    exactly the model's `wassScore (emd κ) ε true P`; for every number type, every solver, all sizes. -/
theorem wass_ovo_eq (emd : (Fin n → Fin n → α) → (Fin n → α) → (Fin n → α) → Emd α n) (ε : α)
    (P : Fin n → Fin K → α) (κ : Fin n → Fin n → α) :
    Eqv (Gen.Wass.wass_ovo (EmdR.ofModel emd) ε (ofFn P) (ofFn κ)) (ofScalar (wassScore (emd κ) ε true P)) := by
  unfold Gen.Wass.wass_ovo
  wass_prefix
  have hcall : ∀ a b : Fin K, EmdR.ofModel emd (row wy a.val) (row wy b.val) (ofFn κ)
      = EmdR.ofEmd (emd κ (wassWeights ε P a) (wassWeights ε P b)) := fun a b =>
    EmdR.ofModel_eq emd (hwy.row a) (hwy.row b) ⟨rfl, rfl, rfl, fun i j => ofFn_get κ i j⟩
  generalize hE : (fun a b : Fin K => emd κ (wassWeights ε P a) (wassWeights ε P b)) = E at hcall
  have hE' : ∀ a b, emd κ (wassWeights ε P a) (wassWeights ε P b) = E a b := fun a b => congrFun (congrFun hE a) b
  simp only [hE'] at hcall
  obtain ⟨hwy_ok, -, -, -⟩ := hwy
  generalize hR : List.foldl _ _ (List.range _) = R
  have hinv : R.1 = true ∧ InvW E K 0 R.2 := by
    rw [← hR]
    refine foldl_range_inv (fun k1 (st : Bool × Arr α) => st.1 = true ∧ InvW E k1 0 st.2) K _ _ ⟨rfl, InvW.init E⟩ ?_
    rintro k1 st hk1 ⟨h1, hW⟩
    dsimp only
    generalize hR2 : List.foldl _ _ (pyRange _ _) = R2
    have hinner : R2.1 = true ∧ InvW E k1 K R2.2 := by
      rw [← hR2]
      refine foldl_pyRange_inv (fun k2 (st : Bool × Arr α) => st.1 = true ∧ InvW E k1 k2 st.2) (k1 + 1) K (by omega) _ _
        ⟨rfl, hW.enter⟩ ?_
      rintro k2 st2 h12 hk2 ⟨h1', hW'⟩
      have hc := hcall ⟨k1, hk1⟩ ⟨k2, hk2⟩
      dsimp only at hc ⊢
      simp only [hc]
      exact ⟨by simp [h1', hW'.1, hW'.2.1, hW'.2.2.1, hk1, hk2], hW'.step (by omega) hk2⟩
    exact ⟨by simp [h1, hinner.1, hinner.2.leave.1], hinner.2.leave⟩
  obtain ⟨hR1, hW⟩ := hinv
  obtain ⟨hW_ok, hW_r, hW_c, hW_get⟩ := hW.final
  apply eqv_ofScalar
  · simp [hy_ok, hpi_ok, hpi_r, hpi_c, hwy_ok, hR1, hW_ok, hW_r, hW_c]
  · simp
  · simp
  · simp [hpi_c, hpi_get, hW_r, hW_c, hW_get, wassScore, wassScoreT, ← hE]

/-- With `return_grad=True` the first returned value of `WassersteinGEMINI(ovo=True).evaluate(P, κ)` is the same score
    `wassScore (emd κ) ε true P`, and no statement of the call raises (in particular the column updates `grads[:, k1] += …`,
    `grads[:, k2] += …` keep their shapes and `pi[k1]`, `pi[k2]` are in range); for every number type, every solver. -/
theorem wass_ovo_grad_fst_eq (emd : (Fin n → Fin n → α) → (Fin n → α) → (Fin n → α) → Emd α n) (ε : α)
    (P : Fin n → Fin K → α) (κ : Fin n → Fin n → α) :
    Eqv (Gen.Wass.wass_ovo_grad (EmdR.ofModel emd) ε (ofFn P) (ofFn κ)).1 (ofScalar (wassScore (emd κ) ε true P)) := by
  unfold Gen.Wass.wass_ovo_grad
  wass_prefix
  have hcall : ∀ a b : Fin K, EmdR.ofModel emd (row wy a.val) (row wy b.val) (ofFn κ)
      = EmdR.ofEmd (emd κ (wassWeights ε P a) (wassWeights ε P b)) := fun a b =>
    EmdR.ofModel_eq emd (hwy.row a) (hwy.row b) ⟨rfl, rfl, rfl, fun i j => ofFn_get κ i j⟩
  generalize hE : (fun a b : Fin K => emd κ (wassWeights ε P a) (wassWeights ε P b)) = E at hcall
  have hE' : ∀ a b, emd κ (wassWeights ε P a) (wassWeights ε P b) = E a b := fun a b => congrFun (congrFun hE a) b
  simp only [hE'] at hcall
  obtain ⟨hwy_ok, -, -, -⟩ := hwy
  generalize hR : List.foldl _ _ (List.range _) = R
  have hinv : R.1 = true ∧ InvW E K 0 R.2.1 ∧ R.2.2.ok = true ∧ R.2.2.r = n ∧ R.2.2.c = K := by
    rw [← hR]
    refine foldl_range_inv (fun k1 (st : Bool × Arr α × Arr α) => st.1 = true ∧ InvW E k1 0 st.2.1 ∧
      st.2.2.ok = true ∧ st.2.2.r = n ∧ st.2.2.c = K) K _ _ ⟨rfl, InvW.init E, rfl, hy_r, hy_c⟩ ?_
    rintro k1 st hk1 ⟨h1, hW, hG1, hG2, hG3⟩
    dsimp only
    generalize hR2 : List.foldl _ _ (pyRange _ _) = R2
    have hinner : R2.1 = true ∧ InvW E k1 K R2.2.1 ∧ R2.2.2.ok = true ∧ R2.2.2.r = n ∧ R2.2.2.c = K := by
      rw [← hR2]
      refine foldl_pyRange_inv (fun k2 (st : Bool × Arr α × Arr α) => st.1 = true ∧ InvW E k1 k2 st.2.1 ∧
        st.2.2.ok = true ∧ st.2.2.r = n ∧ st.2.2.c = K) (k1 + 1) K (by omega) _ _ ⟨rfl, hW.enter, hG1, hG2, hG3⟩ ?_
      rintro k2 st2 h12 hk2 ⟨h1', hW', hG1', hG2', hG3'⟩
      have hc := hcall ⟨k1, hk1⟩ ⟨k2, hk2⟩
      dsimp only at hc ⊢
      simp only [hc]
      refine ⟨?_, hW'.step (by omega) hk2, ?_, by simp [hG2'], by simp [hG3']⟩
      · simp [add, sub, mul, h1', hW'.1, hW'.2.1, hW'.2.2.1, hG1', hG2', hG3', hk1, hk2, hy_ok, hy_r, hy_c, hpi_ok, hpi_r, hpi_c]
      · simp [add, sub, mul, hG1', hG2', hG3', hk1, hk2, hy_ok, hy_r, hy_c]
    obtain ⟨i1, i2, i3, i4, i5⟩ := hinner
    exact ⟨by simp [h1, i1, i2.leave.1, i3], i2.leave, i3, i4, i5⟩
  obtain ⟨hR1, hW, hG_ok, hG_r, hG_c⟩ := hinv
  obtain ⟨hW_ok, hW_r, hW_c, hW_get⟩ := hW.final
  apply eqv_ofScalar
  · simp [add, hy_ok, hy_r, hy_c, hpi_ok, hpi_r, hpi_c, hwy_ok, hR1, hW_ok, hW_r, hW_c, hG_ok, hG_r, hG_c]
  · simp
  · simp
  · simp [hpi_c, hpi_get, hW_r, hW_c, hW_get, wassScore, wassScoreT, ← hE]

/-- With NO cluster (`K = 0`, predictions of shape `(n, 0)`) `WassersteinGEMINI(ovo=False).evaluate(P, κ, return_grad=True)`
    raises: the source calls `np.vstack` on an empty list (ValueError) — unlike the three other units, which return empty
    arrays / 0 there.  Hence the hypothesis `0 < K` of `wass_ova_grad_eq`. -/
theorem wass_ova_grad_no_cluster_raises (emd : (Fin n → Fin n → α) → (Fin n → α) → (Fin n → α) → Emd α n) (ε : α)
    (P : Fin n → Fin 0 → α) (κ : Fin n → Fin n → α) :
    (Gen.Wass.wass_ova_grad (EmdR.ofModel emd) ε (ofFn P) (ofFn κ)).1.ok = false ∧
    (Gen.Wass.wass_ova_grad (EmdR.ofModel emd) ε (ofFn P) (ofFn κ)).2.ok = false := by
  constructor <;> simp [Gen.Wass.wass_ova_grad, vstack]

/-- Meaning of the parameter: on arrays that are, without error, two weight vectors of length `n` and an `n × n` cost matrix,
    `EmdR.ofModel emd` — what the theorems of this file put for `ot.emd2(·, ·, ·, log=True)` — raises nothing and returns the
    value and the two potentials of the model's solver `emd` applied to the cost matrix and the weights. -/
theorem ofModel_spelled_out (emd : (Fin n → Fin n → α) → (Fin n → α) → (Fin n → α) → Emd α n) (a b : Fin n → α)
    (M : Fin n → Fin n → α) :
    (EmdR.ofModel emd (ofRow a) (ofRow b) (ofFn M)).ok = true ∧
    (EmdR.ofModel emd (ofRow a) (ofRow b) (ofFn M)).value = (emd M a b).value ∧
    Eqv (EmdR.ofModel emd (ofRow a) (ofRow b) (ofFn M)).u (ofRow (emd M a b).u) ∧
    Eqv (EmdR.ofModel emd (ofRow a) (ofRow b) (ofFn M)).v (ofRow (emd M a b).v) := by
  have h := EmdR.ofModel_eq emd (a := ofRow a) (b := ofRow b) (M := ofFn M)
    ⟨rfl, rfl, rfl, fun j => ofRow_get a 0 j⟩ ⟨rfl, rfl, rfl, fun j => ofRow_get b 0 j⟩ ⟨rfl, rfl, rfl, fun i j => ofFn_get M i j⟩
  rw [h]
  exact ⟨rfl, rfl, eqv_ofRow rfl rfl rfl fun j => ofRow_get _ 0 j, eqv_ofRow rfl rfl rfl fun j => ofRow_get _ 0 j⟩

/-- instance at `Float`: the generated one-vs-all gradient is the model's, double for double, whatever solver stands for POT
    (non-vacuity of "every `RealLike`") -/
example (emd : (Fin n → Fin n → Float) → (Fin n → Float) → (Fin n → Float) → Emd Float n) (ε : Float)
    (P : Fin n → Fin (K + 1) → Float) (κ : Fin n → Fin n → Float) :
    Eqv (Gen.Wass.wass_ova_grad (EmdR.ofModel emd) ε (ofFn P) (ofFn κ)).2 (ofFn (wassGrad (emd κ) ε false P)) :=
  (wass_ova_grad_eq (Nat.succ_pos K) emd ε P κ).2

end generic
/-! ## Part 2 — real numbers (the source accumulates pair by pair, the model sums cluster by cluster) -/

section real
variable {n K : Nat}

/-- Over ℝ, with `return_grad=True` the second returned value of `WassersteinGEMINI(ovo=True).evaluate(P, κ)` — `grads`,
    starting from zeros, receives for every pair `k1 < k2` the terms
    `2 * pi[k2] * (u_bar / N - (u_bar * y_pred[:, k1] / (N * N * pi[k1])).sum())` in column `k1` and
    `2 * pi[k1] * (v_bar / N - (v_bar * y_pred[:, k2] / (N * N * pi[k2])).sum())` in column `k2` (`u_bar`, `v_bar`: the centred
    potentials of the call), then `2 * np.dot(wasserstein_distances, pi) / N` in place, times `clip_mask` — is the `n × K`
    array `wassGrad (emd κ) ε true P` of the model; for every solver, all sizes. -/
theorem wass_ovo_grad_snd_eq (emd : (Fin n → Fin n → ℝ) → (Fin n → ℝ) → (Fin n → ℝ) → Emd ℝ n) (ε : ℝ)
    (P : Fin n → Fin K → ℝ) (κ : Fin n → Fin n → ℝ) :
    Eqv (Gen.Wass.wass_ovo_grad (EmdR.ofModel emd) ε (ofFn P) (ofFn κ)).2 (ofFn (wassGrad (emd κ) ε true P)) := by
  unfold Gen.Wass.wass_ovo_grad
  wass_prefix
  have hcall : ∀ a b : Fin K, EmdR.ofModel emd (row wy a.val) (row wy b.val) (ofFn κ)
      = EmdR.ofEmd (emd κ (wassWeights ε P a) (wassWeights ε P b)) := fun a b =>
    EmdR.ofModel_eq emd (hwy.row a) (hwy.row b) ⟨rfl, rfl, rfl, fun i j => ofFn_get κ i j⟩
  generalize hE : (fun a b : Fin K => emd κ (wassWeights ε P a) (wassWeights ε P b)) = E at hcall
  have hE' : ∀ a b, emd κ (wassWeights ε P a) (wassWeights ε P b) = E a b := fun a b => congrFun (congrFun hE a) b
  simp only [hE'] at hcall
  obtain ⟨hwy_ok, -, -, -⟩ := hwy
  generalize hT : wassTerm E (mean0 (clipP ε P)) (clipP ε P) = T
  generalize hR : List.foldl _ _ (List.range _) = R
  have hinv : R.1 = true ∧ InvW E K 0 R.2.1 ∧ R.2.2.ok = true ∧ R.2.2.r = n ∧ R.2.2.c = K ∧ GVals T K 0 R.2.2 := by
    rw [← hR]
    refine foldl_range_inv (fun k1 (st : Bool × Arr ℝ × Arr ℝ) => st.1 = true ∧ InvW E k1 0 st.2.1 ∧
      st.2.2.ok = true ∧ st.2.2.r = n ∧ st.2.2.c = K ∧ GVals T k1 0 st.2.2) K _ _
      ⟨rfl, InvW.init E, rfl, hy_r, hy_c, GVals.init T _ _⟩ ?_
    rintro k1 st hk1 ⟨h1, hW, hG1, hG2, hG3, hG4⟩
    dsimp only
    generalize hR2 : List.foldl _ _ (pyRange _ _) = R2
    have hinner : R2.1 = true ∧ InvW E k1 K R2.2.1 ∧ R2.2.2.ok = true ∧ R2.2.2.r = n ∧ R2.2.2.c = K ∧ GVals T k1 K R2.2.2 := by
      rw [← hR2]
      refine foldl_pyRange_inv (fun k2 (st : Bool × Arr ℝ × Arr ℝ) => st.1 = true ∧ InvW E k1 k2 st.2.1 ∧
        st.2.2.ok = true ∧ st.2.2.r = n ∧ st.2.2.c = K ∧ GVals T k1 k2 st.2.2) (k1 + 1) K (by omega) _ _
        ⟨rfl, hW.enter, hG1, hG2, hG3, hG4.enter⟩ ?_
      rintro k2 st2 h12 hk2 ⟨h1', hW', hG1', hG2', hG3', hG4'⟩
      have hc := hcall ⟨k1, hk1⟩ ⟨k2, hk2⟩
      dsimp only at hc ⊢
      simp only [hc]
      refine ⟨?_, hW'.step (by omega) hk2, ?_, by simp [hG2'], by simp [hG3'], hG4'.step (by omega) hk2 fun i k => ?_⟩
      · simp [add, sub, mul, h1', hW'.1, hW'.2.1, hW'.2.2.1, hG1', hG2', hG3', hk1, hk2, hy_ok, hy_r, hy_c, hpi_ok, hpi_r, hpi_c]
      · simp [add, sub, mul, hG1', hG2', hG3', hk1, hk2, hy_ok, hy_r, hy_c]
      · have hne : k2 ≠ k1 := by omega
        have hpi1 := hpi_get ⟨k1, hk1⟩
        have hpi2 := hpi_get ⟨k2, hk2⟩
        have hy1 : ∀ l : Fin n, y1.get l.val k1 = clipP ε P l ⟨k1, hk1⟩ := fun l => hy_get l ⟨k1, hk1⟩
        have hy2 : ∀ l : Fin n, y1.get l.val k2 = clipP ε P l ⟨k2, hk2⟩ := fun l => hy_get l ⟨k2, hk2⟩
        dsimp only at hpi1 hpi2
        by_cases e2 : k.val = k2
        · obtain rfl : k = ⟨k2, hk2⟩ := Fin.ext e2
          have h21 : ¬ k2 < k1 := by omega
          simp [add, sub, mul, hG2', hG3', hy_r, hy_c, hy1, hy2, hpi1, hpi2, hne, ← hT, wassTerm, wassPot, h21]
        · by_cases e1 : k.val = k1
          · obtain rfl : k = ⟨k1, hk1⟩ := Fin.ext e1
            have h12' : k1 < k2 := by omega
            simp [add, sub, mul, hG2', hG3', hy_r, hy_c, hy1, hy2, hpi1, hpi2, hne.symm, ← hT, wassTerm, wassPot, h12']
          · simp [e1, e2]
    obtain ⟨i1, i2, i3, i4, i5, i6⟩ := hinner
    exact ⟨by simp [h1, i1, i2.leave.1, i3], i2.leave, i3, i4, i5, i6.leave⟩
  obtain ⟨hR1, hW, hG_ok, hG_r, hG_c, hG⟩ := hinv
  obtain ⟨hW_ok, hW_r, hW_c, hW_get⟩ := hW.final
  apply eqv_ofFn
  · simp [add, mul, hy_ok, hy_r, hy_c, hpi_ok, hpi_r, hpi_c, hwy_ok, hR1, hW_ok, hW_r, hW_c, hG_ok, hG_r, hG_c]
  · simp [add, mul, hW_r, hW_c, hG_r, hG_c]
  · simp [add, mul, hW_r, hW_c, hG_r, hG_c]
  · intro i k
    simp [add, mul, hW_r, hW_c, hW_get, hG_r, hG_c, hG.final i k, hpi_r, hpi_c, hpi_get, wassGrad, wassGradT_ovo_real, clipMask, ← hE, ← hT]

end real

end GemVerif.Props.C01WassGen
