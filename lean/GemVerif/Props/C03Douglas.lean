/-
  C03 for the Douglas differentiable tree: the list returned by `_compute_grads` is minus the exact gradient of
  `⟨g, _infer⟩`.

  Reading (as in Props/C03.lean).  `g` is ANY matrix (in `fit`: the GEMINI gradient at `y = _infer(X)`).  The claim
  "the direction handed to the optimiser is minus the gradient of GEMINI∘_infer w.r.t. every parameter" is, by the chain
  rule: the derivative of `t ↦ ∑ r, ∑ k, g r k * _infer(θ + t·E)[r, k]` at `0` is `∑ -(updates) * E`.

  Vocabulary.  `cl : List (ℕ × List ℝ)` is `cut_points_list_`, `S` is `leaf_scores_` (`L × K`), `T` the temperature,
  `pred T X cl S r k` is entry `(r, k)` of `Model.Douglas.infer` (`_infer(X)`), `computeGrads T X cl S yPred g` the list
  `updates` of `_compute_grads(X, y_pred, gradient)`: entry 0 is `-leaf_score_backprop` flattened row-major, entry
  `i + 1` is `-cut_grad` of the `i`-th entry of `cut_points_list_`.  As `fit` does, `_compute_grads` is called with
  `y_pred = _infer(X)`.  The hypothesis `computeGrads … = some G` only says that the Python call does not raise
  (`computeGrads_returns`: it holds as soon as `cut_points_list_` is non-empty, addresses columns of the data and
  `leaf_scores_` has one row per leaf).
  Proved here, for all sizes `n d L K`, all numbers of cuts, all real `T`, all `g`, all (unsorted) stored orders:
   (a) `leaf_scores_direction` / `leaf_scores_entry`: `updates[0]` is minus the gradient w.r.t. `leaf_scores_`
       (unconditional);
   (b) `cut_points_direction` / `cut_point_entry`: `updates[i+1]` is minus the gradient w.r.t. the `i`-th cut vector
       wherever its entries are pairwise distinct;  `cut_points_ties_excluded`: at a tie the derivative does not exist;
   (c) `all_parameters_direction`: jointly in `leaf_scores_` and all cut vectors.
  Helper lemmas (closed form of the merged leaf via the digits of the flat leaf index, `argsort(order)` is the
  inverse permutation, adjoint of sort/negate/cumsum, local constancy of the sort order, the calculus):
  Lemmas/DouglasGrad.lean.
-/
import GemVerif.Lemmas.DouglasGrad

namespace GemVerif.Props.C03Douglas
open scoped BigOperators
open GemVerif Model.Douglas GemVerif.Douglas

variable {n d L K : ℕ}

/-- entry `(r, k)` of the matrix returned by `_infer(X)` (`0` if the call raises) -/
noncomputable def pred (T : ℝ) (X : Fin n → Fin d → ℝ) (cl : List (ℕ × List ℝ)) (S : Fin L → Fin K → ℝ) :
    Fin n → Fin K → ℝ :=
  fun r k => ((infer T X cl S r).getD []).getD k.val 0

/-- `_compute_grads` returns (does not raise) whenever `cut_points_list_` is non-empty, every feature index addresses
    a column of the data and `leaf_scores_` has one row per leaf: the hypothesis `computeGrads … = some G` of the
    theorems below is satisfied by every model that `fit` builds. -/
theorem computeGrads_returns (T : ℝ) (X : Fin n → Fin d → ℝ) {cl : List (ℕ × List ℝ)}
    (hne : cl ≠ []) (hr : ∀ z ∈ cl, z.1 < d) (hL : L = (radices cl).prod) (S : Fin L → Fin K → ℝ)
    (yPred g : Fin n → Fin K → ℝ) : ∃ G, computeGrads T X cl S yPred g = some G :=
  computeGrads_isSome T X hne hr hL S yPred g

/-- (a) `leaf_scores_`.  For every data set, temperature, `cut_points_list_` (sorted or not, ties allowed), leaf scores
    `S`, upstream gradient `g` and direction `E`: the derivative of `⟨g, _infer⟩` along `S + t·E` at `t = 0` is
    `∑ l k, -(updates[0][l·K + k]) · E l k`: the first array returned by `_compute_grads` is minus the gradient w.r.t.
    `leaf_scores_`.  No condition at all. -/
theorem leaf_scores_direction (T : ℝ) (X : Fin n → Fin d → ℝ) (cl : List (ℕ × List ℝ)) (S : Fin L → Fin K → ℝ)
    (g : Fin n → Fin K → ℝ) (E : Fin L → Fin K → ℝ) {G : List (List ℝ)}
    (hG : computeGrads T X cl S (pred T X cl S) g = some G) :
    HasDerivAt (fun t : ℝ => ∑ r, ∑ k, g r k * pred T X cl (fun l k => S l k + t * E l k) r k)
      (∑ l : Fin L, ∑ k : Fin K, -((G.getD 0 []).getD (l.val * K + k.val) 0) * E l k) 0 := by
  have hp : ∀ S' : Fin L → Fin K → ℝ, pred T X cl S' = inferM T X cl S' := fun _ => rfl
  simp only [hp] at hG ⊢
  exact leafScores_hasDerivAt_curve T X cl (Sc := fun t l k => S l k + t * E l k) (t₀ := 0)
    (fun _ _ => hasDerivAt_lin _ _) g (G := G) (by simpa only [zero_mul, add_zero] using hG)

/-- (a), entry `(a, c)` of `leaf_scores_`: the partial derivative is `-(updates[0][a·K + c])`. -/
theorem leaf_scores_entry (T : ℝ) (X : Fin n → Fin d → ℝ) (cl : List (ℕ × List ℝ)) (S : Fin L → Fin K → ℝ)
    (g : Fin n → Fin K → ℝ) (a : Fin L) (c : Fin K) {G : List (List ℝ)}
    (hG : computeGrads T X cl S (pred T X cl S) g = some G) :
    HasDerivAt (fun t : ℝ => ∑ r, ∑ k, g r k * pred T X cl (bump2 S a c t) r k)
      (-((G.getD 0 []).getD (a.val * K + c.val) 0)) 0 := by
  have hp : ∀ S' : Fin L → Fin K → ℝ, pred T X cl S' = inferM T X cl S' := fun _ => rfl
  simp only [hp] at hG ⊢
  have h := leafScores_hasDerivAt_curve T X cl (Sc := bump2 S a c) (t₀ := 0)
    (hasDerivAt_bump2 S a c) g (G := G) (by simpa only [bump2_zero] using hG)
  simpa only [sum_ind2] using h

/-! ### cut points -/

/-- the cut vector `c + t·e`: entry `p` moved by `t · e p` -/
def moved (c : List ℝ) (e : ℕ → ℝ) (t : ℝ) : List ℝ := c.zipIdx.map fun vp => vp.1 + t * e vp.2

/-- `cut_points_list_` with every cut vector moved: entry `p` of the `i`-th vector moved by `t · Ecut i p`
    (feature indices unchanged) -/
def movedAll (cl : List (ℕ × List ℝ)) (Ecut : ℕ → ℕ → ℝ) (t : ℝ) : List (ℕ × List ℝ) :=
  cl.zipIdx.map fun zi => (zi.1.1, moved zi.1.2 (Ecut zi.2) t)

/-- (c) All parameters at once.  Move `leaf_scores_` along `S + t·E` and, simultaneously, every cut vector `cᵢ` of
    `cut_points_list_` along `cᵢ + t·Ecut i`.  At every point where each cut vector that actually moves has pairwise
    distinct entries (`Nodup`; then `np.argsort` is locally constant), for every temperature `T` (for `T = 0`, which
    the parameter validation of the Python class rejects, the statement is about Lean's convention `x / 0 = 0`),
    data set and upstream gradient `g`, the derivative of `⟨g, _infer⟩` at `t = 0` is
    `∑ -(updates[0]) · E + ∑ᵢ ∑ₚ -(updates[i+1][p]) · Ecut i p`: the whole list returned by `_compute_grads` is minus
    the gradient, jointly in `leaf_scores_` and all cut points; in particular no parameter receives a direction
    built from another parameter's gradient. -/
theorem all_parameters_direction (T : ℝ) (X : Fin n → Fin d → ℝ) (cl : List (ℕ × List ℝ)) (S : Fin L → Fin K → ℝ)
    (g : Fin n → Fin K → ℝ) (E : Fin L → Fin K → ℝ) (Ecut : ℕ → ℕ → ℝ)
    (hdist : ∀ (i : ℕ) (hi : i < cl.length), cl[i].2.Nodup ∨ ∀ p < cl[i].2.length, Ecut i p = 0)
    {G : List (List ℝ)} (hG : computeGrads T X cl S (pred T X cl S) g = some G) :
    HasDerivAt
      (fun t : ℝ => ∑ r, ∑ k, g r k * pred T X (movedAll cl Ecut t) (fun l k => S l k + t * E l k) r k)
      (∑ l : Fin L, ∑ k : Fin K, -((G.getD 0 []).getD (l.val * K + k.val) 0) * E l k
        + ∑ i : Fin cl.length, ∑ p : Fin cl[i].2.length, -((G.getD (i.val + 1) []).getD p.val 0) * Ecut i p) 0 := by
  have hp : ∀ (cl' : List (ℕ × List ℝ)) (S' : Fin L → Fin K → ℝ), pred T X cl' S' = inferM T X cl' S' :=
    fun _ _ => rfl
  have hma : ∀ t, movedAll cl Ecut t = pert cl Ecut t := fun _ => rfl
  simp only [hp, hma] at hG ⊢
  have hc : CutsOK cl Ecut := fun i hi => by
    rw [cutsAt_eq_getElem cl hi]; exact hdist i hi
  have h := douglas_hasDerivAt T X cl (Sc := fun t l k => S l k + t * E l k) (fun _ _ => hasDerivAt_lin _ _) hc g
    (G := G) (by simpa only [zero_mul, add_zero] using hG)
  refine h.congr_deriv ?_
  congr 1
  rw [Finset.sum_range]
  refine Finset.sum_congr rfl fun i _ => ?_
  rw [Finset.sum_range]
  have hi := cutsAt_eq_getElem cl i.isLt
  exact Fintype.sum_equiv (finCongr (congrArg List.length hi)) _ _ fun p => rfl

/-- (b) Cut points of one entry of `cut_points_list_`.  Move the `i`-th cut vector `c` along `c + t·e` (everything
    else fixed).  If the entries of `c` are pairwise distinct, the derivative of `⟨g, _infer⟩` at `t = 0` is
    `∑ₚ -(updates[i+1][p]) · e p`: array `i + 1` returned by `_compute_grads` is minus the gradient w.r.t. that cut
    vector — whatever the stored order of the cut points (the final `argsort(order)` of the code undoes the sort). -/
theorem cut_points_direction (T : ℝ) (X : Fin n → Fin d → ℝ) (cl : List (ℕ × List ℝ)) (S : Fin L → Fin K → ℝ)
    (g : Fin n → Fin K → ℝ) (i : ℕ) (hi : i < cl.length) (hdist : cl[i].2.Nodup) (e : ℕ → ℝ)
    {G : List (List ℝ)} (hG : computeGrads T X cl S (pred T X cl S) g = some G) :
    HasDerivAt
      (fun t : ℝ => ∑ r, ∑ k, g r k * pred T X (cl.set i (cl[i].1, moved cl[i].2 e t)) S r k)
      (∑ p : Fin cl[i].2.length, -((G.getD (i + 1) []).getD p.val 0) * e p) 0 := by
  have hp : ∀ (cl' : List (ℕ × List ℝ)) (S' : Fin L → Fin K → ℝ), pred T X cl' S' = inferM T X cl' S' :=
    fun _ _ => rfl
  have hm : ∀ t, moved cl[i].2 e t = perturb cl[i].2 e t := fun _ => rfl
  simp only [hp, hm] at hG ⊢
  have hc : CutsOK cl (fun i' p => if i' = i then e p else 0) := fun j hj => by
    by_cases hji : j = i
    · subst hji; left; rw [cutsAt_eq_getElem cl hj]; exact hdist
    · right; intro p _; simp [hji]
  have h := douglas_hasDerivAt T X cl (Sc := fun _ => S) (E := fun _ _ => 0) (fun _ _ => hasDerivAt_const _ _) hc g
    (G := G) hG
  simp only [pert_single cl hi] at h
  refine h.congr_deriv ?_
  simp only [mul_zero, Finset.sum_const_zero, zero_add]
  rw [Finset.sum_eq_single i (fun j _ hji => by simp [hji]) (fun h => absurd (Finset.mem_range.mpr hi) h)]
  simp only [if_true]
  rw [Finset.sum_range]
  have hi' := cutsAt_eq_getElem cl hi
  exact Fintype.sum_equiv (finCongr (congrArg List.length hi')) _ _ fun p => rfl

/-- (b), one cut point: the partial derivative of `⟨g, _infer⟩` w.r.t. cut point number `p₀` (as stored) of the
    `i`-th entry of `cut_points_list_` is `-(updates[i+1][p₀])`, when the cut points of that entry are pairwise
    distinct. -/
theorem cut_point_entry (T : ℝ) (X : Fin n → Fin d → ℝ) (cl : List (ℕ × List ℝ)) (S : Fin L → Fin K → ℝ)
    (g : Fin n → Fin K → ℝ) (i : ℕ) (hi : i < cl.length) (hdist : cl[i].2.Nodup) (p₀ : ℕ) (hp : p₀ < cl[i].2.length)
    {G : List (List ℝ)} (hG : computeGrads T X cl S (pred T X cl S) g = some G) :
    HasDerivAt
      (fun t : ℝ => ∑ r, ∑ k, g r k *
        pred T X (cl.set i (cl[i].1, moved cl[i].2 (fun p => if p = p₀ then 1 else 0) t)) S r k)
      (-((G.getD (i + 1) []).getD p₀ 0)) 0 := by
  have h := cut_points_direction T X cl S g i hi hdist (fun p => if p = p₀ then 1 else 0) hG
  refine h.congr_deriv ?_
  rw [Finset.sum_eq_single (⟨p₀, hp⟩ : Fin cl[i].2.length)]
  · simp
  · intro p _ hpp
    have : ¬ p.val = p₀ := fun h => hpp (Fin.ext h)
    simp [this]
  · intro h; exact absurd (Finset.mem_univ _) h

/- the hypothesis of (b)/(c) is satisfiable, also for cut points stored in non-sorted order, and then `_compute_grads`
   returns -/
example : ∃ cl : List (ℕ × List ℝ), cl ≠ [] ∧ (∀ z ∈ cl, z.1 < 2) ∧
    (∀ (i : ℕ) (hi : i < cl.length), cl[i].2.Nodup) :=
  ⟨[(0, [1, 0]), (1, [2])], by simp, by simp, fun i hi => by
    have : i = 0 ∨ i = 1 := by simp at hi; omega
    rcases this with rfl | rfl <;> simp⟩

/-- The condition "pairwise distinct" in (b) cannot be dropped.  There is a tree (one sample at 0, one feature, the two
    EQUAL cut points `[0, 0]`, temperature 1, 3 leaves, 2 clusters) for which `⟨g, _infer⟩` has NO derivative
    w.r.t. the first cut point: the sorted order changes at the tie, the smaller sorted cut is `min(t, 0)`, and the
    two one-sided slopes differ (`± ψ'(1/3)/9` with `ψ' > 0`).  So at a tie no list whatsoever can be "minus the
    gradient". -/
theorem cut_points_ties_excluded :
    ∃ (X : Fin 1 → Fin 1 → ℝ) (S : Fin 3 → Fin 2 → ℝ) (g : Fin 1 → Fin 2 → ℝ),
      ¬ DifferentiableAt ℝ (fun t : ℝ => ∑ r, ∑ k, g r k *
        pred 1 X ([((0 : ℕ), [(0 : ℝ), 0])].set 0 (0, moved [0, 0] (fun p => if p = 0 then 1 else 0) t)) S r k) 0 := by
  refine ⟨fun _ _ => 0, fun l k => if l = 1 ∧ k = 0 then 1 else 0, fun _ k => if k = 0 then 1 else 0, ?_⟩
  have hm : ∀ t : ℝ, moved [0, 0] (fun p => if p = 0 then 1 else 0) t = [t, 0] := fun t => by
    simp [moved, List.zipIdx]
  have hp : ∀ (cl' : List (ℕ × List ℝ)) (S' : Fin 3 → Fin 2 → ℝ),
      pred 1 (fun (_ : Fin 1) (_ : Fin 1) => (0 : ℝ)) cl' S' = inferM 1 (fun _ _ => 0) cl' S' := fun _ _ => rfl
  simp only [hm, hp, List.set_cons_zero, tie_example_eq]
  exact tie_example_not_differentiable

end GemVerif.Props.C03Douglas
