/-
  C09 — KAURI trees respect their structural limits and reproduce their own partition.

  The fit loop of `gemclus/tree/kauri.py` is the state machine `Model.Kauri.fitStep`.  `KauriC09.SplitOK` is the
  post-condition of `find_best_split` (for a reported positive gain); `KauriC09.FullInv` bundles the invariants
  `Inv` (structure), `InvSamples` (sample counts), `InvRoute` (tree vs data) and `TreeWF` (array-encoded tree).
  The theorems below hold for all data sizes `n`, all data `X`, all parameters, all number types `α`
  (no order law on `RealLike.le` is needed: the loop and `predict` use the same Boolean test).
-/
import GemVerif.Lemmas.KauriC09

namespace GemVerif.Props.C09
open GemVerif Model.Kauri KauriC09

/-- Each split adds exactly two nodes. -/
theorem addChild_nNodes {α : Type} [RealLike α] (t : Tree α) (f : Nat) (s : Split α) :
    (t.addChild f s).nNodes = t.nNodes + 2 := rfl

/-! ### the invariant is inductive -/

/-- The initial state of `Kauri.fit` satisfies the structural invariant, for every `n` and every parameter setting. -/
theorem inv_init {α : Type} [RealLike α] (n : Nat) (p : Params) : Inv p (FitState.init n p : FitState α) :=
  KauriC09.inv_init n p

/-- The initial state satisfies all invariants once the data has at least one and at least `min_samples_leaf` rows
    (`validate_data(ensure_min_samples=min_samples_leaf)`, `min_samples_leaf ≥ 1`). -/
theorem fullInv_init {α : Type} [RealLike α] (X : Nat → Nat → α) (n : Nat) (p : Params) (hn : 1 ≤ n)
    (hmin : p.minLeaf ≤ n) : FullInv X p (FitState.init n p : FitState α) :=
  KauriC09.fullInv_init X n p hn hmin

/-- One loop body preserves the structural invariant: loop guard + post-condition of `find_best_split`. -/
theorem applySplit_preserves {α : Type} [RealLike α] {X : Nat → Nat → α} {p : Params} {s : FitState α} {b : Split α}
    (hI : Inv p s) (hc : s.continues p = true) (hb : SplitOK X p s b) : Inv p (applySplit X p s b) :=
  KauriC09.applySplit_preserves hI hc hb

/-- One loop iteration (guard test, gain test, split) preserves all invariants. -/
theorem stepWith_preserves {α : Type} [RealLike α] {X : Nat → Nat → α} {p : Params} {s : FitState α} {b : Split α}
    (h : FullInv X p s) (hb : s.continues p = true → RealLike.lt 0 b.gain = true → SplitOK X p s b) :
    FullInv X p (stepWith X p s b) :=
  KauriC09.stepWith_preserves h hb

/-- `fitStep` is `stepWith` applied to the answer of `findBestSplit` (the model's loop, unchanged). -/
theorem fitStep_eq_stepWith {α : Type} [RealLike α] (κ X : Nat → Nat → α) (p : Params) (s : FitState α)
    (features : List Nat) :
    fitStep κ X p s features =
      stepWith X p s (findBestSplit κ X s.toExplore s.asg s.nClusters p.maxClusters s.nLeaves p.minLeaf features) :=
  rfl

/-- `fit_invariant`: every state reached by the loop on any sequence of `find_best_split` answers, each meeting the
    post-condition in the state where it is applied, satisfies all invariants. -/
theorem fit_invariant {α : Type} [RealLike α] {X : Nat → Nat → α} {n : Nat} {p : Params} (hn : 1 ≤ n)
    (hmin : p.minLeaf ≤ n) (bs : List (Split α)) (hok : SplitsOK X p (FitState.init n p) bs) :
    FullInv X p (fitWith X n p bs) :=
  KauriC09.fitWith_inv hn hmin bs hok

/-- The same for the model's `fit` (any recorded feature draws), under the hypothesis that `findBestSplit` meets
    its post-condition `FindBestSplitSpec` (proved in `Props/C09Spec.lean`: `findBestSplitSpec`, `fitted_tree_limits_unconditional`). -/
theorem fit_invariant_of_spec {α : Type} [RealLike α] {κ X : Nat → Nat → α} {n : Nat} {p : Params} (hn : 1 ≤ n)
    (hmin : p.minLeaf ≤ n) (hspec : FindBestSplitSpec κ X p) (draws : List (List Nat)) :
    FullInv X p (fit κ X n p draws) :=
  KauriC09.fit_inv hn hmin hspec draws

/-! ### the clauses of the property, for any state that satisfies the invariants -/

/-- The tree has `2·leaves − 1` nodes, `leaves` being the number of nodes without children; this number is the
    loop's `n_leaves`. -/
theorem node_count {α : Type} [RealLike α] {X : Nat → Nat → α} {p : Params} {s : FitState α} (h : FullInv X p s) :
    s.tree.nNodes = 2 * (leafNodes s.tree).length - 1 ∧ (leafNodes s.tree).length = s.nLeaves ∧
      s.tree.left.size = s.tree.nNodes := by
  have e := leafNodes_length h.inv h.tree
  exact ⟨by rw [e]; exact h.inv.nNodes_eq, e, h.inv.size_left⟩

/-- At most `max_leaves` leaves (`max_leaves ≥ 2`, or `n ≥ 1` when `None`). -/
theorem leaves_le_max_leaves {α : Type} [RealLike α] {X : Nat → Nat → α} {p : Params} {s : FitState α}
    (h : FullInv X p s) (hL : 1 ≤ p.maxLeaves) : (leafNodes s.tree).length ≤ p.maxLeaves := by
  rw [leafNodes_length h.inv h.tree]
  have := h.inv.nLeaves_le; omega

/-- Every node has depth at most `max_depth` (`max_depth ≥ 1`, or `n ≥ 1` when `None`).  Without the hypothesis the
    bound is `max max_depth 1`: the root is explored whatever `max_depth` is. -/
theorem depth_le_max_depth {α : Type} [RealLike α] {X : Nat → Nat → α} {p : Params} {s : FitState α}
    (h : FullInv X p s) (hD : 1 ≤ p.maxDepth) (k : Nat) (hk : k < s.tree.nNodes) :
    s.tree.depths[k]! ≤ p.maxDepth := by
  have := h.inv.depth_le k hk; omega

/-- The entries of `depths` are the depths of the nodes: 0 at the root, one more at the two children of a node;
    the children of node `k` are two consecutive later nodes, leaves have no child, threshold or feature. -/
theorem tree_well_formed {α : Type} [RealLike α] {X : Nat → Nat → α} {p : Params} {s : FitState α}
    (h : FullInv X p s) : TreeWF s.tree := h.tree

/-- At most `max_clusters` clusters, and `labels_` takes exactly the values `0 .. n_clusters − 1`. -/
theorem clusters_le_max_clusters {α : Type} [RealLike α] {X : Nat → Nat → α} {p : Params} {s : FitState α}
    (h : FullInv X p s) (hK : 1 ≤ p.maxClusters) :
    s.nClusters ≤ p.maxClusters ∧ ∀ c, c ∈ s.labels ↔ c < s.nClusters := by
  refine ⟨?_, labels_range h.inv h.samples⟩
  have := h.inv.nClusters_le; omega

/-- Every leaf holds at least `min_samples_leaf` samples and at least one. -/
theorem leaf_sizes {α : Type} [RealLike α] {X : Nat → Nat → α} {p : Params} {s : FitState α} (h : FullInv X p s)
    (l : Nat) (hl : l < s.nLeaves) :
    p.minLeaf ≤ (s.asg.samplesOfLeaf l).length ∧ s.asg.samplesOfLeaf l ≠ [] :=
  ⟨h.samples.leaf_size l hl, h.samples.leaf_nonempty l hl⟩

/-- No node with fewer than `min_samples_split` samples is split: the leaf cut by an admissible split holds at least
    `min_samples_split` samples, sits strictly above the depth limit and is a leaf of the tree. -/
theorem split_leaf_size {α : Type} [RealLike α] {X : Nat → Nat → α} {p : Params} {s : FitState α} {b : Split α}
    (h : FullInv X p s) (hb : SplitOK X p s b) :
    p.minSplit ≤ (members s b).length ∧ s.tree.depths[father s b]! < max p.maxDepth 1 ∧
      s.tree.left[father s b]! = -1 :=
  ⟨h.samples.explore_size _ hb.leaf_mem, h.inv.explore_depth _ hb.leaf_mem,
    h.inv.l2n_leaf _ (h.inv.explore_lt _ hb.leaf_mem)⟩

/-- Thresholds are observed feature values: every internal node tests a column `f ≥ 0` against `X[i, f]` for some
    training sample `i`. -/
theorem thresholds_observed {α : Type} [RealLike α] {X : Nat → Nat → α} {p : Params} {s : FitState α}
    (h : FullInv X p s) (k : Nat) (hk : k < s.tree.nNodes) (hint : s.tree.left[k]! ≠ -1) :
    ∃ f : Int, 0 ≤ f ∧ s.tree.feat[k]! = some f ∧ ∃ i, i < s.asg.n ∧ s.tree.thr[k]! = some (X i f.toNat) :=
  h.route.thr_obs k hk hint

/-- Each leaf belongs to exactly one cluster: leaf ids correspond one-to-one to the leaf nodes of the tree, and the
    node of a leaf carries the cluster of the leaf, which is the label of all its samples. -/
theorem leaf_has_one_cluster {α : Type} [RealLike α] {X : Nat → Nat → α} {p : Params} {s : FitState α}
    (h : FullInv X p s) :
    (∀ l, l < s.nLeaves → s.tree.left[s.leaf2node[l]!]! = -1 ∧
      s.tree.target[s.leaf2node[l]!]! = (s.asg.clusterOf[l]! : Int)) ∧
    (∀ l l', l < s.nLeaves → l' < s.nLeaves → s.leaf2node[l]! = s.leaf2node[l']! → l = l') ∧
    (∀ k, k < s.tree.nNodes → s.tree.left[k]! = -1 → ∃ l, l < s.nLeaves ∧ s.leaf2node[l]! = k) ∧
    (∀ i, i < s.asg.n → s.asg.leafOf[i]! < s.nLeaves ∧
      s.asg.clusterOfSample i = s.asg.clusterOf[s.asg.leafOf[i]!]!) :=
  ⟨fun l hl => ⟨h.inv.l2n_leaf l hl, h.inv.target_eq l hl⟩, h.inv.l2n_inj, h.inv.l2n_surj,
    fun i hi => ⟨h.inv.leafOf_lt i hi, rfl⟩⟩

/-- `predict_train_eq_labels`, one sample: routing training sample `i` through the tree returns its label, for any
    recursion budget `fuel ≥ n_leaves − 1` (the driver uses `n_nodes + 1`). -/
theorem predict_train_sample {α : Type} [RealLike α] {X : Nat → Nat → α} {p : Params} {s : FitState α}
    (h : FullInv X p s) (i : Nat) (hi : i < s.asg.n) (fuel : Nat) (hfuel : s.nLeaves ≤ fuel + 1) :
    s.tree.route (X i) fuel 0 = (s.asg.clusterOfSample i : Int) := by
  apply route_train h.inv h.route i hi fuel
  have := h.inv.depth_lt_leaves _ (h.inv.l2n_lt _ (h.inv.leafOf_lt i hi))
  omega

/-- `predict_train_eq_labels`: `predict(X_train) = labels_`. -/
theorem predict_train_eq_labels {α : Type} [RealLike α] {X : Nat → Nat → α} {p : Params} {s : FitState α}
    (h : FullInv X p s) (fuel : Nat) (hfuel : s.nLeaves ≤ fuel + 1) :
    (List.range s.asg.n).map (fun i => s.tree.route (X i) fuel 0) = s.labels.map fun (c : Nat) => (c : Int) := by
  unfold FitState.labels
  rw [List.map_map]
  apply List.map_congr_left
  intro i hi
  exact predict_train_sample h i (List.mem_range.1 hi) fuel hfuel

/-- The path of training sample `i` from the root to the node of its leaf takes the left branch exactly where
    `X[i, feature] <= threshold` (`Reaches`), and has length the depth of that node. -/
theorem train_path {α : Type} [RealLike α] {X : Nat → Nat → α} {p : Params} {s : FitState α} (h : FullInv X p s)
    (i : Nat) (hi : i < s.asg.n) :
    Reaches s.tree (X i) (s.leaf2node[s.asg.leafOf[i]!]!) (s.tree.depths[s.leaf2node[s.asg.leafOf[i]!]!]!) :=
  h.route.reach i hi

/-- All clauses for the fitted state of the model's `fit`, under the natural parameter ranges of `Kauri`
    (`n ≥ 1`, `min_samples_leaf ≤ n`, `max_leaves, max_depth, max_clusters ≥ 1`) and `FindBestSplitSpec`. -/
theorem fitted_tree_limits {α : Type} [RealLike α] {κ X : Nat → Nat → α} {n : Nat} {p : Params} (hn : 1 ≤ n)
    (hmin : p.minLeaf ≤ n) (hL : 1 ≤ p.maxLeaves) (hD : 1 ≤ p.maxDepth) (hK : 1 ≤ p.maxClusters)
    (hspec : FindBestSplitSpec κ X p) (draws : List (List Nat)) :
    let s := fit κ X n p draws
    s.tree.nNodes = 2 * (leafNodes s.tree).length - 1 ∧ (leafNodes s.tree).length ≤ p.maxLeaves ∧
      (∀ k, k < s.tree.nNodes → s.tree.depths[k]! ≤ p.maxDepth) ∧ s.nClusters ≤ p.maxClusters ∧
      (∀ c, c ∈ s.labels ↔ c < s.nClusters) ∧
      (∀ l, l < s.nLeaves → p.minLeaf ≤ (s.asg.samplesOfLeaf l).length) ∧
      (List.range s.asg.n).map (fun i => s.tree.route (X i) (s.tree.nNodes + 1) 0) = s.labels.map fun (c : Nat) => (c : Int) := by
  intro s
  have h : FullInv X p s := KauriC09.fit_inv hn hmin hspec draws
  have hc := clusters_le_max_clusters h hK
  refine ⟨(node_count h).1, leaves_le_max_leaves h hL, fun k hk => depth_le_max_depth h hD k hk, hc.1, hc.2,
    fun l hl => (leaf_sizes h l hl).1, predict_train_eq_labels h _ ?_⟩
  have := h.inv.nNodes_eq; have := h.inv.nLeaves_pos; omega

/-! ### the hypotheses are satisfiable: a two-split run on three samples over `ℚ` -/

/-- `SplitOK` holds for a star split of the root of the initial state. -/
example : SplitOK Example.X Example.p (FitState.init 3 Example.p) Example.b1 :=
  ⟨by decide, by decide, by decide, by decide, by decide, by decide, by decide, by decide, by decide, by decide,
    by decide, by decide, ⟨0, by decide, by decide⟩⟩

/-- `SplitsOK` (hypothesis of `fit_invariant`) holds for a run with two applied splits. -/
example : SplitsOK Example.X Example.p (FitState.init 3 Example.p) [Example.b1, Example.b2] :=
  ⟨fun _ _ => ⟨by decide, by decide, by decide, by decide, by decide, by decide, by decide, by decide, by decide,
      by decide, by decide, by decide, ⟨0, by decide, by decide⟩⟩,
   fun _ _ => ⟨by decide, by decide, by decide, by decide, by decide, by decide, by decide, by decide, by decide,
      by decide, by decide, by decide, ⟨1, by decide, by decide⟩⟩, trivial⟩

/-- that run is not trivial: both splits are applied (3 leaves, 5 nodes, 2 clusters, labels `[0, 0, 1]`) -/
example : (fitWith Example.X 3 Example.p [Example.b1, Example.b2]).nLeaves = 3 ∧
    (fitWith Example.X 3 Example.p [Example.b1, Example.b2]).tree.nNodes = 5 ∧
    (fitWith Example.X 3 Example.p [Example.b1, Example.b2]).nClusters = 2 ∧
    (fitWith Example.X 3 Example.p [Example.b1, Example.b2]).labels = [0, 0, 1] := by decide

end GemVerif.Props.C09
