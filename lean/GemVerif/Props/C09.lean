/-
  C09 — KAURI trees respect their structural limits.  (Work in progress: invariants of the fit
  state machine; the first theorems are about `Tree.addChild`.)
-/
import GemVerif.Model.Kauri

namespace GemVerif.Props.C09
open GemVerif Model.Kauri

/-- Each split adds exactly two nodes. -/
theorem addChild_nNodes {α : Type} [RealLike α] (t : Tree α) (f : Nat) (s : Split α) :
    (t.addChild f s).nNodes = t.nNodes + 2 := rfl

end GemVerif.Props.C09
