/-
  The *documented* meaning of the GEMINI scores (property C01), written from the
  definitions and independent of the implementation's algebra.
-/
import GemVerif.NumReal

namespace GemVerif.Spec
open scoped BigOperators

variable {n K : ℕ}

/-- cluster proportions `p(y = k)` -/
noncomputable def pi (P : Fin n → Fin K → ℝ) (k : Fin K) : ℝ := (∑ i, P i k) / n

/-- empirical cluster-conditional `p(x_i | y = k) ∝ P i k` -/
noncomputable def cond (P : Fin n → Fin K → ℝ) (k : Fin K) (i : Fin n) : ℝ := P i k / (n * pi P k)

/-- empirical data distribution -/
noncomputable def unif (n : ℕ) : Fin n → ℝ := fun _ => 1 / n

noncomputable def KL (p q : Fin n → ℝ) : ℝ := ∑ i, p i * Real.log (p i / q i)
noncomputable def TV (p q : Fin n → ℝ) : ℝ := (1 / 2) * ∑ i, |p i - q i|
noncomputable def H2 (p q : Fin n → ℝ) : ℝ := 1 - ∑ i, Real.sqrt (p i * q i)
noncomputable def chi2 (p q : Fin n → ℝ) : ℝ := ∑ i, (p i - q i) ^ 2 / q i
noncomputable def MMD (κ : Fin n → Fin n → ℝ) (p q : Fin n → ℝ) : ℝ :=
  Real.sqrt (∑ i, ∑ j, (p i - q i) * κ i j * (p j - q j))

/-- one-vs-all: `E_{y}[D(p(x|y) ‖ p(x))]` -/
noncomputable def ova (D : (Fin n → ℝ) → (Fin n → ℝ) → ℝ) (P : Fin n → Fin K → ℝ) : ℝ :=
  ∑ k, pi P k * D (cond P k) (unif n)

/-- one-vs-one: `E_{ya,yb}[D(p(x|ya) ‖ p(x|yb))]` -/
noncomputable def ovo (D : (Fin n → ℝ) → (Fin n → ℝ) → ℝ) (P : Fin n → Fin K → ℝ) : ℝ :=
  ∑ a, ∑ b, pi P a * pi P b * D (cond P a) (cond P b)

/-- predictions strictly inside the clipping window -/
def Interior (ε : ℝ) (P : Fin n → Fin K → ℝ) : Prop := ∀ i k, ε < P i k ∧ P i k < 1 - ε

/-- documented registry: name ↦ (class, one-vs-one?) -/
def registryDoc : List (String × String × Bool) := [
  ("chi2_ova", "ChiSquareGEMINI", false), ("chi2_ovo", "ChiSquareGEMINI", true),
  ("hellinger_ova", "HellingerGEMINI", false), ("hellinger_ovo", "HellingerGEMINI", true),
  ("kl_ova", "KLGEMINI", false), ("kl_ovo", "KLGEMINI", true), ("mi", "KLGEMINI", false),
  ("mmd_ova", "MMDGEMINI", false), ("mmd_ovo", "MMDGEMINI", true),
  ("tv_ova", "TVGEMINI", false), ("tv_ovo", "TVGEMINI", true),
  ("wasserstein_ova", "WassersteinGEMINI", false), ("wasserstein_ovo", "WassersteinGEMINI", true)]

end GemVerif.Spec
