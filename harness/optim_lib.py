"""C03, optimiser layer: scikit-learn's SGDOptimizer / AdamOptimizer as GemClus constructs and drives them, against
   (a) the Lean model `Model/Optim.lean` (correspondence, per coordinate) and (b) an independent reference written from the
   documented update rules (oracle: the trajectory of a REAL fit is the documented optimiser applied to the gradients the fit
   handed over, with ONE optimiser object for the whole fit, built on the published weights with the user's learning rate)."""
import numpy as np
from . import core
from . import fit_lib as fl


def ref_sgd(w0, gs, lr, mu=0.9, nesterov=True):
    """Sutskever et al.: v <- mu v - lr g ; Nesterov: w += mu v - lr g, else w += v"""
    w, v, out = np.array(w0, float), 0.0, []
    for g in gs:
        v = mu * v - lr * g
        w = w + (mu * v - lr * g if nesterov else v)
        out.append(w)
    return out


def ref_adam(w0, gs, lr0, b1=0.9, b2=0.999, eps=1e-8):
    """Kingma & Ba (2015), section 2 'efficient' form, as scikit-learn documents it"""
    w, m, v, out = np.array(w0, float), 0.0, 0.0, []
    for t, g in enumerate(gs, 1):
        m = b1 * m + (1 - b1) * g
        v = b2 * v + (1 - b2) * g * g
        a = lr0 * np.sqrt(1 - b2 ** t) / (1 - b1 ** t)
        w = w - a * m / (np.sqrt(v) + eps)
        out.append(w)
    return out


def _close(a, b, rtol=1e-10, atol=1e-300):
    a, b = np.asarray(a, float), np.asarray(b, float)
    return bool(np.all((np.abs(a - b) <= atol + rtol * np.maximum(np.abs(a), np.abs(b))) | ((a != a) & (b != b))))


def unit_cases(ctx, rs, reps):
    """the real optimiser classes on lists of arrays of several shapes, every coordinate against the Lean model"""
    from sklearn.neural_network._stochastic_optimizers import AdamOptimizer, SGDOptimizer
    lines, expect = [], []
    for rep in range(reps):
        shapes = [(int(rs.randint(1, 4)), int(rs.randint(1, 4))), (int(rs.randint(1, 4)),)] + ([(1, 1)] if rep % 2 else [])
        ws = [rs.randn(*s) * float(rs.choice([1e-3, 1.0, 50.0])) for s in shapes]
        lr = float(rs.choice([1e-3, 0.05, 1.0]))
        T = int(rs.randint(1, 7))
        gss = []
        for t in range(T):
            g = [rs.randn(*s) * float(rs.choice([1e-6, 1.0, 1e3])) for s in shapes]
            if rs.randint(3) == 0:
                g[0][0] = 0.0          # a row whose gradient is exactly zero
            if rep % 3 == 0:
                g[1][...] = 0.0        # a parameter that never receives a gradient (zero history)
            gss.append(g)
        for kind in ("sgd", "adam"):
            cur = [w.copy() for w in ws]
            opt = SGDOptimizer(cur, lr) if kind == "sgd" else AdamOptimizer(cur, lr)
            traj, lrs = [], []
            for g in gss:
                opt.update_params(cur, [x.copy() for x in g])
                traj.append(np.concatenate([c.ravel() for c in cur]))
                lrs.append(float(opt.learning_rate))
            w0 = np.concatenate([w.ravel() for w in ws])
            G = np.stack([np.concatenate([x.ravel() for x in g]) for g in gss])     # T x P
            for j in range(len(w0)):
                if kind == "sgd":
                    lines.append(f"sgd {core.fhex(lr)} {core.fhex(opt.momentum)} {int(bool(opt.nesterov))} {core.fhex(w0[j])} {T} " + core.fl(G[:, j]))
                else:
                    lines.append(f"adam {core.fhex(lr)} {core.fhex(opt.beta_1)} {core.fhex(opt.beta_2)} {core.fhex(opt.epsilon)} {core.fhex(w0[j])} {T} " + core.fl(G[:, j]))
                expect.append((kind, [tr[j] for tr in traj], lrs, {"kind": kind, "lr": lr, "w0": float(w0[j]), "grads": G[:, j].tolist()}))
            ctx.count("optim:unit:" + kind)
            if rep % 3 == 0:
                ctx.count("optim:unit:zero-history")
    return lines, expect


def compare(ctx, lines, expect, unit):
    try:
        outs = core.run_driver("Optim", lines)
    except core.DriverBuildError as e:
        ctx.proof["broken"].append({"theorem": "model build (Optim)", "reason": str(e)[-400:]})
        return
    for (kind, ws, lrs, inp), o in zip(expect, outs):
        m = [core.unhex(x) for x in o.split()]
        mw, m2 = m[0::2], m[1::2]
        ctx.compared(unit + ":" + kind)
        ctx.case((unit, kind, repr(inp)), True, None)
        ok = _close(ws, mw, rtol=0.0 if kind == "sgd" else 1e-11)
        if kind == "adam" and lrs is not None:
            ok = ok and _close(lrs, m2, rtol=1e-12)
        if not ok:
            ctx.corr_break(unit + ":" + kind, inp, {"impl": [float(x) for x in ws], "model": mw, "impl_lr": lrs, "model_second": m2})


def fit_cases(ctx, rs, nfits):
    """REAL fits of the non-sparse families with `_update_weights` observed (a transparent wrapper: same call, same objects):
       oracle = the documented optimiser applied to the captured gradients; the Lean model runs on the same histories"""
    E = fl.estimators()
    fams = ["LinearModel", "MLPModel", "RIM", "LinearMMD", "CategoricalModel", "MLPWasserstein"]
    lines, expect = [], []
    for it in range(nfits):
        fam = fams[it % len(fams)]
        cls = E[fam]
        n, d, K = int(rs.randint(5, 10)), int(rs.randint(1, 4)), int(rs.randint(2, 4))
        X = fl.small_data(rs, n, d)
        solver = ["adam", "sgd"][(it // len(fams) + it) % 2]
        lr = float(rs.choice([1e-3, 0.05, 0.5]))
        kw = dict(n_clusters=K, max_iter=int(rs.randint(1, 5)), solver=solver, random_state=int(rs.randint(100)), learning_rate=lr)
        if fl.accepts(cls, "batch_size"):
            kw["batch_size"] = [None, 2, n - 1][rs.randint(3)]
        if fl.accepts(cls, "n_hidden_dim"):
            kw["n_hidden_dim"] = int(rs.randint(1, 4))
        if fl.accepts(cls, "gemini"):
            kw["gemini"] = str(rs.choice(["kl_ova", "mmd_ova", "tv_ovo", "chi2_ova"]))
        inp = {"family": fam, "kw": kw, "X": X.tolist()}
        how = f"gemclus.{fam}(**kw).fit(X) with _update_weights observed; compare the weights after each call with SGD/Adam run on the captured gradients"
        model = cls(**kw)
        hist = []
        orig = model._update_weights

        def spy(weights, gradients, orig=orig, hist=hist, model=model):
            before = [np.array(w, dtype=float, copy=True) for w in weights]
            orig(weights, gradients)
            # read AFTER the call: RIM adds its penalty gradient in place inside `_update_weights`; neither optimiser writes into
            # the gradient arrays, so these are the values the optimiser received
            gs = [np.array(g, dtype=float, copy=True) for g in gradients]
            hist.append((before, gs, [np.array(w, dtype=float, copy=True) for w in weights], id(model.optimiser_), float(model.optimiser_.learning_rate_init)))
        model._update_weights = spy
        try:
            model.fit(X)
        except Exception as e:
            rej = fl.fit_lib_rejection(e) if hasattr(fl, "fit_lib_rejection") else None
            ctx.count("optim:fit:raised:" + type(e).__name__)
            continue
        finally:
            try:
                del model._update_weights
            except Exception:
                pass
        if not hist:
            ctx.count("optim:fit:no-steps")
            continue
        ctx.count(f"optim:fit:{fam}:{solver}")
        final = [np.array(w, dtype=float) for w in model._get_weights()]
        if len({h[3] for h in hist}) != 1 or any(h[4] != lr for h in hist):
            ctx.violation("the optimiser object or its initial learning rate changed during one fit", "optim:fit", inp,
                          expected={"one optimiser": True, "learning_rate_init": lr},
                          actual={"distinct optimiser objects": len({h[3] for h in hist}), "learning_rate_init seen": sorted({h[4] for h in hist})},
                          key=f"optim:fit:object:{fam}:{solver}", how=how)
            continue
        if any(len(h[0]) != len(h[1]) or any(b.shape != g.shape for b, g in zip(h[0], h[1])) for h in hist):
            ctx.count("optim:fit:shape-mismatch")     # judged by the gradient oracle of block (B)
            continue
        w0 = np.concatenate([w.ravel() for w in hist[0][0]])
        G = np.stack([np.concatenate([g.ravel() for g in h[1]]) for h in hist])
        after = [np.concatenate([w.ravel() for w in h[2]]) for h in hist]
        # (1) nothing but the optimiser touches the weights between two calls, and the published model is the last iterate
        for t in range(1, len(hist)):
            b = np.concatenate([w.ravel() for w in hist[t][0]])
            if not np.array_equal(b, after[t - 1]):
                ctx.violation("weights changed between two optimiser calls (not by an update that follows a gradient)", "optim:fit", inp,
                              expected="weights before call t+1 == weights after call t", actual={"step": t, "max diff": float(np.max(np.abs(b - after[t - 1])))},
                              key=f"optim:fit:between:{fam}:{solver}", how=how)
                break
        ff = np.concatenate([w.ravel() for w in final])
        if ff.shape != after[-1].shape or not np.array_equal(ff, after[-1]):
            ctx.violation("the published weights are not the last iterate of the optimiser", "optim:fit", inp,
                          expected="model._get_weights() == weights after the last update", actual={"max diff": float(np.max(np.abs(ff - after[-1]))) if ff.shape == after[-1].shape else "shape"},
                          key=f"optim:fit:final:{fam}:{solver}", how=how)
        # (2) the trajectory is the documented optimiser on the gradients handed over
        bad = None
        for j in range(len(w0)):
            ref = ref_sgd(w0[j], G[:, j], lr) if solver == "sgd" else ref_adam(w0[j], G[:, j], lr)
            got = [a[j] for a in after]
            if not _close(got, ref, rtol=1e-9, atol=1e-14):
                bad = (j, got, [float(x) for x in ref])
                break
        if bad:
            j, got, ref = bad
            ctx.violation(f"update is not the documented {solver} step on the gradient that was computed", "optim:fit", inp,
                          expected={"coordinate": j, "trajectory": ref}, actual={"trajectory": [float(x) for x in got], "gradients": G[:, j].tolist(), "w0": float(w0[j])},
                          key=f"optim:fit:traj:{fam}:{solver}", how=how)
        # (3) the same histories through the Lean model (a few coordinates per fit)
        for j in sorted(set([0, len(w0) - 1] + [int(rs.randint(len(w0))) for _ in range(3)])):
            T = len(hist)
            if solver == "sgd":
                lines.append(f"sgd {core.fhex(lr)} {core.fhex(0.9)} 1 {core.fhex(w0[j])} {T} " + core.fl(G[:, j]))
            else:
                lines.append(f"adam {core.fhex(lr)} {core.fhex(0.9)} {core.fhex(0.999)} {core.fhex(1e-8)} {core.fhex(w0[j])} {T} " + core.fl(G[:, j]))
            expect.append((solver, [a[j] for a in after], None, {"family": fam, "kw": kw, "coordinate": j, "w0": float(w0[j]), "grads": G[:, j].tolist()}))
    return lines, expect


def run_block(ctx, rs):
    quick = ctx.tier == "quick"
    lines, expect = unit_cases(ctx, rs, 8 if quick else 60)
    compare(ctx, lines, expect, "model:optim-unit")
    lines, expect = fit_cases(ctx, rs, 12 if quick else 90)
    compare(ctx, lines, expect, "model:optim-fit")
