"""Shared builders / request lines / oracles for the Douglas properties (C15; later C03)."""
import warnings

import numpy as np

from . import core


# ----------------------------------------------------------------- real objects without a long fit
def build(K, n_cuts, mask, T, X, seed=0):
    """a fitted Douglas (one epoch on tiny data): `_init_params` has run on the real code"""
    from gemclus.tree import Douglas
    m = Douglas(n_clusters=K, n_cuts=n_cuts, feature_mask=None if mask is None else np.asarray(mask, dtype=bool),
                temperature=T, max_iter=1, gemini="kl_ova", random_state=seed)
    with warnings.catch_warnings():
        warnings.simplefilter("ignore")
        m.fit(np.asarray(X, dtype=float))
    return m


def used_of(mask, d):
    return list(range(d)) if mask is None else [i for i in range(d) if mask[i]]


def overwrite(m, cut_list, S):
    """replace the learnt parameters by generated ones (cut order as given: sorted or not)"""
    m.cut_points_list_ = [(int(f), np.array(c, dtype=float)) for f, c in cut_list]
    m.leaf_scores_ = np.array(S, dtype=float)
    return m


# ----------------------------------------------------------------- request lines for Drivers/Douglas.lean
def cl_tokens(cut_list):
    parts = [str(len(cut_list))]
    for f, c in cut_list:
        parts += [str(int(f)), str(len(c)), core.fl(c)] if len(c) else [str(int(f)), "0"]
    return " ".join(parts)


def line_bin(T, x, cuts):
    return f"bin {core.fhex(T)} {len(x)} {len(cuts)} {core.fl(x)} {core.fl(cuts)}"


def line_leaf(T, X, cut_list):
    n, d = X.shape
    return f"leaf {core.fhex(T)} {n} {d} {core.fl(X)} {cl_tokens(cut_list)}"


def line_infer(T, X, cut_list, S):
    n, d = X.shape
    L, K = S.shape
    return f"infer {core.fhex(T)} {n} {d} {core.fl(X)} {cl_tokens(cut_list)} {L} {K} {core.fl(S)}"


def line_grads(T, X, cut_list, S, P, G):
    n, d = X.shape
    L, K = S.shape
    return f"grads {core.fhex(T)} {n} {d} {core.fl(X)} {cl_tokens(cut_list)} {L} {K} {core.fl(S)} {core.fl(P)} {core.fl(G)}"


def line_init(d, n_cuts, mask):
    if mask is None:
        return f"init {d} {n_cuts} 0"
    return f"init {d} {n_cuts} 1 {len(mask)} " + " ".join("1" if b else "0" for b in mask)


def line_active(X, cut_list):
    n, d = X.shape
    return f"active {n} {d} {core.fl(X)} {cl_tokens(cut_list)}"


def parse_bin(ans):
    memb, order, srt, lg = [s.split() for s in ans.split("|")]
    return ([core.unhex(v) for v in memb], [int(v) for v in order], [core.unhex(v) for v in srt],
            [core.unhex(v) for v in lg])


def parse_floats(ans):
    return None if ans.strip() == "error" else [core.unhex(v) for v in ans.split()]


def parse_leaf(ans):
    if ans.strip() == "error":
        return None
    t = ans.split()
    return int(t[0]), [core.unhex(v) for v in t[1:]]


def parse_init(ans):
    if ans.strip() == "error":
        return None
    t = [int(v) for v in ans.split()]
    return t[1:1 + t[0]], t[1 + t[0]]


def parse_active(ans):
    t = ans.split()
    assert t[0] == "cur"
    i = 1
    out = []
    for _ in range(2):
        if t[i] == "error":
            out.append(None)
            i += 1
        else:
            k = int(t[i])
            out.append([int(v) for v in t[i + 1:i + 1 + k]])
            i += 1 + k
        i += 1  # skip "fix"
    return out[0], out[1]


# ----------------------------------------------------------------- oracles written from the property text
def spec_active(X, cut_list):
    """features with at least one cut point strictly inside the range taken by the feature in X"""
    out = []
    for f, cuts in cut_list:
        lo, hi = min(X[:, f].tolist()), max(X[:, f].tolist())
        if any(lo < c < hi for c in list(cuts)):
            out.append(int(f))
    return out


def cell_of(x, cuts):
    """cell of a value along a feature: how many cut points lie below it"""
    return sum(1 for c in list(cuts) if c < x)


def gap_of(X, cut_list):
    """smallest distance between a used feature value and one of its cut points"""
    g = np.inf
    for f, cuts in cut_list:
        g = min(g, float(np.abs(X[:, f][:, None] - np.asarray(cuts)[None, :]).min()))
    return g
