"""Shared helpers to build / instrument real GemClus estimators (C03, C04, C06, C07, C11, C12, C17, C18)."""
import contextlib
import warnings

import numpy as np


def estimators():
    from gemclus import linear, mlp, sparse, nonparametric, tree
    return {
        "LinearModel": linear.LinearModel, "LinearMMD": linear.LinearMMD, "LinearWasserstein": linear.LinearWasserstein,
        "RIM": linear.RIM, "KernelRIM": linear.KernelRIM,
        "MLPModel": mlp.MLPModel, "MLPMMD": mlp.MLPMMD, "MLPWasserstein": mlp.MLPWasserstein,
        "SparseLinearModel": sparse.SparseLinearModel, "SparseLinearMMD": sparse.SparseLinearMMD,
        "SparseLinearMI": sparse.SparseLinearMI, "SparseMLPModel": sparse.SparseMLPModel, "SparseMLPMMD": sparse.SparseMLPMMD,
        "CategoricalModel": nonparametric.CategoricalModel, "CategoricalMMD": nonparametric.CategoricalMMD,
        "CategoricalWasserstein": nonparametric.CategoricalWasserstein,
        "Douglas": tree.Douglas, "Kauri": tree.Kauri,
    }


GEMINI_NAMES = ["mmd_ova", "mmd_ovo", "wasserstein_ova", "wasserstein_ovo", "kl_ova", "kl_ovo", "mi", "tv_ova", "tv_ovo",
                "hellinger_ova", "hellinger_ovo", "chi2_ova", "chi2_ovo"]
GENERIC = ["LinearModel", "MLPModel", "SparseLinearModel", "SparseMLPModel", "CategoricalModel", "Douglas"]


def accepts(cls, name):
    import inspect
    return name in inspect.signature(cls.__init__).parameters


@contextlib.contextmanager
def capture_updates(max_records=None):
    """patch sklearn's BaseOptimizer.update_params; yields the list of recorded (params_before_copy, grads_copy)"""
    from sklearn.neural_network import _stochastic_optimizers as so
    rec = []
    orig = so.BaseOptimizer.update_params

    def patched(self, params, grads):
        if max_records is None or len(rec) < max_records:
            rec.append(([np.array(p, copy=True) for p in params], [np.array(g, copy=True) for g in grads]))
        return orig(self, params, grads)
    so.BaseOptimizer.update_params = patched
    try:
        yield rec
    finally:
        so.BaseOptimizer.update_params = orig


@contextlib.contextmanager
def capture_batches(model):
    """wrap model._batchify (instance attribute) to record every yielded (X_batch, affinity_batch)"""
    rec = []
    inner = model._batchify

    def wrapped(X, affinity_matrix=None, random_state=None):
        for xb, ab in inner(X, affinity_matrix, random_state):
            rec.append((np.array(xb, copy=True), None if ab is None else np.array(ab, copy=True)))
            yield xb, ab
    if hasattr(inner, "indices"):
        wrapped.indices = inner.indices
    model._batchify = wrapped
    try:
        yield rec
    finally:
        try:
            del model._batchify
        except AttributeError:
            pass


def quiet():
    warnings.simplefilter("ignore")
    np.seterr(all="ignore")


def small_data(rs, n, d, scale=1.0):
    centers = rs.randn(3, d) * 2
    X = centers[rs.randint(0, 3, size=n)] + 0.5 * rs.randn(n, d)
    return X * scale
