"""Shared helpers for C11 (forwarding of kernel / metric / GEMINI choices).

Encoding of hyperparameter values for Drivers/Forwarding.lean, reading a live GEMINI object back into the same
description, evaluating the model's symbolic affinity with scikit-learn, named callables (so that a case is
JSON-serialisable and replayable), tiny fits and bitwise comparison of everything a fit produces.
gemclus is imported lazily (sys.path[0] is VERIF_REPO)."""
import ast
import contextlib
import warnings

import numpy as np

from . import fit_lib as fl

# ------------------------------------------------------------------ named callables
CALLABLES_X = {          # kernel(X) -> (n, n)
    "tanhgram": lambda X: np.tanh(np.asarray(X) @ np.asarray(X).T / np.asarray(X).shape[1]),
    "gram1": lambda X: np.asarray(X) @ np.asarray(X).T + 1.0,
}
CALLABLES_XY = {         # base_kernel(X, Y) -> (n, m)
    "cross1": lambda A, B: np.asarray(A) @ np.asarray(B).T + 1.0,
    "crossexp": lambda A, B: np.exp(-0.1 * ((np.asarray(A)[:, None, :] - np.asarray(B)[None, :, :]) ** 2).sum(-1)),
}
CALLABLES_PAIR = {       # kernel(a, b) -> float (scikit-learn's convention for a callable metric)
    "dot1": lambda a, b: float(a @ b) + 1.0,
}
_ALL_CALLABLES = {**CALLABLES_X, **CALLABLES_XY, **CALLABLES_PAIR}
_NAME_OF = {id(f): n for n, f in _ALL_CALLABLES.items()}

KERNELS = [("linear", None), ("rbf", {"gamma": 0.3}), ("poly", {"degree": 2, "coef0": 1}),
           ("polynomial", {"degree": 3, "gamma": 0.5, "coef0": 0.0}), ("sigmoid", {"gamma": 0.1, "coef0": 0.5}),
           ("laplacian", {"gamma": 0.2}), ("cosine", None), ("chi2", {"gamma": 0.5}), ("additive_chi2", None),
           ("rbf", None)]
NONNEG_KERNELS = ("chi2", "additive_chi2")
METRICS = [("euclidean", None), ("euclidean", {"squared": True}), ("l2", None), ("l1", None), ("manhattan", None),
           ("cityblock", None), ("cosine", None)]
KERNEL_PARAM_KEYS = {"rbf": ["gamma"], "poly": ["gamma", "degree", "coef0"], "polynomial": ["gamma", "degree", "coef0"],
                     "sigmoid": ["gamma", "coef0"], "laplacian": ["gamma"], "chi2": ["gamma"], "linear": [],
                     "cosine": [], "additive_chi2": []}
MMD_EST = ["LinearMMD", "MLPMMD", "SparseLinearMMD", "SparseMLPMMD", "CategoricalMMD"]
WASS_EST = ["LinearWasserstein", "MLPWasserstein", "CategoricalWasserstein"]
MI_EST = ["RIM", "KernelRIM", "SparseLinearMI"]
GENERIC_EST = ["LinearModel", "MLPModel", "SparseLinearModel", "SparseMLPModel", "CategoricalModel", "Douglas"]
SPARSE_EST = ["SparseLinearModel", "SparseLinearMMD", "SparseLinearMI", "SparseMLPModel", "SparseMLPMMD"]
DOC_DEFAULT = {"Douglas": "wasserstein_ova"}   # every other generic estimator documents "mmd_ova"
# documented meaning of the 13 names: (class, ovo)
NAME_DOC = {"mmd_ova": ("MMDGEMINI", False), "mmd_ovo": ("MMDGEMINI", True),
            "wasserstein_ova": ("WassersteinGEMINI", False), "wasserstein_ovo": ("WassersteinGEMINI", True),
            "kl_ova": ("KLGEMINI", False), "kl_ovo": ("KLGEMINI", True), "mi": ("KLGEMINI", False),
            "tv_ova": ("TVGEMINI", False), "tv_ovo": ("TVGEMINI", True),
            "hellinger_ova": ("HellingerGEMINI", False), "hellinger_ovo": ("HellingerGEMINI", True),
            "chi2_ova": ("ChiSquareGEMINI", False), "chi2_ovo": ("ChiSquareGEMINI", True)}


# ------------------------------------------------------------------ JSON-able specs <-> live values
def live(v):
    """spec value -> python value: {"callable": name} -> function, {"gemini": {...}} -> instance"""
    if isinstance(v, dict) and set(v) == {"callable"}:
        return _ALL_CALLABLES[v["callable"]]
    if isinstance(v, dict) and set(v) == {"gemini"}:
        import gemclus.gemini as G
        g = v["gemini"]
        return getattr(G, g["cls"])(**{k: live(x) for k, x in g.get("kw", {}).items()})
    if isinstance(v, dict) and set(v) == {"dict"}:
        return dict(v["dict"])
    if isinstance(v, dict) and set(v) == {"items"}:
        return items_dict(v["items"])
    return v


def live_hyper(h):
    return {k: live(v) for k, v in h.items()}


def D(d):
    """a parameter dictionary inside a spec (distinguished from the tagged dicts above)"""
    return None if d is None else {"dict": dict(d)}


def O(items):
    """a parameter dictionary whose KEY ORDER is part of the case: a list of (key, value) pairs (survives any JSON route)"""
    return None if items is None else {"items": [[k, v] for k, v in items]}


def items_dict(items):
    """list of (key, value) pairs -> dict with the keys inserted in that order"""
    if items is None:
        return None
    out = {}
    for k, v in items:
        out[k] = v
    return out


def closed_form_kernel(name, params, X):
    """the kernels with several parameters, from their definition in the scikit-learn user guide (defaults: gamma = 1 /
    n_features, degree = 3, coef0 = 1); None for the kernels not written out here"""
    X = np.asarray(X, float)
    p = dict(params or {})
    G = X @ X.T
    gamma = p.get("gamma")
    gamma = 1.0 / X.shape[1] if gamma is None else gamma
    if name in ("poly", "polynomial"):
        return (gamma * G + p.get("coef0", 1)) ** p.get("degree", 3)
    if name == "sigmoid":
        return np.tanh(gamma * G + p.get("coef0", 1))
    if name == "rbf":
        sq = np.maximum(np.diag(G)[:, None] + np.diag(G)[None, :] - 2 * G, 0)
        return np.exp(-gamma * sq)
    if name == "laplacian":
        return np.exp(-gamma * np.abs(X[:, None, :] - X[None, :, :]).sum(-1))
    if name == "linear":
        return G
    return None


def make(name, hyper):
    return fl.estimators()[name](**live_hyper(hyper))


# ------------------------------------------------------------------ driver encoding
def enc_atom(v):
    if v is None:
        return "n:"
    if isinstance(v, (bool, np.bool_)):
        return "b:1" if v else "b:0"
    if isinstance(v, str):
        return "s:" + v
    if callable(v):
        return "f:" + _NAME_OF.get(id(v), "anon")
    if isinstance(v, dict):
        return "d:" + ",".join(f"{k}={x!r}" for k, x in v.items())
    if isinstance(v, (int, float, np.integer, np.floating)):
        return "t:" + repr(float(v) if isinstance(v, (float, np.floating)) else int(v))
    raise ValueError(f"cannot encode {v!r}")


def eval_owner(g):
    return next(c.__name__ for c in type(g).__mro__ if "evaluate" in c.__dict__)


def describe_live(g):
    """(constructed class, class whose evaluate runs, {attribute: token})"""
    return type(g).__name__, eval_owner(g), {k: enc_atom(v) for k, v in vars(g).items()}


def enc_val(v):
    if hasattr(v, "evaluate") and hasattr(v, "compute_affinity"):
        c, e, attrs = describe_live(v)
        return "g:" + ";".join([c, e] + [f"{k}~{t}" for k, t in attrs.items()])
    return enc_atom(v)


def enc_hyper(h):
    return " ".join(f"{k}={enc_val(v)}" for k, v in h.items())


def parse_resolve(ans):
    """driver answer of `resolve` -> ("ok", ctor, evalCls, {attr: token}) | ("error", name)"""
    parts = ans.split(" ")
    if parts[0] == "error":
        return ("error", parts[1])
    attrs = {}
    for a in (parts[3] if len(parts) > 3 else "").split(";"):
        if a:
            k, t = a.split("~", 1)
            attrs[k] = t
    return ("ok", parts[1], parts[2], attrs)


def parse_params(tok):
    if tok == "-":
        return {}
    out = {}
    for kv in tok.split(","):
        k, v = kv.split("=", 1)
        out[k] = ast.literal_eval(v)
    return out


def eval_sym(ans, X, y=None, train=None):
    """driver answer of `aff`/`kernel` -> (n_warnings, ("ok", matrix-or-None-or-"user") | ("error", name))"""
    from sklearn.metrics import pairwise_kernels, pairwise_distances
    w, st, body = ans.split(" ", 2)
    w = int(w)
    if st == "error":
        return w, ("error", body)
    if body == "none":
        return w, ("ok", None)
    if body == "user":
        return w, ("ok", "user")
    f = body.split(":")
    args = [X if a == "X" else train for a in f[2].split("+")]
    if f[0] == "call":
        return w, ("ok", _ALL_CALLABLES[f[1]](*args))
    fn = {"pairwise_kernels": pairwise_kernels, "pairwise_distances": pairwise_distances}[f[1]]
    metric = f[4] if f[3] == "name" else _ALL_CALLABLES[f[4]]
    return w, ("ok", fn(*args, metric=metric, **parse_params(f[5])))


# ------------------------------------------------------------------ real runs
@contextlib.contextmanager
def gemclus_warnings():
    """records the warnings raised from gemclus' own files"""
    rec = []
    with warnings.catch_warnings(record=True) as ws:
        warnings.simplefilter("always")
        yield rec
    rec.extend(w for w in ws if "gemclus" in (w.filename or ""))


@contextlib.contextmanager
def kauri_transliterated():
    """Kauri on the transliteration of the CURRENT _utils.pyx (no Cython here)"""
    import gemclus.tree.kauri as K
    from . import kauri_lib as kl
    mx = kl.translit(False)
    old = K.find_best_split, K.gemini_objective
    K.find_best_split, K.gemini_objective = mx.find_best_split, mx.gemini_objective
    try:
        yield
    finally:
        K.find_best_split, K.gemini_objective = old


def sk_affinity(kind, name, params, X):
    from sklearn.metrics import pairwise_kernels, pairwise_distances
    fn = pairwise_kernels if kind == "kernel" else pairwise_distances
    return fn(X, metric=name, **(params or {}))


def fitted_state(m):
    """everything a gradient fit leaves behind, as a list of (label, array)"""
    out = [(f"w{i}", np.array(w, copy=True)) for i, w in enumerate(m._get_weights())]
    out.append(("labels_", np.array(m.labels_, copy=True)))
    return out


def kauri_state(m):
    t = m.tree_
    obj = lambda l: np.array([np.nan if v is None else float(v) for v in l])
    return [("labels_", np.array(m.labels_)), ("leaves_", np.array(m.leaves_)),
            ("children_left", np.array(t.children_left)), ("children_right", np.array(t.children_right)),
            ("target", np.array(t.target)), ("thresholds", obj(t.thresholds)), ("features", obj(t.features)),
            ("gains", np.array(t.gains, dtype=float)), ("depths", np.array(t.depths))]


def same_bits(a, b):
    a, b = np.asarray(a), np.asarray(b)
    if a.shape != b.shape:
        return False
    if a.dtype.kind == "f" or b.dtype.kind == "f":
        a, b = a.astype(float), b.astype(float)
        return bool(np.array_equal(a.view(np.uint64) if a.flags.c_contiguous else np.ascontiguousarray(a).view(np.uint64),
                                   b.view(np.uint64) if b.flags.c_contiguous else np.ascontiguousarray(b).view(np.uint64))
                    or np.array_equal(a, b, equal_nan=True))
    return bool(np.array_equal(a, b))


def diff_states(s1, s2):
    """labels of the entries that are not bit-identical"""
    if [l for l, _ in s1] != [l for l, _ in s2]:
        return ["<structure>"]
    return [l for (l, a), (_, b) in zip(s1, s2) if not same_bits(a, b)]


def max_rel(a, b):
    a, b = np.asarray(a, float), np.asarray(b, float)
    if a.shape != b.shape:
        return float("inf")
    if a.size == 0:
        return 0.0
    with np.errstate(all="ignore"):
        d = np.abs(a - b) / np.maximum(1.0, np.maximum(np.abs(a), np.abs(b)))
    d = np.where(np.isnan(a) & np.isnan(b), 0.0, d)
    return float(np.nanmax(d)) if not np.all(np.isnan(d)) else float("inf")


def path_outputs(res):
    best_weights, geminis, penalties, alphas, n_features = res
    out = [(f"best_w{i}", np.array(w)) for i, w in enumerate(best_weights)]
    out += [("geminis", np.array(geminis, dtype=float)), ("penalties", np.array(penalties, dtype=float)),
            ("alphas", np.array(alphas, dtype=float)), ("n_features", np.array(n_features))]
    return out


def data(rs, n, d, nonneg=False):
    X = fl.small_data(rs, n, d)
    return np.abs(X) + 0.1 if nonneg else X
