"""C13 — GEMINI scores obey their invariances and bounds."""
import math

import numpy as np

from .. import core, gemini_lib as gl
from . import c01


def closed_P(rs, n, K, kind):
    if kind == "onehot":
        lab = rs.randint(0, K, size=n)
        P = np.zeros((n, K))
        P[np.arange(n), lab] = 1.0
        return P
    if kind == "mixed":
        P = gl.gen_P(rs, n, K, "soft")
        for i in range(0, n, 2):
            P[i] = 0
            P[i, rs.randint(K)] = 1.0
        return P
    if kind == "zeros":
        P = gl.gen_P(rs, n, K, "dirichlet")
        P[:, rs.randint(K)] = 0.0
        return P / P.sum(1, keepdims=True)
    return gl.gen_P(rs, n, K, kind)


def ev(cls, ovo, P, A, grad=True):
    (r, _) = gl.impl_eval(cls, ovo, 1e-12, P, A, grad=grad)
    return r


def run(ctx):
    ctx.rule = ("12 configurations x shapes x simplex points incl. the closed simplex (one-hot rows, zero columns) x random "
                "sample/cluster permutations, appended empty cluster, sample-independent predictions, balanced hard partitions; "
                "non-trivial = P not constant across rows; slack on the boundary = 4*K*eps*(1+|log eps|) * scale (DESIGN 12)")
    c01.regen(ctx)          # Gen/Geminis.lean (and the registry) follow the current source before the theorems are re-checked
    ctx.do_prove()
    eps = 1e-12
    reps = 6 if ctx.tier == "quick" else 200
    rs = np.random.RandomState(ctx.seed * 613 + 13)
    lines, expect = [], []
    how = "gemclus.gemini.<Class>(ovo, kernel/metric='precomputed')(P, A, return_grad=True) on the transformed inputs"
    for cls, ovo in gl.CONFIGS:
        cfg = f"{cls}_{'ovo' if ovo else 'ova'}"
        for r in range(reps):
            n = int(rs.randint(2, 8)); K = int(rs.randint(2, 6))
            kind = ["soft", "onehot", "mixed", "zeros", "sharp", "near_uniform"][r % 6]
            if r % 3 == 0:
                n = K       # square predictions: as many samples as clusters (a layout guessed from the shape cannot tell P from P.T there)
                ctx.count("square_P")
            P = closed_P(rs, n, K, kind)
            A = None
            if cls == "mmd":
                A = gl.gen_affinity(rs, n, gl.KERNELS[r % len(gl.KERNELS)])
            if cls == "wass":
                A = gl.gen_affinity(rs, n, gl.METRICS[r % len(gl.METRICS)])
            scale = 1.0 if A is None else max(1.0, float(np.abs(A).max()))
            slack = 4 * (K + 1) * eps * (1 + abs(math.log(eps))) * scale * 10
            inp = {"config": cfg, "kind": kind, "P": P.tolist(), "A": None if A is None else A.tolist()}
            ctx.case((cfg, P.tobytes(), None if A is None else A.tobytes()), bool(np.ptp(P, axis=0).max() > 1e-9),
                     {"config": cfg, "kind": kind, "n": n, "K": K})
            ctx.count("kind:" + kind)
            try:
                s, G = ev(cls, ovo, P, A)
                s = float(s); G = np.asarray(G, float)
            except Exception as e:
                ctx.violation(f"evaluate raised on the closed simplex: {type(e).__name__}: {e}", "closed", inp, key=f"raise:{cfg}", how=how)
                continue
            if not (np.isfinite(s) and np.isfinite(G).all()):
                ctx.violation("score or gradient not finite on the closed simplex", "finite", inp, actual=s, key=f"finite:{cfg}", how=how)
                continue
            tolr = 1e-9 if cls not in ("mmd", "wass") else 1e-7
            # next to a zero MMD distance the gradient is ill-conditioned (gemini_lib.mmd_conditioning): scores are still
            # compared, gradients are not (any two correct implementations, or summation orders, differ there)
            illc = cls == "mmd" and gl.mmd_conditioning(P, A, ovo, eps) < 1e-6
            if illc:
                ctx.count("illconditioned_gradient_not_compared:mmd-near-zero-distance")
            gclose = (lambda a, b: True) if illc else (lambda a, b: core.close_vec(a, b, rtol=1e-6))
            # model correspondence on the closed simplex (score; gradients for the non-POT classes)
            if cls != "wass":
                lines.append(gl.model_line("score", cls, ovo, eps, P, A)); expect.append(("score:" + cfg, inp, [s], scale))
                if not illc:
                    lines.append(gl.model_line("grad", cls, ovo, eps, P, A)); expect.append(("grad:" + cfg, inp, G.ravel().tolist(), scale))
            # sample permutation
            sg = rs.permutation(n)
            A2 = None if A is None else A[sg][:, sg]
            s2, G2 = ev(cls, ovo, P[sg], A2)
            if not core.close(s, float(s2), rtol=tolr * scale, atol=tolr * scale) or not gclose(G[sg].ravel().tolist(), np.asarray(G2).ravel().tolist()):
                ctx.violation(f"not invariant under a sample permutation: {s} vs {float(s2)}", "sample-perm", {**inp, "perm": sg.tolist()}, key=f"sample-perm:{cfg}", how=how)
            # the same with ONE object evaluated on the original and then on the re-ordered input (what a training loop does with
            # re-shuffled batches): the second answer must be the re-ordered first one as well
            try:
                shared = gl.real_gemini(cls, ovo, 1e-12)
                Aarg = A if cls in ("mmd", "wass") else None
                s1b, G1b = shared.evaluate(P.copy(), Aarg, return_grad=True)
                s2b, G2b = shared.evaluate(P[sg].copy(), A2 if cls in ("mmd", "wass") else None, return_grad=True)
                if not core.close(float(s1b), float(s2b), rtol=tolr * scale, atol=tolr * scale) or \
                        not gclose(np.asarray(G1b, float)[sg].ravel().tolist(), np.asarray(G2b, float).ravel().tolist()):
                    ctx.violation("one object evaluated on an input and then on the same input with the samples re-ordered: the second gradient is "
                                  "not the re-ordered first one", "sample-perm", {**inp, "perm": sg.tolist(), "same_object": True},
                                  key=f"sample-perm-same-object:{cfg}", how="g = <Class>(...); g.evaluate(P, A, True); g.evaluate(P[s], A[s][:, s], True)")
                ctx.count("sample-perm:same-object")
            except Exception as e:
                ctx.violation(f"second evaluation on one object raised {type(e).__name__}: {e}", "sample-perm", {**inp, "perm": sg.tolist()},
                              key=f"sample-perm-same-object-raise:{cfg}", how=how)
            # cluster permutation
            tau = rs.permutation(K)
            s3, G3 = ev(cls, ovo, P[:, tau], A)
            if not core.close(s, float(s3), rtol=tolr * scale, atol=tolr * scale) or not gclose(G[:, tau].ravel().tolist(), np.asarray(G3).ravel().tolist()):
                ctx.violation(f"not invariant under a cluster permutation: {s} vs {float(s3)}", "cluster-perm", {**inp, "perm": tau.tolist()}, key=f"cluster-perm:{cfg}", how=how)
            # empty cluster, appended and inserted at another position (front / middle): where the empty column sits is a
            # relabelling and must not matter either
            for pos in sorted({K, int(rs.randint(0, K))}):
                Pe = np.insert(P, pos, 0.0, axis=1)
                try:
                    s4, G4 = ev(cls, ovo, Pe, A)
                    if not core.close(s, float(s4), rtol=0, atol=slack + tolr * scale * max(1, abs(s))):
                        ctx.violation(f"adding an empty cluster at position {pos} changes the score: {s} -> {float(s4)}", "empty-cluster",
                                      {**inp, "position": pos}, key=f"empty:{cfg}", how=how)
                    G4 = np.asarray(G4)
                    if not (G4[:, pos] == 0).all():
                        ctx.violation(f"the empty cluster (position {pos}) receives a non-zero gradient", "empty-cluster", {**inp, "position": pos},
                                      key=f"empty-grad:{cfg}", how=how)
                    # the other clusters keep their gradient (up to the documented slack of the clipping)
                    rest = np.delete(G4, pos, axis=1)
                    gs = float(np.abs(G).max()) if G.size else 0.0
                    if not illc and cls != "wass" and np.abs(rest - G).max() > 1e-6 * max(gs, 1e-12) + 10 * slack:
                        ctx.violation(f"adding an empty cluster at position {pos} changes the gradient of the other clusters by "
                                      f"{float(np.abs(rest - G).max())}", "empty-cluster", {**inp, "position": pos}, key=f"empty-othergrad:{cfg}", how=how)
                    ctx.count("empty-cluster:appended" if pos == K else "empty-cluster:inserted")
                except Exception as e:
                    ctx.violation(f"adding an empty cluster at position {pos} raises {type(e).__name__}: {e}", "empty-cluster", {**inp, "position": pos},
                                  key=f"empty-raise:{cfg}", how=how)
            # bounds
            lo = 0.5 if cls == "chi2" else 0.0
            if s < lo - slack - 1e-12:
                ctx.violation(f"score {s} below its lower bound {lo}", "bounds", inp, key=f"nonneg:{cfg}", how=how)
            if cls in ("tv", "hellinger") and s > 1 + slack + 1e-12:
                ctx.violation(f"score {s} exceeds 1", "bounds", inp, key=f"le1:{cfg}", how=how)
            ctx.compared("invariances:" + cfg)
        # predictions that do not depend on the sample
        n, K = int(rs.randint(2, 7)), int(rs.randint(2, 5))
        row = gl.gen_P(rs, 1, K, "soft")
        P = np.repeat(row, n, axis=0)
        A = gl.gen_affinity(rs, n, "rbf" if cls == "mmd" else "euclidean") if cls in ("mmd", "wass") else None
        s = float(ev(cls, ovo, P, A, grad=False))
        want = 0.5 if cls == "chi2" else 0.0
        tol = 1e-7 * (1 if A is None else max(1.0, float(np.abs(A).max()))) if cls in ("mmd", "wass") else 1e-10
        if abs(s - want) > tol:
            ctx.violation(f"sample-independent predictions give {s}, expected {want}", "independence", {"config": cfg, "P": P.tolist(), "A": None if A is None else A.tolist()}, key=f"indep:{cfg}", how=how)
        ctx.compared("independence:" + cfg)
    # gradients handed out by one object for an input and for its re-ordered version must both survive (no shared work array):
    # the reuse sequences of C01 keep every returned gradient and re-read it after the later calls
    c01.reuse_sequences(ctx, eps, grad=True)
    # many samples and many clusters (N x K x K intermediates no longer fit a cache line, a block, a chunk ...): the invariances and
    # the definition must hold there as well; hard assignments handed over as integer / boolean arrays are the same predictions
    for cls, ovo in [c for c in gl.CONFIGS if c[0] != "wass"]:
        cfg = f"{cls}_{'ovo' if ovo else 'ova'}"
        n, K = [(500, 12), (300, 16), (150, 30), (456, 12)][rs.randint(4)]
        P = gl.gen_P(rs, n, K, "soft")
        P = P[np.argsort(P.max(1))]
        A = gl.gen_affinity(rs, n, "rbf") if cls == "mmd" else None
        s0 = float(ev(cls, ovo, P, A, grad=False))
        sg = rs.permutation(n)
        s1 = float(ev(cls, ovo, P[sg], None if A is None else A[sg][:, sg], grad=False))
        want = gl.spec_score(cls, ovo, P, A)
        tol = 2e-6 * math.sqrt(max(1.0, float(np.abs(A).max()))) if cls == "mmd" else 1e-9
        ctx.compared("large:" + cfg)
        ctx.case(("large", cfg, n, K), True, None)
        if not core.close(s0, s1, rtol=tol, atol=tol):
            ctx.violation(f"n={n}, K={K}: the score changes from {s0} to {s1} when the samples are reordered", "sample-perm",
                          {"config": cfg, "n": n, "K": K, "seed_note": "P = gen_P(soft) sorted by confidence"}, key=f"sample-perm-large:{cfg}", how=how)
        if not core.close(s0, want, rtol=tol, atol=tol):
            ctx.violation(f"n={n}, K={K}: score {s0} differs from the documented definition {want}", "score",
                          {"config": cfg, "n": n, "K": K}, expected=want, actual=s0, key=f"score-large:{cfg}", how=how)
        # hard assignments as integer / boolean arrays
        m = int(rs.randint(2, 5)); Kh = int(rs.randint(2, 5))
        lab = np.repeat(np.arange(Kh), m); rs.shuffle(lab)
        H = np.zeros((Kh * m, Kh)); H[np.arange(Kh * m), lab] = 1.0
        Ah = gl.gen_affinity(rs, Kh * m, "rbf") if cls == "mmd" else None
        ref = float(ev(cls, ovo, H, Ah, grad=False))
        for dt in (np.int64, np.int32, np.uint8, bool):
            try:
                got = float(ev(cls, ovo, H.astype(dt), Ah, grad=False))
            except Exception as e:
                ctx.violation(f"hard assignments given as a {np.dtype(dt).name} array: evaluate raised {type(e).__name__}: {e}", "closed",
                              {"config": cfg, "P": H.tolist(), "dtype": np.dtype(dt).name}, key=f"dtype-raise:{cfg}", how=how)
                continue
            ctx.compared("dtype:" + cfg)
            if not (np.isfinite(got) and core.close(got, ref, rtol=1e-9, atol=1e-9)):
                ctx.violation(f"hard assignments given as a {np.dtype(dt).name} array score {got}, the same matrix in float64 scores {ref}", "closed",
                              {"config": cfg, "P": H.tolist(), "dtype": np.dtype(dt).name}, expected=ref, actual=got, key=f"dtype:{cfg}", how=how)
    # MI of a balanced hard K-partition is log K
    import gemclus.gemini as G
    for K in (2, 3, 4, 5):
        m = int(rs.randint(1, 4))
        lab = np.repeat(np.arange(K), m)
        rs.shuffle(lab)
        P = np.zeros((K * m, K)); P[np.arange(K * m), lab] = 1.0
        for g, nm in ((G.MI(), "MI"), (G.KLGEMINI(ovo=False), "kl_ova")):
            s = float(g(P, None))
            ctx.compared("logK")
            if abs(s - math.log(K)) > 1e-9:
                ctx.violation(f"{nm} of a balanced hard {K}-partition is {s}, expected log K = {math.log(K)}", "logK", {"P": P.tolist()}, key="logK", how=how)
    try:
        outs = core.run_driver("Gemini", lines)
    except core.DriverBuildError as e:
        ctx.proof["broken"].append({"theorem": "model build", "reason": str(e)[-400:]})
        outs = []
    for (unit, inp, vals, scale), o in zip(expect, outs):
        m = [core.unhex(x) for x in o.split()]
        ctx.compared("closed:" + unit)
        # an MMD distance is the square root of a difference of O(scale) terms: where that difference cancels (identical
        # cluster conditionals, e.g. hard labels all in one cluster) its rounding noise 1e-16*scale becomes 1e-8*sqrt(scale)
        atol = 2e-7 * math.sqrt(scale) if unit.startswith("score:mmd") else 1e-9 * scale
        ok = core.close(vals[0], m[0], rtol=1e-9 * scale, atol=atol) if len(vals) == 1 else core.close_vec(vals, m, rtol=1e-7)
        if not ok:
            ctx.corr_break("closed:" + unit, inp, {"impl": vals, "model": m})
    return ctx.finish()
